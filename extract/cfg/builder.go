// Vendored unchanged from golang.org/x/tools v0.29.0 go/cfg (BSD-style license, see LICENSE in this directory).
// Copyright 2016 The Go Authors. All rights reserved.
// Use of this source code is governed by a BSD-style
// license that can be found in the LICENSE file.

package cfg

// This file implements the CFG construction pass.

import (
	"fmt"
	"go/ast"
	"go/token"
)

type builder struct {
	cfg       *CFG
	mayReturn func(*ast.CallExpr) bool
	current   *Block
	lblocks   map[string]*lblock // labeled blocks
	targets   *targets           // linked stack of branch targets
}

func (b *builder) stmt(_s ast.Stmt) {
	// The label of the current statement.  If non-nil, its _goto
	// target is always set; its _break and _continue are set only
	// within the body of switch/typeswitch/select/for/range.
	// It is effectively an additional default-nil parameter of stmt().
	var label *lblock
start:
	switch s := _s.(type) {
	case *ast.BadStmt,
		*ast.SendStmt,
		*ast.IncDecStmt,
		*ast.GoStmt,
		*ast.DeferStmt,
		*ast.EmptyStmt,
		*ast.AssignStmt:
		// No effect on control flow.
		b.add(s)

	case *ast.ExprStmt:
		b.add(s)
		if call, ok := s.X.(*ast.CallExpr); ok && !b.mayReturn(call) {
			// Calls to panic, os.Exit, etc, never return.
			b.current = b.newBlock(KindUnreachable, s)
		}

	case *ast.DeclStmt:
		// Treat each var ValueSpec as a separate statement.
		d := s.Decl.(*ast.GenDecl)
		if d.Tok == token.VAR {
			for _, spec := range d.Specs {
				if spec, ok := spec.(*ast.ValueSpec); ok {
					b.add(spec)
				}
			}
		}

	case *ast.LabeledStmt:
		label = b.labeledBlock(s.Label, s)
		b.jump(label._goto)
		b.current = label._goto
		_s = s.Stmt
		goto start // effectively: tailcall stmt(g, s.Stmt, label)

	case *ast.ReturnStmt:
		b.add(s)
		b.current = b.newBlock(KindUnreachable, s)

	case *ast.BranchStmt:
		b.branchStmt(s)

	case *ast.BlockStmt:
		b.stmtList(s.List)

	case *ast.IfStmt:
		if s.Init != nil {
			b.stmt(s.Init)
		}
		then := b.newBlock(KindIfThen, s)
		done := b.newBlock(KindIfDone, s)
		_else := done
		if s.Else != nil {
			_else = b.newBlock(KindIfElse, s)
		}
		b.add(s.Cond)
		b.ifelse(then, _else)
		b.current = then
		b.stmt(s.Body)
		b.jump(done)

		if s.Else != nil {
			b.current = _else
			b.stmt(s.Else)
			b.jump(done)
		}

		b.current = done

	case *ast.SwitchStmt:
		b.switchStmt(s, label)

	case *ast.TypeSwitchStmt:
		b.typeSwitchStmt(s, label)

	case *ast.SelectStmt:
		b.selectStmt(s, label)

	case *ast.ForStmt:
		b.forStmt(s, label)

	case *ast.RangeStmt:
		b.rangeStmt(s, label)

	default:
		panic(fmt.Sprintf("unexpected statement kind: %T", s))
	}
}

func (b *builder) stmtList(list []ast.Stmt) {
	for _, s := range list {
		b.stmt(s)
	}
}

func (b *builder) branchStmt(s *ast.BranchStmt) {
	var block *Block
	switch s.Tok {
	case token.BREAK:
		if s.Label != nil {
			if lb := b.labeledBlock(s.Label, nil); lb != nil {
				block = lb._break
			}
		} else {
			for t := b.targets; t != nil && block == nil; t = t.tail {
				block = t._break
			}
		}

	case token.CONTINUE:
		if s.Label != nil {
			if lb := b.labeledBlock(s.Label, nil); lb != nil {
				block = lb._continue
			}
		} else {
			for t := b.targets; t != nil && block == nil; t = t.tail {
				block = t._continue
			}
		}

	case token.FALLTHROUGH:
		for t := b.targets; t != nil && block == nil; t = t.tail {
			block = t._fallthrough
		}

	case token.GOTO:
		if s.Label != nil {
			block = b.labeledBlock(s.Label, nil)._goto
		}
	}
	if block == nil { // ill-typed (e.g. undefined label)
		block = b.newBlock(KindUnreachable, s)
	}
	b.jump(block)
	b.current = b.newBlock(KindUnreachable, s)
}

func (b *builder) switchStmt(s *ast.SwitchStmt, label *lblock) {
	if s.Init != nil {
		b.stmt(s.Init)
	}
	if s.Tag != nil {
		b.add(s.Tag)
	}
	done := b.newBlock(KindSwitchDone, s)
	if label != nil {
		label._break = done
	}
	// We pull the default case (if present) down to the end.
	// But each fallthrough label must point to the next
	// body block in source order, so we preallocate a
	// body block (fallthru) for the next case.
	// Unfortunately this makes for a confusing block order.
	var defaultBody *[]ast.Stmt
	var defaultFallthrough *Block
	var fallthru, defaultBlock *Block
	ncases := len(s.Body.List)
	for i, clause := range s.Body.List {
		body := fallthru
		if body == nil {
			body = b.newBlock(KindSwitchCaseBody, clause) // first case only
		}

		// Preallocate body block for the next case.
		fallthru = done
		if i+1 < ncases {
			fallthru = b.newBlock(KindSwitchCaseBody, s.Body.List[i+1])
		}

		cc := clause.(*ast.CaseClause)
		if cc.List == nil {
			// Default case.
			defaultBody = &cc.Body
			defaultFallthrough = fallthru
			defaultBlock = body
			continue
		}

		var nextCond *Block
		for _, cond := range cc.List {
			nextCond = b.newBlock(KindSwitchNextCase, cc)
			b.add(cond) // one half of the tag==cond condition
			b.ifelse(body, nextCond)
			b.current = nextCond
		}
		b.current = body
		b.targets = &targets{
			tail:         b.targets,
			_break:       done,
			_fallthrough: fallthru,
		}
		b.stmtList(cc.Body)
		b.targets = b.targets.tail
		b.jump(done)
		b.current = nextCond
	}
	if defaultBlock != nil {
		b.jump(defaultBlock)
		b.current = defaultBlock
		b.targets = &targets{
			tail:         b.targets,
			_break:       done,
			_fallthrough: defaultFallthrough,
		}
		b.stmtList(*defaultBody)
		b.targets = b.targets.tail
	}
	b.jump(done)
	b.current = done
}

func (b *builder) typeSwitchStmt(s *ast.TypeSwitchStmt, label *lblock) {
	if s.Init != nil {
		b.stmt(s.Init)
	}
	if s.Assign != nil {
		b.add(s.Assign)
	}

	done := b.newBlock(KindSwitchDone, s)
	if label != nil {
		label._break = done
	}
	var default_ *ast.CaseClause
	for _, clause := range s.Body.List {
		cc := clause.(*ast.CaseClause)
		if cc.List == nil {
			default_ = cc
			continue
		}
		body := b.newBlock(KindSwitchCaseBody, cc)
		var next *Block
		for _, casetype := range cc.List {
			next = b.newBlock(KindSwitchNextCase, cc)
			// casetype is a type, so don't call b.add(casetype).
			// This block logically contains a type assertion,
			// x.(casetype), but it's unclear how to represent x.
			_ = casetype
			b.ifelse(body, next)
			b.current = next
		}
		b.current = body
		b.typeCaseBody(cc, done)
		b.current = next
	}
	if default_ != nil {
		b.typeCaseBody(default_, done)
	} else {
		b.jump(done)
	}
	b.current = done
}

func (b *builder) typeCaseBody(cc *ast.CaseClause, done *Block) {
	b.targets = &targets{
		tail:   b.targets,
		_break: done,
	}
	b.stmtList(cc.Body)
	b.targets = b.targets.tail
	b.jump(done)
}

func (b *builder) selectStmt(s *ast.SelectStmt, label *lblock) {
	// First evaluate channel expressions.
	// TODO(adonovan): fix: evaluate only channel exprs here.
	for _, clause := range s.Body.List {
		if comm := clause.(*ast.CommClause).Comm; comm != nil {
			b.stmt(comm)
		}
	}

	done := b.newBlock(KindSelectDone, s)
	if label != nil {
		label._break = done
	}

	var defaultBody *[]ast.Stmt
	for _, cc := range s.Body.List {
		clause := cc.(*ast.CommClause)
		if clause.Comm == nil {
			defaultBody = &clause.Body
			continue
		}
		body := b.newBlock(KindSelectCaseBody, clause)
		next := b.newBlock(KindSelectAfterCase, clause)
		b.ifelse(body, next)
		b.current = body
		b.targets = &targets{
			tail:   b.targets,
			_break: done,
		}
		switch comm := clause.Comm.(type) {
		case *ast.ExprStmt: // <-ch
			// nop
		case *ast.AssignStmt: // x := <-states[state].Chan
			b.add(comm.Lhs[0])
		}
		b.stmtList(clause.Body)
		b.targets = b.targets.tail
		b.jump(done)
		b.current = next
	}
	if defaultBody != nil {
		b.targets = &targets{
			tail:   b.targets,
			_break: done,
		}
		b.stmtList(*defaultBody)
		b.targets = b.targets.tail
		b.jump(done)
	}
	b.current = done
}

func (b *builder) forStmt(s *ast.ForStmt, label *lblock) {
	//	...init...
	//      jump loop
	// loop:
	//      if cond goto body else done
	// body:
	//      ...body...
	//      jump post
	// post:				 (target of continue)
	//      ...post...
	//      jump loop
	// done:                                 (target of break)
	if s.Init != nil {
		b.stmt(s.Init)
	}
	body := b.newBlock(KindForBody, s)
	done := b.newBlock(KindForDone, s) // target of 'break'
	loop := body                       // target of back-edge
	if s.Cond != nil {
		loop = b.newBlock(KindForLoop, s)
	}
	cont := loop // target of 'continue'
	if s.Post != nil {
		cont = b.newBlock(KindForPost, s)
	}
	if label != nil {
		label._break = done
		label._continue = cont
	}
	b.jump(loop)
	b.current = loop
	if loop != body {
		b.add(s.Cond)
		b.ifelse(body, done)
		b.current = body
	}
	b.targets = &targets{
		tail:      b.targets,
		_break:    done,
		_continue: cont,
	}
	b.stmt(s.Body)
	b.targets = b.targets.tail
	b.jump(cont)

	if s.Post != nil {
		b.current = cont
		b.stmt(s.Post)
		b.jump(loop) // back-edge
	}
	b.current = done
}

func (b *builder) rangeStmt(s *ast.RangeStmt, label *lblock) {
	b.add(s.X)

	if s.Key != nil {
		b.add(s.Key)
	}
	if s.Value != nil {
		b.add(s.Value)
	}

	//      ...
	// loop:                                   (target of continue)
	// 	if ... goto body else done
	// body:
	//      ...
	// 	jump loop
	// done:                                   (target of break)

	loop := b.newBlock(KindRangeLoop, s)
	b.jump(loop)
	b.current = loop

	body := b.newBlock(KindRangeBody, s)
	done := b.newBlock(KindRangeDone, s)
	b.ifelse(body, done)
	b.current = body

	if label != nil {
		label._break = done
		label._continue = loop
	}
	b.targets = &targets{
		tail:      b.targets,
		_break:    done,
		_continue: loop,
	}
	b.stmt(s.Body)
	b.targets = b.targets.tail
	b.jump(loop) // back-edge
	b.current = done
}

// -------- helpers --------

// Destinations associated with unlabeled for/switch/select stmts.
// We push/pop one of these as we enter/leave each construct and for
// each BranchStmt we scan for the innermost target of the right type.
type targets struct {
	tail         *targets // rest of stack
	_break       *Block
	_continue    *Block
	_fallthrough *Block
}

// Destinations associated with a labeled block.
// We populate these as labels are encountered in forward gotos or
// labeled statements.
type lblock struct {
	_goto     *Block
	_break    *Block
	_continue *Block
}

// labeledBlock returns the branch target associated with the
// specified label, creating it if needed.
func (b *builder) labeledBlock(label *ast.Ident, stmt *ast.LabeledStmt) *lblock {
	lb := b.lblocks[label.Name]
	if lb == nil {
		lb = &lblock{_goto: b.newBlock(KindLabel, nil)}
		if b.lblocks == nil {
			b.lblocks = make(map[string]*lblock)
		}
		b.lblocks[label.Name] = lb
	}
	// Fill in the label later (in case of forward goto).
	// Stmt may be set already if labels are duplicated (ill-typed).
	if stmt != nil && lb._goto.Stmt == nil {
		lb._goto.Stmt = stmt
	}
	return lb
}

// newBlock appends a new unconnected basic block to b.cfg's block
// slice and returns it.
// It does not automatically become the current block.
// comment is an optional string for more readable debugging output.
func (b *builder) newBlock(kind BlockKind, stmt ast.Stmt) *Block {
	g := b.cfg
	block := &Block{
		Index: int32(len(g.Blocks)),
		Kind:  kind,
		Stmt:  stmt,
	}
	block.Succs = block.succs2[:0]
	g.Blocks = append(g.Blocks, block)
	return block
}

func (b *builder) add(n ast.Node) {
	b.current.Nodes = append(b.current.Nodes, n)
}

// jump adds an edge from the current block to the target block,
// and sets b.current to nil.
func (b *builder) jump(target *Block) {
	b.current.Succs = append(b.current.Succs, target)
	b.current = nil
}

// ifelse emits edges from the current block to the t and f blocks,
// and sets b.current to nil.
func (b *builder) ifelse(t, f *Block) {
	b.current.Succs = append(b.current.Succs, t, f)
	b.current = nil
}
