// Vendored unchanged from golang.org/x/tools v0.29.0 go/cfg (BSD-style license, see LICENSE in this directory).
// Copyright 2016 The Go Authors. All rights reserved.
// Use of this source code is governed by a BSD-style
// license that can be found in the LICENSE file.

// Package cfg constructs a simple control-flow graph (CFG) of the
// statements and expressions within a single function.
//
// Use cfg.New to construct the CFG for a function body.
//
// The blocks of the CFG contain all the function's non-control
// statements.  The CFG does not contain control statements such as If,
// Switch, Select, and Branch, but does contain their subexpressions;
// also, each block records the control statement (Block.Stmt) that
// gave rise to it and its relationship (Block.Kind) to that statement.
//
// For example, this source code:
//
//	if x := f(); x != nil {
//		T()
//	} else {
//		F()
//	}
//
// produces this CFG:
//
//	1:  x := f()		Body
//	    x != nil
//	    succs: 2, 3
//	2:  T()			IfThen
//	    succs: 4
//	3:  F()			IfElse
//	    succs: 4
//	4:			IfDone
//
// The CFG does contain Return statements; even implicit returns are
// materialized (at the position of the function's closing brace).
//
// The CFG does not record conditions associated with conditional branch
// edges, nor the short-circuit semantics of the && and || operators,
// nor abnormal control flow caused by panic.  If you need this
// information, use golang.org/x/tools/go/ssa instead.
package cfg

import (
	"bytes"
	"fmt"
	"go/ast"
	"go/format"
	"go/token"
)

// A CFG represents the control-flow graph of a single function.
//
// The entry point is Blocks[0]; there may be multiple return blocks.
type CFG struct {
	fset   *token.FileSet
	Blocks []*Block // block[0] is entry; order otherwise undefined
}

// A Block represents a basic block: a list of statements and
// expressions that are always evaluated sequentially.
//
// A block may have 0-2 successors: zero for a return block or a block
// that calls a function such as panic that never returns; one for a
// normal (jump) block; and two for a conditional (if) block.
type Block struct {
	Nodes []ast.Node // statements, expressions, and ValueSpecs
	Succs []*Block   // successor nodes in the graph
	Index int32      // index within CFG.Blocks
	Live  bool       // block is reachable from entry
	Kind  BlockKind  // block kind
	Stmt  ast.Stmt   // statement that gave rise to this block (see BlockKind for details)

	succs2 [2]*Block // underlying array for Succs
}

// A BlockKind identifies the purpose of a block.
// It also determines the possible types of its Stmt field.
type BlockKind uint8

const (
	KindInvalid BlockKind = iota // Stmt=nil

	KindUnreachable     // unreachable block after {Branch,Return}Stmt / no-return call ExprStmt
	KindBody            // function body BlockStmt
	KindForBody         // body of ForStmt
	KindForDone         // block after ForStmt
	KindForLoop         // head of ForStmt
	KindForPost         // post condition of ForStmt
	KindIfDone          // block after IfStmt
	KindIfElse          // else block of IfStmt
	KindIfThen          // then block of IfStmt
	KindLabel           // labeled block of BranchStmt (Stmt may be nil for dangling label)
	KindRangeBody       // body of RangeStmt
	KindRangeDone       // block after RangeStmt
	KindRangeLoop       // head of RangeStmt
	KindSelectCaseBody  // body of SelectStmt
	KindSelectDone      // block after SelectStmt
	KindSelectAfterCase // block after a CommClause
	KindSwitchCaseBody  // body of CaseClause
	KindSwitchDone      // block after {Type.}SwitchStmt
	KindSwitchNextCase  // secondary expression of a multi-expression CaseClause
)

func (kind BlockKind) String() string {
	return [...]string{
		KindInvalid:         "Invalid",
		KindUnreachable:     "Unreachable",
		KindBody:            "Body",
		KindForBody:         "ForBody",
		KindForDone:         "ForDone",
		KindForLoop:         "ForLoop",
		KindForPost:         "ForPost",
		KindIfDone:          "IfDone",
		KindIfElse:          "IfElse",
		KindIfThen:          "IfThen",
		KindLabel:           "Label",
		KindRangeBody:       "RangeBody",
		KindRangeDone:       "RangeDone",
		KindRangeLoop:       "RangeLoop",
		KindSelectCaseBody:  "SelectCaseBody",
		KindSelectDone:      "SelectDone",
		KindSelectAfterCase: "SelectAfterCase",
		KindSwitchCaseBody:  "SwitchCaseBody",
		KindSwitchDone:      "SwitchDone",
		KindSwitchNextCase:  "SwitchNextCase",
	}[kind]
}

// New returns a new control-flow graph for the specified function body,
// which must be non-nil.
//
// The CFG builder calls mayReturn to determine whether a given function
// call may return.  For example, calls to panic, os.Exit, and log.Fatal
// do not return, so the builder can remove infeasible graph edges
// following such calls.  The builder calls mayReturn only for a
// CallExpr beneath an ExprStmt.
func New(body *ast.BlockStmt, mayReturn func(*ast.CallExpr) bool) *CFG {
	b := builder{
		mayReturn: mayReturn,
		cfg:       new(CFG),
	}
	b.current = b.newBlock(KindBody, body)
	b.stmt(body)

	// Compute liveness (reachability from entry point), breadth-first.
	q := make([]*Block, 0, len(b.cfg.Blocks))
	q = append(q, b.cfg.Blocks[0]) // entry point
	for len(q) > 0 {
		b := q[len(q)-1]
		q = q[:len(q)-1]

		if !b.Live {
			b.Live = true
			q = append(q, b.Succs...)
		}
	}

	// Does control fall off the end of the function's body?
	// Make implicit return explicit.
	if b.current != nil && b.current.Live {
		b.add(&ast.ReturnStmt{
			Return: body.End() - 1,
		})
	}

	return b.cfg
}

func (b *Block) String() string {
	return fmt.Sprintf("block %d (%s)", b.Index, b.comment(nil))
}

func (b *Block) comment(fset *token.FileSet) string {
	s := b.Kind.String()
	if fset != nil && b.Stmt != nil {
		s = fmt.Sprintf("%s@L%d", s, fset.Position(b.Stmt.Pos()).Line)
	}
	return s
}

// Return returns the return statement at the end of this block if present, nil
// otherwise.
//
// When control falls off the end of the function, the ReturnStmt is synthetic
// and its [ast.Node.End] position may be beyond the end of the file.
func (b *Block) Return() (ret *ast.ReturnStmt) {
	if len(b.Nodes) > 0 {
		ret, _ = b.Nodes[len(b.Nodes)-1].(*ast.ReturnStmt)
	}
	return
}

// Format formats the control-flow graph for ease of debugging.
func (g *CFG) Format(fset *token.FileSet) string {
	var buf bytes.Buffer
	for _, b := range g.Blocks {
		fmt.Fprintf(&buf, ".%d: # %s\n", b.Index, b.comment(fset))
		for _, n := range b.Nodes {
			fmt.Fprintf(&buf, "\t%s\n", formatNode(fset, n))
		}
		if len(b.Succs) > 0 {
			fmt.Fprintf(&buf, "\tsuccs:")
			for _, succ := range b.Succs {
				fmt.Fprintf(&buf, " %d", succ.Index)
			}
			buf.WriteByte('\n')
		}
		buf.WriteByte('\n')
	}
	return buf.String()
}

// Dot returns the control-flow graph in the [Dot graph description language].
// Use a command such as 'dot -Tsvg' to render it in a form viewable in a browser.
// This method is provided as a debugging aid; the details of the
// output are unspecified and may change.
//
// [Dot graph description language]: ​​https://en.wikipedia.org/wiki/DOT_(graph_description_language)
func (g *CFG) Dot(fset *token.FileSet) string {
	var buf bytes.Buffer
	buf.WriteString("digraph CFG {\n")
	buf.WriteString("  node [shape=box];\n")
	for _, b := range g.Blocks {
		// node label
		var text bytes.Buffer
		text.WriteString(b.comment(fset))
		for _, n := range b.Nodes {
			fmt.Fprintf(&text, "\n%s", formatNode(fset, n))
		}

		// node and edges
		fmt.Fprintf(&buf, "  n%d [label=%q];\n", b.Index, &text)
		for _, succ := range b.Succs {
			fmt.Fprintf(&buf, "  n%d -> n%d;\n", b.Index, succ.Index)
		}
	}
	buf.WriteString("}\n")
	return buf.String()
}

func formatNode(fset *token.FileSet, n ast.Node) string {
	var buf bytes.Buffer
	format.Node(&buf, fset, n)
	// Indent secondary lines by a tab.
	return string(bytes.Replace(buf.Bytes(), []byte("\n"), []byte("\n\t"), -1))
}
