package main

import (
	"fmt"
	"go/ast"
	"go/token"
	"strings"
)

// Clean.lean (property C17): where ServeHTTP issues the trailing-slash redirect and what guards it.
//
//	tsrRedirectCallSites      number of calls of fox.tsrRedirect in the non-test sources of the root package
//	tsrRedirectGuards         the conjuncts of the conditions of every `if` enclosing the call in ServeHTTP (innermost first)
//	tsrRedirectGuardedByClean one of them is `path == CleanPath(path)` (either operand order)
//	tsrLookupArgIsPath        the first tree.lookup call of ServeHTTP receives the identifier `path` as its path argument
//	cleanPathStackBuf         the constant stackBufSize of CleanPath (also in Consts.lean)

func init() { registerFact("Clean.lean", genCleanFacts) }

func clfSplitAnd(e ast.Expr, r *Repo, out *[]string) {
	switch x := e.(type) {
	case *ast.ParenExpr:
		clfSplitAnd(x.X, r, out)
		return
	case *ast.BinaryExpr:
		if x.Op == token.LAND {
			clfSplitAnd(x.X, r, out)
			clfSplitAnd(x.Y, r, out)
			return
		}
	}
	*out = append(*out, strings.Join(strings.Fields(r.Text(e)), " "))
}

func clfIsTsrRedirectCall(n ast.Node) bool {
	call, ok := n.(*ast.CallExpr)
	if !ok {
		return false
	}
	sel, ok := call.Fun.(*ast.SelectorExpr)
	return ok && sel.Sel.Name == "tsrRedirect"
}

func genCleanFacts(r *Repo) (string, error) {
	sites := 0
	for name, f := range r.Files {
		if strings.Contains(name, "/") {
			continue // root package only
		}
		ast.Inspect(f, func(n ast.Node) bool {
			if n != nil && clfIsTsrRedirectCall(n) {
				sites++
			}
			return true
		})
	}
	fd := r.FuncDecl("fox.go", "Router", "ServeHTTP")
	if fd == nil || fd.Body == nil {
		return "", fmt.Errorf("Router.ServeHTTP not found in fox.go")
	}
	// walk with an explicit stack of enclosing if-conditions
	var guards []string
	found := false
	var walk func(n ast.Node, conds []ast.Expr)
	walk = func(n ast.Node, conds []ast.Expr) {
		if n == nil || found {
			return
		}
		switch x := n.(type) {
		case *ast.IfStmt:
			if x.Init != nil {
				walk(x.Init, conds)
			}
			walk(x.Body, append(append([]ast.Expr(nil), conds...), x.Cond))
			if x.Else != nil {
				walk(x.Else, conds) // the else branch is not under the condition
			}
			return
		}
		if clfIsTsrRedirectCall(n) {
			found = true
			for i := len(conds) - 1; i >= 0; i-- {
				clfSplitAnd(conds[i], r, &guards)
			}
			return
		}
		ast.Inspect(n, func(m ast.Node) bool {
			if m == nil || m == n {
				return true
			}
			walk(m, conds)
			return false
		})
	}
	walk(fd.Body, nil)
	if !found {
		return "", fmt.Errorf("no call of tsrRedirect inside ServeHTTP")
	}
	guarded := false
	for _, g := range guards {
		if g == "path == CleanPath(path)" || g == "CleanPath(path) == path" {
			guarded = true
		}
	}
	// first lookup call: tree.lookup(r.Method, r.Host, path, c, false)
	lookupArg := false
	doneLookup := false
	ast.Inspect(fd.Body, func(n ast.Node) bool {
		if doneLookup {
			return false
		}
		if call, ok := n.(*ast.CallExpr); ok {
			if sel, ok := call.Fun.(*ast.SelectorExpr); ok && sel.Sel.Name == "lookup" && len(call.Args) >= 3 {
				doneLookup = true
				if id, ok := call.Args[2].(*ast.Ident); ok && id.Name == "path" {
					lookupArg = true
				}
			}
		}
		return true
	})
	// stackBufSize inside CleanPath
	stack := int64(-1)
	if cp := r.FuncDecl("path.go", "", "CleanPath"); cp != nil && cp.Body != nil {
		ast.Inspect(cp.Body, func(n ast.Node) bool {
			if vs, ok := n.(*ast.ValueSpec); ok && len(vs.Names) == 1 && vs.Names[0].Name == "stackBufSize" && len(vs.Values) == 1 {
				if v, err := evalInt(vs.Values[0], constEnv{}, 0); err == nil {
					stack = v
				}
			}
			return true
		})
	}
	var sb strings.Builder
	sb.WriteString("namespace Fox.Generated\n\n")
	fmt.Fprintf(&sb, "def tsrRedirectCallSites : Nat := %d\n", sites)
	fmt.Fprintf(&sb, "def tsrRedirectGuards : List String := %s\n", leanStrList(guards))
	fmt.Fprintf(&sb, "def tsrRedirectGuardedByClean : Bool := %v\n", guarded)
	fmt.Fprintf(&sb, "def tsrLookupArgIsPath : Bool := %v\n", lookupArg)
	fmt.Fprintf(&sb, "def cleanPathStackBuf : Int := %d\n", stack)
	sb.WriteString("\nend Fox.Generated\n")
	return sb.String(), nil
}
