package main

import (
	"fmt"
	"go/ast"
	"go/token"
	"math/big"
	"net"
	"sort"
	"strconv"
	"strings"
)

// ClientIP.lean: the CIDR tables of clientip/clientip.go (every package-level var whose elements are
// mustParseCIDR("...") calls), the header name constants, which table each option appends and which table the
// non-private constructors fall back to.

func init() { registerFact("ClientIP.lean", genClientIP) }

type cidrFact struct {
	text string
	fam  int
	addr *big.Int
	plen int
}

func parseCIDRFact(s string) (cidrFact, error) {
	_, n, err := net.ParseCIDR(s)
	if err != nil {
		return cidrFact{}, fmt.Errorf("net.ParseCIDR(%q): %v", s, err)
	}
	ones, bits := n.Mask.Size()
	fam := 6
	if bits == 32 {
		fam = 4
	}
	ip := n.IP
	if fam == 4 {
		ip = ip.To4()
	} else {
		ip = ip.To16()
	}
	if ip == nil {
		return cidrFact{}, fmt.Errorf("unexpected IP length in %q", s)
	}
	return cidrFact{text: s, fam: fam, addr: new(big.Int).SetBytes(ip), plen: ones}, nil
}

func leanBytes(s string) string {
	bs := make([]string, len(s))
	for j := 0; j < len(s); j++ {
		bs[j] = fmt.Sprint(s[j])
	}
	return "[" + strings.Join(bs, ", ") + "]"
}

func genClientIP(r *Repo) (string, error) {
	const file = "clientip/clientip.go"
	f := r.File(file)
	if f == nil {
		return "", fmt.Errorf("%s not found", file)
	}
	type table struct {
		name  string
		cidrs []cidrFact
	}
	var tables []table
	strConsts := map[string]string{}
	for _, d := range f.Decls {
		gd, ok := d.(*ast.GenDecl)
		if !ok {
			continue
		}
		for _, sp := range gd.Specs {
			vs, ok := sp.(*ast.ValueSpec)
			if !ok {
				continue
			}
			if gd.Tok == token.CONST {
				for i, n := range vs.Names {
					if i < len(vs.Values) {
						if bl, ok := vs.Values[i].(*ast.BasicLit); ok && bl.Kind == token.STRING {
							if s, err := strconv.Unquote(bl.Value); err == nil {
								strConsts[n.Name] = s
							}
						}
					}
				}
				continue
			}
			if gd.Tok != token.VAR {
				continue
			}
			for i, n := range vs.Names {
				if i >= len(vs.Values) {
					continue
				}
				cl, ok := vs.Values[i].(*ast.CompositeLit)
				if !ok {
					continue
				}
				var t table
				t.name = n.Name
				isTable := false
				for _, el := range cl.Elts {
					ce, ok := el.(*ast.CallExpr)
					if !ok {
						if isTable {
							return "", fmt.Errorf("table %s mixes mustParseCIDR calls with other elements", n.Name)
						}
						continue
					}
					id, ok := ce.Fun.(*ast.Ident)
					if !ok || id.Name != "mustParseCIDR" || len(ce.Args) != 1 {
						if isTable {
							return "", fmt.Errorf("table %s mixes mustParseCIDR calls with other elements", n.Name)
						}
						continue
					}
					isTable = true
					bl, ok := ce.Args[0].(*ast.BasicLit)
					if !ok || bl.Kind != token.STRING {
						return "", fmt.Errorf("table %s: non-literal mustParseCIDR argument", n.Name)
					}
					s, err := strconv.Unquote(bl.Value)
					if err != nil {
						return "", err
					}
					c, err := parseCIDRFact(s)
					if err != nil {
						return "", err
					}
					t.cidrs = append(t.cidrs, c)
				}
				if isTable {
					tables = append(tables, t)
				}
			}
		}
	}
	if len(tables) == 0 {
		return "", fmt.Errorf("no mustParseCIDR table found in %s", file)
	}
	// any mustParseCIDR call outside the package-level tables would escape the audit
	total := 0
	ast.Inspect(f, func(n ast.Node) bool {
		if ce, ok := n.(*ast.CallExpr); ok {
			if id, ok := ce.Fun.(*ast.Ident); ok && id.Name == "mustParseCIDR" {
				total++
			}
		}
		return true
	})
	inTables := 0
	for _, t := range tables {
		inTables += len(t.cidrs)
	}
	if total != inTables {
		return "", fmt.Errorf("%d mustParseCIDR calls, only %d inside package-level tables", total, inTables)
	}

	// options.go: option constructor -> table appended to c.ipRanges
	var opts []optFact
	if of := r.File("clientip/options.go"); of != nil {
		// helpers that append one of their own parameters to the ranges: name -> index of that parameter
		paramIndex := func(fd *ast.FuncDecl, name string) int {
			if fd.Type.Params == nil {
				return -1
			}
			i := 0
			for _, f := range fd.Type.Params.List {
				for _, nm := range f.Names {
					if nm.Name == name {
						return i
					}
					i++
				}
			}
			return -1
		}
		appendArg := func(ce *ast.CallExpr) (*ast.Ident, bool) {
			if id, ok := ce.Fun.(*ast.Ident); ok && id.Name == "append" && ce.Ellipsis.IsValid() && len(ce.Args) == 2 {
				a, _ := ce.Args[1].(*ast.Ident)
				return a, true
			}
			return nil, false
		}
		helpers := map[string]int{}
		for _, d := range of.Decls {
			fd, ok := d.(*ast.FuncDecl)
			if !ok || fd.Body == nil {
				continue
			}
			ast.Inspect(fd.Body, func(n ast.Node) bool {
				if ce, ok := n.(*ast.CallExpr); ok {
					if a, ok := appendArg(ce); ok && a != nil {
						if i := paramIndex(fd, a.Name); i >= 0 {
							helpers[fd.Name.Name] = i
						}
					}
				}
				return true
			})
		}
		for _, d := range of.Decls {
			fd, ok := d.(*ast.FuncDecl)
			if !ok || fd.Recv != nil || fd.Body == nil {
				continue
			}
			if _, isHelper := helpers[fd.Name.Name]; isHelper {
				continue
			}
			var found []string
			ast.Inspect(fd.Body, func(n ast.Node) bool {
				ce, ok := n.(*ast.CallExpr)
				if !ok {
					return true
				}
				if a, ok := appendArg(ce); ok {
					if a != nil {
						found = append(found, a.Name)
					} else {
						found = append(found, "?")
					}
					return true
				}
				// a call of an appending helper: the table is the argument bound to its appended parameter
				name := ""
				switch f := ce.Fun.(type) {
				case *ast.Ident:
					name = f.Name
				case *ast.SelectorExpr:
					name = f.Sel.Name
				}
				if i, ok := helpers[name]; ok && i < len(ce.Args) {
					if a, ok := ce.Args[i].(*ast.Ident); ok {
						found = append(found, a.Name)
					} else {
						found = append(found, "?")
					}
				}
				return true
			})
			if len(found) > 0 {
				opts = append(opts, optFact{fd.Name.Name, strings.Join(found, "+")})
			}
		}
	} else {
		return "", fmt.Errorf("clientip/options.go not found")
	}
	sort.Slice(opts, func(i, j int) bool { return opts[i].fn < opts[j].fn })

	// constructors: orSlice(cfg.ipRanges, <default table>)
	var defaults []optFact
	for _, d := range f.Decls {
		fd, ok := d.(*ast.FuncDecl)
		if !ok || fd.Body == nil {
			continue
		}
		ast.Inspect(fd.Body, func(n ast.Node) bool {
			ce, ok := n.(*ast.CallExpr)
			if !ok {
				return true
			}
			if id, ok := ce.Fun.(*ast.Ident); ok && id.Name == "orSlice" {
				var names []string
				for _, a := range ce.Args {
					names = append(names, r.Text(a))
				}
				defaults = append(defaults, optFact{fd.Name.Name, strings.Join(names, ",")})
			}
			return true
		})
	}
	sort.Slice(defaults, func(i, j int) bool { return defaults[i].fn < defaults[j].fn })

	var sb strings.Builder
	sb.WriteString("namespace Fox.Generated\n\n")
	sb.WriteString("/-- the package-level CIDR tables of clientip/clientip.go as (family 4|6, masked network address, prefix length) -/\n")
	var names []string
	for _, t := range tables {
		sb.WriteString(fmt.Sprintf("def %s : List (Nat × Nat × Nat) := [\n", t.name))
		for i, c := range t.cidrs {
			sep := ","
			if i == len(t.cidrs)-1 {
				sep = ""
			}
			sb.WriteString(fmt.Sprintf("  (%d, %s, %d)%s  -- %s\n", c.fam, c.addr.String(), c.plen, sep, c.text))
		}
		sb.WriteString("]\n")
		names = append(names, t.name)
	}
	sb.WriteString("def cidrTableNames : List (List Nat) := [" + strings.Join(mapStr(names, leanBytes), ", ") + "]\n")
	sb.WriteString("def cidrTables : List (List (Nat × Nat × Nat)) := [" + strings.Join(names, ", ") + "]\n")
	for _, c := range []string{"xForwardedForHdr", "forwardedHdr"} {
		v, ok := strConsts[c]
		if !ok {
			return "", fmt.Errorf("constant %s not found", c)
		}
		sb.WriteString(fmt.Sprintf("def %s : List Nat := %s  -- %s\n", c, leanBytes(v), v))
	}
	sb.WriteString("/-- option constructor ↦ table(s) it appends to the configured ranges -/\n")
	sb.WriteString("def clientipOptionTables : List (List Nat × List Nat) := [" +
		strings.Join(mapOpt(opts), ", ") + "]\n")
	sb.WriteString("/-- function ↦ arguments of its orSlice(...) call (configured ranges, fallback table) -/\n")
	sb.WriteString("def clientipDefaultTables : List (List Nat × List Nat) := [" +
		strings.Join(mapOpt(defaults), ", ") + "]\n")
	sb.WriteString(fmt.Sprintf("def clientipSha : String := %s\n", leanStr(r.Sha(file, "clientip/options.go"))))
	sb.WriteString("\nend Fox.Generated\n")
	return sb.String(), nil
}

func mapStr(xs []string, f func(string) string) []string {
	ys := make([]string, len(xs))
	for i, x := range xs {
		ys[i] = f(x)
	}
	return ys
}

type optFact struct{ fn, table string }

func mapOpt(xs []optFact) []string {
	ys := make([]string, len(xs))
	for i, x := range xs {
		ys[i] = "(" + leanBytes(x.fn) + ", " + leanBytes(x.table) + ")"
	}
	return ys
}
