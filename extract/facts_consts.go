package main

import (
	"fmt"
	"go/ast"
	"go/token"
	"strconv"
	"strings"
)

// Consts.lean: scalar constants the Lean model depends on.

func init() { registerFact("Consts.lean", genConsts) }

type constEnv map[string]int64

// evalInt evaluates an integer constant expression (literals, char literals, iota, + - * << | &, parentheses,
// conversions like uint32(x), previously evaluated identifiers).
func evalInt(e ast.Expr, env constEnv, iota int64) (int64, error) {
	switch x := e.(type) {
	case *ast.BasicLit:
		switch x.Kind {
		case token.INT:
			v, err := strconv.ParseInt(x.Value, 0, 64)
			return v, err
		case token.CHAR:
			s, err := strconv.Unquote(x.Value)
			if err != nil || len(s) == 0 {
				return 0, fmt.Errorf("bad char literal %s", x.Value)
			}
			return int64([]rune(s)[0]), nil
		}
	case *ast.Ident:
		if x.Name == "iota" {
			return iota, nil
		}
		if v, ok := env[x.Name]; ok {
			return v, nil
		}
		return 0, fmt.Errorf("unknown identifier %s", x.Name)
	case *ast.ParenExpr:
		return evalInt(x.X, env, iota)
	case *ast.UnaryExpr:
		v, err := evalInt(x.X, env, iota)
		if err != nil {
			return 0, err
		}
		if x.Op == token.SUB {
			return -v, nil
		}
		return v, nil
	case *ast.BinaryExpr:
		a, err := evalInt(x.X, env, iota)
		if err != nil {
			return 0, err
		}
		b, err := evalInt(x.Y, env, iota)
		if err != nil {
			return 0, err
		}
		switch x.Op {
		case token.ADD:
			return a + b, nil
		case token.SUB:
			return a - b, nil
		case token.MUL:
			return a * b, nil
		case token.SHL:
			return a << uint(b), nil
		case token.OR:
			return a | b, nil
		case token.AND:
			return a & b, nil
		}
	case *ast.CallExpr:
		if len(x.Args) == 1 {
			return evalInt(x.Args[0], env, iota)
		}
	case *ast.SelectorExpr:
		// http.StatusXxx constants used by the model
		if id, ok := x.X.(*ast.Ident); ok && id.Name == "http" {
			if v, ok := httpStatus[x.Sel.Name]; ok {
				return v, nil
			}
		}
	}
	return 0, fmt.Errorf("unsupported constant expression")
}

var httpStatus = map[string]int64{
	"StatusOK": 200, "StatusMovedPermanently": 301, "StatusPermanentRedirect": 308, "StatusMultipleChoices": 300,
	"StatusSwitchingProtocols": 101, "StatusInternalServerError": 500, "StatusNotFound": 404, "StatusMethodNotAllowed": 405,
}

var httpMethods = map[string]string{
	"MethodGet": "GET", "MethodPost": "POST", "MethodPut": "PUT", "MethodDelete": "DELETE", "MethodHead": "HEAD",
	"MethodOptions": "OPTIONS", "MethodConnect": "CONNECT", "MethodPatch": "PATCH", "MethodTrace": "TRACE",
}

// collectConsts evaluates all integer constants declared at package level (and inside functions) of a file.
func collectConsts(f *ast.File, env constEnv) {
	ast.Inspect(f, func(n ast.Node) bool {
		gd, ok := n.(*ast.GenDecl)
		if !ok || gd.Tok != token.CONST {
			return true
		}
		var last []ast.Expr
		for i, sp := range gd.Specs {
			vs := sp.(*ast.ValueSpec)
			vals := vs.Values
			if len(vals) == 0 {
				vals = last
			} else {
				last = vals
			}
			for j, name := range vs.Names {
				if j < len(vals) {
					if v, err := evalInt(vals[j], env, int64(i)); err == nil {
						env[name.Name] = v
					}
				}
			}
		}
		return true
	})
}

func genConsts(r *Repo) (string, error) {
	env := constEnv{}
	if r.File("fox.go") == nil {
		return "", fmt.Errorf("root package not found")
	}
	collectConsts(r.File("fox.go"), env) // the whole root package

	need := []string{"verb", "slashDelim", "dotDelim", "bracketDelim", "starDelim", "defaultModifiedCache", "stackBufSize", "notWritten",
		"RouteHandler", "NoRouteHandler", "NoMethodHandler", "RedirectHandler", "OptionsHandler", "AllHandlers"}
	var sb strings.Builder
	sb.WriteString("namespace Fox.Generated\n\n")
	for _, n := range need {
		v, ok := env[n]
		if !ok {
			return "", fmt.Errorf("constant %s not found", n)
		}
		fmt.Fprintf(&sb, "def c_%s : Int := %d\n", n, v)
	}
	// commonVerbs and regEnLetter
	var verbs []string
	regex := ""
	for _, d := range r.File("fox.go").Decls {
		gd, ok := d.(*ast.GenDecl)
		if !ok || gd.Tok != token.VAR {
			continue
		}
		for _, sp := range gd.Specs {
			vs := sp.(*ast.ValueSpec)
			for i, name := range vs.Names {
				if i >= len(vs.Values) {
					continue
				}
				switch name.Name {
				case "commonVerbs":
					if cl, ok := vs.Values[i].(*ast.CompositeLit); ok {
						for _, el := range cl.Elts {
							if se, ok := el.(*ast.SelectorExpr); ok {
								if m, ok := httpMethods[se.Sel.Name]; ok {
									verbs = append(verbs, m)
									continue
								}
							}
							if bl, ok := el.(*ast.BasicLit); ok {
								s, _ := strconv.Unquote(bl.Value)
								verbs = append(verbs, s)
								continue
							}
							verbs = append(verbs, "?"+r.Text(el))
						}
					}
				case "regEnLetter":
					if ce, ok := vs.Values[i].(*ast.CallExpr); ok && len(ce.Args) == 1 {
						if bl, ok := ce.Args[0].(*ast.BasicLit); ok {
							regex, _ = strconv.Unquote(bl.Value)
						}
					}
				}
			}
		}
	}
	if len(verbs) == 0 || regex == "" {
		return "", fmt.Errorf("commonVerbs / regEnLetter not found")
	}
	fmt.Fprintf(&sb, "def commonVerbs : List String := %s\n", leanStrList(verbs))
	fmt.Fprintf(&sb, "def commonVerbsBytes : List (List Nat) := %s\n", leanBytesList(verbs))
	fmt.Fprintf(&sb, "def methodRegexp : String := %s\n", leanStr(regex))

	// the linear/binary child search switch in getEdge and updateEdge
	// (the switch may sit in the function itself or in a helper method of node it calls - e.g. an `edgeIndex` shared by both)
	var thrIn func(fd *ast.FuncDecl, depth int) int64
	thrIn = func(fd *ast.FuncDecl, depth int) int64 {
		if fd == nil || fd.Body == nil || depth > 2 {
			return -1
		}
		var got int64 = -1
		ast.Inspect(fd.Body, func(n ast.Node) bool {
			if got >= 0 {
				return false
			}
			switch x := n.(type) {
			case *ast.IfStmt:
				if be, ok := x.Cond.(*ast.BinaryExpr); ok && be.Op == token.LEQ {
					t := r.Text(be.X)
					if strings.HasPrefix(t, "len(") && strings.HasSuffix(t, ".children)") {
						if v, err := evalInt(be.Y, env, 0); err == nil {
							got = v
						}
					}
				}
			case *ast.CallExpr:
				if sel, ok := x.Fun.(*ast.SelectorExpr); ok {
					if _, ok := sel.X.(*ast.Ident); ok {
						if v := thrIn(r.FuncDecl("node.go", "node", sel.Sel.Name), depth+1); v >= 0 {
							got = v
						}
					}
				}
			}
			return true
		})
		return got
	}
	thr := func(fn string) (int64, error) {
		fd := r.FuncDecl("node.go", "node", fn)
		if fd == nil {
			return 0, fmt.Errorf("node.%s not found", fn)
		}
		got := thrIn(fd, 0)
		if got < 0 {
			return 0, fmt.Errorf("threshold in node.%s not found", fn)
		}
		return got, nil
	}
	t1, err := thr("getEdge")
	if err != nil {
		return "", err
	}
	t2, err := thr("updateEdge")
	if err != nil {
		return "", err
	}
	fmt.Fprintf(&sb, "def getEdgeLinearMax : Int := %d\ndef updateEdgeLinearMax : Int := %d\n", t1, t2)

	// redirect status codes chosen by the trailing-slash redirect handler
	fd := r.FuncDecl("fox.go", "", "defaultRedirectTrailingSlashHandler")
	if fd == nil {
		return "", fmt.Errorf("defaultRedirectTrailingSlashHandler not found")
	}
	var codes []int64
	var guardMethod string
	ast.Inspect(fd.Body, func(n ast.Node) bool {
		switch x := n.(type) {
		case *ast.AssignStmt:
			if len(x.Lhs) == 1 && r.Text(x.Lhs[0]) == "code" {
				if v, err := evalInt(x.Rhs[0], env, 0); err == nil {
					codes = append(codes, v)
				}
			}
		case *ast.IfStmt:
			if strings.Contains(r.Text(x.Cond), "req.Method") {
				guardMethod = r.Text(x.Cond)
			}
		}
		return true
	})
	if len(codes) != 2 {
		return "", fmt.Errorf("redirect codes: expected 2 assignments, got %d", len(codes))
	}
	fmt.Fprintf(&sb, "def redirectCodeGet : Int := %d\ndef redirectCodeOther : Int := %d\ndef redirectMethodGuard : String := %s\n",
		codes[0], codes[1], leanStr(guardMethod))
	fmt.Fprintf(&sb, "def constsSha : String := %s\n", leanStr(r.Sha("fox.go", "tree.go", "path.go", "response_writer.go", "node.go")))
	sb.WriteString("\nend Fox.Generated\n")
	return sb.String(), nil
}
