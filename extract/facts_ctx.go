package main

import (
	"fmt"
	"go/ast"
	"go/token"
	"sort"
	"strings"
)

// CtxFields.lean: which fields of cTx every acquisition path assigns before a handler can look at the context, and which
// fields every getter reads (AST walk of context.go, fox.go, txn.go). Consumer: C12.

func init() { registerFact("CtxFields.lean", genCtxFields) }

// ctxField returns the cTx field an lvalue / expression rooted at `<recv>.<field>` denotes (through *, [], [:], and one
// further selector such as c.rec.status -> rec).
func ctxField(e ast.Expr, recv string) (string, bool) {
	for {
		switch x := e.(type) {
		case *ast.StarExpr:
			e = x.X
			continue
		case *ast.ParenExpr:
			e = x.X
			continue
		case *ast.IndexExpr:
			e = x.X
			continue
		case *ast.SliceExpr:
			e = x.X
			continue
		case *ast.UnaryExpr:
			e = x.X
			continue
		}
		break
	}
	sel, ok := e.(*ast.SelectorExpr)
	if !ok {
		return "", false
	}
	if id, ok := sel.X.(*ast.Ident); ok && id.Name == recv {
		return sel.Sel.Name, true
	}
	// c.rec.status
	if inner, ok := sel.X.(*ast.SelectorExpr); ok {
		if id, ok := inner.X.(*ast.Ident); ok && id.Name == recv {
			return inner.Sel.Name, true
		}
	}
	return "", false
}

type ctxFieldSet map[string]bool

func (s ctxFieldSet) clone() ctxFieldSet {
	t := ctxFieldSet{}
	for k := range s {
		t[k] = true
	}
	return t
}
func (s ctxFieldSet) list() []string {
	var ks []string
	for k := range s {
		ks = append(ks, k)
	}
	sort.Strings(ks)
	return ks
}

// ctxAssignedIn collects the fields of `recv` assigned anywhere in the body (unconditionally or not)
func ctxAssignedIn(r *Repo, body ast.Node, recv string, resets map[string]ctxFieldSet) ctxFieldSet {
	out := ctxFieldSet{}
	ast.Inspect(body, func(n ast.Node) bool {
		switch x := n.(type) {
		case *ast.AssignStmt:
			for _, l := range x.Lhs {
				if f, ok := ctxField(l, recv); ok {
					out[f] = true
				}
			}
		case *ast.CallExpr:
			ctxAddCallEffects(r, x, recv, resets, out)
		}
		return true
	})
	return out
}

// ctxAddCallEffects: calls that assign fields of the context: c.rec.reset(w), c.reset*/resetNil (expanded), copyWithResize(c.x, …)
func ctxAddCallEffects(r *Repo, call *ast.CallExpr, recv string, resets map[string]ctxFieldSet, out ctxFieldSet) {
	fn := r.Text(call.Fun)
	switch {
	case fn == recv+".rec.reset":
		out["rec"] = true
	case strings.HasPrefix(fn, recv+".reset"):
		if s, ok := resets[strings.TrimPrefix(fn, recv+".")]; ok {
			for k := range s {
				out[k] = true
			}
		}
	case fn == "copyWithResize" && len(call.Args) == 2:
		if f, ok := ctxField(call.Args[0], recv); ok {
			out[f] = true
		}
	case strings.HasSuffix(fn, ".lookup") && len(call.Args) >= 2:
		// (roots).lookup(tree?, method, host, path, c, lazy): a non-lazy walk rewrites the params buffer and the stack
		last := r.Text(call.Args[len(call.Args)-1])
		ctxArg := r.Text(call.Args[len(call.Args)-2])
		if ctxArg == recv && last == "false" {
			out["params"] = true
			out["skipNds"] = true
		}
	default:
		// a helper of the package that receives the context (as an argument or as its receiver): the fields it assigns
		ctxHelperEffects(r, call, recv, resets, out)
	}
}

var ctxHelperDepth int

func ctxHelperEffects(r *Repo, call *ast.CallExpr, recv string, resets map[string]ctxFieldSet, out ctxFieldSet) {
	if ctxHelperDepth > 2 {
		return
	}
	find := func(name string, method bool) *ast.FuncDecl {
		for fname, f := range r.Files {
			if strings.Contains(fname, "/") {
				continue
			}
			for _, d := range f.Decls {
				fd, ok := d.(*ast.FuncDecl)
				if !ok || fd.Body == nil || fd.Name.Name != name {
					continue
				}
				if method && fd.Recv != nil && len(fd.Recv.List) == 1 && recvName(fd.Recv.List[0].Type) == "cTx" {
					return fd
				}
				if !method && fd.Recv == nil {
					return fd
				}
			}
		}
		return nil
	}
	inner := ""
	var fd *ast.FuncDecl
	switch f := call.Fun.(type) {
	case *ast.Ident:
		fd = find(f.Name, false)
		if fd != nil && fd.Type.Params != nil {
			pos := 0
			for _, fl := range fd.Type.Params.List {
				for _, nm := range fl.Names {
					if pos < len(call.Args) && r.Text(call.Args[pos]) == recv {
						inner = nm.Name
					}
					pos++
				}
			}
		}
	case *ast.SelectorExpr:
		if r.Text(f.X) == recv {
			fd = find(f.Sel.Name, true)
			if fd != nil && len(fd.Recv.List[0].Names) == 1 {
				inner = fd.Recv.List[0].Names[0].Name
			}
		}
	}
	if fd == nil || inner == "" {
		return
	}
	ctxHelperDepth++
	eff := ctxAssignedIn(r, fd.Body, inner, resets)
	ctxHelperDepth--
	for k := range eff {
		out[k] = true
	}
}

// ctxWalkPaths walks a statement list in order, keeping the set of fields assigned so far on the path; blocks that end in a
// return keep their assignments to themselves. `visit` is called for every call expression statement with the set at
// that point.
func ctxWalkPaths(r *Repo, stmts []ast.Stmt, recv string, resets map[string]ctxFieldSet, cur ctxFieldSet, visit func(call *ast.CallExpr, ret *ast.ReturnStmt, at ctxFieldSet)) {
	for _, st := range stmts {
		switch x := st.(type) {
		case *ast.AssignStmt:
			for _, rhs := range x.Rhs {
				ast.Inspect(rhs, func(n ast.Node) bool {
					if c, ok := n.(*ast.CallExpr); ok {
						ctxAddCallEffects(r, c, recv, resets, cur)
					}
					return true
				})
			}
			for _, l := range x.Lhs {
				if f, ok := ctxField(l, recv); ok {
					cur[f] = true
				}
			}
		case *ast.ExprStmt:
			if c, ok := x.X.(*ast.CallExpr); ok {
				ctxAddCallEffects(r, c, recv, resets, cur)
				visit(c, nil, cur)
			}
		case *ast.ReturnStmt:
			visit(nil, x, cur)
		case *ast.IfStmt:
			if x.Init != nil {
				ctxWalkPaths(r, []ast.Stmt{x.Init}, recv, resets, cur, visit)
			}
			inner := cur.clone()
			ctxWalkPaths(r, x.Body.List, recv, resets, inner, visit)
			if x.Else != nil {
				e := cur.clone()
				switch el := x.Else.(type) {
				case *ast.BlockStmt:
					ctxWalkPaths(r, el.List, recv, resets, e, visit)
				case *ast.IfStmt:
					ctxWalkPaths(r, []ast.Stmt{el}, recv, resets, e, visit)
				}
			}
			// assignments made under a condition are not guaranteed afterwards: `cur` is unchanged
		case *ast.ForStmt:
			inner := cur.clone()
			ctxWalkPaths(r, x.Body.List, recv, resets, inner, visit)
		case *ast.BlockStmt:
			ctxWalkPaths(r, x.List, recv, resets, cur, visit)
		}
	}
}

func ctxLeanPairs(rows [][2]string) string {
	var xs []string
	for _, r := range rows {
		xs = append(xs, "("+leanStr(r[0])+", "+r[1]+")")
	}
	return "[" + strings.Join(xs, ",\n  ") + "]"
}

func genCtxFields(r *Repo) (string, error) {
	for _, f := range []string{"context.go", "fox.go", "txn.go"} {
		if r.File(f) == nil {
			return "", fmt.Errorf("missing %s", f)
		}
	}
	var sb strings.Builder
	sb.WriteString("namespace Fox.Generated\n\n")

	// ---- the struct
	var fields []string
	for _, d := range r.File("context.go").Decls {
		gd, ok := d.(*ast.GenDecl)
		if !ok || gd.Tok != token.TYPE {
			continue
		}
		for _, sp := range gd.Specs {
			ts := sp.(*ast.TypeSpec)
			if ts.Name.Name != "cTx" {
				continue
			}
			if st, ok := ts.Type.(*ast.StructType); ok {
				for _, f := range st.Fields.List {
					for _, n := range f.Names {
						fields = append(fields, n.Name)
					}
				}
			}
		}
	}
	if len(fields) == 0 {
		return "", fmt.Errorf("struct cTx not found")
	}
	sort.Strings(fields) // the order of the fields in the struct is no fact
	allCtxFields := fields
	fmt.Fprintf(&sb, "def ctxFields : List String := %s\n", leanStrList(fields))

	// ---- reset variants
	resets := map[string]ctxFieldSet{}
	for _, name := range []string{"reset", "resetNil", "resetWithWriter"} {
		fd := r.FuncDecl("context.go", "cTx", name)
		if fd == nil {
			return "", fmt.Errorf("cTx.%s not found", name)
		}
		resets[name] = ctxAssignedIn(r, fd.Body, "c", map[string]ctxFieldSet{})
		fmt.Fprintf(&sb, "def assigned_%s : List String := %s\n", name, leanStrList(resets[name].list()))
	}

	// ---- ServeHTTP: per handler call the fields assigned on the path from the pool to the call
	sh := r.FuncDecl("fox.go", "Router", "ServeHTTP")
	if sh == nil {
		return "", fmt.Errorf("Router.ServeHTTP not found")
	}
	var branches [][2]string
	hall := 0
	ctxWalkPaths(r, sh.Body.List, "c", resets, ctxFieldSet{}, func(call *ast.CallExpr, ret *ast.ReturnStmt, at ctxFieldSet) {
		if call == nil || len(call.Args) != 1 || r.Text(call.Args[0]) != "c" {
			return
		}
		name := ""
		switch r.Text(call.Fun) {
		case "n.route.hall":
			hall++
			if hall == 1 {
				name = "direct"
			} else {
				name = "ignoredSlash"
			}
		case "fox.tsrRedirect":
			name = "redirect"
		case "fox.autoOptions":
			name = "options"
		case "fox.noMethod":
			name = "noMethod"
		case "fox.noRoute":
			name = "noRoute"
		default:
			return
		}
		branches = append(branches, [2]string{name, leanStrList(at.list())})
	})
	fmt.Fprintf(&sb, "/-- (branch of ServeHTTP, fields assigned between pool.Get and the handler call) in source order -/\ndef serveBranches : List (String × List String) := %s\n", ctxLeanPairs(branches))

	// ---- Lookup (router and txn): fields assigned before the context is returned
	for _, lk := range [][3]string{{"fox.go", "Router", "lookupRouter"}, {"txn.go", "Txn", "lookupTxn"}} {
		fd := r.FuncDecl(lk[0], lk[1], "Lookup")
		if fd == nil {
			return "", fmt.Errorf("%s.Lookup not found", lk[1])
		}
		var got []string
		ctxWalkPaths(r, fd.Body.List, "c", resets, ctxFieldSet{}, func(call *ast.CallExpr, ret *ast.ReturnStmt, at ctxFieldSet) {
			if ret != nil && len(ret.Results) == 3 && r.Text(ret.Results[1]) == "c" {
				got = at.list()
			}
		})
		if got == nil {
			return "", fmt.Errorf("%s.Lookup: no `return …, c, …` found", lk[1])
		}
		fmt.Fprintf(&sb, "def assigned_%s : List String := %s\n", lk[2], leanStrList(got))
	}

	// ---- CloneWith
	cw := r.FuncDecl("context.go", "cTx", "CloneWith")
	if cw == nil {
		return "", fmt.Errorf("cTx.CloneWith not found")
	}
	cwSet := ctxFieldSet{}
	var cwCond []string
	cwName := copyVarName(r, cw.Body) // the variable holding the copy, whatever it is called
	walkCW := func() {
		for _, st := range cw.Body.List {
			switch x := st.(type) {
			case *ast.AssignStmt:
				for _, l := range x.Lhs {
					if f, ok := ctxField(l, cwName); ok {
						cwSet[f] = true
					}
				}
			case *ast.IfStmt:
				// if !c.tsr { copyWithResize(cp.params, c.params) } else { copyWithResize(cp.tsrParams, c.tsrParams) }
				// recorded by cases on c.tsr (not by the wording of the condition), with the copy variable written "cp"
				collect := func(b *ast.BlockStmt) string {
					var arms []string
					if b != nil {
						for _, s := range b.List {
							arms = append(arms, renameIdent(strings.Join(strings.Fields(r.Text(s)), " "), cwName, "cp"))
						}
					}
					return strings.Join(arms, "; ")
				}
				eb, _ := x.Else.(*ast.BlockStmt)
				if thenIsTsr, ok := tsrCond(r, x.Cond); ok && (x.Else == nil || eb != nil) {
					tArm, fArm := collect(x.Body), collect(eb)
					if !thenIsTsr {
						tArm, fArm = fArm, tArm
					}
					cwCond = append(cwCond, "tsr=false: "+fArm, "tsr=true: "+tArm)
				} else {
					cwCond = append(cwCond, "unknown: "+strings.Join(strings.Fields(r.Text(x)), " "))
				}
			}
		}
	}
	walkCW()
	fmt.Fprintf(&sb, "def assigned_CloneWith : List String := %s\ndef cond_CloneWith : List String := %s\n", leanStrList(cwSet.list()), leanStrList(cwCond))

	// ---- Clone: literal keys, later assignments, where the response state is read from, how the buffers are copied
	cl := r.FuncDecl("context.go", "cTx", "Clone")
	if cl == nil {
		return "", fmt.Errorf("cTx.Clone not found")
	}
	clSet := ctxFieldSet{}
	clName := copyVarName(r, cl.Body)
	freshLiteral := false
	var litInit [][2]string
	var writerReads, bufForms []string
	bufMake, bufCopy, bufStore := map[string]string{}, map[string]string{}, map[string]string{} // local -> field made from / copied from; field -> local stored
	ast.Inspect(cl.Body, func(n ast.Node) bool {
		switch x := n.(type) {
		case *ast.CompositeLit:
			if r.Text(x.Type) == "cTx" {
				// a fresh value: every field not named in the literal is its zero value, i.e. assigned too (an explicit
				// `cp.f = nil` afterwards is redundant and may or may not be written)
				freshLiteral = true
				for _, el := range x.Elts {
					if kv, ok := el.(*ast.KeyValueExpr); ok {
						clSet[r.Text(kv.Key)] = true
						litInit = append(litInit, [2]string{r.Text(kv.Key), leanStr(strings.Join(strings.Fields(r.Text(kv.Value)), " "))})
					}
				}
			}
		case *ast.AssignStmt:
			for i, l := range x.Lhs {
				if f, ok := ctxField(l, clName); ok {
					clSet[f] = true
					if (f == "params" || f == "tsrParams") && i < len(x.Rhs) {
						// cp.f = &L
						if u, ok := x.Rhs[i].(*ast.UnaryExpr); ok && u.Op.String() == "&" {
							if id, ok := u.X.(*ast.Ident); ok {
								bufStore[f] = id.Name
								continue
							}
						}
						// cp.f = helper(c.g) where the helper returns the address of a fresh make+copy of its argument
						if call, ok := x.Rhs[i].(*ast.CallExpr); ok && len(call.Args) == 1 {
							src := strings.Join(strings.Fields(r.Text(call.Args[0])), "")
							if fn, ok := call.Fun.(*ast.Ident); ok && strings.HasPrefix(src, "c.") && ctxHelperIsMakeCopy(r, fn.Name) {
								bufForms = append(bufForms, f+" <- make+copy of "+src)
								continue
							}
						}
						bufForms = append(bufForms, f+" = "+r.Text(x.Rhs[i]))
					}
				}
				if id, ok := l.(*ast.Ident); ok && x.Tok.String() == ":=" && i < len(x.Rhs) {
					// L := make(Params, len(*c.f))
					txt := strings.Join(strings.Fields(r.Text(x.Rhs[i])), "")
					for _, f := range []string{"params", "tsrParams"} {
						if txt == "make(Params,len(*c."+f+"))" {
							bufMake[id.Name] = f
						}
					}
				}
			}
		case *ast.CallExpr:
			fn := r.Text(x.Fun)
			for _, m := range []string{".Status", ".Size", ".Written", ".Header"} {
				if strings.HasSuffix(fn, m) {
					writerReads = append(writerReads, fn)
				}
			}
			if fn == "copy" && len(x.Args) == 2 {
				// copy(L, *c.f)
				src := strings.Join(strings.Fields(r.Text(x.Args[1])), "")
				if id, ok := x.Args[0].(*ast.Ident); ok && strings.HasPrefix(src, "*c.") {
					bufCopy[id.Name] = strings.TrimPrefix(src, "*c.")
				} else {
					bufForms = append(bufForms, "copy("+r.Text(x.Args[0])+", "+r.Text(x.Args[1])+")")
				}
			}
		}
		return true
	})
	sort.Slice(litInit, func(i, j int) bool { return litInit[i][0] < litInit[j][0] })
	sort.Strings(writerReads)
	// per buffer of the copy: is it a fresh slice (make of the source's length), filled by copy from the same source?
	// (the names of the locals do not matter)
	for _, f := range []string{"params", "tsrParams"} {
		if l, ok := bufStore[f]; ok {
			if bufMake[l] != "" && bufMake[l] == bufCopy[l] {
				bufForms = append(bufForms, f+" <- make+copy of c."+bufMake[l])
			} else {
				bufForms = append(bufForms, f+" <- &"+l+" (made from c."+bufMake[l]+", copied from c."+bufCopy[l]+")")
			}
		}
	}
	sort.Strings(bufForms)
	// which buffer is filled for which value of c.tsr
	var cloneCond []string
	for _, st := range cl.Body.List {
		is, ok := st.(*ast.IfStmt)
		if !ok {
			continue
		}
		thenIsTsr, ok := tsrCond(r, is.Cond)
		if !ok {
			continue
		}
		fieldsOf := func(b *ast.BlockStmt) string {
			var fs []string
			if b != nil {
				for _, s2 := range b.List {
					if as, ok := s2.(*ast.AssignStmt); ok {
						for _, l := range as.Lhs {
							if f, ok := ctxField(l, clName); ok {
								fs = append(fs, f)
							}
						}
					}
				}
			}
			return strings.Join(fs, ",")
		}
		eb, _ := is.Else.(*ast.BlockStmt)
		tArm, fArm := fieldsOf(is.Body), fieldsOf(eb)
		if !thenIsTsr {
			tArm, fArm = fArm, tArm
		}
		cloneCond = append(cloneCond, "tsr=false: "+fArm, "tsr=true: "+tArm)
	}
	if freshLiteral {
		for _, f := range allCtxFields {
			clSet[f] = true
		}
	}
	fmt.Fprintf(&sb, "def assigned_Clone : List String := %s\n", leanStrList(clSet.list()))
	fmt.Fprintf(&sb, "def cloneLiteral : List (String × String) := %s\n", ctxLeanPairs(litInit))
	fmt.Fprintf(&sb, "/-- the calls through which Clone reads the response state (must go through the current writer c.w) -/\ndef cloneWriterReads : List String := %s\n", leanStrList(writerReads))
	fmt.Fprintf(&sb, "/-- how Clone fills the parameter buffers of the copy (must be make + copy) -/\ndef cloneBufferForms : List String := %s\n", leanStrList(bufForms))
	fmt.Fprintf(&sb, "/-- which buffer Clone fills for which value of c.tsr -/\ndef cloneCond : List String := %s\n", leanStrList(cloneCond))

	// ---- getters: fields of c read by each method of the Context interface implemented on cTx
	helperReads := map[string]ctxFieldSet{}
	readsOf := func(fd *ast.FuncDecl) ctxFieldSet {
		out := ctxFieldSet{}
		lhs := map[ast.Expr]bool{}
		ast.Inspect(fd.Body, func(n ast.Node) bool {
			if as, ok := n.(*ast.AssignStmt); ok {
				for _, l := range as.Lhs {
					if sel, ok := l.(*ast.SelectorExpr); ok {
						lhs[sel] = true
					}
				}
			}
			return true
		})
		ast.Inspect(fd.Body, func(n ast.Node) bool {
			sel, ok := n.(*ast.SelectorExpr)
			if !ok || lhs[sel] {
				return true
			}
			if id, ok := sel.X.(*ast.Ident); ok && id.Name == "c" {
				out[sel.Sel.Name] = true
			}
			return true
		})
		return out
	}
	if gq := r.FuncDecl("context.go", "cTx", "getQueries"); gq != nil {
		helperReads["getQueries"] = readsOf(gq)
	}
	getters := []string{"Request", "Writer", "RemoteIP", "ClientIP", "Pattern", "Route", "Params", "Param", "Method", "Path", "Host",
		"QueryParams", "QueryParam", "SetHeader", "AddHeader", "Header", "String", "Blob", "Stream", "Redirect", "Scope", "Fox"}
	var rows [][2]string
	cfields := map[string]bool{}
	for _, f := range fields {
		cfields[f] = true
	}
	for _, g := range getters {
		fd := r.FuncDecl("context.go", "cTx", g)
		if fd == nil {
			return "", fmt.Errorf("cTx.%s not found", g)
		}
		rs := readsOf(fd)
		for h, hs := range helperReads {
			if rs[h] {
				delete(rs, h)
				for k := range hs {
					rs[k] = true
				}
			}
		}
		for k := range rs {
			if !cfields[k] {
				delete(rs, k) // a method of cTx, not a field
			}
		}
		rows = append(rows, [2]string{g, leanStrList(rs.list())})
	}
	fmt.Fprintf(&sb, "/-- (getter of Context implemented by cTx, fields of the context it reads) -/\ndef getterReads : List (String × List String) := %s\n", ctxLeanPairs(rows))
	// Clone and CloneWith read the source context too
	fmt.Fprintf(&sb, "def reads_Clone : List String := %s\ndef reads_CloneWith : List String := %s\n", leanStrList(ctxReadsFiltered(readsOf(cl), cfields)), leanStrList(ctxReadsFiltered(readsOf(cw), cfields)))

	// ---- the response recorder embedded in the context (the type of the field the contexts reset through `<field>.reset(w)`):
	// its fields, and the fields its reset assigns. A pooled context hands its recorder to the next request; a field reset
	// leaves out is state of the previous request.
	recFields, recAssigned, err := ctxRecorderReset(r)
	if err != nil {
		return "", err
	}
	fmt.Fprintf(&sb, "/-- fields of the recorder embedded in cTx (an embedded type counts by its type name) -/\ndef recorderFields : List String := %s\n", leanStrList(recFields))
	fmt.Fprintf(&sb, "/-- fields assigned by its reset method -/\ndef recorderResetAssigned : List String := %s\n", leanStrList(recAssigned))

	fmt.Fprintf(&sb, "def ctxSha : String := %s\n", leanStr(r.Sha("context.go", "fox.go", "txn.go")))
	sb.WriteString("\nend Fox.Generated\n")
	return sb.String(), nil
}

// ctxRecorderReset: the struct type of cTx's recorder field (the field whose `reset` method cTx.reset calls), its fields and
// the fields its reset method assigns (`r.f = …`, or all of them for `*r = T{…}`).
func ctxRecorderReset(r *Repo) (fields, assigned []string, err error) {
	pkg := r.File("context.go")
	typeOfField := map[string]string{}
	structs := map[string]*ast.StructType{}
	for _, d := range pkg.Decls {
		gd, ok := d.(*ast.GenDecl)
		if !ok || gd.Tok != token.TYPE {
			continue
		}
		for _, sp := range gd.Specs {
			ts := sp.(*ast.TypeSpec)
			st, ok := ts.Type.(*ast.StructType)
			if !ok {
				continue
			}
			structs[ts.Name.Name] = st
			if ts.Name.Name == "cTx" {
				for _, f := range st.Fields.List {
					for _, n := range f.Names {
						typeOfField[n.Name] = recvName(f.Type)
					}
				}
			}
		}
	}
	// the field through which cTx.reset resets the recorder: the receiver of a `c.<field>.reset(…)` call
	field := ""
	if fd := r.FuncDecl("context.go", "cTx", "reset"); fd != nil && fd.Body != nil {
		ast.Inspect(fd.Body, func(n ast.Node) bool {
			if call, ok := n.(*ast.CallExpr); ok {
				if sel, ok := call.Fun.(*ast.SelectorExpr); ok && sel.Sel.Name == "reset" {
					if inner, ok := sel.X.(*ast.SelectorExpr); ok {
						field = inner.Sel.Name
					}
				}
			}
			return true
		})
	}
	tn := typeOfField[field]
	st := structs[tn]
	if field == "" || st == nil {
		return nil, nil, fmt.Errorf("the recorder field of cTx (reset through c.<field>.reset) was not found")
	}
	for _, f := range st.Fields.List {
		if len(f.Names) == 0 {
			// embedded: http.ResponseWriter -> ResponseWriter
			switch t := f.Type.(type) {
			case *ast.SelectorExpr:
				fields = append(fields, t.Sel.Name)
			default:
				fields = append(fields, recvName(f.Type))
			}
		}
		for _, n := range f.Names {
			fields = append(fields, n.Name)
		}
	}
	sort.Strings(fields)
	fd := r.FuncDecl("context.go", tn, "reset")
	if fd == nil || fd.Body == nil || fd.Recv == nil || len(fd.Recv.List[0].Names) == 0 {
		return nil, nil, fmt.Errorf("%s.reset not found", tn)
	}
	set := map[string]bool{}
	var collect func(fd *ast.FuncDecl, depth int)
	collect = func(fd *ast.FuncDecl, depth int) {
		if fd == nil || fd.Body == nil || fd.Recv == nil || len(fd.Recv.List[0].Names) == 0 || depth > 2 {
			return
		}
		recv := fd.Recv.List[0].Names[0].Name
		ast.Inspect(fd.Body, func(n ast.Node) bool {
			// a helper method of the same type called on the receiver (r.init(w)): its assignments count
			if call, ok := n.(*ast.CallExpr); ok {
				if sel, ok := call.Fun.(*ast.SelectorExpr); ok {
					if id, ok := sel.X.(*ast.Ident); ok && id.Name == recv {
						collect(r.FuncDecl("context.go", tn, sel.Sel.Name), depth+1)
					}
				}
				return true
			}
			as, ok := n.(*ast.AssignStmt)
			if !ok {
				return true
			}
			for i, l := range as.Lhs {
				if sel, ok := l.(*ast.SelectorExpr); ok {
					if id, ok := sel.X.(*ast.Ident); ok && id.Name == recv {
						set[sel.Sel.Name] = true
					}
				}
				// *r = T{…}: every field is (re)initialised
				if star, ok := l.(*ast.StarExpr); ok && i < len(as.Rhs) {
					if id, ok := star.X.(*ast.Ident); ok && id.Name == recv {
						if _, ok := as.Rhs[i].(*ast.CompositeLit); ok {
							for _, f := range fields {
								set[f] = true
							}
						}
					}
				}
			}
			return true
		})
	}
	collect(fd, 0)
	for k := range set {
		assigned = append(assigned, k)
	}
	sort.Strings(assigned)
	return fields, assigned, nil
}

func ctxReadsFiltered(s ctxFieldSet, fields map[string]bool) []string {
	for k := range s {
		if !fields[k] {
			delete(s, k)
		}
	}
	return s.list()
}

// copyVarName: the local variable of Clone / CloneWith that holds the copy: the first variable defined from a cTx
// composite literal (or its address) or from a type assertion to *cTx. "cp" if none is found.
func copyVarName(r *Repo, body *ast.BlockStmt) string {
	name := ""
	ast.Inspect(body, func(n ast.Node) bool {
		as, ok := n.(*ast.AssignStmt)
		if !ok || name != "" || as.Tok.String() != ":=" || len(as.Lhs) != 1 || len(as.Rhs) != 1 {
			return true
		}
		id, ok := as.Lhs[0].(*ast.Ident)
		if !ok {
			return true
		}
		rhs := as.Rhs[0]
		if u, ok := rhs.(*ast.UnaryExpr); ok && u.Op.String() == "&" {
			rhs = u.X
		}
		switch x := rhs.(type) {
		case *ast.CompositeLit:
			if r.Text(x.Type) == "cTx" {
				name = id.Name
			}
		case *ast.TypeAssertExpr:
			if x.Type != nil && r.Text(x.Type) == "*cTx" {
				name = id.Name
			}
		}
		return true
	})
	if name == "" {
		return "cp"
	}
	return name
}

// renameIdent replaces the identifier `from` (whole words only) by `to` in a piece of source text.
func renameIdent(text, from, to string) string {
	if from == to || from == "" {
		return text
	}
	var sb strings.Builder
	isId := func(c byte) bool {
		return c == '_' || c >= '0' && c <= '9' || c >= 'a' && c <= 'z' || c >= 'A' && c <= 'Z'
	}
	for i := 0; i < len(text); {
		if strings.HasPrefix(text[i:], from) && (i == 0 || !isId(text[i-1]) && text[i-1] != '.') && (i+len(from) == len(text) || !isId(text[i+len(from)])) {
			sb.WriteString(to)
			i += len(from)
			continue
		}
		sb.WriteByte(text[i])
		i++
	}
	return sb.String()
}

// tsrCond reads a condition that tests c.tsr: (true, true) when the then-branch runs for c.tsr == true, (false, true)
// when it runs for c.tsr == false, (_, false) for anything else.
func tsrCond(r *Repo, e ast.Expr) (bool, bool) {
	switch x := e.(type) {
	case *ast.ParenExpr:
		return tsrCond(r, x.X)
	case *ast.UnaryExpr:
		if x.Op.String() == "!" {
			v, ok := tsrCond(r, x.X)
			return !v, ok
		}
	case *ast.SelectorExpr:
		if r.Text(x) == "c.tsr" {
			return true, true
		}
	case *ast.BinaryExpr:
		op := x.Op.String()
		if op == "==" || op == "!=" {
			l, rr := r.Text(x.X), r.Text(x.Y)
			if rr == "c.tsr" {
				l, rr = rr, l
			}
			if l == "c.tsr" && (rr == "true" || rr == "false") {
				return (rr == "true") == (op == "=="), true
			}
		}
	}
	return false, false
}

// ctxHelperIsMakeCopy: `func name(p *Params) *Params { l := make(Params, len(*p)); copy(l, *p); return &l }` (any local names)
func ctxHelperIsMakeCopy(r *Repo, name string) bool {
	for fname, f := range r.Files {
		if strings.Contains(fname, "/") {
			continue
		}
		for _, d := range f.Decls {
			fd, ok := d.(*ast.FuncDecl)
			if !ok || fd.Recv != nil || fd.Body == nil || fd.Name.Name != name || fd.Type.Params == nil || len(fd.Type.Params.List) != 1 ||
				len(fd.Type.Params.List[0].Names) != 1 {
				continue
			}
			p := fd.Type.Params.List[0].Names[0].Name
			local, copied, returned := "", false, false
			for _, st := range fd.Body.List {
				switch x := st.(type) {
				case *ast.AssignStmt:
					if len(x.Lhs) == 1 && len(x.Rhs) == 1 {
						if id, ok := x.Lhs[0].(*ast.Ident); ok && strings.Join(strings.Fields(r.Text(x.Rhs[0])), "") == "make(Params,len(*"+p+"))" {
							local = id.Name
						}
					}
				case *ast.ExprStmt:
					if strings.Join(strings.Fields(r.Text(x.X)), "") == "copy("+local+",*"+p+")" && local != "" {
						copied = true
					}
				case *ast.ReturnStmt:
					if len(x.Results) == 1 && strings.Join(strings.Fields(r.Text(x.Results[0])), "") == "&"+local && local != "" {
						returned = true
					}
				default:
					return false
				}
			}
			return local != "" && copied && returned && len(fd.Body.List) == 3
		}
	}
	return false
}
