package main

import (
	"fmt"
	"go/ast"
	"go/token"
	"strings"
)

// Logger.lean (property C20), regenerated from logger.go:
//
//	loggerLevelCases     the case clauses of `func level(status int) slog.Level`, in source order, as
//	                     (inclusive lower bound, exclusive upper bound | none, numeric slog level)
//	loggerLevelDefault   the numeric slog level of the default clause
//	loggerNextCalls      number of calls of next(...) in the middleware body (LoggerWithHandler's innermost func literal)
//	loggerNextTopLevel   that call is a plain statement of the body (not in a branch, loop, defer or goroutine)
//	loggerLogCalls       number of log.LogAttrs calls in the body
//	loggerLogAfterNext   every LogAttrs call is textually after next(c), in a later top-level statement
//	loggerLogExclusive   the LogAttrs calls sit in the two arms of one if/else (exactly one executes)
//	loggerNoDeferRecover no defer, go or recover() in the body (a panic of next(c) unwinds through it untouched)
//	loggerWriterReadOnly c.Writer() is only used as c.Writer().Status() and c.Writer().Header().Get(...)
//	loggerMsgIsIPStr     the message argument of every LogAttrs call is the variable ipStr, the level argument is lvl
//	loggerLocationOnlyAtDebug  `location` is assigned exactly once, inside `if lvl.Level() == slog.LevelDebug`

func init() { registerFact("Logger.lean", genLoggerFacts) }

var lgfSlogLevels = map[string]int64{"LevelDebug": -4, "LevelInfo": 0, "LevelWarn": 4, "LevelError": 8}

func lgfSlogLevelOf(stmts []ast.Stmt) (int64, error) {
	if len(stmts) != 1 {
		return 0, fmt.Errorf("level: clause body is not a single return")
	}
	ret, ok := stmts[0].(*ast.ReturnStmt)
	if !ok || len(ret.Results) != 1 {
		return 0, fmt.Errorf("level: clause body is not a single return")
	}
	sel, ok := ret.Results[0].(*ast.SelectorExpr)
	if !ok {
		return 0, fmt.Errorf("level: returned value is not slog.LevelX")
	}
	if pkg, ok := sel.X.(*ast.Ident); !ok || pkg.Name != "slog" {
		return 0, fmt.Errorf("level: returned value is not slog.LevelX")
	}
	v, ok := lgfSlogLevels[sel.Sel.Name]
	if !ok {
		return 0, fmt.Errorf("level: unknown slog level %s", sel.Sel.Name)
	}
	return v, nil
}

// lgfBoundOf reads one comparison `status OP const` into (isLower, inclusive-lower | exclusive-upper).
func lgfBoundOf(e ast.Expr, param string) (lower bool, val int64, err error) {
	be, ok := e.(*ast.BinaryExpr)
	if !ok {
		return false, 0, fmt.Errorf("level: unexpected condition shape")
	}
	id, ok := be.X.(*ast.Ident)
	if !ok || id.Name != param {
		return false, 0, fmt.Errorf("level: comparison does not start with %s", param)
	}
	v, err := evalInt(be.Y, constEnv{}, 0)
	if err != nil {
		return false, 0, err
	}
	switch be.Op {
	case token.GEQ:
		return true, v, nil
	case token.GTR:
		return true, v + 1, nil
	case token.LSS:
		return false, v, nil
	case token.LEQ:
		return false, v + 1, nil
	}
	return false, 0, fmt.Errorf("level: unexpected operator %s", be.Op)
}

func genLoggerFacts(r *Repo) (string, error) {
	var sb strings.Builder
	sb.WriteString("namespace Fox.Generated\n\n")

	// ---- level
	fd := r.FuncDecl("logger.go", "", "level")
	if fd == nil || fd.Body == nil || len(fd.Type.Params.List) != 1 || len(fd.Type.Params.List[0].Names) != 1 {
		return "", fmt.Errorf("func level(status int) not found in logger.go")
	}
	param := fd.Type.Params.List[0].Names[0].Name
	if len(fd.Body.List) != 1 {
		return "", fmt.Errorf("level: body is not a single switch")
	}
	sw, ok := fd.Body.List[0].(*ast.SwitchStmt)
	if !ok || sw.Tag != nil || sw.Init != nil {
		return "", fmt.Errorf("level: body is not a tagless switch")
	}
	var cases []string
	dflt := int64(-1000)
	for _, st := range sw.Body.List {
		cc := st.(*ast.CaseClause)
		lvl, err := lgfSlogLevelOf(cc.Body)
		if err != nil {
			return "", err
		}
		if cc.List == nil {
			dflt = lvl
			continue
		}
		if dflt != -1000 {
			return "", fmt.Errorf("level: default clause is not last")
		}
		if len(cc.List) != 1 {
			return "", fmt.Errorf("level: case with several expressions")
		}
		var conj []ast.Expr
		var flat func(e ast.Expr)
		flat = func(e ast.Expr) {
			if p, ok := e.(*ast.ParenExpr); ok {
				flat(p.X)
				return
			}
			if b, ok := e.(*ast.BinaryExpr); ok && b.Op == token.LAND {
				flat(b.X)
				flat(b.Y)
				return
			}
			conj = append(conj, e)
		}
		flat(cc.List[0])
		lo, hi := int64(0), "none"
		haveLo := false
		for _, c := range conj {
			lower, v, err := lgfBoundOf(c, param)
			if err != nil {
				return "", err
			}
			if lower {
				if haveLo {
					return "", fmt.Errorf("level: two lower bounds in one case")
				}
				lo, haveLo = v, true
			} else {
				if hi != "none" {
					return "", fmt.Errorf("level: two upper bounds in one case")
				}
				hi = fmt.Sprintf("some %d", v)
			}
		}
		if !haveLo {
			return "", fmt.Errorf("level: case without lower bound")
		}
		cases = append(cases, fmt.Sprintf("(%d, %s, %d)", lo, hi, lvl))
	}
	if dflt == -1000 {
		return "", fmt.Errorf("level: no default clause")
	}
	fmt.Fprintf(&sb, "def loggerLevelCases : List (Int × Option Int × Int) := [%s]\n", strings.Join(cases, ", "))
	fmt.Fprintf(&sb, "def loggerLevelDefault : Int := %d\n", dflt)

	// ---- middleware body: the innermost func literal of LoggerWithHandler
	lw := r.FuncDecl("logger.go", "", "LoggerWithHandler")
	if lw == nil || lw.Body == nil {
		return "", fmt.Errorf("LoggerWithHandler not found in logger.go")
	}
	var inner *ast.FuncLit
	ast.Inspect(lw.Body, func(n ast.Node) bool {
		if fl, ok := n.(*ast.FuncLit); ok {
			inner = fl // pre-order: the last one visited on the nesting chain is the innermost
		}
		return true
	})
	if inner == nil {
		return "", fmt.Errorf("LoggerWithHandler: no func literal")
	}
	isNext := func(n ast.Node) bool {
		c, ok := n.(*ast.CallExpr)
		if !ok {
			return false
		}
		id, ok := c.Fun.(*ast.Ident)
		return ok && id.Name == "next"
	}
	isLog := func(n ast.Node) *ast.CallExpr {
		c, ok := n.(*ast.CallExpr)
		if !ok {
			return nil
		}
		sel, ok := c.Fun.(*ast.SelectorExpr)
		if !ok || sel.Sel.Name != "LogAttrs" {
			return nil
		}
		return c
	}
	nextCalls, logCalls := 0, 0
	nextTop, nextIdx := false, -1
	var nextEnd token.Pos
	noDefer := true
	writerRO := true
	msgOK := true
	var logPos []token.Pos
	for i, st := range inner.Body.List {
		if es, ok := st.(*ast.ExprStmt); ok && isNext(es.X) {
			nextTop, nextIdx, nextEnd = true, i, es.End()
		}
	}
	ast.Inspect(inner.Body, func(n ast.Node) bool {
		switch x := n.(type) {
		case *ast.DeferStmt, *ast.GoStmt:
			noDefer = false
		case *ast.CallExpr:
			if isNext(x) {
				nextCalls++
			}
			if id, ok := x.Fun.(*ast.Ident); ok && id.Name == "recover" {
				noDefer = false
			}
			if c := isLog(x); c != nil {
				logCalls++
				logPos = append(logPos, c.Pos())
				if len(c.Args) < 3 || r.Text(c.Args[1]) != "lvl" || r.Text(c.Args[2]) != "ipStr" {
					msgOK = false
				}
			}
		case *ast.SelectorExpr:
			// uses of c.Writer(): allowed are c.Writer().Status and c.Writer().Header (the latter only as .Header().Get)
			if call, ok := x.X.(*ast.CallExpr); ok {
				if s2, ok := call.Fun.(*ast.SelectorExpr); ok && s2.Sel.Name == "Writer" {
					if x.Sel.Name != "Status" && x.Sel.Name != "Header" {
						writerRO = false
					}
				}
				if s2, ok := call.Fun.(*ast.SelectorExpr); ok && s2.Sel.Name == "Header" && x.Sel.Name != "Get" {
					writerRO = false
				}
			}
		}
		return true
	})
	logAfter := nextTop
	for _, p := range logPos {
		if p <= nextEnd {
			logAfter = false
		}
	}
	// the two LogAttrs calls are the two arms of one if/else among the top-level statements after next(c)
	exclusive := false
	for i, st := range inner.Body.List {
		ifs, ok := st.(*ast.IfStmt)
		if !ok || i <= nextIdx || ifs.Else == nil {
			continue
		}
		cnt := func(n ast.Node) int {
			k := 0
			ast.Inspect(n, func(m ast.Node) bool {
				if m != nil && isLog(m) != nil {
					k++
				}
				return true
			})
			return k
		}
		if _, isBlock := ifs.Else.(*ast.BlockStmt); isBlock && cnt(ifs.Body) == 1 && cnt(ifs.Else) == 1 && logCalls == 2 {
			exclusive = true
		}
	}
	// location is assigned once, under `if lvl.Level() == slog.LevelDebug`
	locAssign, locGuarded := 0, false
	for _, st := range inner.Body.List {
		ast.Inspect(st, func(n ast.Node) bool {
			if as, ok := n.(*ast.AssignStmt); ok {
				for _, l := range as.Lhs {
					if id, ok := l.(*ast.Ident); ok && id.Name == "location" {
						locAssign++
					}
				}
			}
			return true
		})
		if ifs, ok := st.(*ast.IfStmt); ok && ifs.Else == nil {
			cond := strings.Join(strings.Fields(r.Text(ifs.Cond)), " ")
			if cond == "lvl.Level() == slog.LevelDebug" || cond == "lvl == slog.LevelDebug" {
				ast.Inspect(ifs.Body, func(n ast.Node) bool {
					if as, ok := n.(*ast.AssignStmt); ok {
						for _, l := range as.Lhs {
							if id, ok := l.(*ast.Ident); ok && id.Name == "location" {
								locGuarded = true
							}
						}
					}
					return true
				})
			}
		}
	}
	fmt.Fprintf(&sb, "def loggerNextCalls : Nat := %d\n", nextCalls)
	fmt.Fprintf(&sb, "def loggerNextTopLevel : Bool := %v\n", nextTop)
	fmt.Fprintf(&sb, "def loggerLogCalls : Nat := %d\n", logCalls)
	fmt.Fprintf(&sb, "def loggerLogAfterNext : Bool := %v\n", logAfter)
	fmt.Fprintf(&sb, "def loggerLogExclusive : Bool := %v\n", exclusive)
	fmt.Fprintf(&sb, "def loggerNoDeferRecover : Bool := %v\n", noDefer)
	fmt.Fprintf(&sb, "def loggerWriterReadOnly : Bool := %v\n", writerRO)
	fmt.Fprintf(&sb, "def loggerMsgIsIPStr : Bool := %v\n", msgOK)
	fmt.Fprintf(&sb, "def loggerLocationOnlyAtDebug : Bool := %v\n", locAssign == 1 && locGuarded)
	sb.WriteString("\nend Fox.Generated\n")
	return sb.String(), nil
}
