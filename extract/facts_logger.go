package main

import (
	"fmt"
	"go/ast"
	"go/token"
	"sort"
	"strings"
)

// Logger.lean (property C20), regenerated from logger.go:
//
//	loggerLevelPartition `func level(status int) slog.Level` as a canonical partition of the integers (see below); was: the case clauses in source order, as
//	                     (inclusive lower bound, exclusive upper bound | none, numeric slog level)
//	loggerLevelDefault   the numeric slog level of the default clause
//	loggerNextCalls      number of calls of next(...) in the middleware body (LoggerWithHandler's innermost func literal)
//	loggerNextTopLevel   that call is a plain statement of the body (not in a branch, loop, defer or goroutine)
//	loggerLogCalls       number of log.LogAttrs calls in the body
//	loggerLogAfterNext   every LogAttrs call is textually after next(c), in a later top-level statement
//	loggerLogExclusive   on every control-flow path through the statements after next(c) exactly one LogAttrs call executes
//	loggerNoDeferRecover no defer, go or recover() in the body (a panic of next(c) unwinds through it untouched)
//	loggerWriterReadOnly c.Writer() is only used as c.Writer().Status() and c.Writer().Header().Get(...)
//	loggerMsgIsIPStr     the message argument of every LogAttrs call is the variable ipStr, the level argument is lvl
//	loggerLocationOnlyAtDebug  `location` is assigned exactly once, inside `if lvl.Level() == slog.LevelDebug`

func init() { registerFact("Logger.lean", genLoggerFacts) }

var lgfSlogLevels = map[string]int64{"LevelDebug": -4, "LevelInfo": 0, "LevelWarn": 4, "LevelError": 8}

func lgfSlogLevelOf(stmts []ast.Stmt) (int64, error) {
	if len(stmts) != 1 {
		return 0, fmt.Errorf("level: clause body is not a single return")
	}
	ret, ok := stmts[0].(*ast.ReturnStmt)
	if !ok || len(ret.Results) != 1 {
		return 0, fmt.Errorf("level: clause body is not a single return")
	}
	sel, ok := ret.Results[0].(*ast.SelectorExpr)
	if !ok {
		return 0, fmt.Errorf("level: returned value is not slog.LevelX")
	}
	if pkg, ok := sel.X.(*ast.Ident); !ok || pkg.Name != "slog" {
		return 0, fmt.Errorf("level: returned value is not slog.LevelX")
	}
	v, ok := lgfSlogLevels[sel.Sel.Name]
	if !ok {
		return 0, fmt.Errorf("level: unknown slog level %s", sel.Sel.Name)
	}
	return v, nil
}

// lgfBoundOf reads one comparison `status OP const` into (isLower, inclusive-lower | exclusive-upper).
func lgfBoundOf(e ast.Expr, param string) (lower bool, val int64, err error) {
	be, ok := e.(*ast.BinaryExpr)
	if !ok {
		return false, 0, fmt.Errorf("level: unexpected condition shape")
	}
	op := be.Op
	id, ok := be.X.(*ast.Ident)
	other := be.Y
	if !ok || id.Name != param {
		// constant on the left: `200 <= status`
		id, ok = be.Y.(*ast.Ident)
		if !ok || id.Name != param {
			return false, 0, fmt.Errorf("level: comparison does not mention %s", param)
		}
		other = be.X
		switch be.Op {
		case token.GEQ:
			op = token.LEQ
		case token.GTR:
			op = token.LSS
		case token.LSS:
			op = token.GTR
		case token.LEQ:
			op = token.GEQ
		}
	}
	v, err := evalInt(other, constEnv{}, 0)
	if err != nil {
		return false, 0, err
	}
	switch op {
	case token.GEQ:
		return true, v, nil
	case token.GTR:
		return true, v + 1, nil
	case token.LSS:
		return false, v, nil
	case token.LEQ:
		return false, v + 1, nil
	}
	return false, 0, fmt.Errorf("level: unexpected operator %s", be.Op)
}

func genLoggerFacts(r *Repo) (string, error) {
	var sb strings.Builder
	sb.WriteString("namespace Fox.Generated\n\n")

	// ---- level
	fd := r.FuncDecl("logger.go", "", "level")
	if fd == nil || fd.Body == nil || len(fd.Type.Params.List) != 1 || len(fd.Type.Params.List[0].Names) != 1 {
		return "", fmt.Errorf("func level(status int) not found in logger.go")
	}
	param := fd.Type.Params.List[0].Names[0].Name
	if len(fd.Body.List) != 1 {
		return "", fmt.Errorf("level: body is not a single switch")
	}
	sw, ok := fd.Body.List[0].(*ast.SwitchStmt)
	if !ok || sw.Tag != nil || sw.Init != nil {
		return "", fmt.Errorf("level: body is not a tagless switch")
	}
	// Every case is a conjunction of comparisons of the parameter with integer constants (either operand order); the
	// switch is evaluated as Go does (first matching case, else default) at the representatives of every interval
	// between the constants, which yields the function as a canonical partition of the integers: consecutive intervals
	// (-inf, b1), [b1, b2), ... [bn, +inf) with their levels, adjacent intervals of equal level merged. Two switches that
	// compute the same function (other case order, redundant bounds dropped, `>` for `>=`, ...) give the same table.
	type cmp struct {
		lower bool
		v     int64
	}
	type lcase struct {
		conds []cmp
		lvl   int64
	}
	var lcases []lcase
	dflt := int64(-1000)
	breaks := map[int64]bool{}
	for _, st := range sw.Body.List {
		cc := st.(*ast.CaseClause)
		lvl, err := lgfSlogLevelOf(cc.Body)
		if err != nil {
			return "", err
		}
		if cc.List == nil {
			dflt = lvl
			continue
		}
		// `case a, b:` is a disjunction: one entry per alternative, same level
		for _, alt := range cc.List {
			var conj []ast.Expr
			var flat func(e ast.Expr)
			flat = func(e ast.Expr) {
				if p, ok := e.(*ast.ParenExpr); ok {
					flat(p.X)
					return
				}
				if b, ok := e.(*ast.BinaryExpr); ok && b.Op == token.LAND {
					flat(b.X)
					flat(b.Y)
					return
				}
				conj = append(conj, e)
			}
			flat(alt)
			lc := lcase{lvl: lvl}
			for _, c := range conj {
				lower, v, err := lgfBoundOf(c, param)
				if err != nil {
					return "", err
				}
				lc.conds = append(lc.conds, cmp{lower, v})
				breaks[v] = true
			}
			lcases = append(lcases, lc)
		}
	}
	if dflt == -1000 {
		// a switch without default falls through to the statements after it: not supported
		return "", fmt.Errorf("level: no default clause")
	}
	eval := func(s int64) int64 {
		for _, lc := range lcases {
			ok := true
			for _, c := range lc.conds {
				if c.lower && !(s >= c.v) || !c.lower && !(s < c.v) {
					ok = false
					break
				}
			}
			if ok {
				return lc.lvl
			}
		}
		return dflt
	}
	var bs []int64
	for b := range breaks {
		bs = append(bs, b)
	}
	sort.Slice(bs, func(i, j int) bool { return bs[i] < bs[j] })
	// intervals: (-inf, bs[0]), [bs[0], bs[1]), ..., [bs[n-1], +inf); representative = the lower end (bs[0]-1 for the first)
	type piece struct {
		hi  string // exclusive upper end, "none" = +inf
		lvl int64
	}
	var pieces []piece
	for i := 0; i <= len(bs); i++ {
		var rep int64
		hi := "none"
		switch {
		case len(bs) == 0:
			rep = 0
		case i == 0:
			rep, hi = bs[0]-1, fmt.Sprintf("some %d", bs[0])
		case i == len(bs):
			rep = bs[i-1]
		default:
			rep, hi = bs[i-1], fmt.Sprintf("some %d", bs[i])
		}
		pc := piece{hi, eval(rep)}
		if n := len(pieces); n > 0 && pieces[n-1].lvl == pc.lvl {
			pieces[n-1].hi = pc.hi
		} else {
			pieces = append(pieces, pc)
		}
	}
	var cells []string
	for _, pc := range pieces {
		cells = append(cells, fmt.Sprintf("(%s, %d)", pc.hi, pc.lvl))
	}
	fmt.Fprintf(&sb, "/-- `func level` as a partition of the integers: (exclusive upper end, slog level), ascending; `none` = +inf -/\n")
	fmt.Fprintf(&sb, "def loggerLevelPartition : List (Option Int × Int) := [%s]\n", strings.Join(cells, ", "))

	// ---- middleware body: the innermost func literal of LoggerWithHandler
	lw := r.FuncDecl("logger.go", "", "LoggerWithHandler")
	if lw == nil || lw.Body == nil {
		return "", fmt.Errorf("LoggerWithHandler not found in logger.go")
	}
	var inner *ast.FuncLit
	ast.Inspect(lw.Body, func(n ast.Node) bool {
		if fl, ok := n.(*ast.FuncLit); ok {
			inner = fl // pre-order: the last one visited on the nesting chain is the innermost
		}
		return true
	})
	if inner == nil {
		return "", fmt.Errorf("LoggerWithHandler: no func literal")
	}
	isNext := func(n ast.Node) bool {
		c, ok := n.(*ast.CallExpr)
		if !ok {
			return false
		}
		id, ok := c.Fun.(*ast.Ident)
		return ok && id.Name == "next"
	}
	isLog := func(n ast.Node) *ast.CallExpr {
		c, ok := n.(*ast.CallExpr)
		if !ok {
			return nil
		}
		sel, ok := c.Fun.(*ast.SelectorExpr)
		if !ok || sel.Sel.Name != "LogAttrs" {
			return nil
		}
		return c
	}
	nextCalls, logCalls := 0, 0
	nextTop, nextIdx := false, -1
	var nextEnd token.Pos
	noDefer := true
	writerRO := true
	msgOK := true
	var logPos []token.Pos
	for i, st := range inner.Body.List {
		if es, ok := st.(*ast.ExprStmt); ok && isNext(es.X) {
			nextTop, nextIdx, nextEnd = true, i, es.End()
		}
	}
	ast.Inspect(inner.Body, func(n ast.Node) bool {
		switch x := n.(type) {
		case *ast.DeferStmt, *ast.GoStmt:
			noDefer = false
		case *ast.CallExpr:
			if isNext(x) {
				nextCalls++
			}
			if id, ok := x.Fun.(*ast.Ident); ok && id.Name == "recover" {
				noDefer = false
			}
			if c := isLog(x); c != nil {
				logCalls++
				logPos = append(logPos, c.Pos())
				if len(c.Args) < 3 || r.Text(c.Args[1]) != "lvl" || r.Text(c.Args[2]) != "ipStr" {
					msgOK = false
				}
			}
		case *ast.SelectorExpr:
			// uses of c.Writer(): allowed are c.Writer().Status and c.Writer().Header (the latter only as .Header().Get)
			if call, ok := x.X.(*ast.CallExpr); ok {
				if s2, ok := call.Fun.(*ast.SelectorExpr); ok && s2.Sel.Name == "Writer" {
					if x.Sel.Name != "Status" && x.Sel.Name != "Header" {
						writerRO = false
					}
				}
				if s2, ok := call.Fun.(*ast.SelectorExpr); ok && s2.Sel.Name == "Header" && x.Sel.Name != "Get" {
					writerRO = false
				}
			}
		}
		return true
	})
	logAfter := nextTop
	for _, p := range logPos {
		if p <= nextEnd {
			logAfter = false
		}
	}
	// exactly one LogAttrs call executes on every control-flow path through the statements after next(c) (whatever the
	// shape: two arms of an if/else, an early return after the first, a switch)
	exclusive := false
	if nextIdx >= 0 {
		cntLog := func(n ast.Node) int {
			k := 0
			if n == nil {
				return 0
			}
			ast.Inspect(n, func(m ast.Node) bool {
				if _, ok := m.(*ast.FuncLit); ok {
					return false
				}
				if m != nil && isLog(m) != nil {
					k++
				}
				return true
			})
			return k
		}
		fall, done, ok := lgPaths(inner.Body.List[nextIdx+1:], cntLog)
		exclusive = ok && logCalls >= 1
		for _, c := range append(fall, done...) {
			if c != 1 {
				exclusive = false
			}
		}
	}
	// location is assigned once, under `if lvl.Level() == slog.LevelDebug`
	locAssign, locGuarded := 0, false
	for _, st := range inner.Body.List {
		ast.Inspect(st, func(n ast.Node) bool {
			if as, ok := n.(*ast.AssignStmt); ok {
				for _, l := range as.Lhs {
					if id, ok := l.(*ast.Ident); ok && id.Name == "location" {
						locAssign++
					}
				}
			}
			return true
		})
		if ifs, ok := st.(*ast.IfStmt); ok && ifs.Else == nil {
			cond := strings.Join(strings.Fields(r.Text(ifs.Cond)), " ")
			if cond == "lvl.Level() == slog.LevelDebug" || cond == "lvl == slog.LevelDebug" {
				ast.Inspect(ifs.Body, func(n ast.Node) bool {
					if as, ok := n.(*ast.AssignStmt); ok {
						for _, l := range as.Lhs {
							if id, ok := l.(*ast.Ident); ok && id.Name == "location" {
								locGuarded = true
							}
						}
					}
					return true
				})
			}
		}
	}
	// what the requests served through one installed Logger share: every variable declared in LoggerWithHandler outside the
	// per-request function, by the callee of its initialiser (today only the slog.Logger itself). A buffer or counter
	// declared there is written by concurrent requests.
	var shared []string
	var scan func(list []ast.Stmt)
	scan = func(list []ast.Stmt) {
		for _, st := range list {
			ast.Inspect(st, func(n ast.Node) bool {
				if fl, ok := n.(*ast.FuncLit); ok {
					if fl == inner {
						return false
					}
					return true
				}
				switch x := n.(type) {
				case *ast.AssignStmt:
					if x.Tok == token.DEFINE {
						for i := range x.Lhs {
							kind := "expr"
							if i < len(x.Rhs) {
								switch rh := x.Rhs[i].(type) {
								case *ast.CallExpr:
									kind = r.Text(rh.Fun)
								case *ast.FuncLit:
									continue
								}
							}
							shared = append(shared, kind)
						}
					}
				case *ast.ValueSpec:
					for i := range x.Names {
						kind := "zero"
						if i < len(x.Values) {
							kind = "expr"
							if c, ok := x.Values[i].(*ast.CallExpr); ok {
								kind = r.Text(c.Fun)
							}
						}
						shared = append(shared, kind)
					}
				}
				return true
			})
		}
	}
	scan(lw.Body.List)
	sort.Strings(shared)
	fmt.Fprintf(&sb, "/-- callee of the initialiser of every variable shared by the requests of one Logger -/\ndef loggerSharedState : List String := %s\n", leanStrList(shared))
	fmt.Fprintf(&sb, "def loggerNextCalls : Nat := %d\n", nextCalls)
	fmt.Fprintf(&sb, "def loggerNextTopLevel : Bool := %v\n", nextTop)
	fmt.Fprintf(&sb, "def loggerLogCalls : Nat := %d\n", logCalls)
	fmt.Fprintf(&sb, "def loggerLogAfterNext : Bool := %v\n", logAfter)
	fmt.Fprintf(&sb, "def loggerLogExclusive : Bool := %v\n", exclusive)
	fmt.Fprintf(&sb, "def loggerNoDeferRecover : Bool := %v\n", noDefer)
	fmt.Fprintf(&sb, "def loggerWriterReadOnly : Bool := %v\n", writerRO)
	fmt.Fprintf(&sb, "def loggerMsgIsIPStr : Bool := %v\n", msgOK)
	fmt.Fprintf(&sb, "def loggerLocationOnlyAtDebug : Bool := %v\n", locAssign == 1 && locGuarded)
	sb.WriteString("\nend Fox.Generated\n")
	return sb.String(), nil
}

// lgPaths enumerates the control-flow paths through a statement list and counts the log calls on each: `fall` are the
// counts of the paths that reach the end of the list, `done` of those that return before. ok = false when the shape is
// outside what is understood (a log call or a return inside a loop, goto, fallthrough, select, defer, go).
func lgPaths(stmts []ast.Stmt, cnt func(ast.Node) int) (fall, done []int, ok bool) {
	fall = []int{0}
	ok = true
	add := func(xs []int, d int) []int {
		ys := make([]int, 0, len(xs))
		for _, x := range xs {
			ys = append(ys, x+d)
		}
		return ys
	}
	uniq := func(xs []int) []int {
		seen := map[int]bool{}
		var ys []int
		for _, x := range xs {
			if !seen[x] {
				seen[x] = true
				ys = append(ys, x)
			}
		}
		return ys
	}
	hasReturn := func(n ast.Node) bool {
		r := false
		ast.Inspect(n, func(m ast.Node) bool {
			if _, ok := m.(*ast.FuncLit); ok {
				return false
			}
			if _, ok := m.(*ast.ReturnStmt); ok {
				r = true
			}
			return true
		})
		return r
	}
	for _, st := range stmts {
		if len(fall) == 0 {
			break // unreachable
		}
		var sFall, sDone []int
		switch x := st.(type) {
		case *ast.ReturnStmt:
			sDone = []int{cnt(x)}
		case *ast.BlockStmt:
			f, d, k := lgPaths(x.List, cnt)
			sFall, sDone, ok = f, d, ok && k
		case *ast.IfStmt:
			pre := cnt(x.Init) + cnt(x.Cond)
			f, d, k := lgPaths(x.Body.List, cnt)
			ok = ok && k
			var ef, ed []int
			switch e := x.Else.(type) {
			case nil:
				ef = []int{0}
			case *ast.BlockStmt:
				var k2 bool
				ef, ed, k2 = lgPaths(e.List, cnt)
				ok = ok && k2
			default:
				var k2 bool
				ef, ed, k2 = lgPaths([]ast.Stmt{e}, cnt)
				ok = ok && k2
			}
			sFall = add(append(f, ef...), pre)
			sDone = add(append(d, ed...), pre)
		case *ast.SwitchStmt, *ast.TypeSwitchStmt:
			var body *ast.BlockStmt
			pre := 0
			if sw, isSw := x.(*ast.SwitchStmt); isSw {
				body, pre = sw.Body, cnt(sw.Init)+cnt(sw.Tag)
			} else {
				ts := x.(*ast.TypeSwitchStmt)
				body, pre = ts.Body, cnt(ts.Init)+cnt(ts.Assign)
			}
			hasDefault := false
			for _, cl := range body.List {
				cc := cl.(*ast.CaseClause)
				if cc.List == nil {
					hasDefault = true
				}
				clause := cc.Body
				for bi, b := range clause {
					if br, isBr := b.(*ast.BranchStmt); isBr {
						if br.Tok == token.BREAK && br.Label == nil {
							clause = clause[:bi] // an unlabelled break ends the clause: what follows the switch comes next
							break
						}
						if br.Tok == token.FALLTHROUGH {
							ok = false
						}
					}
				}
				f, d, k := lgPaths(clause, cnt)
				ok = ok && k
				sFall = append(sFall, f...)
				sDone = append(sDone, d...)
			}
			if !hasDefault {
				sFall = append(sFall, 0)
			}
			sFall, sDone = add(sFall, pre), add(sDone, pre)
		case *ast.ForStmt, *ast.RangeStmt, *ast.SelectStmt, *ast.LabeledStmt, *ast.GoStmt, *ast.DeferStmt:
			if cnt(x) > 0 || hasReturn(x) {
				ok = false
			}
			sFall = []int{0}
		case *ast.BranchStmt:
			ok = false
			sFall = []int{0}
		default:
			sFall = []int{cnt(x)}
		}
		var nf []int
		for _, c := range fall {
			nf = append(nf, add(sFall, c)...)
			done = append(done, add(sDone, c)...)
		}
		fall, done = uniq(nf), uniq(done)
	}
	return fall, done, ok
}
