package main

import (
	"fmt"
	"go/ast"
	"go/token"
	"sort"
	"strings"
)

// Options.lean: what the option constructors of options.go assign, the form of the `mws:` initialiser of NewRoute,
// the shape of DefaultOptions and the annotation key check (consumers: C13, C19).

func init() { registerFact("Options.lean", genOptions) }

// optFieldOf returns ("router"|"route", field) for an expression rooted at s.router.<f> / s.route.<f> (index and slice
// expressions stripped), or ok=false.
func optFieldOf(e ast.Expr) (string, string, bool) {
	for {
		switch x := e.(type) {
		case *ast.IndexExpr:
			e = x.X
			continue
		case *ast.SliceExpr:
			e = x.X
			continue
		case *ast.StarExpr:
			e = x.X
			continue
		case *ast.ParenExpr:
			e = x.X
			continue
		}
		break
	}
	sel, ok := e.(*ast.SelectorExpr)
	if !ok {
		return "", "", false
	}
	// a local that was bound to s.router / s.route (`if rte := s.route; rte != nil { rte.x = … }`)
	if id, ok := sel.X.(*ast.Ident); ok {
		if tgt, ok := optAlias[id.Name]; ok {
			return tgt, sel.Sel.Name, true
		}
	}
	inner, ok := sel.X.(*ast.SelectorExpr)
	if !ok {
		return "", "", false
	}
	id, ok := inner.X.(*ast.Ident)
	if !ok || id.Name != "s" || (inner.Sel.Name != "router" && inner.Sel.Name != "route") {
		return "", "", false
	}
	return inner.Sel.Name, sel.Sel.Name, true
}

// optAlias: the locals of the option constructor under analysis that are bound (once, by a short variable declaration) to
// s.router or s.route
var optAlias = map[string]string{}

func optCollectAliases(r *Repo, body ast.Node) {
	optAlias = map[string]string{}
	ast.Inspect(body, func(n ast.Node) bool {
		as, ok := n.(*ast.AssignStmt)
		if !ok || as.Tok != token.DEFINE || len(as.Lhs) != len(as.Rhs) {
			return true
		}
		for i, l := range as.Lhs {
			id, ok := l.(*ast.Ident)
			if !ok {
				continue
			}
			switch r.Text(as.Rhs[i]) {
			case "s.router":
				optAlias[id.Name] = "router"
			case "s.route":
				optAlias[id.Name] = "route"
			}
		}
		return true
	})
}

func optSortedKeys(m map[string]bool) []string {
	var ks []string
	for k := range m {
		ks = append(ks, k)
	}
	sort.Strings(ks)
	return ks
}

func genOptions(r *Repo) (string, error) {
	f := r.File("options.go")
	if f == nil || r.File("fox.go") == nil {
		return "", fmt.Errorf("options.go / fox.go missing")
	}
	var sb strings.Builder
	sb.WriteString("namespace Fox.Generated\n\n")

	// ---- NewRoute: the `mws:` initialiser
	nr := r.FuncDecl("fox.go", "Router", "NewRoute")
	if nr == nil {
		return "", fmt.Errorf("Router.NewRoute not found")
	}
	form, expr := "unknown", ""
	ast.Inspect(nr.Body, func(n ast.Node) bool {
		cl, ok := n.(*ast.CompositeLit)
		if !ok || r.Text(cl.Type) != "Route" {
			return true
		}
		for _, el := range cl.Elts {
			kv, ok := el.(*ast.KeyValueExpr)
			if !ok || r.Text(kv.Key) != "mws" {
				continue
			}
			expr = r.Text(kv.Value)
			switch v := kv.Value.(type) {
			case *ast.SelectorExpr:
				if normExpr(r, nr, v) == "$r.mws" {
					form = "shared"
				}
			case *ast.CallExpr:
				fn := r.Text(v.Fun)
				if fn == "slices.Clone" && len(v.Args) == 1 && normExpr(r, nr, v.Args[0]) == "$r.mws" {
					form = "copied"
				}
				if fn == "append" && len(v.Args) == 2 && v.Ellipsis != token.NoPos && normExpr(r, nr, v.Args[1]) == "$r.mws" {
					a0 := strings.ReplaceAll(r.Text(v.Args[0]), " ", "")
					if a0 == "[]middleware(nil)" || a0 == "[]middleware{}" {
						form = "copied"
					}
				}
			}
		}
		return true
	})
	// the route middleware must not be assigned anywhere else in NewRoute
	ast.Inspect(nr.Body, func(n ast.Node) bool {
		if as, ok := n.(*ast.AssignStmt); ok {
			for _, l := range as.Lhs {
				if strings.HasSuffix(r.Text(l), ".mws") {
					form = "unknown"
				}
			}
		}
		return true
	})
	fmt.Fprintf(&sb, "def newRouteMwsInit : String := %s\n", leanStr(form))
	fmt.Fprintf(&sb, "def newRouteMwsCopied : Bool := %v\n", form == "copied")
	fmt.Fprintf(&sb, "def newRouteMwsExpr : String := %s\n", leanStr(expr))

	// ---- the router fields NewRoute copies into a fresh route (key, value expression)
	var inits []string
	ast.Inspect(nr.Body, func(n ast.Node) bool {
		cl, ok := n.(*ast.CompositeLit)
		if !ok || r.Text(cl.Type) != "Route" {
			return true
		}
		for _, el := range cl.Elts {
			if kv, ok := el.(*ast.KeyValueExpr); ok {
				// the value with the receiver written $r, parameters $p<i>, and locals bound by `a, b, err := f(…)` written f#<i>:
				// renaming them does not change the fact
				inits = append(inits, fmt.Sprintf("(%s, %s)", leanStr(r.Text(kv.Key)), leanStr(normExpr(r, nr, kv.Value))))
			}
		}
		return false
	})
	sort.Strings(inits)
	fmt.Fprintf(&sb, "def newRouteInit : List (String × String) := [%s]\n", strings.Join(inits, ", "))

	// ---- option constructors
	type optFacts struct {
		name            string
		router, route   map[string]bool
		nilCheck        bool
		returnsErrorVal bool
	}
	var opts []optFacts
	// package-level helper functions of options.go (not option constructors themselves)
	helpers := map[string]*ast.FuncDecl{}
	for _, d := range f.Decls {
		if fd, ok := d.(*ast.FuncDecl); ok && fd.Recv == nil {
			helpers[fd.Name.Name] = fd
		}
	}
	for _, d := range f.Decls {
		fd, ok := d.(*ast.FuncDecl)
		if !ok || fd.Recv != nil || fd.Type.Results == nil || len(fd.Type.Results.List) != 1 {
			continue
		}
		rt := r.Text(fd.Type.Results.List[0].Type)
		if rt != "GlobalOption" && rt != "RouteOption" && rt != "Option" {
			continue
		}
		o := optFacts{name: fd.Name.Name, router: map[string]bool{}, route: map[string]bool{}}
		optCollectAliases(r, fd.Body)
		ast.Inspect(fd.Body, func(n ast.Node) bool {
			switch x := n.(type) {
			case *ast.AssignStmt:
				for _, l := range x.Lhs {
					if tgt, fld, ok := optFieldOf(l); ok {
						if tgt == "router" {
							o.router[fld] = true
						} else {
							o.route[fld] = true
						}
					}
				}
			case *ast.IncDecStmt:
				if tgt, fld, ok := optFieldOf(x.X); ok {
					if tgt == "router" {
						o.router[fld] = true
					} else {
						o.route[fld] = true
					}
				}
			case *ast.IfStmt:
				if nilCheckIf(r, x) {
					o.nilCheck = true
				}
			case *ast.CallExpr:
				// the check may live in a helper of the package that the constructor calls (one level)
				if id, ok := x.Fun.(*ast.Ident); ok {
					if h := helpers[id.Name]; h != nil && h.Body != nil {
						ast.Inspect(h.Body, func(m ast.Node) bool {
							if is, ok := m.(*ast.IfStmt); ok && nilCheckIf(r, is) {
								o.nilCheck = true
							}
							return true
						})
					}
				}
			}
			return true
		})
		opts = append(opts, o)
	}
	if len(opts) == 0 {
		return "", fmt.Errorf("no option constructor found in options.go")
	}
	sort.Slice(opts, func(i, j int) bool { return opts[i].name < opts[j].name })
	var rows, nils []string
	for _, o := range opts {
		rows = append(rows, fmt.Sprintf("(%s, %s, %s)", leanStr(o.name), leanStrList(optSortedKeys(o.router)), leanStrList(optSortedKeys(o.route))))
		if o.nilCheck {
			nils = append(nils, o.name)
		}
	}
	fmt.Fprintf(&sb, "/-- (option constructor, router fields it assigns, route fields it assigns) -/\ndef optionWrites : List (String × List String × List String) := [\n  %s]\n", strings.Join(rows, ",\n  "))
	fmt.Fprintf(&sb, "/-- option constructors that reject a nil argument with ErrInvalidConfig -/\ndef optionNilChecks : List String := %s\n", leanStrList(nils))

	// ---- the trailing-slash options: what is assigned unconditionally and what only under `if enable`
	for _, name := range []string{"WithRedirectTrailingSlash", "WithIgnoreTrailingSlash"} {
		fd := r.FuncDecl("options.go", "", name)
		if fd == nil {
			return "", fmt.Errorf("%s not found", name)
		}
		var items []string
		var walk func(n ast.Node, guard string)
		walk = func(n ast.Node, guard string) {
			ast.Inspect(n, func(m ast.Node) bool {
				switch x := m.(type) {
				case *ast.IfStmt:
					c := r.Text(x.Cond)
					if c == "enable" || c == "!enable" {
						walk(x.Body, c)
						if x.Else != nil {
							walk(x.Else, "else:"+c)
						}
						return false
					}
				case *ast.AssignStmt:
					for i, l := range x.Lhs {
						if tgt, fld, ok := optFieldOf(l); ok && i < len(x.Rhs) {
							items = append(items, fmt.Sprintf("(%s, %s, %s, %s)", leanStr(tgt), leanStr(fld), leanStr(guard), leanStr(r.Text(x.Rhs[i]))))
						}
					}
				}
				return true
			})
		}
		optCollectAliases(r, fd.Body)
		walk(fd.Body, "")
		sort.Strings(items)
		fmt.Fprintf(&sb, "/-- (target, field, guard, value) of every assignment in %s -/\ndef assigns_%s : List (String × String × String × String) := [%s]\n",
			name, name, strings.Join(items, ", "))
	}

	// ---- WithClientIPResolver: what each target's resolver is after the option ran, by cases on the argument.
	// The option body is evaluated symbolically for the four cases (target router|route) x (resolver nil|non-nil):
	// conditions over `resolver`, `s.router`, `s.route` and nil with == != && || !, if/else, assignments to
	// s.<target>.clientip whose value is `resolver`, the no-resolver value (noClientIPResolver{}, possibly converted) or
	// cmp.Or over those. Anything else is reported as "unknown: <text>". The fact is the effect, not the wording.
	if fd := r.FuncDecl("options.go", "", "WithClientIPResolver"); fd != nil {
		var lit *ast.FuncLit
		ast.Inspect(fd.Body, func(m ast.Node) bool {
			if fl, ok := m.(*ast.FuncLit); ok && lit == nil {
				lit = fl
			}
			return true
		})
		var items []string
		if lit != nil {
			optCollectAliases(r, lit.Body)
			for _, tgt := range []string{"route", "router"} {
				for _, isNil := range []bool{true, false} {
					ev := &resolverEval{r: r, target: tgt, resolverNil: isNil, value: "unchanged"}
					ev.block(lit.Body.List)
					arg := "non-nil"
					if isNil {
						arg = "nil"
					}
					items = append(items, fmt.Sprintf("(%s, %s, %s)", leanStr(tgt), leanStr(arg), leanStr(ev.value)))
				}
			}
		}
		sort.Strings(items)
		fmt.Fprintf(&sb, "/-- (target, argument, resolver of the target after WithClientIPResolver(argument) ran) -/\ndef effect_WithClientIPResolver : List (String × String × String) := [%s]\n", strings.Join(items, ", "))
	} else {
		return "", fmt.Errorf("WithClientIPResolver not found")
	}

	// ---- WithAnnotation: the key check
	wa := r.FuncDecl("options.go", "", "WithAnnotation")
	if wa == nil {
		return "", fmt.Errorf("WithAnnotation not found")
	}
	keyCheck := ""
	ast.Inspect(wa.Body, func(m ast.Node) bool {
		if is, ok := m.(*ast.IfStmt); ok && keyCheck == "" && strings.Contains(r.Text(is.Cond), "key") {
			keyCheck = strings.Join(strings.Fields(r.Text(is.Cond)), " ")
		}
		return true
	})
	fmt.Fprintf(&sb, "def annotationKeyCheck : String := %s\n", leanStr(keyCheck))

	// ---- DefaultOptions: what is put where
	do := r.FuncDecl("options.go", "", "DefaultOptions")
	if do == nil {
		return "", fmt.Errorf("DefaultOptions not found")
	}
	dform := "unknown"
	var entries []string
	ast.Inspect(do.Body, func(m ast.Node) bool {
		as, ok := m.(*ast.AssignStmt)
		if !ok || len(as.Lhs) != 1 || r.Text(as.Lhs[0]) != "s.router.mws" || len(as.Rhs) != 1 {
			return true
		}
		call, ok := as.Rhs[0].(*ast.CallExpr)
		if !ok || r.Text(call.Fun) != "append" || len(call.Args) < 2 {
			return true
		}
		lit := func(e ast.Expr) bool {
			cl, ok := e.(*ast.CompositeLit)
			if !ok {
				return false
			}
			for _, el := range cl.Elts {
				if inner, ok := el.(*ast.CompositeLit); ok && len(inner.Elts) == 3 {
					fn := r.Text(inner.Elts[0])
					entries = append(entries, fmt.Sprintf("(%s, %s, %s)", leanStr(strings.TrimSuffix(fn, "()")), leanStr(r.Text(inner.Elts[1])), leanStr(r.Text(inner.Elts[2]))))
				}
			}
			return true
		}
		if len(call.Args) == 2 && call.Ellipsis != token.NoPos && r.Text(call.Args[1]) == "s.router.mws" && lit(call.Args[0]) {
			dform = "prepend"
		} else if r.Text(call.Args[0]) == "s.router.mws" {
			dform = "append"
		}
		return true
	})
	fmt.Fprintf(&sb, "def defaultOptionsForm : String := %s\n", leanStr(dform))
	fmt.Fprintf(&sb, "/-- (constructor, scope, global flag) of the entries DefaultOptions installs, in order -/\ndef defaultOptionsEntries : List (String × String × String) := [%s]\n", strings.Join(entries, ", "))

	// ---- the loops of applyMiddleware / applyRouteMiddleware (direction and scope test)
	for _, name := range []string{"applyMiddleware", "applyRouteMiddleware"} {
		fd := r.FuncDecl("fox.go", "", name)
		if fd == nil {
			return "", fmt.Errorf("%s not found", name)
		}
		// The loop is reported by its meaning, not its text: "backward over <slice>" for `for i := len(s) - 1; i >= 0; i--`
		// and for `range slices.Backward(s)`; "forward over <slice>" for `for i := 0; i < len(s); i++` and `range s`; the
		// text otherwise. In the conditions the current element (`s[i]`, or the range variable) is written `$`.
		loop, conds := "", []string{}
		elem := ""
		ast.Inspect(fd.Body, func(m ast.Node) bool {
			switch x := m.(type) {
			case *ast.ForStmt:
				init, cond, post := strings.ReplaceAll(r.Text(x.Init), " ", ""), strings.ReplaceAll(r.Text(x.Cond), " ", ""), strings.ReplaceAll(r.Text(x.Post), " ", "")
				loop = strings.Join(strings.Fields(r.Text(x.Init)+"; "+r.Text(x.Cond)+"; "+r.Text(x.Post)), " ")
				if as, ok := x.Init.(*ast.AssignStmt); ok && len(as.Lhs) == 1 {
					iv := r.Text(as.Lhs[0])
					if strings.HasPrefix(init, iv+":=len(") && strings.HasSuffix(init, ")-1") && cond == iv+">=0" && post == iv+"--" {
						sl := init[len(iv+":=len(") : len(init)-len(")-1")]
						loop, elem = "backward over "+sl, sl+"["+iv+"]"
					} else if init == iv+":=0" && strings.HasPrefix(cond, iv+"<len(") && post == iv+"++" {
						sl := cond[len(iv+"<len(") : len(cond)-1]
						loop, elem = "forward over "+sl, sl+"["+iv+"]"
					}
				}
			case *ast.RangeStmt:
				xs := r.Text(x.X)
				loop = "range " + xs
				val := ""
				if x.Value != nil {
					val = r.Text(x.Value)
				}
				if strings.HasPrefix(xs, "slices.Backward(") && strings.HasSuffix(xs, ")") && val != "" {
					loop, elem = "backward over "+xs[len("slices.Backward("):len(xs)-1], val
				} else if val != "" && val != "_" {
					loop, elem = "forward over "+xs, val
				}
			case *ast.IfStmt:
				conds = append(conds, strings.Join(strings.Fields(r.Text(x.Cond)), " "))
			}
			return true
		})
		if elem != "" {
			for i := range conds {
				conds[i] = strings.ReplaceAll(conds[i], elem, "$")
			}
		}
		fmt.Fprintf(&sb, "def loop_%s : String := %s\ndef conds_%s : List String := %s\n", name, leanStr(loop), name, leanStrList(conds))
	}

	fmt.Fprintf(&sb, "def optionsSha : String := %s\n", leanStr(r.Sha("options.go", "fox.go", "route.go")))
	sb.WriteString("\nend Fox.Generated\n")
	return sb.String(), nil
}

// nilCheckIf: `if <argument> == nil { … return …ErrInvalidConfig… }` (a nil check on an argument, not on s.router / s.route)
func nilCheckIf(r *Repo, x *ast.IfStmt) bool {
	c := r.Text(x.Cond)
	if !strings.Contains(c, "== nil") || strings.Contains(c, "s.router") || strings.Contains(c, "s.route") {
		return false
	}
	found := false
	ast.Inspect(x.Body, func(m ast.Node) bool {
		if rs, ok := m.(*ast.ReturnStmt); ok {
			for _, res := range rs.Results {
				if strings.Contains(r.Text(res), "ErrInvalidConfig") {
					found = true
				}
			}
		}
		return true
	})
	return found
}

// resolverEval evaluates the body of the WithClientIPResolver option for one target and one shape of the argument.
type resolverEval struct {
	r           *Repo
	target      string // "router" or "route": which of s.router / s.route is non-nil
	resolverNil bool
	value       string // "unchanged", "resolver", "none", or "unknown: …"
	done        bool
}

// cond: 1 true, 0 false, -1 not understood
func (ev *resolverEval) cond(e ast.Expr) int {
	switch x := e.(type) {
	case *ast.ParenExpr:
		return ev.cond(x.X)
	case *ast.UnaryExpr:
		if x.Op.String() == "!" {
			if v := ev.cond(x.X); v >= 0 {
				return 1 - v
			}
		}
		return -1
	case *ast.BinaryExpr:
		switch x.Op.String() {
		case "&&":
			a, b := ev.cond(x.X), ev.cond(x.Y)
			if a == 0 || b == 0 {
				return 0
			}
			if a == 1 && b == 1 {
				return 1
			}
			return -1
		case "||":
			a, b := ev.cond(x.X), ev.cond(x.Y)
			if a == 1 || b == 1 {
				return 1
			}
			if a == 0 && b == 0 {
				return 0
			}
			return -1
		case "==", "!=":
			l, rr := ev.r.Text(x.X), ev.r.Text(x.Y)
			if l == "nil" {
				l, rr = rr, l
			}
			if rr != "nil" {
				return -1
			}
			isNil := -1
			if tgt, ok := optAlias[l]; ok {
				l = "s." + tgt
			}
			switch l {
			case "resolver":
				isNil = b2i(ev.resolverNil)
			case "s.router":
				isNil = b2i(ev.target != "router")
			case "s.route":
				isNil = b2i(ev.target != "route")
			}
			if isNil < 0 {
				return -1
			}
			if x.Op.String() == "==" {
				return isNil
			}
			return 1 - isNil
		}
	}
	return -1
}

func b2i(b bool) int {
	if b {
		return 1
	}
	return 0
}

// val: "resolver", "none", "nil" or "unknown: …"
func (ev *resolverEval) val(e ast.Expr) string {
	switch x := e.(type) {
	case *ast.ParenExpr:
		return ev.val(x.X)
	case *ast.Ident:
		if x.Name == "resolver" {
			if ev.resolverNil {
				return "nil"
			}
			return "resolver"
		}
		if x.Name == "nil" {
			return "nil"
		}
	case *ast.CompositeLit:
		if ev.r.Text(x.Type) == "noClientIPResolver" && len(x.Elts) == 0 {
			return "none"
		}
	case *ast.CallExpr:
		fn := ev.r.Text(x.Fun)
		if fn == "ClientIPResolver" && len(x.Args) == 1 {
			return ev.val(x.Args[0])
		}
		if fn == "cmp.Or" {
			for _, a := range x.Args {
				v := ev.val(a)
				if strings.HasPrefix(v, "unknown") {
					return v
				}
				if v != "nil" {
					return v
				}
			}
			return "nil"
		}
	}
	return "unknown: " + strings.Join(strings.Fields(ev.r.Text(e)), " ")
}

func (ev *resolverEval) block(list []ast.Stmt) {
	for _, st := range list {
		if ev.done {
			return
		}
		ev.stmt(st)
	}
}

func (ev *resolverEval) stmt(st ast.Stmt) {
	switch x := st.(type) {
	case *ast.BlockStmt:
		ev.block(x.List)
	case *ast.ReturnStmt:
		ev.done = true
	case *ast.IfStmt:
		if x.Init != nil {
			// `if rte := s.route; …`: the binding is known to optAlias; anything else is not understood
			okInit := false
			if as, ok := x.Init.(*ast.AssignStmt); ok && as.Tok == token.DEFINE && len(as.Lhs) == 1 && len(as.Rhs) == 1 {
				if id, ok := as.Lhs[0].(*ast.Ident); ok {
					if _, ok := optAlias[id.Name]; ok {
						okInit = true
					}
				}
			}
			if !okInit {
				ev.value, ev.done = "unknown: "+strings.Join(strings.Fields(ev.r.Text(x.Init)), " "), true
				return
			}
		}
		switch ev.cond(x.Cond) {
		case 1:
			ev.block(x.Body.List)
		case 0:
			if x.Else != nil {
				ev.stmt(x.Else)
			}
		default:
			ev.value, ev.done = "unknown: "+strings.Join(strings.Fields(ev.r.Text(x.Cond)), " "), true
		}
	case *ast.AssignStmt:
		for i, l := range x.Lhs {
			tgt, fld, ok := optFieldOf(l)
			if !ok || fld != "clientip" || i >= len(x.Rhs) {
				ev.value, ev.done = "unknown: "+strings.Join(strings.Fields(ev.r.Text(x)), " "), true
				return
			}
			if tgt != ev.target {
				// a write through the nil side of the sealed option would panic; the conditions above must exclude it
				ev.value, ev.done = "unknown: write to s."+tgt+" while it is nil", true
				return
			}
			ev.value = ev.val(x.Rhs[i])
		}
	default:
		ev.value, ev.done = "unknown: "+strings.Join(strings.Fields(ev.r.Text(st)), " "), true
	}
}

// normExpr renders an expression of function fd with its receiver as $r, its parameters as $p<i> and every local that
// is bound by a multi-value call `a, b, err := f(args)` as `<f>#<index>` (f normalised the same way).
func normExpr(r *Repo, fd *ast.FuncDecl, e ast.Expr) string {
	names := map[string]string{}
	if fd.Recv != nil && len(fd.Recv.List) == 1 && len(fd.Recv.List[0].Names) == 1 {
		names[fd.Recv.List[0].Names[0].Name] = "$r"
	}
	if fd.Type.Params != nil {
		i := 0
		for _, f := range fd.Type.Params.List {
			for _, nm := range f.Names {
				names[nm.Name] = fmt.Sprintf("$p%d", i)
				i++
			}
		}
	}
	var render func(e ast.Expr) string
	render = func(e ast.Expr) string {
		switch x := e.(type) {
		case *ast.Ident:
			if v, ok := names[x.Name]; ok {
				return v
			}
			return x.Name
		case *ast.SelectorExpr:
			return render(x.X) + "." + x.Sel.Name
		case *ast.CallExpr:
			var args []string
			for _, a := range x.Args {
				args = append(args, render(a))
			}
			return render(x.Fun) + "(" + strings.Join(args, ", ") + ")"
		case *ast.ParenExpr:
			return "(" + render(x.X) + ")"
		case *ast.StarExpr:
			return "*" + render(x.X)
		case *ast.UnaryExpr:
			return x.Op.String() + render(x.X)
		}
		return strings.Join(strings.Fields(r.Text(e)), " ")
	}
	// locals bound by a call with several results
	ast.Inspect(fd.Body, func(n ast.Node) bool {
		as, ok := n.(*ast.AssignStmt)
		if !ok || len(as.Rhs) != 1 || len(as.Lhs) < 2 {
			return true
		}
		call, ok := as.Rhs[0].(*ast.CallExpr)
		if !ok {
			return true
		}
		for i, l := range as.Lhs {
			if id, ok := l.(*ast.Ident); ok && id.Name != "_" && id.Name != "err" {
				if _, taken := names[id.Name]; !taken {
					names[id.Name] = fmt.Sprintf("%s#%d", render(call.Fun), i)
				}
			}
		}
		return true
	})
	return render(e)
}
