package main

import (
	"fmt"
	"go/ast"
	"sort"
	"strings"

	"foxfacts/cfg"
)

// Pool.lean (properties C12, C14, C16): the discipline of pooled objects (request contexts from tree.ctx, copy buffers from
// copyBufPool). For every function (and function literal) of the root package that obtains an object from a pool
// (`v := X.Get()…`), the control-flow graph of the function is walked with the state of `v` (held / released / release
// deferred) and one verdict per acquisition is produced:
//
//	released-once      on every path to an exit the object is given back exactly once (Put / a put helper / v.Close(), directly
//	                   or deferred) and is not used afterwards
//	escapes            it is handed to the caller in a return statement (and released on the other paths)
//	double-release, use-after-release, leak, leak-in-loop, defer-in-loop, captured-by-closure, release-of-foreign
//	                   anything else, with the function name
//
// The fact is the sorted set of verdict kinds, not the list of sites: moving an acquisition into a helper or renaming
// variables does not change it; releasing twice, releasing early, or hoisting an acquisition out of a closure does.

func init() { registerFact("Pool.lean", genPool) }

type poolState uint8 // bit set over (phase, deferred)

const (
	phNone = iota
	phHeld
	phReleased
)

func stBit(phase int, deferred bool) poolState {
	b := phase * 2
	if deferred {
		b++
	}
	return 1 << uint(b)
}

type poolAnalysis struct {
	r        *Repo
	fn       string
	v        string
	obj      *ast.Object
	verdicts map[string]bool
	aliases  map[string]bool // locals defined as `x := v` / `x := *v`: using them is using the pooled object
}

// poolNames: package-level variables and struct fields of type sync.Pool (filled by genPool)
var poolNames = map[string]bool{}

func isPoolRecv(txt string) bool {
	if i := strings.LastIndexByte(txt, '.'); i >= 0 {
		txt = txt[i+1:]
	}
	return poolNames[txt]
}

func collectPoolNames(r *Repo) {
	poolNames = map[string]bool{}
	for f, file := range r.Files {
		if strings.Contains(f, "/") {
			continue
		}
		ast.Inspect(file, func(n ast.Node) bool {
			switch x := n.(type) {
			case *ast.ValueSpec:
				isPool := x.Type != nil && r.Text(x.Type) == "sync.Pool"
				for _, v := range x.Values {
					if cl, ok := v.(*ast.CompositeLit); ok && r.Text(cl.Type) == "sync.Pool" {
						isPool = true
					}
				}
				if isPool {
					for _, nm := range x.Names {
						poolNames[nm.Name] = true
					}
				}
			case *ast.Field:
				if x.Type != nil && r.Text(x.Type) == "sync.Pool" {
					for _, nm := range x.Names {
						poolNames[nm.Name] = true
					}
				}
			}
			return true
		})
	}
}

// acquisition: `v := X.Get()` / `v := X.Get().(*T)` / `v = …`
func (a *poolAnalysis) acquireOf(r *Repo, n ast.Node) (string, *ast.Object, bool) {
	as, ok := n.(*ast.AssignStmt)
	if !ok || len(as.Lhs) != 1 || len(as.Rhs) != 1 {
		return "", nil, false
	}
	id, ok := as.Lhs[0].(*ast.Ident)
	if !ok {
		return "", nil, false
	}
	e := as.Rhs[0]
	if ta, ok := e.(*ast.TypeAssertExpr); ok {
		e = ta.X
	}
	call, ok := e.(*ast.CallExpr)
	if !ok || len(call.Args) != 0 {
		return "", nil, false
	}
	se, ok := call.Fun.(*ast.SelectorExpr)
	if !ok || se.Sel.Name != "Get" || !isPoolRecv(r.Text(se.X)) {
		return "", nil, false
	}
	return id.Name, id.Obj, true
}

func (a *poolAnalysis) isVar(e ast.Expr) bool {
	id, ok := e.(*ast.Ident)
	if !ok || id.Name != a.v {
		return false
	}
	return a.obj == nil || id.Obj == nil || id.Obj == a.obj
}

// release: X.Put(v), X.put(v), put(v), v.Close()
func (a *poolAnalysis) releaseCall(call *ast.CallExpr) bool {
	switch f := call.Fun.(type) {
	case *ast.SelectorExpr:
		if f.Sel.Name == "Close" && len(call.Args) == 0 && a.isVar(f.X) {
			return true
		}
		if strings.EqualFold(f.Sel.Name, "put") {
			for _, arg := range call.Args {
				if a.isVar(arg) {
					return true
				}
			}
		}
	case *ast.Ident:
		if strings.EqualFold(f.Name, "put") {
			for _, arg := range call.Args {
				if a.isVar(arg) {
					return true
				}
			}
		}
	}
	return false
}

func (a *poolAnalysis) uses(n ast.Node) bool {
	found := false
	ast.Inspect(n, func(m ast.Node) bool {
		if _, ok := m.(*ast.FuncLit); ok {
			return false
		}
		if id, ok := m.(*ast.Ident); ok && (a.isVar(id) || a.aliases[id.Name]) {
			found = true
		}
		return true
	})
	return found
}

// findAliases: `x := v`, `x := *v` anywhere in the body
func (a *poolAnalysis) findAliases(body *ast.BlockStmt) {
	a.aliases = map[string]bool{}
	ast.Inspect(body, func(m ast.Node) bool {
		as, ok := m.(*ast.AssignStmt)
		if !ok || len(as.Lhs) != len(as.Rhs) {
			return true
		}
		for i, rhs := range as.Rhs {
			e := rhs
			for {
				switch x := e.(type) {
				case *ast.StarExpr:
					e = x.X
					continue
				case *ast.ParenExpr:
					e = x.X
					continue
				case *ast.SliceExpr:
					e = x.X
					continue
				}
				break
			}
			if a.isVar(e) {
				if id, ok := as.Lhs[i].(*ast.Ident); ok && id.Name != "_" && id.Name != a.v {
					a.aliases[id.Name] = true
				}
			}
		}
		return true
	})
}

func (a *poolAnalysis) add(v string) { a.verdicts[v] = true }

// transfer applies one CFG node to a set of states
func (a *poolAnalysis) transfer(n ast.Node, in poolState) poolState {
	var out poolState
	each := func(f func(phase int, deferred bool) (int, bool)) {
		for phase := 0; phase < 3; phase++ {
			for _, d := range []bool{false, true} {
				if in&stBit(phase, d) != 0 {
					p2, d2 := f(phase, d)
					out |= stBit(p2, d2)
				}
			}
		}
	}
	// acquisition of this variable
	if name, obj, ok := a.acquireOf(a.r, n); ok && name == a.v && (a.obj == nil || obj == nil || obj == a.obj) {
		each(func(phase int, d bool) (int, bool) {
			if phase == phHeld {
				a.add("leak-in-loop")
			}
			if d {
				a.add("defer-in-loop")
			}
			return phHeld, d
		})
		return out
	}
	// deferred release
	if ds, ok := n.(*ast.DeferStmt); ok {
		rel := a.releaseCall(ds.Call)
		if !rel {
			// defer func() { … Put(v) … }()
			if fl, ok := ds.Call.Fun.(*ast.FuncLit); ok {
				ast.Inspect(fl.Body, func(m ast.Node) bool {
					if c, ok := m.(*ast.CallExpr); ok && a.releaseCall(c) {
						rel = true
					}
					return true
				})
			}
		}
		if rel {
			each(func(phase int, d bool) (int, bool) {
				if phase != phHeld {
					a.add("deferred-release-not-held")
				}
				if d {
					a.add("double-release")
				}
				return phase, true
			})
			return out
		}
	}
	// direct release (an expression statement, or anywhere inside the node)
	released := false
	ast.Inspect(n, func(m ast.Node) bool {
		if _, ok := m.(*ast.FuncLit); ok {
			return false
		}
		if c, ok := m.(*ast.CallExpr); ok && a.releaseCall(c) {
			released = true
		}
		return true
	})
	if released {
		each(func(phase int, d bool) (int, bool) {
			switch phase {
			case phReleased:
				a.add("double-release")
			case phNone:
				a.add("release-of-foreign")
			}
			return phReleased, d
		})
		return out
	}
	// a return statement that hands the object over
	if rs, ok := n.(*ast.ReturnStmt); ok {
		esc := false
		for _, res := range rs.Results {
			if a.isVar(res) {
				esc = true
			}
			if id, ok := res.(*ast.Ident); ok && a.aliases[id.Name] {
				esc = true
			}
		}
		if esc {
			each(func(phase int, d bool) (int, bool) {
				if phase == phReleased || d {
					a.add("returns-released")
				} else if phase == phHeld {
					a.add("escapes")
				}
				return phNone, d // ownership passed on
			})
			return out
		}
	}
	// any other use
	if a.uses(n) {
		each(func(phase int, d bool) (int, bool) {
			if phase == phReleased {
				a.add("use-after-release")
			}
			return phase, d
		})
		return out
	}
	return in
}

func (a *poolAnalysis) run(body *ast.BlockStmt) {
	a.findAliases(body)
	g := cfg.New(body, func(*ast.CallExpr) bool { return true })
	in := make(map[*cfg.Block]poolState)
	if len(g.Blocks) == 0 {
		return
	}
	in[g.Blocks[0]] = stBit(phNone, false)
	work := []*cfg.Block{g.Blocks[0]}
	exitStates := poolState(0)
	for len(work) > 0 {
		b := work[len(work)-1]
		work = work[:len(work)-1]
		st := in[b]
		for _, n := range b.Nodes {
			st = a.transfer(n, st)
		}
		if len(b.Succs) == 0 {
			exitStates |= st
		}
		for _, s := range b.Succs {
			if in[s]|st != in[s] {
				in[s] |= st
				work = append(work, s)
			}
		}
	}
	for phase := 0; phase < 3; phase++ {
		for _, d := range []bool{false, true} {
			if exitStates&stBit(phase, d) == 0 {
				continue
			}
			switch {
			case phase == phHeld && !d:
				a.add("leak")
			case phase == phHeld && d, phase == phReleased && !d:
				a.add("released-once")
			case phase == phReleased && d:
				a.add("double-release")
			case phase == phNone && d:
				a.add("deferred-release-not-held")
			}
		}
	}
}

func genPool(r *Repo) (string, error) {
	collectPoolNames(r)
	kinds := map[string]bool{}
	var details []string
	sites := 0
	var files []string
	for f := range r.Files {
		if !strings.Contains(f, "/") {
			files = append(files, f)
		}
	}
	sort.Strings(files)
	for _, file := range files {
		for _, d := range r.Files[file].Decls {
			fd, ok := d.(*ast.FuncDecl)
			if !ok || fd.Body == nil {
				continue
			}
			fn := fd.Name.Name
			if fd.Recv != nil && len(fd.Recv.List) == 1 {
				fn = recvName(fd.Recv.List[0].Type) + "." + fn
			}
			// the function itself and every function literal inside it are analysed as separate bodies
			type unit struct {
				name string
				body *ast.BlockStmt
			}
			units := []unit{{fn, fd.Body}}
			ast.Inspect(fd.Body, func(n ast.Node) bool {
				if fl, ok := n.(*ast.FuncLit); ok {
					units = append(units, unit{fn + "/func", fl.Body})
				}
				return true
			})
			for _, u := range units {
				// acquisitions directly in this body (not in nested literals)
				type acq struct {
					name string
					obj  *ast.Object
				}
				var acqs []acq
				dummy := &poolAnalysis{r: r}
				ast.Inspect(u.body, func(n ast.Node) bool {
					if fl, ok := n.(*ast.FuncLit); ok && fl.Body != u.body {
						return false
					}
					if name, obj, ok := dummy.acquireOf(r, n); ok {
						dup := false
						for _, x := range acqs {
							if x.name == name && x.obj == obj {
								dup = true
							}
						}
						if !dup {
							acqs = append(acqs, acq{name, obj})
						}
					}
					return true
				})
				for _, q := range acqs {
					sites++
					a := &poolAnalysis{r: r, fn: u.name, v: q.name, obj: q.obj, verdicts: map[string]bool{}}
					a.run(u.body)
					// captured by a nested literal?
					ast.Inspect(u.body, func(n ast.Node) bool {
						if fl, ok := n.(*ast.FuncLit); ok && fl.Body != u.body {
							if a.uses2(fl.Body) {
								a.add("captured-by-closure")
							}
							return false
						}
						return true
					})
					var vs []string
					for k := range a.verdicts {
						vs = append(vs, k)
						kinds[k] = true
					}
					sort.Strings(vs)
					bad := false
					for _, k := range vs {
						if k != "released-once" && k != "escapes" {
							bad = true
						}
					}
					if bad {
						details = append(details, u.name+"|"+q.name+": "+strings.Join(vs, "+"))
					}
				}
				// releases of variables this body did not acquire and did not receive as a parameter: an acquisition was hoisted out
				foreign := map[string]bool{}
				ast.Inspect(u.body, func(n ast.Node) bool {
					if fl, ok := n.(*ast.FuncLit); ok && fl.Body != u.body {
						return false
					}
					call, ok := n.(*ast.CallExpr)
					if !ok {
						return true
					}
					var arg ast.Expr
					if se, ok := call.Fun.(*ast.SelectorExpr); ok {
						if se.Sel.Name == "Put" && isPoolRecv(r.Text(se.X)) && len(call.Args) == 1 {
							arg = call.Args[0]
						}
					}
					if id, ok := arg.(*ast.Ident); ok {
						mine := false
						for _, q := range acqs {
							if q.name == id.Name {
								mine = true
							}
						}
						if !mine && u.name != fn && !isParamOfLit(u.body, fd, id) {
							foreign[id.Name] = true
						}
					}
					return true
				})
				for v := range foreign {
					kinds["release-of-captured"] = true
					details = append(details, u.name+"|"+v+": release-of-captured")
				}
			}
		}
	}
	var ks []string
	for k := range kinds {
		ks = append(ks, k)
	}
	sort.Strings(ks)
	sort.Strings(details)
	var sb strings.Builder
	sb.WriteString("namespace Fox.Generated\n\n")
	sb.WriteString("/-- verdict kinds over all acquisitions of pooled objects (request contexts, copy buffers) in the root package -/\n")
	fmt.Fprintf(&sb, "def poolVerdicts : List String := %s\n", leanStrList(ks))
	sb.WriteString("/-- acquisitions whose verdict is not `released-once` / `escapes` (function|variable: verdicts) -/\n")
	fmt.Fprintf(&sb, "def poolOffenders : List String := %s\n", leanStrList(details))
	fmt.Fprintf(&sb, "def poolAcquisitions : Nat := %d\n", sites)
	sb.WriteString("\nend Fox.Generated\n")
	return sb.String(), nil
}

// uses2: does the variable occur anywhere below n (function literals included)
func (a *poolAnalysis) uses2(n ast.Node) bool {
	found := false
	ast.Inspect(n, func(m ast.Node) bool {
		if id, ok := m.(*ast.Ident); ok && a.isVar(id) {
			found = true
		}
		return true
	})
	return found
}

// isParamOfLit: id is a parameter of the function literal whose body is `body` (found below fd)
func isParamOfLit(body *ast.BlockStmt, fd *ast.FuncDecl, id *ast.Ident) bool {
	res := false
	ast.Inspect(fd.Body, func(n ast.Node) bool {
		if fl, ok := n.(*ast.FuncLit); ok && fl.Body == body && fl.Type.Params != nil {
			for _, f := range fl.Type.Params.List {
				for _, nm := range f.Names {
					if nm.Name == id.Name {
						res = true
					}
				}
			}
		}
		return true
	})
	return res
}
