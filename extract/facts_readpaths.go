package main

import (
	"fmt"
	"go/ast"
	"go/token"
	"sort"
	"strings"
)

// ReadPaths.lean: the package functions statically reachable from the read entry points, each with the blocking
// primitives it contains (with the enclosing `if` conditions), and the call sites that begin a transaction (with the
// text of the `write` argument). Calls are resolved BY NAME inside the loaded packages (a call `x.m(…)` reaches every
// method named `m`, a call `f(…)` every function named `f`): conservative, no type information needed. Calls through
// function values and interfaces whose methods are not declared in the package (handlers, middleware, ResponseWriter,
// resolvers) are the boundary to user code / the standard library, which is not traversed.

func init() { registerFact("ReadPaths.lean", genReadPaths) }

type rpFunc struct {
	key   string // Recv.Name or Name
	name  string
	decl  *ast.FuncDecl
	calls map[string]bool // callee simple names
	block []rpBlock
	begin []rpBegin
}

type rpBlock struct{ prim, text, guard string }
type rpBegin struct{ callee, arg string }

// the transaction constructor of this source tree (see txnCtor), set by genReadPaths before the bodies are scanned
var rpCtor *txnCtor

func genReadPaths(r *Repo) (string, error) {
	rpCtor = r.txnCtor()
	if rpCtor == nil {
		return "", fmt.Errorf("Router.Txn not found")
	}
	funcs := map[string]*rpFunc{}
	byName := map[string][]*rpFunc{}
	for rel, f := range r.Files {
		imports := map[string]bool{}
		for _, im := range f.Imports {
			p := strings.Trim(im.Path.Value, "\"")
			n := p[strings.LastIndex(p, "/")+1:]
			if im.Name != nil {
				n = im.Name.Name
			}
			imports[n] = true
		}
		for _, d := range f.Decls {
			fd, ok := d.(*ast.FuncDecl)
			if !ok || fd.Body == nil {
				continue
			}
			key := fd.Name.Name
			if fd.Recv != nil && len(fd.Recv.List) == 1 {
				key = recvName(fd.Recv.List[0].Type) + "." + key
			}
			if strings.Contains(rel, "/") {
				key = rel[:strings.LastIndex(rel, "/")] + ":" + key
			}
			if key == rpCtor.key() && key != "Router.Txn" {
				key = "Router.txnWith" // canonical name of the transaction constructor
			}
			fn := &rpFunc{key: key, name: fd.Name.Name, decl: fd, calls: map[string]bool{}}
			rpScan(r, fn, fd.Body, nil, imports)
			funcs[key] = fn
			byName[fd.Name.Name] = append(byName[fd.Name.Name], fn)
		}
	}
	entries := []string{"Router.ServeHTTP", "Router.Lookup", "Router.Reverse", "Router.Has", "Router.Route", "Router.Len",
		"Router.Iter", "Router.View", "Router.Txn", "Router.txnWith",
		"Txn.Has", "Txn.Route", "Txn.Reverse", "Txn.Lookup", "Txn.Iter", "Txn.Len", "Txn.Snapshot"}
	for k := range funcs {
		if strings.HasPrefix(k, "Iter.") || strings.HasPrefix(k, "cTx.") {
			entries = append(entries, k)
		}
	}
	sort.Strings(entries)
	var missing []string
	reach := map[string]bool{}
	var work []string
	for _, e := range entries {
		if funcs[e] == nil {
			missing = append(missing, e)
			continue
		}
		if !reach[e] {
			reach[e] = true
			work = append(work, e)
		}
	}
	if len(missing) > 0 {
		return "", fmt.Errorf("read entry points not found: %s", strings.Join(missing, ", "))
	}
	// the transaction entry points are read entry points only with write == false: writer-only callees of a
	// transaction are not followed from Router.Txn / txnWith beyond what they call themselves
	for len(work) > 0 {
		k := work[len(work)-1]
		work = work[:len(work)-1]
		for c := range funcs[k].calls {
			for _, g := range byName[c] {
				if !reach[g.key] {
					reach[g.key] = true
					work = append(work, g.key)
				}
			}
		}
	}
	keys := make([]string, 0, len(reach))
	for k := range reach {
		keys = append(keys, k)
	}
	sort.Strings(keys)

	var sb strings.Builder
	sb.WriteString(`namespace Fox.Generated

inductive BlockPrim where
  | mutexLock | rwLock | chanSend | chanRecv | selectStmt | condWait | sleep | goStmt
deriving DecidableEq, Repr

/-- a blocking primitive inside a function: kind, source text (bytes), enclosing conditions (bytes) -/
structure BlockSite where
  fn : List Nat
  prim : BlockPrim
  text : List Nat
  guard : List Nat
  fnName : String
  srcText : String
  guardText : String
deriving Repr

def BlockSite.key (b : BlockSite) : List Nat × BlockPrim × List Nat × List Nat := (b.fn, b.prim, b.text, b.guard)

/-- a call that begins a transaction: caller, callee (Txn | txnWith), text of the write argument -/
structure BeginSite where
  caller : List Nat
  callee : List Nat
  arg : List Nat
  callerName : String
  calleeName : String
  argText : String
deriving Repr

def BeginSite.key (b : BeginSite) : List Nat × List Nat × List Nat := (b.caller, b.callee, b.arg)

`)
	fmt.Fprintf(&sb, "/-- the read entry points -/\ndef readEntryPoints : List String := %s\n\n", leanStrList(entries))
	fmt.Fprintf(&sb, "/-- functions statically reachable from them (name-based resolution) -/\ndef readReachable : List String := %s\ndef readReachableCount : Nat := %d\n\n", leanStrList(keys), len(keys))
	var blocks, begins []string
	for _, k := range keys {
		for _, b := range funcs[k].block {
			blocks = append(blocks, fmt.Sprintf("⟨%s, .%s, %s, %s, %s, %s, %s⟩", bytesOf(k), b.prim, bytesOf(b.text), bytesOf(b.guard), leanStr(k), leanStr(b.text), leanStr(b.guard)))
		}
		for _, b := range funcs[k].begin {
			begins = append(begins, fmt.Sprintf("⟨%s, %s, %s, %s, %s, %s⟩", bytesOf(k), bytesOf(b.callee), bytesOf(b.arg), leanStr(k), leanStr(b.callee), leanStr(b.arg)))
		}
	}
	fmt.Fprintf(&sb, "/-- every blocking primitive inside a reachable function -/\ndef readBlocking : List BlockSite :=\n  [%s]\n\n", strings.Join(blocks, ",\n   "))
	fmt.Fprintf(&sb, "/-- every call inside a reachable function that begins a transaction -/\ndef readBegins : List BeginSite :=\n  [%s]\n\n", strings.Join(begins, ",\n   "))
	// the same for the whole package (evidence only): which functions block at all
	var all []string
	for k, f := range funcs {
		for _, b := range f.block {
			all = append(all, k+": "+b.text)
		}
	}
	sort.Strings(all)
	fmt.Fprintf(&sb, "/-- blocking primitives anywhere in the loaded packages (information) -/\ndef allBlocking : List String := %s\n\n", leanStrList(all))
	var srcs []string
	for rel := range r.Files {
		srcs = append(srcs, rel)
	}
	fmt.Fprintf(&sb, "def readPathsExtractorVersion : Nat := 1\ndef readPathsSha : String := %s\n\nend Fox.Generated\n", leanStr(r.Sha(srcs...)))
	return sb.String(), nil
}

func rpScan(r *Repo, fn *rpFunc, n ast.Node, guards []string, imports map[string]bool) {
	if n == nil {
		return
	}
	guard := func() string { return strings.Join(guards, " && ") }
	txt := func(x ast.Node) string { return strings.Join(strings.Fields(r.Text(x)), " ") }
	switch x := n.(type) {
	case *ast.IfStmt:
		if x.Init != nil {
			rpScan(r, fn, x.Init, guards, imports)
		}
		rpScan(r, fn, x.Cond, guards, imports)
		c := txt(x.Cond)
		rpScan(r, fn, x.Body, append(append([]string(nil), guards...), c), imports)
		if x.Else != nil {
			rpScan(r, fn, x.Else, append(append([]string(nil), guards...), "!("+c+")"), imports)
		}
		return
	case *ast.SendStmt:
		fn.block = append(fn.block, rpBlock{"chanSend", txt(x), guard()})
	case *ast.SelectStmt:
		fn.block = append(fn.block, rpBlock{"selectStmt", "select", guard()})
	case *ast.GoStmt:
		// not blocking, but a read path that spawns goroutines deserves a look
		fn.block = append(fn.block, rpBlock{"goStmt", txt(x.Call.Fun), guard()})
	case *ast.UnaryExpr:
		if x.Op == token.ARROW {
			fn.block = append(fn.block, rpBlock{"chanRecv", txt(x), guard()})
		}
	case *ast.CallExpr:
		switch f := x.Fun.(type) {
		case *ast.Ident:
			fn.calls[f.Name] = true
			if f.Name == rpCtor.name && rpCtor.recv == "" {
				arg := ""
				if len(x.Args) > rpCtor.writeIdx {
					arg = txt(x.Args[rpCtor.writeIdx])
				}
				fn.begin = append(fn.begin, rpBegin{"txnWith", arg})
			}
		case *ast.SelectorExpr:
			name := f.Sel.Name
			if id, ok := f.X.(*ast.Ident); ok && imports[id.Name] && id.Obj == nil {
				// call into an imported package: boundary, except the blocking primitives of time / sync
				if id.Name == "time" && name == "Sleep" {
					fn.block = append(fn.block, rpBlock{"sleep", txt(x), guard()})
				}
			} else {
				fn.calls[name] = true
				switch name {
				case "Lock":
					fn.block = append(fn.block, rpBlock{"mutexLock", txt(x), guard()})
				case "RLock":
					fn.block = append(fn.block, rpBlock{"rwLock", txt(x), guard()})
				case "Wait":
					fn.block = append(fn.block, rpBlock{"condWait", txt(x), guard()})
				}
				if name == "Txn" || name == rpCtor.name {
					arg, idx, callee := "", 0, name
					if name == rpCtor.name && name != "Txn" {
						idx, callee = rpCtor.writeIdx, "txnWith"
					}
					if len(x.Args) > idx {
						arg = txt(x.Args[idx])
					}
					fn.begin = append(fn.begin, rpBegin{callee, arg})
				}
			}
		}
	}
	// generic descent
	ast.Inspect(n, func(c ast.Node) bool {
		if c == nil || c == n {
			return true
		}
		rpScan(r, fn, c, guards, imports)
		return false
	})
}
