package main

import (
	"fmt"
	"go/ast"
	"go/token"
	"strconv"
	"strings"
)

// Recovery.lean: facts of recovery.go / http_consts.go / fox.go that the C15 model and theorems depend on.
//
//	blacklistedHeader          the redaction list, named constants resolved to their string values
//	redactCompareMode          1 = strings.EqualFold inside slices.ContainsFunc, 2 = exact (slices.Contains / ==), 0 = unknown
//	brokenConnSubstrings       the literals connIsBroken looks for (+ whether the text is lower-cased first)
//	abortRepanics / handleGuard  the ErrAbortHandler re-panic and the `!Written() && !connIsBroken` guard
//	updates* / view*           shape of the deferred function of Router.Updates / Router.View
//	singleOp*                  `defer txn.Abort()` precedes the operation in Handle, HandleRoute, Update, UpdateRoute, Delete

func init() { registerFact("Recovery.lean", genRecovery) }

func stringConsts(f *ast.File) map[string]string {
	env := map[string]string{}
	for _, d := range f.Decls {
		gd, ok := d.(*ast.GenDecl)
		if !ok || gd.Tok != token.CONST {
			continue
		}
		for _, sp := range gd.Specs {
			vs := sp.(*ast.ValueSpec)
			for i, n := range vs.Names {
				if i < len(vs.Values) {
					if bl, ok := vs.Values[i].(*ast.BasicLit); ok && bl.Kind == token.STRING {
						if s, err := strconv.Unquote(bl.Value); err == nil {
							env[n.Name] = s
						}
					}
				}
			}
		}
	}
	return env
}

func leanBool(b bool) string {
	if b {
		return "true"
	}
	return "false"
}

func leanBoolList(bs []bool) string {
	xs := make([]string, len(bs))
	for i, b := range bs {
		xs[i] = leanBool(b)
	}
	return "[" + strings.Join(xs, ", ") + "]"
}

// isCall reports whether e is a call of pkgOrRecv.name (selector) or name (ident when pkgOrRecv == "").
func isCall(e ast.Expr, recv, name string) (*ast.CallExpr, bool) {
	ce, ok := e.(*ast.CallExpr)
	if !ok {
		return nil, false
	}
	switch f := ce.Fun.(type) {
	case *ast.SelectorExpr:
		if id, ok := f.X.(*ast.Ident); ok && id.Name == recv && f.Sel.Name == name {
			return ce, true
		}
	case *ast.Ident:
		if recv == "" && f.Name == name {
			return ce, true
		}
	}
	return nil, false
}

func isAbortStmt(s ast.Stmt) bool {
	es, ok := s.(*ast.ExprStmt)
	if !ok {
		return false
	}
	_, ok = isCall(es.X, "txn", "Abort")
	return ok
}

type managedShape struct {
	deferFirst, recovers, abortOnPanic, repanics, abortOnNormal bool
}

// managedTxnShape analyses Updates / View: `txn := …; defer func(){ if p := recover(); p != nil { txn.Abort(); panic(p) }; txn.Abort() }(); … fn(txn) …`
func managedTxnShape(r *Repo, fd *ast.FuncDecl) managedShape {
	var m managedShape
	deferIdx, fnIdx := -1, -1
	for i, st := range fd.Body.List {
		if ds, ok := st.(*ast.DeferStmt); ok && deferIdx < 0 {
			deferIdx = i
			fl, ok := ds.Call.Fun.(*ast.FuncLit)
			if !ok {
				continue
			}
			// the deferred function is evaluated for the two ways it can be entered - a panic is in flight (recover() != nil)
			// or not - instead of being matched against one wording
			ev := func(panicking bool) (recovers, aborted, repanicked bool) {
				pvars := map[string]bool{}
				done := false
				var run func(list []ast.Stmt)
				isRecoverAssign := func(st ast.Stmt) (string, bool) {
					as, ok := st.(*ast.AssignStmt)
					if !ok || len(as.Lhs) != 1 || len(as.Rhs) != 1 {
						return "", false
					}
					if _, ok := isCall(as.Rhs[0], "", "recover"); !ok {
						return "", false
					}
					return r.Text(as.Lhs[0]), true
				}
				// cond: 1 true, 0 false, -1 unknown
				cond := func(e ast.Expr) int {
					t := strings.ReplaceAll(r.Text(e), " ", "")
					for v := range pvars {
						if t == v+"!=nil" || t == "nil!="+v {
							if panicking {
								return 1
							}
							return 0
						}
						if t == v+"==nil" || t == "nil=="+v {
							if panicking {
								return 0
							}
							return 1
						}
					}
					return -1
				}
				run = func(list []ast.Stmt) {
					for _, st := range list {
						if done {
							return
						}
						if v, ok := isRecoverAssign(st); ok {
							pvars[v] = true
							recovers = true
							continue
						}
						switch x := st.(type) {
						case *ast.IfStmt:
							if x.Init != nil {
								if v, ok := isRecoverAssign(x.Init); ok {
									pvars[v] = true
									recovers = true
								}
							}
							switch cond(x.Cond) {
							case 1:
								run(x.Body.List)
							case 0:
								switch el := x.Else.(type) {
								case *ast.BlockStmt:
									run(el.List)
								case *ast.IfStmt:
									run([]ast.Stmt{el})
								}
							}
						case *ast.ExprStmt:
							if isAbortStmt(x) {
								aborted = true
							}
							if ce, ok := isCall(x.X, "", "panic"); ok && len(ce.Args) == 1 && pvars[r.Text(ce.Args[0])] {
								repanicked = true
								done = true
							}
						case *ast.BlockStmt:
							run(x.List)
						}
					}
				}
				run(fl.Body.List)
				return
			}
			rec1, abortedP, repanicked := ev(true)
			_, abortedN, _ := ev(false)
			m.recovers = rec1
			m.abortOnPanic = rec1 && abortedP
			m.repanics = repanicked
			m.abortOnNormal = abortedN
		}
		if fnIdx < 0 && strings.Contains(r.Text(st), "fn(txn)") {
			fnIdx = i
		}
	}
	m.deferFirst = deferIdx >= 0 && fnIdx >= 0 && deferIdx < fnIdx
	return m
}

func genRecovery(r *Repo) (string, error) {
	hc, rec, fx := r.File("http_consts.go"), r.File("recovery.go"), r.File("fox.go")
	if hc == nil || rec == nil || fx == nil {
		return "", fmt.Errorf("http_consts.go / recovery.go / fox.go missing")
	}
	env := stringConsts(hc)
	var black []string
	found := false
	for _, d := range hc.Decls {
		gd, ok := d.(*ast.GenDecl)
		if !ok || gd.Tok != token.VAR {
			continue
		}
		for _, sp := range gd.Specs {
			vs := sp.(*ast.ValueSpec)
			for i, n := range vs.Names {
				if n.Name != "blacklistedHeader" || i >= len(vs.Values) {
					continue
				}
				cl, ok := vs.Values[i].(*ast.CompositeLit)
				if !ok {
					return "", fmt.Errorf("blacklistedHeader is not a composite literal")
				}
				found = true
				for _, el := range cl.Elts {
					switch x := el.(type) {
					case *ast.BasicLit:
						s, err := strconv.Unquote(x.Value)
						if err != nil {
							return "", err
						}
						black = append(black, s)
					case *ast.Ident:
						s, ok := env[x.Name]
						if !ok {
							return "", fmt.Errorf("blacklistedHeader: cannot resolve constant %s", x.Name)
						}
						black = append(black, s)
					default:
						return "", fmt.Errorf("blacklistedHeader: unsupported element %s", r.Text(el))
					}
				}
			}
		}
	}
	if !found {
		return "", fmt.Errorf("blacklistedHeader not found")
	}

	// recovery(): comparison mode, abort re-panic, handle guard
	fd := r.FuncDecl("recovery.go", "", "recovery")
	if fd == nil {
		return "", fmt.Errorf("func recovery not found")
	}
	mode := 0
	modeText := "unknown"
	abortRepanics := false
	handleGuard := ""
	ast.Inspect(fd.Body, func(n ast.Node) bool {
		switch x := n.(type) {
		case *ast.IfStmt:
			cond := strings.ReplaceAll(r.Text(x.Cond), " ", "")
			if strings.Contains(cond, "errors.Is(e,http.ErrAbortHandler)") && len(x.Body.List) == 1 {
				if es, ok := x.Body.List[0].(*ast.ExprStmt); ok {
					if ce, ok := isCall(es.X, "", "panic"); ok && len(ce.Args) == 1 && r.Text(ce.Args[0]) == "e" {
						abortRepanics = strings.HasSuffix(cond, "ok&&errors.Is(e,http.ErrAbortHandler)")
					}
				}
			}
			if len(x.Body.List) == 1 {
				if es, ok := x.Body.List[0].(*ast.ExprStmt); ok {
					if _, ok := isCall(es.X, "", "handle"); ok {
						handleGuard = cond
					}
				}
			}
		}
		return true
	})
	// how a header name is compared with the redaction list: every use of blacklistedHeader in recovery.go (in
	// recovery() itself or in a helper it was moved to) must compare the same way
	modes := map[int]bool{}
	if rf := r.File("recovery.go"); rf != nil {
		ast.Inspect(rf, func(n ast.Node) bool {
			x, ok := n.(*ast.CallExpr)
			if !ok {
				return true
			}
			if ce, ok := isCall(x, "slices", "ContainsFunc"); ok && len(ce.Args) == 2 && r.Text(ce.Args[0]) == "blacklistedHeader" {
				m := 0
				if fl, ok := ce.Args[1].(*ast.FuncLit); ok && len(fl.Body.List) == 1 {
					if rs, ok := fl.Body.List[0].(*ast.ReturnStmt); ok && len(rs.Results) == 1 {
						if _, ok := isCall(rs.Results[0], "strings", "EqualFold"); ok {
							m = 1
						} else if be, ok := rs.Results[0].(*ast.BinaryExpr); ok && be.Op == token.EQL {
							m = 2
						}
					}
				}
				modes[m] = true
			}
			if ce, ok := isCall(x, "slices", "Contains"); ok && len(ce.Args) == 2 && r.Text(ce.Args[0]) == "blacklistedHeader" {
				modes[2] = true
			}
			return true
		})
	}
	if len(modes) == 1 {
		for m := range modes {
			mode = m
		}
		modeText = map[int]string{0: "unknown", 1: "foldCase", 2: "exact"}[mode]
	}
	// any other call of the RecoveryFunc outside that guard would defeat it
	handleCalls := 0
	ast.Inspect(fd.Body, func(n ast.Node) bool {
		if ce, ok := n.(*ast.CallExpr); ok {
			if _, ok := isCall(ce, "", "handle"); ok {
				handleCalls++
			}
		}
		return true
	})

	// connIsBroken
	cb := r.FuncDecl("recovery.go", "", "connIsBroken")
	if cb == nil {
		return "", fmt.Errorf("func connIsBroken not found")
	}
	var subs []string
	lowered, typeAssert, asSyscall := false, false, false
	ast.Inspect(cb.Body, func(n ast.Node) bool {
		switch x := n.(type) {
		case *ast.CallExpr:
			if ce, ok := isCall(x, "strings", "Contains"); ok && len(ce.Args) == 2 {
				if bl, ok := ce.Args[1].(*ast.BasicLit); ok {
					s, _ := strconv.Unquote(bl.Value)
					subs = append(subs, s)
				}
			}
			if _, ok := isCall(x, "strings", "ToLower"); ok {
				lowered = true
			}
			if _, ok := isCall(x, "errors", "As"); ok {
				asSyscall = strings.Contains(r.Text(cb.Body), "*os.SyscallError")
			}
		case *ast.TypeAssertExpr:
			if strings.ReplaceAll(r.Text(x.Type), " ", "") == "*net.OpError" {
				typeAssert = true
			}
		}
		return true
	})

	var sb strings.Builder
	sb.WriteString("namespace Fox.Generated\n\n")
	fmt.Fprintf(&sb, "def blacklistedHeader : List String := %s\n", leanStrList(black))
	fmt.Fprintf(&sb, "def blacklistedHeaderBytes : List (List Nat) := %s\n", leanBytesList(black))
	fmt.Fprintf(&sb, "/-- 1 = strings.EqualFold (foldCase), 2 = exact, 0 = unknown -/\ndef redactCompareMode : Nat := %d\n", mode)
	fmt.Fprintf(&sb, "def redactCompareModeText : String := %s\n", leanStr(modeText))
	fmt.Fprintf(&sb, "def abortRepanics : Bool := %s\n", leanBool(abortRepanics))
	fmt.Fprintf(&sb, "def handleGuard : String := %s\n", leanStr(handleGuard))
	fmt.Fprintf(&sb, "def handleGuardOk : Bool := %s\n", leanBool(handleGuard == "!c.Writer().Written()&&!connIsBroken(err)" && handleCalls == 1))
	fmt.Fprintf(&sb, "def brokenConnSubstrings : List String := %s\n", leanStrList(subs))
	fmt.Fprintf(&sb, "def brokenConnSubstringsBytes : List (List Nat) := %s\n", leanBytesList(subs))
	fmt.Fprintf(&sb, "def brokenConnLowered : Bool := %s\n", leanBool(lowered))
	fmt.Fprintf(&sb, "def brokenConnTypeAssertOpError : Bool := %s\n", leanBool(typeAssert))
	fmt.Fprintf(&sb, "def brokenConnAsSyscallError : Bool := %s\n", leanBool(asSyscall))

	for _, name := range []string{"Updates", "View"} {
		f := r.FuncDecl("fox.go", "Router", name)
		if f == nil {
			return "", fmt.Errorf("Router.%s not found", name)
		}
		m := managedTxnShape(r, f)
		p := strings.ToLower(name)
		fmt.Fprintf(&sb, "def %s_deferBeforeFn : Bool := %s\n", p, leanBool(m.deferFirst))
		fmt.Fprintf(&sb, "def %s_recovers : Bool := %s\n", p, leanBool(m.recovers))
		fmt.Fprintf(&sb, "def %s_abortOnPanicPath : Bool := %s\n", p, leanBool(m.abortOnPanic))
		fmt.Fprintf(&sb, "def %s_repanics : Bool := %s\n", p, leanBool(m.repanics))
		fmt.Fprintf(&sb, "def %s_abortOnNormalPath : Bool := %s\n", p, leanBool(m.abortOnNormal))
	}

	// single-operation helpers: txn := fox.txnWith(true, false); defer txn.Abort(); … txn.<Op>(…)
	ops := []string{"Handle", "HandleRoute", "Update", "UpdateRoute", "Delete"}
	var okList []bool
	for _, name := range ops {
		f := r.FuncDecl("fox.go", "Router", name)
		if f == nil {
			return "", fmt.Errorf("Router.%s not found", name)
		}
		deferIdx, opIdx := -1, -1
		for i, st := range f.Body.List {
			if ds, ok := st.(*ast.DeferStmt); ok && deferIdx < 0 {
				if _, ok := isCall(ds.Call, "txn", "Abort"); ok {
					deferIdx = i
				}
			}
			if opIdx < 0 && strings.Contains(r.Text(st), "txn."+name+"(") {
				opIdx = i
			}
		}
		okList = append(okList, deferIdx >= 0 && opIdx >= 0 && deferIdx < opIdx)
	}
	// MustHandle: either it arms `defer txn.Abort()` before the operation like the others, or it opens no transaction
	// of its own and delegates to one of the helpers above that does
	{
		f := r.FuncDecl("fox.go", "Router", "MustHandle")
		if f == nil {
			return "", fmt.Errorf("Router.MustHandle not found")
		}
		deferIdx, opIdx, opens, delegates := -1, -1, false, false
		for i, st := range f.Body.List {
			if ds, ok := st.(*ast.DeferStmt); ok && deferIdx < 0 {
				if _, ok := isCall(ds.Call, "txn", "Abort"); ok {
					deferIdx = i
				}
			}
			if opIdx < 0 && strings.Contains(r.Text(st), "txn.Handle") {
				opIdx = i
			}
		}
		ctorName := "txnWith"
		if ct := r.txnCtor(); ct != nil {
			ctorName = ct.name
		}
		ast.Inspect(f.Body, func(n ast.Node) bool {
			if ce, ok := n.(*ast.CallExpr); ok {
				if id, ok := ce.Fun.(*ast.Ident); ok && id.Name == ctorName {
					opens = true
				}
				if se, ok := ce.Fun.(*ast.SelectorExpr); ok {
					switch se.Sel.Name {
					case "Txn", "txnWith", "txn", ctorName:
						opens = true
					}
					for k, name := range ops {
						if se.Sel.Name == name && okList[k] {
							if id, ok := se.X.(*ast.Ident); ok && f.Recv != nil && len(f.Recv.List) == 1 && len(f.Recv.List[0].Names) == 1 && id.Name == f.Recv.List[0].Names[0].Name {
								delegates = true
							}
						}
					}
				}
			}
			return true
		})
		ops = append(ops, "MustHandle")
		okList = append(okList, (deferIdx >= 0 && opIdx >= 0 && deferIdx < opIdx) || (!opens && delegates))
	}
	fmt.Fprintf(&sb, "def singleOpNames : List String := %s\n", leanStrList(ops))
	fmt.Fprintf(&sb, "def singleOpDeferAbortFirst : List Bool := %s\n", leanBoolList(okList))
	fmt.Fprintf(&sb, "def recoverySha : String := %s\n", leanStr(r.Sha("recovery.go", "http_consts.go")))
	sb.WriteString("\nend Fox.Generated\n")
	return sb.String(), nil
}
