package main

import (
	"fmt"
	"go/ast"
	"go/token"
	"sort"
	"strings"
)

// SyncOrder.lean: per function the source-order list of synchronisation events (lock, unlock, load, store, deferred
// abort, recover, re-panic, settled / read-only guards, calls that begin / commit / abort a transaction or run the
// managed function), each with the text of the enclosing conditions. Found by walking the AST; nothing is assumed
// about the shape of the functions except their names. Properties C04 C05 C06 (and C15) consume it.

func init() { registerFact("SyncOrder.lean", genSyncOrder) }

type syncItem struct {
	ev    string
	ctx   string // always | deferred | deferredRecovered | onErr
	guard string // enclosing conditions, " && "-joined (text)
	note  string // what a guard does / argument text of a call
}

type syncWalker struct {
	r     *Repo
	items []syncItem
}

// selector chain as dotted text, e.g. txn.fox.mu.Lock
func dotted(e ast.Expr) string {
	switch x := e.(type) {
	case *ast.Ident:
		return x.Name
	case *ast.SelectorExpr:
		return dotted(x.X) + "." + x.Sel.Name
	case *ast.CallExpr:
		return dotted(x.Fun) + "()"
	case *ast.ParenExpr:
		return dotted(x.X)
	}
	return "?"
}

func condKind(text string) string {
	t := strings.ReplaceAll(text, " ", "")
	switch {
	case strings.HasSuffix(t, "rootTxn==nil"):
		return "guardSettled"
	case strings.HasPrefix(t, "!") && strings.HasSuffix(t, ".write"):
		return "guardReadOnly"
	}
	return ""
}

// guardKinds: the guard kinds of the disjuncts of a condition (in order) when every disjunct is a known guard; nil otherwise
func guardKinds(r *Repo, e ast.Expr) []string {
	var ds []ast.Expr
	var flat func(e ast.Expr)
	flat = func(e ast.Expr) {
		if p, ok := e.(*ast.ParenExpr); ok {
			flat(p.X)
			return
		}
		if b, ok := e.(*ast.BinaryExpr); ok && b.Op == token.LOR {
			flat(b.X)
			flat(b.Y)
			return
		}
		ds = append(ds, e)
	}
	flat(e)
	var ks []string
	for _, d := range ds {
		k := condKind(strings.Join(strings.Fields(r.Text(d)), " "))
		if k == "" {
			return nil
		}
		ks = append(ks, k)
	}
	return ks
}

// terminal action of a guard body: return… / panic(…) / other
func bodyAction(r *Repo, b *ast.BlockStmt) string {
	if b == nil || len(b.List) == 0 {
		return "empty"
	}
	last := b.List[len(b.List)-1]
	switch s := last.(type) {
	case *ast.ReturnStmt:
		return strings.Join(strings.Fields(r.Text(s)), " ")
	case *ast.ExprStmt:
		if c, ok := s.X.(*ast.CallExpr); ok {
			if id, ok := c.Fun.(*ast.Ident); ok && id.Name == "panic" {
				return strings.Join(strings.Fields(r.Text(c)), "")
			}
		}
	}
	return "other"
}

func (w *syncWalker) add(ev, ctx string, guards []string, note string) {
	w.items = append(w.items, syncItem{ev, ctx, strings.Join(guards, " && "), note})
}

func (w *syncWalker) call(c *ast.CallExpr, ctx string, guards []string, deferred bool) {
	name := dotted(c.Fun)
	arg0 := ""
	if len(c.Args) > 0 {
		arg0 = strings.Join(strings.Fields(w.r.Text(c.Args[0])), " ")
	}
	// a call of the transaction constructor, whatever it is called and wherever its `write` flag stands, is reported as
	// fox.txnWith(<write>)
	if ct := w.r.txnCtor(); ct != nil && ct.name != "Txn" {
		isCtor := (ct.recv != "" && strings.HasSuffix(name, "."+ct.name)) || (ct.recv == "" && name == ct.name)
		if isCtor {
			name = "fox.txnWith"
			arg0 = ""
			if len(c.Args) > ct.writeIdx {
				arg0 = strings.Join(strings.Fields(w.r.Text(c.Args[ct.writeIdx])), " ")
			}
		}
	}
	switch {
	case strings.HasSuffix(name, ".mu.Lock"):
		w.add("lock", ctx, guards, name)
	case strings.HasSuffix(name, ".mu.Unlock"):
		w.add("unlock", ctx, guards, name)
	case strings.HasSuffix(name, ".mu.TryLock"), strings.HasSuffix(name, ".mu.RLock"), strings.HasSuffix(name, ".mu.RUnlock"):
		w.add("otherSync", ctx, guards, name)
	case strings.HasSuffix(name, ".tree.Load"), strings.HasSuffix(name, ".getRoot"):
		w.add("load", ctx, guards, name)
	case strings.HasSuffix(name, ".tree.Store"), strings.HasSuffix(name, ".tree.Swap"), strings.HasSuffix(name, ".tree.CompareAndSwap"):
		w.add("store", ctx, guards, name+"("+arg0+")")
	case name == "recover":
		w.add("recover", ctx, guards, "")
	case name == "panic":
		if ctx == "deferred" || ctx == "deferredRecovered" {
			w.add("repanic", ctx, guards, arg0)
		}
	case strings.HasSuffix(name, ".Abort"):
		if deferred || ctx == "deferred" || ctx == "deferredRecovered" {
			w.add("deferAbort", ctx, guards, name)
		} else {
			w.add("callAbort", ctx, guards, name)
		}
	case strings.HasSuffix(name, ".Commit"):
		w.add("callCommit", ctx, guards, name)
	case strings.HasSuffix(name, ".txnWith"), strings.HasSuffix(name, ".Txn"):
		switch arg0 {
		case "true":
			w.add("beginWrite", ctx, guards, name+"("+arg0+")")
		case "false":
			w.add("beginRead", ctx, guards, name+"("+arg0+")")
		default:
			w.add("beginDyn", ctx, guards, name+"("+arg0+")")
		}
	case name == "fn":
		w.add("callFn", ctx, guards, "")
	}
	for _, a := range c.Args {
		w.expr(a, ctx, guards)
	}
	if fl, ok := c.Fun.(*ast.FuncLit); ok {
		// immediately invoked function literal (only seen as `defer func(){…}()`)
		nctx := ctx
		if deferred {
			nctx = "deferred"
		}
		w.block(fl.Body, nctx, nil)
	} else {
		w.expr(c.Fun, ctx, guards)
	}
}

func (w *syncWalker) expr(e ast.Expr, ctx string, guards []string) {
	if e == nil {
		return
	}
	ast.Inspect(e, func(n ast.Node) bool {
		switch x := n.(type) {
		case *ast.CallExpr:
			w.call(x, ctx, guards, false)
			return false
		case *ast.FuncLit:
			return false // a function value that is not invoked here (user callback boundary)
		}
		return true
	})
}

func (w *syncWalker) exprTop(e ast.Expr, ctx string, guards []string) { w.expr(e, ctx, guards) }

func (w *syncWalker) stmt(s ast.Stmt, ctx string, guards []string) {
	switch x := s.(type) {
	case nil:
	case *ast.ExprStmt:
		w.exprTop(x.X, ctx, guards)
	case *ast.AssignStmt:
		for _, e := range x.Rhs {
			w.exprTop(e, ctx, guards)
		}
	case *ast.DeclStmt:
		if gd, ok := x.Decl.(*ast.GenDecl); ok {
			for _, sp := range gd.Specs {
				if vs, ok := sp.(*ast.ValueSpec); ok {
					for _, e := range vs.Values {
						w.exprTop(e, ctx, guards)
					}
				}
			}
		}
	case *ast.ReturnStmt:
		for _, e := range x.Results {
			w.exprTop(e, ctx, guards)
		}
	case *ast.DeferStmt:
		w.call(x.Call, ctx, guards, true)
	case *ast.GoStmt:
		w.add("otherSync", ctx, guards, "go statement")
		w.call(x.Call, ctx, guards, false)
	case *ast.BlockStmt:
		w.block(x, ctx, guards)
	case *ast.IfStmt:
		w.stmt(x.Init, ctx, guards)
		cond := strings.Join(strings.Fields(w.r.Text(x.Cond)), " ")
		w.exprTop(x.Cond, ctx, guards)
		nctx := ctx
		if ks := guardKinds(w.r, x.Cond); len(ks) > 0 {
			// `if a || b { return }` is the same guard sequence as `if a { return }; if b { return }`
			for _, k := range ks {
				w.add(k, ctx, guards, bodyAction(w.r, x.Body))
			}
		} else if strings.Contains(strings.ReplaceAll(cond, " ", ""), "err!=nil") {
			nctx = "onErr"
			if a := bodyAction(w.r, x.Body); strings.HasPrefix(a, "return") {
				w.add("errReturn", ctx, guards, a)
			}
		} else if ctx == "deferred" && strings.Contains(cond, "!= nil") && x.Init != nil && strings.Contains(w.r.Text(x.Init), "recover()") {
			nctx = "deferredRecovered"
		}
		w.block(x.Body, nctx, append(append([]string(nil), guards...), cond))
		if x.Else != nil {
			w.stmt(x.Else, ctx, append(append([]string(nil), guards...), "!("+cond+")"))
		}
	case *ast.ForStmt:
		w.stmt(x.Init, ctx, guards)
		w.block(x.Body, ctx, append(append([]string(nil), guards...), "for"))
	case *ast.RangeStmt:
		w.exprTop(x.X, ctx, guards)
		w.block(x.Body, ctx, append(append([]string(nil), guards...), "range"))
	case *ast.SwitchStmt:
		w.stmt(x.Init, ctx, guards)
		w.block(x.Body, ctx, append(append([]string(nil), guards...), "switch"))
	case *ast.TypeSwitchStmt:
		w.block(x.Body, ctx, append(append([]string(nil), guards...), "switch"))
	case *ast.CaseClause:
		for _, st := range x.Body {
			w.stmt(st, ctx, guards)
		}
	case *ast.SelectStmt:
		w.add("otherSync", ctx, guards, "select")
		w.block(x.Body, ctx, guards)
	case *ast.CommClause:
		for _, st := range x.Body {
			w.stmt(st, ctx, guards)
		}
	case *ast.SendStmt:
		w.add("otherSync", ctx, guards, "channel send")
	case *ast.LabeledStmt:
		w.stmt(x.Stmt, ctx, guards)
	case *ast.IncDecStmt, *ast.BranchStmt, *ast.EmptyStmt:
	}
}

func (w *syncWalker) block(b *ast.BlockStmt, ctx string, guards []string) {
	if b == nil {
		return
	}
	for _, s := range b.List {
		w.stmt(s, ctx, guards)
	}
}

func bytesOf(s string) string {
	bs := make([]string, len(s))
	for i := 0; i < len(s); i++ {
		bs[i] = fmt.Sprint(s[i])
	}
	return "[" + strings.Join(bs, ", ") + "]"
}

func (r *Repo) syncItems(fd *ast.FuncDecl) string {
	w := &syncWalker{r: r}
	w.block(fd.Body, "always", nil)
	parts := make([]string, len(w.items))
	for i, it := range w.items {
		parts[i] = fmt.Sprintf("⟨.%s, .%s, %s, %s, %s, %s⟩", it.ev, it.ctx, bytesOf(it.guard), bytesOf(it.note), leanStr(it.guard), leanStr(it.note))
	}
	return "[" + strings.Join(parts, ",\n   ") + "]"
}

func genSyncOrder(r *Repo) (string, error) {
	var sb strings.Builder
	sb.WriteString(`namespace Fox.Generated

/-- synchronisation-relevant events, in source order -/
inductive SyncEv where
  | lock | unlock | load | store | deferAbort | recover | repanic | guardSettled | guardReadOnly
  | beginWrite | beginRead | beginDyn | callCommit | callAbort | callFn | errReturn | otherSync
deriving DecidableEq, Repr

/-- where the event sits: plain body, inside a deferred function, inside its "recovered a panic" branch, inside an
    "err != nil" branch -/
inductive SyncCtx where
  | always | deferred | deferredRecovered | onErr
deriving DecidableEq, Repr

structure SyncItem where
  ev : SyncEv
  ctx : SyncCtx
  /-- text of the enclosing conditions as bytes (kernel-friendly) -/
  guard : List Nat
  /-- what the guard does (return…, panic(ErrSettledTxn)) / the call text, as bytes -/
  act : List Nat
  guardText : String
  note : String
deriving Repr

def SyncItem.key (i : SyncItem) : SyncEv × SyncCtx × List Nat := (i.ev, i.ctx, i.guard)

`)
	type fn struct{ lean, file, recv, name string }
	ctor := r.txnCtor()
	if ctor == nil {
		return "", fmt.Errorf("Router.Txn not found")
	}
	fns := []fn{
		{"sync_txnWith", "fox.go", ctor.recv, ctor.name},
		{"sync_RouterTxn", "fox.go", "Router", "Txn"},
		{"sync_getRoot", "fox.go", "Router", "getRoot"},
		{"sync_Commit", "txn.go", "Txn", "Commit"},
		{"sync_Abort", "txn.go", "Txn", "Abort"},
		{"sync_Updates", "fox.go", "Router", "Updates"},
		{"sync_View", "fox.go", "Router", "View"},
		{"sync_Handle", "fox.go", "Router", "Handle"},
		{"sync_HandleRoute", "fox.go", "Router", "HandleRoute"},
		{"sync_Update", "fox.go", "Router", "Update"},
		{"sync_UpdateRoute", "fox.go", "Router", "UpdateRoute"},
		{"sync_Delete", "fox.go", "Router", "Delete"},
	}
	for _, f := range fns {
		fd := r.FuncDecl(f.file, f.recv, f.name)
		if fd == nil || fd.Body == nil {
			return "", fmt.Errorf("function %s.%s not found in %s", f.recv, f.name, f.file)
		}
		fmt.Fprintf(&sb, "/-- %s.%s (%s) -/\ndef %s : List SyncItem :=\n  %s\n\n", f.recv, f.name, f.file, f.lean, r.syncItems(fd))
	}
	// every method of *Txn: its guard prologue and sync events
	file := r.File("txn.go")
	if file == nil {
		return "", fmt.Errorf("txn.go not found")
	}
	sb.WriteString("/-- every method of `Txn` (txn.go) with its events: (name as bytes, name, events) -/\ndef sync_txnMethods : List (List Nat × String × List SyncItem) :=\n  [")
	first := true
	// (in the order of their names: where in which file a method stands is no fact)
	var txnMethods []*ast.FuncDecl
	for _, d := range file.Decls {
		fd, ok := d.(*ast.FuncDecl)
		if !ok || fd.Recv == nil || fd.Body == nil || len(fd.Recv.List) != 1 || recvName(fd.Recv.List[0].Type) != "Txn" {
			continue
		}
		txnMethods = append(txnMethods, fd)
	}
	sort.Slice(txnMethods, func(i, j int) bool { return txnMethods[i].Name.Name < txnMethods[j].Name.Name })
	for _, fd := range txnMethods {
		if !first {
			sb.WriteString(",\n   ")
		}
		first = false
		fmt.Fprintf(&sb, "(%s, %s,\n    %s)", bytesOf(fd.Name.Name), leanStr(fd.Name.Name), strings.ReplaceAll(r.syncItems(fd), "\n   ", "\n     "))
	}
	sb.WriteString("]\n\n")
	// any other use of the writer mutex or of the tree pointer in the package (must be none)
	var others []string
	known := map[string]bool{}
	for _, f := range fns {
		if f.recv == "" {
			known[f.name] = true
		} else {
			known[f.recv+"."+f.name] = true
		}
	}
	for rel, f := range r.Files {
		if strings.Contains(rel, "/") {
			continue
		}
		for _, d := range f.Decls {
			fd, ok := d.(*ast.FuncDecl)
			if !ok || fd.Body == nil {
				continue
			}
			key := fd.Name.Name
			if fd.Recv != nil && len(fd.Recv.List) == 1 {
				key = recvName(fd.Recv.List[0].Type) + "." + key
			}
			if known[key] {
				continue
			}
			ast.Inspect(fd.Body, func(n ast.Node) bool {
				if c, ok := n.(*ast.CallExpr); ok {
					name := dotted(c.Fun)
					if strings.Contains(name, ".mu.") || strings.HasSuffix(name, ".tree.Store") || strings.HasSuffix(name, ".tree.Swap") ||
						strings.HasSuffix(name, ".tree.CompareAndSwap") {
						// fox.New stores the initial tree before the router is shared
						others = append(others, key+": "+name)
					}
				}
				return true
			})
		}
	}
	sortStrings(others)
	fmt.Fprintf(&sb, "/-- uses of the writer mutex / stores to the tree pointer outside the functions above -/\ndef sync_otherSites : List String := %s\ndef sync_otherSitesCount : Nat := %d\n\n", leanStrList(others), len(others))
	fmt.Fprintf(&sb, "def syncOrderExtractorVersion : Nat := 1\ndef syncOrderSha : String := %s\n\nend Fox.Generated\n", leanStr(r.Sha("fox.go", "txn.go")))
	return sb.String(), nil
}

func sortStrings(xs []string) {
	for i := 1; i < len(xs); i++ {
		for j := i; j > 0 && xs[j] < xs[j-1]; j-- {
			xs[j], xs[j-1] = xs[j-1], xs[j]
		}
	}
}
