package main

import (
	"fmt"
	"go/ast"
	"go/token"
	"sort"
	"strings"
)

// Writes.lean (property C03): every in-place write to a radix-tree node in tree.go / node.go / txn.go / iter.go / fox.go:
//   - calls of (*node).updateEdge, with the receiver expression and the enclosing function;
//   - assignments whose left-hand side is a field or an indexed field of a node (x.key = …, x.children[i] = …, …);
//   - calls of t.writable.Add(x) with the argument expression;
//   - functions that reset the writable cache (t.writable = nil).

func init() { registerFact("Writes.lean", genWrites) }

func genWrites(r *Repo) (string, error) {
	nodeFields := map[string]bool{"route": true, "inode": true, "key": true, "childKeys": true, "children": true,
		"params": true, "paramChildIndex": true, "wildcardChildIndex": true}
	var edges, assigns, adds, resets []string
	for _, file := range []string{"tree.go", "node.go", "txn.go", "iter.go", "fox.go"} {
		f := r.Files[file]
		if f == nil {
			return "", fmt.Errorf("missing file %s", file)
		}
		for _, d := range f.Decls {
			fd, ok := d.(*ast.FuncDecl)
			if !ok || fd.Body == nil {
				continue
			}
			fn := fd.Name.Name
			if fd.Recv != nil && len(fd.Recv.List) == 1 {
				fn = recvName(fd.Recv.List[0].Type) + "." + fn
			}
			if file == "fox.go" && fn != "Router.newTree" || file == "txn.go" && false {
				// fox.go: only newTree builds nodes; the request context has fields with the same names
				continue
			}
			if strings.HasPrefix(fn, "Txn.") && (fn == "Txn.Lookup") {
				continue
			}
			ast.Inspect(fd.Body, func(n ast.Node) bool {
				switch x := n.(type) {
				case *ast.CallExpr:
					if se, ok := x.Fun.(*ast.SelectorExpr); ok {
						if se.Sel.Name == "updateEdge" {
							edges = append(edges, fn+"|"+r.Text(se.X))
						}
						if se.Sel.Name == "Add" && strings.HasSuffix(r.Text(se.X), ".writable") && len(x.Args) > 0 {
							adds = append(adds, fn+"|"+r.Text(x.Args[0]))
						}
					}
				case *ast.AssignStmt:
					if x.Tok != token.ASSIGN && x.Tok != token.DEFINE {
						return true
					}
					for _, lhs := range x.Lhs {
						target := lhs
						if ie, ok := target.(*ast.IndexExpr); ok {
							target = ie.X
						}
						if se, ok := target.(*ast.SelectorExpr); ok && nodeFields[se.Sel.Name] {
							// only node-typed receivers: the tXn / iTree / Iter / cTx structs have other field names, except
							// Route.route-like names which do not occur; keep everything and let the theorem enumerate
							assigns = append(assigns, fn+"|"+r.Text(lhs))
						}
						if se, ok := lhs.(*ast.SelectorExpr); ok && se.Sel.Name == "writable" && len(x.Rhs) == 1 && r.Text(x.Rhs[0]) == "nil" {
							resets = append(resets, fn)
						}
					}
				}
				return true
			})
		}
	}
	for _, l := range []*[]string{&edges, &assigns, &adds, &resets} {
		sort.Strings(*l)
	}
	var sb strings.Builder
	sb.WriteString("namespace Fox.Generated\n\n")
	sb.WriteString("/-- `function|receiver` of every call of updateEdge (the only in-place write of a child slot) -/\n")
	fmt.Fprintf(&sb, "def updateEdgeCalls : List String := %s\n", leanStrList(edges))
	sb.WriteString("/-- `function|lhs` of every assignment to a node field -/\n")
	fmt.Fprintf(&sb, "def nodeFieldAssigns : List String := %s\n", leanStrList(assigns))
	sb.WriteString("/-- `function|argument` of every writable.Add -/\n")
	fmt.Fprintf(&sb, "def writableAdds : List String := %s\n", leanStrList(adds))
	sb.WriteString("/-- functions that reset the writable cache -/\n")
	fmt.Fprintf(&sb, "def writableResets : List String := %s\n", leanStrList(resets))
	fmt.Fprintf(&sb, "def writesSha : String := %s\n", leanStr(r.Sha("tree.go", "node.go", "txn.go")))
	sb.WriteString("\nend Fox.Generated\n")
	return sb.String(), nil
}
