package main

import (
	"fmt"
	"go/ast"
	"go/token"
	"sort"
	"strings"
)

// Writes.lean (property C03): every in-place write to a radix-tree node in tree.go / node.go / txn.go / iter.go / fox.go:
//   - calls of (*node).updateEdge, with the receiver expression and the enclosing function;
//   - assignments whose left-hand side is a field or an indexed field of a node (x.key = …, x.children[i] = …, …);
//   - calls of t.writable.Add(x) with the argument expression;
//   - functions that reset the writable cache (t.writable = nil).

func init() { registerFact("Writes.lean", genWrites) }

func genWrites(r *Repo) (string, error) {
	nodeFields := map[string]bool{"route": true, "inode": true, "key": true, "childKeys": true, "children": true,
		"params": true, "paramChildIndex": true, "wildcardChildIndex": true}
	// the whole root package (declarations are found wherever in the package they live)
	files := []string{"fox.go"}
	oc := &originCtx{r: r}
	for _, file := range files {
		f := r.File(file)
		if f == nil {
			return "", fmt.Errorf("missing file %s", file)
		}
		for _, d := range f.Decls {
			if fd, ok := d.(*ast.FuncDecl); ok && fd.Body != nil {
				oc.funcs = append(oc.funcs, fd)
			}
		}
	}
	var edges, edgeArgs, assigns, adds, resets []string
	for _, file := range files {
		f := r.File(file)
		for _, d := range f.Decls {
			fd, ok := d.(*ast.FuncDecl)
			if !ok || fd.Body == nil {
				continue
			}
			fn := fd.Name.Name
			if fd.Recv != nil && len(fd.Recv.List) == 1 {
				fn = recvName(fd.Recv.List[0].Type) + "." + fn
			}
			// only the code that handles tree nodes: the methods of the tree types, Router.newTree, and plain functions that
			// mention *node (the request context has fields with the same names as a node: its methods are not scanned)
			recv := ""
			if fd.Recv != nil && len(fd.Recv.List) == 1 {
				recv = recvName(fd.Recv.List[0].Type)
			}
			switch recv {
			case "tXn", "node", "roots", "iTree", "Txn", "Iter", "rawIterator", "skippedNodes", "searchResult":
			case "Router":
				if fn != "Router.newTree" {
					continue
				}
			case "":
				if !strings.Contains(r.Text(fd), "*node") {
					continue
				}
			default:
				continue
			}
			if fn == "Txn.Lookup" {
				continue
			}
			// the copy-on-write search is modelled statement by statement (Model/Heap `cow`): its sites stay textual.
			// Everywhere else a site is recorded by the ORIGIN of the node written to (built by newNode / newNodeFromRef /
			// new(node) in this transaction, a clone, a node of the cloned search path result.p / .pp / .ppp, …), followed
			// through local variables and through the parameters of helper functions to their call sites - not by the
			// names of functions and variables.
			textual := fn == "tXn.copyOnWriteSearch"
			class := func(e ast.Expr) string {
				if textual {
					return "cow|" + r.Text(e)
				}
				return oc.classOf(fd, e, 0)
			}
			var walk func(list []ast.Stmt)
			visitExpr := func(n ast.Node) {
				ast.Inspect(n, func(n ast.Node) bool {
					if _, ok := n.(*ast.FuncLit); ok {
						return true
					}
					if x, ok := n.(*ast.CallExpr); ok {
						if se, ok := x.Fun.(*ast.SelectorExpr); ok {
							if se.Sel.Name == "updateEdge" {
								edges = append(edges, class(se.X))
								if len(x.Args) == 1 {
									edgeArgs = append(edgeArgs, class(x.Args[0]))
								}
							}
							if se.Sel.Name == "Add" && strings.HasSuffix(r.Text(se.X), ".writable") && len(x.Args) > 0 {
								// what is added to the cache is recorded by origin also inside the copy-on-write search (there: the
								// clone made by it), and a helper's parameter contributes the origins of its call sites one by one:
								// where the Add sits (inline, or in a helper every site calls) is no fact
								adds = append(adds, strings.Split(oc.classOf(fd, x.Args[0], 0), "+")...)
							}
						}
					}
					return true
				})
			}
			// statements are walked block by block so that `x[i] = new(node)` directly before `x[i].f = …` is seen
			walk = func(list []ast.Stmt) {
				fresh := map[string]bool{} // text of slots assigned a new node earlier in this block
				for _, st := range list {
					switch x := st.(type) {
					case *ast.AssignStmt:
						visitExpr(x)
						if x.Tok == token.ASSIGN || x.Tok == token.DEFINE {
							for i, lhs := range x.Lhs {
								if se, ok := lhs.(*ast.SelectorExpr); ok && se.Sel.Name == "writable" && len(x.Rhs) == 1 && r.Text(x.Rhs[0]) == "nil" {
									resets = append(resets, fn)
								}
								if _, ok := lhs.(*ast.IndexExpr); ok && i < len(x.Rhs) && oc.isBuild(x.Rhs[i]) {
									fresh[r.Text(lhs)] = true
								}
								target := lhs
								idx := ""
								if ie, ok := target.(*ast.IndexExpr); ok {
									target = ie.X
									idx = "[]"
								}
								se, ok := target.(*ast.SelectorExpr)
								if !ok || !nodeFields[se.Sel.Name] {
									continue
								}
								base := ""
								switch {
								case fresh[r.Text(se.X)]:
									base = "built" // a slot that was assigned a new node just before, in the same block
								case fn == "node.updateEdge" && fd.Recv != nil && len(fd.Recv.List[0].Names) == 1 && r.Text(se.X) == fd.Recv.List[0].Names[0].Name:
									base = "updateEdge-receiver"
								default:
									base = class(se.X)
								}
								assigns = append(assigns, base+"."+se.Sel.Name+idx)
							}
						}
					case *ast.BlockStmt:
						walk(x.List)
					case *ast.IfStmt:
						if x.Init != nil {
							walk([]ast.Stmt{x.Init})
						}
						visitExpr(x.Cond)
						walk(x.Body.List)
						if x.Else != nil {
							walk([]ast.Stmt{x.Else})
						}
					case *ast.ForStmt:
						if x.Init != nil {
							walk([]ast.Stmt{x.Init})
						}
						if x.Cond != nil {
							visitExpr(x.Cond)
						}
						if x.Post != nil {
							walk([]ast.Stmt{x.Post})
						}
						walk(x.Body.List)
					case *ast.RangeStmt:
						visitExpr(x.X)
						walk(x.Body.List)
					case *ast.SwitchStmt:
						if x.Init != nil {
							walk([]ast.Stmt{x.Init})
						}
						if x.Tag != nil {
							visitExpr(x.Tag)
						}
						for _, c := range x.Body.List {
							if cc, ok := c.(*ast.CaseClause); ok {
								for _, e := range cc.List {
									visitExpr(e)
								}
								walk(cc.Body)
							}
						}
					case *ast.LabeledStmt:
						walk([]ast.Stmt{x.Stmt})
					default:
						visitExpr(st)
					}
				}
			}
			walk(fd.Body.List)
		}
	}
	// ---- slices of nodes mutated in place (index assignment, shifting append, clear, copy into, sort): the slice must have
	// been made by the same transaction step (make / literal / a copy), never be (a re-slice of) a slice reachable from the
	// published tree. Followed through locals, append chains, helper parameters and helper results.
	var slmut []string
	for _, file := range []string{"tree.go", "node.go", "txn.go", "iter.go"} {
		for _, d := range r.Files[file].Decls {
			fd, ok := d.(*ast.FuncDecl)
			if !ok || fd.Body == nil {
				continue
			}
			fname := fd.Name.Name
			if fd.Recv != nil && len(fd.Recv.List) == 1 {
				fname = recvName(fd.Recv.List[0].Type) + "." + fname
			}
			if fname == "node.updateEdge" {
				continue // the one in-place write of a child slot, accounted for above (receiver = a private clone)
			}
			record := func(e ast.Expr) {
				for {
					if se, ok := e.(*ast.SliceExpr); ok {
						e = se.X
						continue
					}
					break
				}
				if _, ok := e.(*ast.Ident); !ok {
					if _, ok := e.(*ast.SelectorExpr); !ok {
						return
					}
				}
				if !oc.isNodeSlice(fd, e) {
					return
				}
				slmut = append(slmut, oc.sliceClass(fd, e, 0))
			}
			ast.Inspect(fd.Body, func(n ast.Node) bool {
				switch x := n.(type) {
				case *ast.AssignStmt:
					for _, l := range x.Lhs {
						if ie, ok := l.(*ast.IndexExpr); ok {
							record(ie.X)
						}
					}
				case *ast.CallExpr:
					fn := r.Text(x.Fun)
					switch {
					case fn == "append" && len(x.Args) > 0:
						if se, ok := x.Args[0].(*ast.SliceExpr); ok {
							record(se)
						}
					case (fn == "clear" || fn == "copy") && len(x.Args) > 0:
						record(x.Args[0])
					case strings.HasPrefix(fn, "slices.Sort") || fn == "sort.Slice" || fn == "sort.SliceStable" || fn == "slices.Reverse":
						if len(x.Args) > 0 {
							record(x.Args[0])
						}
					}
				}
				return true
			})
		}
	}
	for _, l := range []*[]string{&edges, &edgeArgs, &assigns, &adds, &resets, &slmut} {
		sort.Strings(*l)
		*l = dedupSorted(*l)
	}
	var sb strings.Builder
	sb.WriteString("namespace Fox.Generated\n\n")
	sb.WriteString("/-- origin of the receiver of every call of updateEdge (the only in-place write of a child slot) -/\n")
	fmt.Fprintf(&sb, "def updateEdgeReceivers : List String := %s\n", leanStrList(edges))
	sb.WriteString("/-- origin of the node linked in by every call of updateEdge -/\n")
	fmt.Fprintf(&sb, "def updateEdgeArgs : List String := %s\n", leanStrList(edgeArgs))
	sb.WriteString("/-- `origin.field` of every assignment to a node field -/\n")
	fmt.Fprintf(&sb, "def nodeFieldAssigns : List String := %s\n", leanStrList(assigns))
	// by meaning: which fields of a node built in the same step are initialised by assignment is no fact; what matters is
	// that every other assignment goes to a child slot of an updateEdge receiver
	var notBuilt []string
	for _, a := range assigns {
		if !strings.HasPrefix(a, "built.") {
			notBuilt = append(notBuilt, a)
		}
	}
	sb.WriteString("/-- the assignments to a node field whose target was not built in the same step -/\n")
	fmt.Fprintf(&sb, "def nodeFieldAssignsNotBuilt : List String := %s\n", leanStrList(notBuilt))
	sb.WriteString("/-- origin of the argument of every writable.Add -/\n")
	fmt.Fprintf(&sb, "def writableAdds : List String := %s\n", leanStrList(adds))
	sb.WriteString("/-- origin of every slice of nodes that is mutated in place (index assignment, shifting append, clear, copy into, sort) -/\n")
	fmt.Fprintf(&sb, "def sliceMutations : List String := %s\n", leanStrList(slmut))
	sb.WriteString("/-- functions that reset the writable cache -/\n")
	fmt.Fprintf(&sb, "def writableResets : List String := %s\n", leanStrList(resets))
	fmt.Fprintf(&sb, "def writesSha : String := %s\n", leanStr(r.Sha("tree.go", "node.go", "txn.go")))
	sb.WriteString("\nend Fox.Generated\n")
	return sb.String(), nil
}

func dedupSorted(l []string) []string {
	var out []string
	for i, x := range l {
		if i == 0 || x != l[i-1] {
			out = append(out, x)
		}
	}
	return out
}

// originCtx classifies where a node expression comes from.
type originCtx struct {
	r     *Repo
	funcs []*ast.FuncDecl
}

// isBuild: an expression that creates a node
func (oc *originCtx) isBuild(e ast.Expr) bool {
	switch x := e.(type) {
	case *ast.ParenExpr:
		return oc.isBuild(x.X)
	case *ast.CallExpr:
		fn := oc.r.Text(x.Fun)
		if fn == "newNode" || fn == "newNodeFromRef" {
			return true
		}
		if fn == "new" && len(x.Args) == 1 && oc.r.Text(x.Args[0]) == "node" {
			return true
		}
	case *ast.UnaryExpr:
		if cl, ok := x.X.(*ast.CompositeLit); ok && x.Op.String() == "&" && oc.r.Text(cl.Type) == "node" {
			return true
		}
	}
	return false
}

func (oc *originCtx) classOf(fd *ast.FuncDecl, e ast.Expr, depth int) string {
	r := oc.r
	if depth > 4 {
		return "unknown:depth"
	}
	if oc.isBuild(e) {
		return "built"
	}
	switch x := e.(type) {
	case *ast.ParenExpr:
		return oc.classOf(fd, x.X, depth)
	case *ast.CallExpr:
		if se, ok := x.Fun.(*ast.SelectorExpr); ok && se.Sel.Name == "clone" && len(x.Args) == 0 {
			return "clone"
		}
		// a helper of the package with a single result: the join of what its return statements return (a helper that
		// wraps newNode / newNodeFromRef builds a node just as the call it wraps does)
		if callee := oc.calleeOf(x); callee != nil && callee.Body != nil && callee.Type.Results != nil && callee.Type.Results.NumFields() == 1 {
			set := map[string]bool{}
			ast.Inspect(callee.Body, func(n ast.Node) bool {
				if _, ok := n.(*ast.FuncLit); ok {
					return false
				}
				if rs, ok := n.(*ast.ReturnStmt); ok && len(rs.Results) == 1 {
					set[oc.classOf(callee, rs.Results[0], depth+1)] = true
				}
				return true
			})
			if len(set) > 0 {
				var l []string
				for k := range set {
					l = append(l, k)
				}
				sort.Strings(l)
				return strings.Join(l, "+")
			}
		}
		return "unknown:call " + r.Text(x.Fun)
	case *ast.SelectorExpr:
		// a field of the result of the copy-on-write search
		if id, ok := x.X.(*ast.Ident); ok {
			for _, rhs := range oc.defsOf(fd, id.Name) {
				if c, ok := rhs.(*ast.CallExpr); ok {
					if se, ok := c.Fun.(*ast.SelectorExpr); ok && se.Sel.Name == "copyOnWriteSearch" {
						return "searched." + x.Sel.Name
					}
				}
			}
		}
		return "unknown:" + r.Text(x)
	case *ast.Ident:
		// a parameter: joined over the call sites
		if fd.Type.Params != nil {
			pos := 0
			for _, f := range fd.Type.Params.List {
				for _, nm := range f.Names {
					if nm.Name == x.Name {
						return oc.paramClass(fd, pos, depth)
					}
					pos++
				}
			}
		}
		defs := oc.defsOf(fd, x.Name)
		if len(defs) == 0 {
			return "unknown:" + x.Name
		}
		set := map[string]bool{}
		for _, d := range defs {
			set[oc.classOf(fd, d, depth+1)] = true
		}
		var l []string
		for k := range set {
			l = append(l, k)
		}
		sort.Strings(l)
		return strings.Join(l, "+")
	}
	return "unknown:" + r.Text(e)
}

// calleeOf: the declaration of the package function (or method, by its name when that name is unique) a call goes to
func (oc *originCtx) calleeOf(c *ast.CallExpr) *ast.FuncDecl {
	name, method := "", false
	switch f := c.Fun.(type) {
	case *ast.Ident:
		name = f.Name
	case *ast.SelectorExpr:
		name, method = f.Sel.Name, true
	default:
		return nil
	}
	var found *ast.FuncDecl
	for _, fd := range oc.funcs {
		if fd.Name.Name != name || (fd.Recv != nil) != method {
			continue
		}
		if found != nil {
			return nil // ambiguous
		}
		found = fd
	}
	return found
}

// defsOf: the right-hand sides assigned to the local variable `name` anywhere in fd
func (oc *originCtx) defsOf(fd *ast.FuncDecl, name string) []ast.Expr {
	var out []ast.Expr
	ast.Inspect(fd.Body, func(n ast.Node) bool {
		switch x := n.(type) {
		case *ast.AssignStmt:
			if len(x.Lhs) == len(x.Rhs) {
				for i, l := range x.Lhs {
					if id, ok := l.(*ast.Ident); ok && id.Name == name {
						out = append(out, x.Rhs[i])
					}
				}
			}
		case *ast.ValueSpec:
			for i, nm := range x.Names {
				if nm.Name == name && i < len(x.Values) {
					out = append(out, x.Values[i])
				}
			}
		}
		return true
	})
	return out
}

func (oc *originCtx) paramClass(fd *ast.FuncDecl, pos, depth int) string {
	set := map[string]bool{}
	for _, caller := range oc.funcs {
		ast.Inspect(caller.Body, func(n ast.Node) bool {
			c, ok := n.(*ast.CallExpr)
			if !ok || pos >= len(c.Args) {
				return true
			}
			name := ""
			switch f := c.Fun.(type) {
			case *ast.Ident:
				if fd.Recv == nil {
					name = f.Name
				}
			case *ast.SelectorExpr:
				if fd.Recv != nil {
					name = f.Sel.Name
				}
			}
			if name == fd.Name.Name {
				set[oc.classOf(caller, c.Args[pos], depth+1)] = true
			}
			return true
		})
	}
	if len(set) == 0 {
		return "unknown:uncalled parameter"
	}
	var l []string
	for k := range set {
		l = append(l, k)
	}
	sort.Strings(l)
	return strings.Join(l, "+")
}

// isNodeSlice: the expression is a slice of nodes (by the declared type of a local / parameter, or by the field name)
func (oc *originCtx) isNodeSlice(fd *ast.FuncDecl, e ast.Expr) bool {
	switch x := e.(type) {
	case *ast.SelectorExpr:
		return x.Sel.Name == "children" || x.Sel.Name == "root"
	case *ast.Ident:
		// parameter with a declared type
		if fd.Type.Params != nil {
			for _, f := range fd.Type.Params.List {
				for _, nm := range f.Names {
					if nm.Name == x.Name {
						t := oc.r.Text(f.Type)
						return t == "[]*node" || t == "roots"
					}
				}
			}
		}
		for _, d := range oc.defsOf(fd, x.Name) {
			t := strings.Join(strings.Fields(oc.r.Text(d)), "")
			if strings.HasPrefix(t, "make([]*node") || strings.HasPrefix(t, "make(roots") || strings.HasPrefix(t, "[]*node{") ||
				strings.Contains(t, ".children") || strings.Contains(t, ".root") || strings.Contains(t, "getEdges()") ||
				strings.Contains(t, "recreateParentEdge(") {
				return true
			}
			if c, ok := d.(*ast.CallExpr); ok && oc.r.Text(c.Fun) == "append" && len(c.Args) > 0 {
				if oc.isNodeSlice(fd, stripSlice(c.Args[0])) && !isIdentNamed(stripSlice(c.Args[0]), x.Name) {
					return true
				}
			}
		}
	}
	return false
}

func stripSlice(e ast.Expr) ast.Expr {
	for {
		if se, ok := e.(*ast.SliceExpr); ok {
			e = se.X
			continue
		}
		if pe, ok := e.(*ast.ParenExpr); ok {
			e = pe.X
			continue
		}
		return e
	}
}

func isIdentNamed(e ast.Expr, name string) bool {
	id, ok := e.(*ast.Ident)
	return ok && id.Name == name
}

// sliceClass: where the backing array of a slice expression comes from: "made" (make, literal, a copying helper), or
// "shared:<expr>" when it is (a re-slice of, or an append onto) a slice reachable from a node or from the roots.
func (oc *originCtx) sliceClass(fd *ast.FuncDecl, e ast.Expr, depth int) string {
	r := oc.r
	if depth > 5 {
		return "unknown:depth"
	}
	e = stripSlice(e)
	switch x := e.(type) {
	case *ast.CompositeLit:
		return "made"
	case *ast.SelectorExpr:
		return "shared:" + r.Text(x)
	case *ast.CallExpr:
		fn := r.Text(x.Fun)
		switch {
		case fn == "make":
			return "made"
		case fn == "append" && len(x.Args) > 0:
			return oc.sliceClass(fd, x.Args[0], depth+1)
		case fn == "slices.Clone":
			return "made"
		}
		// a helper: the class of what it returns
		name := fn
		if i := strings.LastIndexByte(fn, '.'); i >= 0 {
			name = fn[i+1:]
		}
		for _, callee := range oc.funcs {
			if callee.Name.Name != name {
				continue
			}
			set := map[string]bool{}
			ast.Inspect(callee.Body, func(n ast.Node) bool {
				if _, ok := n.(*ast.FuncLit); ok {
					return false
				}
				if rs, ok := n.(*ast.ReturnStmt); ok && len(rs.Results) >= 1 {
					set[oc.sliceClass(callee, rs.Results[0], depth+1)] = true
				}
				return true
			})
			if len(set) > 0 {
				return joinSet(set)
			}
		}
		return "unknown:call " + fn
	case *ast.Ident:
		if x.Name == "nil" {
			return "made"
		}
		if fd.Type.Params != nil {
			pos := 0
			for _, f := range fd.Type.Params.List {
				for _, nm := range f.Names {
					if nm.Name == x.Name {
						return oc.sliceParamClass(fd, pos, depth)
					}
					pos++
				}
			}
		}
		set := map[string]bool{}
		for _, d := range oc.defsOf(fd, x.Name) {
			// nr = append(nr, …) / nr = append(nr[:i], …): the backing array of nr itself, no new origin
			if c, ok := d.(*ast.CallExpr); ok && r.Text(c.Fun) == "append" && len(c.Args) > 0 && isIdentNamed(stripSlice(c.Args[0]), x.Name) {
				continue
			}
			set[oc.sliceClass(fd, d, depth+1)] = true
		}
		if len(set) == 0 {
			return "unknown:" + x.Name
		}
		return joinSet(set)
	}
	return "unknown:" + r.Text(e)
}

func joinSet(set map[string]bool) string {
	var l []string
	for k := range set {
		l = append(l, k)
	}
	sort.Strings(l)
	return strings.Join(l, "+")
}

func (oc *originCtx) sliceParamClass(fd *ast.FuncDecl, pos, depth int) string {
	set := map[string]bool{}
	for _, caller := range oc.funcs {
		ast.Inspect(caller.Body, func(n ast.Node) bool {
			c, ok := n.(*ast.CallExpr)
			if !ok || pos >= len(c.Args) {
				return true
			}
			name := ""
			switch f := c.Fun.(type) {
			case *ast.Ident:
				if fd.Recv == nil {
					name = f.Name
				}
			case *ast.SelectorExpr:
				if fd.Recv != nil {
					name = f.Sel.Name
				}
			}
			if name == fd.Name.Name {
				set[oc.sliceClass(caller, c.Args[pos], depth+1)] = true
			}
			return true
		})
	}
	if len(set) == 0 {
		return "unknown:uncalled parameter"
	}
	return joinSet(set)
}
