module foxfacts

go 1.24
