// foxfacts — regenerates Lean fact files from the Go sources of tigerwill90/fox.
//
//	foxfacts <repo dir> <output dir>
//
// Every registered fact generator parses the current working tree with go/parser (and go/types where it needs
// resolution) and writes one `<Name>.lean` file. A fact whose source has an unexpected shape is emitted as
// `unknown` (never silently skipped), which makes the Lean theorem that consumes it fail.
package main

import (
	"crypto/sha256"
	"fmt"
	"go/ast"
	"go/parser"
	"go/token"
	"os"
	"path/filepath"
	"sort"
	"strings"
)

type Repo struct {
	Dir   string
	Fset  *token.FileSet
	Files map[string]*ast.File // relative path -> file (non-test .go files of the root package and clientip)
	Src   map[string][]byte
}

type factGen struct {
	file string
	gen  func(r *Repo) (string, error)
}

var gens []factGen

func registerFact(file string, gen func(r *Repo) (string, error)) {
	gens = append(gens, factGen{file, gen})
}

func load(dir string) (*Repo, error) {
	r := &Repo{Dir: dir, Fset: token.NewFileSet(), Files: map[string]*ast.File{}, Src: map[string][]byte{}}
	for _, sub := range []string{".", "clientip", "internal/netutil", "internal/iterutil"} {
		ents, err := os.ReadDir(filepath.Join(dir, sub))
		if err != nil {
			return nil, err
		}
		for _, e := range ents {
			n := e.Name()
			if e.IsDir() || !strings.HasSuffix(n, ".go") || strings.HasSuffix(n, "_test.go") || n == "verif_hooks.go" {
				continue
			}
			rel := filepath.Join(sub, n)
			src, err := os.ReadFile(filepath.Join(dir, rel))
			if err != nil {
				return nil, err
			}
			f, err := parser.ParseFile(r.Fset, rel, src, parser.ParseComments)
			if err != nil {
				return nil, err
			}
			r.Files[rel] = f
			r.Src[rel] = src
		}
	}
	return r, nil
}

// File returns the declarations of the PACKAGE the named file belongs to, as one file: a declaration is found wherever
// in its package it lives, so that moving it to another (or a new) file of the package changes no fact. (The named file
// itself need not exist any more.) Positions, and therefore Text, are those of the real files.
func (r *Repo) File(name string) *ast.File {
	dir := filepath.Dir(name)
	var names []string
	for rel := range r.Files {
		if filepath.Dir(rel) == dir {
			names = append(names, rel)
		}
	}
	if len(names) == 0 {
		return nil
	}
	sort.Strings(names)
	merged := &ast.File{Name: r.Files[names[0]].Name}
	for _, rel := range names {
		merged.Decls = append(merged.Decls, r.Files[rel].Decls...)
		merged.Imports = append(merged.Imports, r.Files[rel].Imports...)
		merged.Comments = append(merged.Comments, r.Files[rel].Comments...)
	}
	return merged
}

// FuncDecl finds a function or method (recv == "" for functions; recv is the receiver type name without '*').
func (r *Repo) FuncDecl(file, recv, name string) *ast.FuncDecl {
	f := r.File(file)
	if f == nil {
		return nil
	}
	for _, d := range f.Decls {
		fd, ok := d.(*ast.FuncDecl)
		if !ok || fd.Name.Name != name {
			continue
		}
		if recv == "" && fd.Recv == nil {
			return fd
		}
		if recv != "" && fd.Recv != nil && len(fd.Recv.List) == 1 && recvName(fd.Recv.List[0].Type) == recv {
			return fd
		}
	}
	return nil
}

// txnCtor: the function that begins a transaction - the callee of Router.Txn's return statement (a method of *Router or a
// plain function of fox.go), or Router.Txn itself when nothing is delegated. writeIdx is the position, among the arguments
// of a call, of its first bool parameter (the `write` flag). The facts refer to it by the canonical name "txnWith" /
// "Router.txnWith" whatever it is called today.
type txnCtor struct {
	recv, name string
	writeIdx   int
	decl       *ast.FuncDecl
}

func (r *Repo) txnCtor() *txnCtor {
	txn := r.FuncDecl("fox.go", "Router", "Txn")
	if txn == nil || txn.Body == nil {
		return nil
	}
	var call *ast.CallExpr
	ast.Inspect(txn.Body, func(n ast.Node) bool {
		if rs, ok := n.(*ast.ReturnStmt); ok && len(rs.Results) == 1 && call == nil {
			if c, ok := rs.Results[0].(*ast.CallExpr); ok {
				call = c
			}
		}
		return true
	})
	c := &txnCtor{recv: "Router", name: "Txn", decl: txn}
	if call != nil {
		switch f := call.Fun.(type) {
		case *ast.SelectorExpr:
			if d := r.FuncDecl("fox.go", "Router", f.Sel.Name); d != nil {
				c = &txnCtor{recv: "Router", name: f.Sel.Name, decl: d}
			}
		case *ast.Ident:
			if d := r.FuncDecl("fox.go", "", f.Name); d != nil {
				c = &txnCtor{recv: "", name: f.Name, decl: d}
			}
		}
	}
	pos := 0
	c.writeIdx = 0
	if c.decl.Type.Params != nil {
	outer:
		for _, f := range c.decl.Type.Params.List {
			n := len(f.Names)
			if n == 0 {
				n = 1
			}
			for i := 0; i < n; i++ {
				if id, ok := f.Type.(*ast.Ident); ok && id.Name == "bool" {
					c.writeIdx = pos
					break outer
				}
				pos++
			}
		}
	}
	return c
}

func (c *txnCtor) key() string {
	if c.recv == "" {
		return c.name
	}
	return c.recv + "." + c.name
}

func recvName(e ast.Expr) string {
	switch t := e.(type) {
	case *ast.StarExpr:
		return recvName(t.X)
	case *ast.Ident:
		return t.Name
	case *ast.IndexExpr:
		return recvName(t.X)
	}
	return ""
}

func (r *Repo) Text(n ast.Node) string {
	if n == nil {
		return ""
	}
	p, e := r.Fset.Position(n.Pos()), r.Fset.Position(n.End())
	src := r.Src[p.Filename]
	if src == nil || p.Offset < 0 || e.Offset > len(src) {
		return ""
	}
	return string(src[p.Offset:e.Offset])
}

func (r *Repo) Sha(files ...string) string {
	h := sha256.New()
	sort.Strings(files)
	for _, f := range files {
		h.Write(r.Src[f])
	}
	return fmt.Sprintf("%x", h.Sum(nil))[:16]
}

// leanStr renders a Go string as a Lean string literal.
func leanStr(s string) string {
	var sb strings.Builder
	sb.WriteByte('"')
	for _, c := range []byte(s) {
		switch {
		case c == '"':
			sb.WriteString("\\\"")
		case c == '\\':
			sb.WriteString("\\\\")
		case c == '\n':
			sb.WriteString("\\n")
		case c == '\t':
			sb.WriteString("\\t")
		case c < 32 || c > 126:
			sb.WriteString(fmt.Sprintf("\\x%02x", c))
		default:
			sb.WriteByte(c)
		}
	}
	sb.WriteByte('"')
	return sb.String()
}

func leanStrList(xs []string) string {
	ys := make([]string, len(xs))
	for i, x := range xs {
		ys[i] = leanStr(x)
	}
	return "[" + strings.Join(ys, ", ") + "]"
}

// leanBytesList renders strings as lists of byte values (kernel-friendly: `decide` does not reduce String).
func leanBytesList(xs []string) string {
	ys := make([]string, len(xs))
	for i, x := range xs {
		bs := make([]string, len(x))
		for j := 0; j < len(x); j++ {
			bs[j] = fmt.Sprint(x[j])
		}
		ys[i] = "[" + strings.Join(bs, ", ") + "]"
	}
	return "[" + strings.Join(ys, ", ") + "]"
}

func main() {
	if len(os.Args) != 3 {
		fmt.Fprintln(os.Stderr, "usage: foxfacts <repo dir> <output dir>")
		os.Exit(2)
	}
	r, err := load(os.Args[1])
	if err != nil {
		fmt.Fprintln(os.Stderr, "foxfacts: cannot load sources:", err)
		os.Exit(1)
	}
	sort.Slice(gens, func(i, j int) bool { return gens[i].file < gens[j].file })
	for _, g := range gens {
		body, err := g.gen(r)
		if err != nil {
			// never skip: emit a file that makes the dependent theorems fail, with the reason
			body = "namespace Fox.Generated\n/-- extraction failed: " + strings.ReplaceAll(err.Error(), "-/", "- /") + " -/\ndef " +
				strings.TrimSuffix(g.file, ".lean") + "_extractionFailed : Bool := true\nend Fox.Generated\n"
		}
		hdr := "-- GENERATED by foxfacts from the Go sources of /repo on every check run. Do not edit.\n"
		if err := os.WriteFile(filepath.Join(os.Args[2], g.file), []byte(hdr+body), 0o644); err != nil {
			fmt.Fprintln(os.Stderr, "foxfacts:", err)
			os.Exit(1)
		}
	}
}
