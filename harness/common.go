package main

import (
	"bufio"
	"context"
	"encoding/hex"
	"io"
	"net"
	"net/http"
	"net/url"
	"sort"
	"strings"
	"time"

	"github.com/tigerwill90/fox"
)

// ---- deterministic PRNG (SplitMix64): every random choice of a run derives from VERIF_SEED

type Rng struct{ s uint64 }

func NewRng(seed uint64) *Rng { return &Rng{s: seed} }

func (r *Rng) Next() uint64 {
	r.s += 0x9e3779b97f4a7c15
	z := r.s
	z = (z ^ (z >> 30)) * 0xbf58476d1ce4e5b9
	z = (z ^ (z >> 27)) * 0x94d049bb133111eb
	return z ^ (z >> 31)
}
func (r *Rng) Intn(n int) int {
	if n <= 0 {
		return 0
	}
	return int(r.Next() % uint64(n))
}
func (r *Rng) Bool() bool          { return r.Next()&1 == 1 }
func (r *Rng) Chance(pct int) bool { return r.Intn(100) < pct }
func Pick[T any](r *Rng, xs []T) T { return xs[r.Intn(len(xs))] }
func (r *Rng) Fork() *Rng          { return NewRng(r.Next()) }

// Perm returns a random permutation of 0..n-1 (Fisher-Yates)
func (r *Rng) Perm(n int) []int {
	p := make([]int, n)
	for i := range p {
		p[i] = i
	}
	for i := n - 1; i > 0; i-- {
		j := r.Intn(i + 1)
		p[i], p[j] = p[j], p[i]
	}
	return p
}

func hashString(s string) uint64 {
	var h uint64 = 1469598103934665603
	for i := 0; i < len(s); i++ {
		h ^= uint64(s[i])
		h *= 1099511628211
	}
	return h
}

// ---- hex coding shared with the Lean driver ("_" = empty)

func hx(s string) string {
	if s == "" {
		return "_"
	}
	return hex.EncodeToString([]byte(s))
}

func unhx(s string) string {
	if s == "_" || s == "" {
		return ""
	}
	b, err := hex.DecodeString(s)
	if err != nil {
		panic("bad hex field: " + s)
	}
	return string(b)
}

func sortedJoin(xs []string, sep string) string {
	ys := append([]string(nil), xs...)
	sort.Strings(ys)
	return strings.Join(ys, sep)
}

func showParams(ps []fox.Param) string {
	if len(ps) == 0 {
		return "-"
	}
	parts := make([]string, len(ps))
	for i, p := range ps {
		parts[i] = hx(p.Key) + "=" + hx(p.Value)
	}
	return strings.Join(parts, ",")
}

// ---- requests and writers

// newReq builds a request without going through URL parsing, so that any byte string can be a path.
func newReq(method, host, path string) *http.Request {
	req := &http.Request{
		Method:     method,
		URL:        &url.URL{Path: path},
		Host:       host,
		Header:     http.Header{},
		Proto:      "HTTP/1.1",
		ProtoMajor: 1,
		ProtoMinor: 1,
		RemoteAddr: "192.0.2.1:1234",
	}
	return req.WithContext(context.Background())
}

// recWriter is a minimal recording http.ResponseWriter.
type recWriter struct {
	h      http.Header
	code   int
	body   []byte
	wrote  bool
	events []string
}

func newRecWriter() *recWriter { return &recWriter{h: http.Header{}} }

func (w *recWriter) Header() http.Header { return w.h }
func (w *recWriter) WriteHeader(code int) {
	if code >= 200 || code == 101 {
		if !w.wrote {
			w.wrote = true
			w.code = code
		}
	}
	w.events = append(w.events, "h"+itoa(code))
}
func (w *recWriter) Write(b []byte) (int, error) {
	if !w.wrote {
		w.wrote = true
		w.code = 200
	}
	w.body = append(w.body, b...)
	w.events = append(w.events, "b"+itoa(len(b)))
	return len(b), nil
}

// foxWriter adapts recWriter to fox.ResponseWriter for the Lookup entry points (nothing is written through it).
type foxWriter struct {
	*recWriter
}

func (w foxWriter) Status() int                       { return w.code }
func (w foxWriter) Written() bool                     { return w.wrote }
func (w foxWriter) Size() int                         { return len(w.body) }
func (w foxWriter) WriteString(s string) (int, error) { return w.Write([]byte(s)) }
func (w foxWriter) FlushError() error                 { return nil }
func (w foxWriter) Hijack() (net.Conn, *bufio.ReadWriter, error) {
	return nil, nil, http.ErrNotSupported
}
func (w foxWriter) Push(string, *http.PushOptions) error { return http.ErrNotSupported }
func (w foxWriter) SetReadDeadline(time.Time) error      { return nil }
func (w foxWriter) SetWriteDeadline(time.Time) error     { return nil }
func (w foxWriter) EnableFullDuplex() error              { return nil }
func (w foxWriter) ReadFrom(r io.Reader) (int64, error) {
	return 0, nil
}

func itoa(n int) string {
	if n == 0 {
		return "0"
	}
	neg := n < 0
	if neg {
		n = -n
	}
	var b [20]byte
	i := len(b)
	for n > 0 {
		i--
		b[i] = byte('0' + n%10)
		n /= 10
	}
	if neg {
		i--
		b[i] = '-'
	}
	return string(b[i:])
}
