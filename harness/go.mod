module foxharness

go 1.24

require github.com/tigerwill90/fox v0.0.0

replace github.com/tigerwill90/fox => /repo
