// foxharness — correspondence harness for the fox verification framework.
//
//	foxharness gen <stream> <seed> <n> <tier>   print <n> generated cases of <stream>, one per line
//	foxharness run                               read cases on stdin, run each against the real fox
//	                                             package (built from /repo with -tags verif), print one
//	                                             result line per case
//	foxharness streams                           list registered streams
//
// A case line is tab separated; its first field is the stream name. A result line is tab separated
// `I=<ordered observation>` [`J=<set-like observation>`] [`O=<model-free oracle failure>`].
package main

import (
	"bufio"
	"fmt"
	"os"
	"runtime/debug"
	"sort"
	"strconv"
	"strings"
	"time"
)

type stream struct {
	name string
	// gen emits n cases (complete lines, including the stream name)
	gen func(r *Rng, tier string, n int, emit func(string))
	// run executes one case (fields[0] is the stream name) and returns the result line
	run func(fields []string) string
}

var streams = map[string]*stream{}

func register(s *stream) { streams[s.name] = s }

var hangs int

// runCase runs one case under a watchdog: an operation of the implementation that never returns (a loop that does not
// terminate, a lock that is never released) must not stall the whole run. The case is reported as an oracle failure and
// the run goes on (the stuck goroutine is left behind; after a few of them the remaining cases are skipped).
func runCase(line string) string {
	fields := strings.Split(line, "\t")
	s, ok := streams[fields[0]]
	if !ok {
		return "I=unknown-stream"
	}
	if hangs >= 3 {
		return "I=SKIPPED\tO=skipped: three earlier cases of this run did not finish"
	}
	limit := 300 * time.Second
	if v, err := strconv.Atoi(os.Getenv("VERIF_CASE_TIMEOUT_S")); err == nil && v > 0 {
		limit = time.Duration(v) * time.Second
	}
	done := make(chan string, 1)
	go func() {
		defer func() {
			if p := recover(); p != nil {
				done <- "I=PANIC\tO=harness-level panic: " + strings.ReplaceAll(fmt.Sprint(p), "\n", " ") +
					" @ " + strings.ReplaceAll(string(debug.Stack()), "\n", " | ")
			}
		}()
		done <- s.run(fields)
	}()
	select {
	case out := <-done:
		return out
	case <-time.After(limit):
		hangs++
		return fmt.Sprintf("I=HANG\tO=the case did not finish within %v: an operation of the implementation does not return", limit)
	}
}

func main() {
	if len(os.Args) < 2 {
		fmt.Fprintln(os.Stderr, "usage: foxharness gen|run|streams ...")
		os.Exit(2)
	}
	w := bufio.NewWriterSize(os.Stdout, 1<<20)
	defer w.Flush()
	switch os.Args[1] {
	case "streams":
		var names []string
		for n := range streams {
			names = append(names, n)
		}
		sort.Strings(names)
		for _, n := range names {
			fmt.Fprintln(w, n)
		}
	case "gen":
		if len(os.Args) < 6 {
			fmt.Fprintln(os.Stderr, "usage: foxharness gen <stream> <seed> <n> <tier>")
			os.Exit(2)
		}
		s, ok := streams[os.Args[2]]
		if !ok {
			fmt.Fprintln(os.Stderr, "unknown stream", os.Args[2])
			os.Exit(2)
		}
		seed, _ := strconv.ParseUint(os.Args[3], 10, 64)
		n, _ := strconv.Atoi(os.Args[4])
		r := NewRng(seed ^ hashString(s.name))
		s.gen(r, os.Args[5], n, func(l string) { fmt.Fprintln(w, l) })
	case "run":
		sc := bufio.NewScanner(os.Stdin)
		sc.Buffer(make([]byte, 1<<20), 1<<28)
		for sc.Scan() {
			line := sc.Text()
			if strings.HasPrefix(line, "#") {
				fmt.Fprintln(w, "#")
				continue
			}
			fmt.Fprintln(w, runCase(line))
		}
	default:
		fmt.Fprintln(os.Stderr, "unknown command", os.Args[1])
		os.Exit(2)
	}
}
