package main

// Stream `alloc` (property C16): routing a matching request allocates nothing in steady state.
//
//	alloc \t <H ops and L probes as in stream ops>
//
// For every probe that is served by a route (direct match, or trailing-slash match on a route that ignores trailing
// slashes) the harness measures testing.AllocsPerRun around Router.ServeHTTP after a warm-up, with an allocation-free
// handler and response writer. More than 0 allocations per run is a violation. The result line also reports the
// context buffer capacities (verif hook) against the tree's bookkeeping, which the Lean model predicts.

import (
	"fmt"
	"net/http"
	"strconv"
	"strings"
	"testing"

	"github.com/tigerwill90/fox"
)

func init() {
	register(&stream{name: "alloc", gen: genAlloc, run: runAlloc})
}

type nullWriter struct{ h http.Header }

func (w *nullWriter) Header() http.Header         { return w.h }
func (w *nullWriter) Write(b []byte) (int, error) { return len(b), nil }
func (w *nullWriter) WriteHeader(int)             {}

func runAlloc(fields []string) string {
	if len(fields) < 2 {
		return "I=bad-case"
	}
	f, _ := fox.New()
	served := 0
	var capP, capT, capS int
	h := func(c fox.Context) {
		served++
		capP, capT, capS = fox.VerifCtxCaps(c)
	}
	var probes [][3]string
	for _, op := range strings.Split(fields[1], ";") {
		a := strings.Split(op, ",")
		switch {
		case a[0] == "H" && len(a) == 5:
			flags, _ := strconv.Atoi(a[3])
			hid, _ := strconv.Atoi(a[4])
			_, _ = f.Handle(a[1], unhx(a[2]), h, routeOpts(flags, hid)...)
		case a[0] == "T" && len(a) == 2:
			// a partial (or full) Truncate in the history: the surviving routes keep their allocation-free routing
			var ms []string
			for _, m := range strings.Split(a[1], "+") {
				if m != "" {
					ms = append(ms, m)
				}
			}
			_ = f.Updates(func(txn *fox.Txn) error { return txn.Truncate(ms...) })
		case a[0] == "D" && len(a) == 3:
			_, _ = f.Delete(a[1], unhx(a[2]))
		case a[0] == "L" && len(a) == 4:
			probes = append(probes, [3]string{a[1], unhx(a[2]), unhx(a[3])})
		}
	}
	_, mp, depth := fox.VerifTreeStats(f)
	w := &nullWriter{h: http.Header{}}
	var out []string
	var oracles []string
	measured := 0
	measure := func(req *http.Request, label string, p [3]string) bool {
		served = 0
		f.ServeHTTP(w, req)
		if served == 0 {
			return false
		}
		// warm-up: let the pooled contexts reach their steady-state capacities
		for i := 0; i < 8; i++ {
			f.ServeHTTP(w, req)
		}
		n := testing.AllocsPerRun(40, func() { f.ServeHTTP(w, req) })
		measured++
		if n > 0 {
			oracles = append(oracles, fmt.Sprintf("%s host=%s path=%s%s: %d allocations per request (caps params=%d tsr=%d skipped=%d; tree maxParams=%d depth=%d)",
				p[0], hx(req.Host), hx(p[2]), label, int(n), capP, capT, capS, mp, depth))
		}
		out = append(out, fmt.Sprintf("allocs%s=%d", label, int(n)))
		return true
	}
	var fw fox.ResponseWriter = foxWriter{newRecWriter()}
	extra := func(label string, p [3]string, run func()) {
		for i := 0; i < 8; i++ {
			run()
		}
		n := testing.AllocsPerRun(40, run)
		measured++
		if n > 0 {
			oracles = append(oracles, fmt.Sprintf("%s host=%s path=%s%s: %d allocations per request (tree maxParams=%d depth=%d)",
				p[0], hx(p[1]), hx(p[2]), label, int(n), mp, depth))
		}
		out = append(out, fmt.Sprintf("allocs%s=%d", label, int(n)))
	}
	for k, p := range probes {
		if !measure(newReq(p[0], p[1], p[2]), "", p) {
			out = append(out, "unserved")
			continue
		}
		if k%3 == 0 {
			req := newReq(p[0], p[1], p[2])
			// the entry points share the tree's context pool: a reverse lookup between two requests costs nothing either
			extra("+reverse", p, func() {
				_, _ = f.Reverse(p[0], p[1], p[2])
				f.ServeHTTP(w, req)
			})
			// a manual lookup, closed again, and the same through a read-only view that a later commit has superseded
			extra("+lookup", p, func() {
				if _, cc, _ := f.Lookup(fw, req); cc != nil {
					cc.Close()
				}
			})
			view := f.Txn(false)
			_, _ = f.Handle("GET", "/zz-alloc/"+strconv.Itoa(k), h)
			extra("+oldview", p, func() {
				if _, cc, _ := view.Lookup(fw, req); cc != nil {
					cc.Close()
				}
			})
			view.Abort()
			_, mp, depth = fox.VerifTreeStats(f)
		}
		// the same request with a percent-escape in its last segment: the router then matches URL.RawPath
		if n := len(p[2]); n > 1 && (p[2][n-1] >= 'a' && p[2][n-1] <= 'z' || p[2][n-1] >= '0' && p[2][n-1] <= '9') {
			req := newReq(p[0], p[1], p[2])
			req.URL.RawPath = p[2][:n-1] + fmt.Sprintf("%%%02X", p[2][n-1])
			measure(req, "+rawpath", p)
		}
		// path-only matches under unusual Host shapes (IPv6 literals with and without brackets / port / zone)
		if k%2 == 0 {
			for _, h := range []string{"[::1]", "::1", "[::1]:8080", "[fe80::1%25en0]:80", "localhost:", "example.com.:443"} {
				measure(newReq(p[0], h, p[2]), "+host", p)
			}
			// successive requests with DIFFERENT Host headers (ports, trailing dots): whatever is remembered about the
			// previous request's Host must not cost an allocation when the next one differs
			var reqs []*http.Request
			for _, h := range []string{"a.example.com:8080", "b.example.com:8081", "c.example.com.", p[1], p[1] + ":8443"} {
				rq := newReq(p[0], h, p[2])
				served = 0
				f.ServeHTTP(w, rq)
				if served > 0 { // only requests a route serves are measured
					reqs = append(reqs, rq)
				}
			}
			if len(reqs) >= 2 {
				turn := 0
				extra("+althost", p, func() {
					f.ServeHTTP(w, reqs[turn%len(reqs)])
					turn++
				})
			}
		}
	}
	res := "I=" + strings.Join(out, "|") + "\tT=maxparams-" + strconv.Itoa(int(mp)) + "\tN=" + strconv.Itoa(min(1, measured))
	if len(oracles) > 0 {
		res += "\tO=" + strings.Join(oracles, " ;; ")
	}
	return res
}

func genAlloc(r *Rng, tier string, n int, emit func(string)) {
	for c := 0; c < n; c++ {
		cr := r.Fork()
		methods := []string{Pick(cr, methodPool)}
		hostPct := Pick(cr, []int{0, 0, 40})
		var ops, pats []string
		k := 1 + cr.Intn(14)
		if cr.Chance(10) {
			// many parameters / deep backtracking
			for i := 0; i < 6; i++ {
				p := ""
				for j := 0; j < 4+cr.Intn(6); j++ {
					p += "/" + Pick(cr, []string{"{p" + strconv.Itoa(j) + "}", "s" + strconv.Itoa(j), "a{q" + strconv.Itoa(j) + "}"})
				}
				pats = append(pats, p)
			}
		}
		if cr.Chance(12) {
			// a wide node: 30-64 children with distinct first bytes, plus a parameter and a catch-all sibling
			const alpha = "0123456789abcdefghijklmnopqrstuvwxyzABCDEFGHIJKLMNOPQRSTUVWXYZ-_"
			base := Pick(cr, []string{"/", "/api/", "/{v}/"})
			n := 30 + cr.Intn(len(alpha)-30+1)
			for _, i := range cr.Perm(len(alpha))[:n] {
				pats = append(pats, base+string(alpha[i])+Pick(cr, []string{"", "x", "/y", "/{id}"}))
			}
			pats = append(pats, base+"{p}", base+"*{rest}")
		}
		for i := 0; i < k; i++ {
			pats = append(pats, genPattern(cr, hostPct))
		}
		for i, p := range pats {
			ops = append(ops, fmt.Sprintf("H,%s,%s,%d,%d", methods[0], hx(p), Pick(cr, []int{0, 0, 1}), i+1))
		}
		if cr.Chance(25) {
			// routes with many parameters under a second method, which is then truncated (and sometimes refilled, or a route
			// of the first method deleted): the routes that survive keep their parameters
			other := "POST"
			if methods[0] == "POST" {
				other = "PUT"
			}
			for i := 0; i < 1+cr.Intn(3); i++ {
				p := "/tr" + strconv.Itoa(i)
				for j := 0; j < 2+cr.Intn(8); j++ {
					p += "/{t" + strconv.Itoa(j) + "}"
				}
				ops = append(ops, fmt.Sprintf("H,%s,%s,0,%d", other, hx(p), 900+i))
				if cr.Bool() {
					pats = append(pats, p)
					ops = append(ops, fmt.Sprintf("H,%s,%s,0,%d", methods[0], hx(p), 950+i))
				}
			}
			ops = append(ops, "T,"+other)
			if cr.Chance(40) {
				ops = append(ops, fmt.Sprintf("H,%s,%s,0,%d", other, hx("/refill/{a}"), 990))
			}
			if cr.Chance(30) && len(pats) > 1 {
				ops = append(ops, fmt.Sprintf("D,%s,%s", methods[0], hx(pats[0])))
			}
		}
		for i := 0; i < 6+cr.Intn(8); i++ {
			ops = append(ops, genProbe(cr, pats, methods))
		}
		// families chosen by the case number: the linear scans of childKeys on nodes with more than 32 children (a
		// conversion of the key bytes would no longer fit a stack buffer there)
		const wide = "0123456789abcdefghijklmnopqrstuvwxyzABCDEFGHIJKLMNOPQRSTUVWXYZ"
		switch c % 16 {
		case 3:
			// an ignored trailing slash found by scanning a wide node for its '/' child
			base := Pick(cr, []string{"/w", "/api/v", "/{t}/w"})
			nk := 33 + cr.Intn(len(wide)-33+1)
			ops = append(ops, fmt.Sprintf("H,%s,%s,1,%d", methods[0], hx(base+"/"), 2000))
			for j, i := range cr.Perm(len(wide))[:nk] {
				ops = append(ops, fmt.Sprintf("H,%s,%s,0,%d", methods[0], hx(base+string(wide[i])+Pick(cr, []string{"", "x"})), 2001+j))
			}
			ops = append(ops, "L,"+methods[0]+",_,"+hx(strings.ReplaceAll(base, "{t}", "q")), "L,"+methods[0]+",_,"+hx(strings.ReplaceAll(base, "{t}", "q")+"/"))
		case 11:
			// the path-only fallback of a method with many hostnames (the root is scanned for its '/' child), and a
			// hostname among many
			nk := 33 + cr.Intn(len(wide)-33+1)
			ops = append(ops, fmt.Sprintf("H,%s,%s,0,%d", methods[0], hx("/fb/{id}"), 2000))
			for j, i := range cr.Perm(len(wide))[:nk] {
				ops = append(ops, fmt.Sprintf("H,%s,%s,0,%d", methods[0], hx(string(wide[i])+"h.example.com/fb/{id}"), 2001+j))
			}
			ops = append(ops, "L,"+methods[0]+","+hx("-unknown.example.org")+","+hx("/fb/7"), "L,"+methods[0]+",_,"+hx("/fb/7"),
				"L,"+methods[0]+","+hx("ah.example.com")+","+hx("/fb/7"), "L,"+methods[0]+","+hx("Zh.example.com:8080")+","+hx("/fb/7"))
		}
		emit("alloc\t" + strings.Join(ops, ";"))
	}
}
