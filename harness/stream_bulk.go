package main

// Stream `bulk` (properties C02, C03): ONE write transaction that registers thousands of routes - it clones more nodes
// than its writable-node cache (4096 entries) holds, so that the cache evicts while the transaction still walks through
// evicted and retained nodes - and is then committed or aborted.
//
//	bulk \t <n> \t <shape a|b|c> \t <mode commit|abort>
//
// Observed: how the transaction ended (ok / the error / a panic), Len, Has of four sample patterns, a lookup below the
// last pattern, the number of routes an iterator taken BEFORE the transaction still yields, and a follow-up Handle under
// a watchdog (the writer lock is free).

import (
	"fmt"
	"net/http"
	"slices"
	"strconv"
	"time"

	"github.com/tigerwill90/fox"
)

func init() {
	register(&stream{name: "bulk", gen: genBulk, run: runBulk})
}

func bulkPattern(shape string, i int) string {
	switch shape {
	case "a":
		return fmt.Sprintf("/s%d/g%d/r%d/{id}", i%7, i%97, i)
	case "b":
		return "/k" + strconv.Itoa(i)
	}
	return fmt.Sprintf("h%d.example.com/p%d/{id}", i%50, i)
}

func runBulk(fields []string) string {
	if len(fields) < 4 {
		return "I=bad-case"
	}
	n, _ := strconv.Atoi(fields[1])
	shape, mode := fields[2], fields[3]
	f, err := fox.New()
	if err != nil {
		return "I=setup-error"
	}
	cur := &served{}
	h := func(c fox.Context) {}
	mk := func(hid int) fox.HandlerFunc {
		return func(c fox.Context) {
			cur.called, cur.pattern, cur.params, cur.hid = true, c.Pattern(), slices.Collect(c.Params()), hid
		}
	}
	for _, p := range []string{"/seed/a", "/seed/b/{x}", "/k"} {
		if _, err := f.Handle(http.MethodGet, p, h); err != nil {
			return "I=setup-error"
		}
	}
	before := f.Iter()
	res := "ok"
	func() {
		defer func() {
			if v := recover(); v != nil {
				res = fmt.Sprintf("panic:%v", v)
			}
		}()
		txn := f.Txn(true)
		defer txn.Abort()
		for i := 0; i < n; i++ {
			if _, err := txn.Handle(http.MethodGet, bulkPattern(shape, i), mk(100+i), fox.WithAnnotation(hidKey{}, 100+i)); err != nil {
				res = "error:" + classifyErr(err)
				return
			}
		}
		if mode == "commit" {
			txn.Commit()
		}
	}()
	has := ""
	for _, i := range []int{0, 1, n / 2, n - 1} {
		if f.Has(http.MethodGet, bulkPattern(shape, i)) {
			has += "1"
		} else {
			has += "0"
		}
	}
	last := bulkPattern(shape, n-1)
	host, path := splitHostPath(last)
	lk, o := lookupAll(f, cur, http.MethodGet, host, replaceParam(path))
	nb := 0
	for range before.All() {
		nb++
	}
	after := "hang"
	done := make(chan error, 1)
	go func() {
		_, e := f.Handle(http.MethodGet, "/after/the/transaction", h)
		done <- e
	}()
	select {
	case e := <-done:
		if e == nil {
			after = "ok"
		} else {
			after = "error"
		}
	case <-time.After(3 * time.Second):
	}
	line := fmt.Sprintf("res=%s,len=%d,has=%s,lk=%s,before=%d,after=%s", res, f.Len()-btoi(after == "ok"), has, lk, nb, after)
	out := "I=" + line + "\tJ=" + line
	if o != "" {
		out += "\tO=" + o
	}
	return out
}

func btoi(b bool) int {
	if b {
		return 1
	}
	return 0
}

func replaceParam(p string) string {
	out := ""
	for i := 0; i < len(p); i++ {
		if p[i] == '{' {
			for i < len(p) && p[i] != '}' {
				i++
			}
			out += "42"
			continue
		}
		out += string(p[i])
	}
	return out
}

func genBulk(r *Rng, tier string, n int, emit func(string)) {
	sizes := []int{13000, 5000, 1500, 9000}
	if tier == "thorough" {
		sizes = append(sizes, 17000)
	}
	k := 0
	for k < n {
		for _, shape := range []string{"a", "b", "c"} {
			for _, sz := range sizes {
				for _, mode := range []string{"commit", "abort"} {
					if k >= n {
						return
					}
					emit(fmt.Sprintf("bulk\t%d\t%s\t%s", sz+r.Intn(50), shape, mode))
					k++
				}
			}
		}
	}
}
