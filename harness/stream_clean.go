package main

// Streams of property C17 (CleanPath returns the canonical path).
//
//	clean       <input hex>
//	    I = hex(fox.CleanPath(input)) | panic        O= when the result differs from the split-and-stack reference below
//	                                                 or CleanPath is not idempotent on it (model-free)
//	cleanredir  <pattern hex> <method> <path hex> <raw 0|1> <hint e|t|n>
//	    one route registered with WithRedirectTrailingSlash(true); the request is served once.
//	    I = g=<path == fox.CleanPath(path)>,k=<e|t|n observed with Router.Lookup>,r=<redirect status | 0>
//	    J = g=<…>,bad=<1 when a redirect was issued although path != reference-clean(path)>
//	    O = the same as bad=1 in words.
//	    `path` is what ServeHTTP routes on: URL.RawPath when set (raw=1), URL.Path otherwise.
//
// Generators: `clean` enumerates every string over {'/','.','a'} up to length 9 (quick) / 11 (thorough; 12 when n >= 900000) by enumeration
// index and then draws random inputs (element mixes up to 400 bytes, lengths aimed at the 128-byte stack buffer, raw
// byte soup). `cleanredir` draws static/param patterns and requests whose segments include ".", "..", "...", "%2e"
// and empty segments, with the trailing slash toggled (trailing-slash action), kept (exact) or the arity changed.

import (
	"net/http"
	"net/url"
	"strings"

	"github.com/tigerwill90/fox"
)

func init() {
	register(&stream{name: "clean", gen: genClean, run: runClean})
	register(&stream{name: "cleanredir", gen: genCleanRedir, run: runCleanRedir})
}

// clRef is the lexical definition: split on '/', stack, join. It shares no code with path.go.
func clRef(p string) string {
	parts := strings.Split(p, "/")
	var st []string
	for _, e := range parts {
		switch e {
		case "", ".":
		case "..":
			if len(st) > 0 {
				st = st[:len(st)-1]
			}
		default:
			st = append(st, e)
		}
	}
	if len(st) == 0 {
		return "/"
	}
	out := "/" + strings.Join(st, "/")
	if last := parts[len(parts)-1]; last == "" || last == "." {
		out += "/"
	}
	return out
}

func clCall(p string) (out string, panicked bool) {
	defer func() {
		if recover() != nil {
			panicked = true
		}
	}()
	return fox.CleanPath(p), false
}

func runClean(fields []string) string {
	if len(fields) < 2 {
		return "I=bad-case"
	}
	in := unhx(fields[1])
	got, pan := clCall(in)
	if pan {
		return "I=panic\tO=CleanPath panicked"
	}
	res := "I=" + hx(got)
	if want := clRef(in); got != want {
		res += "\tO=CleanPath differs from the split-and-stack reference: got " + hx(got) + " want " + hx(want)
	} else if again, pan2 := clCall(got); pan2 || again != got {
		res += "\tO=CleanPath is not idempotent on its own result " + hx(got)
	}
	return res
}

var clAlpha = [3]byte{'/', '.', 'a'}

// clPow3[k] = 3^k
func clCount(maxLen int) int {
	c, p := 0, 1
	for l := 0; l <= maxLen; l++ {
		c += p
		p *= 3
	}
	return c
}

// clNth returns the i-th string over clAlpha in length-then-lexicographic order.
func clNth(i int) string {
	l, p := 0, 1
	for i >= p {
		i -= p
		p *= 3
		l++
	}
	b := make([]byte, l)
	for k := l - 1; k >= 0; k-- {
		b[k] = clAlpha[i%3]
		i /= 3
	}
	return string(b)
}

var clElems = []string{"", ".", "..", "a", "ab", "%2e", "é", "...", "a.", ".a"}

func clRandom(r *Rng) string {
	var sb strings.Builder
	switch r.Intn(10) {
	case 0, 1, 2, 3, 4: // element mix, up to 400 bytes
		if r.Intn(4) > 0 {
			sb.WriteByte('/')
		}
		k := r.Intn(120)
		for j := 0; j < k && sb.Len() < 396; j++ {
			sb.WriteString(Pick(r, clElems))
			sb.WriteByte('/')
		}
		s := sb.String()
		if r.Bool() && len(s) > 0 {
			s = s[:len(s)-1]
		}
		return s
	case 5, 6, 7: // aimed at the stack buffer: total length in 120..136, modification late or early
		target := 120 + r.Intn(17)
		if r.Intn(3) > 0 {
			sb.WriteByte('/')
		}
		early := r.Bool()
		if early {
			sb.WriteString(Pick(r, []string{"./", "../", "/", "a/../", "//"}))
		}
		for sb.Len() < target-6 {
			if r.Intn(5) == 0 {
				sb.WriteString(Pick(r, clElems))
			} else {
				sb.WriteString(Pick(r, []string{"a", "ab", "abc", "é"}))
			}
			sb.WriteByte('/')
		}
		if !early {
			sb.WriteString(Pick(r, []string{"./", "..", "../", "/", ".", "a/..", "/."}))
		}
		for sb.Len() < target {
			sb.WriteByte('a')
		}
		s := sb.String()
		if r.Intn(3) == 0 {
			s += Pick(r, []string{"/", "/.", "/..", "."})
		}
		return s
	case 8: // unmodified long path (stays lazy) with at most one blemish at the end
		if r.Intn(4) > 0 {
			sb.WriteByte('/')
		}
		n := 100 + r.Intn(300)
		for sb.Len() < n {
			sb.WriteString(Pick(r, []string{"a", "ab", "%2e", "é", "...", "a.", ".a"}))
			sb.WriteByte('/')
		}
		return sb.String() + Pick(r, []string{"", "x", ".", "..", "/", "x/."})
	default: // byte soup
		n := r.Intn(40)
		soup := []byte{'/', '/', '/', '.', '.', '.', 'a', 'b', '%', 0xc3, 0xa9, 0x00, 0xff}
		for j := 0; j < n; j++ {
			sb.WriteByte(Pick(r, soup))
		}
		return sb.String()
	}
}

func genClean(r *Rng, tier string, n int, emit func(string)) {
	maxLen := 9
	if tier == "thorough" {
		maxLen = 11
		if n >= clCount(12)+clCount(12)/8 {
			maxLen = 12
		}
	}
	all := clCount(maxLen)
	nExh := all
	if n < all+all/8 {
		// not enough room for the whole enumeration: spread the indices evenly, keep 1/8 for random inputs
		nExh = n - n/8
	}
	for k := 0; k < nExh; k++ {
		idx := k
		if nExh < all {
			idx = int(uint64(k) * uint64(all) / uint64(nExh))
		}
		emit("clean\t" + hx(clNth(idx)))
	}
	for k := nExh; k < n; k++ {
		emit("clean\t" + hx(clRandom(r)))
	}
}

// ------------------------------------------------------------------------------------------ cleanredir

var clPatterns = []string{
	"/{a}", "/{a}/", "/{a}/{b}", "/{a}/{b}/", "/x/{a}", "/x/{a}/", "/{a}/x", "/{a}/x/", "/{a}/{b}/{c}/", "/{a}/{b}/{c}",
	"/x/y", "/x/y/", "/x", "/x/", "/x/{a}/y", "/x/{a}/y/",
}

var clSegs = []string{".", "..", "...", "a", "x", "y", "%2e", "%2e%2e", "a.", ".a", "é", "a:b"}

// clMatch: reference matcher for patterns made of static and {param} segments only (a param matches one non-empty
// segment). Used by the generator for the hint, never by the runner.
func clMatch(pattern, path string) bool {
	ps, qs := strings.Split(pattern, "/"), strings.Split(path, "/")
	if len(ps) != len(qs) {
		return false
	}
	for i := range ps {
		if strings.HasPrefix(ps[i], "{") {
			if qs[i] == "" {
				return false
			}
		} else if ps[i] != qs[i] {
			return false
		}
	}
	return true
}

func clHint(pattern, path string) string {
	if clMatch(pattern, path) {
		return "e"
	}
	if strings.HasSuffix(path, "/") {
		if len(path) > 1 && clMatch(pattern, path[:len(path)-1]) {
			return "t"
		}
	} else if clMatch(pattern, path+"/") {
		return "t"
	}
	return "n"
}

func genCleanRedir(r *Rng, tier string, n int, emit func(string)) {
	for k := 0; k < n; k++ {
		pat := Pick(r, clPatterns)
		segs := strings.Split(pat, "/")[1:]
		trail := strings.HasSuffix(pat, "/")
		if trail {
			segs = segs[:len(segs)-1]
		}
		var out []string
		for _, s := range segs {
			switch {
			case strings.HasPrefix(s, "{"):
				out = append(out, Pick(r, clSegs))
			case r.Intn(8) == 0:
				out = append(out, Pick(r, clSegs))
			default:
				out = append(out, s)
			}
		}
		switch r.Intn(12) {
		case 0: // empty segment somewhere
			i := r.Intn(len(out) + 1)
			out = append(out[:i], append([]string{""}, out[i:]...)...)
		case 1: // a "." or ".." element that cleaning would remove, arity changes
			i := r.Intn(len(out) + 1)
			out = append(out[:i], append([]string{Pick(r, []string{".", ".."})}, out[i:]...)...)
		case 2:
			if len(out) > 1 {
				out = out[:len(out)-1]
			}
		}
		path := "/" + strings.Join(out, "/")
		switch r.Intn(10) {
		case 0, 1, 2: // same trailing slash as the pattern
			if trail {
				path += "/"
			}
		case 3:
			path += "//"
		default: // toggled: a trailing-slash action is needed
			if !trail {
				path += "/"
			}
		}
		method := Pick(r, []string{"GET", "GET", "GET", "POST", "HEAD", "CONNECT", "PUT"})
		raw := "0"
		if strings.Contains(path, "%2e") && r.Bool() {
			raw = "1"
		}
		emit(strings.Join([]string{"cleanredir", hx(pat), method, hx(path), raw, clHint(pat, path)}, "\t"))
	}
}

func runCleanRedir(fields []string) string {
	if len(fields) < 6 {
		return "I=bad-case"
	}
	pat, method, path, raw := unhx(fields[1]), fields[2], unhx(fields[3]), fields[4] == "1"
	f, err := fox.New()
	if err != nil {
		return "I=bad-router"
	}
	called := false
	if _, err := f.Handle(method, pat, func(c fox.Context) {
		called = true
		c.Writer().WriteHeader(http.StatusOK)
	}, fox.WithRedirectTrailingSlash(true)); err != nil {
		return "I=bad-route"
	}
	mk := func() *http.Request {
		req := newReq(method, "example.com", path)
		if raw {
			if dec, err := url.PathUnescape(path); err == nil {
				req.URL = &url.URL{Path: dec, RawPath: path}
			}
		}
		return req
	}
	req := mk()
	routed := req.URL.Path
	if req.URL.RawPath != "" {
		routed = req.URL.RawPath
	}
	kind := "n"
	if rte, cc, tsr := f.Lookup(foxWriter{newRecWriter()}, mk()); rte != nil {
		if tsr {
			kind = "t"
		} else {
			kind = "e"
		}
		cc.Close()
	}
	w := newRecWriter()
	f.ServeHTTP(w, req)
	redirect := 0
	if !called && (w.code == http.StatusMovedPermanently || w.code == http.StatusPermanentRedirect) {
		redirect = w.code
	}
	g := "0"
	if got, pan := clCall(routed); !pan && got == routed {
		g = "1"
	}
	bad := "0"
	res := ""
	if redirect != 0 && clRef(routed) != routed {
		bad = "1"
		res = "\tO=trailing-slash redirect (" + itoa(redirect) + ", Location " + hx(w.h.Get("Location")) +
			") issued for the unclean path " + hx(routed) + " (canonical form " + hx(clRef(routed)) + ")"
	}
	return "I=g=" + g + ",k=" + kind + ",r=" + itoa(redirect) + "\tJ=g=" + g + ",bad=" + bad + res
}
