package main

// Stream `clientip` (property C18): client-IP resolvers of github.com/tigerwill90/fox/clientip.
//
//	case:  clientip \t <resolver> \t <headers> \t <remote addr hex>
//	  resolver := r | "chain:" r ("&" r)*
//	  r        := remote | single.<name hex> | left.<x|f>.<limit>.<opts> | rnp.<x|f>.<opts> | count.<x|f>.<n>
//	            | range.<x|f>.<ranges> | probe
//	  opts     := "-" | letters L/l (loopback on/off) K/k (link local) P/p (private net) in application order
//	  ranges   := "-" | "!" (range resolver fails) | <fam>/<addr hex>/<len> joined by "+"
//	  headers  := "-" | <canonical name hex>=<line hex>,<line hex>,... joined by ";"
//
// Every case is resolved directly (resolver.ClientIP on a test context) and through a real router (global option in a
// route handler and in the no-route handler, route option); any difference is an oracle failure. For the three
// rightmost strategies a successful result is re-checked with attacker controlled text prepended (extra lines before the
// first line and extra items in front of the first line): the result must not change.

import (
	"net/netip"
	"math"
	"encoding/hex"
	"errors"
	"fmt"
	"net"
	"net/http"
	"os"
	"path/filepath"
	"regexp"
	"runtime/debug"
	"strconv"
	"strings"

	"github.com/tigerwill90/fox"
	"github.com/tigerwill90/fox/clientip"
)

func init() {
	register(&stream{name: "clientip", gen: genClientIP, run: runClientIP})
}

// ---------------------------------------------------------------------------------------------- run

type rangeFunc struct {
	nets []net.IPNet
	err  error
}

func (r rangeFunc) TrustedIPRange() ([]net.IPNet, error) { return r.nets, r.err }

var errCfg = errors.New("cfgerr")

func ciKey(s string) (clientip.HeaderKey, string) {
	if s == "f" {
		return clientip.ForwardedKey, "Forwarded"
	}
	return clientip.XForwardedForKey, "X-Forwarded-For"
}

func ciRanges(s string) ([]net.IPNet, error) {
	if s == "!" {
		return nil, errors.New("range resolver failed")
	}
	nets := []net.IPNet{}
	if s == "-" {
		return nets, nil
	}
	for _, it := range strings.Split(s, "+") {
		p := strings.Split(it, "/")
		if len(p) != 3 {
			panic("bad range " + it)
		}
		b, err := hex.DecodeString(p[1])
		if err != nil {
			panic(err)
		}
		n, _ := strconv.Atoi(p[2])
		nets = append(nets, net.IPNet{IP: net.IP(b), Mask: net.CIDRMask(n, len(b)*8)})
	}
	return nets, nil
}

// ciBuild constructs one resolver; kind is the strategy name.
func ciBuild(spec string, variant bool) (res fox.ClientIPResolver, kind string, hdr string, err error) {
	p := strings.Split(spec, ".")
	switch p[0] {
	case "remote":
		return clientip.NewRemoteAddr(), "remote", "", nil
	case "single":
		name := unhx(p[1])
		arg := name
		if variant {
			arg = strings.ToLower(name)
		}
		r, e := clientip.NewSingleIPHeader(arg)
		if e != nil {
			return nil, "single", name, errCfg
		}
		return r, "single", name, nil
	case "left":
		k, h := ciKey(p[1])
		limit, _ := strconv.ParseUint(p[2], 10, 64)
		var opts []clientip.BlacklistRangeOption
		if p[3] != "-" {
			for _, c := range p[3] {
				switch c {
				case 'L', 'l':
					opts = append(opts, clientip.ExcludeLoopback(c == 'L'))
				case 'K', 'k':
					opts = append(opts, clientip.ExcludeLinkLocal(c == 'K'))
				case 'P', 'p':
					opts = append(opts, clientip.ExcludePrivateNet(c == 'P'))
				}
			}
		}
		r, e := clientip.NewLeftmostNonPrivate(k, uint(limit), opts...)
		if e != nil {
			return nil, "left", h, errCfg
		}
		return r, "left", h, nil
	case "rnp":
		k, h := ciKey(p[1])
		var opts []clientip.TrustedRangeOption
		if p[2] != "-" {
			for _, c := range p[2] {
				switch c {
				case 'L', 'l':
					opts = append(opts, clientip.TrustLoopback(c == 'L'))
				case 'K', 'k':
					opts = append(opts, clientip.TrustLinkLocal(c == 'K'))
				case 'P', 'p':
					opts = append(opts, clientip.TrustPrivateNet(c == 'P'))
				}
			}
		}
		r, e := clientip.NewRightmostNonPrivate(k, opts...)
		if e != nil {
			return nil, "rnp", h, errCfg
		}
		return r, "rnp", h, nil
	case "count":
		k, h := ciKey(p[1])
		n, _ := strconv.ParseUint(p[2], 10, 64)
		r, e := clientip.NewRightmostTrustedCount(k, uint(n))
		if e != nil {
			return nil, "count", h, errCfg
		}
		return r, "count", h, nil
	case "range":
		k, h := ciKey(p[1])
		nets, rerr := ciRanges(p[2])
		r, e := clientip.NewRightmostTrustedRange(k, rangeFunc{nets, rerr})
		if e != nil {
			return nil, "range", h, errCfg
		}
		return r, "range", h, nil
	}
	panic("bad resolver " + spec)
}

func ciHeaders(s string) http.Header {
	h := http.Header{}
	if s == "-" {
		return h
	}
	for _, part := range strings.Split(s, ";") {
		nv := strings.SplitN(part, "=", 2)
		name := unhx(nv[0])
		vals := []string{}
		if nv[1] != "" {
			for _, v := range strings.Split(nv[1], ",") {
				vals = append(vals, unhx(v))
			}
		}
		h[name] = vals
	}
	return h
}

func ciReq(path string, h http.Header, remote string) *http.Request {
	req := newReq("GET", "example.com", path)
	req.Header = h.Clone()
	if req.Header == nil {
		req.Header = http.Header{}
	}
	req.RemoteAddr = remote
	return req
}

func ciErrKinds(err error, out *[]string) {
	// errors.Join (Chain) — fmt.Errorf with several %w verbs also has Unwrap() []error, hence the type test
	if j, ok := err.(interface{ Unwrap() []error }); ok && fmt.Sprintf("%T", err) == "*errors.joinError" {
		for _, e := range j.Unwrap() {
			ciErrKinds(e, out)
		}
		return
	}
	sub := func() string {
		if errors.Is(err, clientip.ErrUnspecifiedIpAddress) {
			return "unspecified"
		}
		if errors.Is(err, clientip.ErrInvalidIpAddress) {
			return "invalid"
		}
		return "other"
	}
	switch {
	case errors.Is(err, clientip.ErrRemoteAddress):
		*out = append(*out, "remote-"+sub())
	case errors.Is(err, clientip.ErrSingleIPHeader):
		*out = append(*out, "single-missing")
	case errors.Is(err, clientip.ErrLeftmostNonPrivate):
		*out = append(*out, "leftmost")
	case errors.Is(err, clientip.ErrRightmostNonPrivate):
		*out = append(*out, "nonprivate")
	case errors.Is(err, clientip.ErrRightmostTrustedCount):
		if strings.Contains(err.Error(), "expected at least") {
			*out = append(*out, "count-few")
		} else {
			*out = append(*out, "count-invalid")
		}
	case errors.Is(err, clientip.ErrRightmostTrustedRange):
		if strings.Contains(err.Error(), "unable to resolve trusted ip range") {
			*out = append(*out, "range-resolver")
		} else {
			*out = append(*out, "range")
		}
	case errors.Is(err, clientip.ErrUnspecifiedIpAddress):
		*out = append(*out, "unspecified")
	case errors.Is(err, clientip.ErrInvalidIpAddress):
		*out = append(*out, "invalid")
	default:
		*out = append(*out, "other")
	}
}

func ciShow(ip *net.IPAddr, err error) string {
	if err != nil {
		var ks []string
		ciErrKinds(err, &ks)
		s := "err:" + strings.Join(ks, "+")
		if ip != nil {
			s += "+nonnil-addr"
		}
		return s
	}
	if ip == nil {
		return "nil"
	}
	b := ip.IP.To16()
	if b == nil {
		return "ok badlen" + hex.EncodeToString(ip.IP) + "%" + hx(ip.Zone)
	}
	return "ok " + hex.EncodeToString(b) + "%" + hx(ip.Zone)
}

func ciCall(f func() (*net.IPAddr, error)) (out string) {
	defer func() {
		if p := recover(); p != nil {
			out = "panic"
		}
	}()
	return ciShow(f())
}

// ciResolveAll resolves through every entry point; returns the direct result and a description of any disagreement.
func ciResolveAll(res fox.ClientIPResolver, h http.Header, remote string) (string, string) {
	direct := ciCall(func() (*net.IPAddr, error) {
		c := fox.NewTestContextOnly(newRecWriter(), ciReq("/x", h, remote))
		return res.ClientIP(c)
	})
	var got []string
	handler := func(c fox.Context) {
		got = append(got, ciCall(func() (*net.IPAddr, error) { return c.ClientIP() }))
	}
	diff := ""
	func() {
		defer func() {
			if p := recover(); p != nil {
				diff = "router panic: " + fmt.Sprint(p)
			}
		}()
		f, err := fox.New(fox.WithClientIPResolver(res), fox.WithNoRouteHandler(handler))
		if err != nil {
			diff = "fox.New: " + err.Error()
			return
		}
		if _, err := f.Handle("GET", "/x", handler); err != nil {
			diff = "Handle: " + err.Error()
			return
		}
		f.ServeHTTP(newRecWriter(), ciReq("/x", h, remote))
		f.ServeHTTP(newRecWriter(), ciReq("/nf", h, remote))
		g, err := fox.New()
		if err != nil {
			diff = "fox.New: " + err.Error()
			return
		}
		if _, err := g.Handle("GET", "/y", handler, fox.WithClientIPResolver(res)); err != nil {
			diff = "Handle: " + err.Error()
			return
		}
		g.ServeHTTP(newRecWriter(), ciReq("/y", h, remote))
	}()
	if diff == "" {
		if len(got) != 3 {
			diff = fmt.Sprintf("handlers ran %d times, expected 3", len(got))
		} else {
			for i, g := range got {
				if g != direct {
					diff = fmt.Sprintf("entry point %d (0 route handler, 1 no-route handler, 2 route option): %s, direct: %s", i, g, direct)
					break
				}
			}
		}
	}
	return direct, diff
}

// attacker controlled additions: lines placed before the first line, text placed in front of the first line
var ciAttackPre = [][]string{
	nil,
	{"9.9.9.9"},
	{"for=9.9.9.9", "10.0.0.1, 8.8.4.4"},
	{"junk,,", "", "127.0.0.1"},
}
var ciAttackX = []string{
	"", "9.9.9.9", "for=9.9.9.9", " 10.0.0.1 , 127.0.0.1", "junk", "for=\"[2606:4700::1]:443\";by=1.1.1.1", "1.2.3.4,,",
	"::1, fe80::1%eth0 ", "for=unknown, for=_x;proto=http", "192.168.0.1,10.0.0.1,172.16.0.1,9.9.9.9,127.0.0.1,",
}

func ciSpoofCheck(res fox.ClientIPResolver, hdr string, h http.Header, remote, base string) string {
	lines := h[hdr]
	if len(lines) == 0 || !strings.HasPrefix(base, "ok ") {
		return ""
	}
	for pi, pre := range ciAttackPre {
		for _, x := range ciAttackX {
			h2 := h.Clone()
			nl := append([]string{}, pre...)
			nl = append(nl, x+","+lines[0])
			nl = append(nl, lines[1:]...)
			h2[hdr] = nl
			got := ciCall(func() (*net.IPAddr, error) {
				c := fox.NewTestContextOnly(newRecWriter(), ciReq("/x", h2, remote))
				return res.ClientIP(c)
			})
			if got != base {
				return fmt.Sprintf("spoofable: with attacker prefix lines #%d and leading text %q the result is %s instead of %s", pi, x, got, base)
			}
		}
	}
	return ""
}

func runClientIP(fields []string) string {
	if len(fields) != 4 {
		return "I=bad-case"
	}
	rspec, hdrs, remote := fields[1], fields[2], unhx(fields[3])
	h := ciHeaders(hdrs)
	variant := hashString(rspec+hdrs)&1 == 1
	oracle := ""
	if rspec == "probe" {
		bits := ""
		for _, spec := range []string{"rnp.x.-", "rnp.x.P", "rnp.x.L", "rnp.x.K", "left.x.1.-"} {
			res, _, _, err := ciBuild(spec, false)
			if err != nil {
				return "I=cfgerr"
			}
			r, d := ciResolveAll(res, h, remote)
			if d != "" && oracle == "" {
				oracle = d
			}
			switch {
			case strings.HasPrefix(r, "ok "):
				bits += "0"
			case strings.HasPrefix(r, "err"):
				bits += "1"
			default:
				bits += "?"
			}
		}
		out := "I=probe " + bits
		if oracle != "" {
			out += "\tO=" + oracle
		}
		return out
	}
	var res fox.ClientIPResolver
	kind, hdr := "", ""
	if strings.HasPrefix(rspec, "chain:") {
		var subs []fox.ClientIPResolver
		body := rspec[len("chain:"):]
		if body != "" {
			for _, s := range strings.Split(body, "&") {
				r, _, _, err := ciBuild(s, variant)
				if err != nil {
					return "I=cfgerr"
				}
				subs = append(subs, r)
			}
		}
		res, kind = clientip.NewChain(subs...), "chain"
	} else {
		r, k, hd, err := ciBuild(rspec, variant)
		if err != nil {
			return "I=cfgerr"
		}
		res, kind, hdr = r, k, hd
	}
	direct, d := ciResolveAll(res, h, remote)
	oracle = d
	if oracle == "" && (kind == "rnp" || kind == "count" || kind == "range") {
		oracle = ciSpoofCheck(res, hdr, h, remote, direct)
	}
	if oracle == "" && kind == "range" {
		if p := strings.Split(rspec, "."); len(p) == 3 {
			if nets, err := ciRanges(p[2]); err == nil {
				oracle = ciRangeTextOracle(nets)
			}
		}
	}
	j := direct
	if strings.HasPrefix(j, "err") {
		j = "err"
	}
	out := "I=" + direct + "\tJ=" + j
	if oracle != "" {
		out += "\tO=" + oracle
	}
	return out
}

// ---------------------------------------------------------------------------------------------- gen

var ciPublic4 = []string{"8.8.8.8", "1.1.1.1", "203.0.114.1", "93.184.216.34", "192.18.0.1", "192.19.255.255", "198.17.255.255",
	"198.20.0.0", "100.128.0.1", "100.63.255.255", "172.32.0.1", "172.15.255.255", "11.0.0.1", "9.255.255.255", "192.0.1.255",
	"192.0.3.0", "223.255.255.255", "1.0.0.0", "169.253.255.255", "169.255.0.0", "128.0.0.1", "126.255.255.255"}
var ciPrivate4 = []string{"10.1.2.3", "10.0.0.0", "10.255.255.255", "192.168.1.1", "172.16.5.5", "172.31.255.255", "127.0.0.1",
	"127.255.255.255", "169.254.1.1", "100.64.0.1", "100.127.255.255", "198.18.0.1", "198.19.255.255", "0.1.2.3", "224.0.0.1",
	"239.255.255.255", "240.0.0.1", "255.255.255.255", "192.0.2.1", "198.51.100.7", "203.0.113.9", "192.88.99.1", "192.0.0.8"}
var ciUnspec = []string{"0.0.0.0", "::", "::ffff:0.0.0.0", "[::]:80", "0:0:0:0:0:0:0:0", "0.0.0.0:443", "::0", "0::", "::0.0.0.0", "::ffff:0:0"}
var ciPublic6 = []string{"2606:4700:4700::1111", "2a00:1450:4001:81b::200e", "2001:4860:4860::8888", "::ffff:8.8.8.8", "64:ff9b::808:808",
	"2001:200::1", "2003::1", "2001:db9::1", "fec0::1", "fbff::1", "1::", "2620:fe::fe", "::2", "::1:0", "1:2:3:4:5:6:7:8",
	"1:2:3:4:5:6:1.2.3.4", "::ffff:808:808", "2A00:1450:4001:81B::200E", "1::2:1.2.3.4", "0:0:0:0:0:ffff:1.1.1.1"}
var ciPrivate6 = []string{"::1", "fe80::1", "febf::1", "fc00::1", "fd12:3456::1", "ff02::1", "2001:db8::1", "2001::1", "2001:1ff::1",
	"2001:2::5", "2002:c000:204::1", "100::1", "100:0:0:0:ffff::1", "::ffff:10.0.0.1", "::ffff:127.0.0.1", "::ffff:a00:1",
	"0:0:0:0:0:0:0:1", "FE80::ABCD", "::ffff:192.168.0.1"}
var ciInvalid = []string{"", " ", "junk", "unknown", "_hidden", "1.2.3", "1.2.3.4.5", "256.1.1.1", "01.2.3.4", "1.2.3.04", "1.2.3.4:", ":1.2.3.4",
	"1.2.3.4:80:90", "[1.2.3.4]", "1::2::3", ":::", "1:2:3:4:5:6:7:8:9", "1:2:3:4:5:6:7", "12345::1", "::g", "[::1", "::1]", "[[::1]]",
	"[::1]x:80", "1.2.3.4.", ".1.2.3.4", "1..2.3", "1.2.3.4 5", "1:2:3:4:5:6:7:8::", "::1:2:3:4:5:6:7:8", "1:2:3:4:5:6:7::", "::1.2.3",
	"::1.2.3.4.5", "1:2:3:4:5:6:7:1.2.3.4", "1:2:3:4:5:1.2.3.4", "::ffff:1.2.3.4:80", "%eth0", "::1%", "::1%%a", "1.2.3.4%", "fe80::1%a%b",
	"[::1]:", "[]:80", "[]", "[", "]", ":", "::1::", "1:", ":1", "1.2.3.4/24", "::/0", "0x7f.0.0.1", "1.2.3.256", "1.2.3.-1", "١.٢.٣.٤",
	"1.2.3.4\x00", "\xff\xfe", "::ffff:1.2.3.04", "0:0:0:0:0:0:0:0:0", "::00000", "::fffff", "1:2:3:4:5:6:7:8%", "[::1]:80:90", "[::1]]:80",
	"[::1]:[80]", "a[::1]:80", "1.2.3.4]:80", "1.2.3.4[:80"}
var ciZones = []string{"eth0", "1", "a%b", "", "%", "lo0 ", "z[", "\xc2\xa0"}
var ciSpaces = []string{" ", "  ", "\t", " \t ", "\xc2\xa0", "\xe2\x80\x83", "\xe3\x80\x80", "\xc2\x85", "\x0b", "\x0c", "\r\n", "\xe1\x9a\x80", "\xe2\x80\xa8",
	"\xe2\x81\x9f", "\xc2", "\xa0", "\xe2\x80", "\xe2\x80\x8b", "\x1c", "\x00"}
var ciSingleNames = []string{"X-Real-Ip", "Cf-Connecting-Ip", "True-Client-Ip", "X-Azure-Clientip"}
var ciRangeTexts = []string{"10.0.0.0/8", "192.168.0.0/16", "8.8.8.0/24", "2606:4700::/32", "::ffff:10.0.0.0/104", "::/0", "0.0.0.0/0",
	"fe80::/10", "1.1.1.1", "2001:db8::1", "::ffff:8.8.8.8", "::ffff:0:0/96", "::ffff:0:0/90", "::ffff:8.8.0.0/112", "::/1", "8.0.0.0/7",
	"203.0.114.0/23", "2a00:1450::/29", "127.0.0.1/32", "::1/128", "::1", "255.255.255.255", "128.0.0.0/1", "172.16.0.0/12", "::ffff:0:0/95"}

func ciIsV6(s string) bool { return strings.Contains(s, ":") }

func ciAddr(r *Rng) string {
	switch r.Intn(12) {
	case 0, 1, 2:
		return Pick(r, ciPublic4)
	case 3, 4:
		return Pick(r, ciPrivate4)
	case 5, 6:
		return Pick(r, ciPublic6)
	case 7:
		return Pick(r, ciPrivate6)
	case 8:
		return Pick(r, ciUnspec)
	case 9:
		return fmt.Sprintf("%d.%d.%d.%d", r.Intn(256), r.Intn(256), r.Intn(256), r.Intn(256))
	case 10:
		g := make([]string, 8)
		for i := range g {
			g[i] = strconv.FormatInt(int64(r.Intn(65536)), 16)
		}
		s := strings.Join(g, ":")
		if r.Bool() {
			a, b := r.Intn(7), 1+r.Intn(3)
			if a+b > 8 {
				b = 8 - a
			}
			s = strings.Join(g[:a], ":") + "::" + strings.Join(g[a+b:], ":")
		}
		return s
	default:
		return Pick(r, ciPublic4)
	}
}

// ciDecorate adds ports, brackets, zones, quotes
func ciDecorate(r *Rng, a string) string {
	switch r.Intn(14) {
	case 0:
		if ciIsV6(a) {
			return "[" + a + "]:" + strconv.Itoa(r.Intn(65536))
		}
		return a + ":" + strconv.Itoa(r.Intn(65536))
	case 1:
		return "[" + a + "]"
	case 2:
		return a + "%" + Pick(r, ciZones)
	case 3:
		return "[" + a + "%" + Pick(r, ciZones) + "]:" + Pick(r, []string{"80", "", "http", "0", "99999"})
	case 4:
		return "\"" + a + "\""
	case 5:
		return "\"[" + a + "]:443\""
	case 6:
		return "[" + a + "]:"
	case 7:
		return a + ":"
	default:
		return a
	}
}

func ciMutate(r *Rng, s string) string {
	const alpha = "0123456789abcdefABCDEF:.%[]\" ,;=forFOR\t"
	b := []byte(s)
	for k := 1 + r.Intn(2); k > 0; k-- {
		switch r.Intn(3) {
		case 0:
			if len(b) > 0 {
				i := r.Intn(len(b))
				b = append(b[:i], b[i+1:]...)
			}
		case 1:
			i := r.Intn(len(b) + 1)
			b = append(b[:i], append([]byte{alpha[r.Intn(len(alpha))]}, b[i:]...)...)
		default:
			if len(b) > 0 {
				b[r.Intn(len(b))] = alpha[r.Intn(len(alpha))]
			}
		}
	}
	return string(b)
}

// ciSynthetic builds address-like text from groups and separators (mostly invalid in instructive ways)
func ciSynthetic(r *Rng) string {
	groups := []string{"", "0", "1", "ffff", "FFFF", "12345", "g", "1.2.3.4", "01", "abcd", "0000", "00000", "255", "256", "1.2.3", "10.0.0.1", "::", "%z", "0.0.0.0", "fe80", "2001", "db8"}
	var s string
	if r.Chance(35) {
		n := 1 + r.Intn(6)
		p := make([]string, n)
		for i := range p {
			p[i] = Pick(r, []string{"0", "1", "10", "255", "256", "01", "00", "", "1a", "999", "127", "192", "168", "8"})
		}
		s = strings.Join(p, ".")
	} else {
		n := 1 + r.Intn(10)
		p := make([]string, n)
		for i := range p {
			p[i] = Pick(r, groups)
		}
		s = strings.Join(p, ":")
	}
	switch r.Intn(10) {
	case 0:
		s = "[" + s + "]"
	case 1:
		s = "[" + s + "]:" + Pick(r, []string{"80", "", "x", "8:0"})
	case 2:
		s = s + "%" + Pick(r, ciZones)
	case 3:
		s = "\"" + s + "\""
	case 4:
		s = s + ":" + Pick(r, []string{"80", "", "x"})
	}
	if r.Chance(30) {
		s = ciMutate(r, s)
	}
	return s
}

func ciForwarded(r *Rng, a string) string {
	v := a
	if ciIsV6(a) && r.Chance(80) {
		v = "\"[" + a + "]" + Pick(r, []string{"", ":4711", ":"}) + "\""
	} else if r.Chance(30) {
		v = "\"" + a + "\""
	} else if r.Chance(15) {
		v = a + ":" + strconv.Itoa(r.Intn(65536))
	}
	if r.Chance(6) {
		// degenerate values: lone or unbalanced quotes and brackets, empty quoted strings, a quoted comma (the list split cuts it)
		v = Pick(r, []string{"\"", "\"\"", "[", "]", "[]", "\"[", "\"]\"", "\"[\"", "\",\"", " \" ", "\"" + a, a + "\"", "[" + a, a + "]", "\"[]\"", "\"[]:80\""})
	}
	forKey := Pick(r, []string{"for", "for", "for", "For", "FOR", "fOr", "for ", " for", "xfor", "fo", "f\xc5\xbfr", "\xe2\x84\xaafor", "by"})
	forPart := forKey + "=" + v
	if r.Chance(8) {
		forPart = forKey + " = " + v
	}
	others := []string{"by=203.0.113.43", "proto=http", "host=example.com", "by=\"[2001:db8::1]:80\"", "a=1", "b", "", "secret=x=y", "for", "by=9.9.9.9"}
	n := r.Intn(6)
	parts := []string{}
	pos := r.Intn(n + 1)
	for i := 0; i < n; i++ {
		if i == pos {
			parts = append(parts, forPart)
		}
		parts = append(parts, Pick(r, others))
	}
	if pos >= n {
		parts = append(parts, forPart)
	}
	if r.Chance(10) {
		parts = append(parts, "for="+Pick(r, ciPublic4))
	}
	sep := Pick(r, []string{";", ";", "; ", " ;", " ; "})
	return strings.Join(parts, sep)
}

func ciItem(r *Rng, fwd bool) string {
	var s string
	switch {
	case r.Chance(12):
		s = Pick(r, ciInvalid)
	default:
		s = ciDecorate(r, ciAddr(r))
	}
	if r.Chance(8) {
		s = ciMutate(r, s)
	}
	if fwd && r.Chance(88) {
		s = ciForwarded(r, s)
	} else if !fwd && r.Chance(4) {
		s = ciForwarded(r, s)
	}
	if r.Chance(25) {
		s = Pick(r, ciSpaces) + s
	}
	if r.Chance(15) {
		s = s + Pick(r, ciSpaces)
	}
	return s
}

func ciLine(r *Rng, fwd bool) string {
	n := Pick(r, []int{0, 1, 1, 1, 2, 2, 3, 3, 4, 5, 7})
	if n == 0 {
		return Pick(r, []string{"", " ", ",", ",,", " , "})
	}
	items := make([]string, n)
	for i := range items {
		items[i] = ciItem(r, fwd)
	}
	sep := Pick(r, []string{",", ", ", ", ", " , ", ",\t"})
	return strings.Join(items, sep)
}

func ciLines(r *Rng, fwd bool) []string {
	n := Pick(r, []int{0, 1, 1, 1, 1, 2, 2, 3, 4})
	ls := make([]string, n)
	for i := range ls {
		ls[i] = ciLine(r, fwd)
	}
	return ls
}

func ciOpts(r *Rng) string {
	if r.Chance(45) {
		return "-"
	}
	n := 1 + r.Intn(3)
	s := ""
	for i := 0; i < n; i++ {
		s += string("LlKkPpLKP"[r.Intn(9)])
	}
	return s
}

// ciEncodeRanges turns range texts into the numeric form of the case line. It does NOT go through the code under test:
// a prefix is read with net/netip and masked; a bare address is the range that contains only itself - 32 bits for an
// IPv4 address (also when written ::ffff:a.b.c.d), 128 bits otherwise.
func ciEncodeRanges(texts []string) string {
	if len(texts) == 0 {
		return "-"
	}
	parts := make([]string, len(texts))
	for i, t := range texts {
		var ip []byte
		var ones int
		if strings.Contains(t, "/") {
			pfx, err := netip.ParsePrefix(t)
			if err != nil {
				panic(err)
			}
			pfx = pfx.Masked()
			ones = pfx.Bits()
			if pfx.Addr().Is4() {
				b := pfx.Addr().As4()
				ip = b[:]
			} else {
				b := pfx.Addr().As16()
				ip = b[:]
			}
		} else {
			a, err := netip.ParseAddr(t)
			if err != nil {
				panic(err)
			}
			if a.Unmap().Is4() {
				b := a.Unmap().As4()
				ip, ones = b[:], 32
			} else {
				b := a.As16()
				ip, ones = b[:], 128
			}
		}
		fam := 6
		if len(ip) == 4 {
			fam = 4
		}
		parts[i] = fmt.Sprintf("%d/%s/%d", fam, hex.EncodeToString(ip), ones)
	}
	return strings.Join(parts, "+")
}

// ciRangeTextOracle: AddressesAndRangesToIPNets reads every spelling of a range as that range. The numeric ranges of the
// case are spelled out again - prefix notation, and for single addresses the bare address in its usual form, as
// ::ffff:a.b.c.d (IPv4) and with a dotted-quad tail (IPv6) - and the function must give back the numeric range.
func ciRangeTextOracle(nets []net.IPNet) string {
	for _, n := range nets {
		ones, bits := n.Mask.Size()
		texts := []string{n.IP.String() + "/" + strconv.Itoa(ones)}
		if len(n.IP) == 16 && n.IP.To4() != nil {
			texts[0] = "::ffff:" + n.IP.To4().String() + "/" + strconv.Itoa(ones)
		}
		if ones == bits {
			if bits == 32 {
				texts = append(texts, n.IP.String(), "::ffff:"+n.IP.String())
			} else if n.IP.To4() == nil {
				ip := n.IP
				texts = append(texts, ip.String(), fmt.Sprintf("%x:%x:%x:%x:%x:%x:%d.%d.%d.%d", uint16(ip[0])<<8|uint16(ip[1]), uint16(ip[2])<<8|uint16(ip[3]),
					uint16(ip[4])<<8|uint16(ip[5]), uint16(ip[6])<<8|uint16(ip[7]), uint16(ip[8])<<8|uint16(ip[9]), uint16(ip[10])<<8|uint16(ip[11]), ip[12], ip[13], ip[14], ip[15]))
			}
		}
		for _, t := range texts {
			got, err := clientip.AddressesAndRangesToIPNets(t)
			if err != nil || len(got) != 1 {
				return fmt.Sprintf("AddressesAndRangesToIPNets(%q) = %v, %v", t, got, err)
			}
			go1, gb := got[0].Mask.Size()
			if go1 != ones || gb != bits || !got[0].IP.Equal(n.IP) {
				return fmt.Sprintf("AddressesAndRangesToIPNets(%q) = %s/%d of %d bits, the text denotes %s/%d of %d bits", t, got[0].IP, go1, gb, n.IP, ones, bits)
			}
		}
	}
	return ""
}

func ciRangeSpec(r *Rng) string {
	if r.Chance(3) {
		return "!"
	}
	if r.Chance(4) {
		return "-"
	}
	n := 1 + r.Intn(4)
	texts := make([]string, n)
	for i := range texts {
		texts[i] = Pick(r, ciRangeTexts)
	}
	if r.Chance(40) {
		texts = append(texts, "10.0.0.0/8", "192.168.0.0/16", "127.0.0.1", "fc00::/7")
	}
	return ciEncodeRanges(texts)
}

// ciResolver returns a resolver spec and the header (canonical name, forwarded?) it reads ("" for remote)
func ciResolver(r *Rng) (string, string, bool) {
	k, name, fwd := "x", "X-Forwarded-For", false
	if r.Chance(40) {
		k, name, fwd = "f", "Forwarded", true
	}
	switch r.Intn(11) {
	case 0:
		return "remote", "", false
	case 1:
		n := Pick(r, ciSingleNames)
		return "single." + hx(n), n, false
	case 2, 3:
		return fmt.Sprintf("left.%s.%d.%s", k, Pick(r, []int{0, 1, 1, 2, 3, 4, 5, 8}), ciOpts(r)), name, fwd
	case 4, 5:
		return fmt.Sprintf("rnp.%s.%s", k, ciOpts(r)), name, fwd
	case 6, 7:
		return fmt.Sprintf("count.%s.%d", k, Pick(r, []int{0, 1, 1, 1, 2, 2, 3, 4, 6})), name, fwd
	default:
		return fmt.Sprintf("range.%s.%s", k, ciRangeSpec(r)), name, fwd
	}
}

func ciEncodeHeaders(hs map[string][]string, order []string) string {
	if len(order) == 0 {
		return "-"
	}
	parts := []string{}
	for _, n := range order {
		ls := make([]string, len(hs[n]))
		for i, l := range hs[n] {
			ls[i] = hx(l)
		}
		parts = append(parts, hx(n)+"="+strings.Join(ls, ","))
	}
	return strings.Join(parts, ";")
}

// ciSourceCIDRs reads every mustParseCIDR("...") literal of the clientip package under test (located through the
// replace directive recorded in the build info of this binary).
func ciSourceCIDRs() []string {
	bi, ok := debug.ReadBuildInfo()
	if !ok {
		return nil
	}
	dir := ""
	for _, d := range bi.Deps {
		if d.Path == "github.com/tigerwill90/fox" && d.Replace != nil {
			dir = d.Replace.Path
		}
	}
	if dir == "" {
		return nil
	}
	files, _ := filepath.Glob(filepath.Join(dir, "clientip", "*.go"))
	re := regexp.MustCompile(`mustParseCIDR\("([^"]+)"\)`)
	seen := map[string]bool{}
	var out []string
	for _, f := range files {
		if strings.HasSuffix(f, "_test.go") {
			continue
		}
		src, err := os.ReadFile(f)
		if err != nil {
			continue
		}
		for _, m := range re.FindAllStringSubmatch(string(src), -1) {
			if !seen[m[1]] {
				seen[m[1]] = true
				out = append(out, m[1])
			}
		}
	}
	return out
}

// hand-written blocks whose borders are always probed (independent of the source under test)
var ciProbeBlocks = []string{"0.0.0.0/8", "10.0.0.0/8", "100.64.0.0/10", "127.0.0.0/8", "169.254.0.0/16", "172.16.0.0/12", "192.0.0.0/24",
	"192.0.2.0/24", "192.88.99.0/24", "192.168.0.0/16", "198.18.0.0/15", "192.18.0.0/15", "198.51.100.0/24", "203.0.113.0/24", "224.0.0.0/4",
	"240.0.0.0/4", "8.8.8.0/24", "1.1.1.0/24", "::1/128", "fc00::/7", "fe80::/10", "ff00::/8", "2001:db8::/32", "2001::/23", "2002::/16",
	"100::/64", "64:ff9b:1::/48", "64:ff9b::/96", "2606:4700::/32", "2000::/3", "3fff::/20"}

func ciAddBig(ip net.IP, delta int) net.IP {
	out := append(net.IP{}, ip...)
	for i := len(out) - 1; i >= 0; i-- {
		v := int(out[i]) + delta
		if v < 0 {
			out[i] = byte(v + 256)
			delta = -1
		} else if v > 255 {
			out[i] = byte(v - 256)
			delta = 1
		} else {
			out[i] = byte(v)
			return out
		}
	}
	return nil // wrapped around
}

// ciProbeCases: first and last address of every range and the addresses just outside
func ciProbeCases() []string {
	var out []string
	seen := map[string]bool{}
	for _, c := range append(ciSourceCIDRs(), ciProbeBlocks...) {
		_, n, err := net.ParseCIDR(c)
		if err != nil {
			continue
		}
		first := append(net.IP{}, n.IP...)
		last := append(net.IP{}, n.IP...)
		for i := range last {
			last[i] |= ^n.Mask[i]
		}
		for _, ip := range []net.IP{first, last, ciAddBig(first, -1), ciAddBig(last, 1)} {
			if ip == nil {
				continue
			}
			s := ip.String()
			if len(ip) == 16 && ip.To4() != nil {
				s = "::ffff:" + s
			}
			if seen[s] {
				continue
			}
			seen[s] = true
			out = append(out, "clientip\tprobe\t"+hx("X-Forwarded-For")+"="+hx(s)+"\t"+hx("192.0.2.1:1234"))
		}
	}
	return out
}

// ciFixedCases: configurations at the edge of what the option types can express
func ciFixedCases() []string {
	xff := func(v string) string { return hx("X-Forwarded-For") + "=" + hx(v) }
	huge := strconv.FormatUint(math.MaxUint64, 10)
	return []string{
		// single trusted addresses written with an embedded dotted quad / as IPv4-mapped: they trust one address each
		"clientip\trange.x." + ciEncodeRanges([]string{"64:ff9b::10.0.0.1", "10.0.0.0/8"}) + "\t" + xff("9.9.9.9, 64:ff9b::5, 64:ff9b::a00:1") + "\t" + hx("192.0.2.1:1234"),
		"clientip\trange.x." + ciEncodeRanges([]string{"::ffff:10.0.0.1"}) + "\t" + xff("8.8.8.8, 10.0.0.2, 10.0.0.1") + "\t" + hx("192.0.2.1:1234"),
		"clientip\trange.x." + ciEncodeRanges([]string{"2001:db8::192.0.2.33", "2001:db8::1"}) + "\t" + xff("8.8.8.8, 2001:db8::c000:222, 2001:db8::c000:221") + "\t" + hx("192.0.2.1:1234"),
		"clientip\trnp.x.-\t" + xff("8.8.8.8, 64:ff9b::a00:1") + "\t" + hx("192.0.2.1:1234"),
		// "no limit" written as the largest value of the option's type
		"clientip\tleft.x." + huge + ".-\t" + xff("10.0.0.1, 8.8.8.8, 9.9.9.9") + "\t" + hx("192.0.2.1:1234"),
		"clientip\tleft.f." + huge + ".P\t" + hx("Forwarded") + "=" + hx("for=192.168.1.1, for=\"[2606:4700::1]\"") + "\t" + hx("192.0.2.1:1234"),
		"clientip\tleft.x.9223372036854775808.-\t" + xff("8.8.4.4") + "\t" + hx("192.0.2.1:1234"),
		"clientip\tcount.x." + huge + "\t" + xff("8.8.4.4, 1.1.1.1") + "\t" + hx("192.0.2.1:1234"),
	}
}

func genClientIP(r *Rng, tier string, n int, emit func(string)) {
	count := 0
	for _, c := range append(ciProbeCases(), ciFixedCases()...) {
		if count >= n {
			return
		}
		emit(c)
		count++
	}
	remotes := []string{"192.0.2.1:1234", "8.8.8.8:443", "[2606:4700::1]:80", "[fe80::1%eth0]:80", "@", "", "10.0.0.1", "0.0.0.0:80", "[::]:80",
		"1.2.3.4:http", "::1", "[::1]", "junk:80", "1.2.3.4:80:80", "8.8.4.4%z:1"}
	for count < n {
		hs := map[string][]string{}
		var order []string
		addHeader := func(name string, fwd bool) {
			if name == "" {
				return
			}
			if _, ok := hs[name]; ok {
				return
			}
			if r.Chance(6) {
				return // header absent
			}
			hs[name] = ciLines(r, fwd)
			order = append(order, name)
		}
		var spec string
		if r.Chance(15) {
			// entry parsing in isolation: one single-IP header (or the remote address) holding one synthetic item
			item := ciSynthetic(r)
			if r.Chance(30) {
				emit("clientip\tremote\t-\t" + hx(item))
			} else if r.Chance(50) {
				emit("clientip\tcount.f.1\t" + hx("Forwarded") + "=" + hx(Pick(r, []string{"for=", "For=\"", "by=x;for="})+item) + "\t" + hx("@"))
			} else {
				n := Pick(r, ciSingleNames)
				emit("clientip\tsingle." + hx(n) + "\t" + hx(n) + "=" + hx(item) + "\t" + hx("@"))
			}
			count++
			continue
		}
		if r.Chance(12) {
			k := 1 + r.Intn(3)
			subs := make([]string, k)
			for i := range subs {
				s, name, fwd := ciResolver(r)
				subs[i] = s
				addHeader(name, fwd)
			}
			spec = "chain:" + strings.Join(subs, "&")
		} else {
			s, name, fwd := ciResolver(r)
			spec = s
			addHeader(name, fwd)
		}
		if r.Chance(10) {
			// an unrelated header that must be ignored
			addHeader(Pick(r, []string{"X-Forwarded-For", "Forwarded", "X-Real-Ip"}), r.Bool())
		}
		remote := Pick(r, remotes)
		if r.Chance(30) {
			remote = ciDecorate(r, ciAddr(r))
		}
		emit("clientip\t" + spec + "\t" + ciEncodeHeaders(hs, order) + "\t" + hx(remote))
		count++
	}
}
