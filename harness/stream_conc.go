package main

// Stream `conc` (property C05): a case is a stress configuration
//
//	conc \t w=<txn writers>;hw=<helper writers>;r=<readers>;txn=<max ops per txn>;wn=<txns per writer>;rn=<reads per reader>;procs=<GOMAXPROCS>;seed=<n>
//
// run: N writer goroutines (multi-route transactions through Updates / Txn+Commit, ended by commit, error, explicit
// abort or panic; every write transaction also read-modify-writes the version route /__ver inside the transaction, so
// the commit order is ground truth), H helper-writer goroutines (Router.Handle / Update / Delete on a route each of
// them owns: its successful operations are versioned by its own program order) and M reader goroutines (ServeHTTP,
// Lookup, Reverse, Has, Route, Iter, View) on routes sharing tree nodes. Every call is logged with a logical clock (one
// shared atomic counter incremented before each call and after each return). The recorded history is
//   (1) checked by the Lean `checkHistory` — the harness pipes it as a `chist` case through the foxmodel driver
//       (VERIF_FOXMODEL, default <dir of this executable>/../lean/.lake/build/bin/foxmodel) — this is the verdict of record;
//   (2) checked by a Go mirror of the same algorithm whose sequential oracle is fox itself run single-threaded;
//   (3) saved under <dir of this executable>/hist/ so that it can be re-checked:  foxmodel < .build/hist/<name>.txt
// I=accepted | rejected:<reason>; any rejection, disagreement of the two checkers, panic, or goroutine that does not
// finish is reported as O=. Data races are reported by the race detector (thorough tier, -race build: exit code 66).

import (
	"bytes"
	"errors"
	"fmt"
	"net/http"
	"os"
	"os/exec"
	"path/filepath"
	"runtime"
	"sort"
	"strconv"
	"strings"
	"sync"
	"sync/atomic"
	"time"

	"github.com/tigerwill90/fox"
)

func init() {
	register(&stream{name: "conc", gen: genConc, run: runConc})
	register(&stream{name: "chist", gen: func(*Rng, string, int, func(string)) {}, run: runCHist})
}

const verPattern = "/__ver"

var concPool = []string{"/s/a", "/s/ab", "/s/abc", "/s/b/c", "/s/b/d", "/s/", "/p/{x}", "/p/{x}/e", "/q/a{x}", "/c/*{w}"}
var concProbes = []string{"/s/a", "/s/ab", "/s/abc", "/s/abd", "/s/b/c", "/s/b/c/", "/s/b/d", "/s/", "/s", "/p/v1", "/p/v1/e", "/p/v1/e/",
	"/p/", "/q/ab", "/q/a", "/c/x", "/c/x/y", "/c/", "/zz"}

type hcall struct {
	obj, kind       string
	tid             int
	call, ret       int64
	ver             int
	payload, result string
}

func (c *hcall) String() string {
	return fmt.Sprintf("%s,%d,%d,%d,%s,%d,%s,%s", c.obj, c.tid, c.call, c.ret, c.kind, c.ver, c.payload, c.result)
}

type concCfg struct {
	w, hw, r, txn, wn, rn, procs int
	seed                         uint64
}

func parseConcCfg(s string) concCfg {
	c := concCfg{w: 2, hw: 1, r: 2, txn: 3, wn: 50, rn: 200, procs: 0, seed: 1}
	for _, kv := range strings.Split(s, ";") {
		p := strings.SplitN(kv, "=", 2)
		if len(p) != 2 {
			continue
		}
		n, _ := strconv.Atoi(p[1])
		switch p[0] {
		case "w":
			c.w = n
		case "hw":
			c.hw = n
		case "r":
			c.r = n
		case "txn":
			c.txn = n
		case "wn":
			c.wn = n
		case "rn":
			c.rn = n
		case "procs":
			c.procs = n
		case "seed":
			c.seed = uint64(n)
		}
	}
	return c
}

func verOfRoute(r *fox.Route) int {
	if r == nil {
		return -1
	}
	if v, ok := r.Annotation(hidKey{}).(int); ok {
		return v
	}
	return -1
}

func hidHandler(hid int) fox.HandlerFunc {
	s := strconv.Itoa(hid)
	return func(c fox.Context) { c.Writer().Header().Set("X-Hid", s) }
}

func isVRoute(pat string) bool { return pat != verPattern && !strings.HasPrefix(pat, "/u/") }

func listAll(it fox.Iter) (ver int, listing string) {
	ver = -1
	var items []string
	for m, r := range it.All() {
		if r.Pattern() == verPattern {
			ver = verOfRoute(r)
			continue
		}
		if isVRoute(r.Pattern()) {
			items = append(items, entry(m, r))
		}
	}
	return ver, sortedJoin(items, "+")
}

type scriptOp struct {
	kind, pat string
	hid       int
}

func (o scriptOp) String() string {
	if o.kind == "D" {
		return "D:GET:" + hx(o.pat)
	}
	return o.kind + ":GET:" + hx(o.pat) + ":" + strconv.Itoa(o.hid)
}

func scriptString(ops []scriptOp) string {
	parts := make([]string, len(ops))
	for i, o := range ops {
		parts[i] = o.String()
	}
	return strings.Join(parts, "/")
}

func parseScript(s string) []scriptOp {
	var ops []scriptOp
	for _, p := range strings.Split(s, "/") {
		a := strings.Split(p, ":")
		switch {
		case len(a) == 4 && (a[0] == "H" || a[0] == "U"):
			hid, _ := strconv.Atoi(a[3])
			ops = append(ops, scriptOp{a[0], unhx(a[2]), hid})
		case len(a) == 3 && a[0] == "D":
			ops = append(ops, scriptOp{"D", unhx(a[2]), 0})
		}
	}
	return ops
}

func simpleErr(err error) string {
	switch {
	case err == nil:
		return "ok"
	case errors.Is(err, fox.ErrRouteExist):
		return "exist"
	case errors.Is(err, fox.ErrRouteNotFound):
		return "notfound"
	case errors.Is(err, fox.ErrRouteConflict):
		return "conflict"
	}
	return "err"
}

// applyScript runs the operations through a transaction and returns their results.
func applyScript(txn *fox.Txn, ops []scriptOp) string {
	res := make([]string, len(ops))
	for i, o := range ops {
		switch o.kind {
		case "H":
			_, err := txn.Handle("GET", o.pat, hidHandler(o.hid), fox.WithAnnotation(hidKey{}, o.hid))
			res[i] = simpleErr(err)
		case "U":
			_, err := txn.Update("GET", o.pat, hidHandler(o.hid), fox.WithAnnotation(hidKey{}, o.hid))
			res[i] = simpleErr(err)
		case "D":
			r, err := txn.Delete("GET", o.pat)
			if err == nil {
				res[i] = "ok:" + hidOf(r)
			} else {
				res[i] = simpleErr(err)
			}
		}
	}
	return strings.Join(res, "/")
}

func bumpVersion(txn *fox.Txn, v int) error {
	_, err := txn.Update("GET", verPattern, hidHandler(v+1), fox.WithAnnotation(hidKey{}, v+1))
	return err
}

var errAbortTxn = errors.New("abort")

type concRun struct {
	f       *fox.Router
	clock   atomic.Int64
	overlap atomic.Int64 // reads during which the published tree changed
	mu      sync.Mutex
	oracles []string
}

func (c *concRun) oracle(s string) {
	c.mu.Lock()
	if len(c.oracles) < 20 {
		c.oracles = append(c.oracles, s)
	}
	c.mu.Unlock()
}

// one write transaction of a txn-writer
func (c *concRun) writeTxn(tid int, r *Rng, ops []scriptOp) *hcall {
	h := &hcall{obj: "V", tid: tid, payload: scriptString(ops)}
	mode := r.Intn(20)
	var results string
	seen := -1
	body := func(txn *fox.Txn) error {
		seen = verOfRoute(txn.Route("GET", verPattern))
		results = applyScript(txn, ops)
		if r.Chance(25) {
			runtime.Gosched() // let other writers pile up on the lock, readers run against the old tree
		}
		switch {
		case mode == 17:
			return errAbortTxn
		case mode == 18:
			panic(injectedPanic{tid})
		}
		return bumpVersion(txn, seen)
	}
	h.call = c.clock.Add(1)
	committed := false
	switch {
	case mode < 12, mode == 17, mode == 18: // managed
		func() {
			defer func() {
				if p := recover(); p != nil {
					if _, ok := p.(injectedPanic); !ok {
						c.oracle(fmt.Sprintf("writer %d: Updates panicked: %v", tid, p))
					}
				}
			}()
			err := c.f.Updates(body)
			committed = err == nil
			if err != nil && !errors.Is(err, errAbortTxn) {
				c.oracle(fmt.Sprintf("writer %d: Updates returned %v", tid, err))
			}
		}()
	case mode < 16: // explicit commit
		txn := c.f.Txn(true)
		if err := body(txn); err != nil {
			c.oracle(fmt.Sprintf("writer %d: version bump failed: %v", tid, err))
			txn.Abort()
		} else {
			txn.Commit()
			committed = true
		}
		txn.Abort() // idempotent
	default: // explicit abort after the writes (mode 16, 19)
		txn := c.f.Txn(true)
		seen = verOfRoute(txn.Route("GET", verPattern))
		results = applyScript(txn, ops)
		if mode == 19 {
			sn := txn.Snapshot()
			txn.Abort()
			if v := verOfRoute(sn.Route("GET", verPattern)); v != seen {
				c.oracle(fmt.Sprintf("writer %d: snapshot of an aborted transaction changed its version %d -> %d", tid, seen, v))
			}
		} else {
			txn.Abort()
		}
	}
	h.ret = c.clock.Add(1)
	if committed {
		h.kind, h.ver, h.result = "W", seen+1, results
	} else {
		h.kind, h.ver, h.result = "A", 0, "v"+strconv.Itoa(seen)+"!"+results
	}
	return h
}

func (c *concRun) txnWriter(tid int, r *Rng, cfg concCfg, log *[]*hcall) {
	hid := tid * 1000000
	for i := 0; i < cfg.wn; i++ {
		n := 1 + r.Intn(max(1, cfg.txn))
		ops := make([]scriptOp, n)
		for j := range ops {
			hid++
			ops[j] = scriptOp{Pick(r, []string{"H", "H", "U", "D", "D"}), Pick(r, concPool), hid}
		}
		*log = append(*log, c.writeTxn(tid, r, ops))
		if r.Chance(20) {
			runtime.Gosched()
		}
	}
}

// helper writer: owns one route; its successful single operations are versioned by its own program order
func (c *concRun) helperWriter(tid, owner int, r *Rng, cfg concCfg, log *[]*hcall) {
	pat := "/u/" + strconv.Itoa(owner) + "/x"
	obj := "U" + strconv.Itoa(owner)
	present := false
	hid := tid * 1000000
	ver := 0
	for i := 0; i < cfg.wn; i++ {
		hid++
		var op scriptOp
		switch {
		case !present:
			op = scriptOp{"H", pat, hid}
		case r.Bool():
			op = scriptOp{"U", pat, hid}
		default:
			op = scriptOp{"D", pat, 0}
		}
		h := &hcall{obj: obj, tid: tid, kind: "W", payload: op.String()}
		h.call = c.clock.Add(1)
		switch op.kind {
		case "H":
			_, err := c.f.Handle("GET", pat, hidHandler(hid), fox.WithAnnotation(hidKey{}, hid))
			h.result = simpleErr(err)
			present = present || err == nil
		case "U":
			_, err := c.f.Update("GET", pat, hidHandler(hid), fox.WithAnnotation(hidKey{}, hid))
			h.result = simpleErr(err)
		case "D":
			rt, err := c.f.Delete("GET", pat)
			if err == nil {
				h.result = "ok:" + hidOf(rt)
				present = false
			} else {
				h.result = simpleErr(err)
			}
		}
		h.ret = c.clock.Add(1)
		ver++
		h.ver = ver
		*log = append(*log, h)
	}
}

func lkResult(r *fox.Route, tsr bool) string {
	if r == nil {
		return "none"
	}
	if tsr {
		return hidOf(r) + ":1"
	}
	return hidOf(r) + ":0"
}

func (c *concRun) reader(tid int, r *Rng, cfg concCfg, log *[]*hcall) {
	for i := 0; i < cfg.rn; i++ {
		h := &hcall{obj: "V", tid: tid, kind: "R"}
		k := r.Intn(100)
		id0 := fox.VerifTreeID(c.f)
		h.call = c.clock.Add(1)
		switch {
		case k < 18:
			p := Pick(r, concPool)
			h.payload = "has:GET:" + hx(p)
			h.result = hidOf(c.f.Route("GET", p))
		case k < 30:
			p := Pick(r, concPool)
			h.payload = "hasb:GET:" + hx(p)
			if c.f.Has("GET", p) {
				h.result = "present"
			} else {
				h.result = "none"
			}
		case k < 45:
			p := Pick(r, concProbes)
			h.payload = "lk:GET:_:" + hx(p)
			rt, cc, tsr := c.f.Lookup(foxWriter{newRecWriter()}, newReq("GET", "", p))
			if cc != nil {
				cc.Close()
			}
			h.result = lkResult(rt, tsr)
		case k < 55:
			p := Pick(r, concProbes)
			h.payload = "lk:GET:_:" + hx(p)
			h.result = lkResult(c.f.Reverse("GET", "", p))
		case k < 72:
			p := Pick(r, concProbes)
			h.payload = "srv:GET:_:" + hx(p)
			w := newRecWriter()
			c.f.ServeHTTP(w, newReq("GET", "", p))
			if v := w.h.Get("X-Hid"); v != "" && w.code != http.StatusNotFound {
				h.result = v
			} else {
				h.result = "none"
			}
		case k < 82:
			h.payload = "all"
			var v int
			var l string
			_ = c.f.View(func(txn *fox.Txn) error {
				v, l = listAll(txn.Iter())
				// inside one read-only transaction everything comes from one tree
				if v2 := verOfRoute(txn.Route("GET", verPattern)); v2 != v {
					c.oracle(fmt.Sprintf("reader %d: one View saw versions %d and %d", tid, v, v2))
				}
				return nil
			})
			h.result = "v" + strconv.Itoa(v) + "!" + l
		case k < 86:
			h.payload = "all"
			v, l := listAll(c.f.Iter())
			h.result = "v" + strconv.Itoa(v) + "!" + l
		case k < 90:
			// one sequence VALUE (Iter.Prefix over all methods from "/", which is All) shared by three goroutines and
			// ranged again afterwards, once stopped early: an Iter is a point-in-time view, every traversal of it yields
			// the same listing, whoever runs it and however often
			h.payload = "all"
			it := c.f.Iter()
			seq := it.Prefix(it.Methods(), "/")
			listSeq := func() (int, string) {
				ver := -1
				var items []string
				for m, r := range seq {
					if r.Pattern() == verPattern {
						ver = verOfRoute(r)
						continue
					}
					if isVRoute(r.Pattern()) {
						items = append(items, entry(m, r))
					}
				}
				return ver, sortedJoin(items, "+")
			}
			var sw sync.WaitGroup
			res := make([]string, 3)
			for g := 0; g < 3; g++ {
				sw.Add(1)
				go func() {
					defer sw.Done()
					defer func() {
						if p := recover(); p != nil {
							res[g] = fmt.Sprintf("panic: %v", p)
						}
					}()
					v, l := listSeq()
					res[g] = "v" + strconv.Itoa(v) + "!" + l
				}()
			}
			sw.Wait()
			for range seq {
				break
			}
			v, l := listSeq()
			h.result = "v" + strconv.Itoa(v) + "!" + l
			for g := 0; g < 3; g++ {
				if res[g] != h.result {
					c.oracle(fmt.Sprintf("reader %d: one Iter.Prefix sequence ranged by several goroutines / repeatedly gave different listings: %s vs %s", tid, clipS(res[g], 200), clipS(h.result, 200)))
				}
			}
		default:
			if cfg.hw == 0 {
				h.payload = "all"
				v, l := listAll(c.f.Iter())
				h.result = "v" + strconv.Itoa(v) + "!" + l
				break
			}
			o := r.Intn(cfg.hw)
			h.obj = "U" + strconv.Itoa(o)
			p := "/u/" + strconv.Itoa(o) + "/x"
			h.payload = "has:GET:" + hx(p)
			h.result = hidOf(c.f.Route("GET", p))
		}
		h.ret = c.clock.Add(1)
		if fox.VerifTreeID(c.f) != id0 {
			c.overlap.Add(1)
		}
		*log = append(*log, h)
	}
}

func stressTimeout() time.Duration {
	if v, err := strconv.Atoi(os.Getenv("VERIF_STRESS_TIMEOUT_S")); err == nil && v > 0 {
		return time.Duration(v) * time.Second
	}
	return 300 * time.Second
}

func runConc(fields []string) string {
	if len(fields) < 2 {
		return "I=bad-case"
	}
	cfg := parseConcCfg(fields[1])
	if cfg.procs > 0 {
		defer runtime.GOMAXPROCS(runtime.GOMAXPROCS(cfg.procs))
	}
	f, err := fox.New()
	if err != nil {
		return "I=new-failed"
	}
	c := &concRun{f: f}
	// version 0: the version route exists, nothing else
	if _, err := f.Handle("GET", verPattern, hidHandler(0), fox.WithAnnotation(hidKey{}, 0)); err != nil {
		return "I=setup-failed"
	}
	n := cfg.w + cfg.hw + cfg.r
	logs := make([][]*hcall, n+1)
	var wg sync.WaitGroup
	rng := NewRng(cfg.seed)
	start := make(chan struct{})
	for t := 0; t < n; t++ {
		tid := t + 1
		tr := rng.Fork()
		wg.Add(1)
		go func() {
			defer wg.Done()
			defer func() {
				if p := recover(); p != nil {
					c.oracle(fmt.Sprintf("goroutine %d panicked: %v", tid, p))
				}
			}()
			<-start
			switch {
			case tid <= cfg.w:
				c.txnWriter(tid, tr, cfg, &logs[tid])
			case tid <= cfg.w+cfg.hw:
				c.helperWriter(tid, tid-cfg.w-1, tr, cfg, &logs[tid])
			default:
				c.reader(tid, tr, cfg, &logs[tid])
			}
		}()
	}
	done := make(chan struct{})
	go func() { wg.Wait(); close(done) }()
	close(start)
	select {
	case <-done:
	case <-time.After(stressTimeout()):
		return "I=hang\tO=the stress run did not finish within " + stressTimeout().String() + " (goroutines blocked)"
	}
	// final observations (after every call returned): the final store is the fold of all committed transactions
	final := func(obj, payload, result string) {
		h := &hcall{obj: obj, tid: 0, kind: "R", payload: payload, result: result}
		h.call = c.clock.Add(1)
		h.ret = c.clock.Add(1)
		logs[0] = append(logs[0], h)
	}
	v, l := listAll(f.Iter())
	final("V", "all", "v"+strconv.Itoa(v)+"!"+l)
	for o := 0; o < cfg.hw; o++ {
		p := "/u/" + strconv.Itoa(o) + "/x"
		final("U"+strconv.Itoa(o), "has:GET:"+hx(p), hidOf(f.Route("GET", p)))
	}
	if fox.VerifWriterLocked(f) {
		c.oracle("the writer lock is still held after all goroutines finished")
	}
	// the log: thread by thread, program order inside a thread (final reads last)
	var all []*hcall
	for t := 1; t <= n; t++ {
		all = append(all, logs[t]...)
	}
	all = append(all, logs[0]...)
	parts := make([]string, len(all))
	for i, h := range all {
		parts[i] = h.String()
	}
	histLine := "chist\t" + strings.Join(parts, ";")
	name := "conc-" + strings.NewReplacer(";", "-", "=", "").Replace(fields[1])
	saved := saveHistory(name, histLine)

	goVerdict := checkHistoryGo(all)
	leanVerdict := checkHistoryLean(histLine)
	stats := fmt.Sprintf("calls=%d commits=%d reads-overlapping-a-commit=%d saved=%s", len(all), v, c.overlap.Load(), saved)
	out := "I=" + leanVerdict + "\tX=" + stats + " go=" + goVerdict
	if leanVerdict != "accepted" {
		c.oracle("Lean checkHistory: " + leanVerdict + " (history: " + saved + ")")
	}
	if goVerdict != "accepted" {
		c.oracle("Go mirror of checkHistory: " + goVerdict + " (history: " + saved + ")")
	}
	if len(c.oracles) > 0 {
		out += "\tO=" + strings.Join(c.oracles, " ;; ")
	}
	return out
}

func buildDir() string {
	exe, err := os.Executable()
	if err != nil {
		return "."
	}
	return filepath.Dir(exe)
}

func saveHistory(name, line string) string {
	dir := filepath.Join(buildDir(), "hist")
	if err := os.MkdirAll(dir, 0o755); err != nil {
		return "-"
	}
	p := filepath.Join(dir, name+".txt")
	if err := os.WriteFile(p, []byte(line+"\n"), 0o644); err != nil {
		return "-"
	}
	return p
}

// checkHistoryLean pipes the history through the Lean driver (stream `chist`) and returns its verdict.
func checkHistoryLean(histLine string) string {
	exe := os.Getenv("VERIF_FOXMODEL")
	if exe == "" {
		exe = filepath.Join(buildDir(), "..", "lean", ".lake", "build", "bin", "foxmodel")
	}
	cmd := exec.Command(exe)
	cmd.Stdin = strings.NewReader(histLine + "\n")
	var out, errb bytes.Buffer
	cmd.Stdout, cmd.Stderr = &out, &errb
	if err := cmd.Run(); err != nil {
		return "lean-checker-unavailable:" + strings.ReplaceAll(err.Error()+" "+errb.String(), "\t", " ")
	}
	for _, f := range strings.Split(strings.TrimSpace(out.String()), "\t") {
		if strings.HasPrefix(f, "M=") {
			return f[2:]
		}
	}
	return "lean-checker-unavailable:no verdict in " + strings.ReplaceAll(out.String(), "\t", " ")
}

// runCHist: a recorded history as a case — the Go mirror's verdict (the Lean driver prints its own for the same line).
func runCHist(fields []string) string {
	if len(fields) < 2 {
		return "I=bad-case"
	}
	var all []*hcall
	for _, p := range strings.Split(fields[1], ";") {
		a := strings.Split(p, ",")
		if len(a) != 8 {
			return "I=rejected:-:unparsable call in the history"
		}
		tid, _ := strconv.Atoi(a[1])
		call, _ := strconv.ParseInt(a[2], 10, 64)
		ret, _ := strconv.ParseInt(a[3], 10, 64)
		ver, _ := strconv.Atoi(a[5])
		all = append(all, &hcall{obj: a[0], tid: tid, call: call, ret: ret, kind: a[4], ver: ver, payload: a[6], result: a[7]})
	}
	v := checkHistoryGo(all)
	if v != "accepted" {
		v = "rejected"
	}
	return "I=" + v + "\tJ=" + v
}

// ---------------------------------------------------------------------------------------------- Go mirror of checkHistory

type hseg struct {
	ver      int
	snap     *fox.Txn
	by, next *hcall
}

func resVer(result string) (int, string, bool) {
	if strings.HasPrefix(result, "v") {
		if i := strings.IndexByte(result, '!'); i > 0 {
			v, err := strconv.Atoi(result[1:i])
			if err == nil {
				return v, result[i+1:], true
			}
		}
	}
	return 0, result, false
}

func evalQuery(snap *fox.Txn, payload string) string {
	a := strings.Split(payload, ":")
	switch a[0] {
	case "has":
		return hidOf(snap.Route(a[1], unhx(a[2])))
	case "hasb":
		if snap.Has(a[1], unhx(a[2])) {
			return "present"
		}
		return "none"
	case "lk":
		return lkResult(snap.Reverse(a[1], unhx(a[2]), unhx(a[3])))
	case "srv":
		r, tsr := snap.Reverse(a[1], unhx(a[2]), unhx(a[3]))
		if r == nil || tsr {
			return "none"
		}
		return hidOf(r)
	case "all":
		_, l := listAllAny(snap.Iter())
		return l
	}
	return "?"
}

func listAllAny(it fox.Iter) (int, string) {
	var items []string
	for m, r := range it.All() {
		items = append(items, entry(m, r))
	}
	return 0, sortedJoin(items, "+")
}

func checkHistoryGo(all []*hcall) string {
	objs := []string{}
	byObj := map[string][]*hcall{}
	for _, h := range all {
		if _, ok := byObj[h.obj]; !ok {
			objs = append(objs, h.obj)
		}
		byObj[h.obj] = append(byObj[h.obj], h)
	}
	for _, o := range objs {
		if v := checkObjectGo(byObj[o]); v != "" {
			return "rejected:" + o + ":" + v
		}
	}
	return "accepted"
}

func checkObjectGo(h []*hcall) string {
	var ws []*hcall
	for _, c := range h {
		if c.kind == "W" {
			ws = append(ws, c)
		}
	}
	sort.SliceStable(ws, func(i, j int) bool { return ws[i].ver < ws[j].ver })
	ref, err := fox.New()
	if err != nil {
		return "mirror: cannot create the reference router"
	}
	obsAt := map[int][]*hcall{}
	for _, c := range h {
		if c.kind == "A" {
			if v, _, ok := resVer(c.result); ok {
				obsAt[v] = append(obsAt[v], c)
			}
		}
	}
	evalObs := func(v int) string {
		for _, c := range obsAt[v] {
			_, want, _ := resVer(c.result)
			var got string
			_ = ref.Updates(func(txn *fox.Txn) error { got = applyScript(txn, parseScript(c.payload)); return errAbortTxn })
			if got != want {
				return fmt.Sprintf("read: thread %d call@%d aborted transaction observed %s at version %d, the specification says %s", c.tid, c.call, want, v, got)
			}
		}
		return ""
	}
	segs := []*hseg{{ver: 0, snap: ref.Txn(false)}}
	if m := evalObs(0); m != "" {
		return m
	}
	for i, w := range ws {
		if w.ver != i+1 {
			return fmt.Sprintf("writes: versions are not 1..n (position %d has version %d)", i+1, w.ver)
		}
		var got string
		_ = ref.Updates(func(txn *fox.Txn) error { got = applyScript(txn, parseScript(w.payload)); return nil })
		if got != w.result {
			return fmt.Sprintf("writes: version %d recorded %s, the specification says %s", w.ver, w.result, got)
		}
		segs[len(segs)-1].next = w
		segs = append(segs, &hseg{ver: i + 1, snap: ref.Txn(false), by: w})
		if m := evalObs(i + 1); m != "" {
			return m
		}
	}
	for i := range ws {
		for j := i + 1; j < len(ws); j++ {
			if ws[j].ret < ws[i].call {
				return "writes: the version order contradicts real time"
			}
		}
	}
	cache := map[string]string{}
	for _, c := range h {
		switch c.kind {
		case "A":
			v, _, ok := resVer(c.result)
			if !ok || v < 0 || v >= len(segs) {
				return fmt.Sprintf("read: thread %d call@%d observed a version that was never installed", c.tid, c.call)
			}
			g := segs[v]
			if (g.by != nil && g.by.call > c.ret) || (g.next != nil && c.call > g.next.ret) {
				return fmt.Sprintf("read: thread %d call@%d observed version %d outside its window", c.tid, c.call, v)
			}
		case "R":
			v, text, hasVer := resVer(c.result)
			ok := false
			for _, g := range segs {
				if hasVer && g.ver != v {
					continue
				}
				if (g.by != nil && g.by.call > c.ret) || (g.next != nil && c.call > g.next.ret) {
					continue
				}
				key := strconv.Itoa(g.ver) + "|" + c.payload
				got, hit := cache[key]
				if !hit {
					got = evalQuery(g.snap, c.payload)
					cache[key] = got
				}
				if got == text {
					ok = true
					break
				}
			}
			if !ok {
				return fmt.Sprintf("read: thread %d call@%d ret@%d returned %s which is the specification's answer at no version current during the call", c.tid, c.call, c.ret, c.result)
			}
		}
	}
	var prev *hcall
	prevVer := 0
	for _, c := range h {
		v, ok := 0, false
		if c.kind == "W" {
			v, ok = c.ver, true
		} else {
			v, _, ok = resVer(c.result)
		}
		if !ok {
			continue
		}
		if prev != nil && prev.ret < c.call && v < prevVer {
			return fmt.Sprintf("monotonicity: thread %d observed version %d after version %d", c.tid, v, prevVer)
		}
		prev, prevVer = c, v
	}
	return ""
}

// ---------------------------------------------------------------------------------------------- gen

func genConc(r *Rng, tier string, n int, emit func(string)) {
	type shape struct{ w, hw, rd, txn, procs int }
	shapes := []shape{
		{2, 1, 2, 3, 4}, {4, 1, 2, 2, 8}, {1, 1, 6, 4, 4}, {3, 2, 3, 6, 2}, {2, 0, 4, 1, 1}, {6, 2, 6, 3, 0},
	}
	ncpu := runtime.NumCPU()
	for i := 0; i < n; i++ {
		s := shapes[i%len(shapes)]
		procs := s.procs
		if procs == 0 || procs > ncpu {
			procs = ncpu
		}
		wn, rn := 400, 3000
		if tier == "thorough" {
			wn, rn = 1000, 8000
		}
		emit(fmt.Sprintf("conc\tw=%d;hw=%d;r=%d;txn=%d;wn=%d;rn=%d;procs=%d;seed=%d", s.w, s.hw, s.rd, s.txn, wn, rn, procs, r.Intn(1000000)))
	}
}

func clipS(s string, n int) string {
	if len(s) > n {
		return s[:n] + "…"
	}
	return s
}
