package main

// Stream `concparams` (properties C05, C12): concurrent requests never see each other's parameters.
//
//	concparams \t <goroutines>,<requests per goroutine>,<gomaxprocs>,<seed>
//
// G goroutines serve requests (ServeHTTP, Lookup, Reverse) on hostname routes with host and path parameters, infix
// catch-alls (which use pooled sub-contexts), ignored trailing slashes and backtracking, every request carrying its own
// unique tokens in host and path; the handler / the Lookup result must report exactly the tokens of its own request.
// One writer goroutine keeps committing unrelated routes so that trees (and their context pools) are replaced meanwhile.
// Under the race detector (thorough tier) a data race aborts the run, which the check reports.

import (
	"fmt"
	"io"
	"log"
	"net/http"
	"runtime"
	"slices"
	"strconv"
	"strings"
	"sync"
	"sync/atomic"

	"github.com/tigerwill90/fox"
)

// cpDiagA / cpDiagB send the header twice: the second call is reported by the recorder with the function it came from
var cpCountA, cpCountB atomic.Int64

func cpDiagA(c fox.Context) {
	c.Writer().WriteHeader(http.StatusNoContent)
	c.Writer().WriteHeader(http.StatusNoContent)
	cpCountA.Add(1)
}

func cpDiagB(c fox.Context) {
	c.Writer().WriteHeader(http.StatusNoContent)
	c.Writer().WriteHeader(http.StatusNoContent)
	cpCountB.Add(1)
}

type cpLog struct {
	mu sync.Mutex
	b  []byte
}

func (l *cpLog) Write(p []byte) (int, error) {
	l.mu.Lock()
	l.b = append(l.b, p...)
	l.mu.Unlock()
	return len(p), nil
}

func init() {
	register(&stream{name: "concparams", gen: genConcParams, run: runConcParams})
}

func runConcParams(fields []string) string {
	if len(fields) < 2 {
		return "I=bad-case"
	}
	a := strings.Split(fields[1], ",")
	g, _ := strconv.Atoi(a[0])
	n, _ := strconv.Atoi(a[1])
	procs, _ := strconv.Atoi(a[2])
	seed, _ := strconv.ParseUint(a[3], 10, 64)
	old := runtime.GOMAXPROCS(procs)
	defer runtime.GOMAXPROCS(old)

	// requests marked X-Wrap run on a CloneWith copy (the documented way to wrap the ResponseWriter), which is a
	// second pooled context alive at the same time and returned to the pool afterwards
	wrap := func(next fox.HandlerFunc) fox.HandlerFunc {
		return func(c fox.Context) {
			if c.Header("X-Wrap") == "" {
				next(c)
				return
			}
			cc := c.CloneWith(c.Writer(), c.Request())
			defer cc.Close()
			next(cc)
		}
	}
	f, _ := fox.New(fox.WithIgnoreTrailingSlash(true), fox.WithMiddleware(wrap))
	diag := &cpLog{}
	log.SetOutput(diag) // the superfluous-WriteHeader reports name their caller
	defer log.SetOutput(io.Discard)
	cpCountA.Store(0)
	cpCountB.Store(0)
	var bad atomic.Int64
	var first atomic.Value
	report := func(s string) {
		if bad.Add(1) == 1 {
			first.Store(s)
		}
	}
	// the handler compares what the context reports with what the request itself says (header X-Want)
	h := func(c fox.Context) {
		want := c.Header("X-Want")
		got := c.Pattern() + "|" + showParams(slices.Collect(c.Params()))
		if got != want {
			report("handler saw " + got + " want " + want)
		}
		if c.Header("X-Wrap") != "" {
			// still the same after other requests had a chance to run
			runtime.Gosched()
			if got2 := c.Pattern() + "|" + showParams(slices.Collect(c.Params())); got2 != want {
				report("handler saw " + got2 + " (second look) want " + want)
			}
			// a diagnostic path of the response writer (a superfluous WriteHeader is reported through the log package
			// with the caller's position): many requests take it at the same time, from two different functions
			if len(want)%2 == 0 {
				cpDiagA(c)
			} else {
				cpDiagB(c)
			}
		}
	}
	type rt struct{ pat string }
	routes := []string{
		"{sub}.example.com/repos/{owner}/{repo}",
		"{sub}.example.com/repos/{owner}/{repo}/",
		"{sub}.example.com/files/*{path}/raw",
		"{sub}.example.com/files/*{path}/meta/{id}",
		"api.{env}.example.com/v/{a}/x/y",
		"api.{env}.example.com/v/{a}/{b}/y",
		"api.{env}.example.com/v/{a}/{b}/{c}",
		"/plain/{x}/*{rest}",
		"/plain/{x}/*{rest}/tail",
		"/t/{tenant}/*{any}",
		"/t/{tenant}/files/*{path}/download",
	}
	for _, p := range routes {
		if _, err := f.Handle("GET", p, h); err != nil {
			return "I=setup-failed:" + err.Error()
		}
	}
	var wg sync.WaitGroup
	stop := make(chan struct{})
	// writer: keeps replacing the published tree
	wg.Add(1)
	go func() {
		defer wg.Done()
		i := 0
		for {
			select {
			case <-stop:
				return
			default:
			}
			p := "/w/" + strconv.Itoa(i%7)
			if i%2 == 0 {
				_, _ = f.Handle("GET", p, h)
			} else {
				_, _ = f.Delete("GET", "/w/"+strconv.Itoa((i-1)%7))
			}
			i++
			runtime.Gosched()
		}
	}()
	var rg sync.WaitGroup
	for t := 0; t < g; t++ {
		rg.Add(1)
		go func(t int) {
			defer rg.Done()
			r := NewRng(seed + uint64(t)*7919)
			for i := 0; i < n; i++ {
				tok := fmt.Sprintf("t%di%d", t, i)
				var host, path, want string
				switch r.Intn(10) {
				case 7:
					// a direct match that leaves a skipped alternative (the catch-all sibling of "files") on the stack
					host, path = "", "/t/n"+tok+"/files/a"+tok+"/download"
					want = routes[10] + "|" + showParams([]fox.Param{{Key: "tenant", Value: "n" + tok}, {Key: "path", Value: "a" + tok}})
				case 8:
					// the infix sub-lookups all fail (no "/download" at the end), then the catch-all sibling takes the rest
					host, path = "", "/t/n"+tok+"/files/x"+tok+"/y/z"+tok
					want = routes[9] + "|" + showParams([]fox.Param{{Key: "tenant", Value: "n" + tok}, {Key: "any", Value: "files/x" + tok + "/y/z" + tok}})
				case 9:
					host, path = "", "/t/n"+tok+"/other/"+tok
					want = routes[9] + "|" + showParams([]fox.Param{{Key: "tenant", Value: "n" + tok}, {Key: "any", Value: "other/" + tok}})
				case 0:
					host, path = "s"+tok+".example.com", "/repos/o"+tok+"/r"+tok
					want = routes[0] + "|" + showParams([]fox.Param{{Key: "sub", Value: "s" + tok}, {Key: "owner", Value: "o" + tok}, {Key: "repo", Value: "r" + tok}})
				case 1:
					// trailing slash ignored: /repos/o/r/x/ has no route; use the slash variant of route 1 through its sibling
					host, path = "s"+tok+".example.com", "/repos/o"+tok+"/r"+tok+"/"
					want = routes[1] + "|" + showParams([]fox.Param{{Key: "sub", Value: "s" + tok}, {Key: "owner", Value: "o" + tok}, {Key: "repo", Value: "r" + tok}})
				case 2:
					host, path = "s"+tok+".example.com", "/files/a"+tok+"/b"+tok+"/raw"
					want = routes[2] + "|" + showParams([]fox.Param{{Key: "sub", Value: "s" + tok}, {Key: "path", Value: "a" + tok + "/b" + tok}})
				case 3:
					host, path = "s"+tok+".example.com", "/files/a"+tok+"/meta/i"+tok
					want = routes[3] + "|" + showParams([]fox.Param{{Key: "sub", Value: "s" + tok}, {Key: "path", Value: "a" + tok}, {Key: "id", Value: "i" + tok}})
				case 4:
					// two nested backtracks below a captured parameter
					host, path = "api.e"+tok+".example.com", "/v/a"+tok+"/x/z"+tok
					want = routes[6] + "|" + showParams([]fox.Param{{Key: "env", Value: "e" + tok}, {Key: "a", Value: "a" + tok}, {Key: "b", Value: "x"}, {Key: "c", Value: "z" + tok}})
				case 5:
					host, path = "", "/plain/x"+tok+"/r"+tok+"/s"+tok+"/tail"
					want = routes[8] + "|" + showParams([]fox.Param{{Key: "x", Value: "x" + tok}, {Key: "rest", Value: "r" + tok + "/s" + tok}})
				default:
					// trailing slash added by the client on a route without it: served by ignoring it (tsr params)
					host, path = "s"+tok+".example.com", "/files/a"+tok+"/meta/i"+tok+"/"
					want = routes[3] + "|" + showParams([]fox.Param{{Key: "sub", Value: "s" + tok}, {Key: "path", Value: "a" + tok}, {Key: "id", Value: "i" + tok}})
				}
				req := newReq("GET", host, path)
				req.Header.Set("X-Want", want)
				if r.Chance(35) {
					req.Header.Set("X-Wrap", "1")
				}
				switch r.Intn(3) {
				case 0:
					f.ServeHTTP(newRecWriter(), req)
				case 1:
					rte, cc, _ := f.Lookup(foxWriter{newRecWriter()}, req)
					if rte == nil || cc == nil {
						report("Lookup found nothing for " + host + path)
					} else {
						got := rte.Pattern() + "|" + showParams(slices.Collect(cc.Params()))
						runtime.Gosched()
						got2 := rte.Pattern() + "|" + showParams(slices.Collect(cc.Params()))
						if got != want || got2 != want {
							report("Lookup saw " + got + " / " + got2 + " want " + want)
						}
						cc.Close()
					}
				default:
					rte, _ := f.Reverse("GET", host, path)
					if rte == nil || !strings.HasPrefix(want, rte.Pattern()+"|") {
						report("Reverse wrong for " + host + path)
					}
				}
			}
		}(t)
	}
	rg.Wait()
	close(stop)
	wg.Wait()
	res := "I=ok\tN=1\tT=goroutines-" + a[0]
	if bad.Load() > 0 {
		res += fmt.Sprintf("\tO=%d requests saw foreign or wrong parameters; first: %v", bad.Load(), first.Load())
	} else {
		// every superfluous WriteHeader was reported once, with the function it came from
		diag.mu.Lock()
		text := string(diag.b)
		diag.mu.Unlock()
		na := strings.Count(text, "superfluous response.WriteHeader call from main.cpDiagA ")
		nb := strings.Count(text, "superfluous response.WriteHeader call from main.cpDiagB ")
		if int64(na) != cpCountA.Load() || int64(nb) != cpCountB.Load() {
			res += fmt.Sprintf("\tO=the diagnostics of concurrent requests are mixed up: %d / %d superfluous WriteHeader calls were made from cpDiagA / cpDiagB, the log attributes %d / %d to them",
				cpCountA.Load(), cpCountB.Load(), na, nb)
		}
	}
	return res
}

func genConcParams(r *Rng, tier string, n int, emit func(string)) {
	for c := 0; c < n; c++ {
		g := Pick(r, []int{4, 8, 16, 32})
		reqs := 1500
		if tier == "thorough" {
			reqs = 6000
		}
		emit(fmt.Sprintf("concparams\t%d,%d,%d,%d", g, reqs, Pick(r, []int{2, 4, 8, 16}), r.Next()%1000000))
	}
}
