package main

// Stream `concroute` (property C05, implementation only): the single-operation helpers Router.Handle / Update / Delete /
// Route contending for ONE (method, pattern) key.
//
//	concroute \t <goroutines>,<ops per goroutine>,<rounds>,<GOMAXPROCS>,<seed>
//
// Every round uses a fresh key. Each goroutine issues a short random sequence of Handle(hid) / Update(hid) / Delete /
// Route calls on it (hid = a globally unique number carried as the route's annotation), stamped with a logical clock.
// The object is tiny - "absent or the hid of the registered route" - so the round's history (at most 16 calls) is decided
// EXACTLY by a Wing-Gong search: is there a total order of the calls that respects real time in which every call
// returns what the sequential map returns (Handle: ok | exist; Update: ok | notfound; Delete: the hid removed | notfound;
// Route: the hid | none)? A helper that reads the route outside the writer lock, or commits a stale tree, fails here.

import (
	"errors"
	"fmt"
	"runtime"
	"strconv"
	"strings"
	"sync"
	"sync/atomic"

	"github.com/tigerwill90/fox"
)

func init() {
	register(&stream{name: "concroute", gen: genConcRoute, run: runConcRoute})
}

type crCall struct {
	call, ret int64
	kind      byte // H U D R
	arg       int  // hid written
	res       int  // H/U: 1 ok, 0 refused; D/R: hid or 0
}

func genConcRoute(r *Rng, tier string, n int, emit func(string)) {
	for c := 0; c < n; c++ {
		rounds := 150
		if tier == "thorough" {
			rounds = 1500
		}
		emit(fmt.Sprintf("concroute\t%d,%d,%d,%d,%d", 2+r.Intn(3), 3+r.Intn(2), rounds, Pick(r, []int{2, 4, 8, 16}), r.Intn(1<<30)))
	}
}

type crHidKey struct{}

func crHid(rt *fox.Route) int {
	if rt == nil {
		return 0
	}
	v, _ := rt.Annotation(crHidKey{}).(int)
	return v
}

// crLinearizable: Wing-Gong search with memoisation over (set of linearized calls, state)
func crLinearizable(h []crCall) bool {
	n := len(h)
	type key struct {
		mask  uint32
		state int
	}
	dead := map[key]bool{}
	var rec func(mask uint32, state int) bool
	rec = func(mask uint32, state int) bool {
		if mask == uint32(1)<<uint(n)-1 {
			return true
		}
		k := key{mask, state}
		if dead[k] {
			return false
		}
		// a call may be linearized next only if no other pending call returned before it was called
		minRet := int64(1) << 62
		for i := 0; i < n; i++ {
			if mask&(1<<uint(i)) == 0 && h[i].ret < minRet {
				minRet = h[i].ret
			}
		}
		for i := 0; i < n; i++ {
			if mask&(1<<uint(i)) != 0 || h[i].call > minRet {
				continue
			}
			c := h[i]
			ok, next := false, state
			switch c.kind {
			case 'H':
				if state == 0 {
					ok, next = c.res == 1, c.arg
				} else {
					ok = c.res == 0
				}
			case 'U':
				if state != 0 {
					ok, next = c.res == 1, c.arg
				} else {
					ok = c.res == 0
				}
			case 'D':
				ok, next = c.res == state, 0
			case 'R':
				ok = c.res == state
			}
			if ok && rec(mask|1<<uint(i), next) {
				return true
			}
		}
		dead[k] = true
		return false
	}
	return rec(0, 0)
}

func runConcRoute(fields []string) string {
	if len(fields) != 2 {
		return "I=bad-case"
	}
	a := strings.Split(fields[1], ",")
	if len(a) != 5 {
		return "I=bad-case"
	}
	g, _ := strconv.Atoi(a[0])
	per, _ := strconv.Atoi(a[1])
	rounds, _ := strconv.Atoi(a[2])
	procs, _ := strconv.Atoi(a[3])
	seed, _ := strconv.Atoi(a[4])
	if g*per > 16 {
		per = 16 / g
	}
	defer runtime.GOMAXPROCS(runtime.GOMAXPROCS(procs))
	f, err := fox.New()
	if err != nil {
		return "I=setup-error"
	}
	// neighbours sharing nodes with the contended keys
	for _, p := range []string{"/cr/0/x", "/cr/{a}/y", "/cr/"} {
		if _, err := f.Handle("GET", p, okHandler); err != nil {
			return "I=setup-error"
		}
	}
	// ... and 150 more siblings with first bytes from the whole byte alphabet: the contended keys hang below a node whose
	// edges are searched by bisection, with index sums above 128
	nw := 0
	for b := 1; b < 256 && nw < 150; b++ {
		if strings.IndexByte("/*{}k0", byte(b)) >= 0 {
			continue
		}
		if _, err := f.Handle("GET", "/cr/"+string([]byte{byte(b)})+"q", okHandler); err != nil {
			return "I=setup-error"
		}
		nw++
	}
	var clock atomic.Int64
	var hidSeq atomic.Int64
	overlapped := 0
	var bad []string
	for round := 0; round < rounds && len(bad) == 0; round++ {
		pat := "/cr/k" + itoa(round) + "/z"
		logs := make([][]crCall, g)
		var wg sync.WaitGroup
		start := make(chan struct{})
		for t := 0; t < g; t++ {
			wg.Add(1)
			go func(t int) {
				defer wg.Done()
				rng := NewRng(uint64(seed)*1000003 + uint64(round)*131 + uint64(t))
				<-start
				for i := 0; i < per; i++ {
					c := crCall{}
					switch rng.Intn(7) {
					case 0, 1:
						c.kind, c.arg = 'H', int(hidSeq.Add(1))
					case 2, 3:
						c.kind, c.arg = 'U', int(hidSeq.Add(1))
					case 4, 5:
						c.kind = 'D'
					default:
						c.kind = 'R'
					}
					c.call = clock.Add(1)
					switch c.kind {
					case 'H':
						_, err := f.Handle("GET", pat, okHandler, fox.WithAnnotation(crHidKey{}, c.arg))
						if err == nil {
							c.res = 1
						} else if !errors.Is(err, fox.ErrRouteExist) {
							c.res = -1
						}
					case 'U':
						_, err := f.Update("GET", pat, okHandler, fox.WithAnnotation(crHidKey{}, c.arg))
						if err == nil {
							c.res = 1
						} else if !errors.Is(err, fox.ErrRouteNotFound) {
							c.res = -1
						}
					case 'D':
						rt, err := f.Delete("GET", pat)
						if err == nil {
							c.res = crHid(rt)
						} else if !errors.Is(err, fox.ErrRouteNotFound) {
							c.res = -1
						}
					case 'R':
						c.res = crHid(f.Route("GET", pat))
					}
					c.ret = clock.Add(1)
					logs[t] = append(logs[t], c)
				}
			}(t)
		}
		close(start)
		wg.Wait()
		var h []crCall
		for _, l := range logs {
			h = append(h, l...)
		}
		for i := range h {
			for j := range h {
				if i != j && h[i].call < h[j].ret && h[j].call < h[i].ret {
					overlapped++
					break
				}
			}
		}
		if !crLinearizable(h) {
			var sb []string
			for t, l := range logs {
				for _, c := range l {
					sb = append(sb, fmt.Sprintf("t%d:%c(%d)=%d@%d-%d", t, c.kind, c.arg, c.res, c.call, c.ret))
				}
			}
			bad = append(bad, "round "+itoa(round)+": no sequential order of the calls on GET "+pat+" explains their results: "+strings.Join(sb, " "))
		}
		// the neighbours are untouched
		if f.Route("GET", "/cr/0/x") == nil || f.Route("GET", "/cr/{a}/y") == nil || f.Route("GET", "/cr/") == nil {
			bad = append(bad, "round "+itoa(round)+": a neighbouring route disappeared")
		}
		_, _ = f.Delete("GET", pat)
	}
	res := "I=ok\tT=concroute"
	if overlapped > 0 {
		res += ",calls-overlapped"
	}
	res += "\tN=1"
	if len(bad) > 0 {
		res = "I=bad\tT=concroute\tN=1\tO=" + strings.Join(bad, "; ")
	}
	return res
}
