package main

// Stream `concversions` (properties C03, C05): every request is answered from ONE committed routing state.
//
//	concversions \t <readers>,<requests per reader>,<gomaxprocs>,<seed>
//
// A writer cycles the router through a fixed list of route sets V0, V1, … (each step is ONE write transaction that
// deletes / registers / updates several routes, so that patterns move between methods atomically), with the
// method-not-allowed and automatic OPTIONS answers enabled. Before the race starts the answer of every probe request
// (status, sorted Allow set, handler identity, Location) is computed single-threaded on a fresh router for each Vi.
// Readers then serve the probes concurrently (ServeHTTP; Router.Lookup; Router.Reverse; Iter over a snapshot): every
// answer must be the answer of some Vi. An answer that no committed state can produce (e.g. a 404 for a path that every
// state serves or answers 405, or an Allow list mixing two states) means the request saw two states.
// Model-free oracle; the Lean side is not involved (impl_only). Under the race detector (thorough tier) a data race
// aborts the run, which the check reports.

import (
	"errors"
	"fmt"
	"runtime"
	"slices"
	"sort"
	"strconv"
	"strings"
	"sync"
	"sync/atomic"

	"github.com/tigerwill90/fox"
)

func init() {
	register(&stream{name: "concversions", gen: genConcVersions, run: runConcVersions})
}

type cvRoute struct {
	method, pattern string
	flags           int
}

// every version registers the same number of patterns per path family but under different methods
var cvVersions = [][]cvRoute{
	{{"GET", "/x", 0}, {"PUT", "/x", 0}, {"GET", "/p/{id}", 0}, {"DELETE", "/only", 0}, {"GET", "/ts/", 1}},
	{{"POST", "/x", 0}, {"GET", "/y", 0}, {"PUT", "/p/{id}", 0}, {"DELETE", "/only", 0}, {"POST", "/ts/", 1}},
	{{"GET", "/x", 0}, {"POST", "/x", 0}, {"PATCH", "/p/{id}", 0}, {"DELETE", "/only", 0}, {"GET", "/ts/", 2}},
	{{"FOO", "/x", 0}, {"GET", "/y", 0}, {"GET", "/p/{id}", 0}, {"GET", "/p/{id}/e", 0}, {"DELETE", "/only", 0}},
}

type cvProbe struct{ method, path string }

var cvProbes = []cvProbe{
	{"GET", "/x"}, {"POST", "/x"}, {"PUT", "/x"}, {"OPTIONS", "/x"}, {"DELETE", "/x"}, {"FOO", "/x"},
	{"GET", "/y"}, {"POST", "/y"}, {"OPTIONS", "/y"},
	{"GET", "/p/7"}, {"PUT", "/p/7"}, {"PATCH", "/p/7"}, {"OPTIONS", "/p/7"}, {"GET", "/p/7/e"}, {"POST", "/p/7/e"},
	{"GET", "/only"}, {"OPTIONS", "/only"}, {"OPTIONS", "*"},
	{"GET", "/ts"}, {"POST", "/ts"}, {"PUT", "/ts"}, {"OPTIONS", "/ts"},
}

func cvHandler(tag string) fox.HandlerFunc {
	return func(c fox.Context) {
		c.Writer().Header().Set("X-Handler", tag)
		c.Writer().WriteHeader(200)
	}
}

func cvOpts(flags int) []fox.RouteOption {
	switch flags {
	case 1:
		return []fox.RouteOption{fox.WithIgnoreTrailingSlash(true)}
	case 2:
		return []fox.RouteOption{fox.WithRedirectTrailingSlash(true)}
	}
	return nil
}

func cvAnswer(f *fox.Router, p cvProbe) string {
	w := newRecWriter()
	f.ServeHTTP(w, newReq(p.method, "", p.path))
	allow := strings.Split(w.h.Get("Allow"), ", ")
	sort.Strings(allow)
	return strconv.Itoa(w.code) + " allow=" + strings.Join(allow, "+") + " h=" + w.h.Get("X-Handler") + " loc=" + w.h.Get("Location")
}

func cvReverse(f *fox.Router, p cvProbe) string {
	r, tsr := f.Reverse(p.method, "", p.path)
	if r == nil {
		return "none"
	}
	return r.Pattern() + ":" + strconv.FormatBool(tsr)
}

// cvApply moves router f from version `from` to version `to` in ONE write transaction
func cvApply(f *fox.Router, from, to int) error {
	// the methods of the version being left, for the Truncate variants (a custom verb loses its root altogether)
	var methods []string
	if from >= 0 {
		for _, r := range cvVersions[from] {
			if !slices.Contains(methods, r.method) {
				methods = append(methods, r.method)
			}
		}
	}
	variant := 0
	if from >= 0 {
		variant = (from + to) % 3
	}
	if variant == 2 {
		// a transaction that truncates as its first write and is then rolled back: nothing of it may ever be visible
		errAbort := errors.New("abort")
		if err := f.Updates(func(txn *fox.Txn) error {
			if err := txn.Truncate(methods...); err != nil {
				return err
			}
			return errAbort
		}); !errors.Is(err, errAbort) {
			return fmt.Errorf("aborted transaction: %v", err)
		}
	}
	return f.Updates(func(txn *fox.Txn) error {
		if from >= 0 && variant == 1 {
			// Truncate(methods...) as the FIRST write of the transaction
			if err := txn.Truncate(methods...); err != nil {
				return err
			}
		} else if from >= 0 {
			for _, r := range cvVersions[from] {
				if _, err := txn.Delete(r.method, r.pattern); err != nil {
					return err
				}
			}
		}
		for _, r := range cvVersions[to] {
			if _, err := txn.Handle(r.method, r.pattern, cvHandler(r.method+" "+r.pattern+"@"+strconv.Itoa(to)), cvOpts(r.flags)...); err != nil {
				return err
			}
		}
		return nil
	})
}

func runConcVersions(fields []string) string {
	if len(fields) < 2 {
		return "I=bad-case"
	}
	a := strings.Split(fields[1], ",")
	if len(a) < 4 {
		return "I=bad-case"
	}
	g, _ := strconv.Atoi(a[0])
	n, _ := strconv.Atoi(a[1])
	procs, _ := strconv.Atoi(a[2])
	seed, _ := strconv.ParseUint(a[3], 10, 64)
	old := runtime.GOMAXPROCS(procs)
	defer runtime.GOMAXPROCS(old)
	opts := []fox.GlobalOption{fox.WithNoMethod(true), fox.WithAutoOptions(true)}

	// the answers every committed state can give, computed single-threaded on fresh routers
	okServe := make([]map[string]bool, len(cvProbes))
	okRev := make([]map[string]bool, len(cvProbes))
	for i := range cvProbes {
		okServe[i], okRev[i] = map[string]bool{}, map[string]bool{}
	}
	for v := range cvVersions {
		ref, err := fox.New(opts...)
		if err != nil {
			return "I=new-failed"
		}
		if err := cvApply(ref, -1, v); err != nil {
			return "I=setup-error\tO=version " + strconv.Itoa(v) + " cannot be registered: " + err.Error()
		}
		for i, p := range cvProbes {
			// the handler tag carries the version: strip it for the comparison of identities across laps
			okServe[i][cvAnswer(ref, p)] = true
			okRev[i][cvReverse(ref, p)] = true
		}
	}

	f, err := fox.New(opts...)
	if err != nil {
		return "I=new-failed"
	}
	if err := cvApply(f, -1, 0); err != nil {
		return "I=setup-error\tO=" + err.Error()
	}
	var bad atomic.Int64
	var first atomic.Value
	report := func(s string) {
		if bad.Add(1) == 1 {
			first.Store(s)
		}
	}
	var stop atomic.Bool
	var commits atomic.Int64
	var wg, wwg sync.WaitGroup
	wwg.Add(1)
	go func() {
		defer wwg.Done()
		cur := 0
		for !stop.Load() {
			next := (cur + 1) % len(cvVersions)
			if err := cvApply(f, cur, next); err != nil {
				report("writer: " + err.Error())
				return
			}
			cur = next
			commits.Add(1)
			runtime.Gosched()
		}
	}()
	for gi := 0; gi < g; gi++ {
		wg.Add(1)
		go func(gi int) {
			defer wg.Done()
			rng := NewRng(seed + uint64(gi)*104729)
			for j := 0; j < n; j++ {
				i := rng.Intn(len(cvProbes))
				p := cvProbes[i]
				switch rng.Intn(4) {
				case 0:
					if got := cvReverse(f, p); !okRev[i][got] {
						report(fmt.Sprintf("Reverse %s %s = %s: no committed state gives this answer", p.method, p.path, got))
					}
				default:
					if got := cvAnswer(f, p); !okServe[i][got] {
						report(fmt.Sprintf("ServeHTTP %s %s = [%s]: no committed state gives this answer (possible: %s)", p.method, p.path, got, cvKeys(okServe[i])))
					}
				}
			}
		}(gi)
	}
	wg.Wait()
	stop.Store(true)
	wwg.Wait()
	res := "I=ok\tT=versions"
	if commits.Load() > 0 {
		res += ",commits-overlapped"
	}
	if bad.Load() > 0 {
		res = "I=torn\tT=versions\tO=" + strconv.FormatInt(bad.Load(), 10) + " answers from no single committed state; first: " + first.Load().(string)
	}
	return res
}

func cvKeys(m map[string]bool) string {
	var ks []string
	for k := range m {
		ks = append(ks, "["+k+"]")
	}
	sort.Strings(ks)
	return strings.Join(ks, " ")
}

func genConcVersions(r *Rng, tier string, n int, emit func(string)) {
	for c := 0; c < n; c++ {
		g, per := 4+r.Intn(5), 4000
		if tier == "thorough" {
			per = 20000
		}
		emit(fmt.Sprintf("concversions\t%d,%d,%d,%d", g, per, Pick(r, []int{2, 4, 8, 16}), r.Intn(1<<30)))
	}
}
