package main

// stream `ctx` (property C12): tagged requests. Every observable field of request k carries token t<k>z (path, host,
// params, query, request header, response header set by the handler, status, body size); every handler checks every
// getter of its Context against the token of its own request. Shapes: direct / ignored trailing slash / redirect / 404 /
// 405 / OPTIONS / hostname route / hijack / manual Lookup (router, txn) / CloneWith / Clone, with the routing tree
// replaced between requests. Clones are kept and inspected again after all later requests ran on the recycled original.
//
//	ctx <TAB> <op>;<op>;…            (see lean/FoxModel/Driver/Ctx.lean for the letters)
//	ctx <TAB> conc:<goroutines>:<ops per goroutine>:<seed>

import (
	"bufio"
	"context"
	"errors"
	"fmt"
	"net"
	"net/http"
	"runtime"
	"strconv"
	"strings"
	"sync"

	"github.com/tigerwill90/fox"
)

func init() { register(&stream{name: "ctx", gen: genCtx, run: runCtx}) }

// ---------------------------------------------------------------- generator

const ctxOps = "ddiirnmovvhltLWwcITMM"

func genCtx(r *Rng, tier string, n int, emit func(string)) {
	for c := 0; c < n; c++ {
		if c%25 == 24 {
			g, per := 4, 40
			if tier == "thorough" {
				g, per = 8, 150
			}
			emit(fmt.Sprintf("ctx\tconc:%d:%d:%d", g, per, r.Intn(1<<30)))
			continue
		}
		k := 4 + r.Intn(14)
		ops := make([]string, k)
		// half of the cases run on a tree without any hostname route (op V registers it): the matcher then skips the
		// hostname stage, which otherwise resets the trailing-slash buffers of the recycled context on every request
		withHost := r.Chance(50)
		for i := range ops {
			ops[i] = string(ctxOps[r.Intn(len(ctxOps))])
			if (ops[i] == "v" || ops[i] == "M") && !withHost {
				ops[i] = "i"
			}
		}
		if withHost {
			ops[r.Intn(1+k/3)] = "V"
		}
		emit("ctx\t" + strings.Join(ops, ";"))
	}
}

// ---------------------------------------------------------------- per request state

func ctxTok(k int) string { return "t" + itoa(k) + "z" }
func ctxStatus(k int) int { return 200 + k%57 }

// ctxIPOfTok: the client address the test resolver reports for the request carrying token tok ("t<k>z")
func ctxIPOfTok(tok string) *net.IPAddr {
	k, _ := strconv.Atoi(strings.TrimSuffix(strings.TrimPrefix(tok, "t"), "z"))
	return &net.IPAddr{IP: net.IPv4(10, byte(k>>16), byte(k>>8), byte(k))}
}

func ctxBodySize(k int) int   { return 1 + k%5 }
func ctxBody(k int) []byte    { return []byte(strings.Repeat("b", ctxBodySize(k))) }
func ctxHostFor(k int) string { return "x" + ctxTok(k) + ".test" }

type ctxProbe struct {
	mu       sync.Mutex
	k        int
	op       byte
	method   string
	host     string
	path     string
	scope    fox.HandlerScope
	pattern  string
	params   string // expected "k=v&k=v" or "-"
	view     string // what the first handler of the request saw
	sub      string // view of the CloneWith copy / of the clone at creation
	clone    fox.Context
	bad      []string
	ctxID    uintptr
	handlers int
	run      *ctxRun
	pushRec  *recWriter // set when the request was served on a writer that supports (pushMode 1) or lacks (2) http.Pusher
	pushMode int
}

func (p *ctxProbe) fail(format string, a ...any) {
	p.mu.Lock()
	if len(p.bad) < 4 {
		p.bad = append(p.bad, fmt.Sprintf("op %d(%c): ", p.k, p.op)+fmt.Sprintf(format, a...))
	}
	p.mu.Unlock()
}

type ctxProbeKey struct{}

func ctxProbeOf(c fox.Context) *ctxProbe {
	if c.Request() == nil {
		return nil
	}
	p, _ := c.Request().Context().Value(ctxProbeKey{}).(*ctxProbe)
	return p
}

func ctxShowParams(c fox.Context) string {
	var parts []string
	for p := range c.Params() {
		parts = append(parts, p.Key+"="+p.Value)
	}
	if len(parts) == 0 {
		return "-"
	}
	return strings.Join(parts, "&")
}

func ctxShowView(c fox.Context) string {
	pat := c.Pattern()
	if c.Route() == nil {
		pat = "-"
	}
	q := c.QueryParam("q")
	if q == "" {
		q = "-"
	}
	w := c.Writer()
	wr := "0"
	if w.Written() {
		wr = "1"
	}
	return itoa(int(c.Scope())) + "," + pat + "," + ctxShowParams(c) + "," + q + "," + itoa(w.Status()) + "." + itoa(w.Size()) + "." + wr
}

// checkAll compares every getter with what request p carries
func (p *ctxProbe) checkAll(c fox.Context, tok, method, host, path string, wantStatus int, wantWritten bool) {
	if got := c.Path(); got != path {
		p.fail("Path()=%q want %q", got, path)
	}
	if got := c.Host(); got != host {
		p.fail("Host()=%q want %q", got, host)
	}
	if got := c.Method(); got != method {
		p.fail("Method()=%q want %q", got, method)
	}
	if got := c.Header("X-Tok"); got != tok {
		p.fail("Header(X-Tok)=%q want %q", got, tok)
	}
	if req := c.Request(); req == nil || req.Header.Get("X-Tok") != tok || req.URL.Path != path {
		p.fail("Request() is not the current request")
	}
	if got := c.QueryParam("q"); got != tok {
		p.fail("QueryParam(q)=%q want %q", got, tok)
	}
	// the resolver derives the address from a header of the CURRENT request; asked twice (a memoised answer must belong
	// to this request too)
	for i := 0; i < 2; i++ {
		if ip, err := c.ClientIP(); err != nil || ip == nil || ip.String() != ctxIPOfTok(tok).String() {
			p.fail("ClientIP()=%v,%v want %s", ip, err, ctxIPOfTok(tok))
		}
	}
	if got := c.QueryParams().Get("q"); got != tok {
		p.fail("QueryParams().Get(q)=%q want %q", got, tok)
	}
	if got := c.Scope(); got != p.scope {
		p.fail("Scope()=%d want %d", got, p.scope)
	}
	if p.pattern == "" {
		if c.Route() != nil || c.Pattern() != "" {
			p.fail("Route()/Pattern() = %q in a non-route handler", c.Pattern())
		}
	} else {
		if c.Route() == nil || c.Pattern() != p.pattern || c.Route().Pattern() != p.pattern {
			p.fail("Pattern()=%q want %q", c.Pattern(), p.pattern)
		}
	}
	if got := ctxShowParams(c); got != p.params {
		p.fail("Params()=%q want %q", got, p.params)
	}
	if p.params != "-" {
		if got := c.Param("id"); got != ctxTok(p.k) {
			p.fail("Param(id)=%q want %q", got, ctxTok(p.k))
		}
	} else if got := c.Param("id"); got != "" {
		p.fail("Param(id)=%q in a handler without parameters", got)
	}
	w := c.Writer()
	if w == nil {
		p.fail("Writer() is nil")
		return
	}
	// an optional capability is that of the CURRENT request's writer: a push reaches this request's connection, or is
	// refused when this connection cannot push - whatever writer the recycled context served before
	switch p.pushMode {
	case 1:
		n0 := len(p.pushRec.events)
		if err := w.Push("/pushed/"+tok, nil); err != nil || len(p.pushRec.events) != n0+1 || p.pushRec.events[n0] != "push:/pushed/"+tok {
			p.fail("Push on a writer that supports it: err=%v, recorded by this request's writer: %v", err, p.pushRec.events[n0:])
		}
	case 2:
		if err := w.Push("/pushed/"+tok, nil); !errors.Is(err, http.ErrNotSupported) {
			p.fail("Push on a writer without http.Pusher: err=%v, want ErrNotSupported", err)
		}
	}
	if w.Status() != wantStatus || w.Written() != wantWritten || (!wantWritten && w.Size() != 0) {
		p.fail("Writer() status/size/written = %d/%d/%v want %d/-/%v", w.Status(), w.Size(), w.Written(), wantStatus, wantWritten)
	}
}

// ---------------------------------------------------------------- writers

type ctxHijackWriter struct{ *recWriter }

// ctxPushWriter supports HTTP/2 push and records the targets on the recWriter of ITS request
type ctxPushWriter struct{ *recWriter }

func (h ctxPushWriter) Push(target string, _ *http.PushOptions) error {
	h.events = append(h.events, "push:"+target)
	return nil
}

func (h ctxHijackWriter) Hijack() (net.Conn, *bufio.ReadWriter, error) {
	a, b := net.Pipe()
	b.Close()
	return a, bufio.NewReadWriter(bufio.NewReader(a), bufio.NewWriter(a)), nil
}

// ---------------------------------------------------------------- router under test

type ctxRun struct {
	r       *fox.Router
	mu      sync.Mutex
	ids     map[uintptr]int
	clones  []*ctxProbe
	extra   int
	oracle  []string
	viewsMu sync.Mutex
}

func (run *ctxRun) seen(id uintptr) {
	if id == 0 {
		return
	}
	run.mu.Lock()
	run.ids[id]++
	run.mu.Unlock()
}

func (run *ctxRun) reused() bool {
	run.mu.Lock()
	defer run.mu.Unlock()
	for _, n := range run.ids {
		if n > 1 {
			return true
		}
	}
	return false
}

// the checker runs first in every kind of handler
func ctxChecker(next fox.HandlerFunc) fox.HandlerFunc {
	return func(c fox.Context) {
		p := ctxProbeOf(c)
		if p == nil {
			next(c)
			return
		}
		p.handlers++
		p.ctxID = fox.VerifCtxID(c)
		p.run.seen(p.ctxID)
		p.checkAll(c, ctxTok(p.k), p.method, p.host, p.path, 200, false)
		if got := c.Writer().Header().Get("X-Resp"); got != "" {
			p.fail("response header X-Resp=%q before the handler set it", got)
		}
		p.view = ctxShowView(c)
		next(c)
	}
}

type ctxNoQKey struct{}

// ctxNoQueryHandler serves a request that has no query string, twice asks for its (empty) query values, and then writes
// into the returned map as handlers do to pass defaults on; the next such request must start empty again. The complaint
// goes into the string the request carries in its context (requests of this kind run concurrently in the conc cases).
func ctxNoQueryHandler(c fox.Context) {
	bad, _ := c.Request().Context().Value(ctxNoQKey{}).(*string)
	for i := 0; i < 2; i++ {
		if q := c.QueryParams(); len(q) != 0 || c.QueryParam("page") != "" || c.QueryParam("q") != "" {
			if bad != nil {
				*bad = fmt.Sprintf("a request without query string sees query values %v", q)
			}
		}
	}
	c.QueryParams().Set("page", c.Param("id"))
	c.QueryParams().Add("q", "left-behind")
	c.Writer().WriteHeader(204)
}

func ctxRouteHandler(c fox.Context) {
	p := ctxProbeOf(c)
	if p == nil {
		c.Writer().WriteHeader(500)
		return
	}
	tok := ctxTok(p.k)
	if p.op == 'h' {
		conn, _, err := c.Writer().Hijack()
		if err != nil {
			p.fail("Hijack: %v", err)
			return
		}
		conn.Close()
		return
	}
	c.SetHeader("X-Resp", tok)
	c.Writer().WriteHeader(ctxStatus(p.k))
	_, _ = c.Writer().Write(ctxBody(p.k))
	w := c.Writer()
	if w.Status() != ctxStatus(p.k) || w.Size() != ctxBodySize(p.k) || !w.Written() {
		p.fail("after writing: status/size/written = %d/%d/%v want %d/%d/true", w.Status(), w.Size(), w.Written(), ctxStatus(p.k), ctxBodySize(p.k))
	}
	switch p.op {
	case 'w':
		k2 := p.k + 100000
		p2 := &ctxProbe{k: p.k, op: 'w', scope: p.scope, pattern: p.pattern, params: p.params, run: p.run}
		req2, w2 := ctxRequest(p2, k2, "PUT", "/cw/"+ctxTok(k2)), foxWriter{newRecWriter()}
		cp := c.CloneWith(w2, req2)
		p.run.seen(fox.VerifCtxID(cp))
		p2.checkAll(cp, ctxTok(k2), "PUT", ctxHostFor(k2), "/cw/"+ctxTok(k2), 0, false)
		if cp.Writer() != fox.ResponseWriter(w2) {
			p.fail("CloneWith: Writer() is not the writer passed in")
		}
		p.sub = ctxShowView(cp)
		p.bad = append(p.bad, p2.bad...)
		cp.Close()
	case 'c', 'I':
		p.clone = c.Clone()
		p.sub = ctxShowView(p.clone)
		ctxCloneHeaders(p, c, p.clone)
		p.run.mu.Lock()
		p.run.clones = append(p.run.clones, p)
		p.run.mu.Unlock()
	}
}

// ctxCloneHeaders: the response headers of a clone are a copy taken when it was made - what the original sets or deletes
// afterwards does not show in the clone, and what is set on the clone stays on the clone (and off the original)
func ctxCloneHeaders(p *ctxProbe, orig, cl fox.Context) {
	oh, ch := orig.Writer().Header(), cl.Writer().Header()
	oh.Set("X-After-Clone", "1")
	if got := cl.Writer().Header().Get("X-After-Clone"); got != "" {
		p.fail("a header set on the original after Clone() shows in the clone")
	}
	oh.Del("X-After-Clone")
	ch.Set("X-On-Clone", "1")
	if got := cl.Writer().Header().Get("X-On-Clone"); got != "1" {
		p.fail("a header set on the clone is gone at the next access (%q)", got)
	}
	if got := orig.Writer().Header().Get("X-On-Clone"); got != "" {
		p.fail("a header set on the clone shows in the original")
	}
	cl.Writer().Header().Del("X-On-Clone")
}

func ctxRequest(p *ctxProbe, k int, method, path string) *http.Request {
	tok := ctxTok(k)
	req := newReq(method, ctxHostFor(k), path)
	req.URL.RawQuery = "q=" + tok
	req.Header.Set("X-Tok", tok)
	return req.WithContext(context.WithValue(req.Context(), ctxProbeKey{}, p))
}

func newCtxRun() (*ctxRun, error) {
	r, err := fox.New(fox.WithNoMethod(true), fox.WithAutoOptions(true), fox.WithMiddleware(ctxChecker),
		fox.WithClientIPResolver(fox.ClientIPResolverFunc(func(c fox.Context) (*net.IPAddr, error) {
			return ctxIPOfTok(c.Header("X-Tok")), nil
		})))
	if err != nil {
		return nil, err
	}
	if _, err = r.Handle("GET", "/u/{id}", ctxRouteHandler); err != nil {
		return nil, err
	}
	// requests WITHOUT a query string: the values a handler adds to what QueryParams returned belong to its own request
	if _, err = r.Handle("GET", "/noq/{id}", ctxNoQueryHandler); err != nil {
		return nil, err
	}
	if _, err = r.Handle("GET", "/ig/{id}", ctxRouteHandler, fox.WithIgnoreTrailingSlash(true)); err != nil {
		return nil, err
	}
	if _, err = r.Handle("GET", "/rd/{id}", ctxRouteHandler, fox.WithRedirectTrailingSlash(true)); err != nil {
		return nil, err
	}
	return &ctxRun{r: r, ids: map[uintptr]int{}}, nil
}

// one operation; returns the observation item
func (run *ctxRun) op(op byte, k int) string {
	tok := ctxTok(k)
	p := &ctxProbe{k: k, op: op, run: run, host: ctxHostFor(k), params: "-"}
	defer func() {
		if len(p.bad) > 0 {
			run.mu.Lock()
			run.oracle = append(run.oracle, p.bad...)
			run.mu.Unlock()
		}
	}()
	wantCode := 0
	switch op {
	case 'T':
		run.mu.Lock()
		run.extra++
		n := run.extra
		run.mu.Unlock()
		if n%3 == 0 {
			_, _ = run.r.Delete("GET", "/extra"+itoa(n-1))
		} else {
			_, _ = run.r.Handle("GET", "/extra"+itoa(n), ctxRouteHandler)
		}
		return "-"
	case 'V':
		// the hostname routes are registered (tree replaced, new pool); idempotent. The second one overlaps the first
		// below the consumed {sub} label, so that a Host like h.examplex.com is matched after a backtrack.
		if !run.r.Has("GET", "{sub}.example.com/hv/{id}") {
			if _, err := run.r.Handle("GET", "{sub}.example.com/hv/{id}", ctxRouteHandler); err != nil {
				return "bad-op"
			}
			if _, err := run.r.Handle("GET", "{sub}.{dom}.com/hv/{id}", ctxRouteHandler); err != nil {
				return "bad-op"
			}
		}
		return "-"
	case 'd', 'h', 'w', 'c':
		p.method, p.path, p.scope, p.pattern, p.params = "GET", "/u/"+tok, fox.RouteHandler, "/u/{id}", "id="+tok
		wantCode = ctxStatus(k)
	case 'i', 'I':
		p.method, p.path, p.scope, p.pattern, p.params = "GET", "/ig/"+tok+"/", fox.RouteHandler, "/ig/{id}", "id="+tok
		wantCode = ctxStatus(k)
	case 'r':
		p.method, p.path, p.scope = "GET", "/rd/"+tok+"/", fox.RedirectHandler
		wantCode = 301
	case 'n':
		p.method, p.path, p.scope = "GET", "/nope/"+tok, fox.NoRouteHandler
		wantCode = 404
	case 'm':
		p.method, p.path, p.scope = "POST", "/u/"+tok, fox.NoMethodHandler
		wantCode = 405
	case 'o':
		p.method, p.path, p.scope = "OPTIONS", "/u/"+tok, fox.OptionsHandler
		wantCode = 200
	case 'M':
		// 405 below a hostname: the Allow loop walks the hostname routes lazily and backtracks after the {sub} label
		if !run.r.Has("GET", "{sub}.example.com/hv/{id}") {
			return "bad-op"
		}
		p.method, p.path, p.scope = "POST", "/hv/"+tok, fox.NoMethodHandler
		p.host = "h" + tok + ".examplex.com"
		wantCode = 405
	case 'v':
		if !run.r.Has("GET", "{sub}.example.com/hv/{id}") {
			return "bad-op"
		}
		p.method, p.path, p.scope, p.pattern = "GET", "/hv/"+tok, fox.RouteHandler, "{sub}.example.com/hv/{id}"
		p.host = "h" + tok + ".example.com"
		p.params = "sub=h" + tok + "&id=" + tok
		wantCode = ctxStatus(k)
	case 'l', 't', 'L', 'W':
		return run.lookupOp(p)
	default:
		return "bad-op"
	}
	req := ctxRequest(p, k, p.method, p.path)
	req.Host = p.host
	rec := newRecWriter()
	var w http.ResponseWriter = rec
	if op == 'h' {
		w = ctxHijackWriter{rec}
	} else {
		// connections that can push alternate with connections that cannot
		p.pushRec, p.pushMode = rec, 2
		if k%2 == 0 {
			w, p.pushMode = ctxPushWriter{rec}, 1
		}
	}
	run.r.ServeHTTP(w, req)
	if k%3 == 0 {
		// an auxiliary request without query string (no probe attached: the checker middleware lets it pass)
		noqBad := ""
		nq := newReq("GET", "example.com", "/noq/"+tok)
		run.r.ServeHTTP(newRecWriter(), nq.WithContext(context.WithValue(nq.Context(), ctxNoQKey{}, &noqBad)))
		if noqBad != "" {
			p.fail("%s", noqBad)
		}
	}
	if p.handlers != 1 {
		p.fail("the checker ran %d times", p.handlers)
	}
	if op != 'h' {
		if rec.code != wantCode {
			p.fail("response status %d want %d", rec.code, wantCode)
		}
		if p.pattern != "" {
			if len(rec.body) != ctxBodySize(k) || rec.h.Get("X-Resp") != tok {
				p.fail("response body %d bytes / X-Resp %q, want %d / %q", len(rec.body), rec.h.Get("X-Resp"), ctxBodySize(k), tok)
			}
		}
	}
	switch op {
	case 'w':
		return p.view + "~" + p.sub
	case 'c', 'I':
		return p.view + "~" // completed at the end by the clone's final view
	}
	return p.view
}

func (run *ctxRun) lookupOp(p *ctxProbe) string {
	k, tok := p.k, ctxTok(p.k)
	p.method, p.path, p.scope, p.pattern, p.params = "GET", "/u/"+tok, fox.RouteHandler, "/u/{id}", "id="+tok
	req := ctxRequest(p, k, "GET", p.path)
	w := foxWriter{newRecWriter()}
	item := ""
	body := func(rt *fox.Route, cc fox.ContextCloser, tsr bool) {
		if rt == nil || cc == nil || tsr {
			p.fail("Lookup found nothing")
			return
		}
		defer cc.Close()
		p.ctxID = fox.VerifCtxID(cc)
		run.seen(p.ctxID)
		p.checkAll(cc, tok, "GET", p.host, p.path, 0, false)
		if cc.Writer() != fox.ResponseWriter(w) {
			p.fail("Lookup: Writer() is not the writer passed in")
		}
		item = ctxShowView(cc)
		rt.Handle(cc) // the route handler answers through the caller's writer
		if w.code != ctxStatus(k) || len(w.body) != ctxBodySize(k) || w.h.Get("X-Resp") != tok {
			p.fail("Lookup+Handle: response %d/%d/%q", w.code, len(w.body), w.h.Get("X-Resp"))
		}
		switch p.op {
		case 'L':
			p.clone = cc.Clone()
			p.sub = ctxShowView(p.clone)
			ctxCloneHeaders(p, cc, p.clone)
			run.mu.Lock()
			run.clones = append(run.clones, p)
			run.mu.Unlock()
			item += "~"
		case 'W':
			k2 := k + 100000
			p2 := &ctxProbe{k: k, op: 'W', scope: p.scope, pattern: p.pattern, params: p.params, run: run}
			req2, w2 := ctxRequest(p2, k2, "PUT", "/cw/"+ctxTok(k2)), foxWriter{newRecWriter()}
			cp := cc.CloneWith(w2, req2)
			run.seen(fox.VerifCtxID(cp))
			p2.checkAll(cp, ctxTok(k2), "PUT", ctxHostFor(k2), "/cw/"+ctxTok(k2), 0, false)
			item += "~" + ctxShowView(cp)
			p.bad = append(p.bad, p2.bad...)
			cp.Close()
		}
	}
	if p.op == 't' {
		_ = run.r.View(func(txn *fox.Txn) error {
			rt, cc, tsr := txn.Lookup(w, req)
			body(rt, cc, tsr)
			return nil
		})
	} else {
		rt, cc, tsr := run.r.Lookup(w, req)
		body(rt, cc, tsr)
	}
	return item
}

// finalClone inspects a kept clone again: it must still show request k; then (last) a write must panic with
// ErrDiscardedResponseWriter
func (run *ctxRun) finalClone(p *ctxProbe) string {
	cl := p.clone
	tok := ctxTok(p.k)
	now := ctxShowView(cl)
	if now != p.sub {
		p.fail("clone changed after later requests: %s -> %s", p.sub, now)
	}
	if cl.Path() != p.path || cl.Header("X-Tok") != tok || cl.QueryParam("q") != tok || cl.Host() != p.host || cl.Method() != "GET" {
		p.fail("clone shows another request: path %q tok %q q %q", cl.Path(), cl.Header("X-Tok"), cl.QueryParam("q"))
	}
	if got := cl.Writer().Header().Get("X-Resp"); got != tok {
		p.fail("clone response header X-Resp=%q want %q", got, tok)
	}
	if cl.Pattern() != p.pattern || ctxShowParams(cl) != p.params || cl.Scope() != p.scope {
		p.fail("clone route/params/scope: %q %q %d", cl.Pattern(), ctxShowParams(cl), cl.Scope())
	}
	flags := ""
	func() {
		defer func() {
			if e := recover(); e != nil {
				if err, ok := e.(error); ok && errors.Is(err, fox.ErrDiscardedResponseWriter) {
					flags = ".discard"
				} else {
					flags = ".panic"
				}
			}
		}()
		if _, err := cl.Writer().Write([]byte("x")); errors.Is(err, http.ErrHijacked) {
			flags = ".hijacked.discard"
		} else {
			flags = ".writable"
		}
	}()
	if len(p.bad) > 0 {
		run.oracle = append(run.oracle, p.bad...)
		p.bad = nil
	}
	return now + flags
}

func runCtxSeq(ops []string) (string, bool) {
	run, err := newCtxRun()
	if err != nil {
		return "I=setup-error\tO=" + err.Error(), true
	}
	items := make([]string, len(ops))
	probes := map[int]*ctxProbe{}
	sameTree, maxSame := 0, 0
	for k, o := range ops {
		if o == "" {
			continue
		}
		before := len(run.clones)
		items[k] = run.op(o[0], k)
		if len(run.clones) > before {
			probes[k] = run.clones[len(run.clones)-1]
		}
		if o[0] == 'T' || o[0] == 'V' {
			sameTree = 0
		} else {
			sameTree++
			if sameTree > maxSame {
				maxSame = sameTree
			}
		}
	}
	for k := range ops {
		if p, ok := probes[k]; ok {
			items[k] += run.finalClone(p)
		}
	}
	res := "I=" + strings.Join(items, "|")
	if len(run.oracle) > 0 {
		if len(run.oracle) > 4 {
			run.oracle = run.oracle[:4]
		}
		return res + "\tO=" + strings.Join(run.oracle, "; "), true
	}
	// pool reuse is what makes the case meaningful: ask for a retry when no context pointer was seen twice
	return res, run.reused() || maxSame < 4
}

func runCtx(fields []string) string {
	if len(fields) != 2 {
		return "I=bad-case"
	}
	if strings.HasPrefix(fields[1], "conc") {
		return runCtxConc(fields[1])
	}
	ops := strings.Split(fields[1], ";")
	res := ""
	for attempt := 0; attempt < 6; attempt++ {
		var ok bool
		res, ok = runCtxSeq(ops)
		if ok {
			return res
		}
	}
	// sync.Pool may legitimately hand out fresh contexts (a collection empties it): the case then exercised no recycling.
	// That is a coverage remark (counted in the evidence), not a disagreement.
	return res + "\tU=no-pooled-context-reused"
}

// runCtxConc: goroutines issue random shapes concurrently (own tokens) while another one replaces the tree
func runCtxConc(spec string) string {
	parts := strings.Split(spec, ":")
	if len(parts) != 4 {
		return "I=bad-case"
	}
	g, _ := strconv.Atoi(parts[1])
	per, _ := strconv.Atoi(parts[2])
	seed, _ := strconv.ParseUint(parts[3], 10, 64)
	run, err := newCtxRun()
	if err != nil {
		return "I=setup-error\tO=" + err.Error()
	}
	const shapes = "ddiirnmovltLWwcI"
	var wg sync.WaitGroup
	stop := make(chan struct{})
	var twg sync.WaitGroup
	twg.Add(1)
	go func() {
		defer twg.Done()
		for i := 0; ; i++ {
			select {
			case <-stop:
				return
			default:
			}
			run.op('T', 0)
			if i == 3 {
				run.op('V', 0)
			}
			runtime.Gosched()
		}
	}()
	for gi := 0; gi < g; gi++ {
		wg.Add(1)
		go func(gi int) {
			defer wg.Done()
			rng := NewRng(seed + uint64(gi)*7919)
			for j := 0; j < per; j++ {
				run.op(shapes[rng.Intn(len(shapes))], (gi+1)*10000+j)
			}
		}(gi)
	}
	wg.Wait()
	close(stop)
	twg.Wait()
	run.mu.Lock()
	clones := append([]*ctxProbe(nil), run.clones...)
	run.mu.Unlock()
	for _, p := range clones {
		run.finalClone(p)
	}
	if len(run.oracle) > 0 {
		if len(run.oracle) > 4 {
			run.oracle = run.oracle[:4]
		}
		return "I=ok\tO=" + strings.Join(run.oracle, "; ")
	}
	return "I=ok"
}
