package main

// Stream `hist` (property C07): routing depends only on the registered set, not on its history.
//
//	hist \t <ops as in stream ops> \t <rotation>,<reverse 0|1>
//
// Router A executes the history. Router B is a fresh router filled with A's final set (taken from Iter.All, with the
// routes' own trailing-slash options) in a different order: sorted by (method, pattern), rotated, optionally reversed.
// Every lookup of the case is then repeated on both; they must agree on route, params, trailing-slash outcome, on the
// answer of ServeHTTP (status and the set of allowed methods) and - hook, thorough tier - on the shape of the tree.
// The ordinary observation of the history (I=/J=) is compared with the Lean model and specification as in stream ops.

import (
	"fmt"
	"slices"
	"sort"
	"strconv"
	"strings"

	"github.com/tigerwill90/fox"
)

func init() {
	register(&stream{name: "hist", gen: genHist, run: runHist})
}

type regRoute struct {
	method, pattern string
	flags, hid      int
}

func serveDigest(f *fox.Router, method, host, path string) string {
	w := newRecWriter()
	f.ServeHTTP(w, newReq(method, host, path))
	allow := strings.Split(w.h.Get("Allow"), ", ")
	sort.Strings(allow)
	return strconv.Itoa(w.code) + " allow=" + strings.Join(allow, "+") + " loc=" + w.h.Get("Location")
}

func runHist(fields []string) string {
	if len(fields) < 3 {
		return "I=bad-case"
	}
	opts := []fox.GlobalOption{fox.WithNoMethod(true), fox.WithAutoOptions(true)}
	a, err := fox.New(opts...)
	if err != nil {
		return "I=new-failed"
	}
	outI, outJ, oracles := runOpsOn(a, fields[1])

	// A's final set
	var set []regRoute
	for m, r := range a.Iter().All() {
		fl := 0
		if r.IgnoreTrailingSlashEnabled() {
			fl |= 1
		}
		if r.RedirectTrailingSlashEnabled() {
			fl |= 2
		}
		hid, _ := strconv.Atoi(hidOf(r))
		set = append(set, regRoute{m, r.Pattern(), fl, hid})
	}
	sort.Slice(set, func(i, j int) bool {
		if set[i].method != set[j].method {
			return set[i].method < set[j].method
		}
		return set[i].pattern < set[j].pattern
	})
	pr := strings.Split(fields[2], ",")
	rot, _ := strconv.Atoi(pr[0])
	if n := len(set); n > 0 {
		rot %= n
		set = append(set[rot:], set[:rot]...)
	}
	if len(pr) > 1 && pr[1] == "1" {
		slices.Reverse(set)
	}
	b, _ := fox.New(opts...)
	cur := &served{}
	for _, rr := range set {
		hid := rr.hid
		_, err := b.Handle(rr.method, rr.pattern, func(c fox.Context) {
			cur.called = true
			cur.pattern = c.Pattern()
			cur.params = slices.Collect(c.Params())
			cur.hid = hid
		}, routeOpts(rr.flags, rr.hid)...)
		if err != nil {
			oracles = append(oracles, fmt.Sprintf("fresh router rejects %s %s of the final set: %v", rr.method, hx(rr.pattern), err))
		}
	}
	if a.Len() != b.Len() {
		oracles = append(oracles, fmt.Sprintf("Len differs: history=%d fresh=%d", a.Len(), b.Len()))
	}
	// repeat every lookup of the case on both routers
	curA := &served{}
	_ = curA
	for _, op := range strings.Split(fields[1], ";") {
		x := strings.Split(op, ",")
		if x[0] != "L" || len(x) != 4 {
			continue
		}
		m, host, path := x[1], unhx(x[2]), unhx(x[3])
		ra, cca, ta := a.Lookup(foxWriter{newRecWriter()}, newReq(m, host, path))
		rb, ccb, tb := b.Lookup(foxWriter{newRecWriter()}, newReq(m, host, path))
		var pa, pb []fox.Param
		if cca != nil {
			pa = slices.Collect(cca.Params())
			cca.Close()
		}
		if ccb != nil {
			pb = slices.Collect(ccb.Params())
			ccb.Close()
		}
		sa, sb := showLookup(ra, pa, ta)+"#"+hidOf(ra), showLookup(rb, pb, tb)+"#"+hidOf(rb)
		if sa != sb {
			oracles = append(oracles, fmt.Sprintf("lookup %s host=%s path=%s: history=%s fresh=%s", m, hx(host), hx(path), sa, sb))
			continue
		}
		if da, db := serveDigest(a, m, host, path), serveDigest(b, m, host, path); da != db {
			oracles = append(oracles, fmt.Sprintf("ServeHTTP %s host=%s path=%s: history=[%s] fresh=[%s]", m, hx(host), hx(path), da, db))
		}
	}
	// same set ⇒ same tree shape (the custom-method roots may be in a different order: compare them sorted)
	da, db := strings.Split(fox.VerifDumpRouter(a), ";"), strings.Split(fox.VerifDumpRouter(b), ";")
	sort.Strings(da)
	sort.Strings(db)
	if strings.Join(da, ";") != strings.Join(db, ";") {
		oracles = append(oracles, "tree shapes differ: history="+strings.Join(da, ";")+" fresh="+strings.Join(db, ";"))
	}
	out := "I=" + strings.Join(outI, "|") + "\tJ=" + strings.Join(outJ, "|")
	if len(oracles) > 0 {
		out += "\tO=" + strings.Join(oracles, " ;; ")
	}
	return out
}

func genHist(r *Rng, tier string, n int, emit func(string)) {
	for c := 0; c < n; c++ {
		cr := r.Fork()
		nMeth := 1 + cr.Intn(3)
		methods := make([]string, nMeth)
		for i := range methods {
			methods[i] = Pick(cr, methodPool)
		}
		hostPct := Pick(cr, []int{0, 0, 30, 60})
		pool := genNestedPool(cr, 3+cr.Intn(14), hostPct)
		if cr.Chance(20) {
			// hostnames extending one another, each with a few paths (host/path boundary cases of deletion); one method
			pool = genHostFamily(cr)
			methods = methods[:1]
		}
		var ops []string
		hid := 0
		k := 6 + cr.Intn(50)
		if cr.Chance(7) {
			// a wide node: more than 50 static children with distinct first bytes (the binary-search regime of getEdge /
			// updateEdge) next to a parameter and two catch-all routes, all registered in a random order, then the usual
			// history of deletions and re-registrations
			const alpha = "0123456789abcdefghijklmnopqrstuvwxyzABCDEFGHIJKLMNOPQRSTUVWXYZ-_"
			base := Pick(cr, []string{"/", "/w/", "/{v}/"})
			pool = nil
			for _, i := range cr.Perm(len(alpha))[:52+cr.Intn(len(alpha)-52+1)] {
				pool = append(pool, base+string(alpha[i])+Pick(cr, []string{"", "x", "/y"}))
			}
			pool = append(pool, base+"*{any}", base+"*{any}/edit", base+"{p}", base+"{p}/z")
			methods = methods[:1]
			for _, i := range cr.Perm(len(pool)) {
				hid++
				ops = append(ops, fmt.Sprintf("H,%s,%s,%d,%d", methods[0], hx(pool[i]), 0, hid))
			}
			k = 4 + cr.Intn(12)
		}
		if cr.Chance(7) {
			// a prefix registered (deleted, registered again) AFTER the routes below it: the node that becomes a leaf already
			// has a static, a parameter and a catch-all child
			base := Pick(cr, []string{"/files", "/v/{t}", "/a/b"})
			pool = []string{base + "/", base + "/{id}", base + "/*{path}", base + "/{id}/x", base + "/*{path}/edit", base + "/s", base}
			methods = methods[:1]
			for _, i := range cr.Perm(len(pool)-2) {
				hid++
				ops = append(ops, fmt.Sprintf("H,%s,%s,%d,%d", methods[0], hx(pool[1+i]), 0, hid))
			}
			for _, q := range []string{base + "/", base} {
				hid++
				ops = append(ops, fmt.Sprintf("H,%s,%s,%d,%d", methods[0], hx(q), 0, hid))
				if cr.Bool() {
					hid++
					ops = append(ops, "D,"+methods[0]+","+hx(q), fmt.Sprintf("H,%s,%s,%d,%d", methods[0], hx(q), 0, hid))
				}
			}
			k = 2 + cr.Intn(8)
		}
		if c%16 == 7 {
			// a node whose key holds two or three infix catch-alls and has children: every clone of it carries a chain of
			// inode sub-nodes (one per catch-all that is followed by more key) which must all see the children of the clone.
			// Some routes are registered first, so that the shared node exists before the history edits below it. (Chosen by
			// the case number, not by a draw, so that the other cases of a seed stay what they were.)
			base := Pick(cr, []string{"/a/*{x}/b/*{y}/c/", "/*{v}/a/*{w}/", "/f/*{p}/g/*{q}/h/*{r}/i/", "/a/*{x}/b/*{y}/c"})
			pool = []string{base + "d", base + "e", base + "dd", base + "d/f", base + "e/{z}", base + "d/*{t}"}
			methods = methods[:1]
			ops, hid = nil, 0
			for _, i := range cr.Perm(len(pool))[:2+cr.Intn(2)] {
				hid++
				ops = append(ops, fmt.Sprintf("H,%s,%s,%d,%d", methods[0], hx(pool[i]), 0, hid))
			}
			k = 3 + cr.Intn(10)
		}
		for i := 0; i < k; i++ {
			m := Pick(cr, methods)
			p := Pick(cr, pool)
			if cr.Chance(6) && !strings.HasSuffix(p, "}") {
				// a branching leaf is built (committed), then one transaction deletes / updates it and writes below it
				sep := "/"
				if strings.HasSuffix(p, "/") {
					sep = ""
				}
				for _, q := range []string{p, p + sep + "a1", p + sep + "b1"} {
					hid++
					ops = append(ops, fmt.Sprintf("H,%s,%s,%d,%d", m, hx(q), 0, hid))
				}
				first := "D:" + m + ":" + hx(p)
				if cr.Chance(30) {
					hid++
					first = fmt.Sprintf("U:%s:%s:%d:%d", m, hx(p), 1, hid)
				}
				hid += 2
				ops = append(ops, "G,"+Pick(cr, []string{"e", "e", "o"})+","+first+"&"+
					fmt.Sprintf("H:%s:%s:%d:%d", m, hx(p+sep+"a1/x"), 0, hid-1)+"&"+fmt.Sprintf("U:%s:%s:%d:%d", m, hx(p+sep+"b1"), 2, hid))
				continue
			}
			switch x := cr.Intn(22); {
			case x >= 20:
				// a write transaction with a few writes, aborted most of the time
				var in []string
				if cr.Chance(35) {
					// a route is deleted (or updated) and routes below / next to it are then written in the same transaction:
					// the nodes rebuilt by the first write are walked again by the later ones
					gm, gp := Pick(cr, methods), Pick(cr, pool)
					if cr.Bool() {
						in = append(in, "D:"+gm+":"+hx(gp))
					} else {
						hid++
						in = append(in, fmt.Sprintf("U:%s:%s:%d:%d", gm, hx(gp), Pick(cr, []int{0, 1, 2}), hid))
					}
					for _, q := range pool {
						if q != gp && strings.HasPrefix(q, gp) && cr.Chance(60) {
							hid++
							in = append(in, fmt.Sprintf("%s:%s:%s:%d:%d", Pick(cr, []string{"H", "U", "U"}), gm, hx(q), Pick(cr, []int{0, 1, 2}), hid))
						}
					}
					if !strings.HasSuffix(gp, "}") {
						hid++
						in = append(in, fmt.Sprintf("H:%s:%s:%d:%d", gm, hx(gp+Pick(cr, []string{"zz", "/zz", "z/{q}"})), 0, hid))
					}
				}
				for j, nj := 0, 1+cr.Intn(4); j < nj; j++ {
					gm, gp := Pick(cr, methods), Pick(cr, pool)
					switch y := cr.Intn(10); {
					case y < 4:
						hid++
						in = append(in, fmt.Sprintf("H:%s:%s:%d:%d", gm, hx(gp), Pick(cr, []int{0, 1, 2}), hid))
					case y < 6:
						hid++
						in = append(in, fmt.Sprintf("U:%s:%s:%d:%d", gm, hx(gp), Pick(cr, []int{0, 1, 2}), hid))
					case y < 8:
						in = append(in, "D:"+gm+":"+hx(gp))
					case y < 9:
						in = append(in, "T:"+gm)
					default:
						in = append(in, "T:")
					}
				}
				ops = append(ops, "G,"+Pick(cr, []string{"e", "e", "o"})+","+strings.Join(in, "&"))
			case x < 10:
				hid++
				ops = append(ops, fmt.Sprintf("H,%s,%s,%d,%d", m, hx(p), Pick(cr, []int{0, 0, 1, 2}), hid))
			case x < 12:
				hid++
				ops = append(ops, fmt.Sprintf("U,%s,%s,%d,%d", m, hx(p), Pick(cr, []int{0, 1, 2}), hid))
			case x < 18:
				ops = append(ops, "D,"+m+","+hx(p))
			case x < 19:
				if cr.Chance(20) {
					ops = append(ops, "T,")
				} else {
					ops = append(ops, "T,"+genTruncMethods(cr, methods))
				}
			default:
				// delete then re-insert
				ops = append(ops, "D,"+m+","+hx(p))
				hid++
				ops = append(ops, fmt.Sprintf("H,%s,%s,%d,%d", m, hx(p), 0, hid))
			}
		}
		// make sure something is left: a few final insertions
		for i := 0; i < 2+cr.Intn(4); i++ {
			hid++
			ops = append(ops, fmt.Sprintf("H,%s,%s,%d,%d", Pick(cr, methods), hx(Pick(cr, pool)), Pick(cr, []int{0, 1, 2}), hid))
		}
		ops = append(ops, "N", "A", "M")
		np := 8 + cr.Intn(12)
		for i := 0; i < np; i++ {
			ops = append(ops, genProbe(cr, pool, append(methods, "OPTIONS")))
		}
		emit("hist\t" + strings.Join(ops, ";") + "\t" + strconv.Itoa(cr.Intn(50)) + "," + strconv.Itoa(cr.Intn(2)))
	}
}
