package main

// Stream `logger` (property C20: the Logger middleware reports what actually happened).
//
//	logger  <item>;<item>;…  <gres>  <rres>  <cust>
//
// One router per case: fox.LoggerWithHandler(capturing slog.Handler) for AllHandlers, followed by a marker middleware
// (appends "H" to the trace when the wrapped handler returns or panics); routes
//
//	GET,POST /r/{x}   behaviour handler, per-route resolver <rres>
//	GET,POST /alias/{x}  re-dispatches to /r/{x} with Lookup + Route.HandleMiddleware, per-route resolver <rres>
//	GET,POST /t/      WithRedirectTrailingSlash(true), per-route resolver <rres>   (request /t  -> Location t/)
//	GET,POST /u       WithRedirectTrailingSlash(true)                               (request /u/ -> Location ../u)
//
// <gres> router-wide resolver: none | ok | fail | wrapno     (wrapno: an error wrapping ErrNoClientIPResolver)
// <rres> per-route override:   inherit | ok2 | fail | nil | wrapno
// <cust> 1: NoRoute/NoMethod/Options handlers are the behaviour handler, 0: fox's defaults; 2 / 3: the same with a
//        CloneWith-wrapping middleware registered before the Logger
//
// item = kind,method,host hex,URL.Path hex,URL.RawPath hex,RemoteAddr hex,expected RemoteIP string hex,behaviour
// kind = route | noroute | nomethod | redir | redir2 | options   (what the request is built to hit; echoed by the model)
// behaviour = ops joined by '+': h<code> WriteHeader, b Write, L<hex> Header().Set("Location"), p panic; '-' nothing; 'd' default handler
//
// Result item:  I = n:level:msg hex:status:method:host hex:path hex:location hex|-:attr keys:trace:panic
//               J = the same without attr keys and trace.
// Oracle (model-free): the same request against the same router without the Logger gives the same response
// (status, events, headers, body) and the same panic value.

import (
	"context"
	"errors"
	"fmt"
	"io"
	"log"
	"log/slog"
	"net"
	"net/netip"
	"net/url"
	"sort"
	"strconv"
	"strings"
	"sync"

	"github.com/tigerwill90/fox"
)

func init() {
	register(&stream{name: "logger", gen: genLogger, run: runLogger})
}

type lgBehKey struct{}

// lgBuf collects what the default log handler writes
type lgBuf struct{ b []byte }

func (w *lgBuf) Write(p []byte) (int, error) { w.b = append(w.b, p...); return len(p), nil }

// lgCapture is the slog.Handler given to LoggerWithHandler.
type lgCapture struct {
	records []string // rendered records
	trace   *[]string
	min     slog.Level // records below are not enabled (zero value with all = true: everything is)
	all     bool
	// onEnabled, when set, runs once inside the next Enabled call - i.e. after the Logger of a request has called LogAttrs
	// and before slog has built the record: the place where another request served through the same Logger overlaps
	onEnabled func()
}

func (h *lgCapture) Enabled(_ context.Context, l slog.Level) bool {
	if f := h.onEnabled; f != nil {
		h.onEnabled = nil
		f()
	}
	return h.all || l >= h.min
}
func (h *lgCapture) WithAttrs([]slog.Attr) slog.Handler       { return h }
func (h *lgCapture) WithGroup(string) slog.Handler            { return h }
func (h *lgCapture) Handle(_ context.Context, r slog.Record) error {
	vals := map[string]string{}
	var keys []string
	r.Attrs(func(a slog.Attr) bool {
		keys = append(keys, a.Key)
		if a.Key != "latency" { // never compared
			vals[a.Key] = a.Value.String()
		}
		return true
	})
	get := func(k string) string {
		v, ok := vals[k]
		if !ok {
			return "?"
		}
		return v
	}
	loc := "-"
	if v, ok := vals["location"]; ok {
		loc = hx(v)
	}
	h.records = append(h.records, strings.Join([]string{
		r.Level.String(), hx(r.Message), get("status"), get("method"), hx(get("host")), hx(get("path")), loc,
	}, ":")+"\x00"+strings.Join(keys, "."))
	*h.trace = append(*h.trace, "R")
	return nil
}

// lgWriter records what reaches the underlying http.ResponseWriter, also into the shared trace.
type lgWriter struct {
	*recWriter
	trace *[]string
}

func (w *lgWriter) WriteHeader(code int) {
	w.recWriter.WriteHeader(code)
	*w.trace = append(*w.trace, "h"+itoa(code))
}
func (w *lgWriter) Write(b []byte) (int, error) {
	*w.trace = append(*w.trace, "b")
	return w.recWriter.Write(b)
}

// Flush: as net/http, a flush before anything was written commits the implicit 200 header
func (w *lgWriter) Flush() {
	if !w.recWriter.wrote {
		w.recWriter.wrote = true
		w.recWriter.code = 200
	}
	*w.trace = append(*w.trace, "f")
}

func lgBehaviour(c fox.Context) {
	beh, _ := c.Request().Context().Value(lgBehKey{}).(string)
	if beh == "-" || beh == "" || beh == "d" {
		return
	}
	for _, op := range strings.Split(beh, "+") {
		switch {
		case op == "b":
			_, _ = c.Writer().Write([]byte("x"))
		case op == "f":
			_ = c.Writer().FlushError()
		case op == "p":
			panic("boom-" + beh)
		case strings.HasPrefix(op, "h"):
			code, _ := strconv.Atoi(op[1:])
			c.Writer().WriteHeader(code)
		case strings.HasPrefix(op, "L"):
			c.Writer().Header().Set("Location", unhx(op[1:]))
		case strings.HasPrefix(op, "q"):
			// an internal rewrite: the handler replaces the request by one with another path (Context.SetRequest)
			r2 := c.Request().Clone(c.Request().Context())
			r2.URL = &url.URL{Path: unhx(op[1:])}
			c.SetRequest(r2)
		}
	}
}

const (
	lgIPOk  = "203.0.113.7"
	lgIPOk2 = "fe80::1%eth0"
)

func lgResolver(kind string) fox.ClientIPResolver {
	switch kind {
	case "ok":
		return fox.ClientIPResolverFunc(func(fox.Context) (*net.IPAddr, error) {
			return &net.IPAddr{IP: net.ParseIP("203.0.113.7")}, nil
		})
	case "ok2":
		return fox.ClientIPResolverFunc(func(fox.Context) (*net.IPAddr, error) {
			return &net.IPAddr{IP: net.ParseIP("fe80::1"), Zone: "eth0"}, nil
		})
	case "fail":
		return fox.ClientIPResolverFunc(func(fox.Context) (*net.IPAddr, error) {
			return nil, errors.New("no address in header")
		})
	case "wrapno":
		return fox.ClientIPResolverFunc(func(fox.Context) (*net.IPAddr, error) {
			return nil, fmt.Errorf("delegated: %w", fox.ErrNoClientIPResolver)
		})
	}
	return nil
}

func lgRouter(withLogger bool, cap *lgCapture, trace *[]string, gres, rres string, cust, wrap bool) (*fox.Router, error) {
	var opts []fox.GlobalOption
	if wrap {
		// a writer-wrapping middleware registered before the Logger: the Logger (and everything after it) runs on a CloneWith
		// copy of the context and must report exactly what it reports on the original
		opts = append(opts, fox.WithMiddlewareFor(fox.AllHandlers, func(next fox.HandlerFunc) fox.HandlerFunc {
			return func(c fox.Context) {
				cc := c.CloneWith(c.Writer(), c.Request())
				defer cc.Close()
				next(cc)
			}
		}))
	}
	if withLogger && cap != nil {
		opts = append(opts, fox.WithMiddlewareFor(fox.AllHandlers, fox.LoggerWithHandler(cap)))
	} else if withLogger {
		// the default constructor (the package's pretty handler; its output is captured through a hook)
		opts = append(opts, fox.WithMiddlewareFor(fox.AllHandlers, fox.Logger()))
	}
	marker := func(next fox.HandlerFunc) fox.HandlerFunc {
		return func(c fox.Context) {
			defer func() { *trace = append(*trace, "H") }()
			next(c)
		}
	}
	opts = append(opts, fox.WithMiddlewareFor(fox.AllHandlers, marker), fox.WithNoMethod(true), fox.WithAutoOptions(true))
	if cust {
		opts = append(opts, fox.WithNoRouteHandler(lgBehaviour), fox.WithNoMethodHandler(lgBehaviour), fox.WithOptionsHandler(lgBehaviour))
	}
	if res := lgResolver(gres); res != nil {
		opts = append(opts, fox.WithClientIPResolver(res))
	}
	f, err := fox.New(opts...)
	if err != nil {
		return nil, err
	}
	var ropts []fox.RouteOption
	switch rres {
	case "inherit":
	case "nil":
		ropts = append(ropts, fox.WithClientIPResolver(nil))
	default:
		ropts = append(ropts, fox.WithClientIPResolver(lgResolver(rres)))
	}
	for _, m := range []string{"GET", "POST"} {
		if _, err := f.Handle(m, "/r/{x}", lgBehaviour, ropts...); err != nil {
			return nil, err
		}
		// an alias: its handler re-dispatches the request to /r/{x} through Lookup + Route.HandleMiddleware (the route's own
		// middleware only: the router-wide Logger and marker have already run for this request and must not run again)
		alias := func(c fox.Context) {
			r2 := c.Request().Clone(c.Request().Context())
			r2.URL = &url.URL{Path: "/r/" + c.Param("x")}
			rt, cc, _ := c.Fox().Lookup(c.Writer(), r2)
			if rt == nil {
				c.Writer().WriteHeader(599)
				return
			}
			defer cc.Close()
			rt.HandleMiddleware(cc)
		}
		if _, err := f.Handle(m, "/alias/{x}", alias, ropts...); err != nil {
			return nil, err
		}
		if _, err := f.Handle(m, "/t/", lgBehaviour, append([]fox.RouteOption{fox.WithRedirectTrailingSlash(true)}, ropts...)...); err != nil {
			return nil, err
		}
		if _, err := f.Handle(m, "/u", lgBehaviour, fox.WithRedirectTrailingSlash(true)); err != nil {
			return nil, err
		}
	}
	return f, nil
}

type lgOutcome struct {
	code    int
	body    string
	headers string
	events  string
	panicv  string
}

func lgServe(f *fox.Router, trace *[]string, item []string) lgOutcome {
	method, host, path, raw, remote, beh := item[1], unhx(item[2]), unhx(item[3]), unhx(item[4]), unhx(item[5]), item[7]
	req := newReq(method, host, path)
	if raw != "" {
		req.URL = &url.URL{Path: path, RawPath: raw}
	}
	req.RemoteAddr = remote
	req = req.WithContext(context.WithValue(req.Context(), lgBehKey{}, beh))
	w := &lgWriter{recWriter: newRecWriter(), trace: trace}
	out := lgOutcome{}
	func() {
		defer func() {
			if p := recover(); p != nil {
				out.panicv = fmt.Sprint(p)
			}
		}()
		f.ServeHTTP(w, req)
	}()
	out.code, out.body, out.events = w.code, string(w.body), strings.Join(w.events, ",")
	var hs []string
	for k, v := range w.h {
		hs = append(hs, k+"="+strings.Join(v, "|"))
	}
	sort.Strings(hs)
	out.headers = strings.Join(hs, ";")
	return out
}

var lgOnce sync.Once

func runLogger(fields []string) string {
	if len(fields) < 5 {
		return "I=bad-case"
	}
	// the recorder reports superfluous WriteHeader calls through the global logger: keep stderr quiet
	lgOnce.Do(func() { log.SetOutput(io.Discard) })
	gres, rres, cust, wrap := fields[2], fields[3], fields[4] == "1" || fields[4] == "3", fields[4] == "2" || fields[4] == "3"
	var trace, trace2 []string
	cap := &lgCapture{trace: &trace, all: true}
	withL, err := lgRouter(true, cap, &trace, gres, rres, cust, wrap)
	if err != nil {
		return "I=bad-router:" + err.Error()
	}
	without, err := lgRouter(false, nil, &trace2, gres, rres, cust, wrap)
	if err != nil {
		return "I=bad-router:" + err.Error()
	}
	// a third router with the middleware built by fox.Logger(): it must report the same requests, at the same levels
	var trace3 []string
	var dout, derr lgBuf
	restore := fox.VerifSwapDefaultLogOutput(&dout, &derr)
	defer restore()
	withD, err := lgRouter(true, nil, &trace3, gres, rres, cust, wrap)
	if err != nil {
		return "I=bad-router:" + err.Error()
	}
	// a fourth router whose handler enables WARN and ERROR only (a production setting): it must receive exactly the
	// records of those levels, unchanged
	var trace4 []string
	capW := &lgCapture{trace: &trace4, min: slog.LevelWarn}
	withW, err := lgRouter(true, capW, &trace4, gres, rres, cust, wrap)
	if err != nil {
		return "I=bad-router:" + err.Error()
	}
	// a fifth router on which another request (B) is served through the same Logger while the record of the item's
	// request (A) is being emitted: A's record must still be A's (nothing of a record is shared between requests)
	var trace5 []string
	capP := &lgCapture{trace: &trace5, all: true}
	withP, err := lgRouter(true, capP, &trace5, gres, rres, cust, wrap)
	if err != nil {
		return "I=bad-router:" + err.Error()
	}
	itemB := []string{"nomethod", "DELETE", hx("b.example.org"), hx("/r/abc"), "", hx("203.0.113.77:4000"), hx("203.0.113.77"), "d"}
	var is, js, oracle []string
	for _, it := range strings.Split(fields[1], ";") {
		if it == "" {
			continue
		}
		item := strings.Split(it, ",")
		if len(item) < 8 {
			is, js = append(is, "bad-item"), append(js, "bad-item")
			continue
		}
		trace, trace2, cap.records = trace[:0], trace2[:0], nil
		a := lgServe(withL, &trace, item)
		b := lgServe(without, &trace2, item)
		if a != b {
			oracle = append(oracle, fmt.Sprintf("item %s: with Logger %+v, without %+v", it, a, b))
		}
		pan := "0"
		if a.panicv != "" {
			pan = "1"
		}
		n := len(cap.records)
		rec, keys := "-:-:-:-:-:-:-", "-"
		if n >= 1 {
			parts := strings.SplitN(cap.records[n-1], "\x00", 2)
			rec, keys = parts[0], parts[1]
		}
		// the same request through the router whose Logger came from fox.Logger()
		dout.b, derr.b, trace3 = dout.b[:0], derr.b[:0], trace3[:0]
		_ = lgServe(withD, &trace3, item)
		lines := strings.Count(string(dout.b), "\n") + strings.Count(string(derr.b), "\n")
		if lines != n {
			oracle = append(oracle, fmt.Sprintf("item %s: the Logger built by fox.Logger() emitted %d records, the one built by LoggerWithHandler %d", it, lines, n))
		} else if n >= 1 {
			if lv := strings.SplitN(rec, ":", 2)[0]; !strings.Contains(string(dout.b)+string(derr.b), lv) {
				oracle = append(oracle, fmt.Sprintf("item %s: the record of fox.Logger() does not carry the level %s: %q", it, lv, string(dout.b)+string(derr.b)))
			}
		}
		trace4, capW.records = trace4[:0], nil
		_ = lgServe(withW, &trace4, item)
		var wantW []string
		for _, rc := range cap.records {
			if strings.HasPrefix(rc, "WARN") || strings.HasPrefix(rc, "ERROR") {
				wantW = append(wantW, rc)
			}
		}
		if strings.Join(capW.records, "\x01") != strings.Join(wantW, "\x01") {
			oracle = append(oracle, fmt.Sprintf("item %s: a handler enabled from WARN up received %q, the records of these levels are %q", it, capW.records, wantW))
		}
		trace5, capP.records = trace5[:0], nil
		capP.onEnabled = func() { _ = lgServe(withP, &trace5, itemB) }
		_ = lgServe(withP, &trace5, item)
		overlapped := capP.onEnabled == nil
		capP.onEnabled = nil
		if n >= 1 && overlapped {
			if k := len(capP.records); k == 0 || capP.records[k-1] != cap.records[n-1] {
				oracle = append(oracle, fmt.Sprintf("item %s: with another request served through the same Logger while the record was being emitted the records are %q, alone the record is %q", it, capP.records, cap.records[n-1]))
			}
		}
		is = append(is, itoa(n)+":"+rec+":"+keys+":"+strings.Join(trace, ".")+":"+pan)
		// the property fixes the level for 2xx-5xx only: for any other reported status the level is not compared
		recJ := rec
		if f := strings.Split(rec, ":"); len(f) == 7 {
			if st, err := strconv.Atoi(f[2]); err == nil && (st < 200 || st > 599) {
				f[0] = "*"
				recJ = strings.Join(f, ":")
			}
		}
		js = append(js, itoa(n)+":"+recJ+":"+pan)
	}
	res := "I=" + strings.Join(is, "|") + "\tJ=" + strings.Join(js, "|")
	if len(oracle) > 0 {
		res += "\tO=the Logger is not transparent: " + strings.ReplaceAll(strings.Join(oracle, " ; "), "\t", " ")
	}
	return res
}

// ---------------------------------------------------------------------------------------------- gen

var lgStatuses = []int{100, 101, 102, 103, 150, 199, 200, 201, 204, 226, 299, 300, 301, 302, 304, 307, 308, 399, 400, 401,
	404, 418, 499, 500, 501, 503, 599, 600, 999, 99}

// boundary statuses are drawn more often
var lgBoundary = []int{199, 200, 299, 300, 399, 400, 499, 500, 599, 600}

var lgLocations = []string{"/x", "", "https://example.org/a?b=c", "../y", "é"}

func lgStatus(r *Rng) int {
	if r.Bool() {
		return Pick(r, lgBoundary)
	}
	return Pick(r, lgStatuses)
}

func lgGenBeh(r *Rng) string {
	b := lgGenBeh0(r)
	if b != "-" && r.Intn(8) == 0 {
		// the handler first rewrites the request path (SetRequest): the record reports the request the context holds
		b = "q" + hx(Pick(r, []string{"/internal/v2", "/r/rewritten", "/"})) + "+" + b
	}
	return b
}

func lgGenBeh0(r *Rng) string {
	h := func() string { return "h" + itoa(lgStatus(r)) }
	loc := func() string { return "L" + hx(Pick(r, lgLocations)) }
	switch r.Intn(18) {
	case 16:
		// flush first (streaming handlers commit the header this way), then another status / a redirect attempt
		return "f+" + Pick(r, []string{h(), loc() + "+" + h(), "b+" + h(), "b"})
	case 17:
		return Pick(r, []string{h() + "+f+" + h(), "h103+f+" + h(), "f+f+b"})
	case 0, 1, 2:
		return h()
	case 3:
		return h() + "+b"
	case 4:
		return "b"
	case 5:
		return "-"
	case 6, 7:
		return loc() + "+" + h()
	case 8:
		return loc() + "+h" + itoa(Pick(r, []int{300, 301, 302, 307, 308, 399})) + Pick(r, []string{"", "+b"})
	case 9:
		return "h" + itoa(Pick(r, []int{300, 301, 302, 399})) // redirect status without Location
	case 10:
		return "h" + itoa(Pick(r, []int{100, 102, 103, 199})) + "+" + h()
	case 11:
		return h() + "+" + h() // superfluous second WriteHeader
	case 12:
		return h() + "+" + loc() // Location set after the header was sent: still in the header map
	case 13:
		return "p"
	case 14:
		return Pick(r, []string{h(), "b", loc() + "+" + h()}) + "+p"
	default:
		return loc() + "+b"
	}
}

var lgRemotes = []string{"192.0.2.1:1234", "[2001:db8::1]:80", "[fe80::1%eth0]:443", "[::ffff:192.0.2.9]:1", "garbage",
	"192.0.2.1", "", "256.1.1.1:80", ":80", "[2001:DB8:0:0::1]:8080"}

// lgRefRemoteIP: what Context.RemoteIP().String() must be, from net/netip only (no fox code).
func lgRefRemoteIP(addr string) string {
	ap, err := netip.ParseAddrPort(addr)
	if err != nil {
		return ""
	}
	a := ap.Addr()
	zone := a.Zone()
	s := a.WithZone("").Unmap().String()
	if zone != "" {
		s += "%" + zone
	}
	return s
}

func genLogger(r *Rng, tier string, n int, emit func(string)) {
	for k := 0; k < n; k++ {
		gres := Pick(r, []string{"none", "none", "ok", "ok", "fail", "wrapno"})
		rres := Pick(r, []string{"inherit", "inherit", "ok2", "fail", "nil", "wrapno"})
		cust := r.Bool()
		cnt := 5 + r.Intn(8)
		var items []string
		for j := 0; j < cnt; j++ {
			kind := Pick(r, []string{"route", "route", "route", "noroute", "nomethod", "redir", "redir2", "options"})
			method, path, raw := "GET", "", ""
			beh := lgGenBeh(r)
			switch kind {
			case "route":
				method = Pick(r, []string{"GET", "POST"})
				path = "/r/abc"
				if r.Intn(5) == 0 {
					path, raw = "/r/a/b", "/r/a%2Fb"
				} else if r.Intn(4) == 0 {
					path = "/alias/abc"
					// (the re-dispatched handler runs on the context of the inner Lookup: a request it sets there is not the
					// outer request the Logger reports)
					if strings.HasPrefix(beh, "q") {
						if i := strings.IndexByte(beh, '+'); i >= 0 {
							beh = beh[i+1:]
						}
					}
				}
			case "noroute":
				method = Pick(r, []string{"GET", "POST", "DELETE"})
				path = Pick(r, []string{"/nowhere", "/r", "/r/abc/def"})
			case "nomethod":
				method = Pick(r, []string{"DELETE", "PUT"})
				path = "/r/abc"
			case "redir":
				method = Pick(r, []string{"GET", "POST"})
				path = "/t"
				beh = "d"
			case "redir2":
				method = Pick(r, []string{"GET", "POST"})
				path = "/u/"
				beh = "d"
			case "options":
				method = "OPTIONS"
				path = "/r/abc"
			}
			if !cust && (kind == "noroute" || kind == "nomethod" || kind == "options") {
				beh = "d"
			}
			host := Pick(r, []string{"example.com", "example.com:8080", "", "ExAmple.COM", "[::1]:80"})
			remote := Pick(r, lgRemotes)
			items = append(items, strings.Join([]string{kind, method, hx(host), hx(path), hx(raw), hx(remote),
				hx(lgRefRemoteIP(remote)), beh}, ","))
		}
		c := "0"
		if cust {
			c = "1"
		}
		if r.Chance(30) {
			// + a CloneWith-wrapping middleware in front of the Logger
			c = string(rune(c[0] + 2))
		}
		emit("logger\t" + strings.Join(items, ";") + "\t" + gres + "\t" + rres + "\t" + c)
	}
}
