package main

// Stream `lru` (property C03): internal/simplelru, the cache in which a write transaction remembers the nodes it has
// cloned itself (tXn.writable), driven through the hook fox.VerifLRURun.
//
//	lru \t <cap> \t <op>;<op>;…     ops: A<k>:<v> G<k> C<k> K<k> R<k> O P Y L Z<n>   (see the hook)
//
// I = the answers of the real cache (compared with the recency-list model of Model/LRU.lean); J = per operation
// `sound`, unless a Get / Contains / Peek answered "present" for a key that was not added since the cache was created
// or last purged (`UNSOUND`) - the one thing property C03 needs of the cache: a node reported as owned by the transaction
// although it is not would be written in place while a published tree shares it. A panic is an oracle failure.

import (
	"fmt"
	"strconv"
	"strings"

	"github.com/tigerwill90/fox"
)

func init() {
	register(&stream{name: "lru", gen: genLRU, run: runLRU})
}

func runLRU(fields []string) string {
	if len(fields) < 3 {
		return "I=bad-case"
	}
	size, _ := strconv.Atoi(fields[1])
	ops := strings.Split(fields[2], ";")
	out := fox.VerifLRURun(size, fields[2])
	res := strings.Split(out, ";")
	added := map[string]bool{}
	js := make([]string, 0, len(res))
	oracle := ""
	for i, r := range res {
		if i >= len(ops) {
			break
		}
		op := ops[i]
		j := "sound"
		switch op[0] {
		case 'A':
			k, _, _ := strings.Cut(op[1:], ":")
			added[k] = true
		case 'P':
			added = map[string]bool{}
		case 'G', 'K':
			if r != "-" && r != "panic" && !added[op[1:]] {
				j = "UNSOUND"
			}
		case 'C':
			if r == "1" && !added[op[1:]] {
				j = "UNSOUND"
			}
		}
		if r == "panic" && oracle == "" {
			oracle = fmt.Sprintf("operation %d (%s) of the cache panicked", i, op)
		}
		js = append(js, j)
	}
	for len(js) < len(ops) {
		js = append(js, "sound")
	}
	s := "I=" + out + "\tJ=" + strings.Join(js, ";")
	if oracle != "" {
		s += "\tO=" + oracle
	}
	return s
}

func genLRU(r *Rng, tier string, n int, emit func(string)) {
	real := fox.VerifWritableCacheSize()
	for c := 0; c < n; c++ {
		cr := r.Fork()
		var ops []string
		size := 1 + cr.Intn(8)
		keys := 2 + cr.Intn(14)
		k := 10 + cr.Intn(60)
		if c%8 == 3 {
			// what a write transaction does, at the real capacity: only Add (a fresh key every time) and Get (of nodes
			// it owns, in the middle of the recency order, and of nodes it does not own), well past the capacity
			size = real
			total := real + real/2 + cr.Intn(real)
			for i := 0; i < total; i++ {
				ops = append(ops, "A"+strconv.Itoa(i)+":"+strconv.Itoa(i%7))
				if cr.Chance(30) {
					ops = append(ops, "G"+strconv.Itoa(cr.Intn(i+1)))
				}
				if cr.Chance(3) {
					ops = append(ops, "G"+strconv.Itoa(total+cr.Intn(100)))
				}
			}
			ops = append(ops, "L")
			emit("lru\t" + strconv.Itoa(size) + "\t" + strings.Join(ops, ";"))
			continue
		}
		if c%8 == 5 {
			// Add / Get only, at a small capacity: also run on the pointer-ring model of list.go by the driver
			for i := 0; i < k+40; i++ {
				key := strconv.Itoa(cr.Intn(keys))
				if cr.Chance(55) {
					ops = append(ops, "A"+key+":"+strconv.Itoa(cr.Intn(100)))
				} else {
					ops = append(ops, "G"+key)
				}
			}
			emit("lru\t" + strconv.Itoa(size) + "\t" + strings.Join(ops, ";"))
			continue
		}
		for i := 0; i < k; i++ {
			key := strconv.Itoa(cr.Intn(keys))
			switch x := cr.Intn(40); {
			case x < 14:
				ops = append(ops, "A"+key+":"+strconv.Itoa(cr.Intn(100)))
			case x < 24:
				ops = append(ops, "G"+key)
			case x < 27:
				ops = append(ops, "C"+key)
			case x < 30:
				ops = append(ops, "K"+key)
			case x < 33:
				ops = append(ops, "R"+key)
			case x < 35:
				ops = append(ops, "O")
			case x < 36:
				ops = append(ops, "P")
			case x < 38:
				ops = append(ops, "Y")
			case x < 39:
				ops = append(ops, "L")
			default:
				ops = append(ops, "Z"+strconv.Itoa(1+cr.Intn(8)))
			}
		}
		ops = append(ops, "Y", "L")
		emit("lru\t" + strconv.Itoa(size) + "\t" + strings.Join(ops, ";"))
	}
}
