package main

// stream `mw` (property C13): middleware chains per handler kind, per route, after Update, and under concurrent route
// creation.
//
//	mw <TAB> <global options> <TAB> <own A> <TAB> <own B> <TAB> <own U>
//	mw <TAB> race:<globals>:<routes>:<rounds>
//
// Observation: the ordered trace of middleware ids per request. User middleware i logs e<i> / x<i> (p<i> when the
// inner handler panicked); handlers show as h<status> at the first write to the underlying writer; the real Recovery is
// identified by where a panic stops (h500), the real Logger by its call of Context.ClientIP after the handler (L).

import (
	"context"
	"fmt"
	"net"
	"net/http"
	"runtime"
	"os"
	"strconv"
	"strings"
	"sync"
	"sync/atomic"
	"syscall"

	"github.com/tigerwill90/fox"
)

func init() { register(&stream{name: "mw", gen: genMw, run: runMw}) }

// ---------------------------------------------------------------- generator

func mwIDs(r *Rng, next *int, max int) string {
	n := 1
	if r.Chance(25) {
		n = 2
	}
	if n > max {
		n = max
	}
	var ids []string
	for i := 0; i < n; i++ {
		ids = append(ids, itoa(*next))
		*next++
	}
	return strings.Join(ids, "+")
}

func genOwn(r *Rng, base int) string {
	n := r.Intn(4)
	if n == 0 {
		return "_"
	}
	var ids []string
	for i := 0; i < n; i++ {
		ids = append(ids, itoa(base+i))
	}
	// a repeated middleware must run twice
	if r.Chance(10) {
		ids = append(ids, ids[0])
	}
	return strings.Join(ids, "+")
}

var mwMasks = []int{248, 128, 64, 32, 16, 8, 0, 255, 7, 1}

func genMw(r *Rng, tier string, n int, emit func(string)) {
	for c := 0; c < n; c++ {
		if c%40 == 39 {
			g := 3 + r.Intn(3)
			routes, rounds := 8, 3
			if tier == "thorough" {
				routes, rounds = 24, 6
			}
			emit(fmt.Sprintf("mw\trace:%d:%d:%d", g, routes, rounds))
			continue
		}
		entries := r.Intn(7)
		next := 1
		var opts []string
		for i := 0; i < entries; i++ {
			switch {
			case r.Chance(35):
				opts = append(opts, "W"+mwIDs(r, &next, 2))
			default:
				mask := Pick(r, mwMasks)
				if r.Chance(50) {
					mask = r.Intn(256)
				}
				opts = append(opts, "F"+itoa(mask)+":"+mwIDs(r, &next, 2))
			}
		}
		if r.Chance(45) {
			pos := r.Intn(len(opts) + 1)
			opts = append(opts[:pos], append([]string{"D"}, opts[pos:]...)...)
			if r.Chance(8) {
				pos = r.Intn(len(opts) + 1)
				opts = append(opts[:pos], append([]string{"D"}, opts[pos:]...)...)
			}
		}
		if r.Chance(50) {
			pos := r.Intn(len(opts) + 1)
			a := "A1"
			if r.Chance(35) {
				a = "A0"
			}
			opts = append(opts[:pos], append([]string{a}, opts[pos:]...)...)
		}
		g := "_"
		if len(opts) > 0 {
			g = strings.Join(opts, ",")
		}
		a, b, u := genOwn(r, 100), genOwn(r, 200), genOwn(r, 300)
		if r.Chance(15) {
			u = a
		}
		emit("mw\t" + g + "\t" + a + "\t" + b + "\t" + u)
	}
}

// ---------------------------------------------------------------- runner

type mwTrace struct {
	mu  sync.Mutex
	evs []string
}

func (t *mwTrace) log(s string) {
	t.mu.Lock()
	t.evs = append(t.evs, s)
	t.mu.Unlock()
}

type mwTraceKey struct{}

// the trace travels with the request (header is not used: the context value keeps concurrent requests apart)
func mwTraceOf(c fox.Context) *mwTrace {
	t, _ := c.Request().Context().Value(mwTraceKey{}).(*mwTrace)
	if t == nil {
		return &mwTrace{}
	}
	return t
}

func mwMiddleware(id int) fox.MiddlewareFunc {
	sid := itoa(id)
	return func(next fox.HandlerFunc) fox.HandlerFunc {
		return func(c fox.Context) {
			t := mwTraceOf(c)
			t.log("e" + sid)
			defer func() {
				if p := recover(); p != nil {
					t.log("p" + sid)
					panic(p)
				}
				t.log("x" + sid)
			}()
			next(c)
		}
	}
}

// mwWriter logs h<status> at the first final write
type mwWriter struct {
	t     *mwTrace
	h     http.Header
	wrote bool
}

func (w *mwWriter) Header() http.Header { return w.h }
func (w *mwWriter) WriteHeader(code int) {
	if code >= 200 && !w.wrote {
		w.wrote = true
		w.t.log("h" + itoa(code))
	}
}
func (w *mwWriter) Write(b []byte) (int, error) {
	if !w.wrote {
		w.wrote = true
		w.t.log("h200")
	}
	return len(b), nil
}

// mwFoxWriter is the fox.ResponseWriter handed to Lookup
type mwFoxWriter struct {
	foxWriter
	w *mwWriter
}

func (w mwFoxWriter) Header() http.Header               { return w.w.Header() }
func (w mwFoxWriter) WriteHeader(code int)              { w.w.WriteHeader(code) }
func (w mwFoxWriter) Write(b []byte) (int, error)       { return w.w.Write(b) }
func (w mwFoxWriter) WriteString(s string) (int, error) { return w.w.Write([]byte(s)) }

func mwRouteHandler(c fox.Context) {
	if c.Request().Header.Get("X-Panic") != "" {
		mwTraceOf(c).log("P")
		panic("mw-stream-panic")
	}
	c.Writer().WriteHeader(http.StatusOK)
}

var mwResolver = fox.ClientIPResolverFunc(func(c fox.Context) (*net.IPAddr, error) {
	mwTraceOf(c).log("L")
	return &net.IPAddr{IP: net.IPv4(192, 0, 2, 1)}, nil
})

// mwSilenceStd points fd 1 and 2 at /dev/null while a case with the real Logger / Recovery runs (both write to the
// *os.File values captured at package initialisation); the harness only writes its own output between cases.
func mwSilenceStd() func() {
	devnull, err := os.OpenFile(os.DevNull, os.O_WRONLY, 0)
	if err != nil {
		return func() {}
	}
	s1, e1 := syscall.Dup(1)
	s2, e2 := syscall.Dup(2)
	if e1 != nil || e2 != nil {
		devnull.Close()
		return func() {}
	}
	_ = syscall.Dup3(int(devnull.Fd()), 1, 0)
	_ = syscall.Dup3(int(devnull.Fd()), 2, 0)
	return func() {
		_ = syscall.Dup3(s1, 1, 0)
		_ = syscall.Dup3(s2, 2, 0)
		syscall.Close(s1)
		syscall.Close(s2)
		devnull.Close()
	}
}

func mwParseIDs(s string) []int {
	if s == "_" || s == "" {
		return nil
	}
	var out []int
	for _, p := range strings.Split(s, "+") {
		v, _ := strconv.Atoi(p)
		out = append(out, v)
	}
	return out
}

func mwFuncs(ids []int) []fox.MiddlewareFunc {
	out := make([]fox.MiddlewareFunc, len(ids))
	for i, id := range ids {
		out[i] = mwMiddleware(id)
	}
	return out
}

func mwGlobalOptions(g string) ([]fox.GlobalOption, bool) {
	opts := []fox.GlobalOption{fox.WithNoMethod(true), fox.WithClientIPResolver(mwResolver)}
	hasD := false
	if g == "_" || g == "" {
		return opts, false
	}
	for _, o := range strings.Split(g, ",") {
		switch {
		case o == "D":
			hasD = true
			opts = append(opts, fox.DefaultOptions())
		case o == "A0":
			opts = append(opts, fox.WithAutoOptions(false))
		case o == "A1":
			opts = append(opts, fox.WithAutoOptions(true))
		case strings.HasPrefix(o, "W"):
			opts = append(opts, fox.WithMiddleware(mwFuncs(mwParseIDs(o[1:]))...))
		case strings.HasPrefix(o, "F"):
			parts := strings.SplitN(o[1:], ":", 2)
			mask, _ := strconv.Atoi(parts[0])
			opts = append(opts, fox.WithMiddlewareFor(fox.HandlerScope(mask), mwFuncs(mwParseIDs(parts[1]))...))
		}
	}
	return opts, hasD
}

func mwWithTrace(req *http.Request, t *mwTrace) *http.Request {
	return req.WithContext(context.WithValue(req.Context(), mwTraceKey{}, t))
}

func mwRequest(t *mwTrace, method, path string) *http.Request {
	return mwWithTrace(newReq(method, "", path), t)
}

// serve runs one request through ServeHTTP and returns its trace ("!" appended when the panic left ServeHTTP)
func mwServe(r *fox.Router, method, path string, panicHdr bool) string {
	t := &mwTrace{}
	req := mwRequest(t, method, path)
	if panicHdr {
		req.Header.Set("X-Panic", "1")
	}
	func() {
		defer func() {
			if p := recover(); p != nil {
				t.log("!")
			}
		}()
		r.ServeHTTP(&mwWriter{t: t, h: http.Header{}}, req)
	}()
	return strings.Join(t.evs, ".")
}

// lookupRun obtains a context through Lookup and runs f on the matched route
func mwLookupRun(r *fox.Router, path string, f func(rt *fox.Route, c fox.Context)) string {
	t := &mwTrace{}
	req := mwRequest(t, "GET", path)
	w := mwFoxWriter{foxWriter: foxWriter{newRecWriter()}, w: &mwWriter{t: t, h: http.Header{}}}
	rt, cc, _ := r.Lookup(w, req)
	if rt == nil {
		return "no-route"
	}
	defer cc.Close()
	f(rt, cc)
	return strings.Join(t.evs, ".")
}

func runMw(fields []string) string {
	if len(fields) == 2 && strings.HasPrefix(fields[1], "race") {
		return runMwRace(fields[1])
	}
	if len(fields) != 5 {
		return "I=bad-case"
	}
	gopts, hasD := mwGlobalOptions(fields[1])
	ownA, ownB, ownU := mwParseIDs(fields[2]), mwParseIDs(fields[3]), mwParseIDs(fields[4])
	if hasD {
		restore := mwSilenceStd()
		defer restore()
	}
	// options are plain values: the same option values configure a first router, then the one under test (an option that
	// keeps state between applications would show here)
	_, _ = fox.New(gopts...)
	r, err := fox.New(gopts...)
	if err != nil {
		return "I=invalidConfig"
	}
	routeOpts := func(own []int) []fox.RouteOption {
		o := []fox.RouteOption{fox.WithRedirectTrailingSlash(true)}
		if len(own) > 0 {
			// one option per middleware or one option for all: both must give the same chain
			if len(own)%2 == 0 {
				o = append(o, fox.WithMiddleware(mwFuncs(own)...))
			} else {
				for _, id := range own {
					o = append(o, fox.WithMiddleware(mwMiddleware(id)))
				}
			}
		}
		return o
	}
	var oracle []string
	var items []string
	// before the first route is registered: the 404 of an empty router runs the same no-route chain
	items = append(items, mwServe(r, "GET", "/zzz", false))
	if _, err := r.Handle("GET", "/a", mwRouteHandler, routeOpts(ownA)...); err != nil {
		return "I=handle-error\tO=Handle failed: " + err.Error()
	}
	items = append(items, mwServe(r, "GET", "/a", false))
	items = append(items, mwServe(r, "GET", "/a", true))
	items = append(items, mwLookupRun(r, "/a", func(rt *fox.Route, c fox.Context) { rt.Handle(c) }))
	items = append(items, mwLookupRun(r, "/a", func(rt *fox.Route, c fox.Context) { rt.HandleMiddleware(c) }))
	items = append(items, mwServe(r, "GET", "/zzz", false))
	items = append(items, mwServe(r, "POST", "/a", false))
	items = append(items, mwServe(r, "GET", "/a/", false))
	items = append(items, mwServe(r, "OPTIONS", "/a", false))
	if _, err := r.Handle("GET", "/b", mwRouteHandler, routeOpts(ownB)...); err != nil {
		return "I=handle-error\tO=Handle failed: " + err.Error()
	}
	items = append(items, mwServe(r, "GET", "/a", false))
	items = append(items, mwServe(r, "GET", "/b", false))
	if _, err := r.Update("GET", "/a", mwRouteHandler, routeOpts(ownU)...); err != nil {
		return "I=update-error\tO=Update failed: " + err.Error()
	}
	items = append(items, mwServe(r, "GET", "/a", false))
	items = append(items, mwLookupRun(r, "/a", func(rt *fox.Route, c fox.Context) { rt.HandleMiddleware(c) }))
	items = append(items, mwServe(r, "GET", "/b", false))
	// model-free: the same request twice gives the same trace (each middleware once per request, no state between requests)
	if again := mwServe(r, "GET", "/b", false); again != items[len(items)-1] {
		oracle = append(oracle, "same request, different trace: "+again+" vs "+items[len(items)-1])
	}
	// a route reached by ignoring a trailing slash (in both directions) runs the same chain as a directly matched one
	if _, err := r.Handle("GET", "/ig", mwRouteHandler, append(routeOpts(ownA), fox.WithIgnoreTrailingSlash(true))...); err != nil {
		return "I=handle-error\tO=Handle failed: " + err.Error()
	}
	if _, err := r.Handle("GET", "/igs/{x}/", mwRouteHandler, append(routeOpts(ownB), fox.WithIgnoreTrailingSlash(true))...); err != nil {
		return "I=handle-error\tO=Handle failed: " + err.Error()
	}
	items = append(items, mwServe(r, "GET", "/ig/", false))
	items = append(items, mwServe(r, "GET", "/ig/", true))
	items = append(items, mwServe(r, "GET", "/igs/v", false))
	res := "I=" + strings.Join(items, "|")
	if len(oracle) > 0 {
		res += "\tO=" + strings.Join(oracle, "; ")
	}
	return res
}

// runMwRace: routes with their own middleware are created concurrently (NewRoute+HandleRoute and Handle) on a router
// with 3-5 global middleware (spare capacity in the router's slice); every route's trace must be its own.
func runMwRace(spec string) string {
	parts := strings.Split(spec, ":")
	if len(parts) != 4 {
		return "I=bad-case"
	}
	g, _ := strconv.Atoi(parts[1])
	nroutes, _ := strconv.Atoi(parts[2])
	rounds, _ := strconv.Atoi(parts[3])
	var bad []string
	for round := 0; round < rounds && len(bad) == 0; round++ {
		var gopts []fox.GlobalOption
		var gids []int
		for i := 1; i <= g; i++ {
			// one option per middleware: the slice grows by append, as in the configurations users write
			gopts = append(gopts, fox.WithMiddleware(mwMiddleware(i)))
			gids = append(gids, i)
		}
		// two middleware for the trailing-slash redirect handler only, and a redirecting route
		gopts = append(gopts, fox.WithMiddlewareFor(fox.RedirectHandler, mwMiddleware(500), mwMiddleware(501)))
		r, err := fox.New(gopts...)
		if err != nil {
			return "I=invalidConfig"
		}
		if _, err := r.Handle("GET", "/rd/", mwRouteHandler, fox.WithRedirectTrailingSlash(true)); err != nil {
			return "I=invalidConfig"
		}
		var wg sync.WaitGroup
		start := make(chan struct{})
		errs := make([]error, nroutes)
		for k := 0; k < nroutes; k++ {
			wg.Add(1)
			go func(k int) {
				defer wg.Done()
				<-start
				own := []fox.RouteOption{fox.WithMiddleware(mwMiddleware(1000+2*k), mwMiddleware(1001+2*k))}
				pat := "/r" + itoa(k)
				if k%2 == 0 {
					rt, err := r.NewRoute(pat, mwRouteHandler, own...)
					if err == nil {
						err = r.HandleRoute("GET", rt)
					}
					errs[k] = err
				} else {
					_, errs[k] = r.Handle("GET", pat, mwRouteHandler, own...)
				}
			}(k)
		}
		// the FIRST redirects of this router are issued at the same time as well (whatever the router prepares lazily for
		// them is prepared once): each runs every redirect-scoped middleware exactly once, and so does a later one
		rdTraces := make([]string, nroutes+1)
		for k := 0; k < nroutes; k++ {
			wg.Add(1)
			go func(k int) {
				defer wg.Done()
				<-start
				rdTraces[k] = mwServe(r, "GET", "/rd", false)
			}(k)
		}
		close(start)
		wg.Wait()
		rdTraces[nroutes] = mwServe(r, "GET", "/rd", false)
		{
			var want []string
			for _, i := range gids {
				want = append(want, "e"+itoa(i))
			}
			want = append(want, "e500", "e501", "h301", "x501", "x500")
			for i := len(gids) - 1; i >= 0; i-- {
				want = append(want, "x"+itoa(gids[i]))
			}
			for k, got := range rdTraces {
				if got != strings.Join(want, ".") {
					bad = append(bad, fmt.Sprintf("redirect #%d trace %s want %s", k, got, strings.Join(want, ".")))
					break
				}
			}
		}
		for k := 0; k < nroutes; k++ {
			if errs[k] != nil {
				bad = append(bad, "route "+itoa(k)+": "+errs[k].Error())
				continue
			}
			var want []string
			for _, i := range gids {
				want = append(want, "e"+itoa(i))
			}
			want = append(want, "e"+itoa(1000+2*k), "e"+itoa(1001+2*k), "h200", "x"+itoa(1001+2*k), "x"+itoa(1000+2*k))
			for i := len(gids) - 1; i >= 0; i-- {
				want = append(want, "x"+itoa(gids[i]))
			}
			got := mwServe(r, "GET", "/r"+itoa(k), false)
			if got != strings.Join(want, ".") {
				bad = append(bad, "route /r"+itoa(k)+" trace "+got+" want "+strings.Join(want, "."))
			}
		}
	}
	// many small routers whose very first redirects are released together by a spinning barrier (a tighter start than a
	// closed channel): whatever a router builds lazily for its redirect handler is built once
	for mini := 0; mini < 120*rounds && len(bad) == 0; mini++ {
		r, err := fox.New(fox.WithMiddlewareFor(fox.RedirectHandler, mwMiddleware(500), mwMiddleware(501)))
		if err != nil {
			return "I=invalidConfig"
		}
		if _, err := r.Handle("GET", "/rd/", mwRouteHandler, fox.WithRedirectTrailingSlash(true)); err != nil {
			return "I=invalidConfig"
		}
		const workers = 4
		var ready, goFlag atomic.Int32
		var wg sync.WaitGroup
		traces := make([]string, workers+1)
		for k := 0; k < workers; k++ {
			wg.Add(1)
			go func(k int) {
				defer wg.Done()
				ready.Add(1)
				for goFlag.Load() == 0 {
				}
				traces[k] = mwServe(r, "GET", "/rd", false)
			}(k)
		}
		for ready.Load() < workers {
			runtime.Gosched()
		}
		goFlag.Store(1)
		wg.Wait()
		traces[workers] = mwServe(r, "GET", "/rd", false)
		for k, got := range traces {
			if got != "e500.e501.h301.x501.x500" {
				bad = append(bad, fmt.Sprintf("router #%d, redirect #%d: trace %s want e500.e501.h301.x501.x500", mini, k, got))
				break
			}
		}
	}
	if len(bad) > 0 {
		if len(bad) > 3 {
			bad = bad[:3]
		}
		return "I=ok\tO=" + strings.Join(bad, "; ")
	}
	return "I=ok"
}
