package main

// Stream `ops` (properties C01 C02 C07 C08 C09): a case is a list of operations on one router
//
//	H,<method>,<pattern hex>,<flags>,<hid>   Handle            → ok | exist | conflict:<sorted patterns> | invalid
//	U,<method>,<pattern hex>,<flags>,<hid>   Update            → ok | notfound | invalid
//	D,<method>,<pattern hex>                 Delete            → ok:<hid> | notfound | invalid
//	T,<m1>+<m2>…                             Truncate          → ok
//	L,<method>,<host hex>,<path hex>         lookup            → none | <pattern>:<tsr>:<params>
//	R,<method>,<pattern hex>                 Route/Has         → <hid> | none
//	N  A  M  P,<method>,<prefix hex>         Len / All / Methods / Prefix
//	X                                        canonical tree dump (verif hook)
//
// flags: bit0 = WithIgnoreTrailingSlash(true), bit1 = WithRedirectTrailingSlash(true).
// The `L` operation calls every entry point that shares the matcher and reports a model-free oracle failure
// when they disagree.

import (
	"errors"
	"fmt"
	"iter"
	"net/http"
	"slices"
	"strconv"
	"strings"

	"github.com/tigerwill90/fox"
)

type hidKey struct{}

func init() {
	register(&stream{name: "ops", gen: genOps, run: runOps})
	// same cases, hostname-heavy generation (property C09)
	register(&stream{name: "opshost", gen: func(r *Rng, tier string, n int, emit func(string)) {
		hostHeavy = true
		genOps(r, tier, n, emit)
	}, run: runOps})
}

var hostHeavy = false

// ---------------------------------------------------------------------------------------------- run

type served struct {
	pattern string
	params  []fox.Param
	hid     int
	called  bool
}

func routeOpts(flags, hid int) []fox.RouteOption {
	opts := []fox.RouteOption{fox.WithAnnotation(hidKey{}, hid)}
	if flags&1 != 0 {
		opts = append(opts, fox.WithIgnoreTrailingSlash(true))
	}
	if flags&2 != 0 {
		opts = append(opts, fox.WithRedirectTrailingSlash(true))
	}
	return opts
}

func hidOf(r *fox.Route) string {
	if r == nil {
		return "none"
	}
	if v, ok := r.Annotation(hidKey{}).(int); ok {
		return strconv.Itoa(v)
	}
	return "?"
}

func classifyErr(err error) string {
	switch {
	case err == nil:
		return "ok"
	case errors.Is(err, fox.ErrRouteExist):
		return "exist"
	case errors.Is(err, fox.ErrRouteNotFound):
		return "notfound"
	case errors.Is(err, fox.ErrRouteConflict):
		var ce *fox.RouteConflictError
		if errors.As(err, &ce) {
			// (the message is rendered first, as a caller that logs the error before inspecting it does: rendering must
			// not disturb the list of conflicting routes)
			_ = err.Error()
			_ = ce.Error()
			hs := make([]string, len(ce.Matched))
			for i, m := range ce.Matched {
				hs[i] = hx(m)
			}
			return "conflict:" + sortedJoin(hs, "+")
		}
		return "conflict:?"
	case errors.Is(err, fox.ErrInvalidRoute):
		return "invalid"
	case errors.Is(err, fox.ErrInvalidConfig):
		return "invalidconfig"
	case errors.Is(err, fox.ErrReadOnlyTxn):
		return "readonly"
	}
	return "err:" + err.Error()
}

func showLookup(r *fox.Route, ps []fox.Param, tsr bool) string {
	if r == nil {
		return "none"
	}
	t := "0"
	if tsr {
		t = "1"
	}
	return hx(r.Pattern()) + ":" + t + ":" + showParams(ps)
}

// lookupAll runs the same request through every entry point sharing the matcher.
func lookupAll(f *fox.Router, cur *served, method, host, path string) (res string, oracle string) {
	req := newReq(method, host, path)
	rte, cc, tsr := f.Lookup(foxWriter{newRecWriter()}, req)
	var ps []fox.Param
	if cc != nil {
		ps = slices.Collect(cc.Params())
	}
	res = showLookup(rte, ps, tsr)

	var diffs []string
	if cc != nil {
		if o := paramsEarlyStop(cc, ps); o != "" {
			diffs = append(diffs, o)
		}
		cc.Close()
	}
	// Reverse
	r2, tsr2 := f.Reverse(method, host, path)
	if r2 != rte || tsr2 != tsr {
		diffs = append(diffs, "Router.Reverse="+showLookup(r2, nil, tsr2))
	}
	// read-only transaction
	txn := f.Txn(false)
	r3, cc3, tsr3 := txn.Lookup(foxWriter{newRecWriter()}, newReq(method, host, path))
	var ps3 []fox.Param
	if cc3 != nil {
		ps3 = slices.Collect(cc3.Params())
		cc3.Close()
	}
	if s := showLookup(r3, ps3, tsr3); s != res {
		diffs = append(diffs, "Txn.Lookup="+s)
	}
	// a request whose URL carries the path to match in RawPath (and something else in Path): both Lookups match RawPath
	if path != "" {
		for i, lk := range []func(fox.ResponseWriter, *http.Request) (*fox.Route, fox.ContextCloser, bool){f.Lookup, txn.Lookup} {
			rq := newReq(method, host, "/zzdecoded")
			rq.URL.RawPath = path
			rr, ccr, tr := lk(foxWriter{newRecWriter()}, rq)
			var psr []fox.Param
			if ccr != nil {
				psr = slices.Collect(ccr.Params())
				if o := paramsEarlyStop(ccr, psr); o != "" {
					diffs = append(diffs, o)
				}
				ccr.Close()
			}
			if s := showLookup(rr, psr, tr); s != res {
				diffs = append(diffs, fmt.Sprintf("Lookup(RawPath)[%d]=%s", i, s))
			}
		}
	}
	r4, tsr4 := txn.Reverse(method, host, path)
	if r4 != rte || tsr4 != tsr {
		diffs = append(diffs, "Txn.Reverse="+showLookup(r4, nil, tsr4))
	}
	// iterator Reverse (reports a slash-adjusted match only for routes that act on it)
	var r5 *fox.Route
	n5 := 0
	for _, r := range txn.Iter().Reverse(slices.Values([]string{method}), host, path) {
		r5 = r
		n5++
	}
	// the same over every registered method at once, and stopped early
	{
		var full []string
		show := func(m string, r *fox.Route) string { return m + ":" + hx(r.Pattern()) }
		for m, r := range txn.Iter().Reverse(txn.Iter().Methods(), host, path) {
			full = append(full, show(m, r))
			if m == method && r != r5 {
				diffs = append(diffs, "Iter.Reverse(all methods) yields "+show(m, r)+" for "+method)
			}
		}
		if o := earlyStop2("Iter.Reverse", txn.Iter().Reverse(txn.Iter().Methods(), host, path), full, show); o != "" {
			diffs = append(diffs, o)
		}
	}
	txn.Abort()
	want5 := rte
	if tsr && rte != nil && !rte.IgnoreTrailingSlashEnabled() && !rte.RedirectTrailingSlashEnabled() {
		want5 = nil
	}
	if r5 != want5 || n5 > 1 {
		diffs = append(diffs, fmt.Sprintf("Iter.Reverse=%s(n=%d)", showLookup(r5, nil, false), n5))
	}
	// ServeHTTP: on a direct match the route's handler must run with the same params
	*cur = served{}
	w := newRecWriter()
	f.ServeHTTP(w, newReq(method, host, path))
	if rte != nil && !tsr {
		if !cur.called || cur.pattern != rte.Pattern() || showParams(cur.params) != showParams(ps) || strconv.Itoa(cur.hid) != hidOf(rte) {
			diffs = append(diffs, fmt.Sprintf("ServeHTTP=called:%v,%s,%s", cur.called, hx(cur.pattern), showParams(cur.params)))
		}
	} else if rte == nil && cur.called {
		diffs = append(diffs, "ServeHTTP=handler-ran-without-match:"+hx(cur.pattern))
	} else if rte != nil && tsr && cur.called {
		// served by ignoring the trailing slash: must be that route, with the adjusted params
		if !rte.IgnoreTrailingSlashEnabled() || method == "CONNECT" || cur.pattern != rte.Pattern() || showParams(cur.params) != showParams(ps) {
			diffs = append(diffs, fmt.Sprintf("ServeHTTP(tsr)=%s,%s", hx(cur.pattern), showParams(cur.params)))
		}
	}
	// inside a write transaction with uncommitted changes every entry point must read the transaction's own state:
	// register a probe route, delete nothing, compare, abort
	_ = f.Updates(func(wt *fox.Txn) error {
		probePat := "/zzprobe-" + method + "/{q}/leaf"
		if _, err := wt.Handle(method, probePat, func(c fox.Context) {}); err == nil {
			pp := "/zzprobe-" + method + "/1/leaf"
			ra, cca, ta := wt.Lookup(foxWriter{newRecWriter()}, newReq(method, host, pp))
			var psa []fox.Param
			if cca != nil {
				psa = slices.Collect(cca.Params())
				cca.Close()
			}
			rb, tb := wt.Reverse(method, host, pp)
			var rc *fox.Route
			for _, r := range wt.Iter().Reverse(slices.Values([]string{method}), host, pp) {
				rc = r
			}
			rd := wt.Route(method, probePat)
			sn := wt.Snapshot()
			re, te := sn.Reverse(method, host, pp)
			if ra != rb || ta != tb || (rc != ra && !ta) || re != ra || te != ta || (rd == nil) != (ra == nil && false) && rd == nil {
				diffs = append(diffs, fmt.Sprintf("write-txn(uncommitted %s): Lookup=%s Reverse=%s Iter.Reverse=%s Route=%v Snapshot.Reverse=%s",
					hx(probePat), showLookup(ra, psa, ta), showLookup(rb, nil, tb), showLookup(rc, nil, false), rd != nil, showLookup(re, nil, te)))
			}
		}
		// the original request through the write transaction
		r1, cc1, t1 := wt.Lookup(foxWriter{newRecWriter()}, newReq(method, host, path))
		if cc1 != nil {
			cc1.Close()
		}
		r2, t2 := wt.Reverse(method, host, path)
		if r1 != r2 || t1 != t2 {
			diffs = append(diffs, "write-txn: Lookup="+showLookup(r1, nil, t1)+" Reverse="+showLookup(r2, nil, t2))
		}
		return errors.New("abort")
	})
	if len(diffs) > 0 {
		oracle = "entry points disagree on " + method + " host=" + hx(host) + " path=" + hx(path) + ": Lookup=" + res + " " + strings.Join(diffs, " ")
	}
	// the result also names the handler registered last for the route (an Update must show through every node the matcher
	// reaches the route by: leaf, precomputed infix sub-node)
	if rte != nil {
		res += "#" + hidOf(rte)
	}
	return
}

func runOps(fields []string) string {
	if len(fields) < 2 {
		return "I=bad-case"
	}
	f, err := fox.New()
	if err != nil {
		return "I=new-failed"
	}
	outI, outJ, oracles := runOpsOn(f, fields[1])
	out := "I=" + strings.Join(outI, "|") + "\tJ=" + strings.Join(outJ, "|")
	if len(oracles) > 0 {
		out += "\tO=" + strings.Join(oracles, " ;; ")
	}
	return out
}

func runOpsOn(f *fox.Router, opsField string) (outI, outJ, oracles []string) {
	cur := &served{}
	mkHandler := func(hid int) fox.HandlerFunc {
		return func(c fox.Context) {
			cur.called = true
			cur.pattern = c.Pattern()
			cur.params = slices.Collect(c.Params())
			cur.hid = hid
		}
	}
	emit := func(i, j string) { outI = append(outI, i); outJ = append(outJ, j) }
	for _, op := range strings.Split(opsField, ";") {
		if op == "" {
			continue
		}
		a := strings.Split(op, ",")
		switch {
		case a[0] == "H" && len(a) == 5:
			flags, _ := strconv.Atoi(a[3])
			hid, _ := strconv.Atoi(a[4])
			_, err := f.Handle(a[1], unhx(a[2]), mkHandler(hid), routeOpts(flags, hid)...)
			s := classifyErr(err)
			emit(s, s)
		case a[0] == "U" && len(a) == 5:
			flags, _ := strconv.Atoi(a[3])
			hid, _ := strconv.Atoi(a[4])
			_, err := f.Update(a[1], unhx(a[2]), mkHandler(hid), routeOpts(flags, hid)...)
			s := classifyErr(err)
			emit(s, s)
		case a[0] == "D" && len(a) == 3:
			r, err := f.Delete(a[1], unhx(a[2]))
			s := classifyErr(err)
			if err == nil {
				s = "ok:" + hidOf(r)
			}
			emit(s, s)
		case a[0] == "T" && len(a) == 2:
			var ms []string
			for _, m := range strings.Split(a[1], "+") {
				if m != "" {
					ms = append(ms, m)
				}
			}
			err := f.Updates(func(txn *fox.Txn) error { return txn.Truncate(ms...) })
			s := classifyErr(err)
			emit(s, s)
		case a[0] == "G" && len(a) == 3:
			// inner writes in one write transaction, committed (o) or aborted (e)
			txn := f.Txn(true)
			var res []string
			for _, in := range strings.Split(a[2], "&") {
				if in == "" {
					continue
				}
				b := strings.Split(in, ":")
				switch {
				case b[0] == "H" && len(b) == 5:
					flags, _ := strconv.Atoi(b[3])
					hid, _ := strconv.Atoi(b[4])
					_, err := txn.Handle(b[1], unhx(b[2]), mkHandler(hid), routeOpts(flags, hid)...)
					res = append(res, classifyErr(err))
				case b[0] == "U" && len(b) == 5:
					flags, _ := strconv.Atoi(b[3])
					hid, _ := strconv.Atoi(b[4])
					_, err := txn.Update(b[1], unhx(b[2]), mkHandler(hid), routeOpts(flags, hid)...)
					res = append(res, classifyErr(err))
				case b[0] == "D" && len(b) == 3:
					r, err := txn.Delete(b[1], unhx(b[2]))
					s := classifyErr(err)
					if err == nil {
						s = "ok:" + hidOf(r)
					}
					res = append(res, s)
				case b[0] == "T" && len(b) == 2:
					var ms []string
					for _, m := range strings.Split(b[1], "+") {
						if m != "" {
							ms = append(ms, m)
						}
					}
					res = append(res, classifyErr(txn.Truncate(ms...)))
				default:
					res = append(res, "bad-op")
				}
			}
			if a[1] == "o" {
				txn.Commit()
			} else {
				txn.Abort()
			}
			s := strings.Join(res, "&")
			emit(s, s)
		case a[0] == "L" && len(a) == 4:
			res, o := lookupAll(f, cur, a[1], unhx(a[2]), unhx(a[3]))
			if o != "" {
				oracles = append(oracles, o)
			}
			emit(res, res)
		case a[0] == "R" && len(a) == 3:
			r := f.Route(a[1], unhx(a[2]))
			has := f.Has(a[1], unhx(a[2]))
			if has != (r != nil) {
				oracles = append(oracles, "Has and Route disagree on "+a[1]+" "+a[2])
			}
			n := 0
			for _, r6 := range f.Iter().Routes(slices.Values([]string{a[1]}), unhx(a[2])) {
				n++
				if r6 != r {
					oracles = append(oracles, "Iter.Routes and Route disagree on "+a[1]+" "+a[2])
				}
			}
			if (n == 1) != (r != nil) {
				oracles = append(oracles, "Iter.Routes count and Route disagree on "+a[1]+" "+a[2])
			}
			// the same question through a read-only transaction, an (aborted) write transaction and their iterators
			for _, w := range []bool{false, true} {
				txn := f.Txn(w)
				if tr := txn.Route(a[1], unhx(a[2])); tr != r {
					oracles = append(oracles, fmt.Sprintf("Txn(%v).Route and Router.Route disagree on %s %s", w, a[1], a[2]))
				}
				if txn.Has(a[1], unhx(a[2])) != (r != nil) {
					oracles = append(oracles, fmt.Sprintf("Txn(%v).Has and Router.Route disagree on %s %s", w, a[1], a[2]))
				}
				nt := 0
				for _, r7 := range txn.Iter().Routes(slices.Values([]string{a[1]}), unhx(a[2])) {
					nt++
					if r7 != r {
						oracles = append(oracles, fmt.Sprintf("Txn(%v).Iter.Routes and Router.Route disagree on %s %s", w, a[1], a[2]))
					}
				}
				if (nt == 1) != (r != nil) {
					oracles = append(oracles, fmt.Sprintf("Txn(%v).Iter.Routes count and Router.Route disagree on %s %s", w, a[1], a[2]))
				}
				txn.Abort()
			}
			emit(hidOf(r), hidOf(r))
		case a[0] == "N":
			s := strconv.Itoa(f.Len())
			if o := invalidWrites(f); o != "" {
				oracles = append(oracles, o)
			}
			emit(s, s)
		case a[0] == "A":
			var items []string
			for m, r := range f.Iter().All() {
				items = append(items, m+":"+hx(r.Pattern())+":"+hidOf(r))
			}
			if o := earlyStop2("Iter.All", f.Iter().All(), items, func(m string, r *fox.Route) string { return m + ":" + hx(r.Pattern()) + ":" + hidOf(r) }); o != "" {
				oracles = append(oracles, o)
			}
			emit(strings.Join(items, "+"), sortedJoin(items, "+"))
		case a[0] == "M":
			items := slices.Collect(f.Iter().Methods())
			if o := earlyStop("Iter.Methods", f.Iter().Methods(), items); o != "" {
				oracles = append(oracles, o)
			}
			emit(strings.Join(items, "+"), sortedJoin(items, "+"))
		case a[0] == "P" && len(a) == 3:
			var items []string
			for m, r := range f.Iter().Prefix(slices.Values(strings.Split(a[1], "+")), unhx(a[2])) {
				items = append(items, m+":"+hx(r.Pattern()))
			}
			if o := earlyStop2("Iter.Prefix", f.Iter().Prefix(slices.Values(strings.Split(a[1], "+")), unhx(a[2])), items, func(m string, r *fox.Route) string { return m + ":" + hx(r.Pattern()) }); o != "" {
				oracles = append(oracles, o)
			}
			emit(strings.Join(items, "+"), sortedJoin(items, "+"))
		case a[0] == "X":
			size, mp, depth := fox.VerifTreeStats(f)
			emit(fox.VerifDumpRouter(f)+" size="+strconv.Itoa(size)+" mp="+strconv.Itoa(int(mp))+" depth="+strconv.Itoa(int(depth))+" rep="+fox.VerifDumpRep(f), "-")
			// getEdge (linear up to 50 children, bisection above) finds on every node, for every byte, the child a
			// plain scan finds (theorem Fox.C02.Rep.getEdge_on_reachable says it must)
			if o := fox.VerifEdgeCheck(f); o != "" {
				oracles = append(oracles, o)
			}
		default:
			emit("bad-op", "bad-op")
		}
	}
	return
}

// invalidWrites: writes that name no (method, pattern) key at all - a missing or malformed method, a nil route, a nil
// handler - fail with an error, through the router helpers and inside a transaction that is then committed, and leave
// the registered routes as they were.
func invalidWrites(f *fox.Router) string {
	before := fox.VerifDumpRouter(f)
	h := func(c fox.Context) {}
	var pat string
	var meth string
	for m, r := range f.Iter().All() {
		meth, pat = m, r.Pattern()
		break
	}
	if pat == "" {
		meth, pat = "GET", "/zzinvalid"
	}
	good, _ := f.NewRoute(pat, h)
	fresh, _ := f.NewRoute("/zzinvalid/{a}", h)
	var bad []string
	expect := func(what string, err error) {
		if err == nil {
			bad = append(bad, what+" succeeded")
		}
	}
	err := f.Updates(func(txn *fox.Txn) error {
		for _, m := range []string{"", "get", "G3T", "GE T", "GET "} {
			expect("Txn.HandleRoute method "+strconv.Quote(m), txn.HandleRoute(m, fresh))
			_, e := txn.Handle(m, "/zzinvalid/{a}", h)
			expect("Txn.Handle method "+strconv.Quote(m), e)
		}
		expect("Txn.HandleRoute nil route", txn.HandleRoute("GET", nil))
		expect("Txn.UpdateRoute nil route", txn.UpdateRoute(meth, nil))
		expect("Txn.UpdateRoute empty method", txn.UpdateRoute("", good))
		_, e := txn.Update("", pat, h)
		expect("Txn.Update empty method", e)
		_, e = txn.Update(meth, pat, nil)
		expect("Txn.Update nil handler", e)
		_, e = txn.Handle("GET", "/zzinvalid/{a}", nil)
		expect("Txn.Handle nil handler", e)
		_, e = txn.Delete("", pat)
		expect("Txn.Delete empty method", e)
		return nil
	})
	if err != nil {
		bad = append(bad, "Updates: "+err.Error())
	}
	expect("Router.HandleRoute nil route", f.HandleRoute("GET", nil))
	expect("Router.UpdateRoute nil route", f.UpdateRoute(meth, nil))
	expect("Router.HandleRoute empty method", f.HandleRoute("", fresh))
	if _, e := f.Delete("", pat); e == nil {
		bad = append(bad, "Router.Delete empty method succeeded")
	}
	if after := fox.VerifDumpRouter(f); after != before {
		bad = append(bad, "the registered routes changed: "+before+" -> "+after)
	}
	// a route built by ANOTHER router (looser limits) and accepted by HandleRoute of a router with tighter limits is a
	// registered route like any other: every reader reports it
	if loose, e1 := fox.New(); e1 == nil {
		if tight, e2 := fox.New(fox.WithMaxRouteParamKeyBytes(3), fox.WithMaxRouteParams(1)); e2 == nil {
			for _, fp := range []string{"/zzforeign/{longname}", "/zzf/{a}/{b}/{c}", "/zzplain"} {
				rte, e3 := loose.NewRoute(fp, h)
				if e3 != nil || tight.HandleRoute("GET", rte) != nil {
					continue
				}
				n := 0
				for range tight.Iter().Routes(slices.Values([]string{"GET"}), fp) {
					n++
				}
				txn := tight.Txn(false)
				if !tight.Has("GET", fp) || tight.Route("GET", fp) != rte || !txn.Has("GET", fp) || txn.Route("GET", fp) != rte || n != 1 {
					bad = append(bad, fmt.Sprintf("a route %s built by another router and accepted by HandleRoute: Has=%v Route=%v Txn.Has=%v Txn.Route=%v Iter.Routes=%d",
						fp, tight.Has("GET", fp), tight.Route("GET", fp) == rte, txn.Has("GET", fp), txn.Route("GET", fp) == rte, n))
				}
				txn.Abort()
			}
		}
	}
	if len(bad) > 0 {
		return "invalid writes: " + strings.Join(bad, "; ")
	}
	return ""
}

// paramsEarlyStop: Context.Params stopped after its first element yields the first parameter and stops.
func paramsEarlyStop(c fox.Context, full []fox.Param) (o string) {
	defer func() {
		if p := recover(); p != nil {
			o = fmt.Sprintf("Context.Params: stopping early panics: %v", p)
		}
	}()
	for k := 1; k <= len(full) && k <= 2; k++ {
		var got []fox.Param
		for p := range c.Params() {
			got = append(got, p)
			if len(got) == k {
				break
			}
		}
		if !slices.Equal(got, full[:k]) {
			return fmt.Sprintf("Context.Params: the first %d elements are %v, the full enumeration starts %v", k, got, full[:k])
		}
	}
	return ""
}

// earlyStop2 consumes seq again but stops after every possible number of elements: a consumer that breaks out of the loop
// sees exactly the prefix of the full enumeration, and the sequence stops calling it (the runtime panics otherwise).
func earlyStop2(what string, seq iter.Seq2[string, *fox.Route], full []string, show func(string, *fox.Route) string) (o string) {
	defer func() {
		if p := recover(); p != nil {
			o = fmt.Sprintf("%s: stopping early panics: %v", what, p)
		}
	}()
	for k := 1; k <= len(full) && k <= 3; k++ {
		var got []string
		for m, r := range seq {
			got = append(got, show(m, r))
			if len(got) == k {
				break
			}
		}
		if !slices.Equal(got, full[:k]) {
			return fmt.Sprintf("%s: the first %d elements are %v, the full enumeration starts %v", what, k, got, full[:k])
		}
	}
	return ""
}

func earlyStop(what string, seq iter.Seq[string], full []string) (o string) {
	defer func() {
		if p := recover(); p != nil {
			o = fmt.Sprintf("%s: stopping early panics: %v", what, p)
		}
	}()
	for k := 1; k <= len(full) && k <= 3; k++ {
		var got []string
		for m := range seq {
			got = append(got, m)
			if len(got) == k {
				break
			}
		}
		if !slices.Equal(got, full[:k]) {
			return fmt.Sprintf("%s: the first %d elements are %v, the full enumeration starts %v", what, k, got, full[:k])
		}
	}
	return ""
}

// ---------------------------------------------------------------------------------------------- gen

var (
	staticSegs = []string{"a", "b", "ab", "abc", "c", "foo", "foobar", "fo"}
	paramSegs  = []string{"{x}", "{y}", "{z}", "a{x}", "ab{y}", "foo{z}"}
	catchSegs  = []string{"*{w}", "*{v}", "a*{w}", "foo*{v}"}
	hostPats   = []string{"a.b", "a.{t}", "{s}.b", "{s}.{t}", "b{s}.c", "a.b.c", "{s}.b.c", "a.{t}.c", "ab.b", "a{s}.b", "example.com", "{sub}.example.com",
		// several parameters in one node followed by static text; hostnames extending one another at '.' and '-'
		"{s}.{t}.c", "{s}.{t}.example.com", "a{s}.b{t}.c", "{s}.{t}.{u}.b", "example.com.au", "a-b", "a.b-c", "{sub}.example.com.internal", "a.b.c.foo"}
	valuePool  = []string{"a", "b", "ab", "abc", "c", "x1", "foo", "foobar", "fo", "zz", "*abc", "{x}", "a.b", "b-c", ".", ".."}
	labelPool  = []string{"a", "b", "ab", "c", "x1", "foo", "example", "com", "bc"}
	methodPool = []string{"GET", "GET", "GET", "POST", "POST", "PUT", "DELETE", "PATCH", "CONNECT", "OPTIONS", "FOO"}
)

// genPathPattern builds a valid path pattern from the token grammar.
func genPathPattern(r *Rng) string {
	n := 1 + r.Intn(4)
	var sb strings.Builder
	prevCatch := false
	for i := 0; i < n; i++ {
		sb.WriteByte('/')
		k := r.Intn(10)
		switch {
		case k < 5:
			sb.WriteString(Pick(r, staticSegs))
			prevCatch = false
		case k < 8:
			sb.WriteString(Pick(r, paramSegs))
			prevCatch = false
		default:
			if prevCatch {
				sb.WriteString(Pick(r, staticSegs))
				prevCatch = false
			} else {
				sb.WriteString(Pick(r, catchSegs))
				prevCatch = true
			}
		}
	}
	if r.Chance(30) {
		sb.WriteByte('/')
	}
	return sb.String()
}

func genPattern(r *Rng, hostPct int) string {
	p := genPathPattern(r)
	if r.Chance(hostPct) {
		return Pick(r, hostPats) + p
	}
	return p
}

// genNestedPool builds a pattern pool in which about half of the entries extend or truncate another entry at a
// segment boundary, so that histories update a route and then write below it, delete parents of live children, etc.
func genNestedPool(r *Rng, n int, hostPct int) []string {
	pool := make([]string, 0, n)
	for len(pool) < n {
		if len(pool) > 0 && r.Chance(50) {
			base := Pick(r, pool)
			switch r.Intn(3) {
			case 0:
				ext := strings.TrimSuffix(base, "/")
				if strings.HasSuffix(ext, "}") && strings.Contains(ext[strings.LastIndexByte(ext, '/'):], "*{") && r.Bool() {
					ext += "/" + Pick(r, staticSegs)
				} else {
					ext += "/" + Pick(r, append(append([]string{}, staticSegs...), paramSegs...))
				}
				pool = append(pool, ext)
			case 1:
				h, pth := splitHostPath(base)
				segs := strings.Split(strings.Trim(pth, "/"), "/")
				if len(segs) > 1 {
					pool = append(pool, h+"/"+strings.Join(segs[:len(segs)-1], "/"))
				} else {
					pool = append(pool, genPattern(r, hostPct))
				}
			default:
				if strings.HasSuffix(base, "/") && len(base) > 1 {
					pool = append(pool, base[:len(base)-1])
				} else {
					pool = append(pool, base+"/")
				}
			}
			continue
		}
		pool = append(pool, genPattern(r, hostPct))
	}
	return pool
}

// genBacktrackFamily: patterns of equal depth whose segments are, level by level, either a level-specific static word
// or a level-specific parameter: every subset shares prefixes and forces nested backtracking below captured parameters.
func genBacktrackFamily(r *Rng) (pats []string, probes []string) {
	depth := 3 + r.Intn(3)
	words := []string{"x", "y", "z", "w", "q"}
	n := 3 + r.Intn(6)
	seen := map[string]bool{}
	for len(pats) < n {
		var sb strings.Builder
		for l := 0; l < depth; l++ {
			sb.WriteByte('/')
			switch r.Intn(5) {
			case 0, 1:
				sb.WriteString(words[l])
			case 2, 3:
				sb.WriteString("{p" + strconv.Itoa(l) + "}")
			default:
				sb.WriteString(words[(l+1)%len(words)])
			}
		}
		p := sb.String()
		if r.Chance(15) {
			p += "/"
		}
		if !seen[p] {
			seen[p] = true
			pats = append(pats, p)
		}
		if len(seen) > 40 {
			break
		}
	}
	for i := 0; i < 10+r.Intn(10); i++ {
		var sb strings.Builder
		for l := 0; l < depth; l++ {
			sb.WriteByte('/')
			sb.WriteString(Pick(r, []string{words[l], words[l], words[(l+1)%len(words)], "v", "v" + strconv.Itoa(l)}))
		}
		if r.Chance(15) {
			sb.WriteByte('/')
		}
		probes = append(probes, sb.String())
	}
	return
}

// instantiate substitutes values for the wildcards of a pattern (host or path part).
func instantiate(r *Rng, pat string, host bool) string {
	var sb strings.Builder
	for i := 0; i < len(pat); {
		switch {
		case pat[i] == '{':
			e := strings.IndexByte(pat[i:], '}')
			if host {
				sb.WriteString(Pick(r, labelPool))
			} else {
				sb.WriteString(Pick(r, valuePool))
			}
			i += e + 1
		case pat[i] == '*' && i+1 < len(pat) && pat[i+1] == '{':
			e := strings.IndexByte(pat[i:], '}')
			k := 1 + r.Intn(3)
			for j := 0; j < k; j++ {
				if j > 0 {
					sb.WriteByte('/')
				}
				sb.WriteString(Pick(r, valuePool))
			}
			i += e + 1
		default:
			sb.WriteByte(pat[i])
			i++
		}
	}
	return sb.String()
}

func splitHostPath(pat string) (string, string) {
	i := strings.IndexByte(pat, '/')
	if i <= 0 {
		return "", pat
	}
	return pat[:i], pat[i:]
}

func perturbPath(r *Rng, p string) string {
	switch r.Intn(12) {
	case 0, 1, 2:
		// toggle the trailing slash
		if len(p) > 1 && strings.HasSuffix(p, "/") {
			return p[:len(p)-1]
		}
		return p + "/"
	case 3:
		return p + Pick(r, staticSegs)
	case 4:
		return p + "/" + Pick(r, valuePool)
	case 5:
		if len(p) > 2 {
			return p[:len(p)-1-r.Intn(min(3, len(p)-1))]
		}
	case 6:
		// replace one segment
		segs := strings.Split(p, "/")
		if len(segs) > 1 {
			segs[1+r.Intn(len(segs)-1)] = Pick(r, valuePool)
			return strings.Join(segs, "/")
		}
	case 7:
		segs := strings.Split(p, "/")
		if len(segs) > 2 {
			i := 1 + r.Intn(len(segs)-1)
			segs = append(segs[:i], segs[i+1:]...)
			return strings.Join(segs, "/")
		}
	}
	return p
}

func perturbHost(r *Rng, h string) string {
	switch r.Intn(15) {
	case 12:
		// non-empty Hosts that are empty once port and trailing dot are stripped: served by the path-only fallback
		return Pick(r, []string{".", ":8080", ".:8080", ":", ".:"})
	case 0:
		return h + ":8080"
	case 1:
		return h + "."
	case 2:
		return h + ".evil.org"
	case 3:
		return h + "x"
	case 4:
		return "x" + h
	case 5:
		return "www." + h
	case 6:
		if len(h) > 1 {
			return h[:len(h)-1]
		}
	case 7:
		return ""
	case 8:
		return h + ".:443"
	case 9:
		return h + ".."
	case 10:
		return strings.ToUpper(h)
	case 11:
		return Pick(r, []string{"127.0.0.1", "127.0.0.1:80", "[::1]:80", "[::1]", "::1", "a.b:", "a.b:x", "[a.b]:80"})
	}
	return h
}

// genProbe derives a request from the registered patterns.
func genProbe(r *Rng, pats []string, methods []string) string {
	m := Pick(r, methods)
	if r.Chance(5) {
		m = Pick(r, methodPool)
	}
	var host, path string
	if len(pats) > 0 && r.Chance(92) {
		hp, pp := splitHostPath(Pick(r, pats))
		path = instantiate(r, pp, false)
		if hp != "" {
			host = instantiate(r, hp, true)
		} else if r.Chance(25) {
			// a path-only pattern probed with a host from another pattern
			if h2, _ := splitHostPath(Pick(r, pats)); h2 != "" {
				host = instantiate(r, h2, true)
			} else {
				host = "a.b"
			}
		}
		if r.Chance(55) {
			path = perturbPath(r, path)
		}
		if host != "" && r.Chance(45) {
			host = perturbHost(r, host)
		}
		if r.Chance(10) {
			// recombine with another pattern's path
			_, p2 := splitHostPath(Pick(r, pats))
			path = instantiate(r, p2, false)
		}
	} else {
		n := 1 + r.Intn(4)
		for i := 0; i < n; i++ {
			path += "/" + Pick(r, valuePool)
		}
		if r.Chance(30) {
			path += "/"
		}
		if r.Chance(30) {
			host = Pick(r, labelPool) + "." + Pick(r, labelPool)
		}
	}
	if path == "" {
		path = "/"
	}
	if !r.Chance(2) {
		// the routing rules speak about paths without empty segments; keep a few for the model comparison only
		for strings.Contains(path, "//") {
			path = strings.ReplaceAll(path, "//", "/")
		}
	}
	return "L," + m + "," + hx(host) + "," + hx(path)
}

func genReads(r *Rng, pats []string, methods []string) []string {
	var ops []string
	k := r.Intn(4)
	for i := 0; i < k; i++ {
		switch r.Intn(6) {
		case 0:
			ops = append(ops, "N")
		case 1:
			ops = append(ops, "A")
		case 2:
			ops = append(ops, "M")
		case 3:
			if len(pats) > 0 {
				ops = append(ops, "R,"+Pick(r, methods)+","+hx(Pick(r, pats)))
			}
		case 4:
			if len(pats) > 0 {
				p := Pick(r, pats)
				// Prefix over one method or over several (the iterator walks them in the given order)
				ms := Pick(r, methods)
				if r.Chance(50) {
					ms = strings.Join([]string{Pick(r, methodPool), Pick(r, methods), Pick(r, methods), Pick(r, methodPool)}[:2+r.Intn(3)], "+")
				}
				ops = append(ops, "P,"+ms+","+hx(p[:r.Intn(len(p)+1)]))
			}
		case 5:
			if len(pats) > 0 {
				// a pattern that is a strict prefix / extension of a registered one
				p := Pick(r, pats)
				if r.Bool() && len(p) > 1 {
					p = p[:len(p)-1]
				} else {
					p += "/" + Pick(r, staticSegs)
				}
				ops = append(ops, "R,"+Pick(r, methods)+","+hx(p))
			}
		}
	}
	return ops
}

// genTruncMethods: the method list of a Truncate: usually one method; sometimes several, in or out of registration
// order, with a duplicate, or with a method that has no routes
func genTruncMethods(r *Rng, methods []string) string {
	if r.Chance(60) {
		return Pick(r, methods)
	}
	k := 2 + r.Intn(3)
	ms := make([]string, k)
	for i := range ms {
		if r.Chance(85) {
			ms[i] = Pick(r, methods)
		} else {
			ms[i] = Pick(r, methodPool)
		}
	}
	if r.Chance(30) {
		ms[k-1] = ms[0]
	}
	return strings.Join(ms, "+")
}

// genHostFamily: hostnames that extend one another as strings (at a label boundary, inside a label, by a parameter),
// each serving one to three paths, some of which share a path prefix that is not itself a route. Deleting the routes of
// one host one by one meets the host/path boundary cases of the tree (a host node above its path sub-tree, next to the
// continuation of a longer host).
func genHostFamily(r *Rng) []string {
	hbase := Pick(r, []string{"a.b", "{s}.b", "a.{t}", "ab.example.com", "{s}.{t}", "b"})
	hostTails := []string{"", ".c", "c", "-c", ".{u}", ".c.d", "{v}"}
	pathSets := [][]string{{"/foo", "/bar"}, {"/x"}, {"/"}, {"/foo", "/foo/{x}", "/fob"}, {"/{p}", "/q"}, {"/foo/", "/fo"}, {"/*{w}", "/a"}}
	var fam []string
	seen := map[string]bool{}
	for _, ht := range hostTails {
		if ht != "" && !r.Chance(50) {
			continue
		}
		h := hbase + ht
		if strings.HasSuffix(hbase, "}") && strings.HasPrefix(ht, "{") {
			continue
		}
		for _, pt := range Pick(r, pathSets) {
			if !seen[h+pt] {
				seen[h+pt] = true
				fam = append(fam, h+pt)
			}
		}
	}
	if r.Chance(40) {
		fam = append(fam, Pick(r, []string{"/foo", "/x", "/{p}"}))
	}
	if r.Chance(50) {
		// a parameterised host next to a static one, serving the slash-toggled path: a request that is a trailing-slash
		// candidate under the static host is a direct match under the parameterised one (and vice versa)
		for _, p := range append([]string(nil), fam...) {
			hp, pp := splitHostPath(p)
			if hp == "" || strings.Contains(hp, "{") || len(pp) < 2 || !r.Chance(60) {
				continue
			}
			labels := strings.Split(hp, ".")
			labels[r.Intn(len(labels))] = "{h}"
			toggled := pp + "/"
			if strings.HasSuffix(pp, "/") {
				toggled = pp[:len(pp)-1]
			}
			if q := strings.Join(labels, ".") + toggled; !seen[q] {
				seen[q] = true
				fam = append(fam, q)
			}
		}
	}
	return fam
}

func genOps(r *Rng, tier string, n int, emit func(string)) {
	for c := 0; c < n; c++ {
		cr := r.Fork()
		var ops []string
		var pats []string
		hid := 0
		nMeth := 1 + cr.Intn(3)
		methods := make([]string, nMeth)
		for i := range methods {
			methods[i] = Pick(cr, methodPool)
		}
		hostPct := Pick(cr, []int{0, 0, 30, 60})
		if hostHeavy {
			hostPct = Pick(cr, []int{60, 80, 100})
		}
		dump := tier == "thorough" && cr.Chance(30)
		kind := cr.Intn(15)
		addH := func(m, p string) {
			hid++
			ops = append(ops, fmt.Sprintf("H,%s,%s,%d,%d", m, hx(p), Pick(cr, []int{0, 0, 0, 1, 2}), hid))
			pats = append(pats, p)
			if dump {
				ops = append(ops, "X")
			}
		}
		var famProbes []string
		switch {
		case kind == 10:
			// nested backtracking family
			fp, probes := genBacktrackFamily(cr)
			for _, p := range fp {
				addH(methods[0], p)
			}
			for _, pr := range probes {
				famProbes = append(famProbes, "L,"+methods[0]+",_,"+hx(pr))
			}
		case kind >= 11:
			// prefix family: a few patterns closed under common prefixes, registered in random order and then deleted /
			// re-registered one by one - every deletion meets a different shape (leaf with several children, single
			// child to merge, parent / grand-parent to merge, host/path boundary)
			var fam []string
			if kind >= 13 {
				fam = genHostFamily(cr)
			} else {
				base := genPattern(cr, hostPct)
				if cr.Chance(50) {
					base = strings.TrimSuffix(base, "/")
				}
				tails := []string{"", "x", "y", "xy", "xz", "x/z", "/", "/q", "/{p}", "/*{w}", "x{p}", "y/", "/q/r", "*{v}"}
				for _, t := range tails {
					if cr.Chance(55) {
						fam = append(fam, base+t)
					}
				}
				if len(fam) < 3 {
					fam = append(fam, base, base+"x", base+"y")
				}
			}
			m := methods[0]
			for _, i := range cr.Perm(len(fam)) {
				addH(m, fam[i])
			}
			for i, k := 0, 6+cr.Intn(14); i < k; i++ {
				p := Pick(cr, fam)
				switch x := cr.Intn(10); {
				case x < 5:
					ops = append(ops, "D,"+m+","+hx(p))
				case x < 8:
					addH(m, p)
				default:
					hid++
					ops = append(ops, fmt.Sprintf("U,%s,%s,%d,%d", m, hx(p), Pick(cr, []int{0, 1, 2}), hid))
				}
				if dump {
					ops = append(ops, "X")
				}
				ops = append(ops, genProbe(cr, fam, methods))
				if cr.Chance(30) {
					ops = append(ops, genReads(cr, fam, methods)...)
				}
			}
			pats = fam
		case kind < 5:
			// route set, then probes
			k := 1 + cr.Intn(12)
			for i := 0; i < k; i++ {
				addH(Pick(cr, methods), genPattern(cr, hostPct))
			}
		case kind < 9:
			// mutation history with interleaved readers
			pool := genNestedPool(cr, 4+cr.Intn(16), hostPct)
			k := 5 + cr.Intn(40)
			for i := 0; i < k; i++ {
				m := Pick(cr, methods)
				p := Pick(cr, pool)
				switch x := cr.Intn(20); {
				case x < 10:
					addH(m, p)
				case x < 13:
					hid++
					ops = append(ops, fmt.Sprintf("U,%s,%s,%d,%d", m, hx(p), Pick(cr, []int{0, 1, 2}), hid))
				case x < 18:
					ops = append(ops, "D,"+m+","+hx(p))
				case x < 19:
					if cr.Chance(30) {
						ops = append(ops, "T,")
					} else {
						ops = append(ops, "T,"+genTruncMethods(cr, methods))
					}
				default:
					ops = append(ops, genProbe(cr, pool, methods))
				}
				if dump && !strings.HasPrefix(ops[len(ops)-1], "L") && ops[len(ops)-1] != "X" {
					ops = append(ops, "X")
				}
				ops = append(ops, genReads(cr, pool, methods)...)
			}
			pats = pool
		default:
			// fan-out above and below the 50-child search switch
			m := methods[0]
			// one node with k children, each with its own first byte (a radix node has one child per first byte)
			const fanAlphabet = "0123456789abcdefghijklmnopqrstuvwxyzABCDEFGHIJKLMNOPQRSTUVWXYZ-_~"
			k := 44 + cr.Intn(len(fanAlphabet)-44+1)
			base := Pick(cr, []string{"/", "/n/", "/{x}/"})
			for _, i := range cr.Perm(k) {
				addH(m, base+string(fanAlphabet[i])+Pick(cr, []string{"", "a", "ab"})+Pick(cr, []string{"", "/x", "/{y}"}))
			}
			addH(m, base+"{p}")
			addH(m, base+"*{q}")
			// probes at the wide node: segments starting with '*', '{', a static sibling's first byte, and plain values
			ib := strings.ReplaceAll(base, "{x}", "v")
			for _, v := range []string{"*abc", "*", "{p}", "0a", "0ax", "1", "zz", "*abc/x", "0a/x", "Z", "~", "-a", "_", "!", "\x7f"} {
				famProbes = append(famProbes, "L,"+m+",_,"+hx(ib+v))
			}
			for i := 0; i < 10; i++ {
				ops = append(ops, "D,"+m+","+hx(Pick(cr, pats)))
				ops = append(ops, genProbe(cr, pats, methods))
			}
		}
		// families chosen by the case number (not by a draw, so that the other cases of a seed stay what they were)
		switch c % 32 {
		case 5:
			// methods are matched byte for byte: case variants of a registered method name no route, no root, no prefix
			ops, pats, famProbes, hid = nil, nil, nil, 0
			m := Pick(cr, []string{"PATCH", "FOO", "REPORT", "GET"})
			methods = []string{m, "GET"}
			for _, p := range []string{"/items/{id}", "/items", "/", "/st/*{rest}"} {
				addH(m, p)
				if cr.Bool() {
					addH("GET", p)
				}
			}
			for _, v := range []string{strings.ToLower(m), strings.ToUpper(m), strings.ToUpper(m[:1]) + strings.ToLower(m[1:]), m, "get", "Get"} {
				famProbes = append(famProbes, "L,"+v+",_,"+hx("/items/42"), "L,"+v+",_,"+hx("/items/"), "R,"+v+","+hx("/items/{id}"),
					"R,"+v+","+hx("/"), "P,"+v+","+hx("/it"), "P,"+v+"+"+m+","+hx(""))
			}
		case 7:
			// custom methods whose names are pieces of the standard verbs: they are methods of their own (their root
			// goes away with their last route, Truncate handles them like any other custom method)
			ops, pats, famProbes, hid = nil, nil, nil, 0
			ms := []string{Pick(cr, []string{"DEL", "LET", "POS", "E", "PU", "ET"}), Pick(cr, []string{"GE", "OST", "T", "DELETES"}), "GET"}
			methods = ms
			for _, m := range ms {
				addH(m, "/m/{id}")
				addH(m, "/m")
			}
			for _, m := range ms[:2] {
				ops = append(ops, "D,"+m+","+hx("/m"), "M", "D,"+m+","+hx("/m/{id}"), "M", "N")
				addH(m, "/again")
				ops = append(ops, "T,"+m, "M", "N", "R,"+m+","+hx("/again"))
				addH(m, "/m/{id}")
				famProbes = append(famProbes, "L,"+m+",_,"+hx("/m/7"), "P,"+m+"+GET,"+hx("/m"))
			}
			ops = append(ops, "T,"+ms[0]+"+GET+"+ms[1], "M", "N")
			addH("GET", "/m")
		case 9:
			// a very wide node: 130-240 children whose first bytes range over the whole byte alphabet (everything but
			// '/', '*' and '{'): the bisection of getEdge / updateEdge works on index sums well above 128
			ops, pats, famProbes, hid = nil, nil, nil, 0
			m := methods[0]
			var alpha []byte
			for b := 1; b < 256; b++ {
				if b != '/' && b != '*' && b != '{' && b != '}' {
					alpha = append(alpha, byte(b))
				}
			}
			base := Pick(cr, []string{"/", "/w/", "/{x}/"})
			nk := 130 + cr.Intn(len(alpha)-130)
			perm := cr.Perm(len(alpha))[:nk]
			for _, i := range perm {
				addH(m, base+string(alpha[i:i+1])+Pick(cr, []string{"", "a", "/y"}))
			}
			ib := strings.ReplaceAll(base, "{x}", "v")
			for j := 0; j < 24; j++ {
				i := perm[cr.Intn(len(perm))]
				famProbes = append(famProbes, "L,"+m+",_,"+hx(ib+string(alpha[i:i+1])+Pick(cr, []string{"", "a", "/y", "b"})), "R,"+m+","+hx(base+string(alpha[i:i+1])))
			}
			for j := 0; j < 12; j++ {
				ops = append(ops, "D,"+m+","+hx(Pick(cr, pats)))
				hid++
				ops = append(ops, fmt.Sprintf("U,%s,%s,0,%d", m, hx(Pick(cr, pats)), hid))
			}
		case 13:
			// keys with a period: a probe that ends inside an edge whose key repeats the probe's tail is not registered
			ops, pats, famProbes, hid = nil, nil, nil, 0
			u := Pick(cr, []string{"a", "ha", "ab", "xy/"})
			base := Pick(cr, []string{"/", "/p/", "/{v}/"})
			m := methods[0]
			for _, i := range cr.Perm(3) {
				addH(m, base+strings.Repeat(u, []int{1, 3, 6}[i]))
			}
			for k := 0; k <= 7; k++ {
				famProbes = append(famProbes, "R,"+m+","+hx(base+strings.Repeat(u, k)), "P,"+m+","+hx(base+strings.Repeat(u, k)))
				if k > 0 {
					q := base + strings.Repeat(u, k)
					famProbes = append(famProbes, "R,"+m+","+hx(q[:len(q)-1]), "L,"+m+",_,"+hx(strings.ReplaceAll(q, "{v}", "w")))
				}
			}
		case 21:
			// hostnames with upper-case letters are patterns of their own (registration, Has / Route and iteration are
			// byte-exact on the pattern), next to their lower-case twins
			ops, pats, famProbes, hid = nil, nil, nil, 0
			m := methods[0]
			fam := []string{"API.Example.com/v1/{id}", "{Tenant}.example.com/", "a.B.c/x", "api.example.com/v1/{id}", "{tenant}.example.com/", "a.b.c/x", "/v1/{id}"}
			for _, i := range cr.Perm(len(fam))[:3+cr.Intn(len(fam)-2)] {
				addH(m, fam[i])
			}
			for _, q := range fam {
				famProbes = append(famProbes, "R,"+m+","+hx(q), "P,"+m+","+hx(q[:1+cr.Intn(len(q))]))
				hp, pp := splitHostPath(q)
				if hp != "" {
					famProbes = append(famProbes, "L,"+m+","+hx(instantiate(cr, hp, true))+","+hx(instantiate(cr, pp, false)))
				}
			}
			for i := 0; i < 4; i++ {
				ops = append(ops, "D,"+m+","+hx(Pick(cr, fam)))
				addH(m, Pick(cr, fam))
			}
		case 29:
			// a wildcard conflict against a large subtree: the error names every registered route below the other wildcard
			ops, pats, famProbes, hid = nil, nil, nil, 0
			m := methods[0]
			base := Pick(cr, []string{"/c/", "/", "a.b/c/"})
			w, w2 := Pick(cr, []string{"{a}", "*{a}"}), ""
			if w[0] == '{' {
				w2 = "{b}"
			} else {
				w2 = "*{b}"
			}
			k := 14 + cr.Intn(12)
			for i := 0; i < k; i++ {
				addH(m, base+w+"/r"+strconv.Itoa(i)+Pick(cr, []string{"", "/x", "/{y}"}))
			}
			addH(m, base+w2+"/r0")
			addH(m, base+w2)
			addH(m, base+w)
			addH(m, base+w2+"/zz")
		}
		ops = append(ops, "N", "A", "M")
		ops = append(ops, famProbes...)
		np := 6 + cr.Intn(10)
		for i := 0; i < np; i++ {
			ops = append(ops, genProbe(cr, pats, methods))
		}
		// the final tree (node keys, children order, size / maxParams / depth bookkeeping) is compared in every case; in
		// the thorough tier also after every write of a third of the cases
		ops = append(ops, "X")
		emit("ops\t" + strings.Join(ops, ";"))
	}
}
