package main

// stream `opts` (property C19): sequences of global options x sequences of route options x patterns x the handler kind
// in which Context.ClientIP is called; observed: the route's accessors, errors, panics.
//
//	opts <TAB> <global options> <TAB> <entry H|U|N> <TAB> <method> <TAB> <pattern hex> <TAB> <tsr probe 0|1> <TAB> <handler nil 0|1> <TAB> <route options>

import (
	"errors"
	"fmt"
	"math"
	"net"
	"net/http"
	"strconv"
	"strings"

	"github.com/tigerwill90/fox"
)

func init() { register(&stream{name: "opts", gen: genOpts, run: runOpts}) }

// ---------------------------------------------------------------- patterns

type optPattern struct {
	pattern, host, path, tsrPath string // tsrPath == "" : no trailing-slash probe for this pattern
}

var optPatterns = []optPattern{
	{"/a", "", "/a", "/a/"},
	{"/s/", "", "/s/", "/s"},
	{"/u/{id}", "", "/u/7", "/u/7/"},
	{"/u/{id}/books/{b}/", "", "/u/7/books/9/", "/u/7/books/9"},
	{"/f/*{rest}", "", "/f/x/y", ""},
	{"/f/*{rest}/end", "", "/f/x/y/end", "/f/x/y/end/"},
	{"/p/a{x}", "", "/p/a1", "/p/a1/"},
	{"example.com/h", "example.com", "/h", "/h/"},
	{"{sub}.example.com/x/{y}", "a.example.com", "/x/1", "/x/1/"},
	{"a.b.c/", "a.b.c", "/", ""},
	// upper-case letters in the hostname (static labels and parameter names): kept as written by every accessor
	{"API.Example.com/v1/{id}", "API.Example.com", "/v1/7", "/v1/7/"},
	{"Svc.{Tenant}.COM/z/{any}", "Svc.acme.COM", "/z/y", "/z/y/"},
}

// patterns NewRoute must reject (the model's view: no '/', or an unclosed / lone wildcard)
var optBadPatterns = []string{"", "abc", "/a/{b", "/a/*", "example.com"}

// ---------------------------------------------------------------- annotation keys

type optStructKey struct{ a int }
type optSliceHolder struct{ s []int }
type optAnyHolder struct{ v any }

var optPtrTargets [8]int
var optSlicePtr = [8]*[]int{{}, {}, {}, {}, {}, {}, {}, {}}

// class -> (constructor, nil?, hashable?, reflexive?)
func optKey(cls, n int) any {
	switch cls {
	case 0:
		return nil
	case 1:
		return n
	case 2:
		return "k" + itoa(n)
	case 3:
		return &optPtrTargets[n%8]
	case 4:
		return optStructKey{n}
	case 5:
		return []int{n}
	case 6:
		return map[string]int{"k": n}
	case 7:
		return func() int { return n }
	case 8:
		return optSliceHolder{[]int{n}}
	case 9:
		return optAnyHolder{[]int{n}}
	case 10:
		return math.NaN()
	case 11:
		return optAnyHolder{n}
	case 12:
		return [2]any{n, []int{n}}
	case 13:
		return optSlicePtr[n%8]
	case 14:
		return [2]any{n, "x"}
	case 15:
		return optAnyHolder{optAnyHolder{map[int]int{}}}
	}
	return n
}

// bits: nil, hashable, reflexive
func optKeyBits(cls int) string {
	switch cls {
	case 0:
		return "110"
	case 5, 6, 7, 8, 9, 12, 15:
		return "000"
	case 10:
		return "010"
	}
	return "011"
}

const optKeyClasses = 16

// ---------------------------------------------------------------- generator

func optIDs(r *Rng, base int, nilPct int) string {
	n := 1 + r.Intn(2)
	var ids []string
	for i := 0; i < n; i++ {
		if r.Chance(nilPct) {
			ids = append(ids, "0")
		} else {
			ids = append(ids, itoa(base+r.Intn(4)))
		}
	}
	return strings.Join(ids, "+")
}

func genOpts(r *Rng, tier string, n int, emit func(string)) {
	for c := 0; c < n; c++ {
		invalidBias := 0
		if r.Chance(20) {
			invalidBias = 12
		}
		// global options
		var g []string
		for i, k := 0, r.Intn(6); i < k; i++ {
			switch r.Intn(13) {
			case 0:
				g = append(g, "D")
			case 1:
				g = append(g, "A"+itoa(r.Intn(2)))
			case 2:
				g = append(g, "M"+itoa(r.Intn(2)))
			case 3, 4:
				g = append(g, "R"+itoa(r.Intn(2)))
			case 5, 6:
				g = append(g, "I"+itoa(r.Intn(2)))
			case 7, 8:
				k := 1 + r.Intn(3)
				if r.Chance(25) {
					k = 0
				}
				g = append(g, "C"+itoa(k))
			case 9:
				which := Pick(r, []string{"NR", "NM", "OH"})
				v := "1"
				if r.Chance(5 + invalidBias) {
					v = "0"
				}
				g = append(g, which+v)
			case 10:
				g = append(g, "W"+optIDs(r, 1, invalidBias/3))
			default:
				g = append(g, "F"+itoa(Pick(r, []int{248, 128, 64, 120, 8, 0, 255}))+":"+optIDs(r, 5, invalidBias/3))
			}
		}
		// route options
		var ro []string
		keyPool := []string{}
		for i, k := 0, r.Intn(7); i < k; i++ {
			switch r.Intn(10) {
			case 0, 1:
				ro = append(ro, "R"+itoa(r.Intn(2)))
			case 2, 3:
				ro = append(ro, "I"+itoa(r.Intn(2)))
			case 4, 5:
				k := 1 + r.Intn(3)
				if r.Chance(35) {
					k = 0
				}
				ro = append(ro, "C"+itoa(k))
			case 6:
				ro = append(ro, "W"+optIDs(r, 100, invalidBias/2))
			default:
				var key string
				if len(keyPool) > 0 && r.Chance(45) {
					key = Pick(r, keyPool) // the same key again: the last value must win
				} else {
					cls := Pick(r, []int{1, 2, 3, 4, 10, 11, 13, 14})
					if r.Chance(6 + invalidBias*2) {
						cls = r.Intn(optKeyClasses)
					}
					key = itoa(cls) + "." + itoa(r.Intn(3)) + "." + optKeyBits(cls)
					keyPool = append(keyPool, key)
				}
				ro = append(ro, "K"+key+"="+itoa(1+r.Intn(9)))
			}
		}
		entry := Pick(r, []string{"H", "H", "U", "N"})
		method := "GET"
		if entry == "H" && r.Chance(4) {
			method = Pick(r, []string{"_", "get", "G ET"})
		}
		p := Pick(r, optPatterns)
		pat, tsr := p.pattern, "0"
		if p.tsrPath != "" {
			tsr = "1"
		}
		if r.Chance(4) {
			pat, tsr = Pick(r, optBadPatterns), "0"
		}
		hnil := "0"
		if r.Chance(4) {
			hnil = "1"
		}
		js := func(xs []string) string {
			if len(xs) == 0 {
				return "_"
			}
			return strings.Join(xs, ",")
		}
		emit(strings.Join([]string{"opts", js(g), entry, method, hx(pat), tsr, hnil, js(ro)}, "\t"))
	}
}

// ---------------------------------------------------------------- runner

func optResolver(k int) fox.ClientIPResolver {
	if k == 0 {
		return nil
	}
	return fox.ClientIPResolverFunc(func(c fox.Context) (*net.IPAddr, error) {
		return &net.IPAddr{IP: net.IPv4(10, 0, 0, byte(k))}, nil
	})
}

func optResolverID(res fox.ClientIPResolver, c fox.Context) string {
	if res == nil {
		return "none"
	}
	ip, err := res.ClientIP(c)
	return optIPID(ip, err)
}

func optIPID(ip *net.IPAddr, err error) string {
	if err != nil {
		if errors.Is(err, fox.ErrNoClientIPResolver) {
			return "none"
		}
		return "error"
	}
	if v4 := ip.IP.To4(); v4 != nil {
		return itoa(int(v4[3]))
	}
	return "?"
}

func optMws(ids string) []fox.MiddlewareFunc {
	var out []fox.MiddlewareFunc
	if ids == "_" || ids == "" {
		return out
	}
	for _, p := range strings.Split(ids, "+") {
		v, _ := strconv.Atoi(p)
		if v == 0 {
			out = append(out, nil)
		} else {
			out = append(out, mwMiddleware(v))
		}
	}
	return out
}

func optStatusHandler(code int) fox.HandlerFunc {
	return func(c fox.Context) { c.Writer().WriteHeader(code) }
}

func optErrClass(err error) string {
	switch {
	case errors.Is(err, fox.ErrInvalidConfig):
		return "invalidConfig"
	case errors.Is(err, fox.ErrInvalidRoute):
		return "invalidRoute"
	}
	return "other(" + strings.ReplaceAll(err.Error(), "\t", " ") + ")"
}

func runOpts(fields []string) (out string) {
	if len(fields) != 8 {
		return "I=bad-case"
	}
	defer func() {
		if p := recover(); p != nil {
			out = "I=panic\tJ=panic:" + strings.ReplaceAll(strings.ReplaceAll(fmt.Sprint(p), "\t", " "), "\n", " ")
		}
	}()
	gs, entry, method, pat, tsrProbe, hnil, rs := fields[1], fields[2], fields[3], unhx(fields[4]), fields[5] == "1", fields[6] == "1", fields[7]
	if method == "_" {
		method = ""
	}
	var oracle []string
	hasD := false

	var gopts []fox.GlobalOption
	if gs != "_" {
		for _, o := range strings.Split(gs, ",") {
			switch {
			case o == "D":
				hasD = true
				gopts = append(gopts, fox.DefaultOptions())
			case strings.HasPrefix(o, "NR"):
				gopts = append(gopts, fox.WithNoRouteHandler(optPickHandler(o[2:] == "0", 404)))
			case strings.HasPrefix(o, "NM"):
				gopts = append(gopts, fox.WithNoMethodHandler(optPickHandler(o[2:] == "0", 405)))
			case strings.HasPrefix(o, "OH"):
				gopts = append(gopts, fox.WithOptionsHandler(optPickHandler(o[2:] == "0", 204)))
			case o[0] == 'A':
				gopts = append(gopts, fox.WithAutoOptions(o[1:] == "1"))
			case o[0] == 'M':
				gopts = append(gopts, fox.WithNoMethod(o[1:] == "1"))
			case o[0] == 'R':
				gopts = append(gopts, fox.WithRedirectTrailingSlash(o[1:] == "1"))
			case o[0] == 'I':
				gopts = append(gopts, fox.WithIgnoreTrailingSlash(o[1:] == "1"))
			case o[0] == 'C':
				k, _ := strconv.Atoi(o[1:])
				gopts = append(gopts, fox.WithClientIPResolver(optResolver(k)))
			case o[0] == 'W':
				gopts = append(gopts, fox.WithMiddleware(optMws(o[1:])...))
			case o[0] == 'F':
				parts := strings.SplitN(o[1:], ":", 2)
				mask, _ := strconv.Atoi(parts[0])
				gopts = append(gopts, fox.WithMiddlewareFor(fox.HandlerScope(mask), optMws(parts[1])...))
			}
		}
	}
	// the probe: registered last for every kind of handler; records scope and the resolver Context.ClientIP uses
	probe := func(next fox.HandlerFunc) fox.HandlerFunc {
		return func(c fox.Context) {
			ip, err := c.ClientIP()
			mwTraceOf(c).log("c" + itoa(int(c.Scope())) + ":" + optIPID(ip, err))
			next(c)
		}
	}
	gopts = append(gopts, fox.WithMiddleware(probe))

	type keyed struct {
		name string
		key  any
	}
	var keys []keyed
	seen := map[string]bool{}
	var ropts []fox.RouteOption
	var ownIDs []string // the route's own middleware, in registration order
	if rs != "_" {
		for _, o := range strings.Split(rs, ",") {
			switch o[0] {
			case 'R':
				ropts = append(ropts, fox.WithRedirectTrailingSlash(o[1:] == "1"))
			case 'I':
				ropts = append(ropts, fox.WithIgnoreTrailingSlash(o[1:] == "1"))
			case 'C':
				k, _ := strconv.Atoi(o[1:])
				ropts = append(ropts, fox.WithClientIPResolver(optResolver(k)))
			case 'W':
				ropts = append(ropts, fox.WithMiddleware(optMws(o[1:])...))
				for _, id := range strings.Split(o[1:], "+") {
					if v, _ := strconv.Atoi(id); v != 0 {
						ownIDs = append(ownIDs, id)
					}
				}
			case 'K':
				kv := strings.SplitN(o[1:], "=", 2)
				parts := strings.Split(kv[0], ".")
				cls, _ := strconv.Atoi(parts[0])
				n, _ := strconv.Atoi(parts[1])
				v, _ := strconv.Atoi(kv[1])
				key := optKey(cls, n)
				// model-free: the hashability bit of the case is what a map insertion really does
				if hashable := optHashable(key); (parts[2][1] == '1') != hashable {
					oracle = append(oracle, fmt.Sprintf("key class %d: generator says hashable=%c, runtime says %v", cls, parts[2][1], hashable))
				}
				name := parts[0] + "." + parts[1]
				if parts[2][0] == '0' && parts[2][1] == '1' && !seen[name] {
					seen[name] = true
					keys = append(keys, keyed{name, key})
				}
				ropts = append(ropts, fox.WithAnnotation(key, v))
			}
		}
	}
	if hasD {
		restore := mwSilenceStd()
		defer restore()
	}
	// option values are reusable: they configure a throw-away router and a throw-away route first
	if pre, e0 := fox.New(gopts...); e0 == nil && !hnil {
		_, _ = pre.NewRoute("/zz-reuse/{a}", optStatusHandler(200), ropts...)
	}
	router, err := fox.New(gopts...)
	if err != nil {
		return "I=new:" + optErrClass(err) + "\tJ=err"
	}
	var handler fox.HandlerFunc
	if !hnil {
		handler = optStatusHandler(200)
	}
	var rt *fox.Route
	switch entry {
	case "H":
		rt, err = router.Handle(method, pat, handler, ropts...)
	case "U":
		if _, e0 := router.Handle("GET", pat, optStatusHandler(200)); e0 != nil {
			// invalid pattern: Update must report it as well
			_ = e0
		}
		rt, err = router.Update("GET", pat, handler, ropts...)
		if err != nil && errors.Is(err, fox.ErrRouteNotFound) {
			err = fmt.Errorf("%w (update of a pattern that could not be registered)", fox.ErrInvalidRoute)
		}
	case "N":
		rt, err = router.NewRoute(pat, handler, ropts...)
		if err == nil {
			err = router.HandleRoute("GET", rt)
		}
	}
	if err != nil {
		return "I=err:" + optErrClass(err) + "\tJ=err" + optOracleSuffix(oracle)
	}
	if got := router.Route("GET", pat); got != rt {
		oracle = append(oracle, "Router.Route does not return the route just registered")
	}
	if rt.Hostname()+rt.Path() != rt.Pattern() {
		oracle = append(oracle, "Hostname()+Path() != Pattern()")
	}
	// annotations
	ann := "-"
	if len(keys) > 0 {
		var parts []string
		for _, k := range keys {
			v := rt.Annotation(k.key)
			s := "nil"
			if iv, ok := v.(int); ok {
				s = itoa(iv)
			}
			parts = append(parts, k.name+":"+s)
		}
		ann = strings.Join(parts, ",")
	}
	// requests
	var p optPattern
	for _, q := range optPatterns {
		if q.pattern == pat {
			p = q
		}
	}
	serve := func(method, path string) (chain string, cip string) {
		t := &mwTrace{}
		req := newReq(method, p.host, path)
		req = mwWithTrace(req, t)
		router.ServeHTTP(&mwWriter{t: t, h: http.Header{}}, req)
		var ids []string
		for _, e := range t.evs {
			if e[0] == 'e' {
				ids = append(ids, e[1:])
			}
			if e[0] == 'c' {
				cip = e[1:]
			}
		}
		if len(ids) == 0 {
			return "-", cip
		}
		return strings.Join(ids, "+"), cip
	}
	chain, c0 := serve("GET", p.path)
	cips := []string{c0}
	if tsrProbe {
		_, c := serve("GET", p.tsrPath)
		cips = append(cips, c)
	}
	// manual dispatch: the context Router.Lookup returns for a request of this route (matched directly, or by adding /
	// removing a trailing slash) carries the route: Route(), Pattern() and the resolver ClientIP uses are the route's,
	// exactly what the probe saw when ServeHTTP served the direct request
	for _, lp := range []string{p.path, p.tsrPath} {
		if lp == "" {
			continue
		}
		t := &mwTrace{}
		req := mwWithTrace(newReq("GET", p.host, lp), t)
		lr, cc, ltsr := router.Lookup(foxWriter{newRecWriter()}, req)
		if lr == nil || cc == nil {
			continue
		}
		if lr == rt {
			ip, err := cc.ClientIP()
			got := itoa(int(cc.Scope())) + ":" + optIPID(ip, err)
			if cc.Route() != rt || cc.Pattern() != rt.Pattern() || got != c0 {
				oracle = append(oracle, fmt.Sprintf("Router.Lookup(%s) tsr=%v: context shows route %q and ClientIP %s, the route handler served by ServeHTTP saw %q and %s", hx(lp), ltsr, cc.Pattern(), got, rt.Pattern(), c0))
			}
			// Route.HandleMiddleware runs the route's OWN middleware only (whatever scope the router-wide ones were
			// registered for: WithMiddleware, WithMiddlewareFor(RouteHandler|…), DefaultOptions), Route.Handle none
			chainOf := func(run func()) string {
				t.evs = nil
				run()
				var ids []string
				for _, e := range t.evs {
					if e[0] == 'e' || e[0] == 'c' {
						ids = append(ids, e)
					}
				}
				return strings.Join(ids, "+")
			}
			want := ""
			for i, id := range ownIDs {
				if i > 0 {
					want += "+"
				}
				want += "e" + id
			}
			if hm := chainOf(func() { lr.HandleMiddleware(cc) }); hm != want {
				oracle = append(oracle, fmt.Sprintf("Route.HandleMiddleware ran %q, the route's own middleware is %q", hm, want))
			}
			if hb := chainOf(func() { lr.Handle(cc) }); hb != "" {
				oracle = append(oracle, fmt.Sprintf("Route.Handle ran middleware %q", hb))
			}
		}
		cc.Close()
	}
	for _, rq := range [][2]string{{"GET", "/nope/nope/nope"}, {"POST", p.path}, {"OPTIONS", p.path}} {
		_, c := serve(rq[0], rq[1])
		cips = append(cips, c)
	}
	st := router.Stats()
	gres := "none"
	if st.ClientIP {
		// the router-wide resolver shows in the 404 probe
		gres = strings.SplitN(cips[len(cips)-3], ":", 2)[1]
	}
	b := func(x bool) string {
		if x {
			return "1"
		}
		return "0"
	}
	res := "pat=" + hx(rt.Pattern()) + ";host=" + hx(rt.Hostname()) + ";path=" + hx(rt.Path()) + ";n=" + itoa(rt.ParamsLen()) +
		";rts=" + b(rt.RedirectTrailingSlashEnabled()) + ";its=" + b(rt.IgnoreTrailingSlashEnabled()) +
		";res=" + optResolverID(rt.ClientIPResolver(), nil) + ";ann=" + ann + ";mw=" + chain +
		";g=" + b(st.RedirectTrailingSlash) + b(st.IgnoreTrailingSlash) + gres + ";cip=" + strings.Join(cips, "/")
	return "I=" + res + optOracleSuffix(oracle)
}

func optOracleSuffix(oracle []string) string {
	if len(oracle) == 0 {
		return ""
	}
	return "\tO=" + strings.Join(oracle, "; ")
}

func optPickHandler(isNil bool, code int) fox.HandlerFunc {
	if isNil {
		return nil
	}
	return optStatusHandler(code)
}

// optHashable reports whether inserting key into a map[any]any succeeds (nil is a fine map key for Go; fox rejects it)
func optHashable(key any) (ok bool) {
	defer func() {
		if recover() != nil {
			ok = false
		}
	}()
	m := map[any]any{}
	m[key] = 1
	return true
}
