package main

// Stream `parked` (property C06): a case is one cell of the parked-writer matrix
//
//	parked \t entry=<read entry point>;state=<writer state>;opts=<router options>
//
// A writer goroutine is parked in the given state — `opened` (Txn(true) just opened), `written` (after uncommitted
// writes), `updates` (inside the function given to Updates, blocked on a channel, after writes), `snapshot` (open write
// transaction with writes and a Snapshot taken) — and stays there; then the read entry point is called from another
// goroutine. The read must complete (expected within 1 s; a read that is merely slow on a loaded machine is given a
// grace period, a read that waits for the writer never completes while the writer stays parked): otherwise O=. Its
// result must also be what it was before the writer began (model-free isolation oracle). Then the writer is released.
// Cases `entry=W:<write entry point>;state=R:<reader state>` are the converse: a reader is parked (inside a handler, in an
// open read-only transaction, half-way through an iteration, holding a Lookup context, inside View, using a snapshot)
// and a write entry point must complete - writers wait only for other writers.
// opts: 0 default · 1 WithIgnoreTrailingSlash · 2 WithRedirectTrailingSlash · 3 WithNoMethod+WithAutoOptions.

import (
	"fmt"
	"os"
	"runtime"
	"slices"
	"strconv"
	"strings"
	"sync/atomic"
	"time"

	"github.com/tigerwill90/fox"
)

func init() {
	register(&stream{name: "parked", gen: genParked, run: runParked})
}

var parkedEntries = []string{
	"ServeHTTP", "ServeHTTP-tsr", "ServeHTTP-405", "ServeHTTP-options", "ServeHTTP-404",
	"Lookup", "Lookup-ctx", "Reverse", "Has", "Route", "Len",
	"Iter.All", "Iter.Methods", "Iter.Routes", "Iter.Reverse", "Iter.Prefix",
	"View", "Txn(false)", "Txn(false).Lookup", "Txn(false).Iter", "Txn(false).Snapshot",
}
var parkedStates = []string{"opened", "written", "updates", "snapshot", "queued", "iterating"}

var parkedBlocked atomic.Int32

func readTimeouts() (time.Duration, time.Duration) {
	first := time.Second
	if v, err := strconv.Atoi(os.Getenv("VERIF_READ_TIMEOUT_MS")); err == nil && v > 0 {
		first = time.Duration(v) * time.Millisecond
	}
	grace := 10 * time.Second
	if parkedBlocked.Load() >= 3 {
		grace = 0 // enough evidence in this run; do not spend 10 s on every further blocked cell
	}
	return first, grace
}

func parkedRouter(opts int) (*fox.Router, error) {
	var o []fox.GlobalOption
	switch opts {
	case 1:
		o = append(o, fox.WithIgnoreTrailingSlash(true))
	case 2:
		o = append(o, fox.WithRedirectTrailingSlash(true))
	case 3:
		o = append(o, fox.WithNoMethod(true), fox.WithAutoOptions(true))
	}
	f, err := fox.New(o...)
	if err != nil {
		return nil, err
	}
	// a deep branch (30 levels): whatever the iterators keep per tree for deep traversals is in play
	deep := "/z"
	for i := 0; i < 30; i++ {
		deep += "/" + string(rune('a'+i%26)) + itoa(i)
		if i%3 == 2 {
			if _, err := f.Handle("GET", deep, hidHandler(200+i), fox.WithAnnotation(hidKey{}, 200+i)); err != nil {
				return nil, err
			}
		}
	}
	for i, p := range []string{"/a", "/a/b", "/a/{x}/c", "/d/*{w}", "/e/"} {
		if _, err := f.Handle("GET", p, hidHandler(i+1), fox.WithAnnotation(hidKey{}, i+1)); err != nil {
			return nil, err
		}
	}
	if _, err := f.Handle("POST", "/a", hidHandler(9), fox.WithAnnotation(hidKey{}, 9)); err != nil {
		return nil, err
	}
	return f, nil
}

func parkedWrites(txn *fox.Txn) {
	_, _ = txn.Handle("GET", "/new", hidHandler(100), fox.WithAnnotation(hidKey{}, 100))
	_, _ = txn.Update("GET", "/a", hidHandler(101), fox.WithAnnotation(hidKey{}, 101))
	_, _ = txn.Delete("GET", "/a/b")
	_, _ = txn.Handle("PATCH", "/p", hidHandler(102), fox.WithAnnotation(hidKey{}, 102))
}

func serve(f *fox.Router, method, path string) string {
	w := newRecWriter()
	f.ServeHTTP(w, newReq(method, "", path))
	return fmt.Sprintf("%d:%s:%s:%s", w.code, w.h.Get("X-Hid"), w.h.Get("Allow"), w.h.Get("Location"))
}

func routesOf(it fox.Iter) string {
	var items []string
	for m, r := range it.All() {
		items = append(items, entry(m, r))
	}
	return strings.Join(items, "+")
}

// doRead performs the read entry point and renders what it returned.
func doRead(f *fox.Router, entryPoint string) string {
	switch entryPoint {
	case "ServeHTTP":
		return serve(f, "GET", "/a/v/c")
	case "ServeHTTP-tsr":
		return serve(f, "GET", "/a/b/") + "|" + serve(f, "GET", "/e")
	case "ServeHTTP-405":
		return serve(f, "PUT", "/a")
	case "ServeHTTP-options":
		return serve(f, "OPTIONS", "/a") + "|" + serve(f, "OPTIONS", "*")
	case "ServeHTTP-404":
		return serve(f, "GET", "/new") + "|" + serve(f, "PATCH", "/p")
	case "Lookup":
		r, cc, tsr := f.Lookup(foxWriter{newRecWriter()}, newReq("GET", "", "/a/b"))
		return showLookupCC(r, cc, tsr)
	case "Lookup-ctx":
		r, cc, tsr := f.Lookup(foxWriter{newRecWriter()}, newReq("GET", "", "/a/v/c"))
		if cc == nil {
			return "none"
		}
		defer cc.Close()
		c := cc.(fox.Context)
		cl := c.Clone()
		return fmt.Sprint(hidOf(r), tsr, c.Pattern(), c.Param("x"), c.Path(), c.Method(), c.Host(), hidOf(c.Route()), c.Scope(),
			showParams(slices.Collect(c.Params())), c.QueryParam("q"), c.Header("X"), c.Fox() == f, cl.Pattern(), c.RemoteIP())
	case "Reverse":
		r, tsr := f.Reverse("GET", "", "/d/x/y")
		return lkResult(r, tsr)
	case "Has":
		return fmt.Sprint(f.Has("GET", "/a/b"), f.Has("GET", "/new"))
	case "Route":
		return hidOf(f.Route("GET", "/a")) + hidOf(f.Route("GET", "/new"))
	case "Len":
		return strconv.Itoa(f.Len())
	case "Iter.All":
		return routesOf(f.Iter())
	case "Iter.Methods":
		return strings.Join(slices.Collect(f.Iter().Methods()), "+")
	case "Iter.Routes":
		var items []string
		for m, r := range f.Iter().Routes(slices.Values([]string{"GET", "PATCH"}), "/a") {
			items = append(items, entry(m, r))
		}
		return strings.Join(items, "+")
	case "Iter.Reverse":
		var items []string
		for m, r := range f.Iter().Reverse(slices.Values([]string{"GET", "POST"}), "", "/a") {
			items = append(items, entry(m, r))
		}
		return strings.Join(items, "+")
	case "Iter.Prefix":
		var items []string
		for m, r := range f.Iter().Prefix(slices.Values([]string{"GET"}), "/a") {
			items = append(items, entry(m, r))
		}
		return strings.Join(items, "+")
	case "View":
		var s string
		_ = f.View(func(txn *fox.Txn) error {
			s = fmt.Sprint(txn.Len(), txn.Has("GET", "/new"), hidOf(txn.Route("GET", "/a")), routesOf(txn.Iter()))
			return nil
		})
		return s
	case "Txn(false)":
		txn := f.Txn(false)
		s := fmt.Sprint(txn.Len(), txn.Has("GET", "/a/b"), hidOf(txn.Route("GET", "/a")))
		txn.Commit()
		txn.Abort()
		r, tsr := txn.Reverse("GET", "", "/a/b/")
		return s + lkResult(r, tsr)
	case "Txn(false).Lookup":
		txn := f.Txn(false)
		defer txn.Abort()
		r, cc, tsr := txn.Lookup(foxWriter{newRecWriter()}, newReq("GET", "", "/a/v/c"))
		return showLookupCC(r, cc, tsr)
	case "Txn(false).Iter":
		txn := f.Txn(false)
		defer txn.Abort()
		return routesOf(txn.Iter())
	case "Txn(false).Snapshot":
		txn := f.Txn(false)
		sn := txn.Snapshot()
		txn.Abort()
		return fmt.Sprint(sn.Len(), routesOf(sn.Iter()))
	}
	return "unknown-entry"
}

func runParked(fields []string) string {
	if len(fields) < 2 {
		return "I=bad-case"
	}
	cfg := map[string]string{}
	for _, kv := range strings.Split(fields[1], ";") {
		if p := strings.SplitN(kv, "=", 2); len(p) == 2 {
			cfg[p[0]] = p[1]
		}
	}
	opts, _ := strconv.Atoi(cfg["opts"])
	f, err := parkedRouter(opts)
	if err != nil {
		return "I=setup-failed\tO=" + err.Error()
	}
	entryPoint, state := cfg["entry"], cfg["state"]
	if strings.HasPrefix(entryPoint, "W:") {
		return runParkedReader(f, entryPoint, state, opts)
	}
	before := doRead(f, entryPoint)

	ready := make(chan struct{})
	release := make(chan struct{})
	writerDone := make(chan struct{})
	go func() {
		defer close(writerDone)
		defer func() { _ = recover() }()
		switch state {
		case "opened":
			txn := f.Txn(true)
			close(ready)
			<-release
			txn.Abort()
		case "written":
			txn := f.Txn(true)
			parkedWrites(txn)
			close(ready)
			<-release
			txn.Abort()
		case "updates":
			_ = f.Updates(func(txn *fox.Txn) error {
				parkedWrites(txn)
				close(ready)
				<-release
				return errAbortTxn
			})
		case "snapshot":
			txn := f.Txn(true)
			parkedWrites(txn)
			sn := txn.Snapshot()
			_ = sn.Len()
			close(ready)
			<-release
			txn.Abort()
		case "queued":
			// an open write transaction AND a second writer waiting for the lock behind it
			txn := f.Txn(true)
			parkedWrites(txn)
			second := make(chan struct{})
			go func() {
				defer close(second)
				_, _ = f.Handle("GET", "/queued", hidHandler(103), fox.WithAnnotation(hidKey{}, 103))
				_, _ = f.Delete("GET", "/queued")
			}()
			time.Sleep(30 * time.Millisecond) // let the second writer reach the lock
			close(ready)
			<-release
			txn.Abort()
			<-second
		case "iterating":
			// the writer is parked half-way through iterating its own uncommitted state
			txn := f.Txn(true)
			parkedWrites(txn)
			n := 0
			parked := false
			for range txn.Iter().All() {
				n++
				if n == 3 {
					parked = true
					close(ready)
					<-release
				}
			}
			if !parked {
				close(ready)
				<-release
			}
			txn.Abort()
		default:
			close(ready)
			<-release
		}
	}()
	var oracles []string
	select {
	case <-ready:
	case <-time.After(20 * time.Second):
		close(release)
		return "I=writer-not-parked\tO=the writer did not reach state " + state
	}
	if state != "none" && !fox.VerifWriterLocked(f) {
		oracles = append(oracles, "the parked writer does not hold the writer lock")
	}
	// two collections empty every sync.Pool (primary and victim cache): the read then also takes the paths that run when
	// the tree's context pool is empty (the pool's New function), deterministically
	runtime.GC()
	runtime.GC()
	res := make(chan string, 1)
	go func() {
		defer func() {
			if p := recover(); p != nil {
				res <- "panic:" + fmt.Sprint(p)
			}
		}()
		res <- doRead(f, entryPoint)
	}()
	first, grace := readTimeouts()
	out := ""
	select {
	case got := <-res:
		out = "done"
		if got != before {
			oracles = append(oracles, fmt.Sprintf("%s returned %q before the writer began and %q while it is parked (%s)", entryPoint, before, got, state))
		}
	case <-time.After(first):
		select {
		case got := <-res:
			out = "done" // slow, not blocked
			if got != before {
				oracles = append(oracles, fmt.Sprintf("%s returned %q before the writer began and %q while it is parked (%s)", entryPoint, before, got, state))
			}
		case <-time.After(grace):
			out = "blocked"
			parkedBlocked.Add(1)
			oracles = append(oracles, fmt.Sprintf("%s did not complete while a writer is parked in state %s (options %d): the read waits for the writer", entryPoint, state, opts))
		}
	}
	close(release)
	select {
	case <-writerDone:
	case <-time.After(20 * time.Second):
		oracles = append(oracles, "the parked writer did not finish after its release")
	}
	if out == "blocked" {
		// the read must complete once the writer is gone (otherwise the goroutine leaks into the next case)
		select {
		case <-res:
		case <-time.After(5 * time.Second):
		}
	}
	line := "I=" + out
	if len(oracles) > 0 {
		line += "\tO=" + strings.Join(oracles, " ;; ")
	}
	return line
}

// ---------------------------------------------------------------- writers wait only for other writers

var parkedWriteEntries = []string{"W:Handle", "W:Update", "W:Delete", "W:Updates", "W:Txn-commit", "W:Txn-abort", "W:Truncate"}
var parkedReaderStates = []string{"R:handler", "R:txn", "R:iter", "R:lookup", "R:view", "R:snapshot",
	// not parked at all: an earlier write transaction has already ended without effect (committed or aborted having written
	// nothing, or only writes that failed); a writer waits only for writers that are still there
	"S:commit-empty", "S:commit-reads", "S:commit-failed", "S:abort-empty", "S:updates-noop"}

func doWrite(f *fox.Router, entryPoint string) string {
	switch entryPoint {
	case "W:Handle":
		_, err := f.Handle("GET", "/w/new", hidHandler(200), fox.WithAnnotation(hidKey{}, 200))
		return classifyErr(err)
	case "W:Update":
		_, err := f.Update("GET", "/a", hidHandler(201), fox.WithAnnotation(hidKey{}, 201))
		return classifyErr(err)
	case "W:Delete":
		_, err := f.Delete("GET", "/a/b")
		return classifyErr(err)
	case "W:Updates":
		return classifyErr(f.Updates(func(txn *fox.Txn) error { parkedWrites(txn); return nil }))
	case "W:Txn-commit":
		txn := f.Txn(true)
		parkedWrites(txn)
		txn.Commit()
		return "ok"
	case "W:Txn-abort":
		txn := f.Txn(true)
		parkedWrites(txn)
		txn.Abort()
		return "ok"
	case "W:Truncate":
		return classifyErr(f.Updates(func(txn *fox.Txn) error { return txn.Truncate("GET") }))
	}
	return "unknown-entry"
}

// runParkedReader: a READER is parked (a request inside its handler, an open read-only transaction, an iteration stopped
// half-way, a Lookup whose context is not closed yet, a View function, a snapshot in use) and stays there; the write
// entry point is then called from another goroutine and must complete: writers wait only for other writers.
func runParkedReader(f *fox.Router, entryPoint, state string, opts int) string {
	ready := make(chan struct{})
	release := make(chan struct{})
	readerDone := make(chan struct{})
	if _, err := f.Handle("GET", "/park", func(c fox.Context) {
		close(ready)
		<-release
		c.Writer().WriteHeader(204)
	}); err != nil {
		return "I=setup-failed\tO=" + err.Error()
	}
	go func() {
		defer close(readerDone)
		defer func() { _ = recover() }()
		switch state {
		case "R:handler":
			f.ServeHTTP(newRecWriter(), newReq("GET", "", "/park"))
		case "R:txn":
			txn := f.Txn(false)
			_ = txn.Len()
			close(ready)
			<-release
			_ = txn.Has("GET", "/a")
			txn.Abort()
		case "R:iter":
			first := true
			for range f.Iter().All() {
				if first {
					first = false
					close(ready)
					<-release
				}
			}
		case "R:lookup":
			_, cc, _ := f.Lookup(foxWriter{newRecWriter()}, newReq("GET", "", "/a/v/c"))
			close(ready)
			<-release
			if cc != nil {
				cc.Close()
			}
		case "R:view":
			_ = f.View(func(txn *fox.Txn) error {
				_ = txn.Len()
				close(ready)
				<-release
				return nil
			})
		case "R:snapshot":
			txn := f.Txn(false)
			sn := txn.Snapshot()
			txn.Abort()
			close(ready)
			<-release
			_ = sn.Len()
		case "S:commit-empty":
			txn := f.Txn(true)
			txn.Commit()
			close(ready)
			<-release
		case "S:commit-reads":
			txn := f.Txn(true)
			_ = txn.Has("GET", "/a")
			_ = txn.Len()
			for range txn.Iter().All() {
			}
			txn.Commit()
			close(ready)
			<-release
		case "S:commit-failed":
			txn := f.Txn(true)
			_, _ = txn.Handle("GET", "/a", func(fox.Context) {}) // already registered: ErrRouteExist
			_, _ = txn.Delete("GET", "/does-not-exist")
			txn.Commit()
			close(ready)
			<-release
		case "S:abort-empty":
			txn := f.Txn(true)
			_ = txn.Len()
			txn.Abort()
			txn.Abort()
			close(ready)
			<-release
		case "S:updates-noop":
			_ = f.Updates(func(txn *fox.Txn) error {
				if !txn.Has("GET", "/a") {
					_, err := txn.Handle("GET", "/a", func(fox.Context) {})
					return err
				}
				return nil
			})
			close(ready)
			<-release
		default:
			close(ready)
			<-release
		}
	}()
	var oracles []string
	select {
	case <-ready:
	case <-time.After(20 * time.Second):
		close(release)
		return "I=reader-not-parked\tO=the reader did not reach state " + state
	}
	res := make(chan string, 1)
	go func() {
		defer func() {
			if p := recover(); p != nil {
				res <- "panic:" + fmt.Sprint(p)
			}
		}()
		res <- doWrite(f, entryPoint)
	}()
	first, grace := readTimeouts()
	out := "done"
	check := func(got string) {
		if got != "ok" {
			oracles = append(oracles, fmt.Sprintf("%s returned %s while a reader is parked in state %s", entryPoint, got, state))
		}
	}
	select {
	case got := <-res:
		check(got)
	case <-time.After(first):
		select {
		case got := <-res:
			check(got)
		case <-time.After(grace):
			out = "blocked"
			parkedBlocked.Add(1)
			oracles = append(oracles, fmt.Sprintf("%s did not complete while a reader is parked in state %s (options %d): the writer waits for a reader", entryPoint, state, opts))
		}
	}
	if out == "done" && fox.VerifWriterLocked(f) {
		oracles = append(oracles, "the writer lock is still held after "+entryPoint+" returned")
	}
	close(release)
	select {
	case <-readerDone:
	case <-time.After(20 * time.Second):
		oracles = append(oracles, "the parked reader did not finish after its release")
	}
	if out == "blocked" {
		select {
		case <-res:
		case <-time.After(5 * time.Second):
		}
	}
	line := "I=" + out
	if len(oracles) > 0 {
		line += "\tO=" + strings.Join(oracles, " ;; ")
	}
	return line
}

func genParked(r *Rng, tier string, n int, emit func(string)) {
	// the full matrix (deterministic); n is only a cap
	k := 0
	for _, e := range parkedEntries {
		for _, s := range parkedStates {
			for o := 0; o < 4; o++ {
				if k >= n {
					return
				}
				k++
				emit(fmt.Sprintf("parked\tentry=%s;state=%s;opts=%d", e, s, o))
			}
		}
	}
	// writers against parked readers
	for _, e := range parkedWriteEntries {
		for _, s := range parkedReaderStates {
			for _, o := range []int{0, 3} {
				if k >= n {
					return
				}
				k++
				emit(fmt.Sprintf("parked\tentry=%s;state=%s;opts=%d", e, s, o))
			}
		}
	}
}
