package main

// Streams of property C10 (patterns are accepted exactly per the grammar; every accepted one is routable).
//
//	parse    <maxParams> <maxKeyBytes> <pattern hex>
//	   I = ok:<ParamsLen>:<len(Hostname)> | invalid | panic | err:<other>      (Router.NewRoute)
//	   J = ok | invalid | panic
//	   O = Handle / Update / Delete disagree with NewRoute about validity; Hostname()+Path() != Pattern()
//	routable <pattern hex> <value hex>,<value hex>,…
//	   the pattern is registered alone; the request is the pattern with the values substituted for its wildcards
//	   I = <pattern hex>:<tsr>:<params> | none | invalid
//	   J = routed | notrouted | invalid
//	   O = reported params do not reproduce the request / differ from the substituted values (no infix catch-all)

import (
	"errors"
	"fmt"
	"net/http"
	"slices"
	"strconv"
	"strings"

	"github.com/tigerwill90/fox"
)

func init() {
	register(&stream{name: "parse", gen: genParse, run: runParse})
	register(&stream{name: "routable", gen: genRoutable, run: runRoutable})
}

const parseAlphabet = "/a1-.{}*"

// nthString returns the idx-th string over parseAlphabet in length-then-lexicographic order and whether idx is in
// range for strings of length <= maxLen.
func nthString(idx uint64, maxLen int) (string, bool) {
	count := uint64(1)
	for l := 0; l <= maxLen; l++ {
		if idx < count {
			b := make([]byte, l)
			for k := l - 1; k >= 0; k-- {
				b[k] = parseAlphabet[idx%8]
				idx /= 8
			}
			return string(b), true
		}
		idx -= count
		count *= 8
	}
	return "", false
}

func totalStrings(maxLen int) uint64 {
	var t, c uint64 = 0, 1
	for l := 0; l <= maxLen; l++ {
		t += c
		c *= 8
	}
	return t
}

func parseCase(mp, mk int, pat string) string {
	return "parse\t" + strconv.Itoa(mp) + "\t" + strconv.Itoa(mk) + "\t" + hx(pat)
}

var smallLimits = []int{0, 1, 2, 65535}

func genParse(r *Rng, tier string, n int, emit func(string)) {
	maxLen := 6
	if tier == "thorough" {
		maxLen = 7
	}
	// 3/4 of the budget: enumeration by index (complete when the budget allows, otherwise all short strings and
	// a deterministic stride through the longest length); 1/4: structured random and arbitrary bytes.
	budget := uint64(n) * 3 / 4
	total := totalStrings(maxLen)
	emitted := 0
	if total <= budget {
		for idx := uint64(0); idx < total; idx++ {
			s, _ := nthString(idx, maxLen)
			emit(parseCase(65535, 65535, s))
			emitted++
		}
	} else {
		short := totalStrings(maxLen - 1)
		if short > budget {
			short = budget
		}
		for idx := uint64(0); idx < short; idx++ {
			s, _ := nthString(idx, maxLen)
			emit(parseCase(65535, 65535, s))
			emitted++
		}
		rest := budget - short
		if rest > 0 {
			span := total - totalStrings(maxLen-1)
			stride := span / rest
			if stride == 0 {
				stride = 1
			}
			off := r.Next() % stride
			for k := uint64(0); k < rest; k++ {
				idx := totalStrings(maxLen-1) + (off+k*stride)%span
				s, _ := nthString(idx, maxLen)
				emit(parseCase(65535, 65535, s))
				emitted++
			}
		}
	}
	// every concatenation of up to 5 (quick) / 6 (thorough) grammar pieces: reaches two-wildcard shapes such as
	// /*{a}/*{a}, /*{a}//*{a}, a.{a}.a/{a}*{a} that byte-level enumeration to length 6/7 cannot
	pieces := []string{"/", "a", ".", "-", "1", "{a}", "*{a}"}
	maxPieces := 5
	if tier == "thorough" {
		maxPieces = 6
	}
	var rec func(prefix string, left int)
	rec = func(prefix string, left int) {
		if emitted >= n {
			return
		}
		emit(parseCase(65535, 65535, prefix))
		emitted++
		if left == 0 {
			return
		}
		for _, pc := range pieces {
			rec(prefix+pc, left-1)
		}
	}
	rec("", maxPieces)
	// the same language under small limits (sampled)
	small := (n - emitted) / 3
	for k := 0; k < small; k++ {
		s, _ := nthString(r.Next()%total, maxLen)
		emit(parseCase(Pick(r, smallLimits), Pick(r, smallLimits), s))
		emitted++
	}
	if tier == "thorough" {
		// the default key limit itself (65535 / 65536 byte names)
		for _, l := range []int{65535, 65536} {
			emit(parseCase(65535, 65535, "/{"+strings.Repeat("k", l)+"}"))
			emit(parseCase(65535, 65535, "a.{"+strings.Repeat("k", l)+"}/*{x}"))
			emitted += 2
		}
	}
	for emitted < n {
		emit(randomParseCase(r))
		emitted++
	}
}

const ldhChars = "abcxyzABZ019_-"
const pathChars = "abcxyz019-._}~%:"

func randText(r *Rng, alphabet string, n int) string {
	b := make([]byte, n)
	for i := range b {
		b[i] = alphabet[r.Intn(len(alphabet))]
	}
	return string(b)
}

func randName(r *Rng, n int) string {
	return randText(r, "abcnm01_-", n)
}

// boundaryLen picks a length at / next to the limit lim, or a small one.
func boundaryLen(r *Rng, lim int) int {
	switch r.Intn(6) {
	case 0:
		return lim
	case 1:
		return lim + 1
	case 2:
		if lim > 0 {
			return lim - 1
		}
		return 0
	default:
		return 1 + r.Intn(4)
	}
}

func randLabelText(r *Rng) string {
	n := 1 + r.Intn(5)
	switch r.Intn(10) {
	case 0:
		n = 63
	case 1:
		n = 64
	case 2:
		n = 62
	case 3:
		n = 0
	}
	t := []byte(randText(r, ldhChars, n))
	if len(t) > 0 && !r.Chance(8) {
		// mostly keep the ends clean
		if t[0] == '-' {
			t[0] = 'a'
		}
		if t[len(t)-1] == '-' {
			t[len(t)-1] = 'b'
		}
	}
	if r.Chance(10) {
		for i := range t {
			t[i] = "0123456789"[r.Intn(10)]
		}
	}
	return string(t)
}

func randHost(r *Rng, keyLim int) string {
	if r.Chance(12) {
		// literal total (text + dots) at the 255 / 256 boundary: five labels, four dots
		total := 254 + r.Intn(3)
		lens := []int{63, 63, 63, 50, total - 4 - 239}
		var labels []string
		for _, l := range lens {
			labels = append(labels, "a"+randText(r, "abc019", l-1))
		}
		h := strings.Join(labels, ".")
		if r.Chance(30) {
			h += ".{" + randName(r, boundaryLen(r, keyLim)) + "}" // the dot counts, the parameter does not
		}
		return h
	}
	nl := 1 + r.Intn(4)
	var labels []string
	for i := 0; i < nl; i++ {
		l := randLabelText(r)
		if r.Chance(25) {
			l += "{" + randName(r, boundaryLen(r, keyLim)) + "}"
		}
		labels = append(labels, l)
	}
	return strings.Join(labels, ".")
}

func randSegment(r *Rng, keyLim int) string {
	t := randText(r, pathChars, r.Intn(5))
	switch r.Intn(6) {
	case 0:
		return t + "{" + randName(r, boundaryLen(r, keyLim)) + "}"
	case 1:
		return t + "*{" + randName(r, boundaryLen(r, keyLim)) + "}"
	}
	return t
}

// mutate breaks (or not) a well-formed pattern at one place.
func mutate(r *Rng, s string) string {
	if len(s) == 0 {
		return s
	}
	pos := r.Intn(len(s) + 1)
	ins := []string{"{", "}", "*", "/", ".", "-", "{}", "*{}", "*{", "{a", "*a", "{a}{b}", "*{a}/*{b}", "*{a}*{b}", "{a/b}", "{a.b}", "{a*}", "{a{b}", "..", "-.", ".-", "\x00", "\xff", " "}
	switch r.Intn(3) {
	case 0:
		return s[:pos] + Pick(r, ins) + s[pos:]
	case 1:
		if pos < len(s) {
			return s[:pos] + s[pos+1:]
		}
		return s[:len(s)-1]
	default:
		if pos < len(s) {
			return s[:pos] + Pick(r, ins) + s[pos+1:]
		}
		return s + Pick(r, ins)
	}
}

var keyLimits = []int{0, 1, 2, 3, 8, 17, 40, 65535}
var cntLimits = []int{0, 1, 2, 5, 30, 65535}

func randomParseCase(r *Rng) string {
	mp := Pick(r, cntLimits)
	mk := Pick(r, keyLimits)
	if r.Chance(50) {
		mp, mk = Pick(r, smallLimits), Pick(r, smallLimits)
	}
	keyLim := mk
	if keyLim > 60 {
		keyLim = 3
	}
	switch r.Intn(10) {
	case 0: // arbitrary bytes
		n := r.Intn(40)
		b := make([]byte, n)
		for i := range b {
			b[i] = byte(r.Intn(256))
		}
		if r.Bool() {
			return parseCase(mp, mk, "/"+string(b))
		}
		return parseCase(mp, mk, string(b))
	case 1: // arbitrary bytes over a hot alphabet
		return parseCase(mp, mk, randText(r, "/{}*.-a1_A\x00\x7f\x80}", r.Intn(30)))
	case 2: // many wildcards around the count limit
		cnt := boundaryLen(r, min(mp, 40))
		var sb strings.Builder
		if r.Chance(30) {
			sb.WriteString("{h}.a")
			cnt--
		}
		for i := 0; i < cnt; i++ {
			if r.Chance(15) {
				sb.WriteString("/x*{c}")
			} else {
				sb.WriteString("/{p}")
			}
		}
		if cnt <= 0 || r.Bool() {
			sb.WriteString("/")
		}
		return parseCase(mp, mk, sb.String())
	}
	var sb strings.Builder
	if r.Chance(60) {
		sb.WriteString(randHost(r, keyLim))
	}
	ns := r.Intn(6)
	sb.WriteString("/")
	for i := 0; i < ns; i++ {
		sb.WriteString(randSegment(r, keyLim))
		if i+1 < ns || r.Bool() {
			sb.WriteString("/")
		}
	}
	s := sb.String()
	if r.Chance(45) {
		s = mutate(r, s)
	}
	if len(s) > 300 {
		s = s[:300]
	}
	return parseCase(mp, mk, s)
}

// ---- runner

type limKey struct{ mp, mk int }

var parseRouters = map[limKey]*fox.Router{}

func routerFor(mp, mk int) *fox.Router {
	k := limKey{mp, mk}
	if f, ok := parseRouters[k]; ok {
		return f
	}
	f, err := fox.New(fox.WithMaxRouteParams(uint16(mp)), fox.WithMaxRouteParamKeyBytes(uint16(mk)))
	if err != nil {
		panic("fox.New: " + err.Error())
	}
	parseRouters[k] = f
	return f
}

func nopHandler(c fox.Context) {}

func classify(err error) string {
	switch {
	case err == nil:
		return "ok"
	case errors.Is(err, fox.ErrInvalidRoute):
		return "invalid"
	case errors.Is(err, fox.ErrRouteNotFound):
		return "notfound"
	case errors.Is(err, fox.ErrRouteExist):
		return "exist"
	case errors.Is(err, fox.ErrRouteConflict):
		return "conflict"
	}
	return "err:" + strings.ReplaceAll(err.Error(), "\t", " ")
}

// guarded runs fn and turns a panic into the outcome "panic".
func guarded(fn func() string) (out string) {
	defer func() {
		if p := recover(); p != nil {
			out = "panic"
		}
	}()
	return fn()
}

func runParse(fields []string) string {
	if len(fields) < 4 {
		return "I=bad-case"
	}
	mp, _ := strconv.Atoi(fields[1])
	mk, _ := strconv.Atoi(fields[2])
	pat := unhx(fields[3])
	f := routerFor(mp, mk)

	var oracles []string
	var rte *fox.Route
	nr := guarded(func() string {
		var err error
		rte, err = f.NewRoute(pat, nopHandler)
		return classify(err)
	})
	I, J := nr, nr
	if nr == "ok" {
		I = "ok:" + strconv.Itoa(rte.ParamsLen()) + ":" + strconv.Itoa(len(rte.Hostname()))
		if rte.Hostname()+rte.Path() != rte.Pattern() || rte.Pattern() != pat {
			oracles = append(oracles, fmt.Sprintf("Hostname()+Path()=%s+%s Pattern()=%s pattern=%s", hx(rte.Hostname()), hx(rte.Path()), hx(rte.Pattern()), hx(pat)))
		}
		if !strings.HasPrefix(rte.Path(), "/") || strings.Contains(rte.Hostname(), "/") {
			oracles = append(oracles, "Hostname/Path split is not at the first slash: "+hx(rte.Hostname())+" "+hx(rte.Path()))
		}
	}
	// the other registration paths validate the same way
	const m = "GET"
	del1 := guarded(func() string { _, err := f.Delete(m, pat); return classify(err) })
	upd := guarded(func() string { _, err := f.Update(m, pat, nopHandler); return classify(err) })
	hnd := guarded(func() string { _, err := f.Handle(m, pat, nopHandler); return classify(err) })
	del2 := guarded(func() string { _, err := f.Delete(m, pat); return classify(err) })
	want := map[string][4]string{
		"ok":      {"notfound", "notfound", "ok", "ok"},
		"invalid": {"invalid", "invalid", "invalid", "invalid"},
	}
	got := [4]string{del1, upd, hnd, del2}
	if w, ok := want[nr]; !ok || w != got {
		oracles = append(oracles, fmt.Sprintf("NewRoute=%s but Delete,Update,Handle,Delete=%v on %s", nr, got, hx(pat)))
		delete(parseRouters, limKey{mp, mk}) // do not let a half-applied sequence leak into later cases
	}
	out := "I=" + I + "\tJ=" + J
	if len(oracles) > 0 {
		out += "\tO=" + strings.Join(oracles, " ;; ")
	}
	return out
}

// ---- routable

type ptok struct {
	kind byte // 'l' literal, 'p' param, 'c' catch-all
	text string
}

// scanPattern reads an accepted pattern as tokens.
func scanPattern(s string) []ptok {
	var out []ptok
	for i := 0; i < len(s); {
		switch {
		case s[i] == '{':
			j := strings.IndexByte(s[i:], '}')
			if j < 0 {
				return append(out, ptok{'l', s[i:]})
			}
			out = append(out, ptok{'p', s[i+1 : i+j]})
			i += j + 1
		case s[i] == '*' && i+1 < len(s) && s[i+1] == '{':
			j := strings.IndexByte(s[i:], '}')
			if j < 0 {
				return append(out, ptok{'l', s[i:]})
			}
			out = append(out, ptok{'c', s[i+2 : i+j]})
			i += j + 1
		default:
			out = append(out, ptok{'l', s[i : i+1]})
			i++
		}
	}
	return out
}

func substitute(toks []ptok, vals []string) (string, bool) {
	var sb strings.Builder
	k := 0
	for _, t := range toks {
		if t.kind == 'l' {
			sb.WriteString(t.text)
			continue
		}
		if k >= len(vals) {
			return sb.String(), false
		}
		sb.WriteString(vals[k])
		k++
	}
	return sb.String(), k == len(vals)
}

func genValidPattern(r *Rng) (string, []byte) {
	var sb strings.Builder
	var kinds []byte // 'h' host param, 'p' path param, 'c' catch-all
	if r.Chance(35) {
		nl := 1 + r.Intn(3)
		allNum := true
		for i := 0; i < nl; i++ {
			if i > 0 {
				sb.WriteByte('.')
			}
			n := r.Intn(5)
			t := []byte(randText(r, "abcxyzABZ019_-", n))
			if n > 0 {
				if t[0] == '-' {
					t[0] = 'a'
				}
				if t[n-1] == '-' {
					t[n-1] = 'b'
				}
			}
			for _, c := range t {
				if c < '0' || c > '9' {
					allNum = false
				}
			}
			sb.Write(t)
			if n == 0 || r.Chance(30) {
				sb.WriteString("{" + randName(r, 1+r.Intn(3)) + "}")
				kinds = append(kinds, 'h')
				allNum = false
			}
		}
		if allNum {
			sb.WriteString("x")
		}
	}
	sb.WriteByte('/')
	ns := r.Intn(6)
	lastCatch := false
	for i := 0; i < ns; i++ {
		t := randText(r, "abcxyz019-._}~", r.Intn(4))
		if r.Chance(4) {
			t = "" // empty segment (only when nothing else is drawn below)
		}
		sb.WriteString(t)
		isCatch := false
		switch r.Intn(5) {
		case 0, 1:
			sb.WriteString("{" + randName(r, 1+r.Intn(3)) + "}")
			kinds = append(kinds, 'p')
		case 2:
			if !(lastCatch && t == "") {
				sb.WriteString("*{" + randName(r, 1+r.Intn(3)) + "}")
				kinds = append(kinds, 'c')
				isCatch = true
			} else {
				sb.WriteString("s")
			}
		default:
			if t == "" && !r.Chance(4) {
				sb.WriteString("s")
			}
		}
		lastCatch = isCatch
		if i+1 < ns || r.Chance(40) {
			sb.WriteByte('/')
		}
	}
	return sb.String(), kinds
}

func genRoutable(r *Rng, tier string, n int, emit func(string)) {
	for k := 0; k < n; k++ {
		pat, kinds := genValidPattern(r)
		var vals []string
		for _, kd := range kinds {
			switch kd {
			case 'h':
				vals = append(vals, randText(r, "abcxyzAZ019-_", 1+r.Intn(4)))
			case 'p':
				vals = append(vals, randText(r, "abcxyz019-._~*{}s", 1+r.Intn(4)))
			default:
				nseg := 1 + r.Intn(3)
				var segs []string
				for i := 0; i < nseg; i++ {
					segs = append(segs, randText(r, "abcxyz019-._~*{}s", 1+r.Intn(3)))
				}
				vals = append(vals, strings.Join(segs, "/"))
			}
		}
		hv := make([]string, len(vals))
		for i, v := range vals {
			hv[i] = hx(v)
		}
		emit("routable\t" + hx(pat) + "\t" + strings.Join(hv, ","))
	}
}

func runRoutable(fields []string) string {
	if len(fields) < 3 {
		return "I=bad-case"
	}
	pat := unhx(fields[1])
	var vals []string
	for _, v := range strings.Split(fields[2], ",") {
		if v != "" {
			vals = append(vals, unhx(v))
		}
	}
	f, err := fox.New(fox.WithNoMethod(true))
	if err != nil {
		return "I=new-failed"
	}
	rte, err := f.Handle("GET", pat, nopHandler)
	if err != nil {
		c := classify(err)
		return "I=" + c + "\tJ=" + c
	}
	toks := scanPattern(pat)
	hostLen := len(rte.Hostname())
	// tokens of the host part are those that render into the first hostLen bytes
	var hostToks, pathToks []ptok
	{
		off := 0
		for _, t := range toks {
			if off < hostLen {
				hostToks = append(hostToks, t)
			} else {
				pathToks = append(pathToks, t)
			}
			switch t.kind {
			case 'l':
				off += len(t.text)
			case 'p':
				off += len(t.text) + 2
			default:
				off += len(t.text) + 3
			}
		}
	}
	nHost := 0
	for _, t := range hostToks {
		if t.kind != 'l' {
			nHost++
		}
	}
	if nHost > len(vals) {
		return "I=bad-case"
	}
	host, _ := substitute(hostToks, vals[:nHost])
	path, _ := substitute(pathToks, vals[nHost:])

	got, cc, tsr := f.Lookup(foxWriter{newRecWriter()}, newReq("GET", host, path))
	var ps []fox.Param
	if cc != nil {
		ps = slices.Collect(cc.Params())
		cc.Close()
	}
	I := showLookup(got, ps, tsr)
	if got == nil || got.Pattern() != pat || tsr {
		return "I=" + I + "\tJ=notrouted\tO=accepted pattern " + hx(pat) + " alone does not serve its own instance host=" + hx(host) + " path=" + hx(path) + ": " + I
	}
	var oracles []string
	var names, reported []string
	for _, t := range toks {
		if t.kind != 'l' {
			names = append(names, t.text)
		}
	}
	var keys []string
	for _, p := range ps {
		keys = append(keys, p.Key)
		reported = append(reported, p.Value)
	}
	back, full := substitute(toks, reported)
	if !full || back != host+path || !slices.Equal(keys, names) {
		oracles = append(oracles, "reported params "+showParams(ps)+" do not reproduce the request "+hx(host+path)+" of pattern "+hx(pat))
	}
	infix := false
	for i, t := range toks {
		if t.kind == 'c' && i+1 < len(toks) {
			infix = true
		}
	}
	if !infix && !slices.Equal(reported, vals) {
		oracles = append(oracles, "reported values "+showParams(ps)+" differ from the substituted ones "+fields[2]+" for pattern "+hx(pat))
	}
	// the entry points that walk the tree without recording (Reverse, Iter.Reverse, the Allow loop of a 405 answer) find
	// the route for its own instance as well
	if r2, tsr2 := f.Reverse("GET", host, path); r2 != got || tsr2 {
		oracles = append(oracles, "Router.Reverse does not find the route for its own instance host="+hx(host)+" path="+hx(path)+": "+lkResult(r2, tsr2))
	}
	nrev := 0
	for _, r3 := range f.Iter().Reverse(slices.Values([]string{"GET"}), host, path) {
		nrev++
		if r3 != got {
			oracles = append(oracles, "Iter.Reverse yields another route for the instance of "+hx(pat))
		}
	}
	if nrev != 1 {
		oracles = append(oracles, fmt.Sprintf("Iter.Reverse yields %d routes for the instance of %s", nrev, hx(pat)))
	}
	{
		w := newRecWriter()
		f.ServeHTTP(w, newReq("POST", host, path))
		if w.code != http.StatusMethodNotAllowed || w.h.Get("Allow") != "GET" {
			oracles = append(oracles, fmt.Sprintf("POST on the instance of the GET-only route %s: status %d Allow %q, want 405 GET", hx(pat), w.code, w.h.Get("Allow")))
		}
	}
	// ... and in a state reached by a history: neighbours that extend the hostname / the path are registered and deleted
	// again (splits and merges around the route's nodes), after which the route must serve its instance as before
	var neigh []string
	if hn := rte.Hostname(); hn != "" {
		neigh = append(neigh, hn+".zz"+rte.Path(), hn+"-z"+rte.Path(), hn+"z"+rte.Path()+"q")
		if i := strings.IndexByte(hn, '.'); i > 0 {
			neigh = append(neigh, hn[:i]+"/other")
		}
	}
	if !strings.HasSuffix(pat, "}") {
		neigh = append(neigh, pat+"zz")
	}
	if i := strings.LastIndexByte(pat, '/'); i > hostLen {
		neigh = append(neigh, pat[:i]+"/zz")
	}
	var added []string
	for _, q := range neigh {
		if _, err := f.Handle("GET", q, nopHandler); err == nil {
			added = append(added, q)
		}
	}
	for i := len(added) - 1; i >= 0; i-- {
		if _, err := f.Delete("GET", added[i]); err != nil {
			oracles = append(oracles, "Delete of the neighbour "+hx(added[i])+" failed: "+err.Error())
		}
	}
	if len(added) > 0 {
		got2, cc2, tsr2 := f.Lookup(foxWriter{newRecWriter()}, newReq("GET", host, path))
		var ps2 []fox.Param
		if cc2 != nil {
			ps2 = slices.Collect(cc2.Params())
			cc2.Close()
		}
		if I2 := showLookup(got2, ps2, tsr2); I2 != I {
			oracles = append(oracles, "after registering and deleting the neighbours "+hx(strings.Join(added, " "))+" the instance is answered "+I2+" instead of "+I)
		}
		if r2, t2 := f.Reverse("GET", host, path); r2 != got || t2 {
			oracles = append(oracles, "after registering and deleting neighbours Reverse answers "+lkResult(r2, t2))
		}
	}
	// the pattern is replaced by Update: every entry point then answers with the NEW route (also where the matcher reaches
	// the route through a precomputed sub-node), and inside a write transaction that registers the pattern under another
	// method the instance is routed by the transaction's own lookups before anything is committed
	if nr, err := f.Update("GET", pat, nopHandler); err != nil {
		oracles = append(oracles, "Update of the registered pattern "+hx(pat)+" failed: "+err.Error())
	} else {
		got = nr
		if ru, cu, tu := f.Lookup(foxWriter{newRecWriter()}, newReq("GET", host, path)); ru != nr || tu {
			oracles = append(oracles, "after Update the instance of "+hx(pat)+" is not routed to the new route: "+lkResult(ru, tu))
		} else if cu != nil {
			cu.Close()
		}
		if r2, t2 := f.Reverse("GET", host, path); r2 != nr || t2 {
			oracles = append(oracles, "after Update Reverse does not answer with the new route: "+lkResult(r2, t2))
		}
	}
	{
		txn := f.Txn(true)
		if tr, err := txn.Handle("PATCH", pat, nopHandler); err == nil {
			rt, ct, tt := txn.Lookup(foxWriter{newRecWriter()}, newReq("PATCH", host, path))
			if rt != tr || tt {
				oracles = append(oracles, "a write transaction that registered "+hx(pat)+" does not route its instance before commit: "+lkResult(rt, tt))
			}
			if ct != nil {
				ct.Close()
			}
			if r2, t2 := txn.Reverse("PATCH", host, path); r2 != tr || t2 {
				oracles = append(oracles, "Txn.Reverse does not find the uncommitted route: "+lkResult(r2, t2))
			}
			if r0, _ := f.Reverse("PATCH", host, path); r0 != nil {
				oracles = append(oracles, "the router routes an uncommitted route")
			}
		}
		txn.Abort()
	}
	// the same instance again, several times on the same tree (pooled contexts and sub-contexts are reused now), and as a
	// request whose URL carries it in RawPath (what a server hands over when the target contains escapes)
	for k := 0; k < 4; k++ {
		req := newReq("GET", host, path)
		if k == 3 {
			req = newReq("GET", host, "/zzdecoded")
			req.URL.RawPath = path
		}
		got3, cc3, tsr3 := f.Lookup(foxWriter{newRecWriter()}, req)
		var ps3 []fox.Param
		if cc3 != nil {
			ps3 = slices.Collect(cc3.Params())
			cc3.Close()
		}
		if I3 := showLookup(got3, ps3, tsr3); I3 != I {
			oracles = append(oracles, fmt.Sprintf("lookup #%d of the same instance (RawPath form: %v) is answered %s instead of %s", k+2, k == 3, I3, I))
			break
		}
	}
	out := "I=" + I + "\tJ=routed"
	if len(oracles) > 0 {
		out += "\tO=" + strings.Join(oracles, " ;; ")
	}
	return out
}
