package main

// Stream `recovery` (property C15). Two kinds of cases (one item per case):
//
//	recovery \t P \t <value> \t <progress N|H|B|F|S|R|I|C> \t <scope route|mw|noroute|routets|routehost|nomethod|options|redirect> \t <namehex=valuehex,…|->
//	    a handler (route handler / inner middleware / no-route handler) behind the Recovery middleware sends nothing /
//	    a 202 header / header + partial body / a flush only (F) / WriteString (S) / ReadFrom (R) / a 103 informational header only (I) / a Content-Length header without body (C) and panics with <value>; the request carries the given headers (set
//	    directly in the map, so non-canonical names survive).
//	    value: error wabort abort str nil custom opsys:<hex> opplain:<hex> wrapop:<hex>
//	recovery \t T \t <updates|view|handle|update> \t <value> \t <n ops> \t <p<k> | e<k> | g<k> | ok>
//	    a managed transaction function performing n effective operations that panics after k of them (p<k>), returns
//	    an error after k of them (e<k>), ends its goroutine with runtime.Goexit after k of them (g<k>) or completes (ok); `handle` / `update` = the single-operation helper with a
//	    middleware that panics while the route is built.
//
// Observation: did the call return or re-panic (same value?), what reached the client, the captured slog record
// (redacted header names, route, params, request line), then: routes unchanged? writer lock free? a follow-up request
// (200?) and a follow-up Handle under a 2 s watchdog. O= when the value of a credential header occurs in the record.

import (
	"context"
	"errors"
	"fmt"
	"log/slog"
	"net"
	"net/http"
	"os"
	"runtime"
	"sort"
	"strconv"
	"strings"
	"time"

	"github.com/tigerwill90/fox"
)

func init() {
	register(&stream{name: "recovery", gen: genRecovery, run: runRecovery})
}

type captureHandler struct {
	disabled bool // Enabled reports false for every level: the application discards its logs
	records  []string
	msgs    []string
	route   string
	params  []string
}

func (h *captureHandler) Enabled(context.Context, slog.Level) bool { return !h.disabled }
func (h *captureHandler) Handle(_ context.Context, r slog.Record) error {
	var sb strings.Builder
	sb.WriteString(r.Message)
	r.Attrs(func(a slog.Attr) bool {
		sb.WriteString("\n" + a.Key + "=" + a.Value.String())
		switch a.Key {
		case "route":
			h.route = a.Value.String()
		case "params":
			if a.Value.Kind() == slog.KindGroup {
				for _, p := range a.Value.Group() {
					h.params = append(h.params, hx(p.Key)+"="+hx(p.Value.String()))
				}
			}
		}
		return true
	})
	h.records = append(h.records, sb.String())
	h.msgs = append(h.msgs, r.Message)
	return nil
}
func (h *captureHandler) WithAttrs([]slog.Attr) slog.Handler { return h }
func (h *captureHandler) WithGroup(string) slog.Handler      { return h }

type customPanic struct{ A int }

// recSink swallows what the default log handler prints
type recSink struct{}

func (*recSink) Write(p []byte) (int, error) { return len(p), nil }

var recSensitive = map[string]bool{"authorization": true, "proxy-authorization": true, "cookie": true, "set-cookie": true,
	"x-csrf-token": true, "x-vault-token": true}

func recMakeValue(spec string) any {
	kind, arg, _ := strings.Cut(spec, ":")
	msg := unhx(arg)
	switch kind {
	case "error":
		return errors.New("boom")
	case "wabort":
		return fmt.Errorf("wrapped: %w", http.ErrAbortHandler)
	case "abort":
		return http.ErrAbortHandler
	case "str":
		return "boom"
	case "nil":
		return nil
	case "custom":
		return customPanic{7}
	case "opsys":
		return &net.OpError{Op: "write", Net: "tcp", Err: &os.SyscallError{Syscall: "write", Err: errors.New(msg)}}
	case "opplain":
		return &net.OpError{Op: "write", Net: "tcp", Err: errors.New(msg)}
	case "wrapop":
		return fmt.Errorf("copy: %w", &net.OpError{Op: "write", Net: "tcp", Err: &os.SyscallError{Syscall: "write", Err: errors.New(msg)}})
	case "opnested":
		// what http.Transport produces through a proxy: the syscall error sits one OpError deeper
		return &net.OpError{Op: "proxyconnect", Net: "tcp", Err: &net.OpError{Op: "write", Net: "tcp", Err: &os.SyscallError{Syscall: "write", Err: errors.New(msg)}}}
	case "opwrapsys":
		// the syscall error is wrapped with %w below the OpError
		return &net.OpError{Op: "write", Net: "tcp", Err: fmt.Errorf("flush: %w", &os.SyscallError{Syscall: "write", Err: errors.New(msg)})}
	}
	panic("bad value spec " + spec)
}

// recSame reports whether the re-raised value is the one that was raised
func recSame(orig, got any) (same bool) {
	defer func() {
		if recover() != nil {
			same = false
		}
	}()
	if orig == nil {
		_, ok := got.(*runtime.PanicNilError)
		return ok
	}
	return orig == got
}

// followUps: routes unchanged, lock free, follow-up request and Handle
func recFollowUps(f *fox.Router, before string) string {
	routes := "same"
	if fox.VerifDumpRouter(f) != before {
		routes = "changed"
	}
	lock := "free"
	if fox.VerifWriterLocked(f) {
		lock = "held"
	}
	next := "hang"
	done := make(chan int, 1)
	go func() {
		defer func() {
			if p := recover(); p != nil {
				done <- -1
			}
		}()
		w := newRecWriter()
		f.ServeHTTP(w, newReq(http.MethodGet, "example.com", "/ok"))
		done <- w.code
	}()
	select {
	case c := <-done:
		next = itoa(c)
	case <-time.After(2 * time.Second):
	}
	handle := "hang"
	hdone := make(chan error, 1)
	go func() {
		defer func() {
			if p := recover(); p != nil {
				hdone <- fmt.Errorf("panic: %v", p)
			}
		}()
		_, err := f.Handle(http.MethodGet, "/after/{x}", func(c fox.Context) { c.Writer().WriteHeader(200) })
		hdone <- err
	}()
	select {
	case err := <-hdone:
		if err == nil {
			handle = "ok"
			if f.Route(http.MethodGet, "/after/{x}") == nil {
				handle = "lost"
			}
		} else {
			handle = "err"
		}
	case <-time.After(2 * time.Second):
	}
	return "routes=" + routes + ",lock=" + lock + ",next=" + next + ",handle=" + handle
}

func okHandler(c fox.Context) { c.Writer().WriteHeader(200) }

func runRecovery(fields []string) string {
	if len(fields) < 6 {
		return "I=bad-case"
	}
	if fields[1] == "T" {
		return runRecoveryTxn(fields)
	}
	res := runRecoveryP(fields, 0)
	// containment does not depend on the log handler: with a handler that discards everything (Enabled = false) the
	// same request ends the same way - same return / re-panic, same response, same follow-ups (only the record is gone)
	jOf := func(s string) string {
		for _, f := range strings.Split(s, "\t") {
			if strings.HasPrefix(f, "J=") {
				// (without the record, which the disabled handler does not get)
				if a := strings.Index(f, ",rec="); a >= 0 {
					if b := strings.Index(f[a+1:], ","); b >= 0 {
						f = f[:a] + f[a+1+b:]
					}
				}
				return f
			}
		}
		return ""
	}
	if !strings.Contains(res, "\tO=") {
		if j1, j2 := jOf(res), jOf(runRecoveryP(fields, 1)); j1 != j2 {
			res += "\tO=with a log handler that is disabled for every level the request ends differently: " + j2 + " instead of " + j1
		}
	}
	// nor on how the middleware was constructed or on the state of the request context: fox.Recovery() (the default log
	// handler, its output captured through a hook) on a request whose context is already cancelled ends the same way
	if !strings.Contains(res, "\tO=") {
		if j1, j2 := jOf(res), jOf(runRecoveryP(fields, 2)); j1 != j2 {
			res += "\tO=with fox.Recovery() and a cancelled request context the request ends differently: " + j2 + " instead of " + j1
		}
	}
	return res
}

// logMode 0: CustomRecoveryWithLogHandler(capturing handler); 1: the same with a handler disabled for every level;
// 2: fox.Recovery() and a request whose context has been cancelled
func runRecoveryP(fields []string, logMode int) string {
	logDisabled := logMode == 1
	val := recMakeValue(fields[2])
	progress, scope := fields[3], fields[4]
	type hv struct{ name, value string }
	var hdrs []hv
	if fields[5] != "-" {
		for _, kv := range strings.Split(fields[5], ",") {
			k, v, _ := strings.Cut(kv, "=")
			hdrs = append(hdrs, hv{unhx(k), unhx(v)})
		}
	}
	lh := &captureHandler{disabled: logDisabled}
	recov := fox.CustomRecoveryWithLogHandler(lh, fox.DefaultHandleRecovery)
	if logMode == 2 {
		var sink recSink
		defer fox.VerifSwapDefaultLogOutput(&sink, &sink)()
		recov = fox.Recovery()
	}
	eventsAtPanic := -1
	var rw *recWriter
	doPanic := func(c fox.Context) {
		switch progress {
		case "H":
			c.Writer().WriteHeader(202)
		case "B":
			c.Writer().WriteHeader(202)
			_, _ = c.Writer().Write([]byte("partial"))
		case "F", "E":
			// a flush before anything was written commits the implicit 200 header (e.g. the start of an event stream);
			// "E": the client connection has FlushError itself, as the writer of the net/http server has
			_ = c.Writer().FlushError()
		case "S":
			_, _ = c.Writer().WriteString("partial")
		case "R":
			_, _ = c.Writer().ReadFrom(strings.NewReader("partial"))
		case "I":
			// an informational header only (103 Early Hints): nothing final has been sent, the 500 is still due
			c.Writer().Header().Set("Link", "</style.css>; rel=preload")
			c.Writer().WriteHeader(http.StatusEarlyHints)
		case "C":
			// headers prepared for a body that is never written
			c.Writer().Header().Set("Content-Length", "5")
			c.Writer().Header().Set("Content-Type", "application/octet-stream")
		}
		eventsAtPanic = len(rw.events)
		panic(val)
	}
	var f *fox.Router
	var err error
	path := "/r/42"
	method := http.MethodGet
	switch scope {
	case "route":
		f, err = fox.New(fox.WithMiddleware(recov))
		if err == nil {
			_, err = f.Handle(http.MethodGet, "/r/{id}", doPanic)
		}
	case "routets":
		// the route is reached by ignoring the trailing slash (/r/{id}/ requested as /r/42)
		f, err = fox.New(fox.WithMiddleware(recov), fox.WithIgnoreTrailingSlash(true))
		if err == nil {
			_, err = f.Handle(http.MethodGet, "/r/{id}/", doPanic)
		}
		// branches the matcher explores (and abandons) after it has noted the slash-adjusted candidate: what they
		// recorded must not show up as the parameters of the route that panicked
		for _, p := range []string{"/r/{id}/x", "/{a}/42/y"} {
			if err == nil {
				_, err = f.Handle(http.MethodGet, p, okHandler)
			}
		}
	case "routehost":
		// a hostname route
		f, err = fox.New(fox.WithMiddleware(recov))
		if err == nil {
			_, err = f.Handle(http.MethodGet, "{sub}.com/r/{id}", doPanic)
		}
	case "mw":
		inner := func(next fox.HandlerFunc) fox.HandlerFunc {
			return func(c fox.Context) {
				if c.Request().URL.Path == "/r/42" {
					doPanic(c)
				}
				next(c)
			}
		}
		f, err = fox.New(fox.WithMiddleware(recov, inner))
		if err == nil {
			_, err = f.Handle(http.MethodGet, "/r/{id}", okHandler)
		}
	case "noroute":
		path = "/nowhere/42"
		f, err = fox.New(fox.WithNoRouteHandler(doPanic), fox.WithMiddleware(recov))
	case "nomethod":
		// the 405 handler panics (the path is registered for POST only)
		f, err = fox.New(fox.WithNoMethod(true), fox.WithNoMethodHandler(doPanic), fox.WithMiddleware(recov))
		if err == nil {
			_, err = f.Handle(http.MethodPost, "/r/{id}", okHandler)
		}
	case "options":
		// the automatic OPTIONS handler panics
		method = http.MethodOptions
		f, err = fox.New(fox.WithAutoOptions(true), fox.WithOptionsHandler(doPanic), fox.WithMiddleware(recov))
		if err == nil {
			_, err = f.Handle(http.MethodGet, "/r/{id}", okHandler)
		}
	case "redirect":
		// a middleware scoped to the trailing-slash redirect handler panics
		inner := func(next fox.HandlerFunc) fox.HandlerFunc {
			return func(c fox.Context) {
				doPanic(c)
				next(c)
			}
		}
		f, err = fox.New(fox.WithRedirectTrailingSlash(true), fox.WithMiddleware(recov), fox.WithMiddlewareFor(fox.RedirectHandler, inner))
		if err == nil {
			_, err = f.Handle(http.MethodGet, "/r/{id}/", okHandler)
		}
	default:
		return "I=bad-scope"
	}
	if err != nil {
		return "I=setup-error\tO=setup failed: " + err.Error()
	}
	if _, err := f.Handle(http.MethodGet, "/ok", okHandler); err != nil {
		return "I=setup-error\tO=setup failed: " + err.Error()
	}
	before := fox.VerifDumpRouter(f)
	req := newReq(method, "example.com", path)
	for _, h := range hdrs {
		req.Header[h.name] = []string{h.value}
	}
	if logMode == 2 {
		ctx, cancel := context.WithCancel(req.Context())
		cancel()
		req = req.WithContext(ctx)
	}
	if len(hdrs) > 0 && len(hdrs[0].name)%2 == 0 && scope != "routehost" {
		// a Host with a lone carriage return (a hand-built request; the net/http server would refuse it): the header
		// lines of the dump still end at "\r\n" only
		req.Host = "exa\rmple.com"
	}
	rw = newRecWriter()
	out := "returned"
	func() {
		defer func() {
			if p := recover(); p != nil {
				if recSame(val, p) {
					out = "repanic:same"
				} else {
					out = "repanic:different"
				}
			}
		}()
		if progress == "F" {
			f.ServeHTTP(recFlusher{rw}, req)
		} else if progress == "E" {
			f.ServeHTTP(recFlushErr{recFlusher{rw}}, req)
		} else {
			f.ServeHTTP(rw, req)
		}
	}()
	status := 0
	for _, ev := range rw.events {
		if ev[0] == 'h' {
			c, _ := strconv.Atoi(ev[1:])
			if c >= 200 || c == 101 {
				status = c
				break
			}
		}
	}
	touched := "0"
	if eventsAtPanic < 0 {
		touched = "nopanic"
	} else if len(rw.events) > eventsAtPanic {
		touched = "1"
	}
	logged := itoa(len(lh.records))
	var red []string
	reqline := "0"
	route, params := "-", "-"
	leak := ""
	if len(lh.records) > 0 {
		msg := lh.msgs[0]
		for _, line := range strings.Split(msg, "\r\n") {
			if name, ok := strings.CutSuffix(line, ": <redacted>"); ok {
				red = append(red, hx(name))
			}
		}
		if strings.Contains(msg, method+" "+path+" HTTP/1.1") {
			reqline = "1"
		}
		route = hx(lh.route)
		if len(lh.params) > 0 {
			params = strings.Join(lh.params, "+")
		}
		all := strings.Join(lh.records, "\n")
		for _, h := range hdrs {
			if recSensitive[strings.ToLower(h.name)] && h.value != "" && strings.Contains(all, h.value) {
				leak = fmt.Sprintf("the value of header %q (%s) appears in the logged record", h.name, h.value)
				break
			}
		}
	}
	sort.Strings(red)
	redS := "-"
	if len(red) > 0 {
		redS = strings.Join(red, "+")
	}
	fu := recFollowUps(f, before)
	leakBit := "0"
	if leak != "" {
		leakBit = "1"
	}
	// the request-dump section of the record, byte for byte (the model runs the dump loop of recovery.go on the dump
	// net/http writes for this request)
	dumpS := "-"
	if len(lh.records) > 0 {
		msg := lh.msgs[0]
		if a := strings.Index(msg, "Request Dump:\n"); a >= 0 {
			sec := msg[a+len("Request Dump:\n"):]
			if b := strings.Index(sec, "Stack:\n"); b >= 0 {
				sec = sec[:b]
			}
			dumpS = hx(sec)
		} else {
			dumpS = "nodump"
		}
	}
	i := fmt.Sprintf("out=%s,logged=%s,status=%d,touched=%s,redacted=%s,route=%s,params=%s,reqline=%s,dump=%s,%s", out, logged, status, touched, redS, route, params, reqline, dumpS, fu)
	// the record of a recovered panic names the route, the parameters and the request line ("-" when nothing was logged)
	recS := "-"
	if len(lh.records) > 0 {
		recS = route + "/" + params + "/" + reqline
	}
	j := fmt.Sprintf("out=%s,status=%d,touched=%s,leak=%s,rec=%s,%s", out, status, touched, leakBit, recS, fu)
	res := "I=" + i + "\tJ=" + j
	if leak != "" {
		res += "\tO=" + leak
	}
	// the fresh 500 must be a readable response: a Content-Length announced with it is the length of the body sent with it
	if status == 500 && touched == "1" {
		if cl := rw.h.Get("Content-Length"); cl != "" && cl != itoa(len(rw.body)) && leak == "" {
			res += fmt.Sprintf("\tO=the 500 response announces Content-Length %s and carries %d body bytes", cl, len(rw.body))
		}
	}
	return res
}

var errTxnStop = errors.New("stop")

func runRecoveryTxn(fields []string) string {
	kind := fields[2]
	val := recMakeValue(fields[3])
	nops, _ := strconv.Atoi(fields[4])
	pos := fields[5]
	f, err := fox.New()
	if err != nil {
		return "I=setup-error\tO=" + err.Error()
	}
	// order matters: "/seed/c" comes last so that the node "/seed/" was last rebuilt by an insert that APPENDED a child (its
	// children slice then has spare capacity, which an aliasing defect needs); a later descent through it would replace it
	// by an exact-capacity clone
	for _, p := range []string{"/ok", "/seed/a", "/seed/b/{x}", "/seed/b", "/seed/b/y", "/seed/c"} {
		if _, err := f.Handle(http.MethodGet, p, okHandler); err != nil {
			return "I=setup-error\tO=" + err.Error()
		}
	}
	for _, m := range []string{http.MethodPost, http.MethodPut, http.MethodDelete, "TRACE"} {
		if _, err := f.Handle(m, "/seed/w/"+strings.ToLower(m), okHandler); err != nil {
			return "I=setup-error\tO=" + err.Error()
		}
	}
	before := fox.VerifDumpRouter(f)
	stopAt, mode := -1, pos[:1]
	if mode != "o" {
		stopAt, _ = strconv.Atoi(pos[1:])
	}
	body := func(txn *fox.Txn) error {
		for k := 0; k <= nops; k++ {
			if k == stopAt {
				if mode == "p" {
					panic(val)
				}
				if mode == "g" {
					// the goroutine is terminated from inside the callback (what t.FailNow / require.* do): the deferred
					// calls run, nothing is recovered, nothing is returned
					runtime.Goexit()
				}
				return errTxnStop
			}
			if k == nops {
				break
			}
			if kind == "view" {
				_ = txn.Has(http.MethodGet, "/seed/a")
				_ = txn.Len()
				continue
			}
			if kind == "updates-u" {
				// the handler of a route that has children is replaced first, then routes are registered below it
				if k == 0 {
					if _, err := txn.Update(http.MethodGet, "/seed/b", okHandler); err != nil {
						return err
					}
				}
				if _, err := txn.Handle(http.MethodGet, "/seed/b/u"+itoa(k), okHandler); err != nil {
					return err
				}
				continue
			}
			if kind == "updates-s" {
				// new siblings that sort before the existing children of a node grown one child at a time
				if _, err := txn.Handle(http.MethodGet, "/seed/"+string(rune('0'+k%10))+itoa(k), okHandler); err != nil {
					return err
				}
				continue
			}
			if strings.HasPrefix(kind, "updates-t") {
				// the transaction begins with a Truncate (of GET, of everything, of a method without routes and GET)
				if k == 0 {
					var terr error
					// (GET keeps its routes: the follow-up request goes to GET /ok)
					switch kind {
					case "updates-t1":
						terr = txn.Truncate(http.MethodPost)
					case "updates-t2":
						terr = txn.Truncate(http.MethodPut, http.MethodPost)
					default:
						terr = txn.Truncate("TRACE", http.MethodDelete, http.MethodPost)
					}
					if terr != nil {
						return terr
					}
				} else if _, err := txn.Handle([]string{http.MethodGet, http.MethodPost, "TRACE"}[k%3], "/tt"+itoa(k)+"/{p}", okHandler); err != nil {
					return err
				}
				continue
			}
			switch k % 3 {
			case 0:
				if _, err := txn.Handle(http.MethodGet, "/t"+itoa(k)+"/{p}", okHandler); err != nil {
					return err
				}
			case 1:
				if _, err := txn.Update(http.MethodGet, "/seed/b/{x}", okHandler); err != nil {
					return err
				}
			case 2:
				if k == 2 {
					if _, err := txn.Delete(http.MethodGet, "/seed/c"); err != nil {
						return err
					}
				} else if _, err := txn.Handle(http.MethodPost, "/t"+itoa(k), okHandler); err != nil {
					return err
				}
			}
		}
		return nil
	}
	panicMw := func(next fox.HandlerFunc) fox.HandlerFunc { panic(val) }
	out := "returned"
	call := func() {
		defer func() {
			if p := recover(); p != nil {
				if recSame(val, p) {
					out = "repanic:same"
				} else {
					out = "repanic:different"
				}
			}
		}()
		if mode == "g" {
			out = "goexit" // overwritten when the call comes back
		}
		var err error
		switch kind {
		case "updates", "updates-t1", "updates-t2", "updates-t3", "updates-s", "updates-u":
			err = f.Updates(body)
		case "view":
			err = f.View(body)
		case "handle":
			_, err = f.Handle(http.MethodGet, "/single/{x}", okHandler, fox.WithMiddleware(panicMw))
		case "update":
			_, err = f.Update(http.MethodGet, "/seed/a", okHandler, fox.WithMiddleware(panicMw))
		case "musthandle":
			_ = f.MustHandle(http.MethodGet, "/single/{x}", okHandler, fox.WithMiddleware(panicMw))
		case "musthandle-dup":
			// MustHandle panics by design when the route exists; an application that recovers from it (a plugin that
			// registers its routes twice) must find the router usable
			func() {
				defer func() {
					if p := recover(); p != nil {
						if e, ok := p.(error); ok && errors.Is(e, fox.ErrRouteExist) {
							panic(val)
						}
						panic(p)
					}
				}()
				_ = f.MustHandle(http.MethodGet, "/seed/a", okHandler)
			}()
		}
		if mode == "g" {
			out = "returned"
		}
		if err != nil {
			if errors.Is(err, errTxnStop) {
				out = "error"
			} else {
				out = "error:" + err.Error()
			}
		}
	}
	if mode == "g" {
		done := make(chan struct{})
		go func() {
			defer close(done)
			call()
		}()
		<-done
	} else {
		call()
	}
	fu := recFollowUps(f, before)
	res := "out=" + out + "," + fu
	return "I=" + res + "\tJ=" + res
}

// ---------------------------------------------------------------------------------------------- gen

var recValues = []string{"error", "wabort", "abort", "str", "nil", "custom",
	"opsys:" + hx("broken pipe"), "opsys:" + hx("connection reset by peer"), "opsys:" + hx("Broken Pipe"),
	"opsys:" + hx("Connection Reset By Peer"), "opsys:" + hx("no space left on device"), "opsys:" + hx("broken"),
	"opplain:" + hx("broken pipe"), "opplain:" + hx("i/o timeout"), "wrapop:" + hx("broken pipe"),
	"opnested:" + hx("broken pipe"), "opnested:" + hx("connection refused"), "opwrapsys:" + hx("connection reset by peer"), "opwrapsys:" + hx("timeout")}

var recSensitiveNames = []string{"Authorization", "Proxy-Authorization", "Cookie", "Set-Cookie", "X-Csrf-Token", "X-CSRF-Token", "X-Vault-Token"}
var recOrdinaryNames = []string{"Accept", "X-Request-Id", "User-Agent", "X-Token", "Cookies", "Authorization-Info", "X-Csrf", "Content-Type"}

func recCase(r *Rng, name string) string {
	switch r.Intn(4) {
	case 0:
		return name
	case 1:
		return strings.ToLower(name)
	case 2:
		return strings.ToUpper(name)
	default:
		b := []byte(name)
		for i := range b {
			if r.Bool() {
				b[i] = strings.ToUpper(string(b[i]))[0]
			} else {
				b[i] = strings.ToLower(string(b[i]))[0]
			}
		}
		return string(b)
	}
}

func recHeaders(r *Rng, k int) string {
	n := 1 + r.Intn(5)
	seen := map[string]bool{}
	var parts []string
	for i := 0; i < n; i++ {
		var name string
		if r.Chance(65) {
			name = recCase(r, Pick(r, recSensitiveNames))
		} else {
			name = recCase(r, Pick(r, recOrdinaryNames))
		}
		if seen[name] {
			continue
		}
		seen[name] = true
		parts = append(parts, hx(name)+"="+hx(fmt.Sprintf("tok%dq%dzz", k, i)))
	}
	return strings.Join(parts, ",")
}

// recFlusher: the client connection can be flushed; as in net/http a flush commits the implicit 200 header
type recFlusher struct{ *recWriter }

func (w recFlusher) Flush() {
	if !w.wrote {
		w.recWriter.WriteHeader(200)
	}
	w.events = append(w.events, "f")
}

// recFlushErr: a connection with FlushError (and Flush), as net/http's own response writer
type recFlushErr struct{ recFlusher }

func (w recFlushErr) FlushError() error {
	w.Flush()
	return nil
}

func genRecovery(r *Rng, tier string, n int, emit func(string)) {
	emitted := 0
	// every value x progress x scope once, with random headers
	k := 0
	for _, v := range recValues {
		for _, p := range []string{"N", "H", "B", "F", "S", "R", "I", "C"} {
			for _, s := range []string{"route", "mw", "noroute", "routets", "routehost", "nomethod", "options", "redirect"} {
				if emitted >= n*2/3 {
					break
				}
				k++
				emit("recovery\tP\t" + v + "\t" + p + "\t" + s + "\t" + recHeaders(r, k))
				emitted++
			}
		}
	}
	// every sensitive name in canonical / lower / upper case, alone
	for _, name := range recSensitiveNames {
		for _, nm := range []string{name, strings.ToLower(name), strings.ToUpper(name)} {
			k++
			emit("recovery\tP\tstr\tN\troute\t" + hx(nm) + "=" + hx(fmt.Sprintf("tok%dzz", k)))
			emitted++
		}
	}
	// transactions: a panic / an error after every prefix, and completion
	for _, kind := range []string{"updates", "view", "updates-t1", "updates-t2", "updates-t3", "updates-s", "updates-u"} {
		for nops := 0; nops <= 5; nops++ {
			for pos := 0; pos <= nops; pos++ {
				emit(fmt.Sprintf("recovery\tT\t%s\t%s\t%d\tp%d", kind, Pick(r, recValues), nops, pos))
				emit(fmt.Sprintf("recovery\tT\t%s\terror\t%d\te%d", kind, nops, pos))
				emit(fmt.Sprintf("recovery\tT\t%s\terror\t%d\tg%d", kind, nops, pos))
				emitted += 3
			}
			emit(fmt.Sprintf("recovery\tT\t%s\terror\t%d\tok", kind, nops))
			emitted++
		}
	}
	for _, kind := range []string{"handle", "update", "musthandle", "musthandle-dup"} {
		for _, v := range []string{"error", "str", "abort", "nil"} {
			emit("recovery\tT\t" + kind + "\t" + v + "\t0\tp0")
			emitted++
		}
	}
	// the flush of a connection that has FlushError of its own, in every scope (not counted: the other cases of a seed
	// stay what they were)
	for i, s := range []string{"route", "mw", "noroute", "routets", "routehost", "nomethod", "options", "redirect"} {
		emit("recovery\tP\t" + recValues[i%len(recValues)] + "\tE\t" + s + "\t" + hx("X-Trace") + "=" + hx(fmt.Sprintf("e%d", i)))
	}
	for emitted < n {
		k++
		emit("recovery\tP\t" + Pick(r, recValues) + "\t" + Pick(r, []string{"N", "H", "B", "F", "S", "R", "I", "C"}) + "\t" +
			Pick(r, []string{"route", "mw", "noroute", "routets", "routehost", "nomethod", "options", "redirect"}) + "\t" + recHeaders(r, k))
		emitted++
	}
}
