package main

// Stream `rw` (property C14): a case is a list of calls on the fox ResponseWriter of one request
//
//	rw \t <call>;<call>;… \t <shape: 7 chars 0/1 = rf fl fe hj pu dl fd> \t <fault: k | inf>
//
//	WH,c  WR,n  WS,n  RF,<n+n+…|->,<0|1>  FL HJ PU RD WD FD  STR,c,n  BLOB,c,n  STREAM,c,<chunks>,<0|1>  REDIR,c,len
//
// The real recorder is obtained by serving a GET request through a fox router; the handler performs the calls on
// c.Writer() / the Context helpers. The underlying http.ResponseWriter records every event that reaches it, accepts
// `k` more body bytes and then fails, and implements exactly the optional interfaces selected by the shape.
// Per call: I = status,written,size,n,err,ct,events-of-this-call ; J = status,written,size,wf.
// Model-free oracles (O=): the answers against the recorded log, body bytes in order, ReaderFrom on/off agreement.

import (
	"bufio"
	"bytes"
	"errors"
	"fmt"
	"io"
	"log"
	"net"
	"net/http"
	"strconv"
	"strings"
	"time"

	"github.com/tigerwill90/fox"
)

func init() {
	register(&stream{name: "rw", gen: genRW, run: runRW})
}

var (
	errUWFault = errors.New("underlying writer fault")
	errSrcFail = errors.New("source fault")
)

// ---------------------------------------------------------------------------------------------- underlying writer

type uwCore struct {
	h        http.Header
	budget   int // -1 = never fails
	wrote    bool
	hijacked bool
	events   []string
	body     []byte
}

func (u *uwCore) Header() http.Header { return u.h }

// Unwrap: every underlying writer of this stream also wraps an inner writer that supports every optional interface.
// The capabilities of the Context's writer are those of the writer the router was GIVEN; whatever reaches the inner
// writer is recorded as a "U-…" event, which no expected event list contains.
func (u *uwCore) Unwrap() http.ResponseWriter { return uwInner{u} }

type uwInner struct{ c *uwCore }

func (x uwInner) Header() http.Header {
	x.c.events = append(x.c.events, "U-header")
	return http.Header{}
}
func (x uwInner) WriteHeader(int) { x.c.events = append(x.c.events, "U-wh") }
func (x uwInner) Write(b []byte) (int, error) {
	x.c.events = append(x.c.events, "U-w")
	return len(b), nil
}
func (x uwInner) Flush()            { x.c.events = append(x.c.events, "U-fl") }
func (x uwInner) FlushError() error { x.c.events = append(x.c.events, "U-fe"); return nil }
func (x uwInner) Hijack() (net.Conn, *bufio.ReadWriter, error) {
	x.c.events = append(x.c.events, "U-hj")
	return nil, nil, nil
}
func (x uwInner) Push(string, *http.PushOptions) error {
	x.c.events = append(x.c.events, "U-pu")
	return nil
}
func (x uwInner) SetReadDeadline(time.Time) error {
	x.c.events = append(x.c.events, "U-rd")
	return nil
}
func (x uwInner) SetWriteDeadline(time.Time) error {
	x.c.events = append(x.c.events, "U-wd")
	return nil
}
func (x uwInner) EnableFullDuplex() error { x.c.events = append(x.c.events, "U-fd"); return nil }
func (x uwInner) ReadFrom(r io.Reader) (int64, error) {
	x.c.events = append(x.c.events, "U-rf")
	return io.Copy(io.Discard, r)
}
func (u *uwCore) WriteHeader(code int) {
	u.events = append(u.events, "h"+itoa(code))
	if code == 101 || code < 100 || code > 199 {
		u.wrote = true
	}
}
func (u *uwCore) accept(b []byte) int {
	a := len(b)
	if u.budget >= 0 && a > u.budget {
		a = u.budget
	}
	if u.budget >= 0 {
		u.budget -= a
	}
	if a > 0 {
		u.body = append(u.body, b[:a]...)
		u.events = append(u.events, "b"+itoa(a))
	}
	return a
}
func (u *uwCore) Write(b []byte) (int, error) {
	if u.hijacked {
		return 0, http.ErrHijacked
	}
	if !u.wrote {
		u.WriteHeader(200)
	}
	a := u.accept(b)
	if a < len(b) {
		return a, errUWFault
	}
	return a, nil
}

type capRF struct{ c *uwCore }

// ReadFrom behaves like net/http's: chunk by chunk through its own write path, implicit 200 only when bytes are written.
func (x capRF) ReadFrom(src io.Reader) (int64, error) {
	u := x.c
	buf := make([]byte, 4096)
	var tot int64
	for {
		nr, er := src.Read(buf)
		if nr > 0 {
			if u.hijacked {
				return tot, http.ErrHijacked
			}
			can := nr
			if u.budget >= 0 && can > u.budget {
				can = u.budget
			}
			if can > 0 && !u.wrote {
				u.WriteHeader(200)
			}
			a := u.accept(buf[:nr])
			tot += int64(a)
			if a < nr {
				return tot, errUWFault
			}
		}
		if er != nil {
			if er == io.EOF {
				return tot, nil
			}
			return tot, er
		}
	}
}

type capFL struct{ c *uwCore }

func (x capFL) Flush() { x.c.events = append(x.c.events, "fl") }

type capFE struct{ c *uwCore }

func (x capFE) FlushError() error {
	x.c.events = append(x.c.events, "fe")
	if x.c.budget == 0 {
		return errUWFault
	}
	return nil
}

type capHJ struct{ c *uwCore }

func (x capHJ) Hijack() (net.Conn, *bufio.ReadWriter, error) {
	x.c.events = append(x.c.events, "hj")
	x.c.hijacked = true
	return nil, nil, nil
}

type capPU struct{ c *uwCore }

func (x capPU) Push(string, *http.PushOptions) error {
	x.c.events = append(x.c.events, "pu")
	return nil
}

type capDL struct{ c *uwCore }

func (x capDL) SetReadDeadline(time.Time) error {
	x.c.events = append(x.c.events, "rd")
	return nil
}
func (x capDL) SetWriteDeadline(time.Time) error {
	x.c.events = append(x.c.events, "wd")
	return nil
}

type capFD struct{ c *uwCore }

func (x capFD) EnableFullDuplex() error {
	x.c.events = append(x.c.events, "fd")
	return nil
}

// shape string (rf fl fe hj pu dl fd) -> a writer type implementing exactly those optional interfaces
var rwShapes = map[string]func(c *uwCore) http.ResponseWriter{
	"0000000": func(c *uwCore) http.ResponseWriter { return struct{ *uwCore }{c} },
	"1000000": func(c *uwCore) http.ResponseWriter {
		return struct {
			*uwCore
			capRF
		}{c, capRF{c}}
	},
	"0100000": func(c *uwCore) http.ResponseWriter {
		return struct {
			*uwCore
			capFL
		}{c, capFL{c}}
	},
	"1100000": func(c *uwCore) http.ResponseWriter {
		return struct {
			*uwCore
			capRF
			capFL
		}{c, capRF{c}, capFL{c}}
	},
	"0010000": func(c *uwCore) http.ResponseWriter {
		return struct {
			*uwCore
			capFE
		}{c, capFE{c}}
	},
	"1010000": func(c *uwCore) http.ResponseWriter {
		return struct {
			*uwCore
			capRF
			capFE
		}{c, capRF{c}, capFE{c}}
	},
	"0110000": func(c *uwCore) http.ResponseWriter {
		return struct {
			*uwCore
			capFL
			capFE
		}{c, capFL{c}, capFE{c}}
	},
	"1110000": func(c *uwCore) http.ResponseWriter {
		return struct {
			*uwCore
			capRF
			capFL
			capFE
		}{c, capRF{c}, capFL{c}, capFE{c}}
	},
	"0001000": func(c *uwCore) http.ResponseWriter {
		return struct {
			*uwCore
			capHJ
		}{c, capHJ{c}}
	},
	"1001000": func(c *uwCore) http.ResponseWriter {
		return struct {
			*uwCore
			capRF
			capHJ
		}{c, capRF{c}, capHJ{c}}
	},
	"0101000": func(c *uwCore) http.ResponseWriter {
		return struct {
			*uwCore
			capFL
			capHJ
		}{c, capFL{c}, capHJ{c}}
	},
	"1101000": func(c *uwCore) http.ResponseWriter {
		return struct {
			*uwCore
			capRF
			capFL
			capHJ
		}{c, capRF{c}, capFL{c}, capHJ{c}}
	},
	"0000111": func(c *uwCore) http.ResponseWriter {
		return struct {
			*uwCore
			capPU
			capDL
			capFD
		}{c, capPU{c}, capDL{c}, capFD{c}}
	},
	"1000111": func(c *uwCore) http.ResponseWriter {
		return struct {
			*uwCore
			capRF
			capPU
			capDL
			capFD
		}{c, capRF{c}, capPU{c}, capDL{c}, capFD{c}}
	},
	"0111111": func(c *uwCore) http.ResponseWriter {
		return struct {
			*uwCore
			capFL
			capFE
			capHJ
			capPU
			capDL
			capFD
		}{c, capFL{c}, capFE{c}, capHJ{c}, capPU{c}, capDL{c}, capFD{c}}
	},
	"1111111": func(c *uwCore) http.ResponseWriter {
		return struct {
			*uwCore
			capRF
			capFL
			capFE
			capHJ
			capPU
			capDL
			capFD
		}{c, capRF{c}, capFL{c}, capFE{c}, capHJ{c}, capPU{c}, capDL{c}, capFD{c}}
	},
}

var rwShapeNames = []string{"0000000", "1000000", "0100000", "1100000", "0010000", "1010000", "0110000", "1110000",
	"0001000", "1001000", "0101000", "1101000", "0000111", "1000111", "0111111", "1111111"}

// ---------------------------------------------------------------------------------------------- source reader

type chunkReader struct {
	chunks [][]byte
	fail   bool
}

func (c *chunkReader) Read(p []byte) (int, error) {
	if len(c.chunks) == 0 {
		if c.fail {
			return 0, errSrcFail
		}
		return 0, io.EOF
	}
	ch := c.chunks[0]
	c.chunks = c.chunks[1:]
	return copy(p, ch), nil
}

// ---------------------------------------------------------------------------------------------- run

const (
	rwBlobCT   = "application/x-blob"
	rwStreamCT = "application/x-stream"
)

func rwErrKind(err error) string {
	switch {
	case err == nil:
		return "ok"
	case errors.Is(err, errUWFault):
		return "fault"
	case errors.Is(err, errSrcFail):
		return "src"
	case errors.Is(err, http.ErrHijacked):
		return "hijacked"
	case errors.Is(err, io.ErrShortWrite):
		return "short"
	case errors.Is(err, http.ErrNotSupported):
		return "notsup"
	case errors.Is(err, fox.ErrInvalidRedirectCode):
		return "badredirect"
	}
	return "other:" + strings.ReplaceAll(err.Error(), "\t", " ")
}

func rwCT(h http.Header) string {
	switch v := h.Get("Content-Type"); v {
	case "":
		return "-"
	case fox.MIMETextPlainCharsetUTF8:
		return "text"
	case rwBlobCT:
		return "blob"
	case rwStreamCT:
		return "stream"
	case "text/html; charset=utf-8":
		return "html"
	default:
		return "other:" + v
	}
}

type rwItem struct {
	status        int
	written       bool
	size          int
	n             string
	err           string
	ct            string
	events        string
	wf            bool
	oracle        string
	expectedBytes []byte
}

type rwPayload struct{ next byte }

func (p *rwPayload) take(n int) []byte {
	b := make([]byte, n)
	for i := range b {
		b[i] = p.next
		p.next++
		if p.next == 251 {
			p.next = 0
		}
	}
	return b
}

func rwParseChunks(s string, p *rwPayload) ([][]byte, []byte) {
	if s == "-" || s == "" {
		return nil, nil
	}
	var out [][]byte
	var all []byte
	for _, x := range strings.Split(s, "+") {
		n, _ := strconv.Atoi(x)
		b := p.take(n)
		out = append(out, b)
		all = append(all, b...)
	}
	return out, all
}

// rwExec runs one case on one shape; returns per-call items and an oracle failure text ("" = none)
func rwExec(calls []string, shape string, fault int) ([]rwItem, string) {
	mk, ok := rwShapes[shape]
	if !ok {
		return nil, "unknown shape " + shape
	}
	core := &uwCore{h: http.Header{}, budget: fault}
	uw := mk(core)
	var items []rwItem
	oracle := ""
	fail := func(s string) {
		if oracle == "" {
			oracle = s
		}
	}
	var expected []byte
	pay := &rwPayload{}
	f, err := fox.New()
	if err != nil {
		return nil, "fox.New: " + err.Error()
	}
	handler := func(c fox.Context) {
		w := c.Writer()
		for k, call := range calls {
			p := strings.Split(call, ",")
			seen := len(core.events)
			it := rwItem{n: "-"}
			var e error
			num := func(i int) int { v, _ := strconv.Atoi(p[i]); return v }
			switch p[0] {
			case "WH":
				w.WriteHeader(num(1))
			case "WR":
				b := pay.take(num(1))
				var n int
				n, e = w.Write(b)
				it.n = itoa(n)
				if n >= 0 && n <= len(b) {
					expected = append(expected, b[:n]...)
				}
			case "WS":
				b := pay.take(num(1))
				var n int
				n, e = w.WriteString(string(b))
				it.n = itoa(n)
				if n >= 0 && n <= len(b) {
					expected = append(expected, b[:n]...)
				}
			case "RF":
				chunks, all := rwParseChunks(p[1], pay)
				var n int64
				n, e = w.ReadFrom(&chunkReader{chunks: chunks, fail: p[2] == "1"})
				it.n = itoa(int(n))
				if n >= 0 && int(n) <= len(all) {
					expected = append(expected, all[:n]...)
				}
			case "FL":
				e = w.FlushError()
			case "HJ":
				_, _, e = w.Hijack()
			case "PU":
				e = w.Push("/pushed", nil)
			case "RD":
				e = w.SetReadDeadline(time.Time{})
			case "WD":
				e = w.SetWriteDeadline(time.Time{})
			case "FD":
				e = w.EnableFullDuplex()
			case "CT":
				// a Content-Type chosen before the helper runs (what a middleware with a default type does)
				w.Header().Set("Content-Type", "text/html; charset=utf-8")
			case "STR":
				b := pay.take(num(2))
				before := len(core.body)
				// String(code, format, values...) must send Sprintf(format, values...): three shapes of the same b
				switch {
				case len(b)%3 == 1 && len(b) >= 2:
					// the format alone, with literal percent signs written "%%" (no values)
					bb := append([]byte(nil), b...)
					bb[0], bb[len(bb)-1] = '%', '%'
					b = bb
					e = c.String(num(1), strings.ReplaceAll(string(b), "%", "%%"))
				case len(b)%3 == 2 && len(b) >= 4:
					// several verbs and a literal percent sign
					bb := append([]byte(nil), b...)
					bb[0], bb[1] = '7', '%'
					b = bb
					e = c.String(num(1), "%d%%%s", 7, string(b[2:]))
				default:
					e = c.String(num(1), "%s", string(b))
				}
				expected = append(expected, b[:min(len(b), len(core.body)-before)]...)
			case "BLOB":
				b := pay.take(num(2))
				before := len(core.body)
				fresh := !w.Written()
				e = c.Blob(num(1), rwBlobCT, b)
				expected = append(expected, b[:min(len(b), len(core.body)-before)]...)
				if fresh && core.h.Get("Content-Type") != rwBlobCT {
					fail(fmt.Sprintf("call %d %s: Blob was given content type %q, the response carries %q", k, call, rwBlobCT, core.h.Get("Content-Type")))
				}
			case "STREAM":
				chunks, all := rwParseChunks(p[2], pay)
				before := len(core.body)
				fresh := !w.Written()
				e = c.Stream(num(1), rwStreamCT, &chunkReader{chunks: chunks, fail: p[3] == "1"})
				expected = append(expected, all[:min(len(all), len(core.body)-before)]...)
				if fresh && core.h.Get("Content-Type") != rwStreamCT {
					fail(fmt.Sprintf("call %d %s: Stream was given content type %q, the response carries %q", k, call, rwStreamCT, core.h.Get("Content-Type")))
				}
			case "REDIR":
				before := len(core.body)
				e = c.Redirect(num(1), "/t")
				// stdlib body: compared by length with the reference computed by the generator (see rwRedirectLen)
				expected = append(expected, core.body[before:]...)
				if e == nil && core.h.Get("Location") != "/t" {
					fail(fmt.Sprintf("call %d %s: Location=%q", k, call, core.h.Get("Location")))
				}
			default:
				fail("bad call " + call)
			}
			it.status, it.written, it.size = w.Status(), w.Written(), w.Size()
			it.err = rwErrKind(e)
			it.ct = rwCT(core.h)
			if len(core.events) > seen {
				it.events = strings.Join(core.events[seen:], "+")
			} else {
				it.events = "-"
			}
			// model-free oracle: the answers against the log of the underlying writer
			first, finals, nbytes, late := -1, 0, 0, false
			for _, ev := range core.events {
				if ev == "hj" {
					continue
				}
				switch ev[0] {
				case 'h':
					code, _ := strconv.Atoi(ev[1:])
					if code == 101 || code < 100 || code > 199 {
						if first < 0 {
							first = code
						}
						finals++
						if nbytes > 0 {
							late = true
						}
					}
				case 'b':
					n, _ := strconv.Atoi(ev[1:])
					nbytes += n
				}
			}
			wantStatus := 200
			if first >= 0 {
				wantStatus = first
			}
			it.wf = finals <= 1 && !late
			if it.status != wantStatus || it.size != nbytes || it.written != (first >= 0 || nbytes > 0) || !it.wf {
				fail(fmt.Sprintf("after call %d (%s) on shape %s fault %d: Status=%d Written=%v Size=%d but the underlying writer saw [%s] (first final status %d, %d final, %d body bytes)",
					k, call, shape, fault, it.status, it.written, it.size, strings.Join(core.events, " "), first, finals, nbytes))
			}
			items = append(items, it)
		}
	}
	if _, err := f.Handle(http.MethodGet, "/x", handler); err != nil {
		return nil, "Handle: " + err.Error()
	}
	// the recorder under test is the one embedded in a recycled context: an earlier request on the same tree wrote,
	// flushed and hijacked its connection; nothing of that may be visible in this one
	if _, err := f.Handle(http.MethodGet, "/pre", func(c fox.Context) {
		c.Writer().WriteHeader(http.StatusAccepted)
		_, _ = c.Writer().Write([]byte("pre"))
		_ = c.Writer().FlushError()
		_, _, _ = c.Writer().Hijack()
	}); err != nil {
		return nil, "Handle: " + err.Error()
	}
	f.ServeHTTP(ctxHijackWriter{newRecWriter()}, newReq(http.MethodGet, "example.com", "/pre"))
	f.ServeHTTP(uw, newReq(http.MethodGet, "example.com", "/x"))
	if len(items) != len(calls) {
		fail("handler did not run all calls")
	}
	if !bytes.Equal(core.body, expected) {
		fail(fmt.Sprintf("body bytes reaching the underlying writer (%x) are not the accepted prefixes of the writes in order (%x)", core.body, expected))
	}
	return items, oracle
}

func runRW(fields []string) string {
	if len(fields) < 4 {
		return "I=bad-case"
	}
	log.SetOutput(io.Discard)
	calls := []string{}
	for _, c := range strings.Split(fields[1], ";") {
		if c != "" {
			calls = append(calls, c)
		}
	}
	shape := fields[2]
	fault := -1
	if fields[3] != "inf" {
		fault, _ = strconv.Atoi(fields[3])
	}
	items, oracle := rwExec(calls, shape, fault)
	b01 := func(b bool) string {
		if b {
			return "1"
		}
		return "0"
	}
	var is, js []string
	for k, it := range items {
		is = append(is, strings.Join([]string{itoa(it.status), b01(it.written), itoa(it.size), it.n, it.err, it.ct, it.events}, ","))
		wf := "wf"
		if !it.wf {
			wf = "illformed"
		}
		// an optional capability is delegated to the writer the router was given (its event and no other) or refused
		capRes := "-"
		if k < len(calls) {
			if ev, ok := map[string]string{"HJ": "hj", "PU": "pu", "RD": "rd", "WD": "wd", "FD": "fd"}[calls[k]]; ok {
				switch {
				case it.err == "notsup" && it.events == "-":
					capRes = "notsup"
				case it.err == "ok" && it.events == ev:
					capRes = "deleg"
				default:
					capRes = "other:" + it.err + "/" + it.events
				}
			}
		}
		js = append(js, strings.Join([]string{itoa(it.status), b01(it.written), itoa(it.size), wf, capRes}, ","))
	}
	// ReaderFrom on/off must give the same answers and return values (the writer accepts at least one byte: with a
	// writer that rejects the very first byte the two paths differ by design of the underlying writer, see props/C14.json)
	if oracle == "" && fault != 0 {
		other := []byte(shape)
		if other[0] == '1' {
			other[0] = '0'
		} else {
			other[0] = '1'
		}
		if _, ok := rwShapes[string(other)]; ok {
			items2, o2 := rwExec(calls, string(other), fault)
			if o2 != "" {
				oracle = o2
			} else {
				for k := range items {
					a, b := items[k], items2[k]
					if a.status != b.status || a.written != b.written || a.size != b.size || a.n != b.n || a.err != b.err || a.events != b.events {
						oracle = fmt.Sprintf("call %d (%s): with ReaderFrom=%c status,written,size,n,err,events = %d,%v,%d,%s,%s,%s but with ReaderFrom=%c %d,%v,%d,%s,%s,%s",
							k, calls[k], shape[0], a.status, a.written, a.size, a.n, a.err, a.events, other[0], b.status, b.written, b.size, b.n, b.err, b.events)
						break
					}
				}
			}
		}
	}
	out := "I=" + strings.Join(is, "|") + "\tJ=" + strings.Join(js, "|")
	if oracle != "" {
		out += "\tO=" + strings.ReplaceAll(oracle, "\t", " ")
	}
	return out
}

// ---------------------------------------------------------------------------------------------- gen

// rwRedirectLen is the length of the body the standard library's http.Redirect writes for a GET request (reference run
// against a plain recorder; the standard library is compared, not modelled).
func rwRedirectLen(code int) int {
	w := newRecWriter()
	http.Redirect(w, newReq(http.MethodGet, "example.com", "/x"), "/t", code)
	return len(w.body)
}

var rwReduced = []string{"WH,404", "WH,103", "WR,3", "WS,0", "RF,2+3,0", "RF,3,1", "RF,-,0", "FL", "HJ"}
var rwFaults = []string{"0", "1", "3", "inf"}
var rwCodes = []int{100, 101, 102, 103, 199, 200, 201, 204, 301, 304, 404, 500, 599}
var rwRedirCodes = []int{200, 299, 300, 301, 302, 303, 304, 305, 306, 307, 308, 309, 404, 599}

func rwRandChunks(r *Rng) string {
	k := r.Intn(5)
	if k == 0 {
		return "-"
	}
	parts := make([]string, k)
	for i := range parts {
		parts[i] = itoa(r.Intn(6))
	}
	return strings.Join(parts, "+")
}

func rwRandCall(r *Rng) string {
	switch r.Intn(20) {
	case 0, 1, 2:
		return "WH," + itoa(Pick(r, rwCodes))
	case 3, 4, 5:
		return "WR," + itoa(r.Intn(7))
	case 6, 7:
		return "WS," + itoa(r.Intn(7))
	case 8, 9, 10:
		return "RF," + rwRandChunks(r) + "," + itoa(r.Intn(2))
	case 11, 12:
		return "FL"
	case 13:
		return "HJ"
	case 14:
		return Pick(r, []string{"PU", "RD", "WD", "FD", "CT", "CT"})
	case 15:
		return "STR," + itoa(Pick(r, rwCodes)) + "," + itoa(r.Intn(7))
	case 16:
		return "BLOB," + itoa(Pick(r, rwCodes)) + "," + itoa(r.Intn(7))
	case 17, 18:
		return "STREAM," + itoa(Pick(r, rwCodes)) + "," + rwRandChunks(r) + "," + itoa(r.Intn(2))
	default:
		code := Pick(r, rwRedirCodes)
		return "REDIR," + itoa(code) + "," + itoa(rwRedirectLen(code))
	}
}

func genRW(r *Rng, tier string, n int, emit func(string)) {
	maxLen := 3
	if tier == "thorough" {
		maxLen = 5
	}
	// all call sequences up to maxLen over the reduced alphabet
	var seqs []string
	var rec func(prefix []string)
	rec = func(prefix []string) {
		if len(prefix) > 0 {
			seqs = append(seqs, strings.Join(prefix, ";"))
		}
		if len(prefix) == maxLen {
			return
		}
		for _, a := range rwReduced {
			rec(append(prefix[:len(prefix):len(prefix)], a))
		}
	}
	rec(nil)
	emitted := 0
	per := (n * 3 / 4) / len(seqs)
	if per >= 1 {
		// every sequence, each with `per` (shape, fault) combinations
		for _, s := range seqs {
			for j := 0; j < per; j++ {
				emit("rw\t" + s + "\t" + Pick(r, rwShapeNames) + "\t" + Pick(r, rwFaults))
				emitted++
			}
		}
	} else {
		// subsample of the exhaustive space
		for emitted < n*3/4 {
			emit("rw\t" + Pick(r, seqs) + "\t" + Pick(r, rwShapeNames) + "\t" + Pick(r, rwFaults))
			emitted++
		}
	}
	faults := []string{"0", "1", "3", "7", "10", "inf", "inf"}
	for emitted < n {
		l := 1 + r.Intn(12)
		calls := make([]string, l)
		for i := range calls {
			calls[i] = rwRandCall(r)
		}
		emit("rw\t" + strings.Join(calls, ";") + "\t" + Pick(r, rwShapeNames) + "\t" + Pick(r, faults))
		emitted++
	}
}
