package main

// Stream `rwconc` (property C14, implementation only): two requests stream their bodies at the same time through
// underlying writers WITHOUT io.ReaderFrom (the recorder's compatibility path: pooled copy buffer + io.CopyBuffer).
//
//	rwconc \t <lenA1>,<lenA2>,<lenB>,<rounds>,<via: rf|stream|copy>
//
// Request A's source puts the first lenA1 bytes of its record into the buffer it is handed, starts request B from inside
// its Read and parks until B has been served completely, then adds the remaining lenA2 bytes and returns. Every byte
// that reaches A's client must be a byte A's source produced, in order (and likewise for B); Size() and Written() of both
// recorders must match what reached their clients. Run on one P so that a buffer released too early is handed to B.

import (
	"bytes"
	"fmt"
	"io"
	"net/http"
	"runtime"
	"strconv"
	"strings"

	"github.com/tigerwill90/fox"
)

func init() {
	register(&stream{name: "rwconc", gen: genRWConc, run: runRWConc})
}

type parkedSource struct {
	first, second []byte
	park          func()
	done          bool
}

func (s *parkedSource) Read(p []byte) (int, error) {
	if s.done {
		return 0, io.EOF
	}
	s.done = true
	n := copy(p, s.first)
	s.park()
	n += copy(p[n:], s.second)
	return n, nil
}

type plainReader struct{ r io.Reader }

func (p plainReader) Read(b []byte) (int, error) { return p.r.Read(b) }

// plainWriter implements http.ResponseWriter only
type plainWriter struct {
	h    http.Header
	code int
	body bytes.Buffer
}

func (w *plainWriter) Header() http.Header         { return w.h }
func (w *plainWriter) WriteHeader(c int)           { w.code = c }
func (w *plainWriter) Write(b []byte) (int, error) { return w.body.Write(b) }

func genRWConc(r *Rng, tier string, n int, emit func(string)) {
	vias := []string{"rf", "stream", "copy"}
	for c := 0; c < n; c++ {
		a1 := 1 + r.Intn(200)
		a2 := r.Intn(200)
		b := 1 + r.Intn(400)
		if c%4 == 3 {
			// B larger than one copy buffer
			b = 40000 + r.Intn(40000)
		}
		emit(fmt.Sprintf("rwconc\t%d,%d,%d,%d,%s", a1, a2, b, 6, vias[c%3]))
	}
}

func runRWConc(fields []string) string {
	if len(fields) != 2 {
		return "I=bad-case"
	}
	a := strings.Split(fields[1], ",")
	if len(a) != 5 {
		return "I=bad-case"
	}
	a1, _ := strconv.Atoi(a[0])
	a2, _ := strconv.Atoi(a[1])
	lb, _ := strconv.Atoi(a[2])
	rounds, _ := strconv.Atoi(a[3])
	via := a[4]
	defer runtime.GOMAXPROCS(runtime.GOMAXPROCS(1))
	bodyA := bytes.Repeat([]byte("A"), a1+a2)
	bodyB := bytes.Repeat([]byte("b"), lb)
	send := func(c fox.Context, src io.Reader) error {
		switch via {
		case "stream":
			return c.Stream(http.StatusOK, fox.MIMEOctetStream, src)
		case "copy":
			_, err := io.Copy(c.Writer(), src)
			return err
		default:
			_, err := c.Writer().ReadFrom(src)
			return err
		}
	}
	var bad []string
	for round := 0; round < rounds && len(bad) == 0; round++ {
		f, err := fox.New()
		if err != nil {
			return "I=setup-error\tO=" + err.Error()
		}
		wA, wB := &plainWriter{h: http.Header{}}, &plainWriter{h: http.Header{}}
		var sizeA, sizeB int
		var writtenA, writtenB bool
		doneB := make(chan struct{})
		park := func() {
			go func() {
				defer close(doneB)
				f.ServeHTTP(wB, newReq(http.MethodGet, "example.com", "/b"))
			}()
			<-doneB
		}
		_, e1 := f.Handle(http.MethodGet, "/a", func(c fox.Context) {
			if err := send(c, &parkedSource{first: bodyA[:a1], second: bodyA[a1:], park: park}); err != nil {
				bad = append(bad, "stream A: "+err.Error())
			}
			sizeA, writtenA = c.Writer().Size(), c.Writer().Written()
		})
		_, e2 := f.Handle(http.MethodGet, "/b", func(c fox.Context) {
			if err := send(c, plainReader{bytes.NewReader(bodyB)}); err != nil {
				bad = append(bad, "stream B: "+err.Error())
			}
			sizeB, writtenB = c.Writer().Size(), c.Writer().Written()
		})
		if e1 != nil || e2 != nil {
			return "I=setup-error\tO=registration failed"
		}
		f.ServeHTTP(wA, newReq(http.MethodGet, "example.com", "/a"))
		if !bytes.Equal(wB.body.Bytes(), bodyB) {
			bad = append(bad, fmt.Sprintf("round %d: response B is not the %d bytes its source produced (got %d bytes, first difference at %d)", round, len(bodyB), wB.body.Len(), firstDiff(wB.body.Bytes(), bodyB)))
		}
		if !bytes.Equal(wA.body.Bytes(), bodyA) {
			bad = append(bad, fmt.Sprintf("round %d: response A received bytes its source never produced: got %q want %d x 'A'", round, clip(wA.body.Bytes(), 80), len(bodyA)))
		}
		if sizeA != len(bodyA) || sizeB != len(bodyB) || !writtenA || !writtenB {
			bad = append(bad, fmt.Sprintf("round %d: Size/Written A=%d,%v B=%d,%v want %d,true %d,true", round, sizeA, writtenA, sizeB, writtenB, len(bodyA), len(bodyB)))
		}
	}
	res := "I=ok\tT=rwconc-" + via + "\tN=1"
	if len(bad) > 0 {
		if len(bad) > 3 {
			bad = bad[:3]
		}
		res = "I=bad\tT=rwconc-" + via + "\tN=1\tO=" + strings.Join(bad, "; ")
	}
	return res
}

func firstDiff(a, b []byte) int {
	for i := 0; i < len(a) && i < len(b); i++ {
		if a[i] != b[i] {
			return i
		}
	}
	return min(len(a), len(b))
}

func clip(b []byte, n int) string {
	if len(b) > n {
		return string(b[:n]) + "…"
	}
	return string(b)
}
