package main

// Stream `serve` (properties C08 C11, redirect guard of C17): which handler kind answers a request, with which
// status / Allow / Location, and what the context exposes inside it.
//
//	serve \t <noMethod><autoOptions><globalTS> \t <routes> \t <requests>
//
// see lean/FoxModel/Driver/Serve.lean for the field syntax. Model-free oracles evaluated here:
//   - in the no-route / no-method / options / redirect handlers the context exposes no route, no pattern, no params,
//     and the matching scope;
//   - a redirect Location, resolved against the request URL (RFC 3986, net/url), is the slash-adjusted escaped path
//     with the query string kept; the status is 301 for GET and 308 otherwise;
//   - a redirect is only issued for a path that is already clean (reference cleaner in Go below).

import (
	"fmt"
	"net/http"
	"net/url"
	"slices"
	"sort"
	"strconv"
	"strings"

	"github.com/tigerwill90/fox"
)

func init() {
	register(&stream{name: "serve", gen: genServe, run: runServe})
}

// refClean is the split-and-stack reference of the canonical path (model-free oracle).
func refClean(p string) string {
	if p == "" {
		return "/"
	}
	segs := strings.Split(p, "/")
	var st []string
	for _, s := range segs {
		switch s {
		case "", ".":
		case "..":
			if len(st) > 0 {
				st = st[:len(st)-1]
			}
		default:
			st = append(st, s)
		}
	}
	out := "/" + strings.Join(st, "/")
	last := segs[len(segs)-1]
	if (last == "" || last == ".") && out != "/" {
		out += "/"
	}
	return out
}

type ctxView struct {
	kind    string
	pattern string
	route   *fox.Route
	params  []fox.Param
	scope   fox.HandlerScope
	clone   string // what a Clone() taken in the handler shows differently from the context itself ("" = nothing)
}

// cloneDiff: a deep copy taken inside a handler shows the same route, pattern, params and scope as the context
func cloneDiff(c fox.Context) string {
	cl := c.Clone()
	var d []string
	if cl.Scope() != c.Scope() {
		d = append(d, fmt.Sprintf("scope %d vs %d", cl.Scope(), c.Scope()))
	}
	if cl.Route() != c.Route() || cl.Pattern() != c.Pattern() {
		d = append(d, fmt.Sprintf("pattern %q vs %q", cl.Pattern(), c.Pattern()))
	}
	if a, b := showParams(slices.Collect(cl.Params())), showParams(slices.Collect(c.Params())); a != b {
		d = append(d, "params "+a+" vs "+b)
	}
	return strings.Join(d, ", ")
}

func runServe(fields []string) string {
	if len(fields) < 4 {
		return "I=bad-case"
	}
	cfg := fields[1]
	var seen *ctxView
	observe := func(kind string) fox.HandlerFunc {
		return func(c fox.Context) {
			seen = &ctxView{kind: kind, pattern: c.Pattern(), route: c.Route(), params: slices.Collect(c.Params()), scope: c.Scope(), clone: cloneDiff(c)}
			switch kind {
			case "noroute":
				http.Error(c.Writer(), "nf", http.StatusNotFound)
			case "nomethod":
				http.Error(c.Writer(), "na", http.StatusMethodNotAllowed)
			case "options":
				c.Writer().WriteHeader(http.StatusOK)
			}
		}
	}
	opts := []fox.GlobalOption{
		fox.WithNoRouteHandler(observe("noroute")),
		fox.WithNoMethodHandler(observe("nomethod")),
		fox.WithOptionsHandler(observe("options")),
		// the redirect handler cannot be replaced: observe the context from a middleware scoped to it
		fox.WithMiddlewareFor(fox.RedirectHandler, func(next fox.HandlerFunc) fox.HandlerFunc {
			return func(c fox.Context) {
				seen = &ctxView{kind: "redirect", pattern: c.Pattern(), route: c.Route(), params: slices.Collect(c.Params()), scope: c.Scope(), clone: cloneDiff(c)}
				next(c)
			}
		}),
		fox.WithNoMethod(cfg[0] == '1'),
		fox.WithAutoOptions(cfg[1] == '1'),
	}
	if len(cfg) > 3 && cfg[3] == '1' {
		// the documented way to wrap the ResponseWriter: every handler (route and special ones) runs on a CloneWith copy
		// taken from the pool; the copy must show exactly what the original shows
		opts = append([]fox.GlobalOption{fox.WithMiddleware(func(next fox.HandlerFunc) fox.HandlerFunc {
			return func(c fox.Context) {
				cc := c.CloneWith(c.Writer(), c.Request())
				defer cc.Close()
				next(cc)
			}
		})}, opts...)
	}
	switch cfg[2] {
	case '1':
		opts = append(opts, fox.WithIgnoreTrailingSlash(true))
	case '2':
		opts = append(opts, fox.WithRedirectTrailingSlash(true))
	}
	f, err := fox.New(opts...)
	if err != nil {
		return "I=new-failed:" + err.Error()
	}
	// every wildcard name of the registered patterns, plus one that occurs nowhere
	allNames := []string{"nosuchname"}
	for _, item := range strings.Split(fields[2], ";") {
		if a := strings.Split(item, ","); len(a) == 4 {
			pat := unhx(a[1])
			for i := 0; i < len(pat); i++ {
				if pat[i] == '{' {
					if j := strings.IndexByte(pat[i:], '}'); j > 0 {
						if nm := pat[i+1 : i+j]; !slices.Contains(allNames, nm) {
							allNames = append(allNames, nm)
						}
					}
				}
			}
		}
	}
	var hOracles []string
	mkHandler := func(hid int) fox.HandlerFunc {
		return func(c fox.Context) {
			ps := slices.Collect(c.Params())
			seen = &ctxView{kind: "route:" + strconv.Itoa(hid), pattern: c.Pattern(), route: c.Route(), params: ps, scope: c.Scope(), clone: cloneDiff(c)}
			// Param(name) is the first parameter of that name of THIS match (the slash-adjusted one included), and "" for
			// a name the matched pattern does not have - whatever other branches the matcher explored on the way
			for _, nm := range allNames {
				want := ""
				for _, p := range ps {
					if p.Key == nm {
						want = p.Value
						break
					}
				}
				if got := c.Param(nm); got != want {
					hOracles = append(hOracles, fmt.Sprintf("Param(%q)=%q in the handler of %s, whose parameters are %s", nm, got, hx(c.Pattern()), showParams(ps)))
				}
			}
			// the net/http adapters hand the same parameters to a wrapped handler through the request context
			if hid%3 != 0 {
				check := func(w http.ResponseWriter, r *http.Request) {
					if got := []fox.Param(fox.ParamsFromContext(r.Context())); showParams(got) != showParams(ps) {
						hOracles = append(hOracles, fmt.Sprintf("ParamsFromContext in a WrapF/WrapH handler of %s = %s, the context has %s", hx(c.Pattern()), showParams(got), showParams(ps)))
					}
				}
				if hid%3 == 1 {
					fox.WrapF(check)(c)
				} else {
					fox.WrapH(http.HandlerFunc(check))(c)
				}
			}
		}
	}
	for _, item := range strings.Split(fields[2], ";") {
		a := strings.Split(item, ",")
		if len(a) != 4 {
			continue
		}
		hid, _ := strconv.Atoi(a[3])
		var ro []fox.RouteOption
		switch a[2] {
		case "1":
			ro = append(ro, fox.WithIgnoreTrailingSlash(true))
		case "2":
			ro = append(ro, fox.WithRedirectTrailingSlash(true))
		case "3":
			ro = append(ro, fox.WithIgnoreTrailingSlash(false))
		case "4":
			ro = append(ro, fox.WithRedirectTrailingSlash(false))
		}
		_, _ = f.Handle(a[0], unhx(a[1]), mkHandler(hid), ro...)
	}
	var outI, outJ, oracles []string
	for _, item := range strings.Split(fields[3], ";") {
		a := strings.Split(item, ",")
		if len(a) != 7 {
			continue
		}
		// path: what the matcher sees (RawPath if set, else Path); the URL is the one net/http would have built
		method, host, path, query := a[0], unhx(a[1]), unhx(a[2]), unhx(a[3])
		urlPath, rawPath := unhx(a[4]), unhx(a[5])
		req := newReq(method, host, urlPath)
		req.URL.RawPath = rawPath
		req.URL.RawQuery = query
		seen = nil
		hOracles = nil
		w := newRecWriter()
		f.ServeHTTP(w, req)
		var resI, resJ string
		bad := func(format string, args ...any) {
			oracles = append(oracles, fmt.Sprintf("%s %s: ", method, hx(path))+fmt.Sprintf(format, args...))
		}
		for _, o := range hOracles {
			bad("%s", o)
		}
		if seen != nil && seen.clone != "" {
			bad("a Clone() taken in the %s handler differs from the context: %s", seen.kind, seen.clone)
		}
		switch {
		case seen == nil:
			resI = "nohandler"
			resJ = resI
		case strings.HasPrefix(seen.kind, "route:"):
			resI = seen.kind + ":" + hx(seen.pattern) + ":" + showParams(seen.params)
			resJ = resI
			if seen.route == nil || seen.scope != fox.RouteHandler {
				bad("route handler without route or with scope %d", seen.scope)
			}
		case seen.kind == "redirect":
			resI = "redirect:" + strconv.Itoa(w.code)
			resJ = resI
			if seen.route != nil || seen.pattern != "" || len(seen.params) != 0 || seen.scope != fox.RedirectHandler {
				bad("redirect handler context not scrubbed: pattern=%q params=%d scope=%d", seen.pattern, len(seen.params), seen.scope)
			}
			want := 308
			if method == "GET" {
				want = 301
			}
			if w.code != want {
				bad("redirect status %d, want %d", w.code, want)
			}
			if path != refClean(path) {
				bad("redirect issued for an unclean path (clean form %s)", hx(refClean(path)))
			}
			// the Location must lead to the slash-adjusted path, query kept: resolve it (RFC 3986, net/url) against the
			// URL the client requested, parse the result the way a server parses a request target, and ask the router
			// where that request goes: directly to the route whose trailing-slash candidate caused the redirect
			loc := w.h.Get("Location")
			resI += ":" + hx(loc) // compared with the model's Location; the specification side states kind and code only
			wire := rawPath
			if wire == "" {
				wire = (&url.URL{Path: urlPath}).EscapedPath()
			}
			base, berr := url.Parse("http://origin.test" + escapeWire(wire))
			ref, perr := url.Parse(loc)
			if perr != nil || berr != nil {
				bad("Location %q does not parse: %v %v", loc, perr, berr)
			} else {
				got := base.ResolveReference(ref)
				// the slash is added to / removed from the string the router matched (an encoded slash at the end of
				// the raw path is not a trailing slash); adj is the decoded form of the adjusted path
				adj := urlPath + "/"
				if len(path) > 1 && strings.HasSuffix(path, "/") {
					adj = urlPath[:len(urlPath)-1]
				}
				if got.Host != "origin.test" || got.Scheme != "http" || got.Fragment != "" {
					bad("Location %q leaves the origin: %q", loc, got.String())
				} else if got.Path != adj || got.RawQuery != escNonASCII(query) {
					bad("Location %q resolves to path %q query %q, want %q %q", loc, got.Path, got.RawQuery, adj, escNonASCII(query))
				} else if u2, err2 := url.ParseRequestURI(got.RequestURI()); err2 != nil {
					bad("Location %q resolves to an unparsable target %q", loc, got.RequestURI())
				} else {
					m2 := u2.Path
					if u2.RawPath != "" {
						m2 = u2.RawPath
					}
					// the request is a trailing-slash candidate; its slash-adjusted form (slash added to / removed from the
					// string the router matched) is matched directly; and the target the Location leads to is routed
					// exactly like that adjusted form. (Which route that is, is not the redirecting one when a
					// higher-priority route matches the adjusted path with the slash inside a catch-all: /foo*{v} next
					// to /{x}/ for the request /foo. The property asks for a Location that resolves to the adjusted path.)
					adjMatched := path + "/"
					if len(path) > 1 && strings.HasSuffix(path, "/") {
						adjMatched = path[:len(path)-1]
					}
					r1, tsr1 := f.Reverse(method, host, path)
					r2, tsr2 := f.Reverse(method, host, m2)
					r3, tsr3 := f.Reverse(method, host, adjMatched)
					if r1 == nil || !tsr1 || r3 == nil || tsr3 || r2 != r3 || tsr2 {
						bad("following Location %q (target %q) is not routed like the slash-adjusted path: request=%s adjusted=%s after=%s", loc, m2, lkResult(r1, tsr1), lkResult(r3, tsr3), lkResult(r2, tsr2))
					}
				}
			}
		default:
			allow := w.h.Get("Allow")
			items := []string{}
			if allow != "" {
				items = strings.Split(allow, ", ")
			}
			if seen.kind == "noroute" {
				resI, resJ = "noroute", "noroute"
				if allow != "" {
					bad("Allow header %q on a no-route answer", allow)
				}
			} else {
				sorted := append([]string(nil), items...)
				sort.Strings(sorted)
				resI = seen.kind + ":" + strings.Join(items, "+")
				resJ = seen.kind + ":" + strings.Join(sorted, "+")
				for i := 1; i < len(sorted); i++ {
					if sorted[i] == sorted[i-1] {
						bad("Allow lists %s twice", sorted[i])
					}
				}
			}
			wantScope := map[string]fox.HandlerScope{"noroute": fox.NoRouteHandler, "nomethod": fox.NoMethodHandler, "options": fox.OptionsHandler}[seen.kind]
			if seen.route != nil || seen.pattern != "" || len(seen.params) != 0 || seen.scope != wantScope {
				bad("%s handler context not scrubbed: pattern=%q params=%d scope=%d", seen.kind, seen.pattern, len(seen.params), seen.scope)
			}
		}
		outI = append(outI, resI)
		outJ = append(outJ, resJ)
	}
	out := "I=" + strings.Join(outI, "|") + "\tJ=" + strings.Join(outJ, "|")
	if len(oracles) > 0 {
		out += "\tO=" + strings.Join(oracles, " ;; ")
	}
	return out
}

var serveMethods = []string{"GET", "GET", "POST", "PUT", "DELETE", "OPTIONS", "CONNECT", "PATCH", "HEAD"}

// special segments exercising the Location escaping (decoded forms; the request is built with URL.Path)
var oddSegs = []string{"https:evil.com", "a:b", "a b", "a%b", "a#b", "é", "a?b", "x;y", "a+b", "a&b=c", "{x}", "*z",
	":id", "::", ":", "a:", "?q", "#f", "%41", "%", "%2F", "..a", "...", "a..", "~", "@", "=", "a@b:c", "//x"[1:], "javascript:alert(1)", " ", "\\x"}

// raw (wire) segments: escapes the default encoder would not produce, and bytes that are not a valid encoding
var rawSegs = []string{"l\xc3\xa0%3F", "\xc3\xa9%25", "a<b%23", "\xff%2F", "%3F\xc3\xa9%3f", "a\"%", "\xc3\xa9%4", "%2E%2E", "%2e%2E", "%2E", "a%2Fb", "%2F", "\xc3\xa9", "caf\xc3\xa9", "a<b", "a\"b", "a#b", "%41", "a%20b", "%7Bx%7D",
	"a%3Ab", "%3Aid", "a|b", "a^b", "x%C3%A9", "a%25b", "{x}", "a`b", "%2e%2e%2Fq"}

// escapeWire: the request target as a client would put it in a URL string: bytes that cannot appear in a URL are
// percent-encoded, the target's own escapes are kept
func escapeWire(s string) string {
	const upperhex = "0123456789ABCDEF"
	var sb strings.Builder
	for i := 0; i < len(s); i++ {
		c := s[i]
		if c <= ' ' || c >= 0x7f || strings.IndexByte("\"<>\\^`{|}#?", c) >= 0 {
			sb.WriteByte('%')
			sb.WriteByte(upperhex[c>>4])
			sb.WriteByte(upperhex[c&15])
		} else {
			sb.WriteByte(c)
		}
	}
	return sb.String()
}

func genServe(r *Rng, tier string, n int, emit func(string)) {
	for c := 0; c < n; c++ {
		cr := r.Fork()
		cfg := strconv.Itoa(cr.Intn(2)) + strconv.Itoa(cr.Intn(2)) + strconv.Itoa(Pick(cr, []int{0, 0, 1, 2})) + strconv.Itoa(Pick(cr, []int{0, 0, 1}))
		nMeth := 1 + cr.Intn(4)
		methods := make([]string, nMeth)
		for i := range methods {
			methods[i] = Pick(cr, serveMethods)
		}
		hostPct := Pick(cr, []int{0, 0, 0, 40})
		k := 1 + cr.Intn(8)
		var routes, pats []string
		// the same patterns are often registered for several methods so that 405 / OPTIONS have something to list
		for i := 0; i < k; i++ {
			p := genPattern(cr, hostPct)
			if cr.Chance(25) && len(pats) > 0 {
				p = Pick(cr, pats)
				// the slash-toggled sibling of a registered pattern
				if cr.Bool() {
					if strings.HasSuffix(p, "/") && len(p) > 1 {
						p = p[:len(p)-1]
					} else if !strings.HasSuffix(p, "}") || true {
						p += "/"
					}
				}
			}
			pats = append(pats, p)
			reps := 1 + cr.Intn(min(3, nMeth))
			for j := 0; j < reps; j++ {
				routes = append(routes, fmt.Sprintf("%s,%s,%d,%d", Pick(cr, methods), hx(p), Pick(cr, []int{0, 0, 0, 1, 1, 2, 2, 3, 4}), len(routes)+1))
			}
		}
		if cr.Chance(12) {
			// hostnames extending one another / static next to parameterised hosts with slash-toggled paths
			fm := Pick(cr, methods)
			for _, p := range genHostFamily(cr) {
				pats = append(pats, p)
				routes = append(routes, fmt.Sprintf("%s,%s,%d,%d", fm, hx(p), Pick(cr, []int{0, 0, 1, 2}), len(routes)+1))
			}
		}
		if cr.Chance(18) {
			// hostname backtracking family: a static label next to a {param} label below a consumed hostname parameter,
			// registered for one method only, so that the other methods walk it lazily (405 / OPTIONS Allow loops)
			fm := Pick(cr, methods)
			tail := Pick(cr, []string{"/p/{x}", "/p", "/p/", "/{x}/q"})
			for _, hp := range []string{"{s}.b.c", "{s}.{t}.c", Pick(cr, []string{"{s}.bc.c", "a.{t}.c", "{s}.b.{u}"})} {
				pats = append(pats, hp+tail)
				routes = append(routes, fmt.Sprintf("%s,%s,%d,%d", fm, hx(hp+tail), Pick(cr, []int{0, 1, 2}), len(routes)+1))
			}
		}
		// redirect family: a redirecting route whose last segment is a parameter in front of a literal slash (add-a-slash
		// redirects) and its sibling without the slash (remove-a-slash redirects), probed with reserved-character segments
		var forced [][2]string
		if cr.Chance(12) {
			fm := Pick(cr, methods)
			base := Pick(cr, []string{"/rd", "", "/rd/{k}"})
			routes = append(routes, fmt.Sprintf("%s,%s,%d,%d", fm, hx(base+"/{x}/"), 2, len(routes)+1))
			pats = append(pats, base+"/{x}/")
			if cr.Bool() {
				routes = append(routes, fmt.Sprintf("%s,%s,%d,%d", fm, hx(base+"/q/{y}"), 2, len(routes)+1))
				pats = append(pats, base+"/q/{y}")
			}
			ib := strings.ReplaceAll(base, "{k}", "v")
			for j := 0; j < 5; j++ {
				forced = append(forced, [2]string{fm, ib + "/" + Pick(cr, oddSegs)})
			}
			forced = append(forced, [2]string{fm, ib + "/q/" + Pick(cr, oddSegs) + "/"})
		}
		var reqs []string
		nr := 6 + cr.Intn(10) + len(forced)
		for i := 0; i < nr; i++ {
			probe := genProbe(cr, pats, append(methods, "OPTIONS", "GET", "CONNECT"))
			a := strings.Split(probe, ",")
			m, host, path := a[1], a[2], unhx(a[3])
			if i < len(forced) {
				m, host, path = forced[i][0], "_", forced[i][1]
			}
			switch x := cr.Intn(40); {
			case i < len(forced):
			case x == 0:
				path = "*"
				m = "OPTIONS"
			case x == 1:
				path = "/"
			case x < 5:
				// reserved characters in the last segment, then a slash toggle
				segs := strings.Split(strings.TrimSuffix(path, "/"), "/")
				segs[len(segs)-1] = Pick(cr, oddSegs)
				path = strings.Join(segs, "/")
				if cr.Bool() {
					path += "/"
				}
			case x < 8:
				// unclean paths
				path = Pick(cr, []string{"/.", "/a/..", "/a/./b/", "//a", "/a//"}) + strings.TrimPrefix(path, "/")
			}
			query := ""
			if cr.Chance(20) {
				query = Pick(cr, []string{"q=1", "q=1&r=a/b", "x=%2F&y=%C3%A9", "a=b?c", "q=\xc3\xa9", "\xff=1&z=\x80%41"})
			}
			// the wire form of the target: usually the default encoding of the decoded path; sometimes a raw target with
			// its own escapes (encoded dots and slashes, lower-case hex, needless escapes) and bytes that are not a valid
			// encoding (raw non-ASCII, '<', '"', '#'), parsed exactly as net/http parses a request target
			target := (&url.URL{Path: path}).EscapedPath()
			if x := cr.Intn(10); x < 2 && path != "*" {
				segs := strings.Split(strings.TrimSuffix(path, "/"), "/")
				for k := 1; k < len(segs); k++ {
					if cr.Chance(45) {
						segs[k] = Pick(cr, rawSegs)
					}
				}
				target = strings.Join(segs, "/")
				if strings.HasSuffix(path, "/") || cr.Chance(30) {
					target += "/"
				}
			}
			u, perr := url.ParseRequestURI(target)
			if perr != nil || path == "*" {
				u = &url.URL{Path: path}
			}
			matched := u.Path
			if u.RawPath != "" {
				matched = u.RawPath
			}
			reqs = append(reqs, m+","+host+","+hx(matched)+","+hx(query)+","+hx(u.Path)+","+hx(u.RawPath)+","+hx(u.EscapedPath()))
		}
		emit("serve\t" + cfg + "\t" + strings.Join(routes, ";") + "\t" + strings.Join(reqs, ";"))
	}
}

// escNonASCII is the query string as it can travel in a header: bytes outside ASCII percent-encoded (the same query for
// every consumer that decodes it), everything else unchanged.
func escNonASCII(s string) string {
	var sb strings.Builder
	for i := 0; i < len(s); i++ {
		if s[i] >= 0x80 {
			sb.WriteString(fmt.Sprintf("%%%02x", s[i]))
		} else {
			sb.WriteByte(s[i])
		}
	}
	return sb.String()
}
