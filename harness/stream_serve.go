package main

// Stream `serve` (properties C08 C11, redirect guard of C17): which handler kind answers a request, with which
// status / Allow / Location, and what the context exposes inside it.
//
//	serve \t <noMethod><autoOptions><globalTS> \t <routes> \t <requests>
//
// see lean/FoxModel/Driver/Serve.lean for the field syntax. Model-free oracles evaluated here:
//   - in the no-route / no-method / options / redirect handlers the context exposes no route, no pattern, no params,
//     and the matching scope;
//   - a redirect Location, resolved against the request URL (RFC 3986, net/url), is the slash-adjusted escaped path
//     with the query string kept; the status is 301 for GET and 308 otherwise;
//   - a redirect is only issued for a path that is already clean (reference cleaner in Go below).

import (
	"fmt"
	"net/http"
	"net/url"
	"slices"
	"sort"
	"strconv"
	"strings"

	"github.com/tigerwill90/fox"
)

func init() {
	register(&stream{name: "serve", gen: genServe, run: runServe})
}

// refClean is the split-and-stack reference of the canonical path (model-free oracle).
func refClean(p string) string {
	if p == "" {
		return "/"
	}
	segs := strings.Split(p, "/")
	var st []string
	for _, s := range segs {
		switch s {
		case "", ".":
		case "..":
			if len(st) > 0 {
				st = st[:len(st)-1]
			}
		default:
			st = append(st, s)
		}
	}
	out := "/" + strings.Join(st, "/")
	last := segs[len(segs)-1]
	if (last == "" || last == ".") && out != "/" {
		out += "/"
	}
	return out
}

type ctxView struct {
	kind    string
	pattern string
	route   *fox.Route
	params  []fox.Param
	scope   fox.HandlerScope
}

func runServe(fields []string) string {
	if len(fields) < 4 {
		return "I=bad-case"
	}
	cfg := fields[1]
	var seen *ctxView
	observe := func(kind string) fox.HandlerFunc {
		return func(c fox.Context) {
			seen = &ctxView{kind: kind, pattern: c.Pattern(), route: c.Route(), params: slices.Collect(c.Params()), scope: c.Scope()}
			switch kind {
			case "noroute":
				http.Error(c.Writer(), "nf", http.StatusNotFound)
			case "nomethod":
				http.Error(c.Writer(), "na", http.StatusMethodNotAllowed)
			case "options":
				c.Writer().WriteHeader(http.StatusOK)
			}
		}
	}
	opts := []fox.GlobalOption{
		fox.WithNoRouteHandler(observe("noroute")),
		fox.WithNoMethodHandler(observe("nomethod")),
		fox.WithOptionsHandler(observe("options")),
		// the redirect handler cannot be replaced: observe the context from a middleware scoped to it
		fox.WithMiddlewareFor(fox.RedirectHandler, func(next fox.HandlerFunc) fox.HandlerFunc {
			return func(c fox.Context) {
				seen = &ctxView{kind: "redirect", pattern: c.Pattern(), route: c.Route(), params: slices.Collect(c.Params()), scope: c.Scope()}
				next(c)
			}
		}),
		fox.WithNoMethod(cfg[0] == '1'),
		fox.WithAutoOptions(cfg[1] == '1'),
	}
	switch cfg[2] {
	case '1':
		opts = append(opts, fox.WithIgnoreTrailingSlash(true))
	case '2':
		opts = append(opts, fox.WithRedirectTrailingSlash(true))
	}
	f, err := fox.New(opts...)
	if err != nil {
		return "I=new-failed:" + err.Error()
	}
	mkHandler := func(hid int) fox.HandlerFunc {
		return func(c fox.Context) {
			seen = &ctxView{kind: "route:" + strconv.Itoa(hid), pattern: c.Pattern(), route: c.Route(), params: slices.Collect(c.Params()), scope: c.Scope()}
		}
	}
	for _, item := range strings.Split(fields[2], ";") {
		a := strings.Split(item, ",")
		if len(a) != 4 {
			continue
		}
		hid, _ := strconv.Atoi(a[3])
		var ro []fox.RouteOption
		switch a[2] {
		case "1":
			ro = append(ro, fox.WithIgnoreTrailingSlash(true))
		case "2":
			ro = append(ro, fox.WithRedirectTrailingSlash(true))
		case "3":
			ro = append(ro, fox.WithIgnoreTrailingSlash(false))
		case "4":
			ro = append(ro, fox.WithRedirectTrailingSlash(false))
		}
		_, _ = f.Handle(a[0], unhx(a[1]), mkHandler(hid), ro...)
	}
	var outI, outJ, oracles []string
	for _, item := range strings.Split(fields[3], ";") {
		a := strings.Split(item, ",")
		if len(a) != 4 {
			continue
		}
		method, host, path, query := a[0], unhx(a[1]), unhx(a[2]), unhx(a[3])
		req := newReq(method, host, path)
		req.URL.RawQuery = query
		seen = nil
		w := newRecWriter()
		f.ServeHTTP(w, req)
		var resI, resJ string
		bad := func(format string, args ...any) {
			oracles = append(oracles, fmt.Sprintf("%s %s: ", method, hx(path))+fmt.Sprintf(format, args...))
		}
		switch {
		case seen == nil:
			resI = "nohandler"
			resJ = resI
		case strings.HasPrefix(seen.kind, "route:"):
			resI = seen.kind + ":" + hx(seen.pattern) + ":" + showParams(seen.params)
			resJ = resI
			if seen.route == nil || seen.scope != fox.RouteHandler {
				bad("route handler without route or with scope %d", seen.scope)
			}
		case seen.kind == "redirect":
			resI = "redirect:" + strconv.Itoa(w.code)
			resJ = resI
			if seen.route != nil || seen.pattern != "" || len(seen.params) != 0 || seen.scope != fox.RedirectHandler {
				bad("redirect handler context not scrubbed: pattern=%q params=%d scope=%d", seen.pattern, len(seen.params), seen.scope)
			}
			want := 308
			if method == "GET" {
				want = 301
			}
			if w.code != want {
				bad("redirect status %d, want %d", w.code, want)
			}
			if path != refClean(path) {
				bad("redirect issued for an unclean path (clean form %s)", hx(refClean(path)))
			}
			// the Location must lead to the slash-adjusted path, query kept
			loc := w.h.Get("Location")
			base := &url.URL{Path: path, RawQuery: query}
			ref, perr := url.Parse(loc)
			if perr != nil {
				bad("Location %q does not parse: %v", loc, perr)
			} else {
				got := base.ResolveReference(ref)
				adj := path + "/"
				if len(path) > 1 && strings.HasSuffix(path, "/") {
					adj = path[:len(path)-1]
				}
				wantURL := &url.URL{Path: adj, RawQuery: query}
				if got.EscapedPath() != wantURL.EscapedPath() || got.RawQuery != query || got.Host != "" || got.Scheme != "" {
					bad("Location %q resolves to %q, want %q", loc, got.String(), wantURL.String())
				}
			}
		default:
			allow := w.h.Get("Allow")
			items := []string{}
			if allow != "" {
				items = strings.Split(allow, ", ")
			}
			if seen.kind == "noroute" {
				resI, resJ = "noroute", "noroute"
				if allow != "" {
					bad("Allow header %q on a no-route answer", allow)
				}
			} else {
				sorted := append([]string(nil), items...)
				sort.Strings(sorted)
				resI = seen.kind + ":" + strings.Join(items, "+")
				resJ = seen.kind + ":" + strings.Join(sorted, "+")
				for i := 1; i < len(sorted); i++ {
					if sorted[i] == sorted[i-1] {
						bad("Allow lists %s twice", sorted[i])
					}
				}
			}
			wantScope := map[string]fox.HandlerScope{"noroute": fox.NoRouteHandler, "nomethod": fox.NoMethodHandler, "options": fox.OptionsHandler}[seen.kind]
			if seen.route != nil || seen.pattern != "" || len(seen.params) != 0 || seen.scope != wantScope {
				bad("%s handler context not scrubbed: pattern=%q params=%d scope=%d", seen.kind, seen.pattern, len(seen.params), seen.scope)
			}
		}
		outI = append(outI, resI)
		outJ = append(outJ, resJ)
	}
	out := "I=" + strings.Join(outI, "|") + "\tJ=" + strings.Join(outJ, "|")
	if len(oracles) > 0 {
		out += "\tO=" + strings.Join(oracles, " ;; ")
	}
	return out
}

var serveMethods = []string{"GET", "GET", "POST", "PUT", "DELETE", "OPTIONS", "CONNECT", "PATCH", "HEAD"}

// special segments exercising the Location escaping (decoded forms; the request is built with URL.Path)
var oddSegs = []string{"https:evil.com", "a:b", "a b", "a%b", "a#b", "é", "a?b", "x;y", "a+b", "a&b=c", "{x}", "*z",
	":id", "::", ":", "a:", "?q", "#f", "%41", "%", "%2F", "..a", "...", "a..", "~", "@", "=", "a@b:c", "//x"[1:], "javascript:alert(1)", " ", "\\x"}

func genServe(r *Rng, tier string, n int, emit func(string)) {
	for c := 0; c < n; c++ {
		cr := r.Fork()
		cfg := strconv.Itoa(cr.Intn(2)) + strconv.Itoa(cr.Intn(2)) + strconv.Itoa(Pick(cr, []int{0, 0, 1, 2}))
		nMeth := 1 + cr.Intn(4)
		methods := make([]string, nMeth)
		for i := range methods {
			methods[i] = Pick(cr, serveMethods)
		}
		hostPct := Pick(cr, []int{0, 0, 0, 40})
		k := 1 + cr.Intn(8)
		var routes, pats []string
		// the same patterns are often registered for several methods so that 405 / OPTIONS have something to list
		for i := 0; i < k; i++ {
			p := genPattern(cr, hostPct)
			if cr.Chance(25) && len(pats) > 0 {
				p = Pick(cr, pats)
				// the slash-toggled sibling of a registered pattern
				if cr.Bool() {
					if strings.HasSuffix(p, "/") && len(p) > 1 {
						p = p[:len(p)-1]
					} else if !strings.HasSuffix(p, "}") || true {
						p += "/"
					}
				}
			}
			pats = append(pats, p)
			reps := 1 + cr.Intn(min(3, nMeth))
			for j := 0; j < reps; j++ {
				routes = append(routes, fmt.Sprintf("%s,%s,%d,%d", Pick(cr, methods), hx(p), Pick(cr, []int{0, 0, 0, 1, 1, 2, 2, 3, 4}), len(routes)+1))
			}
		}
		var reqs []string
		nr := 6 + cr.Intn(10)
		for i := 0; i < nr; i++ {
			probe := genProbe(cr, pats, append(methods, "OPTIONS", "GET", "CONNECT"))
			a := strings.Split(probe, ",")
			m, host, path := a[1], a[2], unhx(a[3])
			switch x := cr.Intn(40); {
			case x == 0:
				path = "*"
				m = "OPTIONS"
			case x == 1:
				path = "/"
			case x < 5:
				// reserved characters in the last segment, then a slash toggle
				segs := strings.Split(strings.TrimSuffix(path, "/"), "/")
				segs[len(segs)-1] = Pick(cr, oddSegs)
				path = strings.Join(segs, "/")
				if cr.Bool() {
					path += "/"
				}
			case x < 8:
				// unclean paths
				path = Pick(cr, []string{"/.", "/a/..", "/a/./b/", "//a", "/a//"}) + strings.TrimPrefix(path, "/")
			}
			query := ""
			if cr.Chance(20) {
				query = Pick(cr, []string{"q=1", "q=1&r=a/b", "x=%2F&y=%C3%A9", "a=b?c"})
			}
			reqs = append(reqs, m+","+host+","+hx(path)+","+hx(query))
		}
		emit("serve\t" + cfg + "\t" + strings.Join(routes, ";") + "\t" + strings.Join(reqs, ";"))
	}
}
