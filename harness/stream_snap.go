package main

// Stream `snap` (property C03): a published routing state never changes. Model-free oracle.
//
//	snap \t <script>
//
// script = `;`-separated steps
//	B            open a write transaction (all following writes go through it)        C / Z   commit / abort it
//	H,U,D,T …    writes as in stream ops (through the open transaction, else directly on the router)
//	SI           snapshot: Router.Iter()           SR   snapshot: read-only Txn (Router.Txn(false))
//	SS           snapshot: Txn.Snapshot() of the open write transaction
//	ST           snapshot: Txn.Iter() of the open write transaction
//	SL,m,host,path   snapshot: a context obtained from Router.Lookup (route + params held across later writes)
//	BIG,n        n insertions in the open transaction (n > 4096 overflows the copy cache)
//
// Every snapshot is observed when taken (full listing through its API: All, Prefix, Routes/Has/Route, Reverse,
// Lookup with params, Len, tree dump through the verif hook) and re-observed after every later step and at the end:
// any change is a violation. The reverse direction (writes unaffected by snapshots) is checked by running the same
// script without the snapshot steps on a second router and comparing the final states.

import (
	"fmt"
	"slices"
	"strconv"
	"strings"

	"github.com/tigerwill90/fox"
)

func init() {
	register(&stream{name: "snap", gen: genSnap, run: runSnap})
}

type snapshot struct {
	kind    string
	takenAt int
	first   string
	observe func() string
}

func observeIter(it fox.Iter, probes [][3]string, pats []string, methods []string) string {
	var sb strings.Builder
	for m, r := range it.All() {
		sb.WriteString(m + ":" + hx(r.Pattern()) + ":" + hidOf(r) + "+")
	}
	sb.WriteString("|M=")
	for m := range it.Methods() {
		sb.WriteString(m + "+")
	}
	for _, p := range pats {
		sb.WriteString("|P" + hx(p[:len(p)/2]) + "=")
		for _, r := range it.Prefix(slices.Values(methods), p[:len(p)/2]) {
			sb.WriteString(hx(r.Pattern()) + "+")
		}
		sb.WriteString("|R=")
		for m, r := range it.Routes(slices.Values(methods), p) {
			sb.WriteString(m + ":" + hidOf(r) + "+")
		}
	}
	for _, pr := range probes {
		sb.WriteString("|V=")
		for m, r := range it.Reverse(slices.Values([]string{pr[0]}), pr[1], pr[2]) {
			sb.WriteString(m + ":" + hx(r.Pattern()) + ":" + hidOf(r))
		}
	}
	sb.WriteString("|D=" + fox.VerifDumpIter(it))
	// cell level: every node reachable from the captured roots, with its address, key, leaf and child addresses
	sb.WriteString("|N=" + fox.VerifNodesIter(it))
	return sb.String()
}

func observeTxn(txn *fox.Txn, probes [][3]string, pats []string, methods []string) string {
	var sb strings.Builder
	sb.WriteString("len=" + strconv.Itoa(txn.Len()))
	for _, p := range pats {
		for _, m := range methods {
			sb.WriteString("|" + hidOf(txn.Route(m, p)) + strconv.FormatBool(txn.Has(m, p)))
		}
	}
	for _, pr := range probes {
		r, cc, tsr := txn.Lookup(foxWriter{newRecWriter()}, newReq(pr[0], pr[1], pr[2]))
		var ps []fox.Param
		if cc != nil {
			ps = slices.Collect(cc.Params())
			cc.Close()
		}
		sb.WriteString("|L=" + showLookup(r, ps, tsr) + "#" + hidOf(r))
		r2, tsr2 := txn.Reverse(pr[0], pr[1], pr[2])
		sb.WriteString("|V=" + showLookup(r2, nil, tsr2))
	}
	sb.WriteString("|I=" + observeIter(txn.Iter(), probes, pats, methods))
	sb.WriteString("|D=" + fox.VerifDumpTxn(txn))
	sb.WriteString("|N=" + fox.VerifNodesTxn(txn))
	return sb.String()
}

func runSnap(fields []string) string {
	if len(fields) < 2 {
		return "I=bad-case"
	}
	steps := strings.Split(fields[1], ";")
	// collect the patterns, methods and probes of the script for the observation functions
	var pats, methods []string
	var probes [][3]string
	seenP, seenM := map[string]bool{}, map[string]bool{}
	for _, st := range steps {
		a := strings.Split(st, ",")
		switch a[0] {
		case "H", "U", "D":
			if !seenP[a[2]] && len(pats) < 12 {
				seenP[a[2]] = true
				pats = append(pats, unhx(a[2]))
			}
			if !seenM[a[1]] {
				seenM[a[1]] = true
				methods = append(methods, a[1])
			}
		case "SL":
			probes = append(probes, [3]string{a[1], unhx(a[2]), unhx(a[3])})
		}
	}
	var oracles []string
	final := func(withSnaps bool) string {
		f, _ := fox.New()
		var txn *fox.Txn
		var snaps []*snapshot
		hid := 0
		handler := func(c fox.Context) {}
		write := func(a []string) {
			var err error
			switch a[0] {
			case "H", "U":
				flags, _ := strconv.Atoi(a[3])
				h, _ := strconv.Atoi(a[4])
				hid = h
				switch {
				case txn != nil && a[0] == "H":
					_, err = txn.Handle(a[1], unhx(a[2]), handler, routeOpts(flags, h)...)
				case txn != nil:
					_, err = txn.Update(a[1], unhx(a[2]), handler, routeOpts(flags, h)...)
				case a[0] == "H":
					_, err = f.Handle(a[1], unhx(a[2]), handler, routeOpts(flags, h)...)
				default:
					_, err = f.Update(a[1], unhx(a[2]), handler, routeOpts(flags, h)...)
				}
			case "D":
				if txn != nil {
					_, err = txn.Delete(a[1], unhx(a[2]))
				} else {
					_, err = f.Delete(a[1], unhx(a[2]))
				}
			case "T":
				var ms []string
				for _, m := range strings.Split(a[1], "+") {
					if m != "" {
						ms = append(ms, m)
					}
				}
				if txn != nil {
					err = txn.Truncate(ms...)
				} else {
					err = f.Updates(func(t *fox.Txn) error { return t.Truncate(ms...) })
				}
			case "BIG":
				n, _ := strconv.Atoi(a[1])
				if txn != nil {
					for i := 0; i < n; i++ {
						hid++
						_, _ = txn.Handle("GET", "/big/"+strconv.Itoa(i%97)+"/"+strconv.Itoa(i)+"/{x}", handler, routeOpts(0, 100000+i)...)
					}
				}
			}
			_ = err
		}
		for k, st := range steps {
			a := strings.Split(st, ",")
			switch a[0] {
			case "B":
				if txn == nil {
					txn = f.Txn(true)
				}
			case "C":
				if txn != nil {
					txn.Commit()
					txn = nil
				}
			case "Z":
				if txn != nil {
					txn.Abort()
					txn = nil
				}
			case "SI", "SR", "SS", "ST", "SL":
				if !withSnaps {
					continue
				}
				var s *snapshot
				switch a[0] {
				case "SI":
					it := f.Iter()
					s = &snapshot{kind: "Router.Iter", observe: func() string { return observeIter(it, probes, pats, methods) }}
				case "SR":
					rt := f.Txn(false)
					s = &snapshot{kind: "Txn(false)", observe: func() string { return observeTxn(rt, probes, pats, methods) }}
				case "SS":
					if txn != nil {
						sn := txn.Snapshot()
						s = &snapshot{kind: "Txn.Snapshot", observe: func() string { return observeTxn(sn, probes, pats, methods) }}
					}
				case "ST":
					if txn != nil {
						it := txn.Iter()
						s = &snapshot{kind: "Txn.Iter", observe: func() string { return observeIter(it, probes, pats, methods) }}
					}
				case "SL":
					r, cc, tsr := f.Lookup(foxWriter{newRecWriter()}, newReq(a[1], unhx(a[2]), unhx(a[3])))
					if cc != nil {
						s = &snapshot{kind: "Lookup-context", observe: func() string {
							return showLookup(r, slices.Collect(cc.Params()), tsr) + "#" + hidOf(cc.Route()) + "#" + cc.Pattern()
						}}
					}
				}
				if s != nil {
					s.takenAt = k
					s.first = s.observe()
					snaps = append(snaps, s)
				}
			default:
				write(a)
			}
			if withSnaps {
				for _, s := range snaps {
					if now := s.observe(); now != s.first {
						oracles = append(oracles, fmt.Sprintf("%s taken at step %d changed after step %d (%s): was %.300s now %.300s", s.kind, s.takenAt, k, st, s.first, now))
						s.first = now
					}
				}
			}
		}
		if txn != nil {
			txn.Abort()
		}
		if withSnaps {
			for _, s := range snaps {
				if now := s.observe(); now != s.first {
					oracles = append(oracles, fmt.Sprintf("%s taken at step %d changed at the end: was %.300s now %.300s", s.kind, s.takenAt, s.first, now))
				}
			}
		}
		return strconv.Itoa(f.Len()) + " " + fox.VerifDumpRouter(f)
	}
	with := final(true)
	without := final(false)
	if with != without {
		oracles = append(oracles, fmt.Sprintf("the final state depends on the snapshots taken: with=%.400s without=%.400s", with, without))
	}
	out := "I=" + strconv.Itoa(len(with)) + "\tT=snapshots"
	if len(oracles) > 0 {
		if len(oracles) > 3 {
			oracles = oracles[:3]
		}
		out += "\tO=" + strings.Join(oracles, " ;; ")
	}
	return out
}

func genSnap(r *Rng, tier string, n int, emit func(string)) {
	for c := 0; c < n; c++ {
		cr := r.Fork()
		nMeth := 1 + cr.Intn(3)
		methods := make([]string, nMeth)
		for i := range methods {
			methods[i] = Pick(cr, methodPool)
		}
		pool := genNestedPool(cr, 3+cr.Intn(10), Pick(cr, []int{0, 0, 40}))
		var steps []string
		hid := 0
		inTxn := false
		k := 8 + cr.Intn(40)
		big := tier == "thorough" && cr.Chance(3)
		for i := 0; i < k; i++ {
			m := Pick(cr, methods)
			p := Pick(cr, pool)
			switch x := cr.Intn(30); {
			case x < 10:
				hid++
				steps = append(steps, fmt.Sprintf("H,%s,%s,%d,%d", m, hx(p), Pick(cr, []int{0, 1, 2}), hid))
			case x < 12:
				hid++
				steps = append(steps, fmt.Sprintf("U,%s,%s,%d,%d", m, hx(p), Pick(cr, []int{0, 1, 2}), hid))
			case x < 17:
				steps = append(steps, "D,"+m+","+hx(p))
			case x < 18:
				if cr.Chance(35) {
					steps = append(steps, "T,")
				} else {
					steps = append(steps, "T,"+genTruncMethods(cr, methods))
				}
			case x < 20:
				if !inTxn {
					steps = append(steps, "B")
					inTxn = true
					if big {
						steps = append(steps, "BIG,"+strconv.Itoa(4200+cr.Intn(1500)))
						big = false
					}
				}
			case x < 22:
				if inTxn {
					steps = append(steps, Pick(cr, []string{"C", "C", "Z"}))
					inTxn = false
				}
			case x < 24:
				steps = append(steps, "SI")
			case x < 25:
				steps = append(steps, "SR")
			case x < 27:
				if inTxn {
					steps = append(steps, Pick(cr, []string{"SS", "ST"}))
				} else {
					steps = append(steps, "SI")
				}
			default:
				pr := strings.Split(genProbe(cr, pool, methods), ",")
				steps = append(steps, "SL,"+pr[1]+","+pr[2]+","+pr[3])
			}
		}
		emit("snap\t" + strings.Join(steps, ";"))
	}
}
