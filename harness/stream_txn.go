package main

// Stream `txn` (property C04, sequential): a case is a transaction script
//
//	txn \t <step>;<step>;… \t <pool: m:hexpat+m:hexpat…>
//
// steps (`src` = `-` for the router itself, else the case-level id of a transaction / snapshot / iterator)
//
//	TXN,w|r,<id>   UPD,<id>   VIEW,<id>   END,<id>,ok|err|panic   COMMIT,<id>   ABORT,<id>
//	SNAP,<src>,<id>   ITER,<src>,<id>
//	H,<src>,<m>,<hexpat>,<flags>,<hid>   U,…   D,<src>,<m>,<hexpat>   T,<src>,<m1>+<m2>…
//	R,<src>,<m>,<hexpat>   N,<src>   A,<src>   L,<src>,<m>,<hexhost>,<hexpath>
//
// The steps between `UPD,<id>` / `VIEW,<id>` and the matching `END` run INSIDE the function given to Router.Updates /
// Router.View; `END,<id>,panic` makes that function panic at exactly this point (so panics are injected after every
// prefix of a body), `err` makes it return an error. After every step the harness prints the step's result and a
// FULL observation of the router (writer-lock probe, Len, All, Has over the pool) and of every transaction, snapshot
// and iterator created so far. A call that could wait for the writer lock is issued only when the probe
// fox.VerifWriterLocked says the lock is free (otherwise its result is `block`); the whole script runs under a
// watchdog: no progress for 2 s is the observable outcome `hang`.

import (
	"errors"
	"fmt"
	"os"
	"slices"
	"strconv"
	"strings"
	"sync"
	"sync/atomic"
	"time"

	"github.com/tigerwill90/fox"
)

func init() {
	register(&stream{name: "txn", gen: genTxn, run: runTxn})
}

type tsrc struct {
	cid  int
	kind string // txn | iter
	txn  *fox.Txn
	it   fox.Iter
}

type txnRun struct {
	f       *fox.Router
	steps   []string
	pos     int
	srcs    []*tsrc
	pool    [][2]string
	managed []int
	quiet   bool

	mu       sync.Mutex
	outI     []string
	outJ     []string
	oracles  []string
	progress atomic.Int64
}

var errInjected = errors.New("injected error")

type injectedPanic struct{ id int }

func (t *txnRun) src(cid int) *tsrc {
	for _, s := range t.srcs {
		if s.cid == cid {
			return s
		}
	}
	return nil
}

func (t *txnRun) oracle(s string) {
	t.mu.Lock()
	t.oracles = append(t.oracles, s)
	t.mu.Unlock()
}

// guard runs fn and maps a panic to an outcome: ErrSettledTxn → "settled", anything else → "panic:<text>".
func guard(fn func() string) (res string) {
	defer func() {
		if p := recover(); p != nil {
			if e, ok := p.(error); ok && errors.Is(e, fox.ErrSettledTxn) {
				res = "settled"
				return
			}
			if _, ok := p.(injectedPanic); ok {
				panic(p)
			}
			res = "panic:" + strings.ReplaceAll(strings.ReplaceAll(fmt.Sprint(p), "\t", " "), "|", "/")
		}
	}()
	return fn()
}

func entry(m string, r *fox.Route) string { return m + ":" + hx(r.Pattern()) + ":" + hidOf(r) }

func joinAll(items []string, sorted bool) string {
	if sorted {
		return sortedJoin(items, "+")
	}
	return strings.Join(items, "+")
}

// iterConsistent: every iterator of one Iter value reads the same tree - Routes(m, p) yields exactly the route All lists
// for (m, p), Methods lists exactly the methods All mentions, and Reverse on a static pattern finds it when it is listed
func (t *txnRun) iterConsistent(what string, it fox.Iter) {
	all := map[string]*fox.Route{}
	meths := map[string]bool{}
	for m, r := range it.All() {
		all[m+" "+r.Pattern()] = r
		meths[m] = true
	}
	for _, p := range t.pool {
		var got *fox.Route
		n := 0
		for _, r := range it.Routes(slices.Values([]string{p[0]}), p[1]) {
			got = r
			n++
		}
		if got != all[p[0]+" "+p[1]] || n > 1 {
			t.oracle(what + ": Iter.Routes and Iter.All of the same Iter disagree on " + p[0] + " " + hx(p[1]))
		}
	}
	n := 0
	for m := range it.Methods() {
		n++
		if !meths[m] {
			t.oracle(what + ": Iter.Methods lists " + m + ", of which Iter.All of the same Iter has no route")
		}
	}
	if n != len(meths) {
		t.oracle(what + ": Iter.Methods and Iter.All of the same Iter disagree on the number of methods")
	}
}

func (t *txnRun) obsRouter(sorted bool) string {
	lock := "0"
	if fox.VerifWriterLocked(t.f) {
		lock = "1"
	}
	var items []string
	it := t.f.Iter()
	for m, r := range it.All() {
		items = append(items, entry(m, r))
	}
	var sb strings.Builder
	for _, p := range t.pool {
		has := t.f.Has(p[0], p[1])
		if has != (t.f.Route(p[0], p[1]) != nil) {
			t.oracle("Router.Has and Router.Route disagree on " + p[0] + " " + hx(p[1]))
		}
		if has {
			sb.WriteByte('1')
		} else {
			sb.WriteByte('0')
		}
	}
	return "R" + lock + "/" + strconv.Itoa(t.f.Len()) + "/" + joinAll(items, sorted) + "/" + sb.String()
}

func (t *txnRun) obsSrc(s *tsrc, sorted bool) string {
	if s.kind == "iter" {
		var items []string
		for m, r := range s.it.All() {
			items = append(items, entry(m, r))
		}
		return joinAll(items, sorted)
	}
	l := guard(func() string { return strconv.Itoa(s.txn.Len()) })
	a := guard(func() string {
		if t.quiet {
			// Txn.Iter on a write transaction takes a snapshot, which resets the writable cache and would hide aliasing
			// through it: quiet cases observe open transactions through Len and Has only
			_ = s.txn.Len()
			return "-"
		}
		var items []string
		for m, r := range s.txn.Iter().All() {
			items = append(items, entry(m, r))
		}
		return joinAll(items, sorted)
	})
	h := guard(func() string {
		var sb strings.Builder
		for _, p := range t.pool {
			if s.txn.Has(p[0], p[1]) {
				sb.WriteByte('1')
			} else {
				sb.WriteByte('0')
			}
		}
		return sb.String()
	})
	if l == "settled" && a == "settled" && h == "settled" {
		return "settled"
	}
	return l + "/" + a + "/" + h
}

func (t *txnRun) emit2(i, j string) {
	oi, oj := t.obsRouter(false), t.obsRouter(true)
	for _, s := range t.srcs {
		oi += "~" + strconv.Itoa(s.cid) + "=" + t.obsSrc(s, false)
		oj += "~" + strconv.Itoa(s.cid) + "=" + t.obsSrc(s, true)
	}
	t.mu.Lock()
	t.outI = append(t.outI, i+"~"+oi)
	t.outJ = append(t.outJ, j+"~"+oj)
	t.mu.Unlock()
	t.progress.Add(1)
}

func (t *txnRun) emit(s string) { t.emit2(s, s) }

func noopHandler(fox.Context) {}

func splitMethods(s string) []string {
	var ms []string
	for _, m := range strings.Split(s, "+") {
		if m != "" {
			ms = append(ms, m)
		}
	}
	return ms
}

func showLookupCC(rte *fox.Route, cc fox.ContextCloser, tsr bool) string {
	var ps []fox.Param
	if cc != nil {
		ps = slices.Collect(cc.Params())
		cc.Close()
	}
	return showLookup(rte, ps, tsr)
}

// write performs a write step through a transaction or (src == nil) through the router's one-operation helpers.
func (t *txnRun) write(a []string) string {
	var txn *fox.Txn
	if a[1] != "-" {
		cid, _ := strconv.Atoi(a[1])
		s := t.src(cid)
		if s == nil {
			return "nosrc"
		}
		if s.kind == "iter" {
			return "bad-op"
		}
		txn = s.txn
	} else if fox.VerifWriterLocked(t.f) {
		return "block"
	}
	return guard(func() string {
		switch a[0] {
		case "H", "U":
			flags, _ := strconv.Atoi(a[4])
			hid, _ := strconv.Atoi(a[5])
			var err error
			if hid%2 == 1 {
				// the same write through the *Route entry points: NewRoute, then HandleRoute / UpdateRoute
				rte, nerr := t.f.NewRoute(unhx(a[3]), noopHandler, routeOpts(flags, hid)...)
				switch {
				case nerr != nil:
					err = nerr
				case a[0] == "H" && txn != nil:
					err = txn.HandleRoute(a[2], rte)
				case a[0] == "H":
					err = t.f.HandleRoute(a[2], rte)
				case txn != nil:
					err = txn.UpdateRoute(a[2], rte)
				default:
					err = t.f.UpdateRoute(a[2], rte)
				}
				return classifyErr(err)
			}
			switch {
			case a[0] == "H" && txn != nil:
				_, err = txn.Handle(a[2], unhx(a[3]), noopHandler, routeOpts(flags, hid)...)
			case a[0] == "H":
				_, err = t.f.Handle(a[2], unhx(a[3]), noopHandler, routeOpts(flags, hid)...)
			case txn != nil:
				_, err = txn.Update(a[2], unhx(a[3]), noopHandler, routeOpts(flags, hid)...)
			default:
				_, err = t.f.Update(a[2], unhx(a[3]), noopHandler, routeOpts(flags, hid)...)
			}
			return classifyErr(err)
		case "D":
			var r *fox.Route
			var err error
			if txn != nil {
				r, err = txn.Delete(a[2], unhx(a[3]))
			} else {
				r, err = t.f.Delete(a[2], unhx(a[3]))
			}
			if err == nil {
				return "ok:" + hidOf(r)
			}
			return classifyErr(err)
		case "T":
			ms := splitMethods(a[2])
			if txn != nil {
				return classifyErr(txn.Truncate(ms...))
			}
			return classifyErr(t.f.Updates(func(x *fox.Txn) error { return x.Truncate(ms...) }))
		}
		return "bad-op"
	})
}

func (t *txnRun) read(a []string) (string, string) {
	var s *tsrc
	if a[1] != "-" {
		cid, _ := strconv.Atoi(a[1])
		if s = t.src(cid); s == nil {
			return "nosrc", "nosrc"
		}
	}
	if s != nil && s.kind == "iter" {
		if a[0] != "A" {
			return "bad-op", "bad-op"
		}
		var items []string
		for m, r := range s.it.All() {
			items = append(items, entry(m, r))
		}
		t.iterConsistent("iterator source", s.it)
		return joinAll(items, false), joinAll(items, true)
	}
	var j string
	i := guard(func() string {
		switch a[0] {
		case "R":
			var r *fox.Route
			var has bool
			if s != nil {
				r, has = s.txn.Route(a[2], unhx(a[3])), s.txn.Has(a[2], unhx(a[3]))
			} else {
				r, has = t.f.Route(a[2], unhx(a[3])), t.f.Has(a[2], unhx(a[3]))
			}
			if has != (r != nil) {
				t.oracle("Has and Route disagree on " + a[2] + " " + a[3])
			}
			return hidOf(r)
		case "N":
			if s != nil {
				return strconv.Itoa(s.txn.Len())
			}
			return strconv.Itoa(t.f.Len())
		case "A":
			var items []string
			var it fox.Iter
			if s != nil {
				it = s.txn.Iter()
			} else {
				it = t.f.Iter()
			}
			for m, r := range it.All() {
				items = append(items, entry(m, r))
			}
			t.iterConsistent("read A", it)
			j = joinAll(items, true)
			return joinAll(items, false)
		case "L":
			req := newReq(a[2], unhx(a[3]), unhx(a[4]))
			if s != nil {
				// Reverse and the iterator's Reverse read the same state as Lookup: the transaction's own, uncommitted
				// writes included
				rt, cc, tsr := s.txn.Lookup(foxWriter{newRecWriter()}, req)
				if r2, tsr2 := s.txn.Reverse(a[2], unhx(a[3]), unhx(a[4])); r2 != rt || (rt != nil && tsr2 != tsr) {
					t.oracle("Txn.Reverse and Txn.Lookup of the same transaction disagree on " + a[2] + " " + a[3] + " " + a[4])
				}
				if !t.quiet {
					var r3 *fox.Route
					for _, r := range s.txn.Iter().Reverse(slices.Values([]string{a[2]}), unhx(a[3]), unhx(a[4])) {
						r3 = r
					}
					want := rt
					if tsr && rt != nil && !rt.IgnoreTrailingSlashEnabled() && !rt.RedirectTrailingSlashEnabled() {
						want = nil
					}
					if r3 != want {
						t.oracle("Txn.Iter().Reverse and Txn.Lookup of the same transaction disagree on " + a[2] + " " + a[3] + " " + a[4])
					}
				}
				return showLookupCC(rt, cc, tsr)
			}
			return showLookupCC(t.f.Lookup(foxWriter{newRecWriter()}, req))
		}
		return "bad-op"
	})
	if j == "" || i == "settled" || strings.HasPrefix(i, "panic:") {
		j = i
	}
	return i, j
}

// managed runs the steps up to the matching END inside Router.Updates / Router.View.
func (t *txnRun) managed_(id int, update bool) {
	if update && fox.VerifWriterLocked(t.f) {
		t.emit("block")
		return
	}
	ending := "eof"
	var recovered any
	var err error
	func() {
		defer func() { recovered = recover() }()
		body := func(txn *fox.Txn) error {
			t.srcs = append(t.srcs, &tsrc{cid: id, kind: "txn", txn: txn})
			t.managed = append(t.managed, id)
			t.emit("ok")
			ending = t.run(id)
			t.managed = t.managed[:len(t.managed)-1]
			switch ending {
			case "err":
				return errInjected
			case "panic":
				panic(injectedPanic{id})
			}
			return nil
		}
		if update {
			err = t.f.Updates(body)
		} else {
			err = t.f.View(body)
		}
	}()
	name := "View"
	if update {
		name = "Updates"
	}
	switch {
	case ending == "panic":
		if p, ok := recovered.(injectedPanic); !ok || p.id != id {
			t.oracle(fmt.Sprintf("%s did not re-raise the panic of its function (got %v)", name, recovered))
		}
	case recovered != nil:
		t.oracle(fmt.Sprintf("%s panicked although its function returned (%v)", name, recovered))
	case ending == "err" && !errors.Is(err, errInjected):
		t.oracle(fmt.Sprintf("%s did not return the error of its function (got %v)", name, err))
	case ending != "err" && err != nil:
		t.oracle(fmt.Sprintf("%s returned %v although its function returned nil", name, err))
	}
	if ending != "eof" {
		t.emit(ending)
	}
}

// run interprets steps until `END,<stop>` (returns its ending) or the end of the script ("eof").
func (t *txnRun) run(stop int) string {
	for t.pos < len(t.steps) {
		op := t.steps[t.pos]
		t.pos++
		if op == "" {
			continue
		}
		a := strings.Split(op, ",")
		switch {
		case a[0] == "TXN" && len(a) == 3:
			id, _ := strconv.Atoi(a[2])
			w := a[1] == "w"
			if w && fox.VerifWriterLocked(t.f) {
				t.emit("block")
				continue
			}
			t.srcs = append(t.srcs, &tsrc{cid: id, kind: "txn", txn: t.f.Txn(w)})
			t.emit("ok")
		case (a[0] == "UPD" || a[0] == "VIEW") && len(a) == 2:
			id, _ := strconv.Atoi(a[1])
			t.managed_(id, a[0] == "UPD")
		case a[0] == "END" && len(a) == 3:
			id, _ := strconv.Atoi(a[1])
			if id == stop && len(t.managed) > 0 && t.managed[len(t.managed)-1] == id {
				return a[2]
			}
			t.emit("nosrc")
		case (a[0] == "COMMIT" || a[0] == "ABORT") && len(a) == 2:
			id, _ := strconv.Atoi(a[1])
			s := t.src(id)
			if s == nil || s.kind == "iter" {
				t.emit("nosrc")
				continue
			}
			t.emit(guard(func() string {
				if a[0] == "COMMIT" {
					s.txn.Commit()
				} else {
					s.txn.Abort()
				}
				return "ok"
			}))
		case a[0] == "SNAP" && len(a) == 3:
			id, _ := strconv.Atoi(a[2])
			cid, _ := strconv.Atoi(a[1])
			s := t.src(cid)
			if a[1] == "-" || s == nil || s.kind == "iter" {
				t.emit("nosrc")
				continue
			}
			t.emit(guard(func() string {
				sn := s.txn.Snapshot()
				if sn == nil {
					return "nil"
				}
				t.srcs = append(t.srcs, &tsrc{cid: id, kind: "txn", txn: sn})
				return "ok"
			}))
		case a[0] == "ITER" && len(a) == 3:
			id, _ := strconv.Atoi(a[2])
			if a[1] == "-" {
				t.srcs = append(t.srcs, &tsrc{cid: id, kind: "iter", it: t.f.Iter()})
				t.emit("ok")
				continue
			}
			cid, _ := strconv.Atoi(a[1])
			s := t.src(cid)
			if s == nil || s.kind == "iter" {
				t.emit("nosrc")
				continue
			}
			t.emit(guard(func() string {
				it := s.txn.Iter()
				t.srcs = append(t.srcs, &tsrc{cid: id, kind: "iter", it: it})
				return "ok"
			}))
		case (a[0] == "H" || a[0] == "U") && len(a) == 6, a[0] == "D" && len(a) == 4, a[0] == "T" && len(a) == 3:
			t.emit(t.write(a))
		case a[0] == "R" && len(a) == 4, a[0] == "N" && len(a) == 2, a[0] == "A" && len(a) == 2, a[0] == "L" && len(a) == 5:
			t.emit2(t.read(a))
		default:
			t.emit("bad-op")
		}
	}
	return "eof"
}

func watchdogTimeout() time.Duration {
	if v, err := strconv.Atoi(os.Getenv("VERIF_WATCHDOG_MS")); err == nil && v > 0 {
		return time.Duration(v) * time.Millisecond
	}
	return 2 * time.Second
}

func runTxn(fields []string) string {
	if len(fields) < 3 {
		return "I=bad-case"
	}
	f, err := fox.New()
	if err != nil {
		return "I=new-failed"
	}
	t := &txnRun{f: f, steps: strings.Split(fields[1], ";")}
	if strings.HasPrefix(fields[2], "q!") {
		t.quiet = true
		fields[2] = fields[2][2:]
	}
	for _, e := range strings.Split(fields[2], "+") {
		if mp := strings.SplitN(e, ":", 2); len(mp) == 2 {
			t.pool = append(t.pool, [2]string{mp[0], unhx(mp[1])})
		}
	}
	done := make(chan string, 1)
	go func() {
		defer func() {
			if p := recover(); p != nil {
				done <- "harness-level panic: " + strings.ReplaceAll(fmt.Sprint(p), "\n", " ")
			}
		}()
		t.run(-1)
		done <- ""
	}()
	hang := ""
	limit := watchdogTimeout()
	last, lastT := t.progress.Load(), time.Now()
wait:
	for {
		select {
		case msg := <-done:
			if msg != "" {
				t.oracle(msg)
			}
			break wait
		case <-time.After(50 * time.Millisecond):
			if p := t.progress.Load(); p != last {
				last, lastT = p, time.Now()
			} else if time.Since(lastT) > limit {
				hang = fmt.Sprintf("step #%d (%s) made no progress for %v: a call is waiting for the writer lock although the probe said it was free", t.pos-1, t.steps[max(0, t.pos-1)], limit)
				break wait
			}
		}
	}
	t.mu.Lock()
	defer t.mu.Unlock()
	outI, outJ := t.outI, t.outJ
	if hang != "" {
		outI = append(slices.Clone(outI), "hang")
		outJ = append(slices.Clone(outJ), "hang")
		t.oracles = append(t.oracles, hang)
	}
	out := "I=" + strings.Join(outI, "|") + "\tJ=" + strings.Join(outJ, "|")
	if len(t.oracles) > 0 {
		out += "\tO=" + strings.Join(t.oracles, " ;; ")
	}
	return out
}

// ---------------------------------------------------------------------------------------------- gen

type txnGen struct {
	r       *Rng
	ops     []string
	pool    [][2]string // (method, pattern)
	pats    []string
	methods []string
	nextID  int
	hid     int
	open    []int // transactions / snapshots usable as a source (may be settled: use-after-settle is wanted)
	writers []int // explicit write transactions, open or settled
	iters   []int
	inUpd   bool
}

func (g *txnGen) id() int { g.nextID++; return g.nextID }

func (g *txnGen) anySrc(routerPct int) string {
	if len(g.open) == 0 || g.r.Chance(routerPct) {
		return "-"
	}
	return strconv.Itoa(Pick(g.r, g.open))
}

func (g *txnGen) writeStep(src string) string {
	p := Pick(g.r, g.pool)
	switch x := g.r.Intn(20); {
	case x < 10:
		g.hid++
		return fmt.Sprintf("H,%s,%s,%s,%d,%d", src, p[0], hx(p[1]), Pick(g.r, []int{0, 0, 1, 2}), g.hid)
	case x < 14:
		g.hid++
		return fmt.Sprintf("U,%s,%s,%s,%d,%d", src, p[0], hx(p[1]), Pick(g.r, []int{0, 1, 2}), g.hid)
	case x < 19:
		return fmt.Sprintf("D,%s,%s,%s", src, p[0], hx(p[1]))
	default:
		if g.r.Chance(30) {
			return "T," + src + ","
		}
		return "T," + src + "," + genTruncMethods(g.r, g.methods)
	}
}

func (g *txnGen) readStep(src string, iter bool) string {
	if iter {
		return "A," + src
	}
	p := Pick(g.r, g.pool)
	switch g.r.Intn(6) {
	case 0:
		return "N," + src
	case 1:
		return "A," + src
	case 2, 3:
		return fmt.Sprintf("R,%s,%s,%s", src, p[0], hx(p[1]))
	default:
		probe := genProbe(g.r, g.pats, g.methods) // L,<m>,<host>,<path>
		a := strings.Split(probe, ",")
		path := unhx(a[3])
		for strings.Contains(path, "//") {
			path = strings.ReplaceAll(path, "//", "/")
		}
		return "L," + src + "," + a[1] + "," + a[2] + "," + hx(path)
	}
}

// one random step through / about source `src` (a transaction id as string)
func (g *txnGen) txnStep(id int) {
	src := strconv.Itoa(id)
	switch x := g.r.Intn(20); {
	case x < 10:
		g.ops = append(g.ops, g.writeStep(src))
	case x < 14:
		g.ops = append(g.ops, g.readStep(src, false))
	case x < 16:
		n := g.id()
		g.ops = append(g.ops, fmt.Sprintf("SNAP,%s,%d", src, n))
		g.open = append(g.open, n)
		// a snapshot is a read-only transaction of its own: writes through it are refused, settling it neither publishes
		// anything nor releases the lock of the transaction it was taken from
		if g.r.Chance(40) {
			sn := strconv.Itoa(n)
			for i := 1 + g.r.Intn(2); i > 0; i-- {
				switch g.r.Intn(3) {
				case 0:
					g.ops = append(g.ops, g.writeStep(sn))
				case 1:
					g.ops = append(g.ops, Pick(g.r, []string{"COMMIT", "ABORT"})+","+sn)
				default:
					g.ops = append(g.ops, g.readStep(sn, false))
				}
			}
		}
	case x < 17:
		n := g.id()
		g.ops = append(g.ops, fmt.Sprintf("ITER,%s,%d", src, n))
		g.iters = append(g.iters, n)
	case x < 19:
		// a reader somewhere else: the router, an older snapshot, an iterator
		if len(g.iters) > 0 && g.r.Chance(30) {
			g.ops = append(g.ops, g.readStep(strconv.Itoa(Pick(g.r, g.iters)), true))
		} else {
			g.ops = append(g.ops, g.readStep(g.anySrc(50), false))
		}
	default:
		// a writer that has to wait (helper or second write transaction while this one may hold the lock)
		if g.r.Bool() {
			g.ops = append(g.ops, g.writeStep("-"))
		} else {
			n := g.id()
			g.ops = append(g.ops, fmt.Sprintf("TXN,w,%d", n))
			g.open = append(g.open, n)
			g.writers = append(g.writers, n)
		}
	}
}

func genTxn(r *Rng, tier string, n int, emit func(string)) {
	for c := 0; c < n; c++ {
		g := &txnGen{r: r.Fork()}
		nMeth := 1 + g.r.Intn(2)
		for i := 0; i < nMeth; i++ {
			g.methods = append(g.methods, Pick(g.r, methodPool))
		}
		hostPct := Pick(g.r, []int{0, 0, 0, 40})
		np := 3 + g.r.Intn(6)
		var poolStr []string
		nested := genNestedPool(g.r, np, hostPct)
		for i := 0; i < np; i++ {
			p := nested[i]
			m := Pick(g.r, g.methods)
			g.pool = append(g.pool, [2]string{m, p})
			g.pats = append(g.pats, p)
			poolStr = append(poolStr, m+":"+hx(p))
		}
		// some committed routes to start from
		for i := g.r.Intn(4); i > 0; i-- {
			g.ops = append(g.ops, g.writeStep("-"))
		}
		if g.r.Chance(20) {
			// directed scenario: replace a committed route that has committed routes below it, then write below it in the
			// same transaction, observe the router, end the transaction either way, observe again
			m := g.methods[0]
			base := strings.TrimSuffix(genPathPattern(g.r), "/")
			if strings.Contains(base[strings.LastIndexByte(base, '/'):], "*{") {
				base = "/" + Pick(g.r, staticSegs)
			}
			kids := []string{base + "/" + Pick(g.r, staticSegs), base + "/{k}", base + "/" + Pick(g.r, staticSegs) + "/" + Pick(g.r, staticSegs)}
			all := append([]string{base}, kids...)
			for _, q := range all {
				g.pool = append(g.pool, [2]string{m, q})
				g.pats = append(g.pats, q)
				poolStr = append(poolStr, m+":"+hx(q))
			}
			for _, q := range all[:2+g.r.Intn(3)] {
				g.hid++
				g.ops = append(g.ops, fmt.Sprintf("H,-,%s,%s,0,%d", m, hx(q), g.hid))
			}
			id := g.id()
			g.ops = append(g.ops, fmt.Sprintf("TXN,w,%d", id))
			g.open = append(g.open, id)
			g.writers = append(g.writers, id)
			src := strconv.Itoa(id)
			g.hid++
			g.ops = append(g.ops, fmt.Sprintf("U,%s,%s,%s,0,%d", src, m, hx(base), g.hid))
			for i := 1 + g.r.Intn(3); i > 0; i-- {
				q := Pick(g.r, kids)
				g.hid++
				switch g.r.Intn(3) {
				case 0:
					g.ops = append(g.ops, fmt.Sprintf("U,%s,%s,%s,0,%d", src, m, hx(q), g.hid))
				case 1:
					g.ops = append(g.ops, fmt.Sprintf("H,%s,%s,%s,0,%d", src, m, hx(q), g.hid))
				default:
					g.ops = append(g.ops, fmt.Sprintf("D,%s,%s,%s", src, m, hx(q)))
				}
				g.ops = append(g.ops, "A,-", fmt.Sprintf("R,-,%s,%s", m, hx(q)), "N,-")
			}
			g.ops = append(g.ops, Pick(g.r, []string{"COMMIT", "ABORT", "ABORT"})+","+src, "A,-", "N,-")
		}
		rounds := 1 + g.r.Intn(3)
		for ; rounds > 0; rounds-- {
			steps := 3 + g.r.Intn(12)
			switch kind := g.r.Intn(10); {
			case kind < 4:
				// explicit write transaction
				id := g.id()
				g.ops = append(g.ops, fmt.Sprintf("TXN,w,%d", id))
				g.open = append(g.open, id)
				g.writers = append(g.writers, id)
				for i := 0; i < steps; i++ {
					g.txnStep(id)
				}
				switch g.r.Intn(6) {
				case 0, 1, 2:
					g.ops = append(g.ops, fmt.Sprintf("COMMIT,%d", id))
				case 3, 4:
					g.ops = append(g.ops, fmt.Sprintf("ABORT,%d", id))
				default: // left open: later writers block
				}
				// double commit / abort, use after settle
				for i := g.r.Intn(4); i > 0; i-- {
					switch g.r.Intn(4) {
					case 0:
						g.ops = append(g.ops, fmt.Sprintf("COMMIT,%d", id))
					case 1:
						g.ops = append(g.ops, fmt.Sprintf("ABORT,%d", id))
					default:
						g.txnStep(id)
					}
				}
			case kind < 8:
				// managed transaction; the ending is placed after every prefix length with equal probability
				id := g.id()
				upd := kind < 7
				if upd {
					g.ops = append(g.ops, fmt.Sprintf("UPD,%d", id))
				} else {
					g.ops = append(g.ops, fmt.Sprintf("VIEW,%d", id))
				}
				g.open = append(g.open, id)
				k := g.r.Intn(steps + 1)
				for i := 0; i < k; i++ {
					g.txnStep(id)
				}
				if g.r.Chance(10) {
					g.ops = append(g.ops, Pick(g.r, []string{"COMMIT", "ABORT"})+","+strconv.Itoa(id))
				}
				g.ops = append(g.ops, fmt.Sprintf("END,%d,%s", id, Pick(g.r, []string{"ok", "ok", "err", "panic", "panic"})))
				// follow-up write: the lock must be free again
				g.ops = append(g.ops, g.writeStep("-"))
				if g.r.Chance(40) {
					g.txnStep(id)
				}
			default:
				// read-only transaction: writes are refused, commit/abort are no-ops, it keeps working afterwards
				id := g.id()
				g.ops = append(g.ops, fmt.Sprintf("TXN,r,%d", id))
				g.open = append(g.open, id)
				for i := 0; i < steps; i++ {
					if g.r.Chance(25) {
						g.ops = append(g.ops, g.writeStep("-"))
					} else {
						g.txnStep(id)
					}
					if g.r.Chance(15) {
						g.ops = append(g.ops, Pick(g.r, []string{"COMMIT", "ABORT"})+","+strconv.Itoa(id))
					}
				}
			}
			// release writers that were left open, most of the time
			for _, w := range g.writers {
				if g.r.Chance(60) {
					g.ops = append(g.ops, Pick(g.r, []string{"COMMIT", "ABORT"})+","+strconv.Itoa(w))
				}
			}
			if len(g.open) > 5 {
				g.open = g.open[len(g.open)-5:]
			}
		}
		g.ops = append(g.ops, "N,-", "A,-")
		q := ""
		if g.r.Chance(50) {
			q = "q!"
		}
		emit("txn\t" + strings.Join(g.ops, ";") + "\t" + q + strings.Join(poolStr, "+"))
	}
}
