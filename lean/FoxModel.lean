import FoxModel.Basic
import FoxModel.Util
import FoxModel.Spec.Route
import FoxModel.Spec.Store
import FoxModel.Model.Lookup
import FoxModel.Model.Tree
import FoxModel.Driver.Ops
