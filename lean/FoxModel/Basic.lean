/-
  FoxModel.Basic — shared vocabulary of the fox model (core Lean only, no Mathlib: this module is linked
  into the `foxmodel` executable).

  Go `string`/`[]byte`  ↦  `Bytes = List UInt8`
  a route pattern       ↦  `List Tok` (`render`/`tokenize` below)
-/
namespace Fox

abbrev Bytes := List UInt8

def SLASH : UInt8 := 47   -- '/'
def DOT   : UInt8 := 46   -- '.'
def LBR   : UInt8 := 123  -- '{'
def RBR   : UInt8 := 125  -- '}'
def STAR  : UInt8 := 42   -- '*'
def COLON : UInt8 := 58   -- ':'
def DASH  : UInt8 := 45   -- '-'

inductive Tok where
  | lit (b : UInt8)
  | param (n : Bytes)
  | catchAll (n : Bytes)
deriving DecidableEq, Repr, Inhabited

/-- `==` on tokens is decidable equality (so that it is lawful) -/
instance : BEq Tok := ⟨fun a b => decide (a = b)⟩
instance : LawfulBEq Tok where
  eq_of_beq := by intro a b h; exact of_decide_eq_true h
  rfl := by intro a; exact decide_eq_true rfl

abbrev Binds := List (Bytes × Bytes)

/-- textual form of one token -/
def Tok.render : Tok → Bytes
  | .lit b => [b]
  | .param n => LBR :: n ++ [RBR]
  | .catchAll n => STAR :: LBR :: n ++ [RBR]

def render (ts : List Tok) : Bytes := ts.flatMap Tok.render

/-- read a wildcard name up to the closing brace; `none` if unclosed -/
def takeName : Bytes → Option (Bytes × Bytes)
  | [] => none
  | b :: bs => if b = RBR then some ([], bs) else
      match takeName bs with
      | some (n, r) => some (b :: n, r)
      | none => none

theorem takeName_length {s n r} (h : takeName s = some (n, r)) : r.length < s.length := by
  induction s generalizing n r with
  | nil => simp [takeName] at h
  | cons b bs ih =>
    simp only [takeName] at h
    split at h
    · simp at h; obtain ⟨_, rfl⟩ := h; simp
    · split at h
      · rename_i n' r' heq
        simp at h; obtain ⟨_, rfl⟩ := h
        have := ih heq; simp; omega
      · simp at h

/-- tokenizer: `{name}` ↦ param, `*{name}` ↦ catch-all, every other byte a literal. It does **not** validate
    (that is `parseRoute`, property C10); a lone `*` not followed by `{`, or an unclosed brace, yields `none`. -/
def tokenize (s : Bytes) : Option (List Tok) :=
  match s with
  | [] => some []
  | b :: bs =>
    if b = LBR then
      match h : takeName bs with
      | some (n, r) => (tokenize r).map (Tok.param n :: ·)
      | none => none
    else if b = STAR then
      match bs with
      | c :: cs =>
        if c = LBR then
          match h : takeName cs with
          | some (n, r) => (tokenize r).map (Tok.catchAll n :: ·)
          | none => none
        else none
      | [] => none
    else (tokenize bs).map (Tok.lit b :: ·)
termination_by s.length
decreasing_by
  all_goals simp_wf
  · have := takeName_length h; omega
  · have := takeName_length h; simp; omega

/-- per-route options that routing decisions depend on -/
structure Route where
  /-- identifier of the registered value (handler id / version); two registrations differ in `hid` -/
  hid : Nat
  pattern : List Tok
  /-- number of leading tokens that belong to the hostname part (0 = path-only route) -/
  hostToks : Nat := 0
  ignoreTS : Bool := false
  redirectTS : Bool := false
deriving DecidableEq, Repr, Inhabited, BEq

def Route.text (r : Route) : Bytes := render r.pattern
def Route.hostPart (r : Route) : List Tok := r.pattern.take r.hostToks
def Route.pathPart (r : Route) : List Tok := r.pattern.drop r.hostToks
def isWild : Tok → Bool | .lit _ => false | _ => true
def Route.psLen (r : Route) : Nat := (r.pattern.filter isWild).length

/-- radix-tree node: key (cut at token boundaries), optional route (leaf), children -/
inductive Node where
  | mk (key : List Tok) (route : Option Route) (children : List Node)
deriving Repr, Inhabited, BEq

def Node.key : Node → List Tok | .mk k _ _ => k
def Node.route : Node → Option Route | .mk _ r _ => r
def Node.children : Node → List Node | .mk _ _ cs => cs
def Node.isLeaf (n : Node) : Bool := n.route.isSome

/-- length of the first segment: bytes before the next delimiter `d` -/
def segEnd (d : UInt8) : Bytes → Nat
  | [] => 0
  | x :: xs => if x = d then 0 else 1 + segEnd d xs

theorem segEnd_le (d : UInt8) (s : Bytes) : segEnd d s ≤ s.length := by
  induction s with
  | nil => simp [segEnd]
  | cons x xs ih => simp only [segEnd]; split <;> simp <;> omega

def endsWithSlash (p : Bytes) : Bool := p.getLast? == some SLASH

/-- byte-wise lexicographic order on byte strings (Go string comparison) -/
def bytesLt : Bytes → Bytes → Bool
  | [], [] => false
  | [], _ :: _ => true
  | _ :: _, [] => false
  | a :: as, b :: bs => if a < b then true else if b < a then false else bytesLt as bs

end Fox
