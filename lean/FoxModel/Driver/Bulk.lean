import FoxModel.Driver.Ops
/-
  FoxModel.Driver.Bulk — line-protocol handler of stream `bulk` (properties C02, C03): ONE write transaction that
  registers thousands of routes - more nodes than the transaction's writable-node cache holds - committed or aborted.

      bulk \t <n> \t <shape a|b|c> \t <mode commit|abort>

  The model registers the same n patterns in the tree model and answers the same questions (Len, Has of four sample
  patterns, one lookup below the last pattern); the specification side is the sequential map.
-/
namespace Fox.Driver.Bulk
open Fox Fox.Util Fox.Model Fox.Driver.Ops

def pattern (shape : String) (i : Nat) : String :=
  if shape == "a" then "/s" ++ toString (i % 7) ++ "/g" ++ toString (i % 97) ++ "/r" ++ toString i ++ "/{id}"
  else if shape == "b" then "/k" ++ toString i
  else "h" ++ toString (i % 50) ++ ".example.com/p" ++ toString i ++ "/{id}"

def seeds : List String := ["/seed/a", "/seed/b/{x}", "/k"]

def registerAll (t : Tree) (s : Spec.Store) (pats : List String) (hid0 : Nat) : Tree × Spec.Store × Bool :=
  (pats.zip (List.range pats.length)).foldl (fun (acc : Tree × Spec.Store × Bool) pi =>
    match mkRoute (ascii pi.1) 0 (hid0 + pi.2) with
    | none => (acc.1, acc.2.1, false)
    | some r =>
      match acc.1.insert GET r with
      | .ok (t', _) => (t', (acc.2.1.handle GET r).1, acc.2.2)
      | .error _ => (acc.1, acc.2.1, false)) (t, s, true)

def handle (fields : List String) : String :=
  match fields with
  | [_, nS, shape, mode] =>
    let n := nS.toNat!
    let (t0, s0, _) := registerAll newTree [] seeds 1
    let pats := (List.range n).map (pattern shape)
    let (t1, s1, ok) := registerAll t0 s0 pats 100
    let (t, s) := if mode == "commit" && ok then (t1, s1) else (t0, s0)
    let sample := [0, 1, n / 2, n - 1].map (pattern shape)
    let hasM := String.join (sample.map fun p => if (t.has GET (ascii p)).isSome then "1" else "0")
    let hasS := String.join (sample.map fun p =>
      match tokenize (ascii p) with
      | some toks => if (s.get GET toks).isSome then "1" else "0"
      | none => "0")
    let last := pattern shape (n - 1)
    let (host, path) := match last.splitOn "/" with
      | h :: rest => (if h.isEmpty then "" else h, "/" ++ "/".intercalate rest)
      | [] => ("", "/")
    let reqPath := path.replace "{id}" "42"
    let lk := Machine.lookup t.roots GET (ascii host) (ascii reqPath)
    let sp := Spec.route (s.routesOf GET) (ascii host) (ascii reqPath)
    let line (len : Nat) (has lkS : String) := "res=ok,len=" ++ toString len ++ ",has=" ++ has ++ ",lk=" ++ lkS ++
      ",before=" ++ toString seeds.length ++ ",after=ok"
    "M=" ++ line t.size hasM (showResultH lk) ++ "\tS=" ++ line s.length hasS (showSpecFoundH sp) ++
      "\tT=bulk-" ++ shape ++ ",bulk-" ++ mode ++ (if n > 4096 then ",bulk-over-cache" else "")
  | _ => "M=bad-case"

end Fox.Driver.Bulk
