import FoxModel.Util
import FoxModel.Spec.Clean
import FoxModel.Model.Clean
import FoxModel.Generated.Consts
/-
  FoxModel.Driver.Clean — line-protocol handlers of the streams `clean` and `cleanredir` (property C17).
-/
namespace Fox.Driver.Clean
open Fox Fox.Util

def showOutcome : Model.Clean.Outcome → String
  | .ok b => toHex b
  | .panic => "panic"

/-- coverage tags of one input: which branches of path.go it drives -/
def tags (p : Bytes) : List String :=
  let els := Spec.Clean.splitSlash p
  let rooted := p.head? == some SLASH
  let body := if rooted then els.drop 1 else els
  let res := Spec.Clean.clean p
  let big : Bool := decide ((Generated.c_stackBufSize : Int) < ((p.length + (if rooted then 0 else 1) : Nat) : Int))
  let fin : Option (Nat × Model.Clean.Buf × Bool) :=
    match Model.Clean.start p, Model.Clean.initTrailing p with
    | some (r, w, buf), some tr => Model.Clean.loop p r w buf tr
    | _, _ => none
  let mat : Bool := match fin with
    | some (_, some _, _) => true
    | _ => false
  (if p.isEmpty then ["empty"] else []) ++
  (if rooted then ["rooted"] else ["unrooted"]) ++
  (if mat then (if big then ["buf-heap"] else ["buf-stack"]) else ["lazy"]) ++
  (if body.dropLast.any (· == []) then ["empty-elem"] else []) ++
  (if body.any (· == [DOT]) then ["dot"] else []) ++
  (if body.any (· == [DOT, DOT]) then ["dotdot"] else []) ++
  (if body.getLast? == some [DOT] then ["dot-end"] else []) ++
  (if body.getLast? == some [DOT, DOT] then ["dotdot-end"] else []) ++
  (if res != p then ["changed"] else ["fixed-point"]) ++
  (if res.length > 1 && res.getLast? == some SLASH then ["trailing"] else []) ++
  (if res == [SLASH] && p != [SLASH] then ["to-root"] else [])

def handle (fields : List String) : String :=
  match fields with
  | [_, hex] =>
    match fromHex hex with
    | none => "M=bad-case"
    | some p =>
      let ts := tags p
      "M=" ++ showOutcome (Model.Clean.cleanPath p) ++ "\tS=" ++ toHex (Spec.Clean.clean p) ++
        "\tT=" ++ join ts "," ++ "\tN=" ++ (if ts.contains "changed" then "1" else "0")
  | _ => "M=bad-case"

def bit (b : Bool) : String := if b then "1" else "0"

/-- `cleanredir`: the decision the property demands (spec) and the one the modelled guard
    `path == CleanPath(path)` takes, for the request kind the generator announces. -/
def handleRedir (fields : List String) : String :=
  match fields with
  | [_, _pat, method, pathHex, _raw, hint] =>
    match fromHex pathHex with
    | none => "M=bad-case"
    | some path =>
      let gModel := Model.Clean.cleanPath path == .ok path
      let gSpec := Spec.Clean.clean path == path
      -- fox.go ServeHTTP: a trailing-slash match is acted upon unless the method is CONNECT or the path is "/"
      let acts := hint == "t" && method != "CONNECT" && path != [SLASH]
      let code : Int := if method == "GET" then Generated.redirectCodeGet else Generated.redirectCodeOther
      let r := if acts && gModel then toString code else "0"
      "M=g=" ++ bit gModel ++ ",k=" ++ hint ++ ",r=" ++ r ++
        "\tS=g=" ++ bit gSpec ++ ",bad=0" ++
        "\tT=" ++ join ([if gSpec then "clean" else "unclean", "kind-" ++ hint] ++
                  (if acts && gSpec then ["redirect"] else []) ++ (if acts && !gSpec then ["guarded"] else [])) "," ++
        "\tN=" ++ bit acts
  | _ => "M=bad-case"

end Fox.Driver.Clean
