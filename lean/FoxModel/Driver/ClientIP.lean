import FoxModel.Util
import FoxModel.Spec.ClientIP
import FoxModel.Model.ClientIP
/-
  FoxModel.Driver.ClientIP — line-protocol handler of the `clientip` stream (property C18).

  case:  clientip \t <resolver> \t <headers> \t <remote addr hex>
    resolver := r | "chain:" r ("&" r)*
    r        := remote | single.<name hex> | left.<x|f>.<limit>.<opts> | rnp.<x|f>.<opts> | count.<x|f>.<n>
              | range.<x|f>.<ranges> | probe
    opts     := "-" | letters of L/l (loopback on/off) K/k (link local) P/p (private net), in application order
    ranges   := "-" (empty) | "!" (the range resolver fails) | <fam>/<addr hex>/<len> joined by "+"
    headers  := "-" | <name hex>=<line hex>,<line hex>,... joined by ";"
  output: M=<model> S=<spec> T=<tags>;  results: `ok <ip 32 hex>%<zone hex>` | `err:<kinds>` (S: `err`) | cfgerr | nil
-/
namespace Fox.Driver.ClientIP
open Fox Fox.Util Fox.Model.ClientIP

def hex32 (n : Nat) : String :=
  String.ofList ((List.range 32).map fun i => hexDigit ((n >>> (4 * (31 - i))) % 16))

def parseHexNat (s : String) : Nat :=
  s.toList.foldl (fun a c => a * 16 + (hexVal c).getD 0) 0

def showKind : ErrKind → String
  | .invalid => "invalid" | .unspecified => "unspecified" | .remoteInvalid => "remote-invalid"
  | .remoteUnspecified => "remote-unspecified" | .singleMissing => "single-missing" | .leftmost => "leftmost"
  | .nonPrivate => "nonprivate" | .countFew => "count-few" | .countInvalid => "count-invalid" | .range => "range"
  | .rangeResolver => "range-resolver"

def showAddr (a : Addr) : String := "ok " ++ hex32 a.ip ++ "%" ++ toHex a.zone

def showRes : Res → String
  | .ok a => showAddr a
  | .err ks => "err:" ++ join (ks.map showKind) "+"
  | .cfgErr => "cfgerr"
  | .nilNil => "nil"

def showSpec : Option Addr → String
  | some a => showAddr a
  | none => "err"

def parseKey (s : String) : HKey := if s == "f" then .fwd else .xff

def parseOpts (s : String) : List RangeOpt :=
  if s == "-" then [] else
  s.toList.filterMap fun c =>
    if c == 'L' then some (.loopback true) else if c == 'l' then some (.loopback false)
    else if c == 'K' then some (.linkLocal true) else if c == 'k' then some (.linkLocal false)
    else if c == 'P' then some (.privateNet true) else if c == 'p' then some (.privateNet false)
    else none

def parseRanges (s : String) : Option (List Cidr) :=
  if s == "!" then none
  else if s == "-" then some []
  else some ((s.splitOn "+").filterMap fun it =>
    match it.splitOn "/" with
    | [f, a, l] => some ⟨f.toNat!, parseHexNat a, l.toNat!⟩
    | _ => none)

inductive R where
  | res (r : Resolver)
  | probe
  | bad

def parseResolver (s : String) : R :=
  match s.splitOn "." with
  | ["remote"] => .res .remote
  | ["single", n] => .res (.single (fromHex! n))
  | ["left", k, lim, o] => .res (.leftmost (parseKey k) lim.toNat! (parseOpts o))
  | ["rnp", k, o] => .res (.nonPrivate (parseKey k) (parseOpts o))
  | ["count", k, n] => .res (.count (parseKey k) n.toNat!)
  | ["range", k, rs] => .res (.range (parseKey k) (parseRanges rs))
  | ["probe"] => .probe
  | _ => .bad

def parseHeaders (s : String) : List (Bytes × List Bytes) :=
  if s == "-" then [] else
  (s.splitOn ";").filterMap fun h =>
    match h.splitOn "=" with
    | [n, ls] => some (fromHex! n, if ls == "" then [] else (ls.splitOn ",").map fromHex!)
    | _ => none

/-- the declarative reading of one resolver on a request (`none` = error) -/
def specResolve (req : Req) : Resolver → Option Addr
  | .remote => parseIPAddr? req.remoteAddr
  | .single name => Spec.ClientIP.single parseIPAddr? (req.values name)
  | .leftmost k limit opts =>
    Spec.ClientIP.leftmost (parseItem k) (fun a => inRanges (configuredRanges opts) a.ip) limit
      (Spec.ClientIP.entries trimSpace (req.values (hdrName k)))
  | .nonPrivate k opts =>
    Spec.ClientIP.nonPrivate (parseItem k) (fun a => inRanges (configuredRanges opts) a.ip)
      (Spec.ClientIP.entries trimSpace (req.values (hdrName k)))
  | .count k n =>
    Spec.ClientIP.trustedCount (parseItem k) n (Spec.ClientIP.entries trimSpace (req.values (hdrName k)))
  | .range k ranges =>
    match ranges with
    | none => none
    | some rs =>
      Spec.ClientIP.trustedRange (parseItem k) (fun a => inRanges rs a.ip)
        (Spec.ClientIP.entries trimSpace (req.values (hdrName k)))

def isCfgErr : Resolver → Bool
  | .leftmost _ limit _ => limit == 0
  | .count _ n => n == 0
  | _ => false

def resolverTag : Resolver → String
  | .remote => "remote" | .single _ => "single" | .leftmost .. => "left" | .nonPrivate .. => "rnp"
  | .count .. => "count" | .range .. => "range"

def resolverKey : Resolver → Option HKey
  | .leftmost k .. => some k | .nonPrivate k _ => some k | .count k _ => some k | .range k _ => some k
  | _ => none

def resTag : Res → String
  | .ok a => if a.zone.isEmpty then "ok" else "ok-zone"
  | .err _ => "err" | .cfgErr => "cfgerr" | .nilNil => "nil"

def bit (r : Res) : String := match r with | .ok _ => "0" | _ => "1"

def probeConfigs : List Resolver :=
  [.nonPrivate .xff [], .nonPrivate .xff [.privateNet true], .nonPrivate .xff [.loopback true],
   .nonPrivate .xff [.linkLocal true], .leftmost .xff 1 []]

def handle (fields : List String) : String :=
  match fields with
  | [_, rspec, hdrs, remote] =>
    let req : Req := { headers := parseHeaders hdrs, remoteAddr := fromHex! remote }
    let isChain := rspec.startsWith "chain:"
    let parts : List String :=
      if isChain then (let body := (rspec.drop 6).toString; if body == "" then [] else body.splitOn "&") else [rspec]
    let rs := parts.map parseResolver
    if rs.any (fun r => match r with | .bad => true | _ => false) then "M=bad-case\tS=skip\tT=bad" else
    match rs with
    | [.probe] =>
      let m := String.join (probeConfigs.map fun c => bit (resolve req c))
      let es := Spec.ClientIP.entries trimSpace (req.values (hdrName .xff))
      let s := match es with
        | [e] => match parseIPAddr? e with
          | some a => if Spec.ClientIP.isSpecialPurpose a.ip then "skip" else "probe 00000"
          | none => "skip"
        | _ => "skip"
      "M=probe " ++ m ++ "\tS=" ++ s ++ "\tT=probe,probe-" ++ m
    | _ =>
      let resolvers := rs.filterMap fun r => match r with | .res x => some x | _ => none
      let es (k : HKey) := Spec.ClientIP.entries trimSpace (req.values (hdrName k))
      let manyEntries := resolvers.any fun r => match resolverKey r with
        | some k => (es k).length ≥ 2 | none => false
      let manyLines := req.headers.any fun h => h.2.length ≥ 2
      let fwd := resolvers.any fun r => resolverKey r == some .fwd
      let feat := (if manyEntries then ["entries2"] else []) ++ (if manyLines then ["lines2"] else []) ++
        (if fwd then ["fwd"] else [])
      if isChain then
        let m := chain req resolvers
        let s := if resolvers.any isCfgErr then "cfgerr" else if resolvers.isEmpty then "skip"
          else showSpec (Spec.ClientIP.chain (resolvers.map (specResolve req)))
        "M=" ++ showRes m ++ "\tS=" ++ s ++ "\tT=" ++ join (["chain", "chain-" ++ resTag m] ++ feat) ","
      else match resolvers with
        | [r] =>
          let m := resolve req r
          let s := if isCfgErr r then "cfgerr" else showSpec (specResolve req r)
          "M=" ++ showRes m ++ "\tS=" ++ s ++ "\tT=" ++
            join ([resolverTag r, resolverTag r ++ "-" ++ resTag m, resTag m] ++ feat) ","
        | _ => "M=bad-case\tS=skip\tT=bad"
  | _ => "M=bad-case\tS=skip\tT=bad"

end Fox.Driver.ClientIP
