import FoxModel.Util
import FoxModel.Spec.Context
/-
  FoxModel.Driver.Ctx — line-protocol handler of the `ctx` stream (property C12).

    ctx <TAB> <op>;<op>;…          op k (0-based index) carries token  t<k>z  in every observable field
      d direct            i ignored trailing slash     r redirect        n 404       m 405      o OPTIONS
      v direct through a hostname route                 h direct, the handler hijacks the connection
      l Router.Lookup     t Txn.Lookup                 L Lookup, write, Clone          W Lookup, CloneWith
      w CloneWith inside a direct handler               c Clone inside a direct handler (after writing)
      I Clone inside an ignored-trailing-slash handler  T the routing tree is replaced (new pool)
      V the hostname routes are registered (new pool; `v` / `M` before it is a bad op)
      M 405 below a hostname whose lazy walk (Allow loop) backtracks after a consumed hostname parameter
    ctx <TAB> conc:…               concurrent mix (runtime only: M=S=ok)

  The model side threads ONE recycled context (and a spare for CloneWith) through the whole sequence, dirtied by every
  handler (query cache, recorder status/size, hijacked flag, route, scope, buffers); the specification side computes
  every view from the current operation alone. Both print through `showView`.
-/
namespace Fox.Driver.Ctx
open Fox Fox.Util Fox.Model.Ctx Fox.Spec.Ctx

def tok (k : Nat) : Bytes := ascii ("t" ++ toString k ++ "z")
def statusOf (k : Nat) : Nat := 200 + k % 57
def sizeOf (k : Nat) : Nat := 1 + k % 5

def routeText : Option Nat → String
  | some 1 => "/u/{id}" | some 2 => "/ig/{id}" | some 3 => "/rd/{id}" | some 4 => "{sub}.example.com/hv/{id}"
  | some 5 => "{sub}.{dom}.com/hv/{id}"
  | some n => "?" ++ toString n
  | none => "-"

def showParams (ps : Binds) : String :=
  if ps.isEmpty then "-" else join (ps.map fun (k, v) => showBytes k ++ "=" ++ showBytes v) "&"

def showHdr : HdrSrc → String
  | .none => "none" | .http i => "http" ++ toString i | .fox i => "fox" ++ toString i | .copyOf s => "copy(" ++ showHdr s ++ ")"

/-- scope, route pattern, params, request whose query QueryParam shows, status.size.written -/
def showView (v : View) : String :=
  toString v.scope ++ "," ++ routeText v.route ++ "," ++ showParams v.params ++ "," ++
    (match v.query with | some q => showBytes (tok q) | none => "-") ++ "," ++
    toString v.w.status ++ "." ++ toString v.w.size ++ "." ++ (if v.w.written then "1" else "0") ++
    (if v.w.hijacked then ".hijacked" else "") ++ (if v.w.discard then ".discard" else "")

def idKey : Bytes := ascii "id"
def subKey : Bytes := ascii "sub"

def shapeOf (op : Char) (k : Nat) : Option (Branch × LookupOut × List LookupOut) :=
  let t := tok k
  match op with
  | 'd' | 'h' | 'w' | 'c' => some (.direct, { found := some 1, params := [(idKey, t)] }, [])
  | 'i' | 'I' => some (.ignoredSlash, { found := some 2, tsr := true, params := [(idKey, t)], skip := [1] }, [])
  | 'r' => some (.redirect, { found := some 3, tsr := true, params := [(idKey, t)] }, [])
  | 'n' => some (.noRoute, {}, [{}, {}])
  | 'm' => some (.noMethod, {}, [{ found := some 1, skip := [2] }, {}])
  | 'o' => some (.options, {}, [{ found := some 1 }, {}])
  | 'M' => some (.noMethod, {}, [{ found := some 5, viaHost := true }, {}])
  | 'v' => some (.direct, { found := some 4, viaHost := true, params := [(subKey, ascii "h" ++ t), (idKey, t)] }, [])
  | _ => none

structure St where
  H : Heap := ⟨fun _ => []⟩
  pool : List Ctx := []
  hostReg : Bool := false       -- the hostname route is registered (op V)
  nextBuf : Nat := 1
  written : List Nat := []      -- ext writers that have been written to
  mOut : List String := []
  sOut : List String := []

def envOf (written : List Nat) : Env :=
  { extStatus := fun i => if written.contains i then statusOf (i % 100000) else 0
    extSize := fun i => if written.contains i then sizeOf (i % 100000) else 0
    extWritten := fun i => written.contains i }

/-- `pool.Get()`: a recycled context if there is one, else `allocateContext` with deliberately dirty buffers -/
def St.get (st : St) : Ctx × St :=
  match st.pool with
  | c :: rest => (c, { st with pool := rest })
  | [] =>
    let c := allocate st.nextBuf (st.nextBuf + 1)
    (c, { st with nextBuf := st.nextBuf + 2 })

def St.put (st : St) (c : Ctx) : St := { st with pool := c :: st.pool }

def St.emit (st : St) (m s : String) : St := { st with mOut := m :: st.mOut, sOut := s :: st.sOut }

/-- what a handler that looked at everything and answered leaves behind in the context -/
def dirty (k : Nat) (hijack : Bool) (own : Bool) (c : Ctx) : Ctx :=
  { c with cachedQuery := some k,
           rcd := if own then { c.rcd with status := statusOf k, size := (sizeOf k : Int), hijacked := hijack || c.rcd.hijacked } else c.rcd }

def step (st : St) (op : Char) (k : Nat) : St :=
  let env0 := envOf st.written
  if op == 'T' then ({ st with pool := [] }).emit "-" "-"
  else if op == 'V' then ({ st with pool := if st.hostReg then st.pool else [], hostReg := true }).emit "-" "-"
  else if (op == 'v' || op == 'M') && !st.hostReg then st.emit "bad-op" "bad-op"
  else if op == 'l' || op == 't' || op == 'L' || op == 'W' then
    -- manual lookup of the direct shape with a caller supplied writer (id k)
    let o : LookupOut := { found := some 1, params := [(idKey, tok k)] }
    let (c0, st) := st.get
    let (H1, c1) := lookupEntry k k o st.H c0
    let vM := view env0 H1 c1
    let vS := lookupView env0 k k o
    -- the route handler runs on it (writes through the external writer, fills the query cache)
    let written := k :: st.written
    let env1 := envOf written
    let c2 := dirty k false false c1
    if op == 'L' then
      let fresh := st.nextBuf
      let (H2, cl) := clone env1 fresh 0 c2 H1
      let m := showView vM ++ "~" ++ showView (view env1 H2 cl)
      let s := showView vS ++ "~" ++ showView (cloneView (lookupView env1 k k o))
      ({ st with H := H2, nextBuf := fresh + 1, written := written }.put c2).emit m s
    else if op == 'W' then
      let (cp0, st) := st.get
      let (H2, cp) := cloneWith (k + 100000) (k + 100000) c2 H1 cp0
      let m := showView vM ++ "~" ++ showView (view env1 H2 cp)
      let s := showView vS ++ "~" ++ showView (cloneWithView env1 (k + 100000) (k + 100000) { lookupView env1 k k o with query := some k })
      (({ st with H := H2, written := written }.put (dirty (k + 100000) false false cp)).put c2).emit m s
    else
      ({ st with H := H1, written := written }.put c2).emit (showView vM) (showView vS)
  else
    match shapeOf op k with
    | none => st.emit "bad-op" "bad-op"
    | some (b, o, lz) =>
      let (c0, st) := st.get
      let (H1, c1) := serve b k k o lz st.H c0
      let vM := view env0 H1 c1
      let vS := serveView b k k o
      let c2 := dirty k (op == 'h') true c1
      -- the specification of what the handler has left in its own recorder when it clones
      let vS2 : View := { vS with w := { vS.w with status := statusOf k, size := sizeOf k, written := true } }
      if op == 'w' then
        let (cp0, st) := st.get
        let (H2, cp) := cloneWith (k + 100000) (k + 100000) c2 H1 cp0
        let m := showView vM ++ "~" ++ showView (view env0 H2 cp)
        let s := showView vS ++ "~" ++ showView (cloneWithView env0 (k + 100000) (k + 100000) vS2)
        (({ st with H := H2 }.put (dirty (k + 100000) false false cp)).put c2).emit m s
      else if op == 'c' || op == 'I' then
        let fresh := st.nextBuf
        let (H2, cl) := clone env0 fresh 0 c2 H1
        let m := showView vM ++ "~" ++ showView (view env0 H2 cl)
        let s := showView vS ++ "~" ++ showView (cloneView vS2)
        ({ st with H := H2, nextBuf := fresh + 1 }.put c2).emit m s
      else
        ({ st with H := H1 }.put c2).emit (showView vM) (showView vS)

def handle (fields : List String) : String :=
  match fields with
  | [_, body] =>
    if body.startsWith "conc" then "M=ok\tS=ok\tT=concurrent\tN=1" else
    let ops := (body.splitOn ";").filter (· ≠ "")
    let (st, _) := ops.foldl (fun (acc : St × Nat) op => (step acc.1 (op.toList.headD '?') acc.2, acc.2 + 1)) ({}, 0)
    let kinds := ops.foldl (fun (acc : List String) op => if acc.contains op then acc else acc ++ [op]) []
    let reqs := (ops.filter (fun o => o ≠ "T" && o ≠ "V")).length
    "M=" ++ join st.mOut.reverse "|" ++ "\tS=" ++ join st.sOut.reverse "|" ++ "\tT=" ++ join kinds "," ++
      "\tN=" ++ (if reqs ≥ 2 then "1" else "0")
  | _ => "M=bad-case"

end Fox.Driver.Ctx
