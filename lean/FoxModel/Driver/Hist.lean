import FoxModel.Driver.Ops
import FoxModel.Spec.Txn
import FoxModel.Spec.History
/-
  FoxModel.Driver.Hist — line-protocol handlers of the streams `chist` and `conc` (property C05).

    chist \t <call>;<call>;…        a recorded concurrent history, decided by the Lean `checkLinFast` (= `checkLin`, exact: Fox.C05.checker_as_run_exact)
      call = <obj>,<tid>,<call stamp>,<ret stamp>,<kind>,<ver>,<payload>,<result>
        kind W  committed write transaction   payload = script  op/op/…   (H:m:hexpat:hid  U:m:hexpat:hid  D:m:hexpat)
                                              result  = per-operation results  ok | exist | notfound | conflict | ok:<hid>
        kind A  aborted write transaction     payload = script, result = v<seen version>!<results>   (an observation)
        kind R  read                          payload = has:m:hexpat | hasb:m:hexpat | lk:m:hexhost:hexpath | srv:m:hexhost:hexpath | all
                                              result  = <hid>|none | present|none | <hid>:<tsr>|none | <hid>|none | v<version>!m:hexpat:hid+… (sorted)
      `obj` names the sequential object the call belongs to (the transactional store, or the private route of one
      helper-writer whose successful single operations are versioned by its own program order); every object is
      checked on its own.
    → M=accepted | M=rejected:<obj>:<reason>      S=accepted

    conc \t <config>               the stress configuration executed by the harness (which pipes the history it records
                                    through this driver's `chist` stream); the model's prediction is `accepted`.
-/
namespace Fox.Driver.Hist
open Fox Fox.Util Fox.Spec Fox.Spec.History
open Fox.Driver.Ops (mkRoute sortStrings)

abbrev W := List Spec.Txn.WOp

inductive Q where
  | has (m : Bytes) (pat : List Tok)
  | hasb (m : Bytes) (pat : List Tok)
  | srv (m host path : Bytes)
  | lk (m host path : Bytes)
  | all
  | obs (script : W)

def showOutcome (del : Bool) : Spec.Outcome → String
  | .ok r => if del then "ok:" ++ toString r.hid else "ok"
  | .exist => "exist"
  | .notFound => "notfound"
  | .conflict _ => "conflict"

def runScript (st : Store) : W → Store × List String
  | [] => (st, [])
  | w :: ws =>
    let (st1, o) := Spec.Txn.applyW st w
    let del := match w with | .delete _ _ => true | _ => false
    let (st2, rs) := runScript st1 ws
    (st2, showOutcome del o :: rs)

def showEntry (e : Bytes × Route) : String := showBytes e.1 ++ ":" ++ toHex e.2.text ++ ":" ++ toString e.2.hid

/-- the sequential specification the recorded histories are checked against -/
def sem : Sem Store W Q where
  init := []
  wr st ws := let (st', rs) := runScript st ws; (st', ⟨none, join rs "/"⟩)
  rd v st
    | .has m p => ⟨none, match st.get m p with | some r => toString r.hid | none => "none"⟩
    | .hasb m p => ⟨none, if (st.get m p).isSome then "present" else "none"⟩
    | .srv m h p => ⟨none, match Spec.route (st.routesOf m) h p with
        | some f => if f.tsr then "none" else toString f.route.hid
        | none => "none"⟩
    | .lk m h p => ⟨none, match Spec.route (st.routesOf m) h p with
        | some f => toString f.route.hid ++ ":" ++ (if f.tsr then "1" else "0")
        | none => "none"⟩
    | .all => ⟨some v, join (sortStrings (st.map showEntry)) "+"⟩
    | .obs ws => ⟨some v, join (runScript st ws).2 "/"⟩

def parseWOp (s : String) : Option Spec.Txn.WOp :=
  match s.splitOn ":" with
  | ["H", m, pat, hid] => (mkRoute (fromHex! pat) 0 hid.toNat!).map (.handle (ascii m))
  | ["U", m, pat, hid] => (mkRoute (fromHex! pat) 0 hid.toNat!).map (.update (ascii m))
  | ["D", m, pat] => (tokenize (fromHex! pat)).map (.delete (ascii m))
  | _ => none

def parseScript (s : String) : W := (splitNonEmpty s "/").filterMap parseWOp

def parseRes (s : String) : History.Res :=
  if s.startsWith "v" then
    match s.splitOn "!" with
    | v :: rest => ⟨some (v.drop 1).toNat!, "!".intercalate rest⟩
    | _ => ⟨none, s⟩
  else ⟨none, s⟩

def parseCall (s : String) : Option (String × Call W Q) :=
  match s.splitOn "," with
  | [obj, tid, c, r, kind, ver, payload, res] =>
    let op : Option (Op W Q) :=
      if kind == "W" then some (.w (parseScript payload))
      else if kind == "A" then some (.r (.obs (parseScript payload)))
      else match payload.splitOn ":" with
        | ["has", m, pat] => (tokenize (fromHex! pat)).map fun t => .r (.has (ascii m) t)
        | ["hasb", m, pat] => (tokenize (fromHex! pat)).map fun t => .r (.hasb (ascii m) t)
        | ["srv", m, h, p] => some (.r (.srv (ascii m) (fromHex! h) (fromHex! p)))
        | ["lk", m, h, p] => some (.r (.lk (ascii m) (fromHex! h) (fromHex! p)))
        | ["all"] => some (.r .all)
        | _ => none
    op.map fun o => (obj, ⟨tid.toNat!, c.toNat!, r.toNat!, o, ver.toNat!, parseRes res⟩)
  | _ => none

def objects (cs : List (String × Call W Q)) : List String := (cs.map (·.1)).eraseDups

/-- statistics for the coverage report: overlapping writers, reads that overlap a commit -/
def overlapStats (h : List (Call W Q)) : Bool × Bool :=
  let ws := sortedWrites h
  let ow := (ws.zip ws.tail).any fun (a, b) => decide (b.call < a.ret)
  let rc := h.any fun c => !c.isW && ws.any fun w => decide (w.call < c.ret) && decide (c.call < w.ret)
  (ow, rc)

def handleHist (fields : List String) : String :=
  match fields with
  | [_, body] =>
    let parts := splitNonEmpty body ";"
    let cs := parts.filterMap parseCall
    if cs.length != parts.length then "M=rejected:-:unparsable call in the history\tS=accepted" else
    let objs := objects cs
    let bad := objs.filterMap fun o =>
      let h := (cs.filter (·.1 == o)).map (·.2)
      if !wellStamped h then some (o ++ ":malformed history: a call returns before it is called")
      else if checkLinFast sem h then none else some (o ++ ":" ++ explainLin sem h)
    let (ow, rc) := overlapStats ((cs.filter (·.1 == objs.headD "")).map (·.2))
    let tags := (if ow then ["chist-overlapping-writers"] else []) ++ (if rc then ["chist-read-overlaps-commit"] else [])
    (match bad with
     | [] => "M=accepted"
     | b :: _ => "M=rejected:" ++ b) ++ "\tS=accepted\tT=" ++ join tags "," ++ "\tN=" ++ (if ow && rc then "1" else "0")
  | _ => "M=bad-case"

def handleConc (fields : List String) : String :=
  match fields with
  | [_, cfg] => "M=accepted\tS=accepted\tT=conc-" ++ (cfg.replace ";" "-").replace "=" "" ++ "\tN=1"
  | _ => "M=bad-case"

end Fox.Driver.Hist
