import FoxModel.Util
import FoxModel.Model.LRU
import FoxModel.Model.LRURing
/-
  FoxModel.Driver.LRU — line-protocol handler of stream `lru` (property C03): internal/simplelru driven through the
  hook `VerifLRURun`.

      lru \t <cap> \t <op>;<op>;…        ops as in the hook: A<k>:<v> G<k> C<k> K<k> R<k> O P Y L Z<n>

  M = the answers of the recency-list model; S = per operation the demand of property C03 on a "present" answer
  (`sound`: the key named was added since the cache was created or purged - a theorem of the model, so S is constant).
-/
namespace Fox.Driver.LRU
open Fox Fox.Util Fox.LRU

def parseOp (s : String) : Option Op :=
  match s.toList with
  | 'A' :: rest =>
    (match (String.ofList rest).splitOn ":" with
     | [k, v] => some (.add k.toNat! v.toNat!)
     | _ => none)
  | 'G' :: rest => some (.get (String.ofList rest).toNat!)
  | 'C' :: rest => some (.contains (String.ofList rest).toNat!)
  | 'K' :: rest => some (.peek (String.ofList rest).toNat!)
  | 'R' :: rest => some (.remove (String.ofList rest).toNat!)
  | ['O'] => some .removeOldest
  | ['P'] => some .purge
  | ['Y'] => some .keys
  | ['L'] => some .len
  | 'Z' :: rest => some (.resize (String.ofList rest).toNat!)
  | _ => none

def showOut : Out → String
  | .bool b => if b then "1" else "0"
  | .val (some v) => toString v
  | .val none => "-"
  | .pair (some (k, v)) => toString k ++ ":" ++ toString v
  | .pair none => "-"
  | .unit => "."
  | .list [] => "-"
  | .list l => join (l.map toString) "+"
  | .nat n => toString n

def opTag : Op → Out → String
  | .add _ _, .bool true => "add-evicts"
  | .add _ _, _ => "add"
  | .get _, .val (some _) => "get-hit"
  | .get _, _ => "get-miss"
  | .contains _, _ => "contains" | .peek _, _ => "peek"
  | .remove _, .bool true => "remove-hit" | .remove _, _ => "remove-miss"
  | .removeOldest, _ => "remove-oldest" | .purge, _ => "purge" | .keys, _ => "keys" | .len, _ => "len"
  | .resize _, _ => "resize"

def handle (fields : List String) : String :=
  match fields with
  | [_, capS, opsS] =>
    let ops := (splitNonEmpty opsS ";").map parseOp
    if ops.any Option.isNone then "M=bad-case" else
    let ops := ops.filterMap id
    let (_, outs) := run (empty capS.toNat!) ops
    let tags := (ops.zip outs).foldl (fun ts (o, r) => let t := opTag o r; if ts.contains t then ts else ts ++ [t]) []
    -- short Add / Get sequences are also run on the pointer-ring model of list.go (theorem: same answers, never a nil)
    let tops := ops.filterMap fun o => match o with
      | .add k v => some (Ring.TOp.add k v) | .get k => some (Ring.TOp.get k) | _ => none
    let tags := if tops.length == ops.length && ops.length ≤ 300 then
        (match Ring.run (Ring.new capS.toNat!) tops with
         | some (_, ro) => if ro == outs then tags ++ ["ring=list"] else tags ++ ["ring-vs-list"]
         | none => tags ++ ["ring-vs-list"])
      else tags
    "M=" ++ join (outs.map showOut) ";" ++ "\tS=" ++ join (outs.map fun _ => "sound") ";" ++ "\tT=" ++ join tags ","
  | _ => "M=bad-case"

end Fox.Driver.LRU
