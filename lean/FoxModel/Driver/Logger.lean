import FoxModel.Util
import FoxModel.Spec.Logger
import FoxModel.Model.Logger
/-
  FoxModel.Driver.Logger — line-protocol handler of the stream `logger` (property C20).
-/
namespace Fox.Driver.Logger
open Fox Fox.Util Fox.Spec.Logger Fox.Model.Logger

def parseOp (s : String) : Option Op :=
  if s == "b" then some .body
  else if s == "p" then some .panic
  else if s == "f" then some .flush
  else if s.startsWith "h" then (s.drop 1).toString.toInt?.map Op.header
  else if s.startsWith "L" then (fromHex (s.drop 1).toString).map Op.setLoc
  else none

/-- `q<hex path>`: the handler replaces the request (Context.SetRequest) by one with another URL path; the Logger reads the
    request from the context after the handler, so this only changes the context the Logger sees (`Ctx.path`) -/
def rewrittenPath (beh : String) (path : Bytes) : Bytes :=
  ((beh.splitOn "+").filter (·.startsWith "q")).foldl (fun p s => (fromHex (s.drop 1).toString).getD p) path

def parseBeh (s : String) : List Op :=
  if s == "-" || s == "d" || s == "" then [] else (s.splitOn "+").filterMap parseOp

/-- fox's own handlers as handler bodies (fox.go: DefaultNotFoundHandler, DefaultMethodNotAllowedHandler,
    DefaultOptionsHandler, defaultRedirectTrailingSlashHandler + localRedirect) -/
def defaultOps (kind method : String) : List Op :=
  let redirect (loc : String) : List Op :=
    [.setLoc (ascii loc), .header (if method == "GET" then 301 else 308)] ++ (if method == "GET" then [.body] else [])
  match kind with
  | "noroute" => [.header 404, .body]
  | "nomethod" => [.header 405, .body]
  | "options" => [.header 200]
  | "redir" => redirect "t/"
  | "redir2" => redirect "../u"
  | _ => []

def resolverOf (cfg : String) (inherit : IPResult) : IPResult :=
  match cfg with
  | "ok" => .ok (ascii "203.0.113.7")
  | "ok2" => .ok (ascii "fe80::1%eth0")
  | "fail" => .errOther
  | "wrapno" => .errWrapsNoResolver
  | "inherit" => inherit
  | _ => .errNoResolver          -- none / nil

def showLoc : Option Bytes → String
  | none => "-"
  | some l => toHex l

def showRecord (r : Record) : String :=
  join [r.level.name, toHex r.msg, toString r.status, r.method, toHex r.host, toHex r.path, showLoc r.location] ":"

def showRecords (rs : List Record) (pan : Bool) (extra : Option (String × String)) : String :=
  let rec_ := match rs.getLast? with
    | some r => showRecord r
    | none => "-:-:-:-:-:-:-"
  let mid := match extra with
    | some (keys, trace) => ":" ++ keys ++ ":" ++ trace
    | none => ""
  toString rs.length ++ ":" ++ rec_ ++ mid ++ ":" ++ (if pan then "1" else "0")

def keysOf (rs : List Record) : String :=
  match rs.getLast? with
  | some r => "status.method.host.path.latency" ++ (if r.location.isSome then ".location" else "")
  | none => "-"

structure ItemOut where
  m : String
  s : String
  tags : List String

def handleItem (gres rres : String) (item : String) : ItemOut :=
  match item.splitOn "," with
  | [kind, method, hostH, pathH, _rawH, _remoteH, ripH, beh] =>
    let router := resolverOf gres .errNoResolver
    let c : Ctx := {
      routeMatched := kind == "route",
      routeResolver := resolverOf rres router,
      routerResolver := router,
      remoteIP := fromHex! ripH, method := method, host := fromHex! hostH,
      path := if beh == "d" then fromHex! pathH else rewrittenPath beh (fromHex! pathH) }
    let ops := if beh == "d" then defaultOps kind method else parseBeh beh
    let (s', recs) := logger (fun s => runOps s ops) c {}
    let trace := join (s'.events ++ ["H"] ++ recs.map (fun _ => "R")) "."
    -- for a status outside 2xx-5xx the property fixes everything but the level: one record with the status actually
    -- sent, method, host, path and message; the level is printed as `*` (not compared)
    let h := happened c s'
    let spec := match expected h with
      | some rs => showRecords rs s'.panicked none
      | none =>
        "1:" ++ join ["*", toHex (message h.resolution h.remoteIP), toString h.status, h.method, toHex h.host, toHex h.path, "-"] ":" ++
          ":" ++ (if s'.panicked then "1" else "0")
    let lvlTag := match recs.getLast? with
      | some r => ["lvl-" ++ r.level.name] ++ (if r.location.isSome then ["location"] else [])
      | none => ["no-record"]
    let resTag := match clientIP c with
      | .ok _ => "msg-resolver"
      | .errOther => "msg-unknown"
      | _ => "msg-remote"
    { m := showRecords recs s'.panicked (some (keysOf recs, trace)), s := spec,
      tags := ["kind-" ++ kind, resTag] ++ lvlTag ++
        (if s'.panicked then ["panic"] else []) ++ (if spec == "skip" then ["unspecified-status"] else []) ++
        (if kind == "route" && rres != "inherit" then ["route-override"] else []) ++
        (if kind != "route" && rres != "inherit" then ["override-ignored"] else []) }
  | _ => { m := "bad-item", s := "bad-item", tags := [] }

def handle (fields : List String) : String :=
  match fields with
  | [_, items, gres, rres, _cust] =>
    let outs := (splitNonEmpty items ";").map (handleItem gres rres)
    "M=" ++ join (outs.map (·.m)) "|" ++ "\tS=" ++ join (outs.map (·.s)) "|" ++
      "\tT=" ++ join ((outs.flatMap (·.tags)).eraseDups) "," ++ "\tN=1"
  | _ => "M=bad-case"

end Fox.Driver.Logger
