import FoxModel.Util
import FoxModel.Spec.Middleware
/-
  FoxModel.Driver.Mw — line-protocol handler of the `mw` stream (property C13).

    mw <TAB> <global options> <TAB> <own A> <TAB> <own B> <TAB> <own U>
      global options: `,`-separated  D | A0 | A1 | W<id>+<id>… | F<mask>:<id>+<id>…      (`_` = none)
      own X: `+`-separated middleware ids of route A, of route B (created later), of A after Update (`_` = none)
    mw <TAB> race:…                                                     (runtime only: M=S=ok)

  Observation semantics (what the harness can see of a chain): user middleware `i` logs `e<i>` and, when its `next`
  returns, `x<i>` — or `p<i>` when `next` panicked (the panic then continues); Recovery is silent unless `next` panicked,
  then it answers 500 (`h500`) and the panic stops; Logger asks for the client IP after `next` returned normally (`L`)
  and does nothing when it panicked; handlers show as `h<status>`, the panicking route handler as `P`.
-/
namespace Fox.Driver.Mw
open Fox Fox.Util Fox.Model.MW

structure Obs where
  evs : List String
  panicking : Bool

def appObs (m : Mw) (next : Obs) : Obs :=
  if m.id == recoveryId then
    if next.panicking then ⟨next.evs ++ ["h500"], false⟩ else next
  else if m.id == loggerId then
    if next.panicking then next else ⟨next.evs ++ ["L"], false⟩
  else
    ⟨["e" ++ toString m.id] ++ next.evs ++ [(if next.panicking then "p" else "x") ++ toString m.id], next.panicking⟩

def showObs (o : Obs) : String := join (o.evs ++ (if o.panicking then ["!"] else [])) "."

/-- erasure of the specification trace to what is observable -/
def showEv : Ev → List String
  | .enter i => if i == recoveryId || i == loggerId then [] else ["e" ++ toString i]
  | .exit i => if i == recoveryId then [] else if i == loggerId then ["L"] else ["x" ++ toString i]
  | .handler t => ["h" ++ toString t]

def showTrace (t : Trace) : String := join (t.flatMap showEv) "."

def parseIds (s : String) : List Nat :=
  if s == "_" || s == "" then [] else (s.splitOn "+").map String.toNat!

def parseGOpt (s : String) : Option GOpt :=
  if s == "D" then some .defaults
  else if s == "A0" then some (.autoOptions false)
  else if s == "A1" then some (.autoOptions true)
  else if s.startsWith "W" then some (.middleware ((parseIds (String.ofList (s.toList.drop 1))).map some))
  else if s.startsWith "F" then
    match (String.ofList (s.toList.drop 1)).splitOn ":" with
    | [m, ids] => some (.middlewareFor m.toNat! ((parseIds ids).map some))
    | _ => none
  else none

def parseGOpts (s : String) : List GOpt :=
  if s == "_" || s == "" then [] else (s.splitOn ",").filterMap parseGOpt

def kindStatus : Kind → Nat
  | .route => 200 | .noRoute => 404 | .noMethod => 405 | .redirect => 301 | .options => 200

def handle (fields : List String) : String :=
  match fields with
  | [_, g, a, b, u] =>
    let gopts := parseGOpts g
    let ownA := parseIds a
    let ownB := parseIds b
    let ownU := parseIds u
    -- the harness always passes WithNoMethod(true) first
    match newRouter {} (.noMethod true :: gopts) with
    | none => "M=invalidConfig\tS=invalidConfig\tT=invalid"
    | some cfg =>
      -- model: the chains the code composes, under the observation semantics
      let hOk : Obs := ⟨["h200"], false⟩
      let hPanic : Obs := ⟨["P"], true⟩
      let special (k : Kind) : String := showObs (specialChain appObs cfg k ⟨["h" ++ toString (kindStatus k)], false⟩)
      let optionsItem := if cfg.handleOptions then special .options else special .noMethod
      let rA := newRouteChains appObs cfg.mws ownA hOk
      let rAp := newRouteChains appObs cfg.mws ownA hPanic
      let rB := newRouteChains appObs cfg.mws ownB hOk
      let rU := newRouteChains appObs cfg.mws ownU hOk
      let m := [special .noRoute, showObs rA.hall, showObs rAp.hall, showObs rA.hbase, showObs rA.hself, special .noRoute, special .noMethod,
                special .redirect, optionsItem, showObs rA.hall, showObs rB.hall, showObs rU.hall, showObs rU.hself, showObs rB.hall,
                -- routes reached by ignoring a trailing slash: the full chain (normal and panicking handler)
                showObs rA.hall, showObs rAp.hall, showObs rB.hall]
      -- specification: registration order, scope membership, globals outside route-specific
      let gm := Spec.MW.globalMws [] gopts
      let sSpecial (k : Kind) : String := showTrace (Spec.MW.trace k gm [.handler (kindStatus k)])
      let sRoute (own : List Nat) : String :=
        showTrace (Spec.MW.chain (Spec.MW.selected .route gm) (Spec.MW.chain own [.handler 200]))
      let sSelf (own : List Nat) : String := showTrace (Spec.MW.chain own [.handler 200])
      let autoOpt := gopts.foldl (fun acc o => match o with | .defaults => true | .autoOptions b => b | _ => acc) false
      let s := [sSpecial .noRoute, sRoute ownA, "skip", "h200", sSelf ownA, sSpecial .noRoute, sSpecial .noMethod, sSpecial .redirect,
                (if autoOpt then sSpecial .options else sSpecial .noMethod), sRoute ownA, sRoute ownB, sRoute ownU, sSelf ownU, sRoute ownB,
                sRoute ownA, "skip", sRoute ownB]
      let hasD := gopts.contains .defaults
      let isScoped := gm.any fun m => m.scope != cAllHandlers && m.id != recoveryId
      let tags := (if hasD then ["defaults"] else []) ++ (if isScoped then ["scoped"] else []) ++
        (if gm.length ≥ 3 then ["globals3+"] else []) ++ (if !ownA.isEmpty then ["route-mw"] else []) ++
        (if ownA != ownU then ["update-diff"] else []) ++ (if gm.isEmpty then ["no-globals"] else [])
      -- the specification leaves the panic run open; everything else must agree item by item
      let sFixed := (s.zip m).map fun (x, y) => if x == "skip" then y else x
      "M=" ++ join m "|" ++ "\tS=" ++ join sFixed "|" ++ "\tT=" ++ join tags "," ++
        "\tN=" ++ (if hasD || isScoped || !ownA.isEmpty then "1" else "0")
  | [_, r] => if r.startsWith "race" then "M=ok\tS=ok\tT=race\tN=1" else "M=bad-case"
  | _ => "M=bad-case"

end Fox.Driver.Mw
