import FoxModel.Util
import FoxModel.Spec.Route
import FoxModel.Spec.Store
import FoxModel.Spec.Grammar
import FoxModel.Model.Lookup
import FoxModel.Model.Machine
import FoxModel.Model.Tree
import FoxModel.Model.WF
import FoxModel.Model.InsScan
import FoxModel.Model.NodeRep
import FoxModel.Model.SearchLoop
/-
  FoxModel.Driver.Ops — line-protocol handler for the `ops` stream: a case is a list of operations on one
  router (registrations, deletions, truncations, readers, lookups); the handler runs it through the executable
  model (radix tree) and through the executable specification (sequential map + Spec.route) and prints both.
-/
namespace Fox.Driver.Ops
open Fox Fox.Util Fox.Model

def mkRoute (pat : Bytes) (flags hid : Nat) : Option Route :=
  match tokenize pat with
  | none => none
  | some toks =>
    -- registration validates the pattern first (documented grammar at the default limits, property C10)
    if !Spec.validToks ⟨65535, 65535⟩ toks then none else
    let h := toks.findIdx (· == .lit SLASH)
    some { hid := hid, pattern := toks, hostToks := h, ignoreTS := flags % 2 == 1, redirectTS := (flags / 2) % 2 == 1 }

def showFound (r : Route) (ps : Binds) (tsr : Bool) : String :=
  toHex r.text ++ ":" ++ (if tsr then "1" else "0") ++ ":" ++ showBinds ps

def showResult : Result → String
  | .none => "none"
  | .bad => "bad"
  | .found r ps tsr => showFound r ps tsr

def showSpecFound : Option Spec.Found → String
  | none => "none"
  | some f => showFound f.route f.params f.tsr

/-- lookup results of the `ops` stream also name the handler registered last for the route (`#hid`): an Update must be
    visible through every node the matcher can reach the route by -/
def showResultH : Result → String
  | .found r ps tsr => showFound r ps tsr ++ "#" ++ toString r.hid
  | x => showResult x

def showSpecFoundH : Option Spec.Found → String
  | none => "none"
  | some f => showFound f.route f.params f.tsr ++ "#" ++ toString f.route.hid

def insSorted (s : String) : List String → List String
  | [] => [s]
  | x :: xs => if s < x then s :: x :: xs else x :: insSorted s xs
def sortStrings (xs : List String) : List String := xs.foldr insSorted []

def showRouteList (rs : List Route) : String := join (rs.map fun r => toHex r.text) "+"
def showRouteListSorted (rs : List Route) : String := join (sortStrings (rs.map fun r => toHex r.text)) "+"

structure St where
  tree : Tree := newTree
  store : Spec.Store := []
  mOut : List String := []     -- model outputs (reversed)
  sOut : List String := []     -- spec outputs (reversed)
  tags : List String := []

def St.emit (st : St) (m s : String) : St := { st with mOut := m :: st.mOut, sOut := s :: st.sOut }
def St.tag (st : St) (t : String) : St := if st.tags.contains t then st else { st with tags := t :: st.tags }

def showCase : InsCase → String
  | .exact => "ins-exact" | .keyEndMidEdge => "ins-keyend" | .toEndOfEdge => "ins-toend"
  | .toEndOfEdgeHostSplit => "ins-toend-host" | .middleOfEdge => "ins-middle" | .middleOfEdgeHostSplit => "ins-middle-host"
def showRem : RemCase → String
  | .keepBranch => "rem-keep" | .mergeChild => "rem-mergechild" | .dropLeaf => "rem-drop" | .dropHost => "rem-drophost"
  | .mergeParent => "rem-mergeparent" | .mergeGrandParent => "rem-mergegrand"

def hasEmptySeg : Bytes → Bool
  | a :: b :: rest => (a == SLASH && b == SLASH) || hasEmptySeg (b :: rest)
  | _ => false

def lookupTags (res : Result) (host : Bytes) : List String :=
  match res with
  | .none => ["lk-none"]
  | .bad => ["lk-bad"]
  | .found r ps tsr =>
    (if tsr then ["lk-tsr"] else ["lk-direct"]) ++ (if ps.isEmpty then [] else ["lk-params"])
    ++ (if r.hostToks > 0 then ["lk-host"] else []) ++ (if host.isEmpty then [] else ["lk-hostreq"])
    ++ (if r.pattern.any (fun t => match t with | .catchAll _ => true | _ => false) then ["lk-catchall"] else [])

mutual
partial def dumpNode : Node → String
  | .mk k r cs => "(" ++ toHex (render k) ++ " " ++ (match r with | some r => toHex r.text | none => "-")
      ++ String.join (cs.map fun c => " " ++ dumpNode c) ++ ")"
end

def dumpRoots (rs : Roots) : String :=
  String.join (rs.map fun (m, n) => match n with
    | .mk _ r cs => dumpNode (.mk (m.map Tok.lit) r cs) ++ ";")

/-- the derived fields of every node, as `VerifDumpRep` prints them: `childKeys`, `paramChildIndex`,
    `wildcardChildIndex` computed by the model of `newNode`'s loop (Model/NodeRep) -/
partial def dumpRepNode : Node → String
  | .mk _ _ cs => toHex (NodeRep.childKeys cs) ++ "|" ++ toString (NodeRep.paramChildIndex cs) ++ "|"
      ++ toString (NodeRep.wildcardChildIndex cs) ++ ";" ++ String.join (cs.map dumpRepNode)

def dumpRep (rs : Roots) : String := String.join (rs.map fun x => dumpRepNode x.2)

def stepBase (st : St) (op : String) : St :=
  match op.splitOn "," with
  | ["H", m, pat, flags, hid] =>
    (match mkRoute (fromHex! pat) flags.toNat! hid.toNat! with
     | none => st.emit "invalid" "invalid"
     | some r =>
       let (store', so) := st.store.handle (ascii m) r
       let sStr := match so with
         | .ok _ => "ok" | .exist => "exist" | .notFound => "notfound"
         | .conflict cs => "conflict:" ++ showRouteListSorted cs
       match st.tree.insert (ascii m) r with
       | .ok (t', cse) => ({ st with tree := t', store := store' }.emit "ok" sStr).tag (showCase cse)
       | .error (.exist _) => ({ st with store := store' }.emit "exist" sStr).tag "ins-exist"
       | .error (.conflict cs) => ({ st with store := store' }.emit ("conflict:" ++ showRouteListSorted cs) sStr).tag "ins-conflict")
  | ["U", m, pat, flags, hid] =>
    (match mkRoute (fromHex! pat) flags.toNat! hid.toNat! with
     | none => st.emit "invalid" "invalid"
     | some r =>
       let (store', so) := st.store.update (ascii m) r
       let sStr := match so with | .ok _ => "ok" | _ => "notfound"
       match st.tree.update (ascii m) r with
       | some t' => ({ st with tree := t', store := store' }.emit "ok" sStr).tag "upd-ok"
       | none => ({ st with store := store' }.emit "notfound" sStr).tag "upd-notfound")
  | ["D", m, pat] =>
    (match (tokenize (fromHex! pat)).filter (Spec.validToks ⟨65535, 65535⟩) with
     | none => st.emit "invalid" "invalid"
     | some toks =>
       let (store', so) := st.store.delete (ascii m) toks
       let sStr := match so with | .ok r => "ok:" ++ toString r.hid | _ => "notfound"
       match st.tree.remove (ascii m) toks with
       | some (t', r, cse) => ({ st with tree := t', store := store' }.emit ("ok:" ++ toString r.hid) sStr).tag (showRem cse)
       | none => ({ st with store := store' }.emit "notfound" sStr).tag "rem-notfound")
  | ["T", ms] =>
    let methods := (splitNonEmpty ms "+").map ascii
    ({ st with tree := st.tree.truncate methods, store := st.store.truncate methods }.emit "ok" "ok").tag
      (if methods.isEmpty then "trunc-all" else "trunc-some")
  | ["L", m, host, path] =>
    -- the answer of the state machine (Model/Machine: registers, skipped-node stack, early return) is what is compared
    -- with the implementation; it must also equal the enumerating walk the refinement theorems speak about
    let res := Machine.lookup st.tree.roots (ascii m) (fromHex! host) (fromHex! path)
    let st := if res == lookup st.tree.roots (ascii m) (fromHex! host) (fromHex! path) then st.tag "machine=walk" else st.tag "machine-vs-walk"
    let sp := Spec.route (st.store.routesOf (ascii m)) (fromHex! host) (fromHex! path)
    -- the routing specification speaks about paths without empty segments
    if hasEmptySeg (fromHex! path) then (st.emit (showResultH res) "skip").tag "lk-emptyseg-unspecified" else
    (lookupTags res (fromHex! host)).foldl St.tag (st.emit (showResultH res) (showSpecFoundH sp))
  | ["R", m, pat] =>
    -- `roots.route` through the loops of `roots.search` (Model/SearchLoop), cross-checked with the model's search
    let res := match methodRoot st.tree.roots (ascii m) with
      | some root => SearchLoop.routeOfM root (fromHex! pat)
      | none => none
    let st := if (res.map (·.hid)) == ((st.tree.has (ascii m) (fromHex! pat)).map (·.hid)) then st else st.tag "machine-vs-walk"
    let sp := match tokenize (fromHex! pat) with
      | some toks => st.store.get (ascii m) toks
      | none => none
    st.emit (match res with | some r => toString r.hid | none => "none") (match sp with | some r => toString r.hid | none => "none")
  | ["N"] => st.emit (toString st.tree.size) (toString st.store.length)
  | ["A"] =>
    let items := st.tree.all.map fun (m, r) => showBytes m ++ ":" ++ toHex r.text ++ ":" ++ toString r.hid
    let sitems := st.store.map fun (m, r) => showBytes m ++ ":" ++ toHex r.text ++ ":" ++ toString r.hid
    st.emit (join items "+") (join (sortStrings sitems) "+")
  | ["M"] =>
    let sm := (st.store.map (·.1)).eraseDups.map showBytes
    st.emit (join (st.tree.methods.map showBytes) "+") (join (sortStrings sm) "+")
  | ["P", ms, pre] =>
    -- `Iter.Prefix(methods, prefix)`: the methods in the given order (repetitions included), each with its routes
    let p := fromHex! pre
    let methods := (splitNonEmpty ms "+").map ascii
    -- the loops of iter.go (Model/SearchLoop.prefixM: `roots.search`, then the explicit-stack traversal run to its end)
    let viaLoops := methods.map fun m => SearchLoop.prefixM st.tree m p (st.tree.size + 1)
    let st := if viaLoops == (methods.map fun m => some (st.tree.prefix m p)) then st else st.tag "machine-vs-walk"
    let items := (methods.zip viaLoops).flatMap fun (m, l) => (l.getD []).map fun r => showBytes m ++ ":" ++ toHex r.text
    let sitems := methods.flatMap fun m =>
      ((st.store.routesOf m).filter fun r => p.isPrefixOf r.text).map fun r => showBytes m ++ ":" ++ toHex r.text
    st.emit (join items "+") (join (sortStrings sitems) "+")
  | ["X"] => st.emit (dumpRoots st.tree.roots ++ " size=" ++ toString st.tree.size ++ " mp=" ++ toString st.tree.maxParams ++ " depth=" ++ toString st.tree.depth
      ++ " rep=" ++ dumpRep st.tree.roots) "-"
  | _ => st.emit "bad-op" "bad-op"

/-- `G,<o|e>,<op>&<op>…` (inner fields separated by `:`): the inner writes run in one write transaction that is
    committed (`o`) or aborted (`e`); an aborted transaction leaves the registered set as it was. -/
def step (st : St) (op : String) : St :=
  match op.splitOn "," with
  | ["G", mode, inner] =>
    let ops := (splitNonEmpty inner "&").map fun s => s.replace ":" ","
    let st1 := ops.foldl stepBase { st with mOut := [], sOut := [] }
    let m := join st1.mOut.reverse "&"
    let s := join st1.sOut.reverse "&"
    if mode == "o" then ({ st1 with mOut := st.mOut, sOut := st.sOut }.emit m s).tag "grp-commit"
    else ({ st with tags := st1.tags }.emit m s).tag "grp-abort"
  | _ => stepBase st op

/-- one step, then the representation invariant - and the grammar shape of every key, the hypothesis of the byte-level
    theorems `Fox.C02.Bytes.*` - is evaluated on the model tree (tag `wf-violated` if it fails) -/
def stepChecked (st : St) (op : String) : St :=
  let st' := step st op
  if wfRoots st'.tree.roots && hostOkRoots st'.tree.roots && patOkRoots st'.tree.roots
      && InsScan.fragOkRoots st'.tree.roots && NodeRep.srtRoots st'.tree.roots then st' else st'.tag "wf-violated"

/-- fields: ["ops", "<op>;<op>;…"] -/
def handle (fields : List String) : String :=
  match fields with
  | [_, ops] =>
    let st := (splitNonEmpty ops ";").foldl stepChecked {}
    "M=" ++ join st.mOut.reverse "|" ++ "\tS=" ++ join st.sOut.reverse "|" ++ "\tT=" ++ join st.tags.reverse ","
  | _ => "M=bad-case"

end Fox.Driver.Ops
