import FoxModel.Util
import FoxModel.Spec.Options
import FoxModel.Spec.Middleware
/-
  FoxModel.Driver.Opts — line-protocol handler of the `opts` stream (property C19).

    opts <TAB> <global options> <TAB> <entry H|U|N> <TAB> <method> <TAB> <pattern hex> <TAB> <tsr probe 0|1> <TAB> <handler nil 0|1> <TAB> <route options>
      global: D A0 A1 M0 M1 R0 R1 I0 I1 C<k> NR0 NR1 NM0 NM1 OH0 OH1 W<ids> F<mask>:<ids>    (id 0 = nil, C0 = nil, X0 = nil handler)
      route : W<ids> R0 R1 I0 I1 C<k> K<cls>.<n>.<nil><hashable><reflexive>=<v>
-/
namespace Fox.Driver.Opts
open Fox Fox.Util Fox.Model.MW Fox.Model.Opt Fox.Spec.Opt

def dropFirst (s : String) (n : Nat) : String := String.ofList (s.toList.drop n)

def parseIds (s : String) : List (Option Nat) :=
  if s == "_" || s == "" then [] else (s.splitOn "+").map fun x => let v := x.toNat!; if v == 0 then none else some v

def bit (s : String) : Bool := s == "1"

def parseG (s : String) : Option GlobalOpt :=
  if s == "D" then some .defaults
  else if s.startsWith "NR" then some (.noRouteHandler (dropFirst s 2 == "0"))
  else if s.startsWith "NM" then some (.noMethodHandler (dropFirst s 2 == "0"))
  else if s.startsWith "OH" then some (.optionsHandler (dropFirst s 2 == "0"))
  else if s.startsWith "A" then some (.autoOptions (bit (dropFirst s 1)))
  else if s.startsWith "M" then some (.noMethod (bit (dropFirst s 1)))
  else if s.startsWith "R" then some (.redirectTS (bit (dropFirst s 1)))
  else if s.startsWith "I" then some (.ignoreTS (bit (dropFirst s 1)))
  else if s.startsWith "C" then some (.clientIP (let k := (dropFirst s 1).toNat!; if k == 0 then none else some k))
  else if s.startsWith "W" then some (.middleware (parseIds (dropFirst s 1)))
  else if s.startsWith "F" then
    match (dropFirst s 1).splitOn ":" with
    | [m, ids] => some (.middlewareFor m.toNat! (parseIds ids))
    | _ => none
  else none

def parseR (s : String) : Option RouteOpt :=
  if s.startsWith "R" then some (.redirectTS (bit (dropFirst s 1)))
  else if s.startsWith "I" then some (.ignoreTS (bit (dropFirst s 1)))
  else if s.startsWith "C" then some (.clientIP (let k := (dropFirst s 1).toNat!; if k == 0 then none else some k))
  else if s.startsWith "W" then some (.middleware (parseIds (dropFirst s 1)))
  else if s.startsWith "K" then
    match (dropFirst s 1).splitOn "=" with
    | [k, v] =>
      match k.splitOn "." with
      | [c, n, bits] =>
        match bits.toList with
        | [a, b, r] => some (.annotation ⟨c.toNat!, n.toNat!, a == '1', b == '1', r == '1'⟩ v.toNat!)
        | _ => none
      | _ => none
    | _ => none
  else none

def parseList {α : Type} (f : String → Option α) (s : String) : List α :=
  if s == "_" || s == "" then [] else (s.splitOn ",").filterMap f

def showRes : Option Nat → String
  | none => "none"
  | some k => toString k

def b01 (b : Bool) : String := if b then "1" else "0"

def dedup (ks : List AnnKey) : List AnnKey := ks.foldl (fun acc k => if acc.contains k then acc else acc ++ [k]) []

/-- keys the harness looks up afterwards: the distinct non-nil hashable keys of the options, in order -/
def probeKeys (opts : List RouteOpt) : List AnnKey :=
  dedup (opts.filterMap fun o => match o with
    | .annotation k _ => if !k.isNil && k.hashable then some k else none
    | _ => none)

def showAnn (ks : List AnnKey) (get : AnnKey → Option Nat) : String :=
  if ks.isEmpty then "-" else
  join (ks.map fun k => toString k.cls ++ "." ++ toString k.n ++ ":" ++ (match get k with | none => "nil" | some v => toString v)) ","

def showChain (ids : List Nat) : String :=
  let vis := ids.filter fun i => i != recoveryId && i != loggerId
  if vis.isEmpty then "-" else join (vis.map toString) "+"

def probes (tsr : Bool) : List Probe :=
  [.direct] ++ (if tsr then [.slashToggled] else []) ++ [.unknownPath, .otherMethod, .optionsReq]

/-- one line for a successfully created route; everything is passed as plain values so that the model side and the
    specification side print through the same function -/
def showRoute (pat host path : Bytes) (n : Nat) (rts its : Bool) (res : Option Nat) (ann chain : String)
    (cfg : RouterCfg) (tsr : Bool) : String :=
  let cip := (probes tsr).map fun p =>
    let k := kindFor cfg rts its p
    toString k.bit ++ ":" ++ showRes (if k = .route then res else cfg.clientip)
  "pat=" ++ toHex pat ++ ";host=" ++ toHex host ++ ";path=" ++ toHex path ++ ";n=" ++ toString n ++ ";rts=" ++ b01 rts ++
    ";its=" ++ b01 its ++ ";res=" ++ showRes res ++ ";ann=" ++ ann ++ ";mw=" ++ chain ++
    ";g=" ++ b01 cfg.redirectTS ++ b01 cfg.ignoreTS ++ showRes cfg.clientip ++ ";cip=" ++ join cip "/"

def methodOk (m : String) : Bool := !m.isEmpty && m.toList.all fun c => 'A' ≤ c && c ≤ 'Z'

def showOutcome {α : Type} (pre : String) (f : α → String) : Outcome α → String
  | .ok a => f a
  | .invalidConfig => pre ++ "invalidConfig"
  | .invalidRoute => pre ++ "invalidRoute"
  | .panic => "panic"

def handle (fields : List String) : String :=
  match fields with
  | [_, g, entry, method, patHex, tsr, hnil, ro] =>
    let gopts := parseList parseG g
    let ropts := parseList parseR ro
    let pat := fromHex! patHex
    let tsrProbe := tsr == "1"
    let handlerNil := hnil == "1"
    let mOk := if entry == "H" then methodOk (if method == "_" then "" else method) else true
    let keys := probeKeys ropts
    -- model
    let (m, tags) := match newRouter gopts with
      | .ok cfg =>
        let r := if entry == "N" then newRoute cfg pat handlerNil ropts else Fox.Model.Opt.handle cfg mOk pat handlerNil ropts
        (showOutcome "err:" (fun (r : RouteCfg) =>
            -- the chain of the direct request: route-scoped globals, then the route's own middleware (Model.MW)
            let chain := (Spec.MW.selected .route r.mws)
            showRoute r.pattern r.hostname r.path r.paramsLen r.redirectTS r.ignoreTS r.clientip
              (showAnn keys r.annotation) (showChain chain) cfg tsrProbe) r,
         match r with
         | .ok r => ["ok"] ++ (if r.redirectTS != cfg.redirectTS || r.ignoreTS != cfg.ignoreTS then ["ts-override"] else []) ++
                    (if r.clientip != cfg.clientip then ["res-override"] else []) ++ (if !keys.isEmpty then ["annot"] else []) ++
                    (if !r.own.isEmpty then ["own-mw"] else [])
         | .invalidConfig => ["route-invalidConfig"]
         | .invalidRoute => ["route-invalidRoute"]
         | .panic => ["panic"])
      | o => (showOutcome "new:" (fun (_ : RouterCfg) => "") o, ["new-invalid"])
    -- specification: per-field "last option wins" reading; either documented error counts as `err`
    let s :=
      if gopts.any (fun o => !gOptValid o) then "err"
      else if handlerNil || !mOk then "err"
      else match parsePattern pat with
        | none => "err"
        | some (toks, h) =>
          if ropts.any (fun o => !optValid o) then "err" else
          let cfg := routerView gopts
          let v := routeView cfg ropts
          let rt : Fox.Route := { hid := 0, pattern := toks, hostToks := h }
          showRoute pat (render rt.hostPart) (render rt.pathPart) rt.psLen v.redirectTS v.ignoreTS v.clientip
            (showAnn keys fun k => if k.reflexive then annotationOf ropts k else none)
            (showChain (Spec.MW.selected .route cfg.mws ++ v.own)) cfg tsrProbe
    let nontrivial := tags.any fun t => t == "ts-override" || t == "res-override" || t == "annot" || t == "route-invalidConfig" || t == "new-invalid"
    "M=" ++ m ++ "\tS=" ++ s ++ "\tT=" ++ join tags "," ++ "\tN=" ++ (if nontrivial then "1" else "0")
  | _ => "M=bad-case"

end Fox.Driver.Opts
