import FoxModel.Util
import FoxModel.Model.Proto
/-
  FoxModel.Driver.Parked — handler of the `parked` stream (property C06): a case names a read entry point, the state a
  writer is parked in and the router options. The model's answer is computed by running the protocol model: a writer
  thread is advanced to the parked state (holding `mu`), then the reader's two actions are scheduled; the answer is
  `done` iff both were enabled and the reader's program is finished (Props/C06 proves that this is always the case).
-/
namespace Fox.Driver.Parked
open Fox.Util Fox.Model.Proto

def parkSteps (state : String) : Nat :=
  if state == "opened" then 2          -- lock, load
  else if state == "none" then 0
  else 3                               -- lock, load, localOps (uncommitted writes / inside Updates / snapshot taken)

def simulate (state : String) : String :=
  let s0 : State Nat := invoke (init 0) 1 commitProg (· + 1)
  let s1 := run s0 ((List.replicate (parkSteps state) (Move.act 1)))
  let s2 := invoke s1 2 readerProg id
  let e1 := enabled s2 2
  let s3 := exec s2 2
  let e2 := enabled s3 2
  let s4 := exec s3 2
  if e1 && e2 && (s4.thr 2).pc.isEmpty && (state == "none" || s4.mu == some 1) then "done" else "blocked"

/-- the converse cell: a reader is parked after its `load`; a committing writer then runs its whole program. The answer is
    `done` iff each of its six actions was enabled when its turn came (`writers_wait_only_for_writers`). -/
def simulateW : String :=
  let s0 : State Nat := invoke (init 0) 2 readerProg id
  let s1 := exec s0 2                                   -- the reader holds the tree it loaded and stays there
  let s2 := invoke s1 1 commitProg (· + 1)
  let (ok, s3) := (List.range 6).foldl (fun (acc : Bool × State Nat) _ => (acc.1 && enabled acc.2 1, exec acc.2 1)) (true, s2)
  if ok && (s3.thr 1).pc.isEmpty && s3.mu.isNone then "done" else "blocked"

def field (cfg : List String) (k : String) : String :=
  match cfg.find? (·.startsWith (k ++ "=")) with
  | some kv => (kv.drop (k.length + 1)).toString
  | none => ""

def handle (fields : List String) : String :=
  match fields with
  | [_, cfg] =>
    let kvs := cfg.splitOn ";"
    let r := if (field kvs "entry").startsWith "W:" then simulateW else simulate (field kvs "state")
    "M=" ++ r ++ "\tS=done\tT=" ++ field kvs "entry" ++ ",parked-" ++ field kvs "state" ++ ",opts-" ++ field kvs "opts" ++ "\tN=1"
  | _ => "M=bad-case"

end Fox.Driver.Parked
