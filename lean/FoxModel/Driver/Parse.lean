import FoxModel.Util
import FoxModel.Model.Parse
import FoxModel.Spec.Grammar
import FoxModel.Driver.Ops
/-
  FoxModel.Driver.Parse — line-protocol handlers of property C10.

  stream `parse`:    parse <TAB> maxParams <TAB> maxKeyBytes <TAB> pattern(hex)
     M = ok:<paramCnt>:<endHost> | invalid | panic      (model of parseRoute)
     S = ok | invalid                                   (the grammar, Spec.valid)
     T = rejection reason (Go call site) or ok-path / ok-host, plus shape tags
  stream `routable`: routable <TAB> pattern(hex) <TAB> value(hex),value(hex),…
     the pattern is registered alone (GET) on a fresh tree, the request is the pattern with the values substituted
     M = result of Model.lookup (same format as the ops stream) | invalid
     S = routed | invalid                               (what the property demands of an accepted pattern)
-/
namespace Fox.Driver.Parse
open Fox Fox.Util Fox.Model

def errName (e : ErrKind) : String :=
  let r := toString (repr e)
  (r.splitOn ".").getLast!

def parseTags (s : Bytes) (r : ParseResult) : List String :=
  match r with
  | .panic => ["panic"]
  | .invalid e => [errName e]
  | .ok n eh =>
    [if eh = 0 then "ok-path" else "ok-host"] ++ (if n = 0 then [] else ["ok-wild"]) ++
    (match tokenize s with
     | some toks =>
       (if toks.any (fun t => match t with | .catchAll _ => true | _ => false) then ["ok-catchall"] else []) ++
       (if (toks.take eh).any isWild then ["ok-hostparam"] else [])
     | none => ["ok-untokenizable"])

/-- fields: ["parse", maxParams, maxKeyBytes, hex] -/
def handleParse (fields : List String) : String :=
  match fields with
  | [_, mp, mk, pat] =>
    let s := fromHex! pat
    let r := parseRoute mp.toNat! mk.toNat! s
    let m := match r with
      | .ok n eh => "ok:" ++ toString n ++ ":" ++ toString eh
      | .invalid _ => "invalid"
      | .panic => "panic"
    let sp := if Spec.valid ⟨mp.toNat!, mk.toNat!⟩ s then "ok" else "invalid"
    let nt := match r with | .invalid .missingSlash => "0" | _ => "1"
    "M=" ++ m ++ "\tS=" ++ sp ++ "\tT=" ++ join (parseTags s r) "," ++ "\tN=" ++ nt
  | _ => "M=bad-case"

/-- substitute successive values for the wildcards of a token list; returns the text and the unused values -/
def instantiate : List Tok → List Bytes → Bytes × List Bytes
  | [], vs => ([], vs)
  | .lit b :: ts, vs => let (r, vs') := instantiate ts vs; (b :: r, vs')
  | _ :: ts, v :: vs => let (r, vs') := instantiate ts vs; (v ++ r, vs')
  | _ :: ts, [] => instantiate ts []

def wildNames (ts : List Tok) : List Bytes :=
  ts.filterMap fun | .param n => some n | .catchAll n => some n | .lit _ => none

/-- a catch-all followed by further pattern text: several splits of the request may be valid -/
def hasInfixCatchAll : List Tok → Bool
  | .catchAll _ :: _ :: _ => true
  | _ :: ts => hasInfixCatchAll ts
  | [] => false

/-- fields: ["routable", hex pattern, comma separated hex values] -/
def handleRoutable (fields : List String) : String :=
  match fields with
  | [_, pat, vals] =>
    let s := fromHex! pat
    let vs := (splitNonEmpty vals ",").map fromHex!
    if !Spec.valid ⟨65535, 65535⟩ s then "M=invalid\tS=invalid\tT=rt-invalid" else
    match Driver.Ops.mkRoute s 0 1 with
    | none => "M=invalid\tS=routed\tT=rt-untokenizable"
    | some r =>
      let hostToks := r.pattern.take r.hostToks
      let pathToks := r.pattern.drop r.hostToks
      let (host, vs') := instantiate hostToks vs
      let (path, _) := instantiate pathToks vs'
      match newTree.insert GET r with
      | .error _ => "M=insert-failed\tS=routed\tT=rt-insert-failed"
      | .ok (t, _) =>
        let res := Machine.lookup t.roots GET host path
        let mtag := if res == lookup t.roots GET host path then [] else ["machine-vs-walk"]
        let okTags := match res with
          | .found r' ps tsr =>
            let back := (instantiate r.pattern (ps.map (·.2))).1
            (if r'.text == s && !tsr then [] else ["rt-model-notrouted"]) ++
            (if back == host ++ path && ps.map (·.1) == wildNames r.pattern then [] else ["rt-model-noroundtrip"]) ++
            (if hasInfixCatchAll r.pattern || ps.map (·.2) == vs.take ps.length then [] else ["rt-model-othervalues"])
          | _ => ["rt-model-notrouted"]
        let tags := Driver.Ops.lookupTags res host ++ okTags ++ mtag ++
          (if hasInfixCatchAll r.pattern then ["rt-infix"] else []) ++ (if vs.isEmpty then ["rt-static"] else [])
        "M=" ++ Driver.Ops.showResult res ++ "\tS=routed\tT=" ++ join tags ","
  | _ => "M=bad-case"

def handle (fields : List String) : String :=
  match fields.head? with
  | some "parse" => handleParse fields
  | some "routable" => handleRoutable fields
  | _ => "M=unknown-stream"

end Fox.Driver.Parse
