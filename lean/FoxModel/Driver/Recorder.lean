import FoxModel.Util
import FoxModel.Model.Recorder
import FoxModel.Spec.Recorder
/-
  FoxModel.Driver.Recorder — line-protocol handler of stream `rw` (property C14).
    rw \t <call>;<call>;… \t <shape: 7 chars 0/1 = rf fl fe hj pu dl fd> \t <fault: k | inf>
  calls: WH,c  WR,n  WS,n  RF,<n+n+…|->,<0|1>  FL HJ PU RD WD FD  STR,c,n  BLOB,c,n  STREAM,c,<chunks>,<0|1>  REDIR,c,len
  per call  M = status,written,size,n,err,ct,events-of-this-call     S = status,written,size,wf (from the log only)
-/
namespace Fox.Driver.Recorder
open Fox.Util Fox.Recorder

def showEv : Ev → String
  | .hdr c => "h" ++ toString c | .body n => "b" ++ toString n | .flush => "fl" | .flushE => "fe"
  | .hijack => "hj" | .push => "pu" | .rdl => "rd" | .wdl => "wd" | .fdx => "fd"

def showErr : Err → String
  | .ok => "ok" | .fault => "fault" | .src => "src" | .hijacked => "hijacked" | .short => "short"
  | .notSupported => "notsup" | .invalidRedirect => "badredirect"

def showCT : CT → String
  | .none => "-" | .textPlain => "text" | .blob => "blob" | .stream => "stream" | .html => "html"

def b01 (b : Bool) : String := if b then "1" else "0"

def parseChunks (s : String) : List Nat :=
  if s == "-" || s == "" then [] else (s.splitOn "+").map String.toNat!

def parseCall (s : String) : Option Call :=
  match s.splitOn "," with
  | ["WH", c] => some (.wh c.toNat!)
  | ["WR", n] => some (.wr n.toNat!)
  | ["WS", n] => some (.ws n.toNat!)
  | ["RF", cs, e] => some (.rf (parseChunks cs) (e == "1"))
  | ["FL"] => some .fl | ["HJ"] => some .hj | ["PU"] => some .pu
  | ["RD"] => some .rd | ["WD"] => some .wd | ["FD"] => some .fd
  | ["STR", c, n] => some (.str c.toNat! n.toNat!)
  | ["BLOB", c, n] => some (.blob c.toNat! n.toNat!)
  | ["STREAM", c, cs, e] => some (.stream c.toNat! (parseChunks cs) (e == "1"))
  | ["REDIR", c, n] => some (.redir c.toNat! n.toNat!)
  | _ => none

def parseShape (s : String) : Shape :=
  let b := s.toList.map (· == '1')
  { rf := b.getD 0 false, fl := b.getD 1 false, fe := b.getD 2 false, hj := b.getD 3 false,
    pu := b.getD 4 false, dl := b.getD 5 false, fd := b.getD 6 false }

def parseFault (s : String) : Option Nat := if s == "inf" then none else some s.toNat!

/-- branch tag of a call (coverage histogram) -/
def callTag (sh : Shape) (s : St) : Call → String
  | .wh c => (writeHeader s c).2
  | .wr _ => "wr" | .ws _ => "ws"
  | .rf _ _ => if sh.rf then "rf-fast" else "rf-fallback"
  | .fl => "fl" | .hj => "hj" | .pu => "pu" | .rd => "rd" | .wd => "wd" | .fd => "fd"
  | .str _ _ => "str" | .blob _ _ => "blob" | .stream _ _ _ => "stream"
  | .redir c _ => if c < 300 ∨ c > 308 then "redir-invalid" else if s.u.ct = .none then "redir" else "redir-nobody"

def addTag (ts : List String) (t : String) : List String := if t == "" || ts.contains t then ts else ts ++ [t]

def handle (fields : List String) : String :=
  match fields with
  | [_, callsS, shapeS, faultS] =>
    -- `CT` is not a call on the writer: the handler (or a middleware) presets `Content-Type: text/html; charset=utf-8`
    -- in the header map before anything is sent; the driver applies it to the model state directly
    let items := splitNonEmpty callsS ";"
    let calls := items.map fun it => if it == "CT" then some (Call.fd) else parseCall it
    let isCT := items.map (· == "CT")
    if calls.any Option.isNone then "M=bad-case" else
    let sh := parseShape shapeS
    let s0 := init (parseFault faultS)
    let (_, ms, ss, tags) := (calls.zip isCT).foldl (fun (acc : St × List String × List String × List String) occ =>
      let (s, ms, ss, tags) := acc
      match occ with
      | (none, _) => acc
      | (some _, true) =>
        let s' := setCT s .html
        let a := s'.ans
        let m := join [toString a.status, b01 a.written, toString a.size, "-", "ok", showCT s'.u.ct, "-"] ","
        let sp := join [toString (Spec.status s'.u.log), b01 (Spec.written s'.u.log), toString (Spec.size s'.u.log),
                        (if Spec.wellFormed s'.u.log then "wf" else "illformed"), "-"] ","
        (s', ms ++ [m], ss ++ [sp], addTag tags "ct-preset")
      | (some c, false) =>
        let (s', r) := step sh s c
        let evs := s'.u.log.drop s.u.log.length
        let a := s'.ans
        let m := join [toString a.status, b01 a.written, toString a.size,
                       (match r.n with | some n => toString n | none => "-"), showErr r.err, showCT s'.u.ct,
                       (if evs.isEmpty then "-" else join (evs.map showEv) "+")] ","
        let sp := join [toString (Spec.status s'.u.log), b01 (Spec.written s'.u.log), toString (Spec.size s'.u.log),
                        (if Spec.wellFormed s'.u.log then "wf" else "illformed"),
                        Spec.showCapability (Spec.capability sh c)] ","
        let tags := addTag tags (callTag sh s c)
        let tags := if r.err == .fault then addTag tags "fault" else tags
        let tags := if r.err == .src then addTag tags "srcerr" else tags
        let tags := if r.err == .notSupported then addTag tags "notsup" else tags
        let tags := if r.err == .hijacked then addTag tags "after-hijack" else tags
        (s', ms ++ [m], ss ++ [sp], tags)) (s0, [], [], [])
    "M=" ++ join ms "|" ++ "\tS=" ++ join ss "|" ++ "\tT=" ++ join tags ","
  | _ => "M=bad-case"

end Fox.Driver.Recorder
