import FoxModel.Model.Redact
import FoxModel.Util
import FoxModel.Model.Recovery
/-
  FoxModel.Driver.Recovery — line-protocol handler of stream `recovery` (property C15), see harness/stream_recovery.go.
-/
namespace Fox.Driver.Recovery
open Fox.Util Fox.Recovery

def bytesOfHex (s : String) : Str := (fromHex! s).map UInt8.toNat
def hexOfStr (s : Str) : String := toHex (s.map UInt8.ofNat)
def asciiStr (s : String) : Str := s.toList.map Char.toNat

def parseVal (s : String) : Option PanicVal :=
  match s.splitOn ":" with
  | ["error"] => some .error | ["wabort"] => some .wrappedAbort | ["abort"] => some .abort
  | ["str"] => some .str | ["nil"] => some .nilLike | ["custom"] => some .custom
  | ["opsys", m] => some (.opSyscall (asciiStr "write: " ++ bytesOfHex m))   -- os.SyscallError.Error() = syscall + ": " + text
  | ["opplain", m] => some (.opPlain (bytesOfHex m))
  | ["wrapop", m] => some (.wrappedOp (asciiStr "write: " ++ bytesOfHex m))
  -- an OpError whose error chain holds the syscall error deeper down (nested OpError, %w wrapping): errors.As finds it,
  -- so these are the model's `opSyscall` class
  | ["opnested", m] => some (.opSyscall (asciiStr "write: " ++ bytesOfHex m))
  | ["opwrapsys", m] => some (.opSyscall (asciiStr "write: " ++ bytesOfHex m))
  | _ => none

def parseProgress : String → Option Progress
  | "N" => some .nothing | "H" => some .headerOnly | "B" => some .partialBody
  | "F" | "E" => some .headerOnly  -- a flush only: the implicit 200 header is committed (E: the connection has FlushError)
  | "S" | "R" => some .partialBody -- WriteString / ReadFrom without an explicit header (status 200)
  | "I" => some .nothing           -- a 1xx informational header only: no final header has been sent
  | "C" => some .nothing           -- response headers set (Content-Length), nothing written
  | _ => none

/-- the status the handler committed before it panicked -/
def startedStatus (progS : String) : Nat := if progS == "H" || progS == "B" then 202 else 200

def insSorted (s : String) : List String → List String
  | [] => [s]
  | x :: xs => if s < x then s :: x :: xs else x :: insSorted s xs
def sortStrings (xs : List String) : List String := xs.foldr insSorted []

def followOk (routesSame lockFree : Bool) : String :=
  "routes=" ++ (if routesSame then "same" else "changed") ++ ",lock=" ++ (if lockFree then "free" else "held") ++
  ",next=200,handle=" ++ (if lockFree then "ok" else "hang")

def valTag : PanicVal → String
  | .error => "v-error" | .wrappedAbort => "v-wrapped-abort" | .abort => "v-abort" | .str => "v-string"
  | .nilLike => "v-nil" | .custom => "v-custom" | .opSyscall _ => "v-op-syscall" | .opPlain _ => "v-op-plain"
  | .wrappedOp _ => "v-wrapped-op"

/-- recovery.go `scopeToString`: the name logged in place of the pattern when the panic happened outside a route -/
def specialScope (scope : String) : Option String :=
  if scope == "noroute" then some "NoRouteHandler" else if scope == "nomethod" then some "NoMethodHandler"
  else if scope == "options" then some "OptionsHandler" else if scope == "redirect" then some "RedirectHandler" else none

def strLt : Str → Str → Bool
  | [], [] => false
  | [], _ :: _ => true
  | _ :: _, [] => false
  | a :: as, b :: bs => if a < b then true else if b < a then false else strLt as bs

/-- insertion by header name (net/http writes the headers of a dump in the byte order of their names) -/
def insByName (h : Str × Str) : List (Str × Str) → List (Str × Str)
  | [] => [h]
  | x :: xs => if strLt h.1 x.1 then h :: x :: xs else x :: insByName h xs

def handleP (valS progS scope hdrS : String) : String :=
  match parseVal valS, parseProgress progS with
  | some v, some p =>
    let names : List Str := if hdrS == "-" then [] else
      (hdrS.splitOn ",").map fun kv => bytesOfHex ((kv.splitOn "=").headD "")
    let d := recovery v p names
    let out := if d.repanic then "repanic:same" else "returned"
    let status := if d.handled then 500 else if p.written then startedStatus progS else 0
    let red := sortStrings (d.redactedNames.map hexOfStr)
    -- what a record names: the matched route (or the special handler), the parameters of the match that reached the
    -- handler, the request line
    let routeName := if let some nm := specialScope scope then toHex (ascii nm) else if scope == "routets" then toHex (ascii "/r/{id}/") else if scope == "routehost" then toHex (ascii "{sub}.com/r/{id}") else toHex (ascii "/r/{id}")
    let paramStr := if (specialScope scope).isSome then "-"
      else if scope == "routehost" then toHex (ascii "sub") ++ "=" ++ toHex (ascii "example") ++ "+" ++ toHex (ascii "id") ++ "=" ++ toHex (ascii "42")
      else toHex (ascii "id") ++ "=" ++ toHex (ascii "42")
    let route := if !d.logged then "-" else routeName
    let params := if !d.logged then "-" else paramStr
    -- the request-dump section of the record, byte for byte: the dump net/http writes for the request the harness sends
    -- (request line, Host, the headers in byte order of their names, an empty line) through the loop of recovery.go
    let method := if scope == "options" then "OPTIONS" else "GET"
    let path := if scope == "noroute" then "/nowhere/42" else "/r/42"
    let hdrs : List (Str × Str) := if hdrS == "-" then [] else
      (hdrS.splitOn ",").map fun kv => (bytesOfHex ((kv.splitOn "=").headD ""), bytesOfHex (((kv.splitOn "=").drop 1).headD ""))
    let oddHost := match hdrs with
      | h :: _ => h.1.length % 2 == 0 && scope != "routehost"
      | [] => false
    let host := if oddHost then asciiStr "exa\rmple.com" else asciiStr "example.com"
    let sorted := hdrs.foldr (fun h acc => insByName h acc) []
    let dump := Redact.redactDump (Redact.mkDump (asciiStr (method ++ " " ++ path ++ " HTTP/1.1")) ((asciiStr "Host", host) :: sorted))
    let dumpS := if d.logged then hexOfStr dump else "-"
    let m := "out=" ++ out ++ ",logged=" ++ (if d.logged then "1" else "0") ++ ",status=" ++ toString status ++
      ",touched=" ++ (if d.handled then "1" else "0") ++ ",redacted=" ++ (if red.isEmpty then "-" else join red "+") ++
      ",route=" ++ route ++ ",params=" ++ params ++ ",reqline=" ++ (if d.logged then "1" else "0") ++ ",dump=" ++ dumpS ++
      "," ++ followOk true true
    -- what the property demands
    let (rep, fresh) := Spec.outcome v p
    let sstatus := if fresh then 500 else if p != .nothing then startedStatus progS else 0
    let s := "out=" ++ (if rep then "repanic:same" else "returned") ++ ",status=" ++ toString sstatus ++
      ",touched=" ++ (if fresh then "1" else "0") ++ ",leak=0,rec=" ++
      (if rep then "-" else routeName ++ "/" ++ paramStr ++ "/1") ++ "," ++ followOk true true
    let nSens := (names.filter Spec.isSensitive).length
    let tags := [valTag v, "p-" ++ progS, "s-" ++ scope] ++ (if connIsBroken v then ["conn-broken"] else []) ++
      (if nSens > 0 && d.logged then ["redacts"] else []) ++
      (if (names.filter fun n => Spec.isSensitive n && !(Generated.blacklistedHeaderBytes.contains n)).length > 0 && d.logged
        then ["redacts-noncanonical"] else [])
    "M=" ++ m ++ "\tS=" ++ s ++ "\tT=" ++ join tags ","
  | _, _ => "M=bad-case"

def showTxn (o : TxnObs) : String := "out=" ++ o.out ++ "," ++ followOk o.routesSame o.lockFree

def handleT (kind nopsS pos : String) : String :=
  let nops := nopsS.toNat!
  let e : TxnEnd := if pos.startsWith "p" then .panics else if pos.startsWith "e" then .returnsError else if pos.startsWith "g" then .goexits else .completes (nops > 0)
  let o : Option TxnObs :=
    match kind with
    | "updates" | "updates-t1" | "updates-t2" | "updates-t3" | "updates-s" | "updates-u" => some (managed true e)
    | "view" => some (managed false e)
    | "handle" => some (singleOp 0)
    | "update" => some (singleOp 2)
    | "musthandle" | "musthandle-dup" => some (singleOp 5)
    | _ => none
  match o with
  | none => "M=bad-case"
  | some o =>
    -- demanded: panics propagate unchanged, errors are returned, routes only change on completion, lock always free
    let s : TxnObs := match e with
      | .panics => { out := "repanic:same", routesSame := true, lockFree := true }
      | .returnsError => { out := "error", routesSame := true, lockFree := true }
      | .goexits => { out := "goexit", routesSame := true, lockFree := true }
      | .completes eff => { out := "returned", routesSame := !(kind.startsWith "updates" && eff), lockFree := true }
    "M=" ++ showTxn o ++ "\tS=" ++ showTxn s ++ "\tT=txn-" ++ kind ++ "," ++ "txn-" ++ (pos.take 1).toString ++ (if kind.startsWith "updates-t" then ",txn-truncate-first" else "")

def handle (fields : List String) : String :=
  match fields with
  | [_, "P", v, p, scope, hdrs] => handleP v p scope hdrs
  | [_, "T", kind, _, nops, pos] => handleT kind nops pos
  | _ => "M=bad-case"

end Fox.Driver.Recovery
