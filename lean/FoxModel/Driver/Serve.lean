import FoxModel.Util
import FoxModel.Model.Serve
import FoxModel.Model.MachineServe
import FoxModel.Model.LocationRaw
import FoxModel.Driver.Ops
/-
  FoxModel.Driver.Serve — stream `serve` (properties C08 C11 C17-guard):
  fields: ["serve", "<noMethod><autoOptions><globalTS>", "<routes>", "<requests>"]
    routes   = `;`-separated `method,patternhex,routeflag,hid`   (routeflag: 0 inherit, 1 ignore(true), 2 redirect(true),
                                                                    3 ignore(false), 4 redirect(false))
    requests = `;`-separated `method,hosthex,pathhex,queryhex,urlpathhex,rawpathhex,escapedpathhex`   (pathhex = what the matcher sees)
  globalTS: 0 none, 1 WithIgnoreTrailingSlash(true), 2 WithRedirectTrailingSlash(true)
-/
namespace Fox.Driver.Serve
open Fox Fox.Util Fox.Model

def effFlags (g : Nat) (f : Nat) : Bool × Bool :=
  let gi := g == 1
  let gr := g == 2
  match f with
  | 1 => (true, false)
  | 2 => (false, true)
  | 3 => (false, gr)
  | 4 => (gi, false)
  | _ => (gi, gr)

def showAllow (a : List Bytes) : String := join (a.map showBytes) "+"
def showAllowSorted (a : List Bytes) : String := join (Ops.sortStrings (a.map showBytes)) "+"

def showOutcome (o : Outcome) : String :=
  match o.kind with
  | .route => "route:" ++ (match o.route with | some r => toString r.hid ++ ":" ++ toHex r.text | none => "?") ++ ":" ++ showBinds o.params
  | .redirect => "redirect:" ++ toString o.code
  | .options => "options:" ++ showAllow o.allow
  | .noMethod => "nomethod:" ++ showAllow o.allow
  | .noRoute => "noroute"
  | .bad => "bad"

def showServed (o : Spec.Served) : String :=
  match o.kind with
  | .route => "route:" ++ (match o.route with | some r => toString r.hid ++ ":" ++ toHex r.text | none => "?") ++ ":" ++ showBinds o.params
  | .redirect => "redirect:" ++ toString o.code
  | .options => "options:" ++ showAllowSorted o.allow
  | .noMethod => "nomethod:" ++ showAllowSorted o.allow
  | .noRoute => "noroute"
  | .bad => "bad"

def handle (fields : List String) : String :=
  match fields with
  | [_, cfgs, routes, reqs] =>
    let cl := cfgs.toList
    let cfg : Cfg := { noMethod := cl.getD 0 '0' == '1', autoOptions := cl.getD 1 '0' == '1' }
    let g := (cl.getD 2 '0').toNat - 48
    -- build tree and store
    let (tree, store) := (splitNonEmpty routes ";").foldl (fun (acc : Tree × Spec.Store) item =>
      match item.splitOn "," with
      | [m, pat, f, hid] =>
        let (ig, rd) := effFlags g f.toNat!
        (match Ops.mkRoute (fromHex! pat) ((if ig then 1 else 0) + (if rd then 2 else 0)) hid.toNat! with
         | none => acc
         | some r =>
           match acc.1.insert (ascii m) r with
           | .ok (t', _) => (t', (acc.2.handle (ascii m) r).1)
           | .error _ => acc)
      | _ => acc) (newTree, [])
    let methods := (store.map (·.1)).eraseDups
    let res := (splitNonEmpty reqs ";").map fun item =>
      match item.splitOn "," with
      | [m, host, path, query, urlPathH, rawH, escH] =>
        -- path: the string the matcher sees (URL.RawPath if set, else URL.Path); urlPath: URL.Path; raw: URL.RawPath;
        -- esc: URL.EscapedPath() (standard library, supplied by the harness)
        let p := fromHex! path
        let up := fromHex! urlPathH
        -- the decision over the state machines (recording lookup for the request, lazy lookups in the Allow loops) is what is
        -- compared with the implementation; it must equal the serving model the C08 / C11 theorems speak about
        let o := Machine.serve cfg tree.roots (ascii m) (fromHex! host) p up
        let o0 := serve cfg tree.roots (ascii m) (fromHex! host) p up
        let mtag := if showOutcome o == showOutcome o0 && o.tags == o0.tags then [] else ["machine-vs-walk"]
        let s := Spec.serve cfg methods (fun x => store.routesOf x) (ascii m) (fromHex! host) p up
        let loc := if o.kind == Kind.redirect then ":" ++ toHex (Location.redirectLocation (fromHex! rawH) (fromHex! escH) (fromHex! query)) else ""
        (showOutcome o ++ loc, if Ops.hasEmptySeg p then "skip" else showServed s, o.tags ++ [match o.kind with
          | .route => "k-route" | .redirect => "k-redirect" | .options => "k-options" | .noMethod => "k-nomethod"
          | .noRoute => "k-noroute" | .bad => "k-bad"] ++ (if rawH != "_" then ["raw-path"] else []) ++ mtag)
      | _ => ("bad-req", "bad-req", [])
    -- finding tags carry the index of the request they belong to (attribution is per request)
    let indexed := (List.range res.length).zip res
    let tags := ((res.flatMap (·.2.2)).eraseDups.filter (· != "allow-connect-tsr"))
      ++ indexed.filterMap fun (i, r) => if r.2.2.contains "allow-connect-tsr" then some ("allow-connect-tsr@" ++ toString i) else none
    "M=" ++ join (res.map (·.1)) "|" ++ "\tS=" ++ join (res.map (·.2.1)) "|" ++ "\tT=" ++ join tags ","
  | _ => "M=bad-case"

end Fox.Driver.Serve
