import FoxModel.Driver.Ops
import FoxModel.Model.Router
import FoxModel.Spec.Txn
/-
  FoxModel.Driver.Txn — line-protocol handler of the `txn` stream (property C04): a case is a transaction script

    txn \t <step>;<step>;… \t <pool: m:hexpat+m:hexpat…>

  steps (`src` = `-` for the router itself, else the case-level id of a transaction / snapshot / iterator):
    TXN,w|r,<id>   UPD,<id>   VIEW,<id>   END,<id>,ok|err|panic   COMMIT,<id>   ABORT,<id>
    SNAP,<src>,<id>   ITER,<src>,<id>
    H,<src>,<m>,<hexpat>,<flags>,<hid>   U,…   D,<src>,<m>,<hexpat>   T,<src>,<m1>+<m2>…
    R,<src>,<m>,<hexpat>   N,<src>   A,<src>   L,<src>,<m>,<hexhost>,<hexpath>
  Every step prints its own result followed by the FULL observation (lock probe, Len, All, Has over the pool) of the
  router and of every transaction / snapshot / iterator created so far:  <res>~R<lock>/<obs>~<id>=<obs>~…
  `M=` comes from Model/Router (radix trees, mutex), `S=` from Spec/Txn (stores).
-/
namespace Fox.Driver.Txn
open Fox Fox.Util Fox.Model
open Fox.Driver.Ops (mkRoute showResult showSpecFound sortStrings showRouteListSorted)

inductive Kind where | txn | iter | managedU | managedV
deriving BEq

structure Src where
  cid : Nat
  kind : Kind
  mid : Router.TxnId
  sid : Spec.Txn.TxnId

structure St where
  m : Router.State := {}
  s : Spec.Txn.State := {}
  srcs : List Src := []            -- creation order
  managed : List Nat := []         -- innermost first
  pool : List (Bytes × Bytes) := []
  /-- quiet mode: open transactions are observed through Len and Has only (Txn.Iter on a write transaction takes a
      snapshot, which resets the writable cache and would hide aliasing through it) -/
  quiet : Bool := false
  mOut : List String := []
  sOut : List String := []
  tags : List String := []

def St.tag (st : St) (t : String) : St := if st.tags.contains t then st else { st with tags := t :: st.tags }
def St.src (st : St) (cid : Nat) : Option Src := st.srcs.find? (·.cid == cid)

def showEntry (e : Bytes × Route) : String := showBytes e.1 ++ ":" ++ toHex e.2.text ++ ":" ++ toString e.2.hid

def obsTree (pool : List (Bytes × Bytes)) (t : Tree) : String :=
  toString t.size ++ "/" ++ join (t.all.map showEntry) "+" ++ "/" ++
    String.join (pool.map fun (m, p) => if (t.has m p).isSome then "1" else "0")

def obsStore (pool : List (Bytes × Bytes)) (s : Spec.Store) : String :=
  toString s.length ++ "/" ++ join (sortStrings (s.map showEntry)) "+" ++ "/" ++
    String.join (pool.map fun (m, p) =>
      match tokenize p with
      | some toks => if (s.get m toks).isSome then "1" else "0"
      | none => "0")

def obsTreeQ (pool : List (Bytes × Bytes)) (t : Tree) : String :=
  toString t.size ++ "/-/" ++ String.join (pool.map fun (m, p) => if (t.has m p).isSome then "1" else "0")

def obsStoreQ (pool : List (Bytes × Bytes)) (s : Spec.Store) : String :=
  toString s.length ++ "/-/" ++
    String.join (pool.map fun (m, p) =>
      match tokenize p with
      | some toks => if (s.get m toks).isSome then "1" else "0"
      | none => "0")

def obsAll (st : St) : String × String :=
  let r0 := "R" ++ (if st.m.mu.isSome then "1" else "0") ++ "/" ++ obsTree st.pool st.m.published
  let s0 := "R" ++ (if st.s.writerOpen then "1" else "0") ++ "/" ++ obsStore st.pool st.s.pub
  st.srcs.foldl (fun (acc : String × String) src =>
    let mo := match st.m.find src.mid with
      | none => "?"
      | some x => if x.settled then "settled" else
          if src.kind == Kind.iter then join (x.tree.all.map showEntry) "+"
          else if st.quiet then obsTreeQ st.pool x.tree else obsTree st.pool x.tree
    let so := match st.s.find src.sid with
      | none => "?"
      | some x => match x.store with
        | none => "settled"
        | some sto => if src.kind == Kind.iter then join (sortStrings (sto.map showEntry)) "+"
          else if st.quiet then obsStoreQ st.pool sto else obsStore st.pool sto
    (acc.1 ++ "~" ++ toString src.cid ++ "=" ++ mo, acc.2 ++ "~" ++ toString src.cid ++ "=" ++ so)) (r0, s0)

def St.emit (st : St) (m s : String) : St :=
  let (om, os) := obsAll st
  { st with mOut := (m ++ "~" ++ om) :: st.mOut, sOut := (s ++ "~" ++ os) :: st.sOut }

def showWRes : Router.WRes → String
  | .ok => "ok" | .deleted r => "ok:" ++ toString r.hid | .exist => "exist" | .notFound => "notfound"
  | .conflict cs => "conflict:" ++ showRouteListSorted cs

def showOutcome (del : Bool) : Spec.Outcome → String
  | .ok r => if del then "ok:" ++ toString r.hid else "ok"
  | .exist => "exist" | .notFound => "notfound"
  | .conflict cs => "conflict:" ++ showRouteListSorted cs

def showAllM (l : List (Bytes × Route)) : String := join (l.map showEntry) "+"
def showAllS (l : List (Bytes × Route)) : String := join (sortStrings (l.map showEntry)) "+"

def showMOut : Router.Out → String
  | .opened _ => "ok" | .wouldBlock => "block" | .unknownTxn => "nosrc" | .w r => showWRes r
  | .readOnly => "readonly" | .panicSettled => "settled" | .nilSnap => "nil" | .done => "ok"
  | .v (.route r) => (match r with | some r => toString r.hid | none => "none")
  | .v (.num n) => toString n
  | .v (.routes l) => showAllM l
  | .v (.looked r) => showResult r

def showSOut (del : Bool) : Spec.Txn.Out → String
  | .opened _ => "ok" | .wouldBlock => "block" | .unknownTxn => "nosrc" | .w r => showOutcome del r
  | .readOnly => "readonly" | .panicSettled => "settled" | .nilSnap => "nil" | .done => "ok"
  | .v (.route r) => (match r with | some r => toString r.hid | none => "none")
  | .v (.num n) => toString n
  | .v (.routes l) => showAllS l
  | .v (.looked f) => showSpecFound f

def parseSrc (s : String) : Option Nat := if s == "-" then none else some s.toNat!

/-- register a newly created source when both sides opened one -/
def St.opened (st : St) (cid : Nat) (kind : Kind) (mo : Router.Out) (so : Spec.Txn.Out) : St :=
  match mo, so with
  | .opened a, .opened b => { st with srcs := st.srcs ++ [⟨cid, kind, a, b⟩] }
  | _, _ => st

def outTag : Router.Out → Option String
  | .wouldBlock => some "block" | .readOnly => some "readonly-write" | .panicSettled => some "settled-use"
  | .nilSnap => some "snap-nil" | _ => none

/-- a write / read through `src` (or the router) on both machines -/
def doWrite (st : St) (src : Option Nat) (mw : Router.WOp) (sw : Spec.Txn.WOp) (del : Bool) : St :=
  match src with
  | none =>
    let (m', mo) := Router.helper st.m mw
    let (s', so) := Spec.Txn.helper st.s sw
    let st' := ({ st with m := m', s := s' }.emit (showMOut mo) (showSOut del so)).tag "helper"
    match outTag mo with | some t => st'.tag t | none => st'
  | some cid =>
    match st.src cid with
    | none => st.emit "nosrc" "nosrc"
    | some x =>
      let (m', mo) := Router.txnWrite st.m x.mid mw
      let (s', so) := Spec.Txn.write st.s x.sid sw
      let st' := { st with m := m', s := s' }.emit (showMOut mo) (showSOut del so)
      match outTag mo with | some t => st'.tag t | none => st'.tag "txn-write"

def doRead (st : St) (src : Option Nat) (mq : Router.ROp) (sq : Spec.Txn.ROp) : St :=
  match src with
  | none =>
    let (_, mo) := Router.rread st.m mq
    let (_, so) := Spec.Txn.rread st.s sq
    st.emit (showMOut mo) (showSOut false so)
  | some cid =>
    match st.src cid with
    | none => st.emit "nosrc" "nosrc"
    | some x =>
      let (_, mo) := Router.txnRead st.m x.mid mq
      let (_, so) := Spec.Txn.read st.s x.sid sq
      let st' := st.emit (showMOut mo) (showSOut false so)
      match outTag mo with | some t => st'.tag t | none => st'.tag "txn-read"

def step (st : St) (op : String) : St :=
  match op.splitOn "," with
  | ["TXN", k, id] =>
    let w := k == "w"
    let (m', mo) := Router.begin st.m w
    let (s', so) := Spec.Txn.begin st.s w
    let st' := ({ st with m := m', s := s' }.opened id.toNat! .txn mo so).emit (showMOut mo) (showSOut false so)
    st'.tag (match mo with | .wouldBlock => "block" | _ => if w then "txn-w" else "txn-r")
  | ["UPD", id] =>
    let (m', mo) := Router.begin st.m true
    let (s', so) := Spec.Txn.begin st.s true
    let st1 := { st with m := m', s := s' }.opened id.toNat! .managedU mo so
    let st2 := match mo with | .opened _ => { st1 with managed := id.toNat! :: st1.managed } | _ => st1.tag "block"
    st2.emit (showMOut mo) (showSOut false so)
  | ["VIEW", id] =>
    let (m', mo) := Router.begin st.m false
    let (s', so) := Spec.Txn.begin st.s false
    let st1 := { st with m := m', s := s' }.opened id.toNat! .managedV mo so
    { st1 with managed := id.toNat! :: st1.managed }.emit (showMOut mo) (showSOut false so)
  | ["END", id, e] =>
    (match st.managed, st.src id.toNat! with
     | top :: rest, some x =>
       if top != id.toNat! then st.emit "nosrc" "nosrc" else
       let ending : Router.Ending := if e == "ok" then .ok else if e == "err" then .err else .panicAt 0
       let (m', _) := if x.kind == Kind.managedU then Router.finishUpdates st.m x.mid ending else Router.finishView st.m x.mid ending
       -- specification: commit only when the function returned nil from Updates; every other ending discards
       let s' := if x.kind == Kind.managedU && e == "ok" then (Spec.Txn.commit st.s x.sid).1 else (Spec.Txn.abort st.s x.sid).1
       ({ st with m := m', s := s', managed := rest }.emit e e).tag
         ((if x.kind == Kind.managedU then "upd-" else "view-") ++ e)
     | _, _ => st.emit "nosrc" "nosrc")
  | ["COMMIT", id] =>
    (match st.src id.toNat! with
     | none => st.emit "nosrc" "nosrc"
     | some x =>
       let again := match st.m.find x.mid with | some y => y.settled | none => false
       let (m', mo) := Router.commit st.m x.mid
       let (s', so) := Spec.Txn.commit st.s x.sid
       ({ st with m := m', s := s' }.emit (showMOut mo) (showSOut false so)).tag (if again then "double-settle" else "commit"))
  | ["ABORT", id] =>
    (match st.src id.toNat! with
     | none => st.emit "nosrc" "nosrc"
     | some x =>
       let again := match st.m.find x.mid with | some y => y.settled | none => false
       let (m', mo) := Router.abort st.m x.mid
       let (s', so) := Spec.Txn.abort st.s x.sid
       ({ st with m := m', s := s' }.emit (showMOut mo) (showSOut false so)).tag (if again then "double-settle" else "abort"))
  | ["SNAP", src, id] =>
    (match parseSrc src with
     | none => st.emit "nosrc" "nosrc"
     | some cid =>
       match st.src cid with
       | none => st.emit "nosrc" "nosrc"
       | some x =>
         let (m', mo) := Router.snapshot st.m x.mid
         let (s', so) := Spec.Txn.snapshot st.s x.sid
         let st' := ({ st with m := m', s := s' }.opened id.toNat! .txn mo so).emit (showMOut mo) (showSOut false so)
         match outTag mo with | some t => st'.tag t | none => st'.tag "snap")
  | ["ITER", src, id] =>
    (match parseSrc src with
     | none =>
       let (m', mo) := Router.routerIter st.m
       let (s', so) := Spec.Txn.begin st.s false
       (({ st with m := m', s := s' }.opened id.toNat! .iter mo so).emit (showMOut mo) (showSOut false so)).tag "iter"
     | some cid =>
       match st.src cid with
       | none => st.emit "nosrc" "nosrc"
       | some x =>
         let (m', mo) := Router.iter st.m x.mid
         let (s', so) := Spec.Txn.iter st.s x.sid
         let st' := ({ st with m := m', s := s' }.opened id.toNat! .iter mo so).emit (showMOut mo) (showSOut false so)
         match outTag mo with | some t => st'.tag t | none => st'.tag "iter")
  | ["H", src, m, pat, flags, hid] =>
    (match mkRoute (fromHex! pat) flags.toNat! hid.toNat! with
     | none => st.emit "invalid" "invalid"
     | some r => doWrite st (parseSrc src) (.handle (ascii m) r) (.handle (ascii m) r) false)
  | ["U", src, m, pat, flags, hid] =>
    (match mkRoute (fromHex! pat) flags.toNat! hid.toNat! with
     | none => st.emit "invalid" "invalid"
     | some r => doWrite st (parseSrc src) (.update (ascii m) r) (.update (ascii m) r) false)
  | ["D", src, m, pat] =>
    (match tokenize (fromHex! pat) with
     | none => st.emit "invalid" "invalid"
     | some toks => doWrite st (parseSrc src) (.delete (ascii m) toks) (.delete (ascii m) toks) true)
  | ["T", src, ms] =>
    let methods := (splitNonEmpty ms "+").map ascii
    doWrite st (parseSrc src) (.truncate methods) (.truncate methods) false
  | ["R", src, m, pat] =>
    (match tokenize (fromHex! pat) with
     | none => st.emit "invalid" "invalid"
     | some toks => doRead st (parseSrc src) (.has (ascii m) (fromHex! pat)) (.has (ascii m) toks))
  | ["N", src] => doRead st (parseSrc src) .len .len
  | ["A", src] => doRead st (parseSrc src) .all .all
  | ["L", src, m, host, path] =>
    doRead st (parseSrc src) (.lookup (ascii m) (fromHex! host) (fromHex! path)) (.lookup (ascii m) (fromHex! host) (fromHex! path))
  | _ => st.emit "bad-op" "bad-op"

def parsePool (s : String) : List (Bytes × Bytes) :=
  (splitNonEmpty s "+").filterMap fun e =>
    match e.splitOn ":" with
    | [m, p] => some (ascii m, fromHex! p)
    | _ => none

/-- fields: ["txn", steps, pool] -/
def handle (fields : List String) : String :=
  match fields with
  | [_, steps, pool] =>
    let quiet := pool.startsWith "q!"
    let pool := if quiet then (pool.drop 2).toString else pool
    let st := (splitNonEmpty steps ";").foldl step { pool := parsePool pool, quiet := quiet }
    "M=" ++ join st.mOut.reverse "|" ++ "\tS=" ++ join st.sOut.reverse "|" ++ "\tT=" ++ join st.tags.reverse ","
  | _ => "M=bad-case"

end Fox.Driver.Txn
