import FoxModel.Spec.Clean
import FoxModel.Model.Clean
import FoxModel.Lemmas.CleanSpec
/-
  FoxModel.Lemmas.CleanModel — the loop invariant of `CleanPath` and the proof that the index/buffer model of
  path.go computes the lexical specification (no Go panic, same bytes) for every input.
-/
namespace Fox.Model.Clean
open Fox Fox.Spec.Clean

/-! ### buffer primitives -/

theorem bufApp_spec {p : Bytes} {buf : Buf} {w : Nat} (c : UInt8) (hw : w < (view p buf).length) :
    ∃ buf', bufApp p buf w c = some buf' ∧
      (view p buf').take (w + 1) = (view p buf).take w ++ [c] ∧
      (view p buf').length = (view p buf).length := by
  cases buf with
  | some b =>
    simp only [view] at hw
    refine ⟨some (b.set w c), ?_, ?_, ?_⟩
    · simp [bufApp, setAt, hw]
    · simp only [view]
      rw [List.take_add_one, List.getElem?_set_self hw, List.take_set_of_le (Nat.le_refl w)]
      rfl
    · simp [view]
  | none =>
    simp only [view] at hw
    by_cases hc : p[w] = c
    · refine ⟨none, ?_, ?_, rfl⟩
      · simp [bufApp, List.getElem?_eq_getElem hw, hc]
      · simp only [view]
        rw [List.take_add_one, List.getElem?_eq_getElem hw, hc]
        rfl
    · have hlen : (p.take w ++ List.replicate (p.length - w) (0 : UInt8)).length = p.length := by
        simp; omega
      have hw' : w < (p.take w ++ List.replicate (p.length - w) (0 : UInt8)).length := by
        rw [hlen]; exact hw
      refine ⟨some ((p.take w ++ List.replicate (p.length - w) 0).set w c), ?_, ?_, ?_⟩
      · simp only [bufApp, List.getElem?_eq_getElem hw, if_neg hc, setAt, if_pos hw']
        rfl
      · simp only [view]
        rw [List.take_add_one, List.getElem?_set_self hw', List.take_set_of_le (Nat.le_refl w),
          List.take_left' (by simp; omega)]
        rfl
      · simp only [view, List.length_set]
        exact hlen

/-- the '..' scan stops on the last slash of what has been written, or at index 1 -/
theorem scanBack_spec {x pre e : Bytes} {w0 : Nat} (hx : x.take w0 = pre ++ SLASH :: e)
    (hlen : (pre ++ SLASH :: e).length = w0) (he : SLASH ∉ e) :
    ∀ k, k ≤ e.length → 1 ≤ pre.length + k → scanBack x (pre.length + k) = some (max 1 pre.length) := by
  have hget : ∀ j, j < w0 → x[j]? = (pre ++ SLASH :: e)[j]? := by
    intro j hj
    rw [← hx, List.getElem?_take, if_pos hj]
  intro k
  induction k with
  | zero =>
    intro _ h1
    simp only [Nat.add_zero] at h1 ⊢
    match hp : pre.length, h1 with
    | 1, _ => simp [scanBack]
    | n + 2, _ =>
      have : x[n + 2]? = some SLASH := by
        rw [hget (n + 2) (by rw [← hlen]; simp; omega), List.getElem?_append_right (by omega)]
        simp [hp]
      simp only [scanBack, this]
      simp
  | succ k ih =>
    intro hk h1
    match hi : pre.length + (k + 1), h1 with
    | 1, _ =>
      have : pre.length = 0 := by omega
      simp [scanBack, this]
    | i + 2, _ =>
      have hlt : i + 2 < w0 := by rw [← hlen]; simp; omega
      have hidx : i + 2 - pre.length = k + 1 := by omega
      have hek : k < e.length := by omega
      have hc : x[i + 2]? = some e[k] := by
        rw [hget (i + 2) hlt, List.getElem?_append_right (by omega), hidx]
        simp [List.getElem?_eq_getElem hek]
      have hne : e[k] ≠ SLASH := fun h => he (h ▸ List.getElem_mem hek)
      simp only [scanBack, hc, if_neg hne]
      have : i + 1 = pre.length + k := by omega
      rw [this]
      exact ih (by omega) (by omega)

/-! ### reading the input by index and by suffix -/

theorem drop_cons_iff {p : Bytes} {r : Nat} {c : UInt8} {t : Bytes} (h : p.drop r = c :: t) :
    ∃ hr : r < p.length, p[r] = c ∧ p.drop (r + 1) = t := by
  have hr : r < p.length := by
    apply Nat.lt_of_not_le
    intro hle
    rw [List.drop_eq_nil_of_le hle] at h
    cases h
  rw [List.drop_eq_getElem_cons hr] at h
  injection h with h1 h2
  exact ⟨hr, h1, h2⟩

/-- the `switch` on a suffix of the input -/
def cls : Bytes → Branch
  | [] => .elem
  | c :: t =>
    if c = SLASH then .slash
    else if c ≠ DOT then .elem
    else match t with
      | [] => .dotEnd
      | c1 :: t1 =>
        if c1 = SLASH then .dot
        else if c1 ≠ DOT then .elem
        else match t1 with
          | [] => .dotdot
          | c2 :: _ => if c2 = SLASH then .dotdot else .elem

theorem classify_eq_cls {p : Bytes} {r : Nat} (hr : r < p.length) : classify p r = some (cls (p.drop r)) := by
  have h0 : p[r]? = (p.drop r)[0]? := by rw [List.getElem?_drop]; rfl
  have h1 : p[r + 1]? = (p.drop r)[1]? := by rw [List.getElem?_drop]
  have h2 : p[r + 2]? = (p.drop r)[2]? := by rw [List.getElem?_drop]
  have hl : (p.drop r).length = p.length - r := List.length_drop
  unfold classify
  rw [h0, h1, h2]
  match hd : p.drop r, hl with
  | [], hl => simp at hl; omega
  | [c], hl =>
    have : r + 1 = p.length := by simp at hl; omega
    simp only [cls, List.getElem?_cons_zero]
    repeat' split
    all_goals simp_all
  | [c, c1], hl =>
    have e1 : r + 1 ≠ p.length := by simp at hl; omega
    have e2 : r + 2 = p.length := by simp at hl; omega
    simp only [cls, List.getElem?_cons_zero, List.getElem?_cons_succ, if_neg e1, if_pos e2]
    repeat' split
    all_goals simp_all
  | c :: c1 :: c2 :: t, hl =>
    have e1 : r + 1 ≠ p.length := by simp at hl; omega
    have e2 : r + 2 ≠ p.length := by simp at hl; omega
    simp only [cls, List.getElem?_cons_zero, List.getElem?_cons_succ, if_neg e1, if_neg e2]
    repeat' split
    all_goals simp_all


theorem dot_ne_slash : DOT ≠ SLASH := by decide

theorem cls_slash {rest : Bytes} (h : cls rest = .slash) : ∃ t, rest = SLASH :: t := by
  unfold cls at h
  repeat' split at h
  all_goals simp_all

theorem cls_dotEnd {rest : Bytes} (h : cls rest = .dotEnd) : rest = [DOT] := by
  unfold cls at h
  repeat' split at h
  all_goals simp_all

theorem cls_dot {rest : Bytes} (h : cls rest = .dot) : ∃ t, rest = DOT :: SLASH :: t := by
  unfold cls at h
  repeat' split at h
  all_goals simp_all

theorem cls_dotdot {rest : Bytes} (h : cls rest = .dotdot) :
    rest = [DOT, DOT] ∨ ∃ t, rest = DOT :: DOT :: SLASH :: t := by
  unfold cls at h
  repeat' split at h
  all_goals simp_all

theorem span_slash (rest : Bytes) :
    ∃ e rest2, rest = e ++ rest2 ∧ SLASH ∉ e ∧ (rest2 = [] ∨ ∃ t, rest2 = SLASH :: t) := by
  induction rest with
  | nil => exact ⟨[], [], rfl, by simp, Or.inl rfl⟩
  | cons c t ih =>
    by_cases hc : c = SLASH
    · exact ⟨[], c :: t, rfl, by simp, Or.inr ⟨t, by rw [hc]⟩⟩
    · obtain ⟨e, rest2, h1, h2, h3⟩ := ih
      refine ⟨c :: e, rest2, by rw [h1]; rfl, ?_, h3⟩
      intro hm
      rcases List.mem_cons.mp hm with hm | hm
      · exact hc hm.symm
      · exact h2 hm

theorem cls_elem {rest : Bytes} (hne : rest ≠ []) (h : cls rest = .elem) :
    ∃ e rest2, rest = e ++ rest2 ∧ GoodElem e ∧ (rest2 = [] ∨ ∃ t, rest2 = SLASH :: t) := by
  obtain ⟨e, rest2, h1, h2, h3⟩ := span_slash rest
  have hds := dot_ne_slash
  refine ⟨e, rest2, h1, ⟨?_, ?_, ?_, h2⟩, h3⟩
  · intro he
    subst he
    rcases h3 with h3 | ⟨t, h3⟩
    · subst h3; exact hne h1
    · subst h3; subst h1; simp [cls] at h
  · intro he
    subst he
    rcases h3 with h3 | ⟨t, h3⟩
    · subst h3; subst h1; simp [cls, hds] at h
    · subst h3; subst h1; simp [cls, hds] at h
  · intro he
    subst he
    rcases h3 with h3 | ⟨t, h3⟩
    · subst h3; subst h1; simp [cls, hds] at h
    · subst h3; subst h1; simp [cls, hds] at h

/-! ### the element copy loop -/

theorem copyElem_spec {p : Bytes} : ∀ (e : Bytes) {r w : Nat} {buf : Buf} {rest2 : Bytes},
    p.drop r = e ++ rest2 → SLASH ∉ e → (rest2 = [] ∨ ∃ t, rest2 = SLASH :: t) →
    w + e.length ≤ (view p buf).length →
    ∃ buf', copyElem p r w buf = some (r + e.length, w + e.length, buf') ∧
      (view p buf').take (w + e.length) = (view p buf).take w ++ e ∧
      (view p buf').length = (view p buf).length := by
  intro e
  induction e with
  | nil =>
    intro r w buf rest2 hd _ hb _
    refine ⟨buf, ?_, by simp, rfl⟩
    rcases hb with hb | ⟨t, hb⟩
    · subst hb
      have : ¬ r < p.length := by
        have := List.drop_eq_nil_iff.mp hd
        omega
      rw [copyElem, dif_neg this]; rfl
    · subst hb
      obtain ⟨hr, hc, _⟩ := drop_cons_iff hd
      rw [copyElem, dif_pos hr, if_pos hc]; rfl
  | cons c e ih =>
    intro r w buf rest2 hd hs hb hw
    obtain ⟨hr, hc, hd'⟩ := drop_cons_iff hd
    have hcs : p[r] ≠ SLASH := by
      rw [hc]; intro h; exact hs (by simp [h])
    have hs' : SLASH ∉ e := fun h => hs (by simp [h])
    simp only [List.length_cons] at hw
    obtain ⟨b1, hb1, hv1, hl1⟩ := bufApp_spec (p := p) (buf := buf) (w := w) p[r] (by omega)
    obtain ⟨b2, hb2, hv2, hl2⟩ := ih (r := r + 1) (w := w + 1) (buf := b1) hd' hs' hb (by rw [hl1]; omega)
    refine ⟨b2, ?_, ?_, by rw [hl2, hl1]⟩
    · rw [copyElem, dif_pos hr, if_neg hcs, hb1]
      simp only [List.length_cons]
      rw [hb2]
      have e1 : r + 1 + e.length = r + (e.length + 1) := by omega
      have e2 : w + 1 + e.length = w + (e.length + 1) := by omega
      rw [e1, e2]
    · simp only [List.length_cons]
      have : w + (e.length + 1) = w + 1 + e.length := by omega
      rw [this, hv2, hv1, hc]
      simp

/-! ### the specification on a suffix -/

def lastDot (rest : Bytes) : Bool := (splitSlash rest).getLast? == some [DOT]

theorem getLast?_cons_of_ne_nil {α : Type} {a : α} {l : List α} (h : l ≠ []) : (a :: l).getLast? = l.getLast? := by
  cases l with
  | nil => exact absurd rfl h
  | cons b l => exact List.getLast?_cons_cons

theorem fold_slash (st : List Bytes) (t : Bytes) :
    (splitSlash (SLASH :: t)).foldl push st = (splitSlash t).foldl push st ∧ lastDot (SLASH :: t) = lastDot t := by
  rw [lastDot, lastDot, splitSlash_cons_slash, getLast?_cons_of_ne_nil (splitSlash_ne_nil t)]
  simp [push_nil]

theorem fold_elem (st : List Bytes) {e rest2 : Bytes} (hg : GoodElem e)
    (hb : rest2 = [] ∨ ∃ t, rest2 = SLASH :: t) :
    (splitSlash (e ++ rest2)).foldl push st = (splitSlash rest2).foldl push (e :: st) ∧
      lastDot (e ++ rest2) = lastDot rest2 := by
  rcases hb with hb | ⟨t, hb⟩
  · subst hb
    have h2 := hg.2.1
    simp [lastDot, splitSlash_noslash hg.2.2.2, push_of_good hg, splitSlash, push_nil, h2]
  · subst hb
    rw [lastDot, lastDot, splitSlash_append_slash, splitSlash_noslash hg.2.2.2, splitSlash_cons_slash]
    simp only [List.singleton_append, List.foldl_cons, push_of_good hg, push_nil]
    rw [getLast?_cons_of_ne_nil (splitSlash_ne_nil t), getLast?_cons_of_ne_nil (splitSlash_ne_nil t)]
    simp


/-! ### one iteration of the main loop -/

theorem loop_exit {p : Bytes} {r w : Nat} {buf : Buf} {tr : Bool} (hr : ¬ r < p.length) :
    loop p r w buf tr = some (w, buf, tr) := by
  rw [loop, dif_neg hr]

theorem loop_slash {p : Bytes} {r w : Nat} {buf : Buf} {tr : Bool} (hr : r < p.length)
    (hc : classify p r = some .slash) : loop p r w buf tr = loop p (r + 1) w buf tr := by
  rw [loop, dif_pos hr]
  split <;> simp_all

theorem loop_dotEnd {p : Bytes} {r w : Nat} {buf : Buf} {tr : Bool} (hr : r < p.length)
    (hc : classify p r = some .dotEnd) : loop p r w buf tr = loop p (r + 1) w buf true := by
  rw [loop, dif_pos hr]
  split <;> simp_all

theorem loop_dot {p : Bytes} {r w : Nat} {buf : Buf} {tr : Bool} (hr : r < p.length)
    (hc : classify p r = some .dot) : loop p r w buf tr = loop p (r + 2) w buf tr := by
  rw [loop, dif_pos hr]
  split <;> simp_all

theorem loop_dotdot {p : Bytes} {r w w' : Nat} {buf : Buf} {tr : Bool} (hr : r < p.length)
    (hc : classify p r = some .dotdot) (hb : backtrack p buf w = some w') :
    loop p r w buf tr = loop p (r + 3) w' buf tr := by
  rw [loop, dif_pos hr]
  split <;> simp_all

theorem loop_elem {p : Bytes} {r w w1 r' w' : Nat} {buf buf1 buf' : Buf} {tr : Bool} (hr : r < p.length)
    (hc : classify p r = some .elem) (ha : addSlash p buf w = some (w1, buf1))
    (he : copyElem p r w1 buf1 = some (r', w', buf')) :
    loop p r w buf tr = loop p r' w' buf' tr := by
  rw [loop, dif_pos hr]
  split <;> simp_all
  split <;> simp_all


/-! ### the invariant -/

/-- the surviving elements (top of the stack first) printed without the leading-root special case -/
def jr (st : List Bytes) : Bytes := join st.reverse

/-- what has been written so far: "/" for the empty stack, "/a/b" otherwise -/
def outOf (st : List Bytes) : Bytes := if st = [] then [SLASH] else jr st

theorem jr_cons (e : Bytes) (st : List Bytes) : jr (e :: st) = jr st ++ SLASH :: e := by
  simp [jr, join]

theorem jr_length_ge {st : List Bytes} (hne : st ≠ []) (hg : ∀ e ∈ st, GoodElem e) : 2 ≤ (jr st).length := by
  cases st with
  | nil => exact absurd rfl hne
  | cons e st =>
    rw [jr_cons]
    have : e ≠ [] := (hg e (by simp)).1
    have : 1 ≤ e.length := by
      cases e with
      | nil => exact absurd rfl this
      | cons _ _ => simp
    simp; omega

theorem outOf_length_one_lt {st : List Bytes} (hg : ∀ e ∈ st, GoodElem e) : 1 < (outOf st).length ↔ st ≠ [] := by
  unfold outOf
  by_cases h : st = []
  · simp [h]
  · have := jr_length_ge h hg
    simp [h]; omega

theorem max_one_jr {st : List Bytes} (hg : ∀ e ∈ st, GoodElem e) : max 1 (jr st).length = (outOf st).length := by
  unfold outOf
  by_cases h : st = []
  · simp [h, jr, join]
  · have := jr_length_ge h hg
    simp [h]; omega

/-- Loop invariant of `CleanPath` at the head of the main loop. `L` is the length of the (virtual) buffer:
    `len(p)` for a rooted input, `len(p)+1` otherwise. -/
structure Inv (p : Bytes) (L r w : Nat) (buf : Buf) (tr : Bool) (st : List Bytes) : Prop where
  good : ∀ e ∈ st, GoodElem e
  len : (outOf st).length = w
  vw : (view p buf).take w = outOf st
  blen : (view p buf).length = L
  slack : w + (p.drop r).length ≤ L
  strict : 1 < w → w + (p.drop r).length < L ∨ p.drop r = [] ∨ ∃ t, p.drop r = SLASH :: t
  trail : tr = true →
    (p.drop r ≠ [] ∧ (p.drop r).getLast? = some SLASH) ∨ (p.drop r = [] ∧ (1 < w → w < L))

/-- a step that consumes a non-empty piece `x` of the input and does not grow the output -/
theorem Inv.advance {p : Bytes} {L r w : Nat} {buf : Buf} {tr : Bool} {st : List Bytes}
    (h : Inv p L r w buf tr st) {x t : Bytes} {r' w' : Nat} {tr' : Bool} {st' : List Bytes}
    (hd : p.drop r = x ++ t) (hd' : p.drop r' = t) (hx : x ≠ []) (hw : w' ≤ w)
    (hgood : ∀ e ∈ st', GoodElem e) (hlen : (outOf st').length = w')
    (hvw : (view p buf).take w' = outOf st') (htr : tr' = true → t ≠ [] → tr = true) :
    Inv p L r' w' buf tr' st' := by
  have hxl : 1 ≤ x.length := by
    cases x with
    | nil => exact absurd rfl hx
    | cons _ _ => simp
  have hs := h.slack
  rw [hd] at hs
  simp only [List.length_append] at hs
  refine ⟨hgood, hlen, hvw, h.blen, by rw [hd']; omega, fun _ => Or.inl (by rw [hd']; omega), ?_⟩
  intro ht
  rw [hd']
  by_cases hte : t = []
  · right
    refine ⟨hte, fun _ => ?_⟩
    omega
  · left
    refine ⟨hte, ?_⟩
    rcases h.trail (htr ht hte) with ⟨_, h2⟩ | ⟨h1, _⟩
    · rw [hd, List.getLast?_append] at h2
      cases hl : t.getLast? with
      | none => exact absurd (List.getLast?_eq_none_iff.mp hl) hte
      | some c => rw [hl] at h2; simpa using h2
    · rw [hd] at h1
      simp at h1
      exact absurd h1.2 hte


theorem backtrack_spec {p : Bytes} {L r w : Nat} {buf : Buf} {tr : Bool} {st : List Bytes}
    (h : Inv p L r w buf tr st) :
    ∃ w', backtrack p buf w = some w' ∧ w' ≤ w ∧ (outOf st.tail).length = w' ∧
      (view p buf).take w' = outOf st.tail := by
  cases st with
  | nil =>
    have hw : w = 1 := by have := h.len; simp [outOf] at this; omega
    refine ⟨w, ?_, Nat.le_refl _, ?_, ?_⟩
    · simp [backtrack, hw]
    · simp [outOf, hw]
    · simpa using h.vw
  | cons e st' =>
    have hg' : ∀ x ∈ st', GoodElem x := fun x hx => h.good x (by simp [hx])
    have hge := h.good e (by simp)
    have hout : outOf (e :: st') = jr st' ++ SLASH :: e := by simp [outOf, jr_cons]
    have hlen : (jr st' ++ SLASH :: e).length = w := by rw [← hout]; exact h.len
    have hvw : (view p buf).take w = jr st' ++ SLASH :: e := by rw [← hout]; exact h.vw
    have hel : 1 ≤ e.length := by
      cases e with
      | nil => exact absurd rfl hge.1
      | cons _ _ => simp
    have hsc := scanBack_spec hvw hlen hge.2.2.2 e.length (Nat.le_refl _) (by omega)
    have hw1 : w - 1 = (jr st').length + e.length := by
      simp at hlen; omega
    have hmax := max_one_jr hg'
    refine ⟨max 1 (jr st').length, ?_, ?_, ?_, ?_⟩
    · have : 1 < w := by simp at hlen; omega
      simp only [backtrack, if_pos this, hw1]
      exact hsc
    · simp at hlen; omega
    · simpa using hmax.symm
    · have hle : max 1 (jr st').length ≤ w := by simp at hlen; omega
      have : (view p buf).take (max 1 (jr st').length) = ((view p buf).take w).take (max 1 (jr st').length) := by
        rw [List.take_take, Nat.min_eq_left hle]
      rw [this, hvw]
      simp only [List.tail_cons]
      by_cases hst : st' = []
      · subst hst
        simp [jr, join, outOf]
      · have h2 := jr_length_ge hst hg'
        have hm : max 1 (jr st').length = (jr st').length := by omega
        rw [hm, List.take_left' rfl]
        simp [outOf, hst]

theorem addSlash_spec {p : Bytes} {L r w : Nat} {buf : Buf} {tr : Bool} {st : List Bytes}
    (h : Inv p L r w buf tr st) (hlt : 1 < w → w < L) :
    ∃ w1 buf1, addSlash p buf w = some (w1, buf1) ∧ (view p buf1).length = L ∧
      w1 = (if 1 < w then w + 1 else w) ∧
      (view p buf1).take w1 = (if st = [] then [] else jr st) ++ [SLASH] := by
  by_cases hw : 1 < w
  · have hst : st ≠ [] := (outOf_length_one_lt h.good).mp (by rw [h.len]; exact hw)
    obtain ⟨b1, hb1, hv1, hl1⟩ := bufApp_spec (p := p) (buf := buf) (w := w) SLASH (by rw [h.blen]; exact hlt hw)
    refine ⟨w + 1, b1, ?_, by rw [hl1, h.blen], by simp [hw], ?_⟩
    · simp [addSlash, hw, hb1]
    · rw [hv1, h.vw]; simp [outOf, hst]
  · have hst : st = [] := by
      by_cases hst : st = []
      · exact hst
      · exact absurd ((outOf_length_one_lt h.good).mpr hst) (by rw [h.len]; exact hw)
    refine ⟨w, buf, ?_, h.blen, by simp [hw], ?_⟩
    · simp [addSlash, hw]
    · rw [h.vw]; simp [outOf, hst]


/-! ### the main loop computes the stack of the remaining input -/

theorem loop_spec (p : Bytes) (L : Nat) : ∀ (k r w : Nat) (buf : Buf) (tr : Bool) (st : List Bytes),
    p.length - r ≤ k → Inv p L r w buf tr st →
    ∃ r' w' buf', p.length ≤ r' ∧
      loop p r w buf tr = some (w', buf', tr || lastDot (p.drop r)) ∧
      Inv p L r' w' buf' (tr || lastDot (p.drop r)) ((splitSlash (p.drop r)).foldl push st) := by
  intro k
  induction k with
  | zero =>
    intro r w buf tr st hk h
    have hr : ¬ r < p.length := by omega
    have hd : p.drop r = [] := List.drop_eq_nil_iff.mpr (by omega)
    refine ⟨r, w, buf, by omega, ?_, ?_⟩
    · rw [loop_exit hr, hd]; simp [lastDot, splitSlash]
    · rw [hd]; simpa [lastDot, splitSlash, push_nil] using h
  | succ k ih =>
    intro r w buf tr st hk h
    by_cases hr : r < p.length
    · have hcl := classify_eq_cls hr
      have hne : p.drop r ≠ [] := by
        intro h0; have := List.drop_eq_nil_iff.mp h0; omega
      cases hc : cls (p.drop r) with
      | slash =>
        rw [hc] at hcl
        obtain ⟨t, ht⟩ := cls_slash hc
        obtain ⟨_, _, hd'⟩ := drop_cons_iff ht
        have h' : Inv p L (r + 1) w buf tr st :=
          h.advance (x := [SLASH]) (t := t) (by simpa using ht) hd' (by simp) (Nat.le_refl _) h.good h.len h.vw
            (fun a _ => a)
        obtain ⟨r', w', buf', h1, h2, h3⟩ := ih (r + 1) w buf tr st (by omega) h'
        rw [hd'] at h2 h3
        obtain ⟨f1, f2⟩ := fold_slash st t
        exact ⟨r', w', buf', h1, by rw [loop_slash hr hcl, ht, f2]; exact h2, by rw [ht, f1, f2]; exact h3⟩
      | dotEnd =>
        rw [hc] at hcl
        have ht := cls_dotEnd hc
        obtain ⟨_, _, hd'⟩ := drop_cons_iff ht
        have h' : Inv p L (r + 1) w buf true st :=
          h.advance (x := [DOT]) (t := []) (by simpa using ht) hd' (by simp) (Nat.le_refl _) h.good h.len h.vw
            (fun _ a => absurd rfl a)
        obtain ⟨r', w', buf', h1, h2, h3⟩ := ih (r + 1) w buf true st (by omega) h'
        rw [hd'] at h2 h3
        have f1 : (splitSlash [DOT]).foldl push st = (splitSlash []).foldl push st := by
          simp [splitSlash, dot_ne_slash, push_dot, push_nil]
        have f2 : lastDot [DOT] = true := by simp [lastDot, splitSlash, dot_ne_slash]
        have f3 : lastDot [] = false := by simp [lastDot, splitSlash]
        rw [f3] at h2 h3
        refine ⟨r', w', buf', h1, ?_, ?_⟩
        · rw [loop_dotEnd hr hcl, ht, f2]; simpa using h2
        · rw [ht, f1, f2]; simpa using h3
      | dot =>
        rw [hc] at hcl
        obtain ⟨t, ht⟩ := cls_dot hc
        have hd' : p.drop (r + 2) = t := by
          have := List.drop_drop (i := 2) (j := r) (l := p)
          rw [ht] at this
          simpa using this.symm
        have h' : Inv p L (r + 2) w buf tr st :=
          h.advance (x := [DOT, SLASH]) (t := t) (by simpa using ht) hd' (by simp) (Nat.le_refl _) h.good h.len h.vw
            (fun a _ => a)
        obtain ⟨r', w', buf', h1, h2, h3⟩ := ih (r + 2) w buf tr st (by omega) h'
        rw [hd'] at h2 h3
        have hsp : splitSlash (DOT :: SLASH :: t) = [DOT] :: splitSlash t := by
          have := splitSlash_append_slash [DOT] t
          simpa [splitSlash, dot_ne_slash] using this
        have f1 : (splitSlash (DOT :: SLASH :: t)).foldl push st = (splitSlash t).foldl push st := by
          rw [hsp]; simp [push_dot]
        have f2 : lastDot (DOT :: SLASH :: t) = lastDot t := by
          rw [lastDot, lastDot, hsp, getLast?_cons_of_ne_nil (splitSlash_ne_nil t)]
        exact ⟨r', w', buf', h1, by rw [loop_dot hr hcl, ht, f2]; exact h2, by rw [ht, f1, f2]; exact h3⟩
      | dotdot =>
        rw [hc] at hcl
        obtain ⟨wb, hb1, hb2, hb3, hb4⟩ := backtrack_spec h
        have hgt : ∀ e ∈ st.tail, GoodElem e := fun e he => h.good e (List.mem_of_mem_tail he)
        rcases cls_dotdot hc with ht | ⟨t, ht⟩
        · have hd' : p.drop (r + 3) = [] := by
            apply List.drop_eq_nil_iff.mpr
            have := congrArg List.length ht
            simp at this; omega
          have h' : Inv p L (r + 3) wb buf tr st.tail :=
            h.advance (x := [DOT, DOT]) (t := []) (by simpa using ht) hd' (by simp) hb2 hgt hb3 hb4
              (fun _ a => absurd rfl a)
          obtain ⟨r', w', buf', h1, h2, h3⟩ := ih (r + 3) wb buf tr st.tail (by omega) h'
          rw [hd'] at h2 h3
          have f1 : (splitSlash [DOT, DOT]).foldl push st = (splitSlash []).foldl push st.tail := by
            simp [splitSlash, dot_ne_slash, push_dotdot, push_nil]
          have f2 : lastDot [DOT, DOT] = lastDot [] := by
            simp [lastDot, splitSlash, dot_ne_slash]
          exact ⟨r', w', buf', h1, by rw [loop_dotdot hr hcl hb1, ht, f2]; exact h2, by rw [ht, f1, f2]; exact h3⟩
        · have hd' : p.drop (r + 3) = t := by
            have := List.drop_drop (i := 3) (j := r) (l := p)
            rw [ht] at this
            simpa using this.symm
          have h' : Inv p L (r + 3) wb buf tr st.tail :=
            h.advance (x := [DOT, DOT, SLASH]) (t := t) (by simpa using ht) hd' (by simp) hb2 hgt hb3 hb4
              (fun a _ => a)
          obtain ⟨r', w', buf', h1, h2, h3⟩ := ih (r + 3) wb buf tr st.tail (by omega) h'
          rw [hd'] at h2 h3
          have hsp : splitSlash (DOT :: DOT :: SLASH :: t) = [DOT, DOT] :: splitSlash t := by
            have := splitSlash_append_slash [DOT, DOT] t
            simpa [splitSlash, dot_ne_slash] using this
          have f1 : (splitSlash (DOT :: DOT :: SLASH :: t)).foldl push st = (splitSlash t).foldl push st.tail := by
            rw [hsp]; simp [push_dotdot]
          have f2 : lastDot (DOT :: DOT :: SLASH :: t) = lastDot t := by
            rw [lastDot, lastDot, hsp, getLast?_cons_of_ne_nil (splitSlash_ne_nil t)]
          exact ⟨r', w', buf', h1, by rw [loop_dotdot hr hcl hb1, ht, f2]; exact h2, by rw [ht, f1, f2]; exact h3⟩
      | elem =>
        rw [hc] at hcl
        obtain ⟨e, rest2, hd, hg, hb⟩ := cls_elem hne hc
        have hel : 1 ≤ e.length := by
          cases e with
          | nil => exact absurd rfl hg.1
          | cons _ _ => simp
        have hdl : (p.drop r).length = e.length + rest2.length := by rw [hd]; simp
        -- the element does not start with a slash, so there is room for the separating slash
        have hroom : 1 < w → w + (p.drop r).length < L := by
          intro hw
          rcases h.strict hw with h1 | h1 | ⟨t, h1⟩
          · exact h1
          · exact absurd h1 hne
          · exfalso
            rw [hd] at h1
            cases e with
            | nil => exact hg.1 rfl
            | cons c e' =>
              simp at h1
              exact hg.2.2.2 (by simp [h1.1])
        have hsl := h.slack
        obtain ⟨w1, buf1, ha1, ha2, ha3, ha4⟩ := addSlash_spec h (fun hw => by have := hroom hw; omega)
        have hw1 : w1 + e.length ≤ (view p buf1).length := by
          rw [ha2, ha3]
          by_cases hw : 1 < w
          · have := hroom hw; simp [hw]; omega
          · simp [hw]; omega
        obtain ⟨buf2, hc1, hc2, hc3⟩ := copyElem_spec (p := p) e (r := r) (w := w1) (buf := buf1) hd hg.2.2.2 hb hw1
        have hd' : p.drop (r + e.length) = rest2 := by
          have := List.drop_drop (i := e.length) (j := r) (l := p)
          rw [hd] at this
          simpa using this.symm
        have hout : outOf (e :: st) = (if st = [] then [] else jr st) ++ [SLASH] ++ e := by
          by_cases hst : st = []
          · simp [outOf, hst, jr, join]
          · simp [outOf, hst, jr_cons]
        have hw1v : w1 = ((if st = [] then [] else jr st) ++ [SLASH]).length := by
          rw [← ha4, List.length_take, ha2]
          have : w1 ≤ L := by rw [ha2] at hw1; omega
          omega
        have h' : Inv p L (r + e.length) (w1 + e.length) buf2 tr (e :: st) := by
          refine ⟨?_, ?_, ?_, by rw [hc3, ha2], ?_, ?_, ?_⟩
          · intro x hx
            rcases List.mem_cons.mp hx with hx | hx
            · exact hx ▸ hg
            · exact h.good x hx
          · rw [hout, List.length_append, ← hw1v]
          · rw [hc2, ha4, hout]
          · rw [hd']
            rw [ha2] at hw1
            by_cases hw : 1 < w
            · have := hroom hw; rw [ha3]; simp [hw]; omega
            · rw [ha3]; simp [hw]; omega
          · intro _
            right
            rw [hd']
            rcases hb with hb | ⟨t, hb⟩
            · exact Or.inl hb
            · exact Or.inr ⟨t, hb⟩
          · intro ht
            rw [hd']
            rcases h.trail ht with ⟨_, h2⟩ | ⟨h1, _⟩
            · left
              have hr2 : rest2 ≠ [] := by
                intro h0
                rw [hd, h0, List.append_nil] at h2
                exact hg.2.2.2 (List.mem_of_getLast? h2)
              refine ⟨hr2, ?_⟩
              rw [hd, List.getLast?_append] at h2
              cases hl : rest2.getLast? with
              | none => exact absurd (List.getLast?_eq_none_iff.mp hl) hr2
              | some c => rw [hl] at h2; simpa using h2
            · exact absurd h1 hne
        obtain ⟨r', w', buf', h1, h2, h3⟩ := ih (r + e.length) (w1 + e.length) buf2 tr (e :: st) (by omega) h'
        rw [hd'] at h2 h3
        obtain ⟨f1, f2⟩ := fold_elem st hg hb
        exact ⟨r', w', buf', h1, by rw [loop_elem hr hcl ha1 hc1, hd, f2]; exact h2, by rw [hd, f1, f2]; exact h3⟩
    · have hd : p.drop r = [] := List.drop_eq_nil_iff.mpr (by omega)
      refine ⟨r, w, buf, by omega, ?_, ?_⟩
      · rw [loop_exit hr, hd]; simp [lastDot, splitSlash]
      · rw [hd]; simpa [lastDot, splitSlash, push_nil] using h


/-! ### before and after the loop -/

theorem wantsTrailing_eq (p : Bytes) :
    wantsTrailing p = (decide (p = [] ∨ p.getLast? = some SLASH) || lastDot p) := by
  unfold wantsTrailing lastDot
  cases hs : (splitSlash p).getLast? with
  | none => exact absurd (List.getLast?_eq_none_iff.mp hs) (splitSlash_ne_nil p)
  | some l =>
    have hiff : l = [] ↔ (p = [] ∨ p.getLast? = some SLASH) := by
      have := lastElem_nil_iff p
      rw [hs] at this
      simpa using this
    by_cases hl : l = []
    · have := hiff.mp hl
      simp [hl, this]
    · have hn : ¬ (p = [] ∨ p.getLast? = some SLASH) := fun h => hl (hiff.mpr h)
      simp [hl, hn]

/-- the result of the loop, given the invariant at its start, is the specification -/
theorem finish_spec {p : Bytes} {L r w : Nat} {buf : Buf} {tr : Bool} {st : List Bytes}
    (h : Inv p L r w buf tr st) (hr : p.length ≤ r) :
    finish p w buf tr = some (if st = [] then [SLASH] else jr st ++ (if tr then [SLASH] else [])) := by
  have hd : p.drop r = [] := List.drop_eq_nil_iff.mpr hr
  have hsl := h.slack
  rw [hd] at hsl
  simp at hsl
  by_cases hw : 1 < w
  · have hst : st ≠ [] := (outOf_length_one_lt h.good).mp (by rw [h.len]; exact hw)
    cases htr : tr with
    | true =>
      have hlt : w < L := by
        rcases h.trail htr with ⟨h1, _⟩ | ⟨_, h2⟩
        · exact absurd hd h1
        · exact h2 hw
      obtain ⟨b1, hb1, hv1, hl1⟩ := bufApp_spec (p := p) (buf := buf) (w := w) SLASH (by rw [h.blen]; exact hlt)
      have : w + 1 ≤ (view p b1).length := by rw [hl1, h.blen]; omega
      simp only [finish, hw, and_self, if_true, hb1, slice, if_pos this, hv1, h.vw]
      simp [outOf, hst]
    | false =>
      have : w ≤ (view p buf).length := by rw [h.blen]; exact hsl
      simp only [finish, Bool.false_eq_true, false_and, if_false, slice, if_pos this, h.vw]
      simp [outOf, hst]
  · have hst : st = [] := by
      by_cases hst : st = []
      · exact hst
      · exact absurd ((outOf_length_one_lt h.good).mpr hst) (by rw [h.len]; exact hw)
    have : w ≤ (view p buf).length := by rw [h.blen]; exact hsl
    simp only [finish, hw, and_false, if_false, slice, if_pos this, h.vw]
    simp [outOf, hst]

theorem cleanPathO_eq_spec (p : Bytes) : cleanPathO p = some (Spec.Clean.clean p) := by
  cases p with
  | nil => decide
  | cons c t =>
    · -- initial state and invariant
      have hn : (c :: t) ≠ [] := by simp
      have hlast : (c :: t)[(c :: t).length - 1]? = (c :: t).getLast? := List.getLast?_eq_getElem?.symm
      -- `trailing` before the loop
      obtain ⟨tr0, htr0, htr0v⟩ : ∃ tr0, initTrailing (c :: t) = some tr0 ∧
          (tr0 = true ↔ t ≠ [] ∧ (c :: t).getLast? = some SLASH) := by
        unfold initTrailing
        by_cases hl : (c :: t).length > 1
        · rw [if_pos hl, hlast]
          have ht : t ≠ [] := by intro h; simp [h] at hl
          cases hg : (c :: t).getLast? with
          | none => exact absurd (List.getLast?_eq_none_iff.mp hg) hn
          | some x => exact ⟨x == SLASH, rfl, by simp [ht]⟩
        · rw [if_neg hl]
          have ht : t = [] := by
            cases t with
            | nil => rfl
            | cons _ _ => simp at hl
          exact ⟨false, rfl, by simp [ht]⟩
      have key : ∀ (r0 : Nat) (buf0 : Buf) (L : Nat), start (c :: t) = some (r0, 1, buf0) →
          Inv (c :: t) L r0 1 buf0 tr0 [] →
          (splitSlash ((c :: t).drop r0)).foldl push [] = (splitSlash (c :: t)).foldl push [] →
          lastDot ((c :: t).drop r0) = lastDot (c :: t) →
          cleanPathO (c :: t) = some (Spec.Clean.clean (c :: t)) := by
        intro r0 buf0 L hs hinv hf hl
        obtain ⟨r', w', buf', h1, h2, h3⟩ := loop_spec (c :: t) L _ r0 1 buf0 tr0 [] (Nat.le_refl _) hinv
        have hfin := finish_spec h3 h1
        simp only [cleanPathO, if_neg hn, hs, htr0, h2, hfin]
        rw [hf, hl]
        unfold Spec.Clean.clean stack
        congr 1
        by_cases hst : (splitSlash (c :: t)).foldl push [] = []
        · simp [hst]
        · simp only [hst, if_false, List.reverse_eq_nil_iff, jr]
          congr 1
          -- the trailing decision
          rw [wantsTrailing_eq]
          have : tr0 = decide (c :: t = [] ∨ (c :: t).getLast? = some SLASH) := by
            by_cases hsl : (c :: t).getLast? = some SLASH
            · have ht : t ≠ [] := by
                intro ht
                subst ht
                simp at hsl
                subst hsl
                exact hst (by decide)
              have : tr0 = true := htr0v.mpr ⟨ht, hsl⟩
              simp [this, hsl]
            · have : tr0 = false := by
                cases htr : tr0 with
                | false => rfl
                | true => exact absurd (htr0v.mp htr).2 hsl
              simp [this, hsl]
          rw [this]
      by_cases hc : c = SLASH
      · subst hc
        refine key 1 none (SLASH :: t).length (by simp [start]) ?_ ?_ ?_
        · refine ⟨by simp, by simp [outOf], by simp [view, outOf], by simp [view], by simp; omega, by simp, ?_⟩
          intro htr
          left
          have := htr0v.mp htr
          have ht : t ≠ [] := this.1
          refine ⟨by simpa using ht, ?_⟩
          rw [← this.2]
          simp [getLast?_cons_of_ne_nil ht]
        · simp [splitSlash_cons_slash, push_nil]
        · simp only [List.drop_one, List.tail_cons]
          exact (fold_slash [] t).2.symm
      · refine key 0 (some (SLASH :: List.replicate (c :: t).length 0)) ((c :: t).length + 1) ?_ ?_ (by simp) (by simp)
        · simp [start, hc, setAt, List.replicate_succ]
        · refine ⟨by simp, by simp [outOf], by simp [view, outOf], by simp [view], by simp; omega, by simp, ?_⟩
          intro htr
          left
          have := htr0v.mp htr
          exact ⟨by simp, by simpa using this.2⟩

/-- `fox.CleanPath` (as modelled) never panics and returns the lexical canonical form, for every input. -/
theorem cleanPath_eq_spec (p : Bytes) : cleanPath p = .ok (Spec.Clean.clean p) := by
  simp [cleanPath, cleanPathO_eq_spec]

end Fox.Model.Clean
