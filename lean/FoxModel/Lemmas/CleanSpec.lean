import FoxModel.Spec.Clean
/-
  FoxModel.Lemmas.CleanSpec — lemmas about the lexical specification of the canonical path
  (splitting is a homomorphism for "/", the stack keeps only proper elements, joining and splitting are inverse).
-/
namespace Fox.Spec.Clean
open Fox

theorem splitSlash_ne_nil (p : Bytes) : splitSlash p ≠ [] := by
  cases p with
  | nil => simp [splitSlash]
  | cons b bs =>
    unfold splitSlash
    split
    · simp
    · split <;> simp

theorem splitSlash_cons_slash (t : Bytes) : splitSlash (SLASH :: t) = [] :: splitSlash t := by
  simp [splitSlash]

/-- split (x ++ "/" ++ y) = split x ++ split y -/
theorem splitSlash_append_slash (x y : Bytes) :
    splitSlash (x ++ SLASH :: y) = splitSlash x ++ splitSlash y := by
  induction x with
  | nil => simp [splitSlash]
  | cons b x ih =>
    by_cases hb : b = SLASH
    · simp [splitSlash, hb, ih]
    · have hx := splitSlash_ne_nil x
      cases hsx : splitSlash x with
      | nil => exact absurd hsx hx
      | cons e es =>
        simp only [List.cons_append, splitSlash, if_neg hb, ih, hsx]

/-- prefixing slash-free bytes extends the first element -/
theorem splitSlash_prefix {e x h : Bytes} {t : List Bytes} (he : SLASH ∉ e) (hx : splitSlash x = h :: t) :
    splitSlash (e ++ x) = (e ++ h) :: t := by
  induction e with
  | nil => simpa using hx
  | cons b e ih =>
    have hb : b ≠ SLASH := fun h => he (by simp [h])
    have he' : SLASH ∉ e := fun h => he (by simp [h])
    simp only [List.cons_append, splitSlash, if_neg hb, ih he']

theorem splitSlash_noslash {e : Bytes} (he : SLASH ∉ e) : splitSlash e = [e] := by
  have := splitSlash_prefix (x := []) (h := []) (t := []) he (by simp [splitSlash])
  simpa using this

theorem mem_splitSlash_noslash {p e : Bytes} (h : e ∈ splitSlash p) : SLASH ∉ e := by
  induction p generalizing e with
  | nil => simp [splitSlash] at h; simp [h]
  | cons b bs ih =>
    by_cases hb : b = SLASH
    · simp only [splitSlash, if_pos hb, List.mem_cons] at h
      rcases h with h | h
      · simp [h]
      · exact ih h
    · cases hs : splitSlash bs with
      | nil => exact absurd hs (splitSlash_ne_nil bs)
      | cons e0 es =>
        simp only [splitSlash, if_neg hb, hs, List.mem_cons] at h
        rcases h with h | h
        · subst h
          have h0 : SLASH ∉ e0 := ih (by simp [hs])
          intro hm
          rcases List.mem_cons.mp hm with hm | hm
          · exact hb hm.symm
          · exact h0 hm
        · exact ih (by simp [hs, h])

theorem join_cons (e : Bytes) (st : List Bytes) : join (e :: st) = SLASH :: (e ++ join st) := by
  simp [join]

theorem join_append (a b : List Bytes) : join (a ++ b) = join a ++ join b := by
  simp [join]

theorem splitSlash_join {st : List Bytes} (h : ∀ e ∈ st, SLASH ∉ e) : splitSlash (join st) = [] :: st := by
  induction st with
  | nil => simp [join, splitSlash]
  | cons e st ih =>
    have ih' := ih (fun x hx => h x (by simp [hx]))
    rw [join_cons, splitSlash_cons_slash, splitSlash_prefix (h e (by simp)) ih']
    simp

/-! ### the stack -/

theorem push_good {st : List Bytes} {e : Bytes} (hst : ∀ x ∈ st, GoodElem x) (he : SLASH ∉ e) :
    ∀ x ∈ push st e, GoodElem x := by
  unfold push
  split
  · exact hst
  · rename_i h1
    split
    · intro x hx
      exact hst x (List.mem_of_mem_tail hx)
    · rename_i h2
      intro x hx
      rcases List.mem_cons.mp hx with hx | hx
      · subst hx
        exact ⟨fun h => h1 (Or.inl h), fun h => h1 (Or.inr h), h2, he⟩
      · exact hst x hx

theorem foldl_push_good {l : List Bytes} {acc : List Bytes} (hl : ∀ e ∈ l, SLASH ∉ e)
    (hacc : ∀ x ∈ acc, GoodElem x) : ∀ x ∈ l.foldl push acc, GoodElem x := by
  induction l generalizing acc with
  | nil => simpa using hacc
  | cons e l ih =>
    simp only [List.foldl_cons]
    exact ih (fun x hx => hl x (by simp [hx])) (push_good hacc (hl e (by simp)))

theorem stack_good (p : Bytes) : ∀ e ∈ stack p, GoodElem e := by
  intro e he
  unfold stack at he
  rw [List.mem_reverse] at he
  exact foldl_push_good (fun x hx => mem_splitSlash_noslash hx) (by simp) e he

theorem push_of_good {st : List Bytes} {e : Bytes} (he : GoodElem e) : push st e = e :: st := by
  unfold push
  rw [if_neg (by intro h; rcases h with h | h; exact he.1 h; exact he.2.1 h), if_neg he.2.2.1]

theorem foldl_push_of_good {l acc : List Bytes} (hl : ∀ e ∈ l, GoodElem e) :
    l.foldl push acc = l.reverse ++ acc := by
  induction l generalizing acc with
  | nil => simp
  | cons e l ih =>
    simp only [List.foldl_cons, push_of_good (hl e (by simp))]
    rw [ih (fun x hx => hl x (by simp [hx]))]
    simp

theorem push_nil (st : List Bytes) : push st [] = st := by simp [push]

theorem push_dot (st : List Bytes) : push st [DOT] = st := by simp [push]

theorem push_dotdot (st : List Bytes) : push st [DOT, DOT] = st.tail := by
  unfold push
  rw [if_neg (by decide), if_pos rfl]

/-! ### last character of a joined path -/

theorem getLast?_join_ne_slash {st : List Bytes} (hne : st ≠ []) (h : ∀ e ∈ st, GoodElem e) :
    (join st).getLast? ≠ some SLASH := by
  have hst : st = st.dropLast ++ [st.getLast hne] := (List.dropLast_concat_getLast hne).symm
  have hg := h _ (List.getLast_mem hne)
  rw [hst, join_append]
  simp only [join, List.flatMap_cons, List.flatMap_nil, List.append_nil]
  rw [List.getLast?_append]
  have hcons : (SLASH :: st.getLast hne).getLast? = (st.getLast hne).getLast? := by
    cases hl : st.getLast hne with
    | nil => exact absurd hl hg.1
    | cons a l => simp [List.getLast?_cons_cons]
  rw [hcons]
  cases hl : (st.getLast hne).getLast? with
  | none =>
    rw [List.getLast?_eq_none_iff] at hl
    exact absurd hl hg.1
  | some c =>
    simp only [Option.some_or]
    intro hc
    injection hc with hc
    subst hc
    exact hg.2.2.2 (List.mem_of_getLast? hl)

/-! ### the last element of the split -/

theorem splitSlash_eq_singleton_nil {bs : Bytes} (h : splitSlash bs = [[]]) : bs = [] := by
  cases bs with
  | nil => rfl
  | cons c cs =>
    exfalso
    by_cases hc : c = SLASH
    · simp [splitSlash, hc, splitSlash_ne_nil] at h
    · cases hs : splitSlash cs with
      | nil => exact absurd hs (splitSlash_ne_nil cs)
      | cons e es => simp [splitSlash, hc, hs] at h

/-- the last element of the split is empty exactly when the input is empty or ends with a slash -/
theorem lastElem_nil_iff (p : Bytes) :
    (splitSlash p).getLast? = some [] ↔ (p = [] ∨ p.getLast? = some SLASH) := by
  induction p with
  | nil => simp [splitSlash]
  | cons b bs ih =>
    by_cases hb : b = SLASH
    · subst hb
      rw [splitSlash_cons_slash]
      cases hs : splitSlash bs with
      | nil => exact absurd hs (splitSlash_ne_nil bs)
      | cons e es =>
        rw [List.getLast?_cons_cons, ← hs, ih]
        cases bs with
        | nil => simp
        | cons c cs => simp [List.getLast?_cons_cons]
    · cases hs : splitSlash bs with
      | nil => exact absurd hs (splitSlash_ne_nil bs)
      | cons e es =>
        simp only [splitSlash, if_neg hb, hs]
        cases es with
        | nil =>
          have : bs.getLast? ≠ some SLASH ∧ bs ≠ [] ∨ bs = [] := by
            cases bs with
            | nil => right; rfl
            | cons c cs =>
              left
              refine ⟨?_, by simp⟩
              intro hl
              have := (ih.mpr (Or.inr hl))
              rw [hs] at this
              simp at this
              subst this
              exact absurd (splitSlash_eq_singleton_nil hs) (by simp)
          rcases this with ⟨h1, h2⟩ | h2
          · cases bs with
            | nil => exact absurd rfl h2
            | cons c cs =>
              simp only [List.getLast?_singleton, List.getLast?_cons_cons]
              simp [h1]
          · subst h2
            simp
            exact fun h => hb h
        | cons e2 es2 =>
          rw [List.getLast?_cons_cons]
          have ih' : (e :: e2 :: es2).getLast? = some [] ↔ bs = [] ∨ bs.getLast? = some SLASH := by
            rw [← hs]; exact ih
          rw [List.getLast?_cons_cons] at ih'
          rw [ih']
          cases bs with
          | nil => simp [splitSlash] at hs
          | cons c cs => simp [List.getLast?_cons_cons]


/-- every byte string is slash-free or splits at its last slash -/
theorem last_slash_decomp (p : Bytes) : SLASH ∉ p ∨ ∃ x e, p = x ++ SLASH :: e ∧ SLASH ∉ e := by
  induction p with
  | nil => left; simp
  | cons c t ih =>
    rcases ih with h | ⟨x, e, h1, h2⟩
    · by_cases hc : c = SLASH
      · right; exact ⟨[], t, by simp [hc], h⟩
      · left
        intro hm
        rcases List.mem_cons.mp hm with hm | hm
        · exact hc hm.symm
        · exact h hm
    · right; exact ⟨c :: x, e, by simp [h1], h2⟩

theorem getLast?_splitSlash_append {x e : Bytes} (he : SLASH ∉ e) :
    (splitSlash (x ++ SLASH :: e)).getLast? = some e := by
  rw [splitSlash_append_slash, splitSlash_noslash he, List.getLast?_append]
  simp

/-- the last element of the split is "." exactly when the input is "." or ends with "/." -/
theorem lastElem_dot_iff (p : Bytes) :
    (splitSlash p).getLast? = some [DOT] ↔ (p = [DOT] ∨ ∃ x, p = x ++ [SLASH, DOT]) := by
  have hd : SLASH ∉ [DOT] := by decide
  constructor
  · intro h
    rcases last_slash_decomp p with hp | ⟨x, e, hp, he⟩
    · rw [splitSlash_noslash hp] at h
      left; simpa using h
    · rw [hp, getLast?_splitSlash_append he] at h
      right
      refine ⟨x, ?_⟩
      have : e = [DOT] := by simpa using h
      rw [hp, this]
  · intro h
    rcases h with h | ⟨x, h⟩
    · rw [h, splitSlash_noslash hd]; rfl
    · rw [h]; exact getLast?_splitSlash_append hd

end Fox.Spec.Clean
