import FoxModel.Spec.ClientIP
import FoxModel.Model.ClientIP
/-
  Helper lemmas for property C18 (client-IP resolvers): the split iterators against the declarative `splitOn`,
  list facts about "last that satisfies", CIDR containment.
-/
namespace Fox.Lemmas.ClientIP
open Fox Fox.Model.ClientIP
open Fox.Spec.ClientIP (splitOn entries)

/-! ### cut -/

theorem cut_none {sep : UInt8} {s h : Bytes} (e : cut sep s = (h, none)) : h = s ∧ sep ∉ s := by
  induction s generalizing h with
  | nil => simp [cut] at e; simp [e]
  | cons b bs ih =>
    simp only [cut] at e
    split at e
    · simp at e
    · rename_i hne
      cases hc : cut sep bs with
      | mk h' r' =>
        rw [hc] at e; simp at e; obtain ⟨rfl, rfl⟩ := e
        obtain ⟨rfl, hn⟩ := ih hc
        refine ⟨rfl, ?_⟩
        intro hm
        cases hm with
        | head => exact hne rfl
        | tail _ hm => exact hn hm

theorem cut_some {sep : UInt8} {s h r : Bytes} (e : cut sep s = (h, some r)) : s = h ++ sep :: r ∧ sep ∉ h := by
  induction s generalizing h with
  | nil => simp [cut] at e
  | cons b bs ih =>
    simp only [cut] at e
    split at e
    · rename_i hb
      simp at e; obtain ⟨rfl, rfl⟩ := e; simp [hb]
    · rename_i hne
      cases hc : cut sep bs with
      | mk h' r' =>
        rw [hc] at e; simp at e; obtain ⟨rfl, rfl⟩ := e
        obtain ⟨rfl, hn⟩ := ih hc
        refine ⟨by simp, ?_⟩
        intro hm
        cases hm with
        | head => exact hne rfl
        | tail _ hm => exact hn hm

/-! ### splitOn -/

theorem splitOn_ne_nil (sep : UInt8) (s : Bytes) : splitOn sep s ≠ [] := by
  induction s with
  | nil => simp [splitOn]
  | cons b bs ih =>
    simp only [splitOn]
    split
    · simp
    · split <;> simp

theorem splitOn_nosep {sep : UInt8} {a : Bytes} (h : sep ∉ a) : splitOn sep a = [a] := by
  induction a with
  | nil => simp [splitOn]
  | cons b bs ih =>
    have hb : b ≠ sep := fun e => h (by simp [e])
    have ht : sep ∉ bs := fun e => h (List.mem_cons_of_mem _ e)
    simp [splitOn, hb, ih ht]

theorem splitOn_append_sep (sep : UInt8) (x y : Bytes) :
    splitOn sep (x ++ sep :: y) = splitOn sep x ++ splitOn sep y := by
  induction x with
  | nil => simp [splitOn]
  | cons b bs ih =>
    simp only [List.cons_append, splitOn]
    split
    · simp [ih]
    · rw [ih]
      cases hx : splitOn sep bs with
      | nil => exact absurd hx (splitOn_ne_nil sep bs)
      | cons h t => simp

theorem splitOn_reverse (sep : UInt8) (s : Bytes) :
    splitOn sep s.reverse = ((splitOn sep s).map List.reverse).reverse := by
  suffices H : ∀ n (s : Bytes), s.length = n → splitOn sep s.reverse = ((splitOn sep s).map List.reverse).reverse from
    H _ s rfl
  intro n
  induction n using Nat.strongRecOn with
  | _ n ih =>
    intro s hs
    cases hc : cut sep s with
    | mk h r =>
      cases r with
      | none =>
        obtain ⟨_, hn⟩ := cut_none hc
        have hr : sep ∉ s.reverse := by simpa using hn
        rw [splitOn_nosep hn, splitOn_nosep hr]; simp
      | some r =>
        obtain ⟨rfl, hn⟩ := cut_some hc
        have hlen : r.length < n := by rw [← hs]; simp; omega
        have hr : sep ∉ h.reverse := by simpa using hn
        rw [splitOn_append_sep, splitOn_nosep hn]
        simp only [List.reverse_append, List.reverse_cons, List.append_assoc, List.singleton_append]
        rw [splitOn_append_sep, ih _ hlen r rfl, splitOn_nosep hr]
        simp

/-! ### the Go iterators against `splitOn` -/

theorem splitFwd_none {sep : UInt8} {s h : Bytes} (e : cut sep s = (h, none)) : splitFwd sep s = [s] := by
  rw [splitFwd]
  split
  · rfl
  · rename_i heq; rw [e] at heq; simp at heq

theorem splitFwd_some {sep : UInt8} {s h r : Bytes} (e : cut sep s = (h, some r)) :
    splitFwd sep s = h :: splitFwd sep r := by
  rw [splitFwd]
  split
  · rename_i heq; rw [e] at heq; simp at heq
  · rename_i heq; rw [e] at heq; simp at heq; obtain ⟨rfl, rfl⟩ := heq; rfl

/-- `SplitStringSeq` yields exactly the `sep`-separated items, in order -/
theorem splitFwd_eq_splitOn (sep : UInt8) (s : Bytes) : splitFwd sep s = splitOn sep s := by
  suffices H : ∀ n (s : Bytes), s.length = n → splitFwd sep s = splitOn sep s from H _ s rfl
  intro n
  induction n using Nat.strongRecOn with
  | _ n ih =>
    intro s hs
    cases hc : cut sep s with
    | mk h r =>
      cases r with
      | none =>
        obtain ⟨_, hn⟩ := cut_none hc
        rw [splitFwd_none hc, splitOn_nosep hn]
      | some r =>
        obtain ⟨rfl, hn⟩ := cut_some hc
        have hlen : r.length < n := by rw [← hs]; simp; omega
        rw [splitFwd_some hc, ih _ hlen r rfl, splitOn_append_sep, splitOn_nosep hn]; rfl

theorem splitBwd_none {sep : UInt8} {s : Bytes} (e : cutLast sep s = none) : splitBwd sep s = [s] := by
  rw [splitBwd]
  split
  · rfl
  · rename_i heq; rw [e] at heq; simp at heq

theorem splitBwd_some {sep : UInt8} {s p f : Bytes} (e : cutLast sep s = some (p, f)) :
    splitBwd sep s = f :: splitBwd sep p := by
  rw [splitBwd]
  split
  · rename_i heq; rw [e] at heq; simp at heq
  · rename_i heq; rw [e] at heq; simp at heq; obtain ⟨rfl, rfl⟩ := heq; rfl

theorem splitBwd_eq_map_reverse (sep : UInt8) (s : Bytes) :
    splitBwd sep s = (splitFwd sep s.reverse).map List.reverse := by
  suffices H : ∀ n (s : Bytes), s.length = n → splitBwd sep s = (splitFwd sep s.reverse).map List.reverse from
    H _ s rfl
  intro n
  induction n using Nat.strongRecOn with
  | _ n ih =>
    intro s hs
    cases hc : cut sep s.reverse with
    | mk h r =>
      cases r with
      | none =>
        have hl : cutLast sep s = none := by simp [cutLast, hc]
        rw [splitBwd_none hl, splitFwd_none hc]; simp
      | some r =>
        have hl : cutLast sep s = some (r.reverse, h.reverse) := by simp [cutLast, hc]
        have hlen : r.reverse.length < n := by
          have := cut_some_length hc; simp at this; simp; omega
        rw [splitBwd_some hl, splitFwd_some hc, ih _ hlen r.reverse rfl]; simp

/-- `BackwardSplitStringSeq` yields exactly the items of `SplitStringSeq`, last one first -/
theorem splitBwd_eq_reverse (sep : UInt8) (s : Bytes) : splitBwd sep s = (splitOn sep s).reverse := by
  rw [splitBwd_eq_map_reverse, splitFwd_eq_splitOn, splitOn_reverse]
  simp [List.map_reverse, Function.comp_def]

/-! ### lists -/

theorem at?_eq_getElem? {α : Type} (l : List α) (n : Nat) : at? l n = l[n]? := by
  induction l generalizing n with
  | nil => simp [at?]
  | cons a t ih => cases n <;> simp [at?, ih]

theorem find?_reverse_eq_getLast?_filter {α : Type} (q : α → Bool) (l : List α) :
    l.reverse.find? q = (l.filter q).getLast? := by
  induction l with
  | nil => simp
  | cons a t ih =>
    simp only [List.reverse_cons, List.find?_append, ih, List.filter_cons]
    by_cases hq : q a = true
    · simp only [hq, if_true, List.getLast?_cons, List.find?_cons]
      cases (t.filter q).getLast? <;> simp
    · simp [hq]

end Fox.Lemmas.ClientIP
