import FoxModel.Lemmas.FragReach
import FoxModel.Lemmas.Routable
/-
  FoxModel.Lemmas.FragGrammar — what the parser accepts has the shape the byte-level theorems assume:
  `validToks lim toks` (the documented grammar, `Fox.C10.parse_iff`) and the tokenizer's guarantee on literals imply `patOK toks`.
-/
namespace Fox.Model.InsScan
open Fox Fox.Model Fox.Spec Fox.C10

theorem notSlash_eq (t : Tok) : notSlash t = !isSlash t := by
  cases t with
  | lit b =>
    simp only [notSlash, isSlash]
    by_cases h : b = SLASH
    · subst h; simp
    · have : (Tok.lit b == Tok.lit SLASH) = false := by
        simp only [beq_eq_false_iff_ne, ne_eq, Tok.lit.injEq]; exact h
      have h2 : (b == SLASH) = false := by simpa using h
      rw [this, h2]
  | param n => simp [notSlash, isSlash]
  | catchAll n => simp [notSlash, isSlash]

theorem notSlash_fun : notSlash = fun t => !isSlash t := by funext t; exact notSlash_eq t

/-- a token that is not the separator lies in one of the pieces -/
theorem mem_splitAtLit (d : UInt8) : ∀ (toks : List Tok) (t : Tok), t ∈ toks → t ≠ .lit d → ∃ l ∈ splitAtLit d toks, t ∈ l := by
  intro toks
  induction toks with
  | nil => intro t h; cases h
  | cons x xs ih =>
    intro t ht hne
    simp only [splitAtLit]
    by_cases hx : x = .lit d
    · simp only [hx, if_true]
      rcases List.mem_cons.1 ht with rfl | ht'
      · exact absurd hx hne
      · obtain ⟨l, hl, htl⟩ := ih t ht' hne
        exact ⟨l, List.mem_cons_of_mem _ hl, htl⟩
    · simp only [hx, if_false]
      cases hs : splitAtLit d xs with
      | nil =>
        rcases List.mem_cons.1 ht with rfl | ht'
        · exact ⟨[t], by simp, by simp⟩
        · obtain ⟨l, hl, _⟩ := ih t ht' hne
          rw [hs] at hl; cases hl
      | cons l ls =>
        simp only
        rcases List.mem_cons.1 ht with rfl | ht'
        · exact ⟨t :: l, List.mem_cons_self .., List.mem_cons_self ..⟩
        · obtain ⟨l', hl', htl'⟩ := ih t ht' hne
          rw [hs] at hl'
          rcases List.mem_cons.1 hl' with rfl | h2
          · exact ⟨x :: l', List.mem_cons_self .., List.mem_cons_of_mem _ htl'⟩
          · exact ⟨l', List.mem_cons_of_mem _ h2, htl'⟩

/-- the only wildcard of a segment / label is the one `shape` reports; its literal bytes are the reported text -/
theorem shape_mem : ∀ (l : List Tok) (txt : Bytes) (w : Option Tok), shape l = some (txt, w) →
    (∀ t ∈ l, isWild t = true → w = some t) ∧ (∀ c, Tok.lit c ∈ l → c ∈ txt)
  | [], txt, w, h => by simp
  | .lit b :: ts, txt, w, h => by
    rw [shape_lit] at h
    cases hs : shape ts with
    | none => rw [hs] at h; cases h
    | some p =>
      rw [hs] at h
      simp only [Option.map_some, Option.some.injEq, Prod.mk.injEq] at h
      obtain ⟨h1, h2⟩ := shape_mem ts p.1 p.2 (by rw [hs])
      refine ⟨?_, ?_⟩
      · intro t ht hw
        rcases List.mem_cons.1 ht with rfl | ht'
        · simp [isWild] at hw
        · rw [← h.2]; exact h1 t ht' hw
      · intro c hc
        rw [← h.1]
        rcases List.mem_cons.1 hc with e | hc'
        · injection e with e; rw [e]; exact List.mem_cons_self ..
        · exact List.mem_cons_of_mem _ (h2 c hc')
  | [.param n], txt, w, h => by
    simp only [shape, Option.some.injEq, Prod.mk.injEq] at h
    refine ⟨?_, ?_⟩
    · intro t ht _; rw [List.mem_singleton] at ht; rw [ht, ← h.2]
    · intro c hc; simp at hc
  | [.catchAll n], txt, w, h => by
    simp only [shape, Option.some.injEq, Prod.mk.injEq] at h
    refine ⟨?_, ?_⟩
    · intro t ht _; rw [List.mem_singleton] at ht; rw [ht, ← h.2]
    · intro c hc; simp at hc
  | .param n :: _ :: _, txt, w, h => by simp [shape] at h
  | .catchAll n :: _ :: _, txt, w, h => by simp [shape] at h

theorem specNameOk {lim : Limits} {inHost : Bool} {n : Bytes} (h : Spec.nameOk lim inHost n = true) :
    nameOk n = true ∧ (inHost = true → ∀ b ∈ n, b ≠ DOT) := by
  simp only [Spec.nameOk, Bool.and_eq_true, List.all_eq_true, bne_iff_ne, ne_eq, Bool.or_eq_true, Bool.not_eq_true'] at h
  refine ⟨?_, ?_⟩
  · simp only [nameOk, List.all_eq_true, Bool.and_eq_true, bne_iff_ne, ne_eq]
    intro b hb
    have := h.2 b hb
    obtain ⟨⟨⟨⟨a1, a2⟩, a3⟩, a4⟩, _⟩ := this
    exact ⟨⟨⟨a4, a1⟩, a3⟩, a2⟩
  · intro hi b hb
    have := (h.2 b hb).2
    rcases this with e | e
    · rw [hi] at e; cases e
    · exact e

theorem isLDH_ne_rbr {c : UInt8} (h : isLDH c = true) : c ≠ RBR := by
  intro e; subst e; revert h; decide

theorem fragOkPath_of_wildAtEnd : ∀ p : List Tok, wildAtEnd SLASH p = true → fragOkPath p = true
  | [], _ => rfl
  | .lit b :: ts, h => by
    simp only [wildAtEnd] at h
    simp only [fragOkPath, isWild, Bool.not_false, Bool.true_or, Bool.true_and]
    exact fragOkPath_of_wildAtEnd ts h
  | .param n :: ts, h => by
    simp only [wildAtEnd, Bool.and_eq_true] at h
    simp only [fragOkPath, isWild, Bool.not_true, Bool.false_or, Bool.and_eq_true]
    refine ⟨?_, fragOkPath_of_wildAtEnd ts h.2⟩
    cases ts with
    | nil => rfl
    | cons x xs => simpa [nextIsLit] using h.1
  | .catchAll n :: ts, h => by
    simp only [wildAtEnd, Bool.and_eq_true] at h
    simp only [fragOkPath, isWild, Bool.not_true, Bool.false_or, Bool.and_eq_true]
    refine ⟨?_, fragOkPath_of_wildAtEnd ts h.2⟩
    cases ts with
    | nil => rfl
    | cons x xs => simpa [nextIsLit] using h.1

theorem fragOkHost_of : ∀ h : List Tok, wildAtEnd DOT h = true →
    (∀ t ∈ h, match t with | .lit c => c ≠ RBR | .param n => ∀ b ∈ n, b ≠ DOT | .catchAll _ => False) → fragOkHost h = true
  | [], _, _ => rfl
  | .lit b :: ts, hw, ht => by
    simp only [wildAtEnd] at hw
    have := ht (.lit b) (List.mem_cons_self ..)
    simp only [fragOkHost, Bool.and_eq_true, bne_iff_ne, ne_eq]
    exact ⟨this, fragOkHost_of ts hw (fun t h' => ht t (List.mem_cons_of_mem _ h'))⟩
  | .param n :: ts, hw, ht => by
    simp only [wildAtEnd, Bool.and_eq_true] at hw
    have := ht (.param n) (List.mem_cons_self ..)
    simp only [fragOkHost, Bool.and_eq_true, List.all_eq_true, bne_iff_ne, ne_eq]
    refine ⟨⟨this, ?_⟩, fragOkHost_of ts hw.2 (fun t h' => ht t (List.mem_cons_of_mem _ h'))⟩
    cases ts with
    | nil => rfl
    | cons x xs => simpa [nextIsLit] using hw.1
  | .catchAll n :: ts, _, ht => by
    exact absurd (ht (.catchAll n) (List.mem_cons_self ..)) (by simp)

/-- **a pattern of the grammar has the shape the byte-level theorems assume** -/
theorem patOK_of_valid {lim : Limits} {toks : List Tok} (hv : validToks lim toks = true) (hl : litsOk toks = true) :
    patOK toks = true := by
  obtain ⟨_, hwP, hnc, hwH⟩ := shape_of_valid hv
  have hsplit : toks = toks.takeWhile (!isSlash ·) ++ toks.dropWhile (!isSlash ·) := (List.takeWhile_append_dropWhile).symm
  simp only [validToks, Bool.and_eq_true, Bool.or_eq_true] at hv
  obtain ⟨⟨⟨⟨_, hhost⟩, hsegs⟩, _⟩, _⟩ := hv
  rw [List.all_eq_true] at hsegs
  -- facts about the tokens of the path part
  have hpathTok : ∀ t ∈ toks.dropWhile (!isSlash ·), tokOk t = true := by
    intro t ht
    cases t with
    | lit b =>
      have : Tok.lit b ∈ toks := by rw [hsplit]; exact List.mem_append_right _ ht
      simp only [litsOk, List.all_eq_true] at hl
      have := hl _ this
      simp only [Bool.and_eq_true, bne_iff_ne, ne_eq] at this
      simp only [tokOk, Bool.and_eq_true, bne_iff_ne, ne_eq]
      exact ⟨this.2, this.1⟩
    | param n =>
      obtain ⟨l, hlm, htl⟩ := mem_splitAtLit SLASH _ _ ht (by simp)
      have hs := hsegs l hlm
      unfold segOk at hs
      cases hsh : shape l with
      | none => rw [hsh] at hs; cases hs
      | some p =>
        obtain ⟨txt, w⟩ := p
        have := (shape_mem l txt w hsh).1 _ htl (by simp [isWild])
        rw [hsh, this] at hs
        exact (specNameOk hs).1
    | catchAll n =>
      obtain ⟨l, hlm, htl⟩ := mem_splitAtLit SLASH _ _ ht (by simp)
      have hs := hsegs l hlm
      unfold segOk at hs
      cases hsh : shape l with
      | none => rw [hsh] at hs; cases hs
      | some p =>
        obtain ⟨txt, w⟩ := p
        have := (shape_mem l txt w hsh).1 _ htl (by simp [isWild])
        rw [hsh, this] at hs
        exact (specNameOk hs).1
  -- facts about the tokens of the hostname part
  have hhostTok : ∀ t ∈ toks.takeWhile (!isSlash ·), tokOk t = true ∧
      (match t with | .lit c => c ≠ RBR | .param n => ∀ b ∈ n, b ≠ DOT | .catchAll _ => False) := by
    intro t ht
    rcases hhost with he | hh
    · rw [List.isEmpty_iff] at he; rw [he] at ht; cases ht
    · simp only [hostOk, Bool.and_eq_true, List.all_eq_true] at hh
      obtain ⟨⟨hlabels, _⟩, _⟩ := hh
      cases t with
      | lit b =>
        have hbm : Tok.lit b ∈ toks := by rw [hsplit]; exact List.mem_append_left _ ht
        simp only [litsOk, List.all_eq_true] at hl
        have hb := hl _ hbm
        simp only [Bool.and_eq_true, bne_iff_ne, ne_eq] at hb
        refine ⟨by simp only [tokOk, Bool.and_eq_true, bne_iff_ne, ne_eq]; exact ⟨hb.2, hb.1⟩, ?_⟩
        by_cases hd : b = DOT
        · subst hd; decide
        · obtain ⟨l, hlm, htl⟩ := mem_splitAtLit DOT _ _ ht (by simpa using hd)
          have hs := hlabels l hlm
          unfold labelOk at hs
          cases hsh : shape l with
          | none => rw [hsh] at hs; cases hs
          | some p =>
            obtain ⟨txt, w⟩ := p
            rw [hsh] at hs
            simp only [Bool.and_eq_true, List.all_eq_true] at hs
            exact isLDH_ne_rbr (hs.1.1.1.1 b ((shape_mem l txt w hsh).2 b htl))
      | param n =>
        obtain ⟨l, hlm, htl⟩ := mem_splitAtLit DOT _ _ ht (by simp)
        have hs := hlabels l hlm
        unfold labelOk at hs
        cases hsh : shape l with
        | none => rw [hsh] at hs; cases hs
        | some p =>
          obtain ⟨txt, w⟩ := p
          have hw := (shape_mem l txt w hsh).1 _ htl (by simp [isWild])
          rw [hsh, hw] at hs
          simp only [Bool.and_eq_true] at hs
          have := specNameOk hs.2
          exact ⟨this.1, this.2 rfl⟩
      | catchAll n =>
        exfalso
        obtain ⟨l, hlm, htl⟩ := mem_splitAtLit DOT _ _ ht (by simp)
        have hs := hlabels l hlm
        unfold labelOk at hs
        cases hsh : shape l with
        | none => rw [hsh] at hs; cases hs
        | some p =>
          obtain ⟨txt, w⟩ := p
          have hw := (shape_mem l txt w hsh).1 _ htl (by simp [isWild])
          rw [hsh, hw] at hs
          simp at hs
  unfold patOK
  rw [notSlash_fun]
  simp only [Bool.and_eq_true]
  refine ⟨⟨?_, ?_⟩, ?_⟩
  · simp only [toksOk, List.all_eq_true]
    intro t ht
    rw [hsplit] at ht
    rcases List.mem_append.1 ht with h | h
    · exact (hhostTok t h).1
    · exact hpathTok t h
  · exact fragOkHost_of _ hwH (fun t ht => (hhostTok t ht).2)
  · exact fragOkPath_of_wildAtEnd _ hwP

end Fox.Model.InsScan
