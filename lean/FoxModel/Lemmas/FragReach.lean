import FoxModel.Lemmas.InsScan
import FoxModel.Props.C02
/-
  FoxModel.Lemmas.FragReach — the hypotheses of the byte-level theorems (`Fox.C02.Bytes.*`: every key made of grammar
  tokens, wildcards at the end of their segment / label) hold for every key of every tree reachable by registering
  patterns that have this shape: a key is a contiguous fragment of the pattern of any route below it.
-/
namespace Fox.Model.InsScan
open Fox Fox.Model Fox.Spec Fox.C02

def notSlash (t : Tok) : Bool := !(t == .lit SLASH)

/-- a pattern of the grammar: grammar tokens, hostname part (before the first '/') and path part well shaped -/
def patOK (p : List Tok) : Bool := toksOk p && fragOkHost (p.takeWhile notSlash) && fragOkPath (p.dropWhile notSlash)

theorem fragOkPath_append_right (a b : List Tok) (h : fragOkPath (a ++ b) = true) : fragOkPath b = true := by
  induction a with
  | nil => exact h
  | cons t a ih =>
    simp only [List.cons_append, fragOkPath, Bool.and_eq_true] at h
    exact ih h.2

theorem fragOkHost_append_right (a b : List Tok) (h : fragOkHost (a ++ b) = true) : fragOkHost b = true := by
  induction a with
  | nil => exact h
  | cons t a ih =>
    simp only [List.cons_append, fragOkHost, Bool.and_eq_true] at h
    exact ih h.2

theorem takeWhile_append_of_all {α} (p : α → Bool) (a b : List α) (h : ∀ x ∈ a, p x = true) :
    (a ++ b).takeWhile p = a ++ b.takeWhile p := by
  induction a with
  | nil => rfl
  | cons x a ih =>
    simp only [List.cons_append, List.takeWhile_cons, h x (List.mem_cons_self ..), if_true]
    rw [ih (fun y hy => h y (List.mem_cons_of_mem _ hy))]

theorem dropWhile_append_of_all {α} (p : α → Bool) (a b : List α) (h : ∀ x ∈ a, p x = true) :
    (a ++ b).dropWhile p = b.dropWhile p := by
  induction a with
  | nil => rfl
  | cons x a ih =>
    simp only [List.cons_append, List.dropWhile_cons, h x (List.mem_cons_self ..), if_true]
    exact ih (fun y hy => h y (List.mem_cons_of_mem _ hy))

/-- the prefix consumed so far contains a '/': everything after it lies in the path part -/
theorem dropWhile_after_slash (a b : List Tok) (h : ∃ x ∈ a, notSlash x = false) :
    ∃ c, (a ++ b).dropWhile notSlash = c ++ b := by
  induction a with
  | nil => obtain ⟨x, hx, _⟩ := h; cases hx
  | cons t a ih =>
    simp only [List.cons_append, List.dropWhile_cons]
    cases ht : notSlash t with
    | false => exact ⟨t :: a, by simp⟩
    | true =>
      simp only [if_true]
      obtain ⟨x, hx, hxs⟩ := h
      rcases List.mem_cons.1 hx with rfl | hx'
      · rw [ht] at hxs; cases hxs
      · exact ih ⟨x, hx', hxs⟩

theorem noSlashTok_all {k : List Tok} (h : noSlashTok k = true) : ∀ x ∈ k, notSlash x = true := by
  intro x hx
  simp only [noSlashTok, Bool.not_eq_true', List.contains_eq_mem, decide_eq_false_iff_not] at h
  simp only [notSlash, Bool.not_eq_true', beq_eq_false_iff_ne, ne_eq]
  intro e
  exact h (e ▸ hx)

theorem startsWithSlash_head {k : List Tok} (h : startsWithSlash k = true) : ∃ k', k = .lit SLASH :: k' := by
  cases k with
  | nil => simp [startsWithSlash] at h
  | cons t k' =>
    cases t with
    | lit c => simp only [startsWithSlash, beq_iff_eq] at h; exact ⟨k', by rw [h]⟩
    | param n => simp [startsWithSlash] at h
    | catchAll n => simp [startsWithSlash] at h

/-- a key that is a fragment `pre ++ k ++ tail` of a well-shaped pattern is well shaped for the region it lies in -/
theorem frag_of_pattern {pre k tail : List Tok} (hp : patOK (pre ++ k ++ tail) = true) :
    toksOk k = true ∧
    ((∃ x ∈ pre, notSlash x = false) ∨ startsWithSlash k = true → fragOkPath k = true) ∧
    ((∀ x ∈ pre, notSlash x = true) → (∀ x ∈ k, notSlash x = true) → fragOkHost k = true) := by
  simp only [patOK, Bool.and_eq_true] at hp
  obtain ⟨⟨h1, h2⟩, h3⟩ := hp
  refine ⟨?_, ?_, ?_⟩
  · have := (toksOk_append (toksOk_append h1).1).2
    exact this
  · rintro (hs | hs)
    · obtain ⟨c, hc⟩ := dropWhile_after_slash pre (k ++ tail) hs
      rw [List.append_assoc, hc] at h3
      exact fragOkPath_append_left _ _ (fragOkPath_append_right _ _ h3)
    · by_cases hpre : ∃ x ∈ pre, notSlash x = false
      · obtain ⟨c, hc⟩ := dropWhile_after_slash pre (k ++ tail) hpre
        rw [List.append_assoc, hc] at h3
        exact fragOkPath_append_left _ _ (fragOkPath_append_right _ _ h3)
      · have hall : ∀ x ∈ pre, notSlash x = true := by
          intro x hx
          cases hn : notSlash x with
          | true => rfl
          | false => exact absurd ⟨x, hx, hn⟩ hpre
        obtain ⟨k', rfl⟩ := startsWithSlash_head hs
        rw [List.append_assoc, dropWhile_append_of_all _ _ _ hall] at h3
        have : ((Tok.lit SLASH :: k') ++ tail).dropWhile notSlash = (Tok.lit SLASH :: k') ++ tail := by
          simp [List.dropWhile_cons, notSlash]
        rw [this] at h3
        exact fragOkPath_append_left _ _ h3
  · intro hpre hk
    have hall : ∀ x ∈ pre ++ k, notSlash x = true := by
      intro x hx
      rcases List.mem_append.1 hx with h | h
      · exact hpre x h
      · exact hk x h
    rw [takeWhile_append_of_all _ _ _ hall] at h2
    have := fragOkHost_append_left _ _ h2
    exact fragOkHost_append_right _ _ this

/-! ### every node has a route below it -/

theorem sufsKids_mem_of_mem {cs : List Node} {c : Node} (hc : c ∈ cs) : ∀ sr ∈ sufsNode c, sr ∈ sufsKids cs := by
  intro sr hsr
  rw [sufsKids_eq_flatMap]
  exact List.mem_flatMap.2 ⟨c, hc, hsr⟩

mutual
theorem pathNode_sufs_ne : ∀ n : Node, pathNode n = true → sufsNode n ≠ []
  | .mk k r cs, h => by
    simp only [pathNode, Bool.and_eq_true, Bool.or_eq_true, decide_eq_true_eq] at h
    rw [sufsNode_own]
    cases r with
    | some r => simp [own]
    | none =>
      have h2 : 2 ≤ cs.length := by simpa using h.1
      cases cs with
      | nil => simp at h2
      | cons c cs' =>
        have hpk := h.2
        simp only [pathKids, Bool.and_eq_true] at hpk
        have := pathNode_sufs_ne c hpk.1
        simp only [own, List.nil_append, sufsKids_cons, List.map_append, ne_eq, List.append_eq_nil_iff, List.map_eq_nil_iff, not_and]
        intro e; exact absurd e this
end

mutual
theorem shapeNode_sufs_ne : ∀ n : Node, shapeNode n = true → sufsNode n ≠ []
  | .mk k r cs, h => by
    unfold shapeNode at h
    split at h
    · exact pathNode_sufs_ne (.mk k r cs) (by simpa [pathNode] using h)
    · simp only [Bool.and_eq_true, Bool.or_eq_true, decide_eq_true_eq] at h
      rw [sufsNode_own]
      cases cs with
      | nil =>
        exfalso
        rcases h.1.2 with h2 | h2
        · simp at h2
        · simp at h2
      | cons c cs' =>
        have hsk := h.2
        simp only [shapeKids, Bool.and_eq_true] at hsk
        have := shapeNode_sufs_ne c hsk.1
        simp only [sufsKids_cons, List.map_append, ne_eq, List.append_eq_nil_iff, List.map_eq_nil_iff, not_and]
        intro _ e; exact absurd e this
end

/-! ### the induction over the tree -/

theorem sufsNode_shape (k : List Tok) (r : Option Route) (cs : List Node) :
    ∀ sr ∈ sufsNode (.mk k r cs), ∃ x, sr.1 = k ++ x := by
  intro sr hsr
  rw [sufsNode_own] at hsr
  rcases List.mem_append.1 hsr with h | h
  · cases r with
    | none => cases h
    | some r' =>
      simp only [own, List.mem_singleton] at h
      exact ⟨[], by rw [h]; simp⟩
  · obtain ⟨sr', _, rfl⟩ := List.mem_map.1 h
    exact ⟨sr'.1, rfl⟩

theorem sufsKids_of_child (k : List Tok) (r : Option Route) (cs : List Node) :
    ∀ sr' ∈ sufsKids cs, (k ++ sr'.1, sr'.2) ∈ sufsNode (.mk k r cs) := by
  intro sr' h
  rw [sufsNode_own]
  exact List.mem_append_right _ (List.mem_map.2 ⟨sr', h, rfl⟩)

/-- what is known about the routes below a list of sibling nodes reached through the tokens `pre` -/
def Below (pre : List Tok) (cs : List Node) : Prop :=
  ∀ sr ∈ sufsKids cs, patOK sr.2.pattern = true ∧ pre ++ sr.1 = sr.2.pattern

theorem below_child {pre k : List Tok} {r : Option Route} {cs rest : List Node}
    (h : Below pre (.mk k r cs :: rest)) : Below (pre ++ k) cs := by
  intro sr' hsr'
  have hm := sufsKids_mem_of_mem (cs := .mk k r cs :: rest) (List.mem_cons_self ..) _ (sufsKids_of_child k r cs sr' hsr')
  obtain ⟨h1, h2⟩ := h _ hm
  exact ⟨h1, by simpa [List.append_assoc] using h2⟩

theorem below_tail {pre : List Tok} {c : Node} {rest : List Node} (h : Below pre (c :: rest)) : Below pre rest := by
  intro sr hsr
  apply h
  rw [sufsKids_cons]
  exact List.mem_append_right _ hsr

/-- a key in the tree, as a fragment of the pattern of a route below it -/
theorem key_fragment {pre k : List Tok} {r : Option Route} {cs rest : List Node}
    (h : Below pre (.mk k r cs :: rest)) (hne : sufsNode (.mk k r cs) ≠ []) :
    ∃ tail, patOK (pre ++ k ++ tail) = true := by
  obtain ⟨sr, hsr⟩ := List.exists_mem_of_ne_nil _ hne
  obtain ⟨x, hx⟩ := sufsNode_shape k r cs sr hsr
  obtain ⟨h1, h2⟩ := h sr (sufsKids_mem_of_mem (cs := .mk k r cs :: rest) (List.mem_cons_self ..) sr hsr)
  refine ⟨x, ?_⟩
  rw [hx] at h2
  rw [List.append_assoc, h2]
  exact h1

mutual
/-- path region -/
theorem frag_path_node : ∀ (n : Node) (rest : List Node) (pre : List Tok), pathNode n = true →
    ((∃ x ∈ pre, notSlash x = false) ∨ startsWithSlash n.key = true) → Below pre (n :: rest) → fragOkNode true n = true
  | .mk k r cs, rest, pre, hp, hs, hb => by
    obtain ⟨tail, hpat⟩ := key_fragment hb (pathNode_sufs_ne _ hp)
    obtain ⟨f1, f2, _⟩ := frag_of_pattern hpat
    have hpk : pathKids cs = true := by
      simp only [pathNode, Bool.and_eq_true] at hp; exact hp.2
    have hs' : ∃ x ∈ pre ++ k, notSlash x = false := by
      rcases hs with ⟨x, hx, hxs⟩ | hs
      · exact ⟨x, List.mem_append_left _ hx, hxs⟩
      · obtain ⟨k', hk'⟩ := startsWithSlash_head hs
        simp only [Node.key_mk] at hk'
        exact ⟨.lit SLASH, List.mem_append_right _ (by rw [hk']; exact List.mem_cons_self ..), by simp [notSlash]⟩
    unfold fragOkNode
    simp only [Bool.true_or, if_true, Bool.and_eq_true]
    exact ⟨⟨f1, f2 (by simpa using hs)⟩, frag_path_kids cs (pre ++ k) hpk hs' (below_child hb)⟩
theorem frag_path_kids : ∀ (cs : List Node) (pre : List Tok), pathKids cs = true → (∃ x ∈ pre, notSlash x = false) →
    Below pre cs → fragOkKids true cs = true
  | [], _, _, _, _ => by simp [fragOkKids]
  | c :: cs, pre, hp, hs, hb => by
    simp only [pathKids, Bool.and_eq_true] at hp
    unfold fragOkKids
    simp only [Bool.and_eq_true]
    exact ⟨frag_path_node c cs pre hp.1 (Or.inl hs) hb, frag_path_kids cs pre hp.2 hs (below_tail hb)⟩
end

mutual
/-- hostname region (the prefix consumed so far has no '/') -/
theorem frag_shape_node : ∀ (n : Node) (rest : List Node) (pre : List Tok), shapeNode n = true →
    (∀ x ∈ pre, notSlash x = true) → Below pre (n :: rest) → fragOkNode false n = true
  | .mk k r cs, rest, pre, hp, hs, hb => by
    obtain ⟨tail, hpat⟩ := key_fragment hb (shapeNode_sufs_ne _ hp)
    obtain ⟨f1, f2, f3⟩ := frag_of_pattern hpat
    unfold shapeNode at hp
    cases hsl : startsWithSlash k with
    | true =>
      simp only [hsl, if_true, Bool.and_eq_true] at hp
      have hpn : pathNode (.mk k r cs) = true := by simp only [pathNode, Bool.and_eq_true]; exact hp
      have := frag_path_node (.mk k r cs) rest pre hpn (Or.inr (by simpa using hsl)) hb
      -- the node starts the path part: its own flag makes it a path node
      unfold fragOkNode at this ⊢
      simpa [hsl] using this
    | false =>
      simp only [hsl, Bool.false_eq_true, if_false, Bool.and_eq_true] at hp
      obtain ⟨⟨⟨hns, _⟩, _⟩, hsk⟩ := hp
      have hk := noSlashTok_all hns
      have hs' : ∀ x ∈ pre ++ k, notSlash x = true := by
        intro x hx
        rcases List.mem_append.1 hx with h | h
        · exact hs x h
        · exact hk x h
      unfold fragOkNode
      simp only [hsl, Bool.or_false, Bool.false_eq_true, if_false, Bool.and_eq_true]
      exact ⟨⟨f1, f3 hs hk⟩, frag_shape_kids cs (pre ++ k) hsk hs' (below_child hb)⟩
theorem frag_shape_kids : ∀ (cs : List Node) (pre : List Tok), shapeKids cs = true → (∀ x ∈ pre, notSlash x = true) →
    Below pre cs → fragOkKids false cs = true
  | [], _, _, _, _ => by simp [fragOkKids]
  | c :: cs, pre, hp, hs, hb => by
    simp only [shapeKids, Bool.and_eq_true] at hp
    unfold fragOkKids
    simp only [Bool.and_eq_true]
    exact ⟨frag_shape_node c cs pre hp.1 hs hb, frag_shape_kids cs pre hp.2 hs (below_tail hb)⟩
end

/-! ### reachable trees -/

/-- a well-formed tree all of whose routes have well-shaped patterns has well-shaped keys everywhere -/
theorem fragOk_of_good {t : Tree} (hg : Good t)
    (hr : ∀ x ∈ t.roots, ∀ sr ∈ sufsNode x.2, patOK sr.2.pattern = true) : fragOkRoots t.roots = true := by
  unfold fragOkRoots
  rw [List.all_eq_true]
  intro x hx
  have hok := hg.roots x hx
  rcases hxn : x.2 with ⟨k, r, cs⟩
  have hwf := hok.wf
  rw [hxn] at hwf
  simp only [wfRoot, Node.key_mk, Node.route_mk, Node.children_mk, Bool.and_eq_true, List.isEmpty_iff, Option.isNone_iff_eq_none] at hwf
  obtain ⟨⟨⟨hk, hrn⟩, _⟩, _⟩ := hwf
  subst hk; subst hrn
  have hshape := hok.shape
  rw [hxn] at hshape
  simp only [Node.children_mk] at hshape ⊢
  apply frag_shape_kids cs [] hshape (by intro y hy; cases hy)
  intro sr hsr
  have hm : ([] ++ sr.1, sr.2) ∈ sufsNode (Node.mk [] none cs) := sufsKids_of_child [] none cs sr hsr
  simp only [List.nil_append] at hm
  have hsr' : (sr.1, sr.2) ∈ sufsNode x.2 := by rw [hxn]; exact hm
  exact ⟨hr x hx _ hsr', by simpa using (hok.pats _ hsr').1⟩

/-- only `Handle` brings patterns in: they are required to be well shaped (what the parser accepts is, `patOK_of_valid`) -/
def opPatOK : Fox.C02.Op → Bool
  | .handle _ r => patOK r.pattern
  | _ => true

def StoreInv (s : Store) : Prop := ∀ e ∈ s, patOK e.2.pattern = true

theorem storeInv_step {s : Store} (op : Fox.C02.Op) (h : StoreInv s) (hp : opPatOK op = true) :
    StoreInv (Fox.C02.stepSpec s op).1 := by
  cases op with
  | handle m r =>
    simp only [Fox.C02.stepSpec, Store.handle]
    split
    · exact h
    · split
      · intro e he
        rcases List.mem_append.1 he with h' | h'
        · exact h e h'
        · simp only [List.mem_singleton] at h'
          rw [h']; exact hp
      · exact h
  | update m r =>
    simp only [Fox.C02.stepSpec, Store.update]
    split
    · exact h
    · intro e he
      obtain ⟨e0, he0, rfl⟩ := List.mem_map.1 he
      split
      · rename_i hc
        simp only [Bool.and_eq_true, beq_iff_eq] at hc
        have := h e0 he0
        rw [hc.2] at this
        exact this
      · exact h e0 he0
  | delete m pat =>
    simp only [Fox.C02.stepSpec, Store.delete]
    split
    · exact h
    · intro e he; exact h e (List.mem_filter.1 he).1
  | truncate ms =>
    simp only [Fox.C02.stepSpec, Store.truncate]
    split
    · intro e he; cases he
    · intro e he; exact h e (List.mem_filter.1 he).1

theorem storeInv_run (ops : List Fox.C02.Op) : ∀ (s : Store), StoreInv s → (∀ op ∈ ops, opPatOK op = true) →
    StoreInv (Fox.C02.runSpec s ops).1 := by
  induction ops with
  | nil => intro s h _; exact h
  | cons op ops ih =>
    intro s h hp
    simp only [Fox.C02.runSpec]
    exact ih _ (storeInv_step op h (hp op (List.mem_cons_self ..))) (fun o ho => hp o (List.mem_cons_of_mem _ ho))

/-- **every key of every reachable tree has the grammar shape**: after any history of Handle / Update / Delete / Truncate
    whose registered patterns are well shaped, `fragOkRoots` holds - the hypotheses of `Fox.C02.Bytes.*` are met at
    every node the insertion can stop at -/
theorem fragOk_reachable (ops : List Fox.C02.Op) (hv : ∀ op ∈ ops, op.valid = true) (hp : ∀ op ∈ ops, opPatOK op = true) :
    fragOkRoots (Fox.C02.runModel newTree ops).1.roots = true := by
  have hsim := (Fox.C02.C02_refines ops hv).1
  have hst := storeInv_run ops [] (by intro e he; cases he) hp
  apply fragOk_of_good hsim.good
  intro x hx sr hsr
  have hmr := methodRoot_of_mem hsim.good.nodup (m := x.1) (n := x.2) (by simpa using hx)
  have hmem : sr.2 ∈ routesOf (Fox.C02.runModel newTree ops).1 x.1 := by
    unfold routesOf
    rw [hmr]
    simp only
    rw [routesNode_eq]
    exact List.mem_map.2 ⟨sr, hsr, rfl⟩
  have := (hsim.abs.1 x.1).subset hmem
  simp only [Store.routesOf, List.mem_map, List.mem_filter] at this
  obtain ⟨e, ⟨he, _⟩, he2⟩ := this
  rw [← he2]
  exact hst e he

end Fox.Model.InsScan
