import FoxModel.Spec.History
/-
  FoxModel.Lemmas.History — soundness of the history checker: a linearizable history passes every check.
-/
namespace Fox.Spec.History
variable {σ W Q : Type} (S : Sem σ W Q)

/-- the specification's observations expose the version they were made at (and no other) -/
def ExposesVersion (S : Sem σ W Q) : Prop := ∀ v st q n, (S.rd v st q).ver = some n → n = v

theorem stepSeq_notW {s s' : Nat × σ} {c : Call W Q} (hw : c.isW = false) (h : stepSeq S s c = some s') : s' = s := by
  unfold stepSeq at h
  cases hop : c.op with
  | w x => simp [Call.isW, hop] at hw
  | r q =>
    simp only [hop] at h
    split at h
    · exact (Option.some.inj h).symm
    · cases h

theorem stepSeq_read {s s' : Nat × σ} {c : Call W Q} {q : Q} (hop : c.op = .r q) (h : stepSeq S s c = some s') :
    s' = s ∧ c.res = S.rd s.1 s.2 q := by
  unfold stepSeq at h
  simp only [hop] at h
  split at h
  · rename_i hr; exact ⟨(Option.some.inj h).symm, hr⟩
  · cases h

theorem stepSeq_isW {s s' : Nat × σ} {c : Call W Q} (hw : c.isW = true) (h : stepSeq S s c = some s') :
    c.ver = s.1 + 1 ∧ s'.1 = s.1 + 1 := by
  unfold stepSeq at h
  cases hop : c.op with
  | r q => simp [Call.isW, hop] at hw
  | w x =>
    simp only [hop] at h
    split at h
    · rename_i hc
      have := Option.some.inj h
      exact ⟨hc.1, by rw [← this]⟩
    · cases h

theorem stepSeq_ver_le {s s' : Nat × σ} {c : Call W Q} (h : stepSeq S s c = some s') : s.1 ≤ s'.1 := by
  cases hw : c.isW
  · rw [stepSeq_notW S hw h]; exact Nat.le_refl _
  · rw [(stepSeq_isW S hw h).2]; exact Nat.le_succ _

/-- the version a call observes lies between the version before and after it -/
theorem stepSeq_seen (hv : ExposesVersion S) {s s' : Nat × σ} {c : Call W Q} {v : Nat}
    (h : stepSeq S s c = some s') (hs : verSeen c = some v) : s.1 ≤ v ∧ v ≤ s'.1 := by
  cases hop : c.op with
  | w x =>
    have hw : c.isW = true := by simp [Call.isW, hop]
    obtain ⟨h1, h2⟩ := stepSeq_isW S hw h
    simp only [verSeen, hop] at hs
    have : v = c.ver := (Option.some.inj hs).symm
    omega
  | r q =>
    obtain ⟨h1, h2⟩ := stepSeq_read S hop h
    simp only [verSeen, hop] at hs
    rw [h2] at hs
    have := hv _ _ _ _ hs
    subst h1
    omega

theorem runSeq_cons {s s' : Nat × σ} {c : Call W Q} {cs : List (Call W Q)} :
    runSeq S s (c :: cs) = some s' ↔ ∃ m, stepSeq S s c = some m ∧ runSeq S m cs = some s' := by
  simp only [runSeq]
  cases stepSeq S s c with
  | none => simp
  | some m => simp

theorem runSeq_append {s s' : Nat × σ} {A B : List (Call W Q)} :
    runSeq S s (A ++ B) = some s' ↔ ∃ m, runSeq S s A = some m ∧ runSeq S m B = some s' := by
  induction A generalizing s with
  | nil => simp [runSeq]
  | cons a A ih =>
    simp only [List.cons_append, runSeq_cons, ih]
    constructor
    · rintro ⟨m, h1, m', h2, h3⟩; exact ⟨m', ⟨m, h1, h2⟩, h3⟩
    · rintro ⟨m', ⟨m, h1, h2⟩, h3⟩; exact ⟨m, h1, m', h2, h3⟩

theorem runSeq_ver_le {s s' : Nat × σ} {L : List (Call W Q)} (h : runSeq S s L = some s') : s.1 ≤ s'.1 := by
  induction L generalizing s with
  | nil => simp [runSeq] at h; rw [h]; exact Nat.le_refl _
  | cons c cs ih =>
    obtain ⟨m, h1, h2⟩ := (runSeq_cons S).1 h
    exact Nat.le_trans (stepSeq_ver_le S h1) (ih h2)

/-- reads do not change the state: the writes alone replay to the same final state -/
theorem runSeq_filter {s s' : Nat × σ} {L : List (Call W Q)} (h : runSeq S s L = some s') :
    runSeq S s (L.filter Call.isW) = some s' := by
  induction L generalizing s with
  | nil => exact h
  | cons c cs ih =>
    obtain ⟨m, h1, h2⟩ := (runSeq_cons S).1 h
    cases hw : c.isW
    · simp only [List.filter_cons, hw]
      have := stepSeq_notW S hw h1
      subst this
      exact ih h2
    · simp only [List.filter_cons, hw, if_true]
      exact (runSeq_cons S).2 ⟨m, h1, ih h2⟩

/-- in a legal sequential execution the writes carry strictly increasing versions -/
theorem writes_increasing {s s' : Nat × σ} {L : List (Call W Q)} (h : runSeq S s L = some s') :
    (∀ c ∈ L.filter Call.isW, s.1 < c.ver) ∧ (L.filter Call.isW).Pairwise (fun a b => a.ver < b.ver) := by
  induction L generalizing s with
  | nil => simp
  | cons c cs ih =>
    obtain ⟨m, h1, h2⟩ := (runSeq_cons S).1 h
    obtain ⟨ih1, ih2⟩ := ih h2
    cases hw : c.isW
    · simp only [List.filter_cons, hw]
      have := stepSeq_notW S hw h1
      subst this
      exact ⟨ih1, ih2⟩
    · obtain ⟨e1, e2⟩ := stepSeq_isW S hw h1
      simp only [List.filter_cons, hw, if_true]
      refine ⟨?_, ?_⟩
      · intro d hd
        simp only [List.mem_cons] at hd
        rcases hd with rfl | hd
        · omega
        · have := ih1 d hd; omega
      · refine List.Pairwise.cons ?_ ih2
        intro d hd
        have := ih1 d hd
        omega

theorem eq_of_ver_eq {l : List (Call W Q)} (hp : l.Pairwise (fun a b => a.ver < b.ver)) {a b : Call W Q}
    (ha : a ∈ l) (hb : b ∈ l) (he : a.ver = b.ver) : a = b := by
  induction l with
  | nil => cases ha
  | cons c cs ih =>
    rw [List.pairwise_cons] at hp
    simp only [List.mem_cons] at ha hb
    rcases ha with rfl | ha <;> rcases hb with rfl | hb
    · rfl
    · have := hp.1 b hb; omega
    · have := hp.1 a ha; omega
    · exact ih hp.2 ha hb

/-- sorting the writes of the history by version recovers the order of the linearization -/
theorem sortedWrites_eq {h L : List (Call W Q)} (hperm : L.Perm h)
    (hs : (L.filter Call.isW).Pairwise (fun a b => a.ver < b.ver)) : sortedWrites h = L.filter Call.isW := by
  unfold sortedWrites
  have p1 : ((h.filter Call.isW).mergeSort fun a b => decide (a.ver ≤ b.ver)).Perm (L.filter Call.isW) :=
    (List.mergeSort_perm _ _).trans (hperm.symm.filter _)
  have s1 : ((h.filter Call.isW).mergeSort fun a b => decide (a.ver ≤ b.ver)).Pairwise
      (fun a b => decide (a.ver ≤ b.ver) = true) := by
    apply List.pairwise_mergeSort
    · intro a b c hab hbc; simp at hab hbc ⊢; omega
    · intro a b; simp; omega
  have s2 : (L.filter Call.isW).Pairwise (fun a b => decide (a.ver ≤ b.ver) = true) :=
    hs.imp (fun hab => by simp; omega)
  refine List.Perm.eq_of_pairwise ?_ s1 s2 p1
  intro a b ha hb hab hba
  simp at hab hba
  exact eq_of_ver_eq hs (p1.subset ha) hb (by omega)

/-- the writer that installed the state current after the writes `l` (`b` if there is none) -/
def lastBy (b : Option (Call W Q)) : List (Call W Q) → Option (Call W Q)
  | [] => b
  | a :: r => lastBy (some a) r

theorem lastBy_mem {b : Option (Call W Q)} {l : List (Call W Q)} {w : Call W Q} (h : lastBy b l = some w) :
    w ∈ l ∨ b = some w := by
  induction l generalizing b with
  | nil => exact Or.inr h
  | cons a r ih =>
    rcases ih (b := some a) h with h' | h'
    · exact Or.inl (List.mem_cons_of_mem _ h')
    · exact Or.inl (by rw [Option.some.inj h']; exact List.mem_cons_self ..)

theorem mkSegs_of_runSeq {v : Nat} {st : σ} {b : Option (Call W Q)} {ws : List (Call W Q)} {s' : Nat × σ}
    (h : runSeq S (v, st) ws = some s') : ∃ segs, mkSegs S v st b ws = some segs := by
  induction ws generalizing v st b with
  | nil => exact ⟨_, rfl⟩
  | cons w ws ih =>
    obtain ⟨m, h1, h2⟩ := (runSeq_cons S).1 h
    obtain ⟨segs, hs⟩ := ih (v := m.1) (st := m.2) (b := some w) h2
    exact ⟨⟨v, st, b, some w⟩ :: segs, by simp only [mkSegs, h1, hs, Option.map_some]⟩

/-- the state reached after the writes `A` is one of the segments, with its installer and its successor -/
theorem mkSegs_mem {v : Nat} {st : σ} {b : Option (Call W Q)} {A B : List (Call W Q)} {segs : List (Seg σ W Q)}
    {sA : Nat × σ} (h : mkSegs S v st b (A ++ B) = some segs) (hA : runSeq S (v, st) A = some sA) :
    ∃ g ∈ segs, g.ver = sA.1 ∧ g.st = sA.2 ∧ g.by_ = lastBy b A ∧ g.next = B.head? := by
  induction A generalizing v st b segs with
  | nil =>
    simp only [runSeq] at hA
    have hA' := Option.some.inj hA
    cases B with
    | nil =>
      simp only [List.append_nil, mkSegs] at h
      have := Option.some.inj h
      subst this
      exact ⟨_, List.mem_singleton.2 rfl, by rw [← hA'], by rw [← hA'], rfl, rfl⟩
    | cons w ws =>
      simp only [List.nil_append, mkSegs] at h
      cases hs : stepSeq S (v, st) w with
      | none => simp [hs] at h
      | some m =>
        simp only [hs] at h
        cases hm : mkSegs S m.1 m.2 (some w) ws with
        | none => simp [hm] at h
        | some rest =>
          simp only [hm, Option.map_some] at h
          have := Option.some.inj h
          subst this
          exact ⟨_, List.mem_cons_self .., by rw [← hA'], by rw [← hA'], rfl, rfl⟩
  | cons a A ih =>
    obtain ⟨m, h1, h2⟩ := (runSeq_cons S).1 hA
    simp only [List.cons_append, mkSegs, h1] at h
    cases hm : mkSegs S m.1 m.2 (some a) (A ++ B) with
    | none => simp [hm] at h
    | some rest =>
      simp only [hm, Option.map_some] at h
      have := Option.some.inj h
      subst this
      obtain ⟨g, hg, e1, e2, e3, e4⟩ := ih hm h2
      exact ⟨g, List.mem_cons_of_mem _ hg, e1, e2, e3, e4⟩

theorem rtOk_of_RT {l : List (Call W Q)} (h : RT l) : rtOk l = true := by
  induction l with
  | nil => rfl
  | cons a r ih =>
    unfold RT at h
    rw [List.pairwise_cons] at h
    simp only [rtOk, Bool.and_eq_true, List.all_eq_true]
    exact ⟨fun b hb => by simpa using h.1 b hb, ih h.2⟩

/-- monotonicity of observed versions along real time, for every pair of calls of a legal sequential execution -/
theorem seen_monotone (hv : ExposesVersion S) {s s' : Nat × σ} {L : List (Call W Q)} (h : runSeq S s L = some s')
    (hrt : RT L) :
    (∀ c ∈ L, ∀ v, verSeen c = some v → s.1 ≤ v ∧ v ≤ s'.1) ∧
    (∀ a ∈ L, ∀ b ∈ L, ∀ va vb, a.ret < b.call → verSeen a = some va → verSeen b = some vb → va ≤ vb) := by
  induction L generalizing s with
  | nil => simp
  | cons c cs ih =>
    obtain ⟨m, h1, h2⟩ := (runSeq_cons S).1 h
    unfold RT at hrt
    rw [List.pairwise_cons] at hrt
    obtain ⟨ih1, ih2⟩ := ih h2 hrt.2
    have hm1 := stepSeq_ver_le S h1
    have hm2 := runSeq_ver_le S h2
    refine ⟨?_, ?_⟩
    · intro d hd v hs
      simp only [List.mem_cons] at hd
      rcases hd with rfl | hd
      · have := stepSeq_seen S hv h1 hs; omega
      · have := ih1 d hd v hs; omega
    · intro a ha b hb va vb hlt hsa hsb
      simp only [List.mem_cons] at ha hb
      rcases ha with rfl | ha <;> rcases hb with rfl | hb
      · rw [hsa] at hsb; have := Option.some.inj hsb; omega
      · have := stepSeq_seen S hv h1 hsa
        have := ih1 b hb vb hsb
        omega
      · exact absurd hlt (hrt.1 a ha)
      · exact ih2 a ha b hb va vb hlt hsa hsb

theorem adjOk_of_pairs {l : List (Call W Q)}
    (h : ∀ a ∈ l, ∀ b ∈ l, ∀ va vb, a.ret < b.call → verSeen a = some va → verSeen b = some vb → va ≤ vb) :
    adjOk l = true := by
  induction l with
  | nil => rfl
  | cons a r ih =>
    cases r with
    | nil => rfl
    | cons b r' =>
      simp only [adjOk, Bool.and_eq_true]
      refine ⟨?_, ih (fun x hx y hy => h x (List.mem_cons_of_mem _ hx) y (List.mem_cons_of_mem _ hy))⟩
      unfold pairOk
      cases hsa : verSeen a with
      | none => rfl
      | some va =>
        cases hsb : verSeen b with
        | none => rfl
        | some vb =>
          simp only [Bool.or_eq_true, Bool.not_eq_true', decide_eq_false_iff_not, decide_eq_true_eq]
          by_cases hlt : a.ret < b.call
          · exact Or.inr (h a (List.mem_cons_self ..) b (List.mem_cons_of_mem _ (List.mem_cons_self ..)) va vb hlt hsa hsb)
          · exact Or.inl hlt

/-- every read of a linearizable history finds its segment -/
theorem readOk_of_lin {L : List (Call W Q)} {sf : Nat × σ} (hrun : runSeq S (0, S.init) L = some sf) (hrt : RT L)
    {segs : List (Seg σ W Q)} (hsegs : mkSegs S 0 S.init none (L.filter Call.isW) = some segs)
    {c : Call W Q} (hc : c ∈ L) : readOk S segs c = true := by
  unfold readOk
  cases hop : c.op with
  | w x => rfl
  | r q =>
    simp only
    obtain ⟨A, B, rfl⟩ := List.append_of_mem hc
    obtain ⟨sA, hA, hB⟩ := (runSeq_append S).1 hrun
    obtain ⟨m, hstep, _⟩ := (runSeq_cons S).1 hB
    obtain ⟨hm, hres⟩ := stepSeq_read S hop hstep
    have hcw : c.isW = false := by simp [Call.isW, hop]
    have hfil : (A ++ c :: B).filter Call.isW = A.filter Call.isW ++ B.filter Call.isW := by
      simp [List.filter_append, hcw]
    rw [hfil] at hsegs
    obtain ⟨g, hg, e1, e2, e3, e4⟩ := mkSegs_mem S hsegs (runSeq_filter S hA)
    rw [List.any_eq_true]
    refine ⟨g, hg, ?_⟩
    unfold RT at hrt
    rw [List.pairwise_append] at hrt
    obtain ⟨_, hcB, hAB⟩ := hrt
    rw [List.pairwise_cons] at hcB
    simp only [segOk, Bool.and_eq_true, decide_eq_true_eq]
    refine ⟨⟨?_, ?_⟩, ?_⟩
    · cases hb : g.by_ with
      | none => rfl
      | some w =>
        simp only [decide_eq_true_eq]
        rw [e3] at hb
        rcases lastBy_mem hb with hw | hw
        · have hwA : w ∈ A := (List.mem_filter.1 hw).1
          have := hAB w hwA c (List.mem_cons_self ..)
          omega
        · cases hw
    · cases hn : g.next with
      | none => rfl
      | some w =>
        simp only [decide_eq_true_eq]
        rw [e4] at hn
        have hwB : w ∈ B := (List.mem_filter.1 (List.mem_of_mem_head? hn)).1
        have := hcB.1 w hwB
        omega
    · rw [hres, e1, e2]

/-- SOUNDNESS: a linearizable history passes the checker -/
theorem checkHistory_of_linearizable (hv : ExposesVersion S) {h : List (Call W Q)} (hl : Linearizable S h) :
    checkHistory S h = true := by
  obtain ⟨L, hperm, hrt, hrun⟩ := hl
  obtain ⟨sf, hsf⟩ := Option.isSome_iff_exists.1 hrun
  have hinc := (writes_increasing S hsf).2
  have hsw := sortedWrites_eq hperm hinc
  obtain ⟨segs, hsegs⟩ := mkSegs_of_runSeq S (b := none) (runSeq_filter S hsf)
  unfold checkHistory
  rw [hsw, hsegs]
  simp only [Bool.and_eq_true, List.all_eq_true]
  refine ⟨⟨?_, ?_⟩, ?_⟩
  · exact rtOk_of_RT (List.Pairwise.sublist List.filter_sublist hrt)
  · intro c hc
    exact readOk_of_lin S hsf hrt hsegs (hperm.symm.subset hc)
  · apply adjOk_of_pairs
    intro a ha b hb va vb hlt hsa hsb
    have haL : a ∈ L := hperm.symm.subset (List.mem_filter.1 ha).1
    have hbL : b ∈ L := hperm.symm.subset (List.mem_filter.1 hb).1
    exact (seen_monotone S hv hsf hrt).2 a haL b hbL va vb hlt hsa hsb

end Fox.Spec.History
