import FoxModel.Lemmas.History
/-
  FoxModel.Lemmas.HistoryComplete — the converse of the checker's soundness on *sequential* histories: a history in which
  no two calls overlap and which the checker accepts is linearizable (by its own log order). Hence, on sequential
  histories, `checkHistory` decides linearizability exactly.
-/
namespace Fox.Spec.History
variable {σ W Q : Type} (S : Sem σ W Q)

/-- no two calls overlap: every call returned before the next one in the log was invoked (and a call does not return
    before it was invoked) -/
def SeqH (h : List (Call W Q)) : Prop :=
  h.Pairwise (fun a b => a.ret < b.call) ∧ ∀ c ∈ h, c.call ≤ c.ret

theorem RT_of_rtOk {l : List (Call W Q)} (h : rtOk l = true) : RT l := by
  induction l with
  | nil => exact List.Pairwise.nil
  | cons a r ih =>
    simp only [rtOk, Bool.and_eq_true, List.all_eq_true] at h
    unfold RT
    rw [List.pairwise_cons]
    exact ⟨fun b hb => by simpa using h.1 b hb, ih h.2⟩

theorem trichotomy {l : List (Call W Q)} (hp : l.Pairwise (fun a b => a.ret < b.call)) {a b : Call W Q}
    (ha : a ∈ l) (hb : b ∈ l) : a = b ∨ a.ret < b.call ∨ b.ret < a.call := by
  induction l with
  | nil => cases ha
  | cons c cs ih =>
    rw [List.pairwise_cons] at hp
    simp only [List.mem_cons] at ha hb
    rcases ha with rfl | ha <;> rcases hb with rfl | hb
    · exact Or.inl rfl
    · exact Or.inr (Or.inl (hp.1 b hb))
    · exact Or.inr (Or.inr (hp.1 a ha))
    · exact ih hp.2 ha hb

/-- in a sequential history, a version order of the writes that does not contradict real time is the log order -/
theorem sortedWrites_seq {h : List (Call W Q)} (hs : SeqH h) (hrt : rtOk (sortedWrites h) = true) :
    sortedWrites h = h.filter Call.isW := by
  have hF : (h.filter Call.isW).Pairwise (fun a b => a.ret < b.call) := hs.1.sublist List.filter_sublist
  have hFc : ∀ c ∈ h.filter Call.isW, c.call ≤ c.ret := fun c hc => hs.2 c ((List.mem_filter.mp hc).1)
  have p1 : (sortedWrites h).Perm (h.filter Call.isW) := List.mergeSort_perm _ _
  have s1 : (sortedWrites h).Pairwise (fun a b => ¬ b.ret < a.call) := RT_of_rtOk hrt
  have s2 : (h.filter Call.isW).Pairwise (fun a b => ¬ b.ret < a.call) := by
    refine List.Pairwise.imp_of_mem ?_ hF
    intro a b ha hb hab hba
    have := hFc a ha; have := hFc b hb; omega
  refine List.Perm.eq_of_pairwise ?_ s1 s2 p1
  intro a b ha hb hab hba
  rcases trichotomy hF (p1.subset ha) hb with h' | h' | h'
  · exact h'
  · exact absurd h' hba
  · exact absurd h' hab

theorem runSeq_of_mkSegs {v : Nat} {st : σ} {b : Option (Call W Q)} {ws : List (Call W Q)} {segs : List (Seg σ W Q)}
    (h : mkSegs S v st b ws = some segs) : ∃ s', runSeq S (v, st) ws = some s' := by
  induction ws generalizing v st b segs with
  | nil => exact ⟨_, rfl⟩
  | cons w ws ih =>
    simp only [mkSegs] at h
    cases hs : stepSeq S (v, st) w with
    | none => simp [hs] at h
    | some m =>
      simp only [hs] at h
      cases hm : mkSegs S m.1 m.2 (some w) ws with
      | none => simp [hm] at h
      | some rest =>
        obtain ⟨s', hs'⟩ := ih hm
        exact ⟨s', (runSeq_cons S).2 ⟨m, hs, hs'⟩⟩

/-- every segment is the state after a prefix of the writes, with its installer and its successor -/
theorem mkSegs_all {v : Nat} {st : σ} {b : Option (Call W Q)} {ws : List (Call W Q)} {segs : List (Seg σ W Q)}
    (h : mkSegs S v st b ws = some segs) :
    ∀ g ∈ segs, ∃ A B, ws = A ++ B ∧ runSeq S (v, st) A = some (g.ver, g.st) ∧ g.by_ = lastBy b A ∧ g.next = B.head? := by
  induction ws generalizing v st b segs with
  | nil =>
    simp only [mkSegs] at h
    have := Option.some.inj h; subst this
    intro g hg
    rw [List.mem_singleton] at hg; subst hg
    exact ⟨[], [], rfl, rfl, rfl, rfl⟩
  | cons w ws ih =>
    simp only [mkSegs] at h
    cases hs : stepSeq S (v, st) w with
    | none => simp [hs] at h
    | some m =>
      simp only [hs] at h
      cases hm : mkSegs S m.1 m.2 (some w) ws with
      | none => simp [hm] at h
      | some rest =>
        simp only [hm, Option.map_some] at h
        have := Option.some.inj h; subst this
        intro g hg
        rw [List.mem_cons] at hg
        rcases hg with rfl | hg
        · exact ⟨[], w :: ws, rfl, rfl, rfl, rfl⟩
        · obtain ⟨A, B, e1, e2, e3, e4⟩ := ih hm g hg
          exact ⟨w :: A, B, by rw [e1]; rfl, (runSeq_cons S).2 ⟨m, hs, e2⟩, e3, e4⟩

theorem lastBy_append_mem {b : Option (Call W Q)} {A a' : List (Call W Q)} (hne : a' ≠ []) :
    ∃ w ∈ a', lastBy b (A ++ a') = some w := by
  induction A generalizing b with
  | nil =>
    induction a' generalizing b with
    | nil => exact absurd rfl hne
    | cons x xs ih =>
      cases xs with
      | nil => exact ⟨x, List.mem_cons_self .., rfl⟩
      | cons y ys =>
        obtain ⟨w, hw, e⟩ := ih (b := some x) (by simp)
        exact ⟨w, List.mem_cons_of_mem _ hw, e⟩
  | cons c A ih => exact ih (b := some c)

theorem runSeq_det {s a b : Nat × σ} {L : List (Call W Q)} (h1 : runSeq S s L = some a) (h2 : runSeq S s L = some b) :
    a = b := by rw [h1] at h2; exact Option.some.inj h2

/-- **sequential histories: acceptance is linearizability.** If no two calls of `h` overlap and the checker accepts `h`,
    then `h`, in its own order, is a legal sequential execution of the specification. -/
theorem runSeq_of_check_seq {h : List (Call W Q)} (hs : SeqH h) (hc : checkHistory S h = true) :
    (runSeq S (0, S.init) h).isSome = true := by
  unfold checkHistory at hc
  cases hm : mkSegs S 0 S.init none (sortedWrites h) with
  | none => simp [hm] at hc
  | some segs =>
    simp only [hm, Bool.and_eq_true, List.all_eq_true] at hc
    obtain ⟨⟨hrt, hreads⟩, _⟩ := hc
    have hF := sortedWrites_seq hs hrt
    rw [hF] at hm
    obtain ⟨sF, hrunF⟩ := runSeq_of_mkSegs S hm
    -- induction over the suffix still to run
    suffices key : ∀ (R P : List (Call W Q)) (s : Nat × σ), P ++ R = h → runSeq S (0, S.init) P = some s →
        runSeq S (0, S.init) (P.filter Call.isW) = some s → (runSeq S s R).isSome = true by
      exact key h [] (0, S.init) rfl rfl rfl
    intro R
    induction R with
    | nil => intro P s _ _ _; rfl
    | cons c R ih =>
      intro P s hPR hP hPF
      have hsplit : h.filter Call.isW = P.filter Call.isW ++ (c :: R).filter Call.isW := by
        rw [← hPR, List.filter_append]
      have hcmem : c ∈ h := by rw [← hPR]; simp
      have hbefore : ∀ w ∈ P, w.ret < c.call := by
        intro w hw
        have := hs.1; rw [← hPR, List.pairwise_append] at this
        exact this.2.2 w hw c (List.mem_cons_self ..)
      have hafter : ∀ w ∈ R, c.ret < w.call := by
        intro w hw
        have := hs.1; rw [← hPR, List.pairwise_append] at this
        exact (List.pairwise_cons.mp this.2.1).1 w hw
      have hstep : ∃ s', stepSeq S s c = some s' ∧
          runSeq S (0, S.init) ((P ++ [c]).filter Call.isW) = some s' := by
        cases hw : c.isW with
        | true =>
          -- a write: the next write of the version chain
          rw [hsplit, List.filter_cons, hw] at hrunF
          simp only [if_true] at hrunF
          obtain ⟨m, hm1, hm2⟩ := (runSeq_append S).1 hrunF
          have := runSeq_det S hm1 hPF; subst this
          obtain ⟨s', hs1, _⟩ := (runSeq_cons S).1 hm2
          refine ⟨s', hs1, ?_⟩
          rw [List.filter_append, List.filter_cons, hw]
          simp only [if_true, List.filter_nil]
          exact (runSeq_append S).2 ⟨m, hPF, by simp [runSeq, hs1]⟩
        | false =>
          -- a read: the only segment current during it is the one after the writes of P
          have hrd := hreads c hcmem
          unfold readOk at hrd
          cases hop : c.op with
          | w x => simp [Call.isW, hop] at hw
          | r q =>
            simp only [hop, List.any_eq_true] at hrd
            obtain ⟨g, hg, hok⟩ := hrd
            simp only [segOk, Bool.and_eq_true, decide_eq_true_eq] at hok
            obtain ⟨⟨hby, hnext⟩, hres⟩ := hok
            obtain ⟨A, B, e1, e2, e3, e4⟩ := mkSegs_all S hm g hg
            have hRF : (c :: R).filter Call.isW = R.filter Call.isW := by
              rw [List.filter_cons, hw]; simp
            rw [hsplit, hRF] at e1
            have hA : A = P.filter Call.isW := by
              rcases List.append_eq_append_iff.mp e1 with ⟨a', ha1, ha2⟩ | ⟨c', hc1, hc2⟩
              · -- A = PF ++ a'
                by_cases hne : a' = []
                · subst hne; simpa using ha1
                · exfalso
                  obtain ⟨w, hw1, hw2⟩ := lastBy_append_mem (b := none) (A := P.filter Call.isW) hne
                  rw [← ha1] at hw2
                  rw [e3, hw2] at hby
                  simp only [decide_eq_true_eq] at hby
                  have hwR : w ∈ R := by
                    have : w ∈ R.filter Call.isW := by rw [ha2]; exact List.mem_append_left _ hw1
                    exact (List.mem_filter.mp this).1
                  have := hafter w hwR; omega
              · -- PF = A ++ c'
                by_cases hne : c' = []
                · subst hne; simpa using hc1.symm
                · exfalso
                  cases c' with
                  | nil => exact hne rfl
                  | cons w' cs' =>
                    rw [hc2] at e4
                    simp only [List.cons_append, List.head?_cons] at e4
                    rw [e4] at hnext
                    simp only [decide_eq_true_eq] at hnext
                    have hwP : w' ∈ P := by
                      have : w' ∈ P.filter Call.isW := by rw [hc1]; simp
                      exact (List.mem_filter.mp this).1
                    have := hbefore w' hwP; omega
            rw [hA] at e2
            have := runSeq_det S e2 hPF
            refine ⟨s, ?_, ?_⟩
            · unfold stepSeq; simp only [hop]
              rw [← this] at *
              simp [hres]
            · rw [List.filter_append, List.filter_cons, hw]; simpa using hPF
      obtain ⟨s', hs1, hs2⟩ := hstep
      have hP' : runSeq S (0, S.init) (P ++ [c]) = some s' :=
        (runSeq_append S).2 ⟨s, hP, by simp [runSeq, hs1]⟩
      have := ih (P ++ [c]) s' (by rw [← hPR]; simp) hP' hs2
      simp only [runSeq, hs1]
      exact this

theorem linearizable_of_check_seq {h : List (Call W Q)} (hs : SeqH h) (hc : checkHistory S h = true) :
    Linearizable S h := by
  refine ⟨h, List.Perm.refl _, ?_, runSeq_of_check_seq S hs hc⟩
  unfold RT
  refine List.Pairwise.imp_of_mem ?_ hs.1
  intro a b ha hb hab hba
  have := hs.2 a ha; have := hs.2 b hb; omega

end Fox.Spec.History
