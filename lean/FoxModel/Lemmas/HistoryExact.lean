import FoxModel.Lemmas.HistoryComplete
/-
  FoxModel.Lemmas.HistoryExact — the exact checker `checkLin` decides linearizability, for overlapping calls too.

  Soundness (`checkLin_of_linearizable`): the versions at which the calls take effect in a linearization are an assignment
  the greedy one stays below, call by call, so the greedy assignment never gets stuck.
  Completeness (`linearizable_of_checkLin`): sorting the calls by (assigned version, writes first, call stamp) is a legal
  sequential execution that respects real time.
-/
namespace Fox.Spec.History
variable {σ W Q : Type} (S : Sem σ W Q)

/-! ### `leastFrom`, `lowerBound` -/

theorem leastFrom_some {lb : Nat} {l : List Nat} {v : Nat} (h : leastFrom lb l = some v) : v ∈ l ∧ lb ≤ v := by
  induction l generalizing v with
  | nil => cases h
  | cons x xs ih =>
    simp only [leastFrom] at h
    cases hr : leastFrom lb xs with
    | none =>
      rw [hr] at h
      simp only at h
      split at h
      · rename_i hc; cases h; exact ⟨List.mem_cons_self .., hc⟩
      · cases h
    | some y =>
      rw [hr] at h
      simp only at h
      split at h
      · rename_i hc; cases h; exact ⟨List.mem_cons_self .., hc.1⟩
      · cases h; have := ih hr; exact ⟨List.mem_cons_of_mem _ this.1, this.2⟩

theorem leastFrom_le {lb : Nat} {l : List Nat} {u : Nat} (hu : u ∈ l) (hl : lb ≤ u) :
    ∃ v, leastFrom lb l = some v ∧ v ≤ u := by
  induction l with
  | nil => cases hu
  | cons x xs ih =>
    simp only [leastFrom]
    rcases List.mem_cons.1 hu with rfl | hu'
    · cases hr : leastFrom lb xs with
      | none => exact ⟨u, by simp [hl], Nat.le_refl _⟩
      | some y =>
        simp only
        by_cases hc : lb ≤ u ∧ u ≤ y
        · exact ⟨u, by simp [hc], Nat.le_refl _⟩
        · refine ⟨y, by simp [hc], ?_⟩
          omega
    · obtain ⟨v, hv, hle⟩ := ih hu'
      rw [hv]
      simp only
      by_cases hc : lb ≤ x ∧ x ≤ v
      · exact ⟨x, by simp [hc], by omega⟩
      · exact ⟨v, by simp [hc], hle⟩

theorem lbFold_ge_init (c : Call W Q) (acc : List (Call W Q × Nat)) (m0 : Nat) :
    m0 ≤ acc.foldl (fun m p => if p.1.ret < c.call then max m p.2 else m) m0 := by
  induction acc generalizing m0 with
  | nil => exact Nat.le_refl _
  | cons p ps ih =>
    simp only [List.foldl_cons]
    split
    · exact Nat.le_trans (Nat.le_max_left _ _) (ih _)
    · exact ih _

theorem lbFold_ge_mem (c : Call W Q) (acc : List (Call W Q × Nat)) (m0 : Nat) {p : Call W Q × Nat} (hp : p ∈ acc)
    (hlt : p.1.ret < c.call) : p.2 ≤ acc.foldl (fun m p => if p.1.ret < c.call then max m p.2 else m) m0 := by
  induction acc generalizing m0 with
  | nil => cases hp
  | cons q qs ih =>
    simp only [List.foldl_cons]
    rcases List.mem_cons.1 hp with rfl | hp'
    · simp only [hlt, if_true]
      exact Nat.le_trans (Nat.le_max_right _ _) (lbFold_ge_init c qs _)
    · exact ih _ hp'

theorem lbFold_le (c : Call W Q) (acc : List (Call W Q × Nat)) (m0 B : Nat) (h0 : m0 ≤ B)
    (h : ∀ p ∈ acc, p.1.ret < c.call → p.2 ≤ B) :
    acc.foldl (fun m p => if p.1.ret < c.call then max m p.2 else m) m0 ≤ B := by
  induction acc generalizing m0 with
  | nil => exact h0
  | cons q qs ih =>
    simp only [List.foldl_cons]
    split
    · rename_i hlt
      exact ih _ (Nat.max_le.2 ⟨h0, h q (List.mem_cons_self ..) hlt⟩) (fun p hp => h p (List.mem_cons_of_mem _ hp))
    · exact ih _ h0 (fun p hp => h p (List.mem_cons_of_mem _ hp))

theorem lowerBound_ge {acc : List (Call W Q × Nat)} {c : Call W Q} {p : Call W Q × Nat} (hp : p ∈ acc)
    (hlt : p.1.ret < c.call) : p.2 ≤ lowerBound acc c := lbFold_ge_mem c acc 0 hp hlt

theorem lowerBound_le {acc : List (Call W Q × Nat)} {c : Call W Q} {B : Nat}
    (h : ∀ p ∈ acc, p.1.ret < c.call → p.2 ≤ B) : lowerBound acc c ≤ B := lbFold_le c acc 0 B (Nat.zero_le _) h

theorem mem_allowed {segs : List (Seg σ W Q)} {c : Call W Q} {v : Nat} :
    v ∈ allowed S segs c ↔ ∃ g ∈ segs, explains S c g = true ∧ g.ver = v := by
  unfold allowed
  simp only [List.mem_map, List.mem_filter]
  constructor
  · rintro ⟨g, ⟨hg, he⟩, hv⟩; exact ⟨g, hg, he, hv⟩
  · rintro ⟨g, hg, he, hv⟩; exact ⟨g, ⟨hg, he⟩, hv⟩

/-! ### what the greedy assignment returns -/

/-- a call that returned before another was called has no greater version -/
def Mono (A : List (Call W Q × Nat)) : Prop := ∀ p ∈ A, ∀ q ∈ A, p.1.ret < q.1.call → p.2 ≤ q.2

theorem assign_spec {segs : List (Seg σ W Q)} (cs : List (Call W Q)) :
    ∀ (acc A : List (Call W Q × Nat)), assign S segs acc cs = some A → RT cs →
      (∀ p ∈ acc, ∀ c ∈ cs, ¬ c.ret < p.1.call) → Mono acc →
      Mono A ∧ (A.map Prod.fst).Perm (cs ++ acc.map Prod.fst) ∧ (∀ p ∈ A, p ∈ acc ∨ p.2 ∈ allowed S segs p.1) := by
  induction cs with
  | nil =>
    intro acc A h _ _ hm
    simp only [assign] at h
    cases h
    exact ⟨hm, by simp, fun p hp => Or.inl hp⟩
  | cons c cs ih =>
    intro acc A h hrt hlate hm
    simp only [assign] at h
    cases hl : leastFrom (lowerBound acc c) (allowed S segs c) with
    | none => rw [hl] at h; cases h
    | some v =>
      rw [hl] at h
      simp only at h
      unfold RT at hrt
      rw [List.pairwise_cons] at hrt
      obtain ⟨hv1, hv2⟩ := leastFrom_some hl
      have hm' : Mono ((c, v) :: acc) := by
        intro p hp q hq hlt
        rcases List.mem_cons.1 hp with rfl | hp' <;> rcases List.mem_cons.1 hq with rfl | hq'
        · exact Nat.le_refl _
        · exact absurd hlt (hlate q hq' c (List.mem_cons_self ..))
        · exact Nat.le_trans (lowerBound_ge hp' hlt) hv2
        · exact hm p hp' q hq' hlt
      have hlate' : ∀ p ∈ (c, v) :: acc, ∀ d ∈ cs, ¬ d.ret < p.1.call := by
        intro p hp d hd
        rcases List.mem_cons.1 hp with rfl | hp'
        · exact hrt.1 d hd
        · exact hlate p hp' d (List.mem_cons_of_mem _ hd)
      obtain ⟨r1, r2, r3⟩ := ih ((c, v) :: acc) A h hrt.2 hlate' hm'
      refine ⟨r1, ?_, ?_⟩
      · refine r2.trans ?_
        simp only [List.map_cons, List.cons_append]
        exact List.perm_middle
      · intro p hp
        rcases r3 p hp with h' | h'
        · rcases List.mem_cons.1 h' with rfl | h''
          · exact Or.inr hv1
          · exact Or.inl h''
        · exact Or.inr h'

/-! ### soundness: a linearization bounds the greedy assignment from above -/

theorem stepSeq_ver {s s' : Nat × σ} {c : Call W Q} (h : stepSeq S s c = some s') :
    s'.1 = s.1 + (if c.isW = true then 1 else 0) := by
  cases hw : c.isW
  · rw [stepSeq_notW S hw h]; simp
  · rw [(stepSeq_isW S hw h).2]; simp

/-- call `a` takes effect at version `u` in the sequential execution `L` -/
def Occ (L : List (Call W Q)) (a : Call W Q) (u : Nat) : Prop :=
  ∃ A B sA, L = A ++ a :: B ∧ runSeq S (0, S.init) A = some sA ∧ u = sA.1 + (if a.isW = true then 1 else 0)

theorem occ_mono {L : List (Call W Q)} (hrt : RT L) {a c : Call W Q} {ua uc : Nat} (ha : Occ S L a ua) (hc : Occ S L c uc)
    (hlt : a.ret < c.call) (hcw : c.call ≤ c.ret) : ua ≤ uc := by
  obtain ⟨A1, B1, sA1, e1, r1, rfl⟩ := ha
  obtain ⟨A, B, sA, e2, r2, rfl⟩ := hc
  rw [e1] at e2
  rcases List.append_eq_append_iff.mp e2 with ⟨a', h1, h2⟩ | ⟨c', h1, h2⟩
  · cases a' with
    | nil =>
      simp only [List.nil_append] at h2
      have : a = c := (List.cons.inj h2).1
      subst this; omega
    | cons x a'' =>
      have hx : a = x := (List.cons.inj h2).1
      subst hx
      rw [h1] at r2
      obtain ⟨m, hm1, hm2⟩ := (runSeq_append S).1 r2
      have := runSeq_det S hm1 r1; subst this
      obtain ⟨m2, hs, hr⟩ := (runSeq_cons S).1 hm2
      have e := stepSeq_ver S hs
      have := runSeq_ver_le S hr
      omega
  · cases c' with
    | nil =>
      simp only [List.nil_append] at h2
      have : c = a := (List.cons.inj h2).1
      subst this; omega
    | cons x c'' =>
      exfalso
      have hx : c = x := (List.cons.inj h2).1
      subst hx
      have hB : B = c'' ++ a :: B1 := (List.cons.inj h2).2
      -- L = A ++ c :: (c'' ++ a :: B1): c is placed before a although a returned before c was called
      rw [e1] at hrt
      rw [h1] at hrt
      unfold RT at hrt
      rw [List.append_assoc, List.pairwise_append] at hrt
      have := hrt.2.1
      rw [List.cons_append, List.pairwise_cons] at this
      exact this.1 a (by simp) hlt

theorem occ_allowed {L : List (Call W Q)} {sf : Nat × σ} (hrun : runSeq S (0, S.init) L = some sf) (hrt : RT L)
    {segs : List (Seg σ W Q)} (hsegs : mkSegs S 0 S.init none (L.filter Call.isW) = some segs)
    {c : Call W Q} {A B : List (Call W Q)} {sA : Nat × σ} (hL : L = A ++ c :: B) (hA : runSeq S (0, S.init) A = some sA) :
    sA.1 + (if c.isW = true then 1 else 0) ∈ allowed S segs c := by
  subst hL
  obtain ⟨sA', hA', hB⟩ := (runSeq_append S).1 hrun
  have := runSeq_det S hA' hA; subst this
  obtain ⟨m, hstep, _⟩ := (runSeq_cons S).1 hB
  rw [mem_allowed]
  cases hw : c.isW with
  | true =>
    have hfil : (A ++ c :: B).filter Call.isW = (A.filter Call.isW ++ [c]) ++ B.filter Call.isW := by
      simp [List.filter_append, hw]
    rw [hfil] at hsegs
    have hrunA : runSeq S (0, S.init) (A.filter Call.isW ++ [c]) = some m :=
      (runSeq_append S).2 ⟨sA', runSeq_filter S hA, by simp [runSeq, hstep]⟩
    obtain ⟨g, hg, e1, _, _, _⟩ := mkSegs_mem S hsegs hrunA
    obtain ⟨v1, v2⟩ := stepSeq_isW S hw hstep
    refine ⟨g, hg, ?_, ?_⟩
    · unfold explains
      cases hop : c.op with
      | r q => simp [Call.isW, hop] at hw
      | w x => simp only [decide_eq_true_eq]; omega
    · simp only [if_true]; omega
  | false =>
    have hfil : (A ++ c :: B).filter Call.isW = A.filter Call.isW ++ B.filter Call.isW := by
      simp [List.filter_append, hw]
    rw [hfil] at hsegs
    obtain ⟨g, hg, e1, e2, e3, _⟩ := mkSegs_mem S hsegs (runSeq_filter S hA)
    refine ⟨g, hg, ?_, by simp [e1]⟩
    cases hop : c.op with
    | w x => simp [Call.isW, hop] at hw
    | r q =>
      obtain ⟨_, hres⟩ := stepSeq_read S hop hstep
      unfold explains
      simp only [hop, Bool.and_eq_true, decide_eq_true_eq]
      refine ⟨?_, by rw [hres, e1, e2]⟩
      cases hb : g.by_ with
      | none => rfl
      | some w =>
        simp only [decide_eq_true_eq]
        rw [e3] at hb
        rcases lastBy_mem hb with hw' | hw'
        · have hwA : w ∈ A := (List.mem_filter.1 hw').1
          unfold RT at hrt
          rw [List.pairwise_append] at hrt
          have := hrt.2.2 w hwA c (List.mem_cons_self ..)
          omega
        · cases hw'

theorem assign_complete {L : List (Call W Q)} {sf : Nat × σ} (hrun : runSeq S (0, S.init) L = some sf) (hrt : RT L)
    {segs : List (Seg σ W Q)} (hsegs : mkSegs S 0 S.init none (L.filter Call.isW) = some segs) (cs : List (Call W Q)) :
    ∀ acc : List (Call W Q × Nat), (∀ p ∈ acc, ∃ u, Occ S L p.1 u ∧ p.2 ≤ u) → (∀ c ∈ cs, c ∈ L) →
      (∀ c ∈ cs, c.call ≤ c.ret) → ∃ A, assign S segs acc cs = some A := by
  induction cs with
  | nil => intro acc _ _ _; exact ⟨acc, rfl⟩
  | cons c cs ih =>
    intro acc hinv hmem hst
    have hcL := hmem c (List.mem_cons_self ..)
    obtain ⟨A, B, hL⟩ := List.append_of_mem hcL
    have hrun' := hrun
    rw [hL] at hrun'
    obtain ⟨sA, hA, _⟩ := (runSeq_append S).1 hrun'
    have hocc : Occ S L c (sA.1 + (if c.isW = true then 1 else 0)) := ⟨A, B, sA, hL, hA, rfl⟩
    have hal := occ_allowed S hrun hrt hsegs hL hA
    have hlb : lowerBound acc c ≤ sA.1 + (if c.isW = true then 1 else 0) := by
      apply lowerBound_le
      intro p hp hlt
      obtain ⟨u, hu, hle⟩ := hinv p hp
      exact Nat.le_trans hle (occ_mono S hrt hu hocc hlt (hst c (List.mem_cons_self ..)))
    obtain ⟨v, hv, hvle⟩ := leastFrom_le hal hlb
    simp only [assign, hv]
    apply ih
    · intro p hp
      rcases List.mem_cons.1 hp with rfl | hp'
      · exact ⟨_, hocc, hvle⟩
      · exact hinv p hp'
    · exact fun d hd => hmem d (List.mem_cons_of_mem _ hd)
    · exact fun d hd => hst d (List.mem_cons_of_mem _ hd)

/-- SOUNDNESS of the exact checker: a linearizable history (whose calls return after they are called) is accepted -/
theorem checkLin_of_linearizable {h : List (Call W Q)} (hst : ∀ c ∈ h, c.call ≤ c.ret) (hl : Linearizable S h) :
    checkLin S h = true := by
  obtain ⟨L, hperm, hrt, hrun⟩ := hl
  obtain ⟨sf, hsf⟩ := Option.isSome_iff_exists.1 hrun
  have hinc := (writes_increasing S hsf).2
  have hsw := sortedWrites_eq hperm hinc
  obtain ⟨segs, hsegs⟩ := mkSegs_of_runSeq S (b := none) (runSeq_filter S hsf)
  unfold checkLin
  rw [hsw, hsegs]
  simp only
  have hb : (byCall h).Perm h := List.mergeSort_perm _ _
  obtain ⟨A, hA⟩ := assign_complete S hsf hrt hsegs (byCall h) [] (by simp)
    (fun c hc => hperm.symm.subset (hb.subset hc)) (fun c hc => hst c (hb.subset hc))
  rw [hA]; rfl

/-! ### completeness: the sorted assignment is a linearization -/

theorem mkSegs_shape {k : Nat} {st : σ} {b : Option (Call W Q)} {ws : List (Call W Q)} {segs : List (Seg σ W Q)}
    (hw : ∀ w ∈ ws, w.isW = true) (h : mkSegs S k st b ws = some segs) :
    ∃ nx rest, segs = ⟨k, st, b, nx⟩ :: rest ∧
      ∀ g ∈ rest, k < g.ver ∧ ∃ w ∈ ws, g.by_ = some w ∧ w.ver = g.ver := by
  induction ws generalizing k st b segs with
  | nil =>
    simp only [mkSegs] at h
    have := Option.some.inj h; subst this
    exact ⟨none, [], rfl, by simp⟩
  | cons w ws ih =>
    simp only [mkSegs] at h
    cases hs : stepSeq S (k, st) w with
    | none => simp [hs] at h
    | some m =>
      simp only [hs] at h
      cases hm : mkSegs S m.1 m.2 (some w) ws with
      | none => simp [hm] at h
      | some rest =>
        simp only [hm, Option.map_some] at h
        have := Option.some.inj h; subst this
        obtain ⟨nx', rest', hr, hall⟩ := ih (fun x hx => hw x (List.mem_cons_of_mem _ hx)) hm
        obtain ⟨v1, v2⟩ := stepSeq_isW S (hw w (List.mem_cons_self ..)) hs
        simp only at v1 v2
        refine ⟨some w, rest, rfl, ?_⟩
        intro g hg
        rw [hr] at hg
        rcases List.mem_cons.1 hg with rfl | hg'
        · exact ⟨by simp only; omega, w, List.mem_cons_self .., rfl, by simp only; omega⟩
        · obtain ⟨h1, w', hw', h2, h3⟩ := hall g hg'
          exact ⟨by omega, w', List.mem_cons_of_mem _ hw', h2, h3⟩

/-- second sort key: writes first, then reads by call stamp -/
def k2 (p : Call W Q × Nat) : Nat := if p.1.isW = true then 0 else p.1.call + 1

/-- order of the linearization: by version, writes first, reads by call stamp -/
def kle (p q : Call W Q × Nat) : Bool := decide (p.2 < q.2) || (decide (p.2 = q.2) && decide (k2 p ≤ k2 q))

theorem kle_iff {p q : Call W Q × Nat} : kle p q = true ↔ p.2 < q.2 ∨ (p.2 = q.2 ∧ k2 p ≤ k2 q) := by
  simp [kle]

/-- the sorted assignment replays: the state after `k` writes, the remaining writes are the remaining version chain, every
    call is explained by a segment of that chain carrying its version -/
theorem run_sorted (L : List (Call W Q × Nat)) :
    ∀ (k : Nat) (st : σ) (b : Option (Call W Q)) (segs : List (Seg σ W Q)),
      L.Pairwise (fun p q => kle p q = true) →
      mkSegs S k st b ((L.filter fun p => p.1.isW).map Prod.fst) = some segs →
      (∀ p ∈ L, ∃ g ∈ segs, g.ver = p.2 ∧ explains S p.1 g = true) →
      (runSeq S (k, st) (L.map Prod.fst)).isSome = true := by
  induction L with
  | nil => intro k st b segs _ _ _; rfl
  | cons p L ih =>
    intro k st b segs hsort hsegs hex
    rw [List.pairwise_cons] at hsort
    have hwr : ∀ w ∈ ((p :: L).filter fun p => p.1.isW).map Prod.fst, w.isW = true := by
      intro w hw
      obtain ⟨x, hx, rfl⟩ := List.mem_map.1 hw
      exact (List.mem_filter.1 hx).2
    cases hw : p.1.isW with
    | true =>
      have hfil : ((p :: L).filter fun p => p.1.isW).map Prod.fst = p.1 :: (L.filter fun p => p.1.isW).map Prod.fst := by
        simp [hw]
      rw [hfil] at hsegs
      simp only [mkSegs] at hsegs
      cases hs : stepSeq S (k, st) p.1 with
      | none => simp [hs] at hsegs
      | some m =>
        simp only [hs] at hsegs
        cases hm : mkSegs S m.1 m.2 (some p.1) ((L.filter fun p => p.1.isW).map Prod.fst) with
        | none => simp [hm] at hsegs
        | some rest =>
          simp only [hm, Option.map_some] at hsegs
          have hseg := Option.some.inj hsegs
          obtain ⟨v1, v2⟩ := stepSeq_isW S hw hs
          simp only at v1 v2
          -- p's own version is k + 1
          obtain ⟨gp, hgp, hgv, hge⟩ := hex p (List.mem_cons_self ..)
          have hp2 : p.2 = k + 1 := by
            unfold explains at hge
            cases hop : p.1.op with
            | r q => simp [Call.isW, hop] at hw
            | w x => simp only [hop, decide_eq_true_eq] at hge; omega
          simp only [List.map_cons, runSeq, hs]
          apply ih m.1 m.2 (some p.1) rest hsort.2 hm
          intro q hq
          obtain ⟨g, hg, hv, he⟩ := hex q (List.mem_cons_of_mem _ hq)
          rw [← hseg] at hg
          rcases List.mem_cons.1 hg with rfl | hg'
          · exfalso
            have := kle_iff.1 (hsort.1 q hq)
            simp only at hv
            omega
          · exact ⟨g, hg', hv, he⟩
    | false =>
      have hfil : ((p :: L).filter fun p => p.1.isW).map Prod.fst = (L.filter fun p => p.1.isW).map Prod.fst := by
        simp [hw]
      have hwr' : ∀ w ∈ (L.filter fun p => p.1.isW).map Prod.fst, w.isW = true := by rw [← hfil]; exact hwr
      rw [hfil] at hsegs
      obtain ⟨nx, rest, hshape, hrest⟩ := mkSegs_shape S hwr' hsegs
      obtain ⟨g, hg, hv, he⟩ := hex p (List.mem_cons_self ..)
      have hhead : g = ⟨k, st, b, nx⟩ := by
        rw [hshape] at hg
        rcases List.mem_cons.1 hg with h' | h'
        · exact h'
        · exfalso
          obtain ⟨_, w, hw', _, hwv⟩ := hrest g h'
          obtain ⟨q, hq, rfl⟩ := List.mem_map.1 hw'
          obtain ⟨hqL, hqw⟩ := List.mem_filter.1 hq
          -- q is a write of version g.ver = p.2 placed after the read p
          obtain ⟨gq, _, hgqv, hgqe⟩ := hex q (List.mem_cons_of_mem _ hqL)
          have hq2 : q.2 = q.1.ver := by
            unfold explains at hgqe
            cases hop : q.1.op with
            | r x => simp [Call.isW, hop] at hqw
            | w x => simp only [hop, decide_eq_true_eq] at hgqe; omega
          have := kle_iff.1 (hsort.1 q hqL)
          have hk2p : k2 p = p.1.call + 1 := by simp [k2, hw]
          have hk2q : k2 q = 0 := by simp only [k2]; rw [if_pos hqw]
          omega
      cases hop : p.1.op with
      | w x => simp [Call.isW, hop] at hw
      | r q =>
        unfold explains at he
        simp only [hop, Bool.and_eq_true, decide_eq_true_eq] at he
        have hstep : stepSeq S (k, st) p.1 = some (k, st) := by
          unfold stepSeq
          simp only [hop]
          rw [he.2, hhead]
          simp
        simp only [List.map_cons, runSeq, hstep]
        exact ih k st b segs hsort.2 hsegs (fun q' hq' => hex q' (List.mem_cons_of_mem _ hq'))

theorem pairwise_kle_sort (A : List (Call W Q × Nat)) : (A.mergeSort kle).Pairwise (fun p q => kle p q = true) := by
  apply List.pairwise_mergeSort
  · intro a b c hab hbc
    rw [kle_iff] at hab hbc ⊢
    omega
  · intro a b
    rw [Bool.or_eq_true, kle_iff, kle_iff]
    omega

/-- COMPLETENESS of the exact checker: an accepted history is linearizable -/
theorem linearizable_of_checkLin {h : List (Call W Q)} (hst : ∀ c ∈ h, c.call ≤ c.ret) (hc : checkLin S h = true) :
    Linearizable S h := by
  unfold checkLin at hc
  cases hm : mkSegs S 0 S.init none (sortedWrites h) with
  | none => simp [hm] at hc
  | some segs =>
    simp only [hm] at hc
    obtain ⟨A, hA⟩ := Option.isSome_iff_exists.1 hc
    have hb : (byCall h).Perm h := List.mergeSort_perm _ _
    -- the calls in call-stamp order respect real time
    have hrtB : RT (byCall h) := by
      have hs : (byCall h).Pairwise (fun a b => decide (a.call ≤ b.call) = true) := by
        apply List.pairwise_mergeSort
        · intro a b c hab hbc; simp at hab hbc ⊢; omega
        · intro a b; simp; omega
      unfold RT
      refine List.Pairwise.imp_of_mem ?_ hs
      intro a b _ hbm hab
      have := hst b (hb.subset hbm)
      simp at hab
      omega
    obtain ⟨hmono, hpermA, hall⟩ := assign_spec S (byCall h) [] A hA hrtB (by simp) (by intro p hp; cases hp)
    have hallowed : ∀ p ∈ A, ∃ g ∈ segs, g.ver = p.2 ∧ explains S p.1 g = true := by
      intro p hp
      rcases hall p hp with h' | h'
      · cases h'
      · obtain ⟨g, hg, he, hv⟩ := (mem_allowed S).1 h'
        exact ⟨g, hg, hv, he⟩
    have hpermAh : (A.map Prod.fst).Perm h := by
      refine hpermA.trans ?_
      simpa using hb
    -- facts about the version chain
    have hswW : ∀ w ∈ sortedWrites h, w.isW = true := by
      intro w hw
      have : w ∈ h.filter Call.isW := (List.mergeSort_perm _ _).subset hw
      exact (List.mem_filter.1 this).2
    obtain ⟨sF, hrunF⟩ := runSeq_of_mkSegs S hm
    have hfilW : (sortedWrites h).filter Call.isW = sortedWrites h := List.filter_eq_self.2 hswW
    obtain ⟨hpos, hstrict⟩ := writes_increasing S hrunF
    rw [hfilW] at hpos hstrict
    obtain ⟨nx0, rest0, hshape0, hrest0⟩ := mkSegs_shape S hswW hm
    have hmemSW : ∀ p ∈ A, p.1.isW = true → p.1 ∈ sortedWrites h := by
      intro p hp hw
      have : p.1 ∈ h := hpermAh.subset (List.mem_map.2 ⟨p, hp, rfl⟩)
      exact (List.mergeSort_perm _ _).symm.subset (List.mem_filter.2 ⟨this, hw⟩)
    have hwver : ∀ p ∈ A, p.1.isW = true → p.2 = p.1.ver := by
      intro p hp hw
      obtain ⟨g, _, hv, he⟩ := hallowed p hp
      unfold explains at he
      cases hop : p.1.op with
      | r x => simp [Call.isW, hop] at hw
      | w x => simp only [hop, decide_eq_true_eq] at he; omega
    -- the linearization
    let As := A.mergeSort kle
    have hAs : As.Perm A := List.mergeSort_perm _ _
    have hsortAs : As.Pairwise (fun p q => kle p q = true) := pairwise_kle_sort A
    refine ⟨As.map Prod.fst, (hAs.map _).trans hpermAh, ?_, ?_⟩
    · -- real time
      unfold RT
      rw [List.pairwise_map]
      refine List.Pairwise.imp_of_mem ?_ hsortAs
      intro p q hp hq hk hlt
      have hpA := hAs.subset hp
      have hqA := hAs.subset hq
      have hqp := hmono q hqA p hpA hlt
      have hk' := kle_iff.1 hk
      have hpst := hst p.1 (hpermAh.subset (List.mem_map.2 ⟨p, hpA, rfl⟩))
      have hqst := hst q.1 (hpermAh.subset (List.mem_map.2 ⟨q, hqA, rfl⟩))
      have heq : p.2 = q.2 := by omega
      have hk2 : k2 p ≤ k2 q := by omega
      cases hpw : p.1.isW with
      | true =>
        have hpS := hmemSW p hpA hpw
        have hpv := hwver p hpA hpw
        cases hqw : q.1.isW with
        | true =>
          have hqS := hmemSW q hqA hqw
          have hqv := hwver q hqA hqw
          have : p.1 = q.1 := eq_of_ver_eq hstrict hpS hqS (by omega)
          rw [this] at hlt
          omega
        | false =>
          obtain ⟨g, hg, hv, he⟩ := hallowed q hqA
          rw [hshape0] at hg
          rcases List.mem_cons.1 hg with rfl | hg'
          · have := hpos p.1 hpS
            simp only at hv
            omega
          · obtain ⟨_, w, hwS, hby, hwv⟩ := hrest0 g hg'
            have hwp : w = p.1 := eq_of_ver_eq hstrict hwS hpS (by omega)
            unfold explains at he
            cases hop : q.1.op with
            | w x => simp [Call.isW, hop] at hqw
            | r x =>
              simp only [hop, hby, Bool.and_eq_true, decide_eq_true_eq] at he
              rw [hwp] at he
              omega
      | false =>
        cases hqw : q.1.isW with
        | true =>
          have : k2 p = p.1.call + 1 := by simp [k2, hpw]
          have : k2 q = 0 := by simp only [k2]; rw [if_pos hqw]
          omega
        | false =>
          have : k2 p = p.1.call + 1 := by simp [k2, hpw]
          have : k2 q = q.1.call + 1 := by simp [k2, hqw]
          omega
    · -- legal sequential execution
      have hW : ((As.filter fun p => p.1.isW).map Prod.fst) = sortedWrites h := by
        have p1 : ((As.filter fun p => p.1.isW).map Prod.fst).Perm (sortedWrites h) := by
          have e : (As.filter fun p => p.1.isW).map Prod.fst = (As.map Prod.fst).filter Call.isW := by
            rw [List.filter_map]; rfl
          rw [e]
          exact (((hAs.map _).trans hpermAh).filter _).trans (List.mergeSort_perm _ _).symm
        have s1 : ((As.filter fun p => p.1.isW).map Prod.fst).Pairwise (fun a b => a.ver ≤ b.ver) := by
          rw [List.pairwise_map]
          have : (As.filter fun p => p.1.isW).Pairwise (fun p q => kle p q = true) := hsortAs.sublist List.filter_sublist
          refine List.Pairwise.imp_of_mem ?_ this
          intro p q hp hq hk
          obtain ⟨hp1, hp2⟩ := List.mem_filter.1 hp
          obtain ⟨hq1, hq2⟩ := List.mem_filter.1 hq
          have := hwver p (hAs.subset hp1) hp2
          have := hwver q (hAs.subset hq1) hq2
          have := kle_iff.1 hk
          omega
        have s2 : (sortedWrites h).Pairwise (fun a b => a.ver ≤ b.ver) := hstrict.imp (fun hab => Nat.le_of_lt hab)
        refine List.Perm.eq_of_pairwise ?_ s1 s2 p1
        intro a b ha hb hab hba
        exact eq_of_ver_eq hstrict (p1.subset ha) hb (by omega)
      apply run_sorted S As 0 S.init none segs hsortAs
      · rw [hW]; exact hm
      · intro p hp
        exact hallowed p (hAs.subset hp)

/-- **the exact checker decides linearizability** -/
theorem checkLin_iff {h : List (Call W Q)} (hst : ∀ c ∈ h, c.call ≤ c.ret) :
    checkLin S h = true ↔ Linearizable S h :=
  ⟨linearizable_of_checkLin S hst, checkLin_of_linearizable S hst⟩

/-- the four necessary conditions follow from acceptance by the exact checker -/
theorem checkHistory_of_checkLin (hv : ExposesVersion S) {h : List (Call W Q)} (hst : ∀ c ∈ h, c.call ≤ c.ret)
    (hc : checkLin S h = true) : checkHistory S h = true :=
  checkHistory_of_linearizable S hv (linearizable_of_checkLin S hst hc)

/-! ### the fast rendering computes the same assignment -/

theorem mkSegs_sorted {k : Nat} {st : σ} {b : Option (Call W Q)} {ws : List (Call W Q)} {segs : List (Seg σ W Q)}
    (hw : ∀ w ∈ ws, w.isW = true) (h : mkSegs S k st b ws = some segs) :
    segs.Pairwise (fun g g' => g.ver < g'.ver) ∧ ∀ g ∈ segs, k ≤ g.ver := by
  induction ws generalizing k st b segs with
  | nil =>
    simp only [mkSegs] at h
    have := Option.some.inj h; subst this
    exact ⟨by simp, by simp⟩
  | cons w ws ih =>
    simp only [mkSegs] at h
    cases hs : stepSeq S (k, st) w with
    | none => simp [hs] at h
    | some m =>
      simp only [hs] at h
      cases hm : mkSegs S m.1 m.2 (some w) ws with
      | none => simp [hm] at h
      | some rest =>
        simp only [hm, Option.map_some] at h
        have := Option.some.inj h; subst this
        obtain ⟨p1, p2⟩ := ih (fun x hx => hw x (List.mem_cons_of_mem _ hx)) hm
        obtain ⟨_, v2⟩ := stepSeq_isW S (hw w (List.mem_cons_self ..)) hs
        simp only at v2
        refine ⟨List.Pairwise.cons ?_ p1, ?_⟩
        · intro g hg; have := p2 g hg; simp only; omega
        · intro g hg
          rcases List.mem_cons.1 hg with rfl | hg'
          · exact Nat.le_refl _
          · have := p2 g hg'; omega

theorem pick_some {segs : List (Seg σ W Q)} {lb : Nat} {c : Call W Q} {v : Nat} (h : pick S segs lb c = some v) :
    v ∈ allowed S segs c ∧ lb ≤ v := by
  unfold pick at h
  cases hf : segs.find? (fun g => decide (lb ≤ g.ver) && explains S c g) with
  | none => rw [hf] at h; cases h
  | some g =>
    rw [hf] at h
    simp only [Option.map_some, Option.some.injEq] at h
    have hp := List.find?_some hf
    have hm := List.mem_of_find?_eq_some hf
    simp only [Bool.and_eq_true, decide_eq_true_eq] at hp
    exact ⟨(mem_allowed S).2 ⟨g, hm, hp.2, h⟩, by omega⟩

theorem pick_le {segs : List (Seg σ W Q)} (hs : segs.Pairwise (fun g g' => g.ver < g'.ver)) {lb : Nat} {c : Call W Q} {u : Nat}
    (hu : u ∈ allowed S segs c) (hl : lb ≤ u) : ∃ v, pick S segs lb c = some v ∧ v ≤ u := by
  obtain ⟨g, hg, he, hv⟩ := (mem_allowed S).1 hu
  unfold pick
  induction segs with
  | nil => cases hg
  | cons x xs ih =>
    rw [List.pairwise_cons] at hs
    simp only [List.find?_cons]
    cases hx : (decide (lb ≤ x.ver) && explains S c x) with
    | true =>
      simp only [Option.map_some]
      refine ⟨x.ver, rfl, ?_⟩
      rcases List.mem_cons.1 hg with rfl | hg'
      · omega
      · have := hs.1 g hg'; omega
    | false =>
      simp only
      rcases List.mem_cons.1 hg with rfl | hg'
      · exfalso
        have : (decide (lb ≤ g.ver) && explains S c g) = true := by
          simp only [Bool.and_eq_true, decide_eq_true_eq]; exact ⟨by omega, he⟩
        rw [this] at hx; cases hx
      · exact ih hs.2 ((mem_allowed S).2 ⟨g, hg', he, hv⟩) hg'

/-- on segments in increasing version order, `pick` is `leastFrom` over the allowed versions -/
theorem pick_eq_leastFrom {segs : List (Seg σ W Q)} (hs : segs.Pairwise (fun g g' => g.ver < g'.ver)) (lb : Nat) (c : Call W Q) :
    pick S segs lb c = leastFrom lb (allowed S segs c) := by
  cases hp : pick S segs lb c with
  | some v =>
    obtain ⟨h1, h2⟩ := pick_some S hp
    obtain ⟨v', hv', hle⟩ := leastFrom_le h1 h2
    obtain ⟨h1', h2'⟩ := leastFrom_some hv'
    obtain ⟨v'', hv'', hle'⟩ := pick_le S hs h1' h2'
    rw [hp] at hv''
    have : v'' = v := (Option.some.inj hv'').symm
    rw [hv']
    congr 1
    omega
  | none =>
    cases hl : leastFrom lb (allowed S segs c) with
    | none => rfl
    | some v' =>
      obtain ⟨h1', h2'⟩ := leastFrom_some hl
      obtain ⟨v'', hv'', _⟩ := pick_le S hs h1' h2'
      rw [hp] at hv''; cases hv''

theorem lbP_ge_init (call : Nat) (pend : List (Nat × Nat)) (m0 : Nat) : m0 ≤ lbP m0 pend call := by
  unfold lbP
  induction pend generalizing m0 with
  | nil => exact Nat.le_refl _
  | cons p ps ih =>
    simp only [List.foldl_cons]
    split
    · exact Nat.le_trans (Nat.le_max_left _ _) (ih _)
    · exact ih _

theorem lbP_ge_mem (call : Nat) (pend : List (Nat × Nat)) (m0 : Nat) {q : Nat × Nat} (hq : q ∈ pend) (hlt : q.1 < call) :
    q.2 ≤ lbP m0 pend call := by
  unfold lbP
  induction pend generalizing m0 with
  | nil => cases hq
  | cons p ps ih =>
    simp only [List.foldl_cons]
    rcases List.mem_cons.1 hq with rfl | hq'
    · simp only [hlt, if_true]
      exact Nat.le_trans (Nat.le_max_right _ _) (lbP_ge_init call ps _)
    · exact ih _ hq'

theorem lbP_le (call : Nat) (pend : List (Nat × Nat)) (m0 B : Nat) (h0 : m0 ≤ B)
    (h : ∀ q ∈ pend, q.1 < call → q.2 ≤ B) : lbP m0 pend call ≤ B := by
  unfold lbP
  induction pend generalizing m0 with
  | nil => exact h0
  | cons p ps ih =>
    simp only [List.foldl_cons]
    split
    · rename_i hlt
      exact ih _ (Nat.max_le.2 ⟨h0, h p (List.mem_cons_self ..) hlt⟩) (fun q hq => h q (List.mem_cons_of_mem _ hq))
    · exact ih _ h0 (fun q hq => h q (List.mem_cons_of_mem _ hq))

/-- the pending list summarises the processed calls for every later call stamp -/
def FastInv (acc : List (Call W Q × Nat)) (done : Nat) (pend : List (Nat × Nat)) (t : Nat) : Prop :=
  (∀ c' : Call W Q, t ≤ c'.call → lowerBound acc c' = lbP done pend c'.call) ∧
  (∀ q ∈ pend, ∃ p ∈ acc, p.1.ret = q.1 ∧ p.2 = q.2)

theorem fastInv_step {acc : List (Call W Q × Nat)} {done : Nat} {pend : List (Nat × Nat)} {t : Nat}
    (hinv : FastInv acc done pend t) (c : Call W Q) (v : Nat) (hc : t ≤ c.call) :
    FastInv ((c, v) :: acc) (lbP done pend c.call) ((c.ret, v) :: pend.filter fun p => !decide (p.1 < c.call)) c.call := by
  obtain ⟨hA, hB⟩ := hinv
  refine ⟨?_, ?_⟩
  · intro c'' hc''
    apply Nat.le_antisymm
    · -- the slow bound is below the fast one
      apply lowerBound_le
      intro p hp hlt
      rcases List.mem_cons.1 hp with rfl | hp'
      · exact lbP_ge_mem c''.call _ _ (q := (c.ret, v)) (List.mem_cons_self ..) hlt
      · have h1 : p.2 ≤ lowerBound acc c'' := lowerBound_ge hp' hlt
        rw [hA c'' (Nat.le_trans hc hc'')] at h1
        refine Nat.le_trans h1 ?_
        apply lbP_le
        · exact Nat.le_trans (lbP_ge_init _ _ _) (lbP_ge_init _ _ _)
        · intro q hq hql
          by_cases hqc : q.1 < c.call
          · exact Nat.le_trans (lbP_ge_mem _ _ _ hq hqc) (lbP_ge_init _ _ _)
          · apply lbP_ge_mem _ _ _ _ hql
            exact List.mem_cons_of_mem _ (List.mem_filter.2 ⟨hq, by simpa using hqc⟩)
    · -- the fast bound is below the slow one
      apply lbP_le
      · rw [← hA c hc]
        apply lowerBound_le
        intro p hp hlt
        exact lowerBound_ge (List.mem_cons_of_mem _ hp) (by omega)
      · intro q hq hql
        rcases List.mem_cons.1 hq with rfl | hq'
        · exact lowerBound_ge (p := (c, v)) (List.mem_cons_self ..) hql
        · obtain ⟨p, hp, e1, e2⟩ := hB q (List.mem_filter.1 hq').1
          rw [← e2]
          exact lowerBound_ge (List.mem_cons_of_mem _ hp) (by omega)
  · intro q hq
    rcases List.mem_cons.1 hq with rfl | hq'
    · exact ⟨(c, v), List.mem_cons_self .., rfl, rfl⟩
    · obtain ⟨p, hp, e⟩ := hB q (List.mem_filter.1 hq').1
      exact ⟨p, List.mem_cons_of_mem _ hp, e⟩

theorem assignFast_eq {segs : List (Seg σ W Q)} (hs : segs.Pairwise (fun g g' => g.ver < g'.ver)) (cs : List (Call W Q)) :
    ∀ (acc : List (Call W Q × Nat)) (done : Nat) (pend : List (Nat × Nat)) (t : Nat),
      FastInv acc done pend t → (∀ c ∈ cs, t ≤ c.call) → cs.Pairwise (fun a b => a.call ≤ b.call) →
      assignFast S segs done pend acc cs = assign S segs acc cs := by
  induction cs with
  | nil => intro acc done pend t _ _ _; rfl
  | cons c cs ih =>
    intro acc done pend t hinv ht hsort
    rw [List.pairwise_cons] at hsort
    have hc := ht c (List.mem_cons_self ..)
    simp only [assignFast, assign]
    rw [← hinv.1 c hc, pick_eq_leastFrom S hs]
    cases hl : leastFrom (lowerBound acc c) (allowed S segs c) with
    | none => rfl
    | some v =>
      simp only
      have hinv' := fastInv_step hinv c v hc
      rw [← hinv.1 c hc] at hinv'
      rw [hinv.1 c hc]
      rw [hinv.1 c hc] at hinv'
      exact ih _ _ _ c.call hinv' (fun d hd => hsort.1 d hd) hsort.2

/-- the checker as run gives the answer of the exact checker -/
theorem checkLinFast_eq (h : List (Call W Q)) : checkLinFast S h = checkLin S h := by
  unfold checkLinFast checkLin
  cases hm : mkSegs S 0 S.init none (sortedWrites h) with
  | none => rfl
  | some segs =>
    simp only
    have hswW : ∀ w ∈ sortedWrites h, w.isW = true := by
      intro w hw
      have : w ∈ h.filter Call.isW := (List.mergeSort_perm _ _).subset hw
      exact (List.mem_filter.1 this).2
    have hsorted : (byCall h).Pairwise (fun a b => a.call ≤ b.call) := by
      have hs : (byCall h).Pairwise (fun a b => decide (a.call ≤ b.call) = true) := by
        apply List.pairwise_mergeSort
        · intro a b c hab hbc; simp at hab hbc ⊢; omega
        · intro a b; simp; omega
      exact hs.imp (fun hab => by simpa using hab)
    rw [assignFast_eq S (mkSegs_sorted S hswW hm).1 (byCall h) [] 0 [] 0 ⟨fun _ _ => rfl, by simp⟩
      (fun _ _ => Nat.zero_le _) hsorted]

end Fox.Spec.History
