import FoxModel.Lemmas.PathStage
/-
  The hostname stage of `roots.lookup` (lookupByDomain, which propagates the first trailing-slash candidate of its path
  sub-lookups) equals the specification `hostOnlyS` on the suffix set below the method root.
-/
namespace Fox.Spec
open Fox

/-- the route filter of the slash-adjusted search: all routes when a slash was removed, the routes ending in a
    literal '/' when one was added -/
def pOf (added : Bool) : Route → Bool := if added then endsWithLitSlash else fun _ => true

/-- adjusted path and direction; for "/" (no adjustment possible) the empty path, which nothing matches -/
def adjTarget (path : Bytes) : Bytes × Bool :=
  match adjust path with
  | none => ([], false)
  | some x => x

theorem flt_true (S : SufSet) : flt (fun _ => true) S = S := by simp [flt]

theorem flt_pOf (added : Bool) (S : SufSet) : flt (pOf added) S = if added then flt endsWithLitSlash S else S := by
  cases added <;> simp [pOf, flt_true]

/-- the hostname stage on a suffix set -/
def hostOnlyS (S : SufSet) (host path : Bytes) (ps : Binds) : Option Found :=
  (first (specHost S host path ps) false).orElse fun _ =>
    match adjust path with
    | none => none
    | some (p', added) => first (specHost (if added then flt endsWithLitSlash S else S) host p' ps) true

theorem flt_filter_comm (p : Route → Bool) (q : List Tok × Route → Bool) (S : SufSet) :
    (flt p S).filter q = flt p (S.filter q) := by
  simp only [flt, List.filter_filter]
  congr 1
  funext x
  exact Bool.and_comm _ _

theorem hostParamPart_nil' (h path ps) : hostParamPart [] h path ps = [] := by simp [hostParamPart]

end Fox.Spec

namespace Fox.Model
open Fox Fox.Spec

/-- path-level statement in the uniform shape used by the hostname walk -/
theorem path_sim {c : Node} (h : wfNode c = true) (hL : LastOK (sufsNode c)) (path : Bytes) (ps : Binds)
    (hn : noDbl path = true) (hX : specAll (sufsNode c) path ps = []) :
    Sim (tsrs (pathEvents c path ps))
      (specAll (flt (pOf (adjTarget path).2) (sufsNode c)) (adjTarget path).1 ps) := by
  by_cases hq : path.getLast? = some SLASH
  · obtain ⟨q, rfl⟩ : ∃ q, path = q ++ [SLASH] := ⟨path.dropLast, eq_dropLast_append hq⟩
    have hsim := path_sim_remove h q ps hX
    by_cases hq0 : q = []
    · subst hq0
      have : adjTarget ([] ++ [SLASH]) = ([], false) := by simp [adjTarget, adjust]
      rw [this]
      simp only [if_true] at hsim
      simp only [flt_pOf, Bool.false_eq_true, if_false]
      obtain ⟨t, k', _, hh⟩ := wfNode_head h
      rw [specAll_head_nil hh]
      exact hsim
    · have : adjTarget (q ++ [SLASH]) = (q, false) := by simp [adjTarget, adjust_append_slash hq0]
      rw [this]
      simp only [hq0, if_false] at hsim
      simp only [flt_pOf, Bool.false_eq_true, if_false]
      exact hsim
  · have : adjTarget path = (path ++ [SLASH], true) := by simp [adjTarget, adjust_no_slash hq]
    rw [this]
    simp only [flt_pOf, if_true]
    exact path_sim_add h hL path ps hq hn hX

/-! ### children alternatives of the hostname search over filtered sets -/

theorem hpart_static_f {cs : List Node} (hw : wfKids cs = true) (hd : nodupB (kindsOf cs) = true) (p)
    (b : UInt8) (rest path : Bytes) (ps : Binds) :
    specHost (advLit b (flt p (sufsKids cs))) rest path ps =
      (cs.filter (fun c => (Sel.static b).matches c.key)).flatMap
        (fun c => specHost (flt p (sufsNode c)) (b :: rest) path ps) := by
  induction cs with
  | nil => simp [specHost_nil]
  | cons c cs ih =>
    have hw' := wfKids_cons.mp hw
    rw [sufsKids_flt_cons, advLit_append, advLit_child_f hw'.1]
    by_cases hk : kindOf c.key = some (.static b)
    · have hothers := nodup_others hd hk
      rw [advLit_kids_none_f hw'.2 p hothers]
      simp only [hk, if_true, List.append_nil]
      rw [List.filter_cons]
      obtain ⟨t, k', hk', hh⟩ := wfNode_head_flt hw'.1 p
      rw [hk'] at hk
      have ht : t = .lit b := kindOf_cons_static.mp hk
      subst ht
      have hm : (Sel.static b).matches c.key = true := by rw [hk']; simp [Sel.matches]
      simp [hm, filter_none hothers, specHost_lit hh]
    · simp only [hk, if_false, List.nil_append]
      rw [ih hw'.2 (nodup_tail hd), List.filter_cons]
      simp [matches_false hk]

theorem hpart_param_f {cs : List Node} (hw : wfKids cs = true) (hd : nodupB (kindsOf cs) = true) (p)
    (b : UInt8) (rest path : Bytes) (ps : Binds) :
    hostParamPart (flt p (sufsKids cs)) (b :: rest) path ps =
      (cs.filter (fun c => Sel.param.matches c.key)).flatMap
        (fun c => specHost (flt p (sufsNode c)) (b :: rest) path ps) := by
  induction cs with
  | nil => simp [hostParamPart]
  | cons c cs ih =>
    have hw' := wfKids_cons.mp hw
    rw [List.filter_cons]
    by_cases hk : kindOf c.key = some .param
    · have hothers := nodup_others hd hk
      have hA : advParam (flt p (sufsKids (c :: cs))) = advParam (flt p (sufsNode c)) := by
        rw [sufsKids_flt_cons, advParam_append, advParam_kids_none_f hw'.2 p hothers]; simp
      rw [hostParamPart_congr hA]
      obtain ⟨t, k', hk', hh⟩ := wfNode_head_flt hw'.1 p
      have hk2 := hk
      rw [hk'] at hk2
      obtain ⟨n, rfl⟩ := kindOf_cons_param.mp hk2
      have hspec : specHost (flt p (sufsNode c)) (b :: rest) path ps =
          hostParamPart (flt p (sufsNode c)) (b :: rest) path ps := by
        rw [specHost_cons, advLit_allHead_other hh (by intro c; simp)]; simp [specHost_nil]
      simp [(sel_matches_iff _ _).mpr hk, filter_none hothers, hspec]
    · have hA : advParam (flt p (sufsKids (c :: cs))) = advParam (flt p (sufsKids cs)) := by
        rw [sufsKids_flt_cons, advParam_append, advParam_child_nonparam_f hw'.1 p hk]; simp
      rw [hostParamPart_congr hA, ih hw'.2 (nodup_tail hd)]
      simp [matches_false hk]

theorem specHost_kids_f {cs : List Node} (hw : wfKids cs = true) (hd : nodupB (kindsOf cs) = true) (p)
    (b : UInt8) (rest path : Bytes) (ps : Binds) :
    specHost (flt p (sufsKids cs)) (b :: rest) path ps =
      (cs.filter (fun c => (Sel.static b).matches c.key)).flatMap (fun c => specHost (flt p (sufsNode c)) (b :: rest) path ps)
      ++ (cs.filter (fun c => Sel.param.matches c.key)).flatMap (fun c => specHost (flt p (sufsNode c)) (b :: rest) path ps) := by
  rw [specHost_cons, hpart_static_f hw hd, hpart_param_f hw hd]

theorem specHost_sufsFrom_nil_cons_f (p) (n : Node) (b rest path ps) :
    specHost (flt p (sufsFrom n [])) (b :: rest) path ps = specHost (flt p (sufsKids n.children)) (b :: rest) path ps := by
  have hmap : (flt p (sufsKids n.children)).map (fun sr => (([] : List Tok) ++ sr.1, sr.2)) = flt p (sufsKids n.children) := by simp
  rw [sufsFrom_flt, hmap, specHost_cons, specHost_cons (flt p (sufsKids n.children)), advLit_append]
  have h1 : advLit b (flt p (routeSuf n.route [])) = [] := by
    cases n.route <;> simp [routeSuf, advLit, flt, List.filter_cons]
  have h2 : advParam (flt p (routeSuf n.route []) ++ flt p (sufsKids n.children)) = advParam (flt p (sufsKids n.children)) := by
    rw [advParam_append]
    have : advParam (flt p (routeSuf n.route [])) = [] := by
      cases n.route <;> simp [routeSuf, advParam, flt, List.filter_cons]
    rw [this]; rfl
  rw [h1, hostParamPart_congr h2]; simp

theorem filter_headSlash_sufsFrom_nil (p) (n : Node) (hw : wfKids n.children = true) (hd : nodupB (kindsOf n.children) = true) :
    (flt p (sufsFrom n [])).filter headSlash =
      (match n.children.find? (fun c => startsWithSlash c.key) with
       | some c => flt p (sufsNode c)
       | none => []) := by
  rw [flt_filter_comm, sufsFrom_eq, List.filter_append]
  have hmap : (sufsKids n.children).map (fun sr => (([] : List Tok) ++ sr.1, sr.2)) = sufsKids n.children := by simp
  have h1 : (routeSuf n.route []).filter headSlash = [] := by cases n.route <;> simp [routeSuf, headSlash]
  rw [hmap, h1, filter_headSlash_kids hw hd, List.nil_append]
  cases List.find? (fun c => startsWithSlash c.key) n.children <;> rfl

/-! ### main statement -/

def T1 (path : Bytes) (n : Node) (k : List Tok) (host : Bytes) (ps : Binds) : Prop :=
  wfKids n.children = true → nodupB (kindsOf n.children) = true → hostOkKids n.children = true →
  noSlashTok k = true → SLASH ∉ host → LastOK (sufsFrom n k) →
  directs (hostWalk n k host path ps) = [] →
  Sim (tsrs (hostWalk n k host path ps))
    (specHost (flt (pOf (adjTarget path).2) (sufsFrom n k)) host (adjTarget path).1 ps)

def T2 (path : Bytes) (sel : Sel) (cs : List Node) (host : Bytes) (ps : Binds) : Prop :=
  wfKids cs = true → hostOkKids cs = true → sel ≠ .static SLASH → sel ≠ .catchAll → SLASH ∉ host →
  LastOK (sufsKids cs) →
  directs (hostKids sel cs host path ps) = [] →
  Sim (tsrs (hostKids sel cs host path ps))
    ((cs.filter (fun c => sel.matches c.key)).flatMap
      (fun c => specHost (flt (pOf (adjTarget path).2) (sufsNode c)) host (adjTarget path).1 ps))

theorem host_tsr_all (path : Bytes) (hn : noDbl path = true) :
    (∀ n k host ps, T1 path n k host ps) ∧ (∀ sel cs host ps, T2 path sel cs host ps) := by
  apply hostWalk.mutual_induct (T1 path) (T2 path)
  -- end of key, end of host
  · intro n ps c hc hw hd _ _ _ hL hX
    have hcw : wfNode c = true := mem_wfKids hw (List.mem_of_find?_eq_some hc)
    have hLc : LastOK (sufsNode c) := (hL.kids hw).child (List.mem_of_find?_eq_some hc)
    have hev : hostWalk n [] [] path ps = pathEvents c path ps := by
      conv => lhs; unfold hostWalk
      simp [hc]
    rw [hev] at hX ⊢
    rw [specHost_nil_host, filter_headSlash_sufsFrom_nil _ n hw hd, hc]
    simp only
    rw [pathEvents_direct hcw] at hX
    exact path_sim hcw hLc path ps hn hX
  · intro n ps hc hw hd _ _ _ _ _
    have hev : hostWalk n [] [] path ps = [] := by
      conv => lhs; unfold hostWalk
      simp [hc]
    rw [hev, specHost_nil_host, filter_headSlash_sufsFrom_nil _ n hw hd, hc]
    simp only [specAll_nil, tsrs_nil]
    exact Sim.nil
  -- end of key, host continues
  · intro n ps b rest ih1 ih2 hw hd hh _ hs hL hX
    unfold T2 at ih1 ih2
    have hev : hostWalk n [] (b :: rest) path ps =
        hostKids (.static b) n.children (b :: rest) path ps ++ hostKids .param n.children (b :: rest) path ps := by
      conv => lhs; unfold hostWalk
    rw [hev] at hX ⊢
    rw [directs_append] at hX
    simp only [append_nil_iff] at hX
    rw [tsrs_append, specHost_sufsFrom_nil_cons_f, specHost_kids_f hw hd]
    have hb : b ≠ SLASH := by intro h; apply hs; simp [h]
    exact Sim.append
      (ih1 hw hh (by intro h; injection h with h; exact hb h) (by simp) hs (hL.kids hw) hX.1)
      (ih2 hw hh (by simp) (by simp) hs (hL.kids hw) hX.2)
  -- literal
  · intro n ps c k' _ _ _ hk _ _ _
    have hev : hostWalk n (Tok.lit c :: k') [] path ps = [] := by conv => lhs; unfold hostWalk
    rw [hev, specHost_nil_host,
      filter_headSlash_allHead ((allHead_sufsFrom n _ _).flt _) (noSlashTok_cons.mp hk).1]
    simp only [specAll_nil, tsrs_nil]; exact Sim.nil
  · intro n ps k' b rest ih hw hd hh hk hs hL hX
    unfold T1 at ih
    have hev : hostWalk n (Tok.lit b :: k') (b :: rest) path ps = hostWalk n k' rest path ps := by
      conv => lhs; unfold hostWalk
      simp
    rw [hev] at hX ⊢
    rw [specHost_lit ((allHead_sufsFrom n _ _).flt _), tails_flt_sufsFrom]
    simp only [if_true]
    exact ih hw hd hh (noSlashTok_cons.mp hk).2 (by intro h; apply hs; simp [h]) hL.step hX
  · intro n ps c k' b rest hcb _ _ _ _ _ _ _
    have hev : hostWalk n (Tok.lit c :: k') (b :: rest) path ps = [] := by
      conv => lhs; unfold hostWalk
      simp [hcb]
    rw [hev, specHost_lit ((allHead_sufsFrom n _ _).flt _)]
    simp only [hcb, if_false, tsrs_nil]; exact Sim.nil
  -- param
  · intro n ps nm k' _ _ _ _ _ _ _
    have hev : hostWalk n (Tok.param nm :: k') [] path ps = [] := by conv => lhs; unfold hostWalk
    rw [hev, specHost_nil_host, filter_headSlash_allHead ((allHead_sufsFrom n _ _).flt _) (by simp)]
    simp only [specAll_nil, tsrs_nil]; exact Sim.nil
  · intro n ps nm k' b rest he _ _ _ _ _ _ _
    have hev : hostWalk n (Tok.param nm :: k') (b :: rest) path ps = [] := by
      conv => lhs; unfold hostWalk
      simp [he]
    rw [hev, specHost_param ((allHead_sufsFrom n _ _).flt _)]
    simp only [he, if_true, tsrs_nil]; exact Sim.nil
  · intro n ps nm k' b rest he ih hw hd hh hk hs hL hX
    unfold T1 at ih
    have hev : hostWalk n (Tok.param nm :: k') (b :: rest) path ps =
        hostWalk n k' ((b :: rest).drop (segEnd DOT (b :: rest))) path
          (ps ++ [(nm, (b :: rest).take (segEnd DOT (b :: rest)))]) := by
      conv => lhs; unfold hostWalk
      simp [he]
    rw [hev] at hX ⊢
    rw [specHost_param ((allHead_sufsFrom n _ _).flt _), tails_flt_sufsFrom]
    simp only [he, if_false]
    exact ih hw hd hh (noSlashTok_cons.mp hk).2 (by intro h; apply hs; exact List.mem_of_mem_drop h) hL.step hX
  -- catch-all
  · intro n host ps nm k' _ _ _ _ _ _ _
    have hev : hostWalk n (Tok.catchAll nm :: k') host path ps = [] := by conv => lhs; unfold hostWalk
    rw [hev]
    cases host with
    | nil =>
      rw [specHost_nil_host, filter_headSlash_allHead ((allHead_sufsFrom n _ _).flt _) (by simp)]
      simp only [specAll_nil, tsrs_nil]; exact Sim.nil
    | cons b rest =>
      rw [specHost_catch ((allHead_sufsFrom n _ _).flt _)]
      exact Sim.nil
  -- hostKids
  · intro sel host ps _ _ _ _ _ _ _
    have : hostKids sel [] host path ps = [] := by conv => lhs; unfold hostKids
    rw [this]; exact Sim.nil
  · intro sel host ps c cs' ih1 ih2 hw hh hsel hsel2 hs hL hX
    unfold T1 at ih1
    unfold T2 at ih2
    have hw' := wfKids_cons.mp hw
    have hh' := hostOkKids_cons.mp hh
    rw [sufsKids_cons] at hL
    have hev : hostKids sel (c :: cs') host path ps =
        (if sel.matches c.key then hostWalk c c.key host path ps else []) ++ hostKids sel cs' host path ps := by
      conv => lhs; unfold hostKids
    rw [hev] at hX ⊢
    rw [directs_append] at hX
    simp only [append_nil_iff] at hX
    rw [tsrs_append, List.filter_cons]
    by_cases hm : sel.matches c.key = true
    · simp only [hm, if_true, List.flatMap_cons] at hX ⊢
      refine Sim.append ?_ (ih2 hw'.2 hh'.2 hsel hsel2 hs hL.append_right hX.2)
      have hp := wfNode_parts hw'.1
      have hns : startsWithSlash c.key = false := by
        cases hx : startsWithSlash c.key with
        | false => rfl
        | true =>
          exfalso
          have := (sel_matches_iff _ _).mp hm
          rw [kindOf_of_startsWithSlash hx] at this
          injection this with this
          exact hsel this.symm
      have hok : noSlashTok c.key = true ∧ hostOkKids c.children = true := by
        cases c with
        | mk ck cr ccs =>
          simp only [hostOkNode, Bool.or_eq_true, Bool.and_eq_true] at hh'
          simp only [Node.key] at hns
          rcases hh'.1 with h | h
          · rw [hns] at h; cases h
          · exact h
      have := ih1 hp.1 hp.2.1 hok.2 hok.1 hs (by rw [← sufsNode_eq]; exact hL.append_left) hX.1
      rw [← sufsNode_eq] at this
      exact this
    · simp only [hm, Bool.false_eq_true, if_false, tsrs_nil, List.nil_append]
      exact ih2 hw'.2 hh'.2 hsel hsel2 hs hL.append_right hX.2

end Fox.Model
