import FoxModel.Model.InsScan
import FoxModel.Lemmas.KeyScan
/-
  FoxModel.Lemmas.InsScan — the byte-level node step of `tXn.insert` is the rendering of the token-level one.
-/
namespace Fox.Model.InsScan
open Fox Fox.Model Fox.Model.KeyScan

/-! ### `lcpB` -/

theorem lcpB_comm (a b : Bytes) : lcpB a b = lcpB b a := by
  induction a generalizing b with
  | nil => cases b <;> rfl
  | cons x xs ih =>
    cases b with
    | nil => rfl
    | cons y ys =>
      simp only [lcpB]
      by_cases h : x = y
      · subst h; simp [ih]
      · have h' : ¬ y = x := fun e => h e.symm
        simp [h, h']

theorem lcpB_append_same (x y z : Bytes) : lcpB (x ++ y) (x ++ z) = x.length + lcpB y z := by
  induction x with
  | nil => simp
  | cons a x ih => simp only [List.cons_append, lcpB, if_true, ih, List.length_cons]; omega

theorem lcpB_le_left (a b : Bytes) : lcpB a b ≤ a.length := by
  induction a generalizing b with
  | nil => cases b <;> simp [lcpB]
  | cons x xs ih =>
    cases b with
    | nil => simp [lcpB]
    | cons y ys =>
      simp only [lcpB]
      split
      · have := ih ys; simp only [List.length_cons]; omega
      · exact Nat.zero_le _

theorem lcpB_le_right (a b : Bytes) : lcpB a b ≤ b.length := by rw [lcpB_comm]; exact lcpB_le_left b a

theorem take_lcpB (a b : Bytes) : a.take (lcpB a b) = b.take (lcpB a b) := by
  induction a generalizing b with
  | nil => cases b <;> simp [lcpB]
  | cons x xs ih =>
    cases b with
    | nil => simp [lcpB]
    | cons y ys =>
      simp only [lcpB]
      split
      · rename_i h; subst h; simp [ih ys]
      · simp

theorem lcpB_nil_right (a : Bytes) : lcpB a [] = 0 := by cases a <;> rfl

theorem lcpB_cons_ne {a b : UInt8} (h : a ≠ b) (x y : Bytes) : lcpB (a :: x) (b :: y) = 0 := by
  simp [lcpB, h]

/-! ### the inner loop of the search computes the common prefix -/

theorem cowInner_eq (key rest : Bytes) :
    (cowInner key rest).1 = lcpB key rest ∧
    ((cowInner key rest).2 = true ↔ lcpB key rest < key.length ∧ lcpB key rest < rest.length) := by
  induction key generalizing rest with
  | nil => cases rest <;> simp [cowInner, lcpB]
  | cons k ks ih =>
    cases rest with
    | nil => simp [cowInner, lcpB]
    | cons b bs =>
      simp only [cowInner, lcpB]
      by_cases h : k = b
      · subst h
        obtain ⟨h1, h2⟩ := ih bs
        simp only [ne_eq, not_true_eq_false, if_false, if_true, h1, List.length_cons, Nat.add_lt_add_iff_right]
        exact ⟨trivial, h2⟩
      · simp [h]

/-! ### tokens of the grammar -/

theorem nameOk_cons {b : UInt8} {n : Bytes} (h : nameOk (b :: n) = true) :
    b ≠ RBR ∧ b ≠ SLASH ∧ b ≠ LBR ∧ b ≠ STAR ∧ nameOk n = true := by
  simp only [nameOk, List.all_cons, Bool.and_eq_true, bne_iff_ne, ne_eq] at h
  exact ⟨h.1.1.1.1, h.1.1.1.2, h.1.1.2, h.1.2, by simpa [nameOk] using h.2⟩

/-- two different names diverge before either closing brace -/
theorem lcpB_names {n m : Bytes} (hn : nameOk n = true) (hm : nameOk m = true) (hne : n ≠ m) (x y : Bytes) :
    lcpB (n ++ RBR :: x) (m ++ RBR :: y) = lcpB n m := by
  induction n generalizing m with
  | nil =>
    cases m with
    | nil => exact absurd rfl hne
    | cons c m' =>
      have := (nameOk_cons hm).1
      simp only [List.nil_append, List.cons_append]
      rw [lcpB_cons_ne (fun e => this e.symm)]
      rfl
  | cons a n' ih =>
    cases m with
    | nil =>
      have := (nameOk_cons hn).1
      simp only [List.nil_append, List.cons_append]
      rw [lcpB_cons_ne this]
      rfl
    | cons c m' =>
      simp only [List.cons_append, lcpB]
      by_cases h : a = c
      · subst h
        simp only [if_true]
        rw [ih (nameOk_cons hn).2.2.2.2 (nameOk_cons hm).2.2.2.2 (fun e => hne (by rw [e]))]
      · simp [h]

/-- bytes matched beyond the common tokens: only inside two wildcards of the same kind with different names -/
def partialT : List Tok → List Tok → Nat
  | a :: as, b :: bs =>
    if a = b then partialT as bs else
      match a, b with
      | .param n, .param m => 1 + lcpB n m
      | .catchAll n, .catchAll m => 2 + lcpB n m
      | _, _ => 0
  | _, _ => 0

theorem lcp_render (k t : List Tok) (hk : toksOk k = true) (ht : toksOk t = true) :
    lcpB (render k) (render t) = (render (commonPrefix k t)).length + partialT k t := by
  induction k generalizing t with
  | nil => simp [render, commonPrefix, partialT, lcpB]
  | cons a k' ih =>
    cases t with
    | nil => simp [render, commonPrefix, partialT, lcpB_nil_right]
    | cons b t' =>
      simp only [toksOk, List.all_cons, Bool.and_eq_true] at hk ht
      by_cases hab : a = b
      · subst hab
        simp only [commonPrefix, partialT, if_true]
        rw [render_cons', render_cons', render_cons', lcpB_append_same, ih t' (by simpa [toksOk] using hk.2) (by simpa [toksOk] using ht.2)]
        simp only [List.length_append]; omega
      · simp only [commonPrefix, partialT, hab, if_false]
        rw [render_cons', render_cons']
        have hnil : (render ([] : List Tok)).length = 0 := rfl
        rw [hnil, Nat.zero_add]
        cases a with
        | lit c =>
          have hc : c ≠ LBR ∧ c ≠ STAR := by simpa [tokOk] using hk.1
          cases b with
          | lit d =>
            have : c ≠ d := fun e => hab (by rw [e])
            simp only [Tok.render, List.cons_append, List.nil_append]
            exact lcpB_cons_ne this _ _
          | param m => simp only [Tok.render, List.cons_append, List.nil_append]; exact lcpB_cons_ne hc.1 _ _
          | catchAll m => simp only [Tok.render, List.cons_append, List.nil_append]; exact lcpB_cons_ne hc.2 _ _
        | param n =>
          cases b with
          | lit d =>
            have hd : d ≠ LBR ∧ d ≠ STAR := by simpa [tokOk] using ht.1
            simp only [Tok.render, List.cons_append, List.nil_append]
            exact lcpB_cons_ne (fun e => hd.1 e.symm) _ _
          | param m =>
            have hnm : n ≠ m := fun e => hab (by rw [e])
            simp only [Tok.render, List.cons_append, List.append_assoc, lcpB, if_true]
            rw [lcpB_names (by simpa [tokOk] using hk.1) (by simpa [tokOk] using ht.1) hnm]
            omega
          | catchAll m =>
            simp only [Tok.render, List.cons_append]
            exact lcpB_cons_ne (by decide) _ _
        | catchAll n =>
          cases b with
          | lit d =>
            have hd : d ≠ LBR ∧ d ≠ STAR := by simpa [tokOk] using ht.1
            simp only [Tok.render, List.cons_append, List.nil_append]
            exact lcpB_cons_ne (fun e => hd.2 e.symm) _ _
          | param m =>
            simp only [Tok.render, List.cons_append]
            exact lcpB_cons_ne (by decide) _ _
          | catchAll m =>
            have hnm : n ≠ m := fun e => hab (by rw [e])
            simp only [Tok.render, List.cons_append, List.append_assoc, lcpB, if_true]
            rw [lcpB_names (by simpa [tokOk] using hk.1) (by simpa [tokOk] using ht.1) hnm]
            omega

/-! ### the common token prefix and what follows it -/

/-- bytes matched inside the first differing tokens -/
def partialHead : Tok → Tok → Nat
  | .param n, .param m => 1 + lcpB n m
  | .catchAll n, .catchAll m => 2 + lcpB n m
  | _, _ => 0

theorem cp_split (k t : List Tok) :
    k = commonPrefix k t ++ k.drop (commonPrefix k t).length ∧
    t = commonPrefix k t ++ t.drop (commonPrefix k t).length ∧
    (match k.drop (commonPrefix k t).length, t.drop (commonPrefix k t).length with
     | a :: _, b :: _ => a ≠ b ∧ partialT k t = partialHead a b
     | _, _ => partialT k t = 0) := by
  induction k generalizing t with
  | nil => simp [commonPrefix, partialT]
  | cons a k' ih =>
    cases t with
    | nil => simp [commonPrefix, partialT]
    | cons b t' =>
      by_cases hab : a = b
      · subst hab
        obtain ⟨h1, h2, h3⟩ := ih t'
        simp only [commonPrefix, if_true, List.length_cons, List.drop_succ_cons, List.cons_append, partialT]
        exact ⟨by rw [← h1], by rw [← h2], h3⟩
      · simp only [commonPrefix, hab, if_false, List.length_nil, List.drop_zero, List.nil_append, partialT]
        refine ⟨trivial, trivial, hab, ?_⟩
        cases a <;> cases b <;> rfl

theorem partialHead_pos_iff (a b : Tok) : 0 < partialHead a b ↔ isWildSame a b = true := by
  cases a <;> cases b <;> simp [partialHead, isWildSame] <;> omega

theorem partialHead_lt (a b : Tok) (tr : List Tok) : partialHead a b < (render (b :: tr)).length := by
  rw [render_cons']
  cases a <;> cases b <;> simp [partialHead, Tok.render]
  all_goals
    rename_i n m
    have := lcpB_le_right n m
    omega

theorem partialHead_lt' (a b : Tok) (kr : List Tok) : partialHead a b < (render (a :: kr)).length := by
  rw [render_cons']
  cases a <;> cases b <;> simp [partialHead, Tok.render]
  all_goals
    rename_i n m
    have := lcpB_le_left n m
    omega

/-! ### classification and the split strings -/

theorem classify_eq (key toks : List Tok) (hk : toksOk key = true) (ht : toksOk toks = true) :
    (stepB (render key) (render toks) false).cls = (stepT key toks).cls ∧
    (stepB (render key) (render toks) true).cls = (stepT key toks).cls := by
  obtain ⟨h1, h2, h3⟩ := cp_split key toks
  have hl := lcp_render toks key ht hk
  have hcomm : lcpB (render toks) (render key) = (render (commonPrefix key toks)).length + partialT key toks := by
    rw [lcpB_comm]; exact lcp_render key toks hk ht
  have hkl : (render key).length = (render (commonPrefix key toks)).length + (render (key.drop (commonPrefix key toks).length)).length := by
    conv => lhs; rw [h1]
    rw [render_append', List.length_append]
  have htl : (render toks).length = (render (commonPrefix key toks)).length + (render (toks.drop (commonPrefix key toks).length)).length := by
    conv => lhs; rw [h2]
    rw [render_append', List.length_append]
  simp only [stepB, stepT, classify, hcomm]
  cases hkr : key.drop (commonPrefix key toks).length with
  | nil =>
    cases htr : toks.drop (commonPrefix key toks).length with
    | nil =>
      rw [hkr, htr] at h3
      rw [hkr] at hkl; rw [htr] at htl
      simp only [render, List.flatMap_nil, List.length_nil, Nat.add_zero] at hkl htl
      simp only at h3
      simp [hkl, htl, h3, render]
    | cons b tr =>
      rw [hkr, htr] at h3
      rw [hkr] at hkl; rw [htr] at htl
      simp only at h3
      have hpos := render_len_pos (k := b :: tr) (by simp)
      simp only [render, List.flatMap_nil, List.length_nil, Nat.add_zero] at hkl
      have e1 : ¬ ((render (commonPrefix key toks)).length + partialT key toks = (render toks).length) := by omega
      have e2 : (render (commonPrefix key toks)).length + partialT key toks = (render key).length := by
        simp only [render] at *; omega
      have e3 : ¬ ((render key).length = (render toks).length) := by omega
      simp [e2, e3]
  | cons a kr =>
    cases htr : toks.drop (commonPrefix key toks).length with
    | nil =>
      rw [hkr, htr] at h3
      rw [hkr] at hkl; rw [htr] at htl
      simp only at h3
      have hpos := render_len_pos (k := a :: kr) (by simp)
      simp only [render, List.flatMap_nil, List.length_nil, Nat.add_zero] at htl
      have e1 : (render (commonPrefix key toks)).length + partialT key toks = (render toks).length := by
        simp only [render] at *; omega
      have e2 : ¬ ((render (commonPrefix key toks)).length + partialT key toks = (render key).length) := by omega
      have e3 : ¬ ((render toks).length = (render key).length) := by omega
      simp [e1, e3]
    | cons b tr =>
      rw [hkr, htr] at h3
      rw [hkr] at hkl; rw [htr] at htl
      simp only at h3
      have hp1 := partialHead_lt a b tr
      have hp2 := partialHead_lt' a b kr
      have e1 : ¬ ((render (commonPrefix key toks)).length + partialT key toks = (render toks).length) := by omega
      have e2 : ¬ ((render (commonPrefix key toks)).length + partialT key toks = (render key).length) := by omega
      simp [e1, e2]

theorem isPrefixOf_append (x y : Bytes) : x.isPrefixOf (x ++ y) = true := by
  induction x with
  | nil => simp [List.isPrefixOf]
  | cons a x ih => simp [List.isPrefixOf, ih]

/-- when the byte prefix ends at a token boundary, the three strings are the renderings of the token-level ones -/
theorem split_strings (key toks : List Tok) (hk : toksOk key = true) (ht : toksOk toks = true) (isHost : Bool)
    (hp : partialT key toks = 0) :
    (stepB (render key) (render toks) isHost).cPrefix = render (stepT key toks).cp ∧
    (stepB (render key) (render toks) isHost).sufEdge = render (stepT key toks).sufEdge ∧
    (stepB (render key) (render toks) isHost).keySuffix = render (stepT key toks).keySuffix := by
  obtain ⟨h1, h2, _⟩ := cp_split key toks
  have hcomm : lcpB (render toks) (render key) = (render (commonPrefix key toks)).length := by
    rw [lcpB_comm, lcp_render key toks hk ht, hp, Nat.add_zero]
  have hr2 : render toks = render (commonPrefix key toks) ++ render (toks.drop (commonPrefix key toks).length) := by
    conv => lhs; rw [h2]
    rw [render_append']
  have hr1 : render key = render (commonPrefix key toks) ++ render (key.drop (commonPrefix key toks).length) := by
    conv => lhs; rw [h1]
    rw [render_append']
  simp only [stepB, stepT, hcomm]
  have e1 : (render toks).take (render (commonPrefix key toks)).length = render (commonPrefix key toks) := by
    rw [hr2]; simp
  refine ⟨e1, ?_, ?_⟩
  · rw [e1]
    unfold trimPrefix
    rw [hr1, isPrefixOf_append]
    simp
  · rw [hr2]; simp

/-! ### the conflict rule of the path part -/

theorem fragOkPath_append_left (a b : List Tok) (h : fragOkPath (a ++ b) = true) : fragOkPath a = true := by
  induction a with
  | nil => rfl
  | cons t a ih =>
    simp only [List.cons_append, fragOkPath, Bool.and_eq_true] at h ⊢
    refine ⟨?_, ih h.2⟩
    cases a with
    | nil => simp
    | cons x a' => simpa using h.1

theorem fragOkPath_adj (a : List Tok) (w x : Tok) (b : List Tok) (h : fragOkPath (a ++ w :: x :: b) = true)
    (hw : isWild w = true) : x = .lit SLASH := by
  induction a with
  | nil =>
    simp only [List.nil_append, fragOkPath, Bool.and_eq_true, hw] at h
    simpa using h.1
  | cons t a ih =>
    simp only [List.cons_append, fragOkPath, Bool.and_eq_true] at h
    exact ih h.2

/-- scanning a name (no '/') and then the opening brace finds a wildcard -/
theorem scanPathRev_name (u y : Bytes) (hu : ∀ b ∈ u, b ≠ SLASH) : scanPathRev (u ++ LBR :: y) = true := by
  induction u with
  | nil => simp [scanPathRev]; decide
  | cons b u ih =>
    simp only [List.cons_append, scanPathRev]
    have hb := hu b (List.mem_cons_self ..)
    simp only [hb, if_false]
    split
    · rfl
    · exact ih (fun c hc => hu c (List.mem_cons_of_mem _ hc))

theorem nameOk_noSlash {n : Bytes} (h : nameOk n = true) : ∀ b ∈ n, b ≠ SLASH := by
  intro b hb
  simp only [nameOk, List.all_eq_true, Bool.and_eq_true, bne_iff_ne, ne_eq] at h
  exact (h b hb).1.1.2

theorem nameOk_noRbr {n : Bytes} (h : nameOk n = true) : ∀ b ∈ n, b ≠ RBR := by
  intro b hb
  simp only [nameOk, List.all_eq_true, Bool.and_eq_true, bne_iff_ne, ne_eq] at h
  exact (h b hb).1.1.1

/-- one more token at the end of the prefix -/
theorem conflictPath_snoc (x : Bytes) (t : Tok) (ht : tokOk t = true) :
    conflictPath (x ++ t.render) =
      (match t with
       | .lit c => if c = SLASH then false else conflictPath x
       | _ => true) := by
  unfold conflictPath
  cases t with
  | lit c =>
    have hc : c ≠ LBR ∧ c ≠ STAR := by simpa [tokOk] using ht
    simp only [Tok.render, List.reverse_append, List.reverse_cons, List.reverse_nil, List.nil_append, List.singleton_append, scanPathRev]
    by_cases h : c = SLASH
    · simp [h]
    · simp [h, hc.1, hc.2]
  | param n =>
    have hn : nameOk n = true := by simpa [tokOk] using ht
    simp only [Tok.render, List.reverse_append, List.reverse_cons, List.reverse_nil, List.nil_append, List.append_assoc,
      List.singleton_append, List.cons_append]
    have : scanPathRev (RBR :: (n.reverse ++ LBR :: x.reverse)) = scanPathRev (n.reverse ++ LBR :: x.reverse) := by
      simp only [scanPathRev]
      have h1 : ¬ RBR = SLASH := by decide
      have h2 : ¬ (RBR = LBR ∨ RBR = STAR) := by decide
      simp [h1, h2]
    rw [this]
    exact scanPathRev_name _ _ (fun b hb => nameOk_noSlash hn b (List.mem_reverse.1 hb))
  | catchAll n =>
    have hn : nameOk n = true := by simpa [tokOk] using ht
    simp only [Tok.render, List.reverse_append, List.reverse_cons, List.reverse_nil, List.nil_append, List.append_assoc,
      List.singleton_append, List.cons_append]
    have : scanPathRev (RBR :: (n.reverse ++ LBR :: STAR :: x.reverse)) = scanPathRev (n.reverse ++ LBR :: STAR :: x.reverse) := by
      simp only [scanPathRev]
      have h1 : ¬ RBR = SLASH := by decide
      have h2 : ¬ (RBR = LBR ∨ RBR = STAR) := by decide
      simp [h1, h2]
    rw [this]
    exact scanPathRev_name _ _ (fun b hb => nameOk_noSlash hn b (List.mem_reverse.1 hb))

def headIsWild : List Tok → Bool
  | w :: _ => isWild w
  | [] => false

/-- on a prefix of a valid path the backward scan finds a wildcard iff the prefix ends with one -/
theorem conflictPath_render (l : List Tok) (hok : toksOk l.reverse = true) (hf : fragOkPath l.reverse = true) :
    conflictPath (render l.reverse) = headIsWild l := by
  induction l with
  | nil => rfl
  | cons t l ih =>
    have hok' : toksOk l.reverse = true ∧ tokOk t = true := by
      simp only [List.reverse_cons, toksOk, List.all_append, List.all_cons, List.all_nil, Bool.and_true, Bool.and_eq_true] at hok
      exact ⟨by simpa [toksOk] using hok.1, hok.2⟩
    have hf' : fragOkPath l.reverse = true := by
      rw [List.reverse_cons] at hf
      exact fragOkPath_append_left _ _ hf
    rw [List.reverse_cons, render_append']
    have : render [t] = t.render := by simp [render]
    rw [this, conflictPath_snoc _ _ hok'.2]
    cases t with
    | lit c =>
      simp only [headIsWild, isWild]
      by_cases hc : c = SLASH
      · simp [hc]
      · simp only [hc, if_false]
        rw [ih hok'.1 hf']
        cases l with
        | nil => rfl
        | cons w l' =>
          simp only [headIsWild]
          cases hw : isWild w with
          | false => rfl
          | true =>
            exfalso
            rw [List.reverse_cons, List.reverse_cons, List.append_assoc] at hf
            have := fragOkPath_adj l'.reverse w (.lit c) [] (by simpa using hf) hw
            exact hc (by injection this)
    | param n => rfl
    | catchAll n => rfl

theorem toksOk_append {a b : List Tok} (h : toksOk (a ++ b) = true) : toksOk a = true ∧ toksOk b = true := by
  simp only [toksOk, List.all_append, Bool.and_eq_true] at h
  exact h

theorem toksOk_cons {a : Tok} {b : List Tok} (h : toksOk (a :: b) = true) : tokOk a = true ∧ toksOk b = true := by
  simp only [toksOk, List.all_cons, Bool.and_eq_true] at h
  exact h

/-- the bytes of the first differing token that are part of the common byte prefix -/
theorem take_partial (a b : Tok) (hab : a ≠ b) (ha : tokOk a = true) (hb : tokOk b = true) (hs : isWildSame a b = true) :
    ∃ u : Bytes, (∀ c ∈ u, c ≠ SLASH ∧ c ≠ RBR) ∧
      (b.render.take (partialHead a b) = LBR :: u ∨ b.render.take (partialHead a b) = STAR :: LBR :: u) := by
  cases a with
  | lit c => cases b <;> simp [isWildSame] at hs
  | param n =>
    cases b with
    | lit d => simp [isWildSame] at hs
    | catchAll m => simp [isWildSame] at hs
    | param m =>
      have hm : nameOk m = true := by simpa [tokOk] using hb
      refine ⟨m.take (lcpB n m), ?_, Or.inl ?_⟩
      · intro c hc
        have := List.mem_of_mem_take hc
        exact ⟨nameOk_noSlash hm c this, nameOk_noRbr hm c this⟩
      · simp only [partialHead, Tok.render]
        rw [Nat.add_comm, show (LBR :: m ++ [RBR]) = LBR :: (m ++ [RBR]) from rfl, List.take_succ_cons,
          List.take_append_of_le_length (lcpB_le_right n m)]
  | catchAll n =>
    cases b with
    | lit d => simp [isWildSame] at hs
    | param m => simp [isWildSame] at hs
    | catchAll m =>
      have hm : nameOk m = true := by simpa [tokOk] using hb
      refine ⟨m.take (lcpB n m), ?_, Or.inr ?_⟩
      · intro c hc
        have := List.mem_of_mem_take hc
        exact ⟨nameOk_noSlash hm c this, nameOk_noRbr hm c this⟩
      · simp only [partialHead, Tok.render]
        have : 2 + lcpB n m = (lcpB n m + 1) + 1 := by omega
        rw [this, show (STAR :: LBR :: m ++ [RBR]) = STAR :: LBR :: (m ++ [RBR]) from rfl, List.take_succ_cons,
          List.take_succ_cons, List.take_append_of_le_length (lcpB_le_right n m)]

/-- **path part: the backward scan reports a conflict exactly when the token model does** (when the match ends in the
    middle of the edge) -/
theorem conflict_path_eq (key toks : List Tok) (hk : toksOk key = true) (ht : toksOk toks = true)
    (fk : fragOkPath key = true) (ft : fragOkPath toks = true)
    (hm : (stepT key toks).cls = .toMiddleOfEdge) :
    (stepB (render key) (render toks) false).conflict = (stepT key toks).conflict := by
  obtain ⟨h1, h2, h3⟩ := cp_split key toks
  have hcomm : lcpB (render toks) (render key) = (render (commonPrefix key toks)).length + partialT key toks := by
    rw [lcpB_comm]; exact lcp_render key toks hk ht
  simp only [stepT] at hm
  cases hkr : key.drop (commonPrefix key toks).length with
  | nil => rw [hkr] at hm; cases htr : toks.drop (commonPrefix key toks).length <;> rw [htr] at hm <;> cases hm
  | cons a kr =>
    cases htr : toks.drop (commonPrefix key toks).length with
    | nil => rw [hkr, htr] at hm; cases hm
    | cons b tr =>
      rw [hkr, htr] at h3
      obtain ⟨hab, hp⟩ := h3
      rw [hkr] at h1; rw [htr] at h2
      have hka := toksOk_cons (toksOk_append (by rw [← h1]; exact hk)).2
      have htb := toksOk_cons (toksOk_append (by rw [← h2]; exact ht)).2
      have hcpok : toksOk (commonPrefix key toks) = true := (toksOk_append (by rw [← h2]; exact ht)).1
      simp only [stepB, stepT, hkr, htr, Bool.false_eq_true, if_false, hcomm, hp]
      -- the byte prefix: the common tokens, then the matched part of the differing token
      have hr2 : render toks = render (commonPrefix key toks) ++ (b.render ++ render tr) := by
        conv => lhs; rw [h2]
        rw [render_append', render_cons']
      have htake : (render toks).take ((render (commonPrefix key toks)).length + partialHead a b) =
          render (commonPrefix key toks) ++ b.render.take (partialHead a b) := by
        rw [hr2, List.take_append, List.take_of_length_le (by omega)]
        congr 1
        have hlt := partialHead_lt a b tr
        rw [render_cons', List.length_append] at hlt
        have : (render (commonPrefix key toks)).length + partialHead a b - (render (commonPrefix key toks)).length = partialHead a b := by omega
        rw [this]
        by_cases hle : partialHead a b ≤ b.render.length
        · exact List.take_append_of_le_length hle
        · exfalso
          -- the matched part never exceeds the token
          cases a <;> cases b <;> simp [partialHead, Tok.render] at hle
          all_goals
            rename_i n m
            have := lcpB_le_right n m
            omega
      rw [htake]
      cases hs : isWildSame a b with
      | true =>
        obtain ⟨u, hu, hform⟩ := take_partial a b hab hka.1 htb.1 hs
        unfold conflictPath
        rcases hform with e | e
        · rw [e, List.reverse_append, List.reverse_cons]
          rw [List.append_assoc]
          exact scanPathRev_name _ _ (fun c hc => (hu c (List.mem_reverse.1 hc)).1)
        · rw [e, List.reverse_append, List.reverse_cons, List.reverse_cons]
          rw [List.append_assoc, List.append_assoc]
          exact scanPathRev_name _ _ (fun c hc => (hu c (List.mem_reverse.1 hc)).1)
      | false =>
        have hp0 : partialHead a b = 0 := by
          have := (partialHead_pos_iff a b)
          rw [hs] at this
          simp at this
          exact this
        rw [hp0]
        simp only [List.take_zero, List.append_nil]
        -- the prefix ends at a token boundary
        have hrev := conflictPath_render (commonPrefix key toks).reverse (by simpa using hcpok)
          (by simpa using fragOkPath_append_left _ _ (by rw [← h2]; exact ft))
        rw [List.reverse_reverse] at hrev
        rw [hrev]
        cases hl : (commonPrefix key toks).reverse with
        | nil => simp only [headIsWild]
        | cons w l' =>
          simp only [headIsWild]
          cases hw : isWild w with
          | false => rfl
          | true =>
            exfalso
            have hcp : commonPrefix key toks = l'.reverse ++ [w] := by
              have := congrArg List.reverse hl
              simpa using this
            rw [hcp] at h1 h2
            have e1 := fragOkPath_adj l'.reverse w a kr (by rw [List.append_assoc] at h1; simpa using (h1 ▸ fk)) hw
            have e2 := fragOkPath_adj l'.reverse w b tr (by rw [List.append_assoc] at h2; simpa using (h2 ▸ ft)) hw
            exact hab (by rw [e1, e2])

/-! ### the conflict rule of the hostname part -/

theorem fragOkHost_append_left (a b : List Tok) (h : fragOkHost (a ++ b) = true) : fragOkHost a = true := by
  induction a with
  | nil => rfl
  | cons t a ih =>
    simp only [List.cons_append, fragOkHost, Bool.and_eq_true] at h ⊢
    refine ⟨?_, ih h.2⟩
    have h1 := h.1
    cases t with
    | lit c => exact h1
    | catchAll n => exact h1
    | param n =>
      simp only [Bool.and_eq_true] at h1 ⊢
      cases a with
      | nil => exact ⟨h1.1, rfl⟩
      | cons x a' => exact ⟨h1.1, by simpa using h1.2⟩

theorem fragOkHost_adj (a : List Tok) (n : Bytes) (x : Tok) (b : List Tok) (h : fragOkHost (a ++ .param n :: x :: b) = true) :
    x = .lit DOT := by
  induction a with
  | nil =>
    simp only [List.nil_append, fragOkHost, Bool.and_eq_true] at h
    simpa using h.1.2
  | cons t a ih =>
    simp only [List.cons_append, fragOkHost, Bool.and_eq_true] at h
    exact ih h.2

theorem getLast?_append_ne_nil {α} (x y : List α) (h : y ≠ []) : (x ++ y).getLast? = y.getLast? := by
  rw [List.getLast?_append]
  cases hy : y.getLast? with
  | none => exact absurd (List.getLast?_eq_none_iff.1 hy) h
  | some z => rfl

theorem fragOkHost_mem (k : List Tok) (h : fragOkHost k = true) :
    ∀ t ∈ k, (match t with | .lit c => c ≠ RBR | .param n => ∀ b ∈ n, b ≠ DOT | .catchAll _ => False) := by
  induction k with
  | nil => intro t ht; cases ht
  | cons x k ih =>
    simp only [fragOkHost, Bool.and_eq_true] at h
    intro t ht
    rcases List.mem_cons.1 ht with rfl | ht'
    · cases t with
      | lit c => simpa using h.1
      | param n =>
        have := h.1
        simp only [Bool.and_eq_true, List.all_eq_true, bne_iff_ne, ne_eq] at this
        exact this.1
      | catchAll n => simp at h
    · exact ih h.2 t ht'

theorem scanHostRev_name (u y : Bytes) (hu : ∀ b ∈ u, b ≠ DOT) : scanHostRev (u ++ LBR :: y) = true := by
  induction u with
  | nil => simp [scanHostRev]; decide
  | cons b u ih =>
    simp only [List.cons_append, scanHostRev]
    have hb := hu b (List.mem_cons_self ..)
    simp only [hb, if_false]
    split
    · rfl
    · exact ih (fun c hc => hu c (List.mem_cons_of_mem _ hc))

/-- the backward scan of the hostname rule over whole tokens -/
theorem scanHost_render (l : List Tok) (hok : toksOk l.reverse = true) (hf : fragOkHost l.reverse = true) :
    scanHostRev (render l.reverse).reverse = headIsWild l := by
  induction l with
  | nil => rfl
  | cons t l ih =>
    have hok' : toksOk l.reverse = true ∧ tokOk t = true := by
      simp only [List.reverse_cons, toksOk, List.all_append, List.all_cons, List.all_nil, Bool.and_true, Bool.and_eq_true] at hok
      exact ⟨by simpa [toksOk] using hok.1, hok.2⟩
    have hf' : fragOkHost l.reverse = true := by
      rw [List.reverse_cons] at hf
      exact fragOkHost_append_left _ _ hf
    have hmem := fragOkHost_mem _ hf t (by simp)
    rw [List.reverse_cons, render_append']
    have : render [t] = t.render := by simp [render]
    rw [this, List.reverse_append]
    cases t with
    | lit c =>
      have hc : c ≠ LBR ∧ c ≠ STAR := by simpa [tokOk] using hok'.2
      simp only [Tok.render, List.reverse_cons, List.reverse_nil, List.nil_append, List.singleton_append, scanHostRev, headIsWild, isWild]
      by_cases hd : c = DOT
      · simp [hd]
      · simp only [hd, if_false, hc.1]
        rw [ih hok'.1 hf']
        cases l with
        | nil => rfl
        | cons w l' =>
          simp only [headIsWild]
          cases w with
          | lit d => rfl
          | catchAll m =>
            exfalso
            exact fragOkHost_mem _ hf' (.catchAll m) (by simp)
          | param m =>
            exfalso
            rw [List.reverse_cons, List.reverse_cons, List.append_assoc] at hf
            have := fragOkHost_adj l'.reverse m (.lit c) [] (by simpa using hf)
            exact hd (by injection this)
    | param n =>
      simp only [Tok.render, List.reverse_append, List.reverse_cons, List.reverse_nil, List.nil_append, List.append_assoc,
        List.singleton_append, List.cons_append, headIsWild, isWild]
      have h0 : scanHostRev (RBR :: (n.reverse ++ LBR :: (render l.reverse).reverse)) =
          scanHostRev (n.reverse ++ LBR :: (render l.reverse).reverse) := by
        simp only [scanHostRev]
        have h1 : ¬ RBR = DOT := by decide
        have h2 : ¬ RBR = LBR := by decide
        simp [h1, h2]
      rw [h0]
      exact scanHostRev_name _ _ (fun b hb => hmem b (List.mem_reverse.1 hb))
    | catchAll n => exact absurd hmem (by simp)

theorem render_getLast_lit (cp : List Tok) (c : UInt8) : (render (cp ++ [.lit c])).getLast? = some c := by
  rw [render_append']
  have : render [Tok.lit c] = [c] := by simp [render, Tok.render]
  rw [this]
  exact List.getLast?_concat

theorem render_getLast_param (cp : List Tok) (n : Bytes) : (render (cp ++ [.param n])).getLast? = some RBR := by
  rw [render_append']
  have : render [Tok.param n] = (LBR :: n) ++ [RBR] := by simp [render, Tok.render]
  rw [this, ← List.append_assoc]
  exact List.getLast?_concat

/-- **hostname part: the backward scan (with its `}` exemption) reports a conflict exactly when the token model does** -/
theorem conflict_host_eq (key toks : List Tok) (hk : toksOk key = true) (ht : toksOk toks = true)
    (fk : fragOkHost key = true) (hm : (stepT key toks).cls = .toMiddleOfEdge) :
    (stepB (render key) (render toks) true).conflict = (stepT key toks).conflict := by
  obtain ⟨h1, h2, h3⟩ := cp_split key toks
  have hcomm : lcpB (render toks) (render key) = (render (commonPrefix key toks)).length + partialT key toks := by
    rw [lcpB_comm]; exact lcp_render key toks hk ht
  simp only [stepT] at hm
  cases hkr : key.drop (commonPrefix key toks).length with
  | nil => rw [hkr] at hm; cases htr : toks.drop (commonPrefix key toks).length <;> rw [htr] at hm <;> cases hm
  | cons a kr =>
    cases htr : toks.drop (commonPrefix key toks).length with
    | nil => rw [hkr, htr] at hm; cases hm
    | cons b tr =>
      rw [hkr, htr] at h3
      obtain ⟨hab, hp⟩ := h3
      rw [hkr] at h1; rw [htr] at h2
      have hka := toksOk_cons (toksOk_append (by rw [← h1]; exact hk)).2
      have htb := toksOk_cons (toksOk_append (by rw [← h2]; exact ht)).2
      have hcpok : toksOk (commonPrefix key toks) = true := (toksOk_append (by rw [← h2]; exact ht)).1
      have hcpf : fragOkHost (commonPrefix key toks) = true := fragOkHost_append_left _ _ (by rw [← h1]; exact fk)
      simp only [stepB, stepT, hkr, htr, if_true, hcomm, hp]
      -- the byte prefix, taken from the key side (same bytes)
      have hswap : (render toks).take ((render (commonPrefix key toks)).length + partialHead a b) =
          (render key).take ((render (commonPrefix key toks)).length + partialHead a b) := by
        have := take_lcpB (render toks) (render key)
        rw [hcomm, hp] at this
        exact this
      rw [hswap]
      have hr1 : render key = render (commonPrefix key toks) ++ (a.render ++ render kr) := by
        conv => lhs; rw [h1]
        rw [render_append', render_cons']
      have htake : (render key).take ((render (commonPrefix key toks)).length + partialHead a b) =
          render (commonPrefix key toks) ++ a.render.take (partialHead a b) := by
        rw [hr1, List.take_append, List.take_of_length_le (by omega)]
        congr 1
        have : (render (commonPrefix key toks)).length + partialHead a b - (render (commonPrefix key toks)).length = partialHead a b := by omega
        rw [this]
        by_cases hle : partialHead a b ≤ a.render.length
        · exact List.take_append_of_le_length hle
        · exfalso
          cases a <;> cases b <;> simp [partialHead, Tok.render] at hle
          all_goals
            rename_i n m
            have := lcpB_le_left n m
            omega
      rw [htake]
      have hamem := fragOkHost_mem _ fk a (by rw [h1]; simp)
      cases a with
      | catchAll n => exact absurd hamem (by simp)
      | lit c =>
        -- no byte of the differing tokens is shared
        have hp0 : partialHead (.lit c) b = 0 := by cases b <;> rfl
        have hs : isWildSame (.lit c) b = false := by cases b <;> rfl
        rw [hp0, hs]
        simp only [List.take_zero, List.append_nil]
        unfold conflictHost
        cases hl : (commonPrefix key toks).reverse with
        | nil =>
          have hnil : commonPrefix key toks = [] := by simpa using hl
          rw [hnil]; rfl
        | cons w l' =>
          have hcp : commonPrefix key toks = l'.reverse ++ [w] := by
            have := congrArg List.reverse hl
            simpa using this
          cases w with
          | catchAll m =>
            exfalso
            have := fragOkHost_mem _ hcpf (.catchAll m) (by rw [hcp]; simp)
            exact this
          | param m => rw [hcp, render_getLast_param]; simp
          | lit d =>
            have hd : d ≠ RBR := by
              have := fragOkHost_mem _ hcpf (.lit d) (by rw [hcp]; simp)
              exact this
            rw [hcp, render_getLast_lit]
            have : ¬ (some d = some RBR) := by simpa using hd
            simp only [this, if_false]
            have hrev := scanHost_render (.lit d :: l') (by rw [List.reverse_cons, ← hcp]; exact hcpok)
              (by rw [List.reverse_cons, ← hcp]; exact hcpf)
            rw [List.reverse_cons] at hrev
            rw [hrev]
            rfl
      | param n =>
        cases b with
        | lit d =>
          simp only [partialHead, isWildSame, List.take_zero, List.append_nil]
          unfold conflictHost
          cases hl : (commonPrefix key toks).reverse with
          | nil =>
            have hnil : commonPrefix key toks = [] := by simpa using hl
            rw [hnil]; rfl
          | cons w l' =>
            have hcp : commonPrefix key toks = l'.reverse ++ [w] := by
              have := congrArg List.reverse hl
              simpa using this
            cases w with
            | catchAll m =>
              exfalso
              have := fragOkHost_mem _ hcpf (.catchAll m) (by rw [hcp]; simp)
              exact this
            | param m => rw [hcp, render_getLast_param]; simp
            | lit e =>
              have he : e ≠ RBR := by
                have := fragOkHost_mem _ hcpf (.lit e) (by rw [hcp]; simp)
                exact this
              rw [hcp, render_getLast_lit]
              have : ¬ (some e = some RBR) := by simpa using he
              simp only [this, if_false]
              have hrev := scanHost_render (.lit e :: l') (by rw [List.reverse_cons, ← hcp]; exact hcpok)
                (by rw [List.reverse_cons, ← hcp]; exact hcpf)
              rw [List.reverse_cons] at hrev
              rw [hrev]
              rfl
        | catchAll m =>
          simp only [partialHead, isWildSame, List.take_zero, List.append_nil]
          unfold conflictHost
          cases hl : (commonPrefix key toks).reverse with
          | nil =>
            have hnil : commonPrefix key toks = [] := by simpa using hl
            rw [hnil]; rfl
          | cons w l' =>
            have hcp : commonPrefix key toks = l'.reverse ++ [w] := by
              have := congrArg List.reverse hl
              simpa using this
            cases w with
            | catchAll m' =>
              exfalso
              have := fragOkHost_mem _ hcpf (.catchAll m') (by rw [hcp]; simp)
              exact this
            | param m' => rw [hcp, render_getLast_param]; simp
            | lit e =>
              have he : e ≠ RBR := by
                have := fragOkHost_mem _ hcpf (.lit e) (by rw [hcp]; simp)
                exact this
              rw [hcp, render_getLast_lit]
              have : ¬ (some e = some RBR) := by simpa using he
              simp only [this, if_false]
              have hrev := scanHost_render (.lit e :: l') (by rw [List.reverse_cons, ← hcp]; exact hcpok)
                (by rw [List.reverse_cons, ← hcp]; exact hcpf)
              rw [List.reverse_cons] at hrev
              rw [hrev]
              rfl
        | param m =>
          -- two parameters with different names: the prefix ends inside them
          have hn : nameOk n = true := by simpa [tokOk] using hka.1
          simp only [isWildSame, partialHead, Tok.render]
          rw [Nat.add_comm 1, show (LBR :: n ++ [RBR]) = LBR :: (n ++ [RBR]) from rfl, List.take_succ_cons,
            List.take_append_of_le_length (lcpB_le_left n m)]
          unfold conflictHost
          have hlast : (render (commonPrefix key toks) ++ LBR :: n.take (lcpB n m)).getLast? ≠ some RBR := by
            rw [getLast?_append_ne_nil _ _ (by simp)]
            intro hz
            have hmemz := List.mem_of_getLast? hz
            rcases List.mem_cons.1 hmemz with e | e
            · exact absurd e (by decide)
            · exact nameOk_noRbr hn RBR (List.mem_of_mem_take e) rfl
          simp only [hlast, if_false]
          rw [List.reverse_append, List.reverse_cons, List.append_assoc]
          exact scanHostRev_name _ _ (fun c hc => hamem c (List.mem_of_mem_take (List.mem_reverse.1 hc)))

/-! ### the dedicated path child of a hostname route -/

/-- `keySuffix[:hostSplit-charsMatched]`, `keySuffix[hostSplit-charsMatched:]` are the renderings of the token-level split
    of the remaining pattern at the end of the hostname: `pre` = the pattern tokens consumed before the new leaf -/
theorem leaf_split (pre suf : List Tok) (hostToks : Nat) (h : pre.length ≤ hostToks) :
    leafSplitB (render suf) (render ((pre ++ suf).take hostToks)).length (render pre).length =
      (render (suf.take (hostToks - pre.length)), render (suf.drop (hostToks - pre.length))) := by
  have htake : (pre ++ suf).take hostToks = pre ++ suf.take (hostToks - pre.length) := by
    rw [List.take_append, List.take_of_length_le h]
  have hsplit : render suf = render (suf.take (hostToks - pre.length)) ++ render (suf.drop (hostToks - pre.length)) := by
    rw [← render_append', List.take_append_drop]
  unfold leafSplitB
  rw [htake, render_append', List.length_append, Nat.add_sub_cancel_left]
  conv => lhs; rw [hsplit]
  simp

end Fox.Model.InsScan
