import FoxModel.Model.IterMachine
/-
  FoxModel.Lemmas.IterMachine — the explicit-stack loop of iter.go yields the pre-order listing of the tree model.
-/
namespace Fox.Model.IterMachine
open Fox Fox.Model

theorem routesKids_cons (c : Node) (cs : List Node) : routesKids (c :: cs) = routesNode c ++ routesKids cs := by
  simp [routesKids]

theorem routesNode_eq (e : Node) :
    routesNode e = (match e.route with | some r => [r] | none => []) ++ routesKids e.children := by
  cases e with
  | mk k r cs => cases r <;> simp [routesNode, Node.route, Node.children]

theorem pending_cons (f : List Node) (rest : Stack) : pending (f :: rest) = routesKids f ++ pending rest := by
  simp [pending]

theorem pending_advance (e : Node) (es : List Node) (rest : Stack) :
    pending (advance e es rest) = routesKids e.children ++ (routesKids es ++ pending rest) := by
  unfold advance
  cases hes : es.isEmpty <;> cases hc : e.children.isEmpty <;>
    simp only [Bool.false_eq_true, if_false, if_true, pending_cons]
  · rw [List.isEmpty_iff] at hc; simp [hc, routesKids]
  · rw [List.isEmpty_iff] at hes; simp [hes, routesKids]
  · rw [List.isEmpty_iff] at hes hc; simp [hes, hc, routesKids]

theorem framesOk_advance {e : Node} {es : List Node} {rest : Stack} (h : FramesOk rest) :
    FramesOk (advance e es rest) := by
  unfold advance
  intro f hf
  cases hes : es.isEmpty <;> cases hc : e.children.isEmpty <;>
    simp only [hes, hc, Bool.false_eq_true, if_false, if_true, List.mem_cons] at hf
  · rcases hf with rfl | rfl | hf
    · intro e0; simp [e0] at hc
    · intro e0; simp [e0] at hes
    · exact h f hf
  · rcases hf with rfl | hf
    · intro e0; simp [e0] at hes
    · exact h f hf
  · rcases hf with rfl | hf
    · intro e0; simp [e0] at hc
    · exact h f hf
  · exact h f hf

/-- one run of the loop: it ends exactly when nothing is pending, otherwise it yields the first pending route and
    leaves a stack on which the rest is pending; an empty frame (the index panic) is never met -/
theorem next_spec : ∀ (n : Nat) (stk : Stack), weight stk = n → FramesOk stk →
    match next stk with
    | .done => pending stk = []
    | .panic => False
    | .item r stk' => pending stk = r :: pending stk' ∧ FramesOk stk' := by
  intro n
  induction n using Nat.strongRecOn with
  | _ n ih =>
    intro stk hn hok
    match stk, hn, hok with
    | [], _, _ => simp [next, pending]
    | [] :: rest, _, hok => exact absurd rfl (hok [] (by simp))
    | (e :: es) :: rest, hn, hok =>
      have hrest : FramesOk rest := fun f hf => hok f (by simp [hf])
      have hadv := framesOk_advance (e := e) (es := es) hrest
      have hp : pending ((e :: es) :: rest) =
          (match e.route with | some r => [r] | none => []) ++ pending (advance e es rest) := by
        rw [pending_cons, routesKids_cons, routesNode_eq, pending_advance]; simp
      unfold next
      cases hr : e.route with
      | some r =>
        simp only []
        rw [hp, hr]
        exact ⟨rfl, hadv⟩
      | none =>
        simp only []
        have hw := weight_advance e es rest
        have := ih _ (by omega) (advance e es rest) rfl hadv
        rw [hp, hr]
        simpa using this

/-- **the loop yields the pre-order listing, and a consumer that stops after `k` items has seen its first `k`** -/
theorem drain_take : ∀ (k : Nat) (stk : Stack), FramesOk stk → drain k stk = some ((pending stk).take k)
  | 0, _, _ => by simp [drain]
  | k + 1, stk, hok => by
    have h := next_spec _ stk rfl hok
    unfold drain
    cases hn : next stk with
    | done => rw [hn] at h; simp [h]
    | panic => rw [hn] at h; exact absurd h id
    | item r stk' =>
      rw [hn] at h
      simp only []
      rw [drain_take k stk' h.2, h.1]
      simp

theorem pending_single (n : Node) : pending [[n]] = routesNode n := by
  simp [pending, routesKids]

end Fox.Model.IterMachine
