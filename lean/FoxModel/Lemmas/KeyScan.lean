import FoxModel.Model.KeyScan
import FoxModel.Lemmas.Parse
import FoxModel.Lemmas.MachineLazy
import FoxModel.Props.C10
/-
  The byte-level inner loop of `lookupByPath` (`KeyScan.scanB`: key bytes, `params[k].end` offsets, `paramKeyCnt`,
  `charsMatchedInNodeFound`) agrees with the token-level one (`KeyScan.scanT`), which is the advancing part of
  `Machine.keyLoop`.
-/
namespace Fox.Model.KeyScan
open Fox Fox.Model Fox.Model.Machine

/-- number of wildcard tokens = `paramKeyCnt` after them -/
def wcount : List Tok → Nat
  | [] => 0
  | .lit _ :: ts => wcount ts
  | _ :: ts => wcount ts + 1

theorem wcount_append (a b : List Tok) : wcount (a ++ b) = wcount a + wcount b := by
  induction a with
  | nil => simp [wcount]
  | cons t a ih => cases t <;> simp [wcount, ih] <;> omega

theorem render_cons' (t : Tok) (ts : List Tok) : render (t :: ts) = t.render ++ render ts := by
  simp [render]

theorem render_append' (a b : List Tok) : render (a ++ b) = render a ++ render b := by
  simp [render]

theorem render_snoc_len (pre : List Tok) (t : Tok) : (render (pre ++ [t])).length = (render pre).length + t.render.length := by
  rw [render_append']; simp [render]

/-- the key byte at a token boundary is the first byte of the next token -/
theorem key_byte (pre : List Tok) (t : Tok) (k' : List Tok) :
    (render (pre ++ t :: k'))[(render pre).length]? = some (firstByte (t :: k')) := by
  rw [render_append', List.getElem?_append_right (Nat.le_refl _), Nat.sub_self, render_cons']
  cases t <;> simp [Tok.render, firstByte]

theorem key_byte_end (toks : List Tok) : (render toks)[(render toks).length]? = none := by
  simp

/-- `params[paramKeyCnt]` at a {param} token boundary -/
theorem wp_param (pre : List Tok) (nm : Bytes) (k' : List Tok) (off : Nat) :
    (wildPositions off (pre ++ .param nm :: k'))[wcount pre]? =
      some ⟨nm, if k'.isEmpty then -1 else ((off + (render pre).length + nm.length + 2 : Nat) : Int), false⟩ := by
  induction pre generalizing off with
  | nil => simp [wildPositions, wcount, render]
  | cons t pre ih =>
    cases t with
    | lit c =>
      simp only [List.cons_append, wildPositions, wcount, render_cons', Tok.render, List.length_append, List.length_cons,
        List.length_nil]
      rw [ih]; cases k' <;> simp <;> omega
    | param n =>
      simp only [List.cons_append, wildPositions, wcount, render_cons', Tok.render, List.length_append, List.length_cons,
        List.length_nil, List.getElem?_cons_succ]
      rw [ih]; cases k' <;> simp <;> omega
    | catchAll n =>
      simp only [List.cons_append, wildPositions, wcount, render_cons', Tok.render, List.length_append, List.length_cons,
        List.length_nil, List.getElem?_cons_succ]
      rw [ih]; cases k' <;> simp <;> omega

/-- `params[paramKeyCnt]` at a catch-all token boundary: `end == -1` exactly when the catch-all ends the key -/
theorem wp_catchAll (pre : List Tok) (nm : Bytes) (k' : List Tok) (off : Nat) :
    (wildPositions off (pre ++ .catchAll nm :: k'))[wcount pre]? =
      some ⟨nm, if k'.isEmpty then -1 else ((off + (render pre).length + nm.length + 3 : Nat) : Int), true⟩ := by
  induction pre generalizing off with
  | nil => simp [wildPositions, wcount, render]
  | cons t pre ih =>
    cases t with
    | lit c =>
      simp only [List.cons_append, wildPositions, wcount, render_cons', Tok.render, List.length_append, List.length_cons,
        List.length_nil]
      rw [ih]; cases k' <;> simp <;> omega
    | param n =>
      simp only [List.cons_append, wildPositions, wcount, render_cons', Tok.render, List.length_append, List.length_cons,
        List.length_nil, List.getElem?_cons_succ]
      rw [ih]; cases k' <;> simp <;> omega
    | catchAll n =>
      simp only [List.cons_append, wildPositions, wcount, render_cons', Tok.render, List.length_append, List.length_cons,
        List.length_nil, List.getElem?_cons_succ]
      rw [ih]; cases k' <;> simp <;> omega

def toB (o : TOut) : BOut := ⟨o.stop, (render o.pre).length, wcount o.pre, o.cm, o.pc, o.ps⟩

theorem scanB_step {path : Bytes} {cm : Nat} {b : UInt8} {rest : Bytes} (hp : path.drop cm = b :: rest)
    (key : Bytes) (wp : List WParam) (lz : Bool) (i pk pc : Nat) (ps : Binds) :
    scanB key wp path lz i pk cm pc ps =
      (match key[i]? with
       | none => ⟨.keyEnd, i, pk, cm, pc, ps⟩
       | some kb =>
         if kb ≠ b ∨ b = LBR ∨ b = STAR then
           if kb = LBR then
             if segEnd SLASH (b :: rest) = 0 then ⟨.emptySeg, i, pk, cm, pc, ps⟩
             else
               match wp[pk]? with
               | none => ⟨.panic, i, pk, cm, pc, ps⟩
               | some w =>
                 scanB key wp path lz (jump key.length i w.end) (pk + 1) (cm + segEnd SLASH (b :: rest)) (inc lz pc)
                   (rec lz ps [(w.key, (b :: rest).take (segEnd SLASH (b :: rest)))])
           else if kb = STAR then ⟨.catchAll, i, pk, cm, pc, ps⟩
           else ⟨.mismatch, i, pk, cm, pc, ps⟩
         else scanB key wp path lz (i + 1) pk (cm + 1) pc ps) := by
  rw [scanB]; split
  · rename_i h; rw [hp] at h; cases h
  · rename_i b' rest' h; rw [hp] at h; cases h; rfl

theorem scanB_end {path : Bytes} {cm : Nat} (hp : path.drop cm = []) (key wp lz i pk pc ps) :
    scanB key wp path lz i pk cm pc ps = ⟨.pathEnd, i, pk, cm, pc, ps⟩ := by
  rw [scanB]; split
  · rfl
  · rename_i b rest h; rw [hp] at h; cases h

/-- **the byte offsets of the inner loop are the token split of the key**: started at a token boundary
    (`i = len(render pre)`, `paramKeyCnt =` number of wildcards of `pre`) on the rendered key with the parameter table
    `parseWildcard` computes for it, the Go loop stops for the same reason, at the same path position, with the same
    recorded parameters as the token-level loop, at the token boundary the latter stops at. -/
theorem scanB_eq_scanT (toks : List Tok) (hk : keyOk toks = true) :
    ∀ (k pre : List Tok), pre ++ k = toks → ∀ (path : Bytes) (lz : Bool) (cm pc : Nat) (ps : Binds),
      scanB (render toks) (wildPositions 0 toks) path lz (render pre).length (wcount pre) cm pc ps =
        toB (scanT pre k (path.drop cm) lz cm pc ps) := by
  intro k
  induction k with
  | nil =>
    intro pre hpre path lz cm pc ps
    rw [List.append_nil] at hpre; subst hpre
    cases hp : path.drop cm with
    | nil => rw [scanB_end hp, scanT]; rfl
    | cons b rest => rw [scanB_step hp, key_byte_end, scanT]; rfl
  | cons t k' ih =>
    intro pre hpre path lz cm pc ps
    have hko : keyOk (t :: k') = true := by rw [← hpre] at hk; exact keyOk_append_right hk
    have hnext : (pre ++ [t]) ++ k' = toks := by rw [← hpre]; simp
    cases hp : path.drop cm with
    | nil => rw [scanB_end hp, scanT]; rfl
    | cons b rest =>
      rw [scanB_step hp, ← hpre, key_byte]
      simp only []
      cases t with
      | lit c =>
        have hne := keyOk_lit_ne hko
        have hfb : firstByte (Tok.lit c :: k') = c := rfl
        rw [hfb, scanT]
        by_cases hc : c = b ∧ b ≠ LBR ∧ b ≠ STAR
        · have h1 : ¬ (c ≠ b ∨ b = LBR ∨ b = STAR) := by
            obtain ⟨h1, h2, h3⟩ := hc
            simp [h1, h2, h3]
          rw [if_neg h1, if_pos hc]
          have := ih (pre ++ [.lit c]) hnext path lz (cm + 1) pc ps
          rw [render_snoc_len, wcount_append] at this
          simp only [Tok.render, List.length_cons, List.length_nil, wcount, Nat.add_zero] at this
          rw [hpre, this, drop_add_of_drop hp 1]; rfl
        · have h1 : c ≠ b ∨ b = LBR ∨ b = STAR := by
            by_cases hcb : c = b
            · by_cases hl : b = LBR
              · exact Or.inr (Or.inl hl)
              · by_cases hs : b = STAR
                · exact Or.inr (Or.inr hs)
                · exact absurd ⟨hcb, hl, hs⟩ hc
            · exact Or.inl hcb
          rw [if_pos h1, if_neg hne.2, if_neg hne.1, if_neg hc]; rfl
      | param nm =>
        have hfb : firstByte (Tok.param nm :: k') = LBR := rfl
        rw [hfb, scanT]
        have h1 : LBR ≠ b ∨ b = LBR ∨ b = STAR := by
          by_cases h : b = LBR
          · exact Or.inr (Or.inl h)
          · exact Or.inl (fun h' => h h'.symm)
        rw [if_pos h1, if_pos rfl]
        by_cases h0 : segEnd SLASH (b :: rest) = 0
        · rw [if_pos h0, if_pos h0]; rfl
        · rw [if_neg h0, if_neg h0, wp_param pre nm k' 0]
          simp only []
          have hj : jump (render (pre ++ Tok.param nm :: k')).length (render pre).length
              (if k'.isEmpty then -1 else ((0 + (render pre).length + nm.length + 2 : Nat) : Int))
              = (render (pre ++ [Tok.param nm])).length := by
            rw [render_snoc_len]
            simp only [Tok.render, List.length_cons, List.length_append, List.length_nil]
            unfold jump
            cases k' with
            | nil =>
              simp only [List.isEmpty_nil, if_true]
              have : ¬ ((-1 : Int) - ((render pre).length : Int) ≥ 0) := by omega
              rw [if_neg this, render_append']; simp [render, Tok.render]
            | cons t' k'' =>
              simp only [List.isEmpty_cons, Bool.false_eq_true, if_false]
              have h2 : (((0 + (render pre).length + nm.length + 2 : Nat) : Int) - ((render pre).length : Int)) ≥ 0 := by omega
              rw [if_pos h2]; omega
          have := ih (pre ++ [.param nm]) hnext path lz (cm + segEnd SLASH (b :: rest)) (inc lz pc)
            (rec lz ps [(nm, (b :: rest).take (segEnd SLASH (b :: rest)))])
          rw [wcount_append] at this
          simp only [wcount, Nat.zero_add] at this
          rw [hpre] at hj ⊢
          rw [hj, this, drop_add_of_drop hp]
      | catchAll nm =>
        have hfb : firstByte (Tok.catchAll nm :: k') = STAR := rfl
        rw [hfb, scanT]
        have h1 : STAR ≠ b ∨ b = LBR ∨ b = STAR := by
          by_cases h : b = STAR
          · exact Or.inr (Or.inr h)
          · exact Or.inl (fun h' => h h'.symm)
        have h2 : ¬ STAR = LBR := by decide
        rw [if_pos h1, if_neg h2, if_pos rfl]; rfl


/-- the advancing part of `Machine.keyLoop` is `scanT`: the machine run from a key position is the machine run from the
    position, path index, parameter count and parameter buffer at which the scan stops -/
theorem keyLoop_scan (lz : Bool) (p : Bytes) (cur : Node) (parent : Option Node) (R : Regs) :
    ∀ (k pre : List Tok) (cm pc : Nat) (ps : Binds),
      keyLoop lz p cur pre k parent cm pc { R with params := ps } =
        keyLoop lz p cur (scanT pre k (p.drop cm) lz cm pc ps).pre (scanT pre k (p.drop cm) lz cm pc ps).k parent
          (scanT pre k (p.drop cm) lz cm pc ps).cm (scanT pre k (p.drop cm) lz cm pc ps).pc
          { R with params := (scanT pre k (p.drop cm) lz cm pc ps).ps } := by
  intro k
  induction k with
  | nil => intro pre cm pc ps; cases hp : p.drop cm <;> (rw [scanT])
  | cons t k' ih =>
    intro pre cm pc ps
    cases hp : p.drop cm with
    | nil => rw [scanT]
    | cons b rest =>
      cases t with
      | lit c =>
        rw [scanT]
        by_cases hc : c = b ∧ b ≠ LBR ∧ b ≠ STAR
        · rw [if_pos hc]
          have := ih (pre ++ [.lit c]) (cm + 1) pc ps
          rw [drop_add_of_drop hp 1] at this
          rw [keyLoop_lit' hp, if_pos hc]; exact this
        · rw [if_neg hc]
      | param nm =>
        rw [scanT]
        by_cases h0 : segEnd SLASH (b :: rest) = 0
        · rw [if_pos h0]
        · rw [if_neg h0]
          have := ih (pre ++ [.param nm]) (cm + segEnd SLASH (b :: rest)) (inc lz pc)
            (rec lz ps [(nm, (b :: rest).take (segEnd SLASH (b :: rest)))])
          rw [drop_add_of_drop hp] at this
          rw [keyLoop_param' hp, if_neg h0]; exact this
      | catchAll nm => rw [scanT]

/-! ### the byte-level guards of the catch-all block and of the trailing-slash sites are the token-level ones -/

/-- `current.params[paramKeyCnt].end == -1` (ending catch-all) exactly when no key token follows the catch-all -/
theorem catchAll_end_iff (pre : List Tok) (nm : Bytes) (k' : List Tok) :
    ∃ w, (wildPositions 0 (pre ++ .catchAll nm :: k'))[wcount pre]? = some w ∧ w.key = nm ∧
      (w.end = -1 ↔ k' = []) ∧
      (k' ≠ [] → jump (render (pre ++ .catchAll nm :: k')).length (render pre).length w.end
                   = (render (pre ++ [.catchAll nm])).length) := by
  refine ⟨_, wp_catchAll pre nm k' 0, rfl, ?_, ?_⟩
  · cases k' with
    | nil => simp
    | cons t k'' =>
      simp only [List.isEmpty_cons, Bool.false_eq_true, if_false, reduceCtorEq, iff_false]
      try omega
  · intro hne
    cases k' with
    | nil => exact absurd rfl hne
    | cons t k'' =>
      simp only [List.isEmpty_cons, Bool.false_eq_true, if_false]
      unfold jump
      have h2 : (((0 + (render pre).length + nm.length + 3 : Nat) : Int) - ((render pre).length : Int)) ≥ 0 := by omega
      rw [if_pos h2, render_snoc_len]
      simp only [Tok.render, List.length_cons, List.length_append, List.length_nil]
      omega

theorem tok_render_pos (t : Tok) : 0 < t.render.length := by
  cases t <;> simp [Tok.render]

theorem render_len_pos {k : List Tok} (h : k ≠ []) : 0 < (render k).length := by
  cases k with
  | nil => exact absurd rfl h
  | cons t k' => rw [render_cons']; simp; have := tok_render_pos t; omega

/-- `charsMatchedInNodeFound == len(current.key)` ⟺ the key is used up -/
theorem atKeyEnd_iff (pre k : List Tok) : (render pre).length = (render (pre ++ k)).length ↔ k = [] := by
  rw [render_append', List.length_append]
  constructor
  · intro h
    cases k with
    | nil => rfl
    | cons t k' => have := render_len_pos (k := t :: k') (by simp); omega
  · intro h; subst h; simp [render]

/-- `len(remainingSuffix) == 1 && remainingSuffix[0] == '/'` ⟺ exactly the literal "/" is left of the key -/
theorem restSlash_iff (pre k : List Tok) :
    (render (pre ++ k)).drop (render pre).length = [SLASH] ↔ k = [.lit SLASH] := by
  rw [render_append', List.drop_left]
  constructor
  · intro h
    cases k with
    | nil => simp [render] at h
    | cons t k' =>
      rw [render_cons'] at h
      cases t with
      | lit c =>
        simp only [Tok.render, List.singleton_append, List.cons.injEq] at h
        obtain ⟨rfl, h2⟩ := h
        cases k' with
        | nil => rfl
        | cons t' k'' => have := render_len_pos (k := t' :: k'') (by simp); rw [h2] at this; simp at this
      | param n => simp [Tok.render] at h
      | catchAll n => simp [Tok.render] at h
  · intro h; subst h; simp [render, Tok.render]

/-- `charsMatchedInNodeFound == 1 && current.key[0] == '/'` ⟺ exactly the literal "/" of the key has been consumed -/
theorem oneSlash_iff (pre k : List Tok) :
    ((render pre).length = 1 ∧ (render (pre ++ k))[0]? = some SLASH) ↔ pre = [.lit SLASH] := by
  constructor
  · intro ⟨h1, h2⟩
    cases pre with
    | nil => simp [render] at h1
    | cons t pre' =>
      rw [render_cons'] at h1
      cases t with
      | lit c =>
        cases pre' with
        | nil =>
          simp only [List.cons_append, List.nil_append, render_cons', Tok.render, List.singleton_append,
            List.getElem?_cons_zero, Option.some.injEq] at h2
          rw [h2]
        | cons t' p'' =>
          have := render_len_pos (k := t' :: p'') (by simp)
          simp only [Tok.render, List.length_append, List.length_cons, List.length_nil] at h1; omega
      | param n => simp [Tok.render] at h1
      | catchAll n => simp [Tok.render] at h1
  · intro h; subst h; simp [render, Tok.render]

/-- **end to end for a node as the router builds it**: the key bytes are the rendered tokens and `current.params` is what
    `parseWildcard` returns for them (it never panics on such a key); then the Go inner loop with its byte offsets and
    the token-level loop of the state machine stop identically. -/
theorem scan_on_built_key (toks : List Tok) (hk : keyOk toks = true) (ht : tokenize (render toks) = some toks)
    (path : Bytes) (lz : Bool) (ps : Binds) :
    ∃ wp, parseWildcard (render toks) = some wp ∧
      scanB (render toks) wp path lz 0 0 0 0 ps = toB (scanT [] toks path lz 0 0 ps) := by
  refine ⟨wildPositions 0 toks, (Fox.C10.parseWildcard_agrees (render toks) toks ht).1, ?_⟩
  have := scanB_eq_scanT toks hk toks [] rfl path lz 0 0 ps
  simpa [render, wcount] using this

end Fox.Model.KeyScan
