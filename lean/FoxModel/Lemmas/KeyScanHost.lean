import FoxModel.Model.KeyScanHost
import FoxModel.Lemmas.KeyScan
import FoxModel.Lemmas.MachineLazy
/-
  FoxModel.Lemmas.KeyScanHost — the byte offsets of the inner loop of `lookupByDomain` are the token split of the key
  (hostname counterpart of `Lemmas/KeyScan`).
-/
namespace Fox.Model.KeyScan
open Fox Fox.Model Fox.Model.Machine

theorem scanBH_step {host : Bytes} {cm : Nat} {b : UInt8} {rest : Bytes} (hp : host.drop cm = b :: rest)
    (key : Bytes) (wp : List WParam) (lz : Bool) (i pk pc : Nat) (ps : Binds) :
    scanBH key wp host lz i pk cm pc ps =
      (match key[i]? with
       | none => ⟨.keyEnd, i, pk, cm, pc, ps⟩
       | some kb =>
         if kb ≠ b ∨ b = LBR then
           if kb = LBR then
             if segEnd DOT (b :: rest) = 0 then ⟨.emptySeg, i, pk, cm, pc, ps⟩
             else
               match wp[pk]? with
               | none => ⟨.panic, i, pk, cm, pc, ps⟩
               | some w =>
                 scanBH key wp host lz (jump key.length i w.end) (pk + 1) (cm + segEnd DOT (b :: rest)) (inc lz pc)
                   (rec lz ps [(w.key, (b :: rest).take (segEnd DOT (b :: rest)))])
           else ⟨.mismatch, i, pk, cm, pc, ps⟩
         else scanBH key wp host lz (i + 1) pk (cm + 1) pc ps) := by
  rw [scanBH]; split
  · rename_i h; rw [hp] at h; cases h
  · rename_i b' rest' h; rw [hp] at h; cases h; rfl

theorem scanBH_end {host : Bytes} {cm : Nat} (hp : host.drop cm = []) (key wp lz i pk pc ps) :
    scanBH key wp host lz i pk cm pc ps = ⟨.pathEnd, i, pk, cm, pc, ps⟩ := by
  rw [scanBH]; split
  · rfl
  · rename_i b rest h; rw [hp] at h; cases h

def noCatchAll (k : List Tok) : Bool := k.all fun t => match t with | .catchAll _ => false | _ => true

/-- **hostname keys: the byte offsets of the inner loop of `lookupByDomain` are the token split of the key** -/
theorem scanBH_eq_scanTH (toks : List Tok) (hk : keyOk toks = true) (hc : noCatchAll toks = true) :
    ∀ (k pre : List Tok), pre ++ k = toks → ∀ (host : Bytes) (lz : Bool) (cm pc : Nat) (ps : Binds),
      scanBH (render toks) (wildPositions 0 toks) host lz (render pre).length (wcount pre) cm pc ps =
        toB (scanTH pre k (host.drop cm) lz cm pc ps) := by
  intro k
  induction k with
  | nil =>
    intro pre hpre host lz cm pc ps
    rw [List.append_nil] at hpre; subst hpre
    cases hp : host.drop cm with
    | nil => rw [scanBH_end hp, scanTH]; rfl
    | cons b rest => rw [scanBH_step hp, key_byte_end, scanTH]; rfl
  | cons t k' ih =>
    intro pre hpre host lz cm pc ps
    have hko : keyOk (t :: k') = true := by rw [← hpre] at hk; exact keyOk_append_right hk
    have hnext : (pre ++ [t]) ++ k' = toks := by rw [← hpre]; simp
    cases hp : host.drop cm with
    | nil => rw [scanBH_end hp, scanTH]; rfl
    | cons b rest =>
      rw [scanBH_step hp, ← hpre, key_byte]
      simp only []
      cases t with
      | lit c =>
        have hne := keyOk_lit_ne hko
        have hfb : firstByte (Tok.lit c :: k') = c := rfl
        rw [hfb, scanTH]
        by_cases hcb : c = b ∧ b ≠ LBR
        · have h1 : ¬ (c ≠ b ∨ b = LBR) := by
            obtain ⟨h1, h2⟩ := hcb
            simp [h1, h2]
          rw [if_neg h1, if_pos hcb]
          have := ih (pre ++ [.lit c]) hnext host lz (cm + 1) pc ps
          rw [render_snoc_len, wcount_append] at this
          simp only [Tok.render, List.length_cons, List.length_nil, wcount, Nat.add_zero] at this
          rw [hpre, this, drop_add_of_drop hp 1]; rfl
        · have h1 : c ≠ b ∨ b = LBR := by
            by_cases h : c = b
            · by_cases hl : b = LBR
              · exact Or.inr hl
              · exact absurd ⟨h, hl⟩ hcb
            · exact Or.inl h
          rw [if_pos h1, if_neg hne.2, if_neg hcb]; rfl
      | param nm =>
        have hfb : firstByte (Tok.param nm :: k') = LBR := rfl
        rw [hfb, scanTH]
        have h1 : LBR ≠ b ∨ b = LBR := by
          by_cases h : b = LBR
          · exact Or.inr h
          · exact Or.inl (fun h' => h h'.symm)
        rw [if_pos h1, if_pos rfl]
        by_cases h0 : segEnd DOT (b :: rest) = 0
        · rw [if_pos h0, if_pos h0]; rfl
        · rw [if_neg h0, if_neg h0, wp_param pre nm k' 0]
          simp only []
          have hj : jump (render (pre ++ Tok.param nm :: k')).length (render pre).length
              (if k'.isEmpty then -1 else ((0 + (render pre).length + nm.length + 2 : Nat) : Int))
              = (render (pre ++ [Tok.param nm])).length := by
            rw [render_snoc_len]
            simp only [Tok.render, List.length_cons, List.length_append, List.length_nil]
            unfold jump
            cases k' with
            | nil =>
              simp only [List.isEmpty_nil, if_true]
              have : ¬ ((-1 : Int) - ((render pre).length : Int) ≥ 0) := by omega
              rw [if_neg this, render_append']; simp [render, Tok.render]
            | cons t' k'' =>
              simp only [List.isEmpty_cons, Bool.false_eq_true, if_false]
              have h2 : (((0 + (render pre).length + nm.length + 2 : Nat) : Int) - ((render pre).length : Int)) ≥ 0 := by omega
              rw [if_pos h2]; omega
          have := ih (pre ++ [.param nm]) hnext host lz (cm + segEnd DOT (b :: rest)) (inc lz pc)
            (rec lz ps [(nm, (b :: rest).take (segEnd DOT (b :: rest)))])
          rw [wcount_append] at this
          simp only [wcount, Nat.zero_add] at this
          rw [hpre] at hj ⊢
          rw [hj, this, drop_add_of_drop hp]
      | catchAll nm =>
        exfalso
        rw [← hpre] at hc
        simp [noCatchAll] at hc

/-- the advancing part of `Machine.hostKeyLoop` is `scanTH` -/
theorem hostKeyLoop_scan (lz : Bool) (host path : Bytes) (cur : Node) (R : Regs) :
    ∀ (k pre : List Tok) (cm pc : Nat) (ps : Binds),
      hostKeyLoop lz host path cur k cm pc { R with params := ps } =
        hostKeyLoop lz host path cur (scanTH pre k (host.drop cm) lz cm pc ps).k
          (scanTH pre k (host.drop cm) lz cm pc ps).cm (scanTH pre k (host.drop cm) lz cm pc ps).pc
          { R with params := (scanTH pre k (host.drop cm) lz cm pc ps).ps } := by
  intro k
  induction k with
  | nil => intro pre cm pc ps; cases hp : host.drop cm <;> (rw [scanTH])
  | cons t k' ih =>
    intro pre cm pc ps
    cases hp : host.drop cm with
    | nil => rw [scanTH]
    | cons b rest =>
      cases t with
      | lit c =>
        rw [scanTH]
        by_cases hc : c = b ∧ b ≠ LBR
        · rw [if_pos hc]
          have := ih (pre ++ [.lit c]) (cm + 1) pc ps
          rw [drop_add_of_drop hp 1] at this
          rw [hostKeyLoop_lit' hp, if_pos hc]; exact this
        · rw [if_neg hc]
      | param nm =>
        rw [scanTH]
        by_cases h0 : segEnd DOT (b :: rest) = 0
        · rw [if_pos h0]
        · rw [if_neg h0]
          have := ih (pre ++ [.param nm]) (cm + segEnd DOT (b :: rest)) (inc lz pc)
            (rec lz ps [(nm, (b :: rest).take (segEnd DOT (b :: rest)))])
          rw [drop_add_of_drop hp] at this
          rw [hostKeyLoop_param' hp, if_neg h0]; exact this
      | catchAll nm => rw [scanTH]

end Fox.Model.KeyScan
