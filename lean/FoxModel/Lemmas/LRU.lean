import FoxModel.Model.LRU
/-
  FoxModel.Lemmas.LRU — invariants of the recency-list model of internal/simplelru.
-/
namespace Fox.LRU

def Inv (c : LRU) : Prop := c.keysMRU.Nodup ∧ c.len ≤ c.cap

theorem keys_without (items : List (Nat × Nat)) (k : Nat) :
    (without items k).map (·.1) = (items.map (·.1)).filter (· != k) := by
  induction items with
  | nil => rfl
  | cons x xs ih =>
    simp only [without, List.filter, List.map_cons] at ih ⊢
    cases h : (x.1 != k) <;> simp [ih]

theorem mem_without {items : List (Nat × Nat)} {k x : Nat} :
    x ∈ (without items k).map (·.1) ↔ x ∈ items.map (·.1) ∧ x ≠ k := by
  rw [keys_without]; simp

theorem nodup_without {items : List (Nat × Nat)} (h : (items.map (·.1)).Nodup) (k : Nat) :
    ((without items k).map (·.1)).Nodup := by
  rw [keys_without]; exact h.filter _

theorem length_without_lt {items : List (Nat × Nat)} {k : Nat} (h : k ∈ items.map (·.1)) :
    (without items k).length < items.length := by
  induction items with
  | nil => simp at h
  | cons x xs ih =>
    simp only [without, List.filter]
    by_cases hx : x.1 = k
    · simp only [hx, bne_self_eq_false]
      exact Nat.lt_succ_of_le (List.length_filter_le _ _)
    · have : (x.1 != k) = true := by simp [hx]
      simp only [this, List.length_cons]
      have hk : k ∈ xs.map (·.1) := by
        simp only [List.map_cons, List.mem_cons] at h
        rcases h with h | h
        · exact absurd h.symm hx
        · exact h
      have := ih hk
      simp only [without] at this
      omega

theorem contains_iff (c : LRU) (k : Nat) : c.contains k = true ↔ k ∈ c.keysMRU := by
  simp [LRU.contains]

theorem peek_some_iff (c : LRU) (k : Nat) : (c.peek k).isSome = true ↔ k ∈ c.keysMRU := by
  simp only [LRU.peek, Option.isSome_map, List.find?_isSome, LRU.keysMRU, List.mem_map]
  constructor
  · rintro ⟨x, hx, hk⟩; exact ⟨x, hx, by simpa using hk⟩
  · rintro ⟨x, hx, hk⟩; exact ⟨x, hx, by simpa using hk⟩

theorem mem_dropLast {α} {l : List α} {x : α} (h : x ∈ l.dropLast) : x ∈ l := List.dropLast_subset l h

/-- every operation keeps the keys distinct and the length within the capacity -/
theorem step_inv (c : LRU) (op : Op) (h : Inv c) : Inv (step c op).1 := by
  obtain ⟨hnd, hlen⟩ := h
  simp only [LRU.keysMRU, LRU.len] at hnd hlen
  cases op with
  | add k v =>
    simp only [step, LRU.add]
    by_cases hc : c.contains k = true
    · simp only [hc, if_true, Inv, LRU.keysMRU, LRU.len, List.map_cons, List.nodup_cons, List.length_cons]
      have hk := (contains_iff c k).mp hc
      refine ⟨⟨fun hm => (mem_without.mp hm).2 rfl, nodup_without hnd k⟩, ?_⟩
      have := length_without_lt (items := c.items) hk
      omega
    · simp only [hc, Bool.false_eq_true, if_false]
      have hk : k ∉ c.items.map (·.1) := fun hm => hc ((contains_iff c k).mpr hm)
      split
      · simp only [Inv, LRU.keysMRU, LRU.len, List.length_dropLast, List.length_cons]
        refine ⟨?_, by omega⟩
        have hsub : ((k, v) :: c.items).dropLast.Sublist ((k, v) :: c.items) := List.dropLast_sublist _
        have hnd' : (((k, v) :: c.items).map (·.1)).Nodup := by
          simp only [List.map_cons, List.nodup_cons]; exact ⟨hk, hnd⟩
        exact hnd'.sublist (hsub.map _)
      · rename_i hgt
        simp only [Inv, LRU.keysMRU, LRU.len, List.map_cons, List.nodup_cons, List.length_cons] at hgt ⊢
        exact ⟨⟨hk, hnd⟩, by omega⟩
  | get k =>
    simp only [step, LRU.get]
    cases hp : c.peek k with
    | none => exact ⟨hnd, hlen⟩
    | some v =>
      have hk := (peek_some_iff c k).mp (by rw [hp]; rfl)
      simp only [Inv, LRU.keysMRU, LRU.len, List.map_cons, List.nodup_cons, List.length_cons]
      refine ⟨⟨fun hm => (mem_without.mp hm).2 rfl, nodup_without hnd k⟩, ?_⟩
      have := length_without_lt (items := c.items) hk
      omega
  | contains k => exact ⟨hnd, hlen⟩
  | peek k => exact ⟨hnd, hlen⟩
  | remove k =>
    simp only [step, LRU.remove]
    split
    · simp only [Inv, LRU.keysMRU, LRU.len]
      refine ⟨nodup_without hnd k, ?_⟩
      have : (without c.items k).length ≤ c.items.length := List.length_filter_le _ _
      omega
    · exact ⟨hnd, hlen⟩
  | removeOldest =>
    simp only [step, LRU.removeOldest]
    split
    · simp only [Inv, LRU.keysMRU, LRU.len, List.length_dropLast]
      exact ⟨hnd.sublist ((List.dropLast_sublist _).map _), by omega⟩
    · exact ⟨hnd, hlen⟩
  | purge => simp [step, LRU.purge, Inv, LRU.keysMRU, LRU.len]
  | keys => exact ⟨hnd, hlen⟩
  | len => exact ⟨hnd, hlen⟩
  | resize n =>
    simp only [step, LRU.resize, Inv, LRU.keysMRU, LRU.len, List.length_take]
    exact ⟨hnd.sublist ((List.take_sublist _ _).map _), by omega⟩

theorem inv_empty (cap : Nat) : Inv (empty cap) := by simp [Inv, empty, LRU.keysMRU, LRU.len]

theorem run_inv : ∀ (ops : List Op) (c : LRU), Inv c → Inv (run c ops).1
  | [], _, h => h
  | op :: ops, c, h => by simp only [run]; exact run_inv ops _ (step_inv c op h)

/-- the keys of the cache are among the keys added since the last purge, step by step -/
theorem step_keys_added (c : LRU) (op : Op) (acc : List Nat) (h : ∀ k ∈ c.keysMRU, k ∈ acc) :
    ∀ k ∈ (step c op).1.keysMRU, k ∈ addedStep acc op := by
  cases op with
  | add k v =>
    simp only [step, LRU.add, addedStep]
    intro x hx
    split at hx
    · simp only [LRU.keysMRU, List.map_cons, List.mem_cons] at hx
      rcases hx with rfl | hx
      · simp
      · exact List.mem_cons_of_mem _ (h x (mem_without.mp hx).1)
    · split at hx
      · have := mem_dropLast (by simpa [LRU.keysMRU, List.map_dropLast] using hx : x ∈ (((k, v) :: c.items).map (·.1)).dropLast)
        simp only [List.map_cons, List.mem_cons] at this
        rcases this with rfl | hm
        · simp
        · exact List.mem_cons_of_mem _ (h x hm)
      · simp only [LRU.keysMRU, List.map_cons, List.mem_cons] at hx
        rcases hx with rfl | hx
        · simp
        · exact List.mem_cons_of_mem _ (h x hx)
  | get k =>
    simp only [step, LRU.get, addedStep]
    intro x hx
    cases hp : c.peek k with
    | none => rw [hp] at hx; exact h x hx
    | some v =>
      rw [hp] at hx
      simp only [LRU.keysMRU, List.map_cons, List.mem_cons] at hx
      rcases hx with rfl | hx
      · exact h _ ((peek_some_iff c _).mp (by rw [hp]; rfl))
      · exact h x (mem_without.mp hx).1
  | contains k => exact h
  | peek k => exact h
  | remove k =>
    simp only [step, LRU.remove, addedStep]
    intro x hx
    split at hx
    · exact h x (mem_without.mp hx).1
    · exact h x hx
  | removeOldest =>
    simp only [step, LRU.removeOldest, addedStep]
    intro x hx
    split at hx
    · exact h x (mem_dropLast (by simpa [LRU.keysMRU, List.map_dropLast] using hx : x ∈ (c.items.map (·.1)).dropLast))
    · exact h x hx
  | purge => simp [step, LRU.purge, LRU.keysMRU]
  | keys => exact h
  | len => exact h
  | resize n =>
    simp only [step, LRU.resize, addedStep]
    intro x hx
    exact h x (List.mem_of_mem_take (by simpa [LRU.keysMRU, List.map_take] using hx))

theorem run_keys_added : ∀ (ops : List Op) (c : LRU) (acc : List Nat), (∀ k ∈ c.keysMRU, k ∈ acc) →
    ∀ k ∈ (run c ops).1.keysMRU, k ∈ ops.foldl addedStep acc
  | [], _, _, h => h
  | op :: ops, c, acc, h => by
    simp only [run, List.foldl_cons]
    exact run_keys_added ops _ _ (step_keys_added c op acc h)

end Fox.LRU
