import FoxModel.Model.LRURing
import FoxModel.Lemmas.LRU
/-
  FoxModel.Lemmas.LRURing — the pointer operations of list.go on a well-formed ring are list operations on the order
  of its entries.
-/
namespace Fox.LRU.Ring
open Fox.LRU

/-- a doubly linked segment: `a → l₀ → l₁ → … → b` through `next`, and back through `prev` -/
def Chain (nx pv : Nat → Option Nat) : Nat → List Nat → Nat → Prop
  | a, [], b => nx a = some b ∧ pv b = some a
  | a, x :: l, b => nx a = some x ∧ pv x = some a ∧ Chain nx pv x l b

theorem upd_same {α} (f : Nat → α) (i : Nat) (v : α) : upd f i v i = v := by simp [upd]
theorem upd_other {α} (f : Nat → α) {i j : Nat} (v : α) (h : j ≠ i) : upd f i v j = f j := by simp [upd, h]

/-- frame: a segment only depends on `next` at `a :: l` and on `prev` at `l ++ [b]` -/
theorem chain_congr {nx pv nx' pv' : Nat → Option Nat} : ∀ {a : Nat} {l : List Nat} {b : Nat},
    (∀ i ∈ a :: l, nx' i = nx i) → (∀ i ∈ l ++ [b], pv' i = pv i) → Chain nx pv a l b → Chain nx' pv' a l b
  | a, [], b, h1, h2, h => by
    simp only [Chain] at h ⊢
    exact ⟨by rw [h1 a (by simp)]; exact h.1, by rw [h2 b (by simp)]; exact h.2⟩
  | a, x :: l, b, h1, h2, h => by
    simp only [Chain] at h ⊢
    refine ⟨by rw [h1 a (by simp)]; exact h.1, by rw [h2 x (by simp)]; exact h.2.1, ?_⟩
    exact chain_congr (fun i hi => h1 i (by simp at hi ⊢; right; exact hi))
      (fun i hi => h2 i (by simp at hi ⊢; right; exact hi)) h.2.2

theorem chain_append {nx pv : Nat → Option Nat} : ∀ {a : Nat} {l1 : List Nat} {x : Nat} {l2 : List Nat} {b : Nat},
    Chain nx pv a (l1 ++ x :: l2) b ↔ Chain nx pv a l1 x ∧ Chain nx pv x l2 b
  | a, [], x, l2, b => by simp [Chain, and_assoc]
  | a, y :: l1, x, l2, b => by
    simp only [List.cons_append, Chain, and_assoc]
    rw [chain_append (a := y) (l1 := l1)]

/-- the node before `b` in the segment -/
def lastOf (a : Nat) (l : List Nat) : Nat := (a :: l).getLast (by simp)
/-- the node after `a` in the segment -/
def headOf (l : List Nat) (b : Nat) : Nat := (l ++ [b]).head (by simp)

theorem lastOf_nil (a : Nat) : lastOf a [] = a := rfl
theorem lastOf_cons (a x : Nat) (l : List Nat) : lastOf a (x :: l) = lastOf x l := by
  simp [lastOf, List.getLast_cons]
theorem lastOf_mem (a : Nat) (l : List Nat) : lastOf a l ∈ a :: l := List.getLast_mem _

theorem chain_last {nx pv : Nat → Option Nat} : ∀ {a : Nat} {l : List Nat} {b : Nat}, Chain nx pv a l b →
    nx (lastOf a l) = some b ∧ pv b = some (lastOf a l)
  | a, [], b, h => h
  | a, x :: l, b, h => by rw [lastOf_cons]; exact chain_last h.2.2

theorem chain_head {nx pv : Nat → Option Nat} {a : Nat} {l : List Nat} {b : Nat} (h : Chain nx pv a l b) :
    nx a = some (headOf l b) ∧ pv (headOf l b) = some a := by
  cases l with
  | nil => exact h
  | cons x l => exact ⟨h.1, h.2.1⟩

/-- redirect the end of a segment: the interior links are kept, the last node now points to `n` and `n` back to it -/
theorem chain_retarget {nx pv nx' pv' : Nat → Option Nat} : ∀ {a : Nat} {l : List Nat} {e n : Nat},
    Chain nx pv a l e → (∀ i ∈ a :: l, i ≠ lastOf a l → nx' i = nx i) → (∀ i ∈ l, pv' i = pv i) →
    nx' (lastOf a l) = some n → pv' n = some (lastOf a l) → (a :: l).Nodup → Chain nx' pv' a l n
  | a, [], e, n, _, _, _, h3, h4, _ => ⟨h3, h4⟩
  | a, x :: l, e, n, h, h1, h2, h3, h4, hnd => by
    rw [lastOf_cons] at h1 h3 h4
    simp only [Chain] at h ⊢
    have hax : a ≠ lastOf x l := by
      intro e0
      have := lastOf_mem x l
      rw [← e0] at this
      simp only [List.nodup_cons] at hnd
      exact hnd.1 this
    refine ⟨by rw [h1 a (by simp) hax]; exact h.1, by rw [h2 x (by simp)]; exact h.2.1, ?_⟩
    refine chain_retarget h.2.2 (fun i hi hne => h1 i (List.mem_cons_of_mem _ hi) hne)
      (fun i hi => h2 i (List.mem_cons_of_mem _ hi)) h3 h4 (List.nodup_cons.mp hnd).2

/-- the ring: a segment from the sentinel back to the sentinel, without repetition -/
structure Rep (r : Ring) (order : List Nat) : Prop where
  chain : Chain r.next r.prev 0 order 0
  nodup : (0 :: order).Nodup
  len : r.len = order.length

/-- `link e at` with `at` the sentinel, for an entry that is not in the ring: `e` becomes the first entry -/
theorem link_front {r : Ring} {order : List Nat} (h : Chain r.next r.prev 0 order 0) (hnd : (0 :: order).Nodup)
    {e : Nat} (he : e ∉ 0 :: order) :
    ∃ r', link r e 0 = some r' ∧ Chain r'.next r'.prev 0 (e :: order) 0 ∧ r'.key = r.key ∧ r'.val = r.val ∧
      r'.len = r.len ∧ r'.items = r.items ∧ r'.cap = r.cap ∧ r'.fresh = r.fresh := by
  have he0 : e ≠ 0 := fun e0 => he (by simp [e0])
  obtain ⟨hh1, hh2⟩ := chain_head h
  have hhm : headOf order 0 ∈ order ++ [0] := List.head_mem _
  have hne : headOf order 0 ≠ e := by
    intro e1; apply he; rw [← e1]
    simp only [List.mem_append, List.mem_singleton] at hhm
    rcases hhm with h1 | h1
    · exact List.mem_cons_of_mem _ h1
    · simp [h1]
  unfold link
  simp only [bind, Option.bind, upd_other _ _ (Ne.symm he0), hh1, upd_same, upd_other _ _ he0]
  refine ⟨_, rfl, ?_, rfl, rfl, rfl, rfl, rfl, rfl⟩
  simp only [Chain]
  refine ⟨upd_same _ _ _, ?_, ?_⟩
  · rw [upd_other _ _ hne.symm, upd_same]
  · cases order with
    | nil =>
      simp only [headOf, List.nil_append, List.head_cons, Chain]
      exact ⟨by rw [upd_other _ _ he0, upd_same], upd_same _ _ _⟩
    | cons x l =>
      simp only [headOf, List.cons_append, List.head_cons, Chain]
      have hx0 : x ≠ 0 := by
        intro e1; simp only [List.nodup_cons] at hnd; exact hnd.1 (by simp [e1])
      have hxe : x ≠ e := fun e1 => he (by simp [e1])
      refine ⟨by rw [upd_other _ _ he0, upd_same], upd_same _ _ _, ?_⟩
      apply chain_congr (nx := r.next) (pv := r.prev) ?_ ?_ h.2.2
      · intro i hi
        have hi0 : i ≠ 0 := by
          intro e1; subst e1
          simp only [List.nodup_cons] at hnd; exact hnd.1 hi
        have hie : i ≠ e := fun e1 => he (by rw [← e1]; exact List.mem_cons_of_mem _ hi)
        rw [upd_other _ _ hi0, upd_other _ _ hie]
      · intro i hi
        have hix : i ≠ x := by
          intro e1; subst e1
          simp only [List.mem_append, List.mem_singleton] at hi
          rcases hi with h1 | h1
          · simp only [List.nodup_cons] at hnd; exact hnd.2.1 h1
          · exact hx0 h1
        have hie : i ≠ e := by
          intro e1; subst e1
          simp only [List.mem_append, List.mem_singleton] at hi
          rcases hi with h1 | h1
          · exact he (by simp [h1])
          · exact he0 h1
        rw [upd_other _ _ hix, upd_other _ _ hie]

/-- `unlink e` for an entry of the ring: its neighbours are joined; `e` keeps its own pointers -/
theorem unlink_mid {r : Ring} {l1 l2 : List Nat} {e : Nat} (h : Chain r.next r.prev 0 (l1 ++ e :: l2) 0)
    (hnd : (0 :: (l1 ++ e :: l2)).Nodup) :
    ∃ r', unlink r e = some r' ∧ Chain r'.next r'.prev 0 (l1 ++ l2) 0 ∧ r'.key = r.key ∧ r'.val = r.val ∧
      r'.len = r.len ∧ r'.items = r.items ∧ r'.cap = r.cap ∧ r'.fresh = r.fresh := by
  obtain ⟨hc1, hc2⟩ := chain_append.mp h
  obtain ⟨hl1, hl2⟩ := chain_last hc1
  obtain ⟨hh1, hh2⟩ := chain_head hc2
  -- disjointness facts from the absence of repetitions
  have hnd' : ((0 :: l1) ++ e :: l2).Nodup := by simpa using hnd
  rw [List.nodup_append] at hnd'
  obtain ⟨hndA, hndB, hdisj⟩ := hnd'
  have hpe : lastOf 0 l1 ≠ e := fun e1 => hdisj _ (lastOf_mem 0 l1) e (by simp) e1
  unfold unlink
  simp only [bind, Option.bind, hl2, hh1, upd_other _ _ hpe.symm]
  refine ⟨_, rfl, ?_, rfl, rfl, rfl, rfl, rfl, rfl⟩
  simp only []
  cases l2 with
  | nil =>
    simp only [headOf, List.nil_append, List.head_cons, List.append_nil] at hh1 hh2 ⊢
    refine chain_retarget hc1 (fun i _ hne => upd_other _ _ hne) ?_ (upd_same _ _ _) (upd_same _ _ _) hndA
    intro i hi
    have : i ≠ 0 := by
      intro e1; subst e1; simp only [List.nodup_cons] at hndA; exact hndA.1 hi
    exact upd_other _ _ this
  | cons x l2' =>
    simp only [headOf, List.cons_append, List.head_cons] at hh1 hh2 ⊢
    have hxB : x ∈ e :: x :: l2' := by simp
    rw [chain_append]
    constructor
    · refine chain_retarget hc1 (fun i _ hne => upd_other _ _ hne) ?_ (upd_same _ _ _) (upd_same _ _ _) hndA
      intro i hi
      exact upd_other _ _ (fun e1 => hdisj i (List.mem_cons_of_mem _ hi) x hxB e1)
    · apply chain_congr (nx := r.next) (pv := r.prev) ?_ ?_ hc2.2.2
      · intro i hi
        have : i ≠ lastOf 0 l1 := fun e1 => hdisj _ (lastOf_mem 0 l1) i (List.mem_cons_of_mem _ hi) e1.symm
        exact upd_other _ _ this
      · intro i hi
        have : i ≠ x := by
          intro e1; subst e1
          simp only [List.mem_append, List.mem_singleton] at hi
          rcases hi with h1 | h1
          · simp only [List.nodup_cons] at hndB; exact hndB.2.1 h1
          · exact hdisj 0 (by simp) i hxB h1.symm
        exact upd_other _ _ this

/-! ### the list operations -/

theorem nodup_mid {l1 l2 : List Nat} {e : Nat} (h : (0 :: (l1 ++ e :: l2)).Nodup) :
    (0 :: (l1 ++ l2)).Nodup ∧ e ∉ 0 :: (l1 ++ l2) := by
  have hp : (0 :: (l1 ++ e :: l2)).Perm (e :: 0 :: (l1 ++ l2)) := by
    have := List.perm_middle (a := e) (l₁ := 0 :: l1) (l₂ := l2)
    simpa using this
  have := hp.nodup_iff.mp h
  rw [List.nodup_cons] at this
  exact ⟨this.2, this.1⟩

theorem nodup_front {order : List Nat} {e : Nat} (h : (0 :: order).Nodup) (he : e ∉ 0 :: order) :
    (0 :: e :: order).Nodup := by
  have hp : (0 :: e :: order).Perm (e :: 0 :: order) := List.Perm.swap _ _ _
  exact hp.nodup_iff.mpr (List.nodup_cons.mpr ⟨he, h⟩)

theorem pushFront_rep {r : Ring} {order : List Nat} (h : Rep r order) (hb : ∀ i ∈ order, i < r.fresh) (h0 : 0 < r.fresh)
    (k v : Nat) :
    ∃ r', pushFront r k v = some (r', r.fresh) ∧ Rep r' (r.fresh :: order) ∧ r'.key = upd r.key r.fresh k ∧
      r'.val = upd r.val r.fresh v ∧ r'.fresh = r.fresh + 1 ∧ r'.items = r.items ∧ r'.cap = r.cap := by
  have he : r.fresh ∉ 0 :: order := by
    intro hm
    rcases List.mem_cons.mp hm with h1 | h1
    · omega
    · have := hb _ h1; omega
  obtain ⟨r', hl, hc, hk, hv, hlen, hit, hcap, hfr⟩ :=
    link_front (r := { r with key := upd r.key r.fresh k, val := upd r.val r.fresh v, fresh := r.fresh + 1 })
      (order := order) h.chain h.nodup he
  refine ⟨{ r' with len := r'.len + 1 }, ?_, ⟨hc, nodup_front h.nodup he, ?_⟩, hk, hv, hfr, hit, hcap⟩
  · unfold pushFront insert
    simp only [bind, Option.bind, hl]
  · show r'.len + 1 = (r.fresh :: order).length
    rw [hlen]; simp [h.len]

theorem remove_rep {r : Ring} {l1 l2 : List Nat} {e : Nat} (h : Rep r (l1 ++ e :: l2)) :
    ∃ r', remove r e = some r' ∧ Rep r' (l1 ++ l2) ∧ r'.key = r.key ∧ r'.val = r.val ∧ r'.items = r.items ∧
      r'.cap = r.cap ∧ r'.fresh = r.fresh := by
  obtain ⟨r1, hu, hc, hk, hv, hlen, hit, hcap, hfr⟩ := unlink_mid h.chain h.nodup
  obtain ⟨hnd, hee⟩ := nodup_mid h.nodup
  refine ⟨{ r1 with next := upd r1.next e none, prev := upd r1.prev e none, len := r1.len - 1 }, ?_, ⟨?_, hnd, ?_⟩,
    hk, hv, hit, hcap, hfr⟩
  · unfold remove; simp only [bind, Option.bind, hu]
  · apply chain_congr (nx := r1.next) (pv := r1.prev) ?_ ?_ hc
    · intro i hi
      have : i ≠ e := fun e1 => hee (by rw [← e1]; exact hi)
      exact upd_other _ _ this
    · intro i hi
      have : i ≠ e := by
        intro e1; apply hee; rw [← e1]
        simp only [List.mem_append, List.mem_singleton] at hi
        rcases hi with h1 | h1
        · exact List.mem_cons_of_mem _ (List.mem_append.mpr h1)
        · simp [h1]
      exact upd_other _ _ this
  · show r1.len - 1 = (l1 ++ l2).length
    rw [hlen, h.len]; simp only [List.length_append, List.length_cons]; omega

theorem split_of_mem {order : List Nat} {e : Nat} (hnd : order.Nodup) (he : e ∈ order) :
    ∃ l1 l2, order = l1 ++ e :: l2 ∧ e ∉ l1 ∧ order.erase e = l1 ++ l2 := by
  obtain ⟨l1, l2, rfl⟩ := List.append_of_mem he
  have h1 : e ∉ l1 := by
    rw [List.nodup_append] at hnd
    exact fun hm => hnd.2.2 e hm e (by simp) rfl
  exact ⟨l1, l2, rfl, h1, by rw [List.erase_append_right _ h1]; simp⟩

theorem moveToFront_rep {r : Ring} {order : List Nat} (h : Rep r order) {e : Nat} (he : e ∈ order) :
    ∃ r', moveToFront r e = some r' ∧ Rep r' (e :: order.erase e) ∧ r'.key = r.key ∧ r'.val = r.val ∧
      r'.items = r.items ∧ r'.cap = r.cap ∧ r'.fresh = r.fresh := by
  have hndo : order.Nodup := (List.nodup_cons.mp h.nodup).2
  obtain ⟨l1, l2, rfl, hel1, her⟩ := split_of_mem hndo he
  have he0 : e ≠ 0 := fun e1 => (List.nodup_cons.mp h.nodup).1 (e1 ▸ he)
  cases l1 with
  | nil =>
    -- already in front
    refine ⟨r, ?_, ?_, rfl, rfl, rfl, rfl, rfl⟩
    · unfold moveToFront
      have := (chain_head h.chain).1
      simp only [headOf, List.nil_append, List.cons_append, List.head_cons] at this
      simp [bind, Option.bind, this]
    · simpa using h
  | cons x l1' =>
    have hxe : x ≠ e := fun e1 => hel1 (by simp [e1])
    obtain ⟨r1, hu, hc, hk, hv, hlen, hit, hcap, hfr⟩ := unlink_mid h.chain h.nodup
    obtain ⟨hnd1, hee⟩ := nodup_mid h.nodup
    obtain ⟨r2, hl, hc2, hk2, hv2, hlen2, hit2, hcap2, hfr2⟩ := link_front hc hnd1 hee
    refine ⟨r2, ?_, ⟨?_, ?_, ?_⟩, hk2.trans hk, hv2.trans hv, hit2.trans hit, hcap2.trans hcap, hfr2.trans hfr⟩
    · unfold moveToFront move
      have := (chain_head h.chain).1
      simp only [headOf, List.cons_append, List.head_cons] at this
      simp only [bind, Option.bind, this, hxe, if_false, he0, hu, hl]
    · rw [her]; exact hc2
    · rw [her]; exact nodup_front hnd1 hee
    · rw [hlen2, hlen, h.len, her]; simp; omega

theorem back_rep {r : Ring} {order : List Nat} (h : Rep r order) : back r = some order.getLast? := by
  unfold back
  by_cases h0 : r.len = 0
  · have : order = [] := List.eq_nil_of_length_eq_zero (h.len ▸ h0)
    subst this; simp [h0]
  · simp only [h0, if_false]
    have := (chain_last h.chain).2
    rw [this]
    have hne : order ≠ [] := fun e1 => h0 (by rw [h.len, e1]; rfl)
    simp only [Option.map_some, lastOf, Option.some.injEq]
    rw [List.getLast_cons hne, List.getLast?_eq_some_getLast hne]

/-! ### `LRU.Add` / `LRU.Get` over the ring refine the recency-list model -/

structure Inv (r : Ring) (order : List Nat) : Prop where
  rep : Rep r order
  bound : ∀ i ∈ order, i < r.fresh
  pos : 0 < r.fresh
  sound : ∀ p ∈ r.items, p.2 ∈ order ∧ r.key p.2 = p.1
  complete : ∀ i ∈ order, (r.key i, i) ∈ r.items
  keysNodup : (r.items.map (·.1)).Nodup

/-- what the ring holds, as a cache of the list model -/
def absOf (r : Ring) (order : List Nat) : LRU := ⟨r.cap, order.map fun i => (r.key i, r.val i)⟩

theorem pair_eq_of_fst {items : List (Nat × Nat)} (h : (items.map (·.1)).Nodup) :
    ∀ {p q : Nat × Nat}, p ∈ items → q ∈ items → p.1 = q.1 → p = q := by
  induction items with
  | nil => intro p q hp; simp at hp
  | cons a l ih =>
    intro p q hp hq hpq
    simp only [List.map_cons, List.nodup_cons, List.mem_map, not_exists, not_and] at h
    rcases List.mem_cons.mp hp with rfl | hp' <;> rcases List.mem_cons.mp hq with rfl | hq'
    · rfl
    · exact absurd hpq.symm (h.1 q hq')
    · exact absurd hpq (h.1 p hp')
    · exact ih h.2 hp' hq' hpq

theorem Inv.key_inj {r : Ring} {order : List Nat} (h : Inv r order) {i j : Nat} (hi : i ∈ order) (hj : j ∈ order)
    (hk : r.key i = r.key j) : i = j := by
  have := pair_eq_of_fst h.keysNodup (h.complete i hi) (h.complete j hj) hk
  exact (Prod.mk.injEq _ _ _ _ ▸ this).2

theorem lookup_some {r : Ring} {order : List Nat} (h : Inv r order) {k e : Nat} (hl : lookup r.items k = some e) :
    e ∈ order ∧ r.key e = k := by
  unfold lookup at hl
  cases hf : r.items.find? (·.1 == k) with
  | none => rw [hf] at hl; simp at hl
  | some p =>
    rw [hf] at hl
    simp only [Option.map_some, Option.some.injEq] at hl
    have hp := List.mem_of_find?_eq_some hf
    have hk := List.find?_some hf
    simp only [beq_iff_eq] at hk
    obtain ⟨h1, h2⟩ := h.sound p hp
    rw [← hl]; exact ⟨h1, h2.trans hk⟩

theorem lookup_none {r : Ring} {order : List Nat} (h : Inv r order) {k : Nat} (hl : lookup r.items k = none) :
    (∀ i ∈ order, r.key i ≠ k) ∧ ∀ p ∈ r.items, p.1 ≠ k := by
  unfold lookup at hl
  simp only [Option.map_eq_none_iff, List.find?_eq_none, beq_iff_eq] at hl
  exact ⟨fun i hi e1 => hl _ (h.complete i hi) e1, hl⟩

theorem abs_contains {r : Ring} {order : List Nat} (k : Nat) :
    (absOf r order).contains k = true ↔ ∃ i ∈ order, r.key i = k := by
  simp [absOf, LRU.contains, LRU.keysMRU]

theorem abs_peek {r : Ring} {order : List Nat} (h : Inv r order) {e : Nat} (he : e ∈ order) :
    (absOf r order).peek (r.key e) = some (r.val e) := by
  unfold LRU.peek absOf
  simp only
  have : ∀ (l : List Nat), (∀ i ∈ l, i ∈ order) → e ∈ l →
      ((l.map fun i => (r.key i, r.val i)).find? (·.1 == r.key e)).map (·.2) = some (r.val e) := by
    intro l
    induction l with
    | nil => intro _ hm; simp at hm
    | cons a l ih =>
      intro hsub hm
      simp only [List.map_cons, List.find?]
      by_cases ha : r.key a = r.key e
      · have : a = e := h.key_inj (hsub a (by simp)) he ha
        subst this; simp
      · have hb : (r.key a == r.key e) = false := by simp [ha]
        simp only [hb]
        rcases List.mem_cons.mp hm with rfl | hm'
        · exact absurd rfl ha
        · exact ih (fun i hi => hsub i (by simp [hi])) hm'
  exact this order (fun _ hi => hi) he

theorem abs_peek_none {r : Ring} {order : List Nat} {k : Nat} (h : ∀ i ∈ order, r.key i ≠ k) :
    (absOf r order).peek k = none := by
  unfold LRU.peek absOf
  simp only [Option.map_eq_none_iff, List.find?_eq_none, List.mem_map, beq_iff_eq]
  rintro p ⟨i, hi, rfl⟩
  exact h i hi

theorem abs_without {r : Ring} {order : List Nat} (h : Inv r order) {e : Nat} (he : e ∈ order) :
    without (absOf r order).items (r.key e) = (order.erase e).map fun i => (r.key i, r.val i) := by
  have hnd : order.Nodup := (List.nodup_cons.mp h.rep.nodup).2
  rw [hnd.erase_eq_filter]
  unfold without absOf
  simp only [List.filter_map]
  congr 1
  apply List.filter_congr
  intro i hi
  by_cases hie : i = e
  · subst hie; simp
  · have : r.key i ≠ r.key e := fun e1 => hie (h.key_inj hi he e1)
    have h1 : (r.key i != r.key e) = true := by simp [this]
    have h2 : (i != e) = true := by simp [hie]
    show (r.key i != r.key e) = (i != e)
    rw [h1, h2]

theorem inv_perm {r r' : Ring} {order order' : List Nat} (h : Inv r order) (hrep : Rep r' order')
    (hp : ∀ i, i ∈ order' ↔ i ∈ order) (hk : r'.key = r.key) (hit : r'.items = r.items) (hfr : r'.fresh = r.fresh) :
    Inv r' order' :=
  { rep := hrep
    bound := fun i hi => by rw [hfr]; exact h.bound i ((hp i).mp hi)
    pos := by rw [hfr]; exact h.pos
    sound := fun p hp' => by
      rw [hit] at hp'; rw [hk]
      exact ⟨(hp _).mpr (h.sound p hp').1, (h.sound p hp').2⟩
    complete := fun i hi => by rw [hit, hk]; exact h.complete i ((hp i).mp hi)
    keysNodup := by rw [hit]; exact h.keysNodup }

theorem mem_front_erase {order : List Nat} {e : Nat} (he : e ∈ order) (i : Nat) :
    i ∈ e :: order.erase e ↔ i ∈ order := (List.perm_cons_erase he).symm.mem_iff

/-- **`LRU.Get` over the ring = `get` of the list model** -/
theorem get_refines {r : Ring} {order : List Nat} (h : Inv r order) (k : Nat) :
    ∃ r' order', get r k = some (r', ((absOf r order).get k).2) ∧ Inv r' order' ∧
      absOf r' order' = ((absOf r order).get k).1 := by
  unfold get
  cases hl : lookup r.items k with
  | none =>
    obtain ⟨h1, _⟩ := lookup_none h hl
    have hp := abs_peek_none (r := r) h1
    refine ⟨r, order, ?_, h, ?_⟩ <;> simp [LRU.get, hp]
  | some e =>
    obtain ⟨he, hk⟩ := lookup_some h hl
    obtain ⟨r', hm, hrep, hkey, hval, hit, hcap, hfr⟩ := moveToFront_rep h.rep he
    have hp := abs_peek h he
    rw [hk] at hp
    refine ⟨r', e :: order.erase e, ?_, inv_perm h hrep (mem_front_erase he) hkey hit hfr, ?_⟩
    · simp only [bind, Option.bind, hm, LRU.get, hp, hval]
    · have hw := abs_without h he
      rw [hk] at hw
      unfold LRU.get
      rw [hp]
      simp only []
      rw [hw]
      simp [absOf, hcap, hkey, hval, hk]

/-- `removeOldest` on a non-empty ring: `Back()` is the last entry; unlinking it and deleting its key drops the last
    entry of the list model -/
theorem evict_last {r : Ring} {full : List Nat} (h : Inv r full) (hne : full ≠ []) :
    ∃ r', back r = some (some (full.getLast hne)) ∧ removeElement r (full.getLast hne) = some r' ∧
      Inv r' full.dropLast ∧ absOf r' full.dropLast = ⟨r.cap, (absOf r full).items.dropLast⟩ := by
  have hsplit : full = full.dropLast ++ [full.getLast hne] := (List.dropLast_concat_getLast hne).symm
  generalize hb : full.getLast hne = b at hsplit
  generalize hd : full.dropLast = dl at hsplit
  have hrep : Rep r (dl ++ b :: []) := by rw [← hsplit]; exact h.rep
  obtain ⟨r1, hrm, hrep1, hk, hv, hit, hcap, hfr⟩ := remove_rep hrep
  simp only [List.append_nil] at hrep1
  have hnd : full.Nodup := (List.nodup_cons.mp h.rep.nodup).2
  have hbn : b ∉ dl := by
    rw [hsplit, List.nodup_append] at hnd
    exact fun hm => hnd.2.2 b hm b (by simp) rfl
  have hbm : b ∈ full := by rw [hsplit]; simp
  have hdm : ∀ i ∈ dl, i ∈ full := fun i hi => by rw [hsplit]; simp [hi]
  refine ⟨{ r1 with items := r1.items.filter (·.1 != r1.key b) }, ?_, ?_, ?_, ?_⟩
  · rw [back_rep h.rep, List.getLast?_eq_some_getLast hne, hb]
  · unfold removeElement; simp only [bind, Option.bind, hrm]
  · refine { rep := ⟨hrep1.chain, hrep1.nodup, hrep1.len⟩, bound := ?_, pos := ?_, sound := ?_, complete := ?_,
             keysNodup := ?_ }
    · intro i hi; show i < r1.fresh; rw [hfr]; exact h.bound i (hdm i hi)
    · show 0 < r1.fresh; rw [hfr]; exact h.pos
    · intro p hp
      simp only [hit, hk, List.mem_filter, bne_iff_ne, ne_eq] at hp ⊢
      obtain ⟨h1, h2⟩ := h.sound p hp.1
      refine ⟨?_, h2⟩
      rw [hsplit] at h1
      simp only [List.mem_append, List.mem_singleton] at h1
      rcases h1 with h1 | h1
      · exact h1
      · exact absurd (by rw [← h1, h2]) hp.2
    · intro i hi
      simp only [hit, hk, List.mem_filter, bne_iff_ne, ne_eq]
      refine ⟨h.complete i (hdm i hi), fun e1 => hbn ?_⟩
      rw [← h.key_inj (hdm i hi) hbm e1]; exact hi
    · show ((r1.items.filter (·.1 != r1.key b)).map (·.1)).Nodup
      rw [hit]
      exact h.keysNodup.sublist (List.Sublist.map _ List.filter_sublist)
  · simp only [absOf, hcap, hk, hv]
    rw [← List.map_dropLast, hd]

/-- **`LRU.Add` over the ring = `add` of the list model** (moving an existing entry to the front, or pushing a new one
    and evicting the oldest beyond the capacity) -/
theorem add_refines {r : Ring} {order : List Nat} (h : Inv r order) (k v : Nat) :
    ∃ r' order', add r k v = some (r', ((absOf r order).add k v).2) ∧ Inv r' order' ∧
      absOf r' order' = ((absOf r order).add k v).1 := by
  have hndo : order.Nodup := (List.nodup_cons.mp h.rep.nodup).2
  unfold add
  cases hl : lookup r.items k with
  | some e =>
    obtain ⟨he, hk⟩ := lookup_some h hl
    obtain ⟨r1, hm, hrep, hkey, hval, hit, hcap, hfr⟩ := moveToFront_rep h.rep he
    have hc : (absOf r order).contains k = true := (abs_contains k).mpr ⟨e, he, hk⟩
    have hinv1 : Inv r1 (e :: order.erase e) := inv_perm h hrep (mem_front_erase he) hkey hit hfr
    refine ⟨{ r1 with val := upd r1.val e v }, e :: order.erase e, ?_, ?_, ?_⟩
    · simp only [bind, Option.bind, hm, LRU.add, hc, if_true]
    · exact { rep := ⟨hrep.chain, hrep.nodup, hrep.len⟩, bound := hinv1.bound, pos := hinv1.pos, sound := hinv1.sound,
              complete := hinv1.complete, keysNodup := hinv1.keysNodup }
    · have hw := abs_without h he
      rw [hk] at hw
      unfold LRU.add
      rw [hc]
      simp only [if_true]
      rw [hw]
      simp only [absOf, hcap, hkey, hval, List.map_cons, upd_same, hk, LRU.mk.injEq, List.cons.injEq, true_and]
      apply List.map_congr_left
      intro i hi
      have : i ≠ e := fun e1 => by rw [e1] at hi; exact (hndo.mem_erase_iff.mp hi).1 rfl
      rw [upd_other _ _ this]
  | none =>
    obtain ⟨hno, hnop⟩ := lookup_none h hl
    have hc : (absOf r order).contains k = false := by
      cases hcc : (absOf r order).contains k with
      | false => rfl
      | true => obtain ⟨i, hi, hki⟩ := (abs_contains k).mp hcc; exact absurd hki (hno i hi)
    obtain ⟨r1, hpf, hrep1, hkey1, hval1, hfr1, hit1, hcap1⟩ := pushFront_rep h.rep h.bound h.pos k v
    have hfresh : ∀ i ∈ order, i ≠ r.fresh := fun i hi e1 => by have := h.bound i hi; omega
    -- the ring after the push, with the new key in the map
    have hinv2 : Inv { r1 with items := (k, r.fresh) :: r1.items } (r.fresh :: order) :=
      { rep := ⟨hrep1.chain, hrep1.nodup, hrep1.len⟩
        bound := by
          intro i hi; show i < r1.fresh; rw [hfr1]
          rcases List.mem_cons.mp hi with rfl | hi'
          · omega
          · have := h.bound i hi'; omega
        pos := by show 0 < r1.fresh; rw [hfr1]; omega
        sound := by
          intro p hp
          show p.2 ∈ r.fresh :: order ∧ r1.key p.2 = p.1
          rw [hkey1]
          rcases List.mem_cons.mp hp with rfl | hp'
          · exact ⟨by simp, upd_same _ _ _⟩
          · rw [hit1] at hp'
            obtain ⟨h1, h2⟩ := h.sound p hp'
            exact ⟨List.mem_cons_of_mem _ h1, by rw [upd_other _ _ (hfresh _ h1)]; exact h2⟩
        complete := by
          intro i hi
          show (r1.key i, i) ∈ (k, r.fresh) :: r1.items
          rw [hkey1, hit1]
          rcases List.mem_cons.mp hi with rfl | hi'
          · rw [upd_same]; simp
          · rw [upd_other _ _ (hfresh _ hi')]; exact List.mem_cons_of_mem _ (h.complete i hi')
        keysNodup := by
          show (((k, r.fresh) :: r1.items).map (·.1)).Nodup
          rw [hit1]
          simp only [List.map_cons, List.nodup_cons, List.mem_map, not_exists, not_and]
          exact ⟨fun p hp e1 => hnop p hp e1, h.keysNodup⟩ }
    have habs2 : absOf { r1 with items := (k, r.fresh) :: r1.items } (r.fresh :: order) =
        ⟨r.cap, (k, v) :: (absOf r order).items⟩ := by
      simp only [absOf, hcap1, hkey1, hval1, List.map_cons, upd_same, LRU.mk.injEq, List.cons.injEq, true_and]
      apply List.map_congr_left
      intro i hi
      rw [upd_other _ _ (hfresh i hi), upd_other _ _ (hfresh i hi)]
    have hlen2 : r1.len = order.length + 1 := by rw [hrep1.len]; simp
    simp only [bind, Option.bind, hpf]
    unfold LRU.add
    rw [hc]
    simp only [Bool.false_eq_true, if_false]
    have hcond : (r1.len > r1.cap) ↔ (((k, v) :: (absOf r order).items).length > (absOf r order).cap) := by
      simp only [hlen2, hcap1, absOf, List.length_cons, List.length_map]
    by_cases hgt : r1.len > r1.cap
    · have hgt' := hcond.mp hgt
      simp only [hgt, if_true, hgt']
      obtain ⟨r3, hb, hre, hinv3, habs3⟩ := evict_last hinv2 (by simp)
      refine ⟨r3, _, ?_, hinv3, ?_⟩
      · rw [hb]; simp only [hre, Option.map_some]
      · rw [habs3, habs2]; simp [absOf, hcap1]
    · have hgt' : ¬ (((k, v) :: (absOf r order).items).length > (absOf r order).cap) := fun x => hgt (hcond.mpr x)
      simp only [hgt, if_false, hgt']
      exact ⟨_, _, rfl, hinv2, habs2⟩

theorem inv_new (cap : Nat) : Inv (new cap) [] :=
  { rep := ⟨by simp [Chain, new, upd], by simp, rfl⟩
    bound := by simp
    pos := by simp [new]
    sound := by simp [new]
    complete := by simp
    keysNodup := by simp [new] }

theorem abs_new (cap : Nat) : absOf (new cap) [] = empty cap := rfl

theorem run_refines : ∀ (ops : List TOp) {r : Ring} {order : List Nat}, Inv r order →
    ∃ r' order', run r ops = some (r', (LRU.run (absOf r order) (ops.map TOp.toOp)).2) ∧ Inv r' order' ∧
      absOf r' order' = (LRU.run (absOf r order) (ops.map TOp.toOp)).1
  | [], r, order, h => ⟨r, order, rfl, h, rfl⟩
  | op :: ops, r, order, h => by
    cases op with
    | add k v =>
      obtain ⟨r1, o1, h1, hinv1, habs1⟩ := add_refines h k v
      obtain ⟨r2, o2, h2, hinv2, habs2⟩ := run_refines ops hinv1
      refine ⟨r2, o2, ?_, hinv2, ?_⟩
      · simp only [run, step, bind, Option.bind, h1, Option.map_some, h2, List.map_cons, TOp.toOp, LRU.run, LRU.step,
          habs1]
      · simp only [List.map_cons, TOp.toOp, LRU.run, LRU.step]; rw [habs2, habs1]
    | get k =>
      obtain ⟨r1, o1, h1, hinv1, habs1⟩ := get_refines h k
      obtain ⟨r2, o2, h2, hinv2, habs2⟩ := run_refines ops hinv1
      refine ⟨r2, o2, ?_, hinv2, ?_⟩
      · simp only [run, step, bind, Option.bind, h1, Option.map_some, h2, List.map_cons, TOp.toOp, LRU.run, LRU.step,
          habs1]
      · simp only [List.map_cons, TOp.toOp, LRU.run, LRU.step]; rw [habs2, habs1]

end Fox.LRU.Ring
