import FoxModel.Lemmas.HostStage
/-
  `roots.lookup` = the staged routing specification on the suffix set stored below the method root.
-/
namespace Fox.Spec
open Fox

/-- `Spec.route` on a suffix set: hostname patterns are the members that do not start with a literal '/' -/
def routeS (S : SufSet) (hostPort path : Bytes) : Option Found :=
  let H := S.filter (fun sr => !headSlash sr)
  let P := S.filter headSlash
  let h := stripHostPort hostPort
  if H = [] ∨ h = [] then pathOnlyS P path []
  else (hostOnlyS H h path []).orElse fun _ => pathOnlyS P path []

theorem filter_headSlash_endsHere (S : SufSet) (ps : Binds) : specAll (S.filter headSlash) [] ps = [] := by
  unfold specAll
  unfold endsHere
  rw [List.filterMap_eq_nil_iff]
  intro sr hsr
  have := (List.mem_filter.mp hsr).2
  unfold headSlash at this
  cases h1 : sr.1 with
  | nil => rw [h1] at this; cases this
  | cons t s' => simp

theorem specHost_nil_path (S : SufSet) (host : Bytes) (ps : Binds) : specHost S host [] ps = [] := by
  fun_induction specHost S host [] ps with
  | case1 S ps => exact filter_headSlash_endsHere S ps
  | case2 S ps b rest ih1 ih2 =>
    rw [ih1, List.nil_append]
    split
    · rfl
    · rename_i hne
      rw [List.flatMap_eq_nil_iff]
      intro nm _
      exact ih2 hne nm

theorem filterMap_filter_of {α β} (f : α → Option β) (p : α → Bool) (l : List α)
    (h : ∀ x, p x = false → f x = none) : (l.filter p).filterMap f = l.filterMap f := by
  induction l with
  | nil => rfl
  | cons x xs ih =>
    simp only [List.filter_cons, List.filterMap_cons]
    by_cases hp : p x = true
    · simp only [hp, if_true, List.filterMap_cons, ih]
    · have hp' : p x = false := by simpa using hp
      simp only [hp', Bool.false_eq_true, if_false, h x hp', ih]

/-- for a non-empty host without '/', members that start with '/' (path-only patterns) play no role -/
theorem specHost_drop_slash (S : SufSet) (b : UInt8) (rest path : Bytes) (ps : Binds) (hb : b ≠ SLASH) :
    specHost S (b :: rest) path ps = specHost (S.filter (fun sr => !headSlash sr)) (b :: rest) path ps := by
  rw [specHost_cons, specHost_cons]
  have hhead : ∀ sr : List Tok × Route, (!headSlash sr) = false → ∃ s', sr.1 = Tok.lit SLASH :: s' := by
    intro sr h
    have h' : headSlash sr = true := by simpa using h
    unfold headSlash at h'
    cases hx : sr.1 with
    | nil => rw [hx] at h'; cases h'
    | cons t s' =>
      rw [hx] at h'
      cases t with
      | lit c => simp at h'; exact ⟨s', by rw [h']⟩
      | param n => cases h'
      | catchAll n => cases h'
  have h1 : advLit b (S.filter (fun sr => !headSlash sr)) = advLit b S := by
    unfold advLit
    apply filterMap_filter_of
    intro sr h
    obtain ⟨s', hs⟩ := hhead sr h
    rw [hs]
    have : ¬ (SLASH = b) := fun h => hb h.symm
    simp [this]
  have h2 : advParam (S.filter (fun sr => !headSlash sr)) = advParam S := by
    unfold advParam
    apply filterMap_filter_of
    intro sr h
    obtain ⟨s', hs⟩ := hhead sr h
    rw [hs]
  rw [h1, hostParamPart_congr h2]

end Fox.Spec

namespace Fox.Model
open Fox Fox.Spec

theorem filter_flt_comm' (p : Route → Bool) (q : List Tok × Route → Bool) (S : SufSet) :
    (flt p S).filter q = flt p (S.filter q) := flt_filter_comm p q S

/-- **the hostname stage equals the specification** -/
theorem hostStage_eq_spec {root : Node} (hw : wfKids root.children = true) (hd : nodupB (kindsOf root.children) = true)
    (hh : hostOkKids root.children = true) (hL : LastOK (sufsKids root.children))
    (b : UInt8) (rest path : Bytes) (hs : SLASH ∉ (b :: rest)) (hn : noDbl path = true) :
    pick (hostWalk root [] (b :: rest) path []) =
      toResult (hostOnlyS ((sufsKids root.children).filter (fun sr => !headSlash sr)) (b :: rest) path []) := by
  have hb : b ≠ SLASH := by intro h; apply hs; simp [h]
  have hLr : LastOK (sufsFrom root []) := by
    rw [sufsFrom_eq]
    intro sr hsr hne
    rw [List.mem_append] at hsr
    rcases hsr with h | h
    · cases hr : root.route with
      | none => simp [routeSuf, hr] at h
      | some r => simp only [routeSuf, hr, List.mem_singleton] at h; rw [h] at hne; exact absurd rfl hne
    · simp only [List.nil_append, List.mem_map] at h
      obtain ⟨x, hx, rfl⟩ := h
      exact hL x hx hne
  rw [hostLookup_refines hw hd hh (b :: rest) path hs]
  unfold hostOnlyS
  rw [← specHost_drop_slash _ b rest path [] hb]
  cases hS : specHost (sufsKids root.children) (b :: rest) path [] with
  | cons x xs => obtain ⟨r, ps'⟩ := x; rfl
  | nil =>
    have hfirst : first ([] : Res) false = none := rfl
    rw [hfirst]
    simp only [Option.orElse]
    have hD : directs (hostWalk root [] (b :: rest) path []) = [] := by
      rw [(hostWalk_refines_all path).1 root [] (b :: rest) [] hw hd hh (by simp [noSlashTok]) hs,
        specHost_sufsFrom_nil_cons]
      exact hS
    have hsim := (host_tsr_all path hn).1 root [] (b :: rest) [] hw hd hh (by simp [noSlashTok]) hs hLr hD
    rw [specHost_sufsFrom_nil_cons_f] at hsim
    rw [firstTsr_eq']
    cases hadj : adjust path with
    | none =>
      have ht : adjTarget path = ([], false) := by simp [adjTarget, hadj]
      rw [ht, specHost_nil_path] at hsim
      have : tsrs (hostWalk root [] (b :: rest) path []) = [] := hsim.1.mpr rfl
      rw [this]; rfl
    | some x =>
      obtain ⟨p', added⟩ := x
      have ht : adjTarget path = (p', added) := by simp [adjTarget, hadj]
      rw [ht] at hsim
      simp only
      rw [sim_first hsim]
      congr 2
      rw [specHost_drop_slash _ b rest p' [] hb, flt_pOf]
      cases added
      · rfl
      · simp only [if_true]
        rw [filter_flt_comm']

theorem pathOnlyS_nil (path ps) : pathOnlyS [] path ps = none := by
  unfold pathOnlyS
  simp only [specAll_nil, first, Option.orElse]
  cases adjust path with
  | none => rfl
  | some x => obtain ⟨p', added⟩ := x; cases added <;> simp [specAll_nil, flt]

theorem hostOnlyS_nil (host path ps) : hostOnlyS [] host path ps = none := by
  unfold hostOnlyS
  simp only [specHost_nil, first, Option.orElse]
  cases adjust path with
  | none => rfl
  | some x => obtain ⟨p', added⟩ := x; cases added <;> simp [specHost_nil, flt]

/-- the path stage of `roots.lookup` in terms of the suffix set below the root -/
theorem byPath_eq_spec {cs : List Node} (hw : wfKids cs = true) (hd : nodupB (kindsOf cs) = true)
    (hL : LastOK (sufsKids cs)) (path : Bytes) (hn : noDbl path = true) :
    (match cs.find? (fun c => startsWithSlash c.key) with
      | some c => pick (pathEvents c path [])
      | none => Result.none) = toResult (pathOnlyS ((sufsKids cs).filter headSlash) path []) := by
  rw [filter_headSlash_kids hw hd]
  cases hf : cs.find? (fun c => startsWithSlash c.key) with
  | none => simp only [pathOnlyS_nil]; rfl
  | some c =>
    have hmem := List.mem_of_find?_eq_some hf
    simp only
    exact pathStage_eq_spec (mem_wfKids hw hmem) (hL.child hmem) path [] hn

/-- **`roots.lookup` equals the staged routing specification** evaluated on the set of pattern suffixes stored below the
    method root — for every tree satisfying the representation invariants, every Host (port and trailing dot stripped as
    `net.SplitHostPort` does, containing no '/') and every path without empty segment: hostname routes first (best direct
    match, else best slash-adjusted match), path-only routes exactly when that yields nothing (or no hostname route is
    registered, or the host is empty); direct before slash-adjusted; slash removed, or added against a literal '/'. -/
theorem lookup_eq_spec (rs : Roots) (m hostPort path : Bytes) (root : Node)
    (hm : methodRoot rs m = some root) (hroot : wfRoot root = true) (hok : hostOkKids root.children = true)
    (hL : LastOK (sufsKids root.children)) (hn : noDbl path = true) (hs : SLASH ∉ stripHostPort hostPort) :
    lookup rs m hostPort path = toResult (routeS (sufsKids root.children) hostPort path) := by
  have hw : wfKids root.children = true := by
    simp only [wfRoot, Bool.and_eq_true] at hroot; exact hroot.2
  have hd : nodupB (kindsOf root.children) = true := by
    simp only [wfRoot, Bool.and_eq_true] at hroot; exact hroot.1.2
  unfold lookup routeS
  rw [hm]
  simp only
  cases hcs : root.children with
  | nil =>
    simp [pathOnlyS_nil, toResult]
  | cons c0 cs0 =>
    rw [hcs] at hw hd hL hok
    simp only
    -- the path stage, once and for all
    have hbp : ∃ X : Result,
        X = toResult (pathOnlyS ((sufsKids (c0 :: cs0)).filter headSlash) path []) ∧
        (match List.find? (fun c => startsWithSlash c.key) (c0 :: cs0) with
          | some c => pick (pathEvents c path [])
          | none => Result.none) = X := ⟨_, rfl, byPath_eq_spec hw hd hL path hn⟩
    obtain ⟨X, hX, hbpX⟩ := hbp
    cases hf : List.find? (fun c => startsWithSlash c.key) (c0 :: cs0) with
    | none =>
      rw [hf] at hbpX
      simp only at hbpX
      simp only [hf, Option.isSome_none, Bool.and_false, Bool.false_eq_true, if_false]
      subst hX
      cases hh : stripHostPort hostPort with
      | nil =>
        have e : (([] : Bytes) == []) = true := rfl
        simp only [e, if_true, or_true]
        exact hbpX
      | cons b rest =>
        rw [hh] at hs
        have hne : ((b :: rest) == ([] : Bytes)) = false := by simp
        simp only [hne, Bool.false_eq_true, if_false, reduceCtorEq, or_false]
        have hhost := hostStage_eq_spec (root := root) (by rw [hcs]; exact hw) (by rw [hcs]; exact hd)
          (by rw [hcs]; exact hok) (by rw [hcs]; exact hL) b rest path hs hn
        rw [hcs] at hhost
        rw [hhost]
        by_cases hH : (sufsKids (c0 :: cs0)).filter (fun sr => !headSlash sr) = []
        · simp only [hH, if_true, hostOnlyS_nil]
          exact hbpX
        · simp only [hH, if_false]
          cases hostOnlyS ((sufsKids (c0 :: cs0)).filter (fun sr => !headSlash sr)) (b :: rest) path [] with
          | none => simp only [Option.orElse]; exact hbpX
          | some f => rfl
    | some c =>
      rw [hf] at hbpX
      simp only at hbpX
      simp only [hf, Option.isSome_some, Bool.and_true, hbpX]
      subst hX
      by_cases hcond : ((c0 :: cs0).length == 1) = true
      · simp only [hcond, if_true]
        have hcs0 : cs0 = [] := by
          cases cs0 with
          | nil => rfl
          | cons x xs => simp at hcond
        subst hcs0
        have hc0 : c = c0 ∧ startsWithSlash c0.key = true := by
          simp only [List.find?_cons] at hf
          cases hx : startsWithSlash c0.key with
          | true => simp [hx] at hf; exact ⟨hf.symm, rfl⟩
          | false => simp [hx] at hf
        have hH : (sufsKids [c0]).filter (fun sr => !headSlash sr) = [] := by
          rw [List.filter_eq_nil_iff]
          intro sr hsr
          have hwc := (wfKids_cons.mp hw).1
          obtain ⟨t, k', hk, hh⟩ := wfNode_head hwc
          have ht : t = Tok.lit SLASH := by
            have := kindOf_of_startsWithSlash hc0.2
            rw [hk] at this
            exact kindOf_cons_static.mp this
          subst ht
          simp only [sufsKids_cons, sufsKids_nil, List.append_nil] at hsr
          obtain ⟨s', hs'⟩ := hh sr hsr
          simp [headSlash, hs']
        rw [if_pos (Or.inl hH)]
      · simp only [hcond, Bool.false_eq_true, if_false]
        cases hh : stripHostPort hostPort with
        | nil =>
          have e : (([] : Bytes) == []) = true := rfl
          simp only [e, if_true, or_true]
        | cons b rest =>
          rw [hh] at hs
          have hne : ((b :: rest) == ([] : Bytes)) = false := by simp
          simp only [hne, Bool.false_eq_true, if_false, reduceCtorEq, or_false]
          have hhost := hostStage_eq_spec (root := root) (by rw [hcs]; exact hw) (by rw [hcs]; exact hd)
            (by rw [hcs]; exact hok) (by rw [hcs]; exact hL) b rest path hs hn
          rw [hcs] at hhost
          rw [hhost]
          by_cases hH : (sufsKids (c0 :: cs0)).filter (fun sr => !headSlash sr) = []
          · simp only [hH, if_true, hostOnlyS_nil]
            rfl
          · simp only [hH, if_false]
            cases hostOnlyS ((sufsKids (c0 :: cs0)).filter (fun sr => !headSlash sr)) (b :: rest) path [] with
            | none => rfl
            | some f => rfl

end Fox.Model

namespace Fox.Model
open Fox Fox.Spec

/-- "stored suffixes are the full patterns" gives the `LastOK` hypothesis of the trailing-slash refinement -/
theorem lastOK_of_patOk {root : Node}
    (h : ((sufsKids root.children).all fun sr =>
      sr.1 == sr.2.pattern && sr.2.hostToks == sr.2.pattern.findIdx (· == Tok.lit SLASH)) = true) :
    LastOK (sufsKids root.children) := by
  intro sr hsr _
  have := List.all_eq_true.mp h sr hsr
  simp only [Bool.and_eq_true, beq_iff_eq] at this
  rw [this.1]

theorem patOkRoots_root {rs : Roots} {m : Bytes} {root : Node} (h : patOkRoots rs = true)
    (hm : methodRoot rs m = some root) :
    ((sufsKids root.children).all fun sr =>
      sr.1 == sr.2.pattern && sr.2.hostToks == sr.2.pattern.findIdx (· == Tok.lit SLASH)) = true := by
  unfold methodRoot at hm
  cases hf : rs.find? (fun x => x.1 == m) with
  | none => rw [hf] at hm; cases hm
  | some x =>
    rw [hf] at hm
    simp only [Option.map_some, Option.some.injEq] at hm
    subst hm
    exact List.all_eq_true.mp h x (List.mem_of_find?_eq_some hf)

theorem wfRoots_root {rs : Roots} {m : Bytes} {root : Node} (h : wfRoots rs = true)
    (hm : methodRoot rs m = some root) : wfRoot root = true := by
  unfold methodRoot at hm
  cases hf : rs.find? (fun x => x.1 == m) with
  | none => rw [hf] at hm; cases hm
  | some x =>
    rw [hf] at hm
    simp only [Option.map_some, Option.some.injEq] at hm
    subst hm
    simp only [wfRoots, Bool.and_eq_true] at h
    exact List.all_eq_true.mp h.1 x (List.mem_of_find?_eq_some hf)

theorem hostOkRoots_root {rs : Roots} {m : Bytes} {root : Node} (h : hostOkRoots rs = true)
    (hm : methodRoot rs m = some root) : hostOkKids root.children = true := by
  unfold methodRoot at hm
  cases hf : rs.find? (fun x => x.1 == m) with
  | none => rw [hf] at hm; cases hm
  | some x =>
    rw [hf] at hm
    simp only [Option.map_some, Option.some.injEq] at hm
    subst hm
    exact List.all_eq_true.mp h x (List.mem_of_find?_eq_some hf)

/-- the suffix set of the routes registered for a method (empty if the method has no root) -/
def sufsOfMethod (rs : Roots) (m : Bytes) : SufSet :=
  match methodRoot rs m with
  | some root => sufsKids root.children
  | none => []

theorem routeS_nil (hostPort path : Bytes) : routeS [] hostPort path = none := by
  unfold routeS
  simp [pathOnlyS_nil]

/-- **Central refinement, on the invariants checked at run time and preserved by every mutation**: on every tree that
    satisfies `wfRoots`, `hostOkRoots` and `patOkRoots`, for every method, every Host without '/' (after stripping port
    and trailing dot) and every path without empty segment, the router's lookup is the routing specification evaluated on
    the patterns registered for that method. -/
theorem lookup_eq_spec_roots (rs : Roots) (m hostPort path : Bytes)
    (hwf : wfRoots rs = true) (hho : hostOkRoots rs = true) (hpo : patOkRoots rs = true)
    (hn : noDbl path = true) (hs : SLASH ∉ stripHostPort hostPort) :
    lookup rs m hostPort path = toResult (routeS (sufsOfMethod rs m) hostPort path) := by
  unfold sufsOfMethod
  cases hm : methodRoot rs m with
  | none =>
    simp only [routeS_nil]
    unfold lookup
    rw [hm]; rfl
  | some root =>
    simp only
    exact lookup_eq_spec rs m hostPort path root hm (wfRoots_root hwf hm) (hostOkRoots_root hho hm)
      (lastOK_of_patOk (patOkRoots_root hpo hm)) hn hs

end Fox.Model
