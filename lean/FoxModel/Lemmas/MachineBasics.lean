import FoxModel.Lemmas.TsrRemove
import FoxModel.Model.Machine
/-
  Tools for relating the state machine of `Model/Machine.lean` to the enumerating walk of `Model/Lookup.lean`:

  * `pickC t evs`  — the answer of the Go function when the events `evs` are still to be explored and `t` is the
                      trailing-slash candidate recorded so far ("first candidate wins", "first direct match returns");
  * the algebra of `pickC` over concatenation (a block of events can be replaced by its own answer);
  * `walk_prefix_all` — the walk only ever appends to the parameters it starts with.
-/
namespace Fox.Model
open Fox

abbrev Cand := Option (Route × Binds)

def orTsr (t : Cand) (x : Route × Binds) : Cand :=
  match t with
  | some y => some y
  | none => some x

def fin (t : Cand) : Result :=
  match t with
  | some (r, ps) => .found r ps true
  | none => .none

def pickC (t : Cand) : List Ev → Result
  | [] => fin t
  | .direct r ps :: _ => .found r ps false
  | .bad :: _ => .bad
  | .tsr r ps :: evs => pickC (orTsr t (r, ps)) evs

@[simp] theorem orTsr_some (y x) : orTsr (some y) x = some y := rfl
@[simp] theorem orTsr_none (x) : orTsr none x = some x := rfl
@[simp] theorem orTsr_orTsr (t x y) : orTsr (orTsr t x) y = orTsr t x := by cases t <;> rfl
@[simp] theorem pickC_nil (t) : pickC t [] = fin t := rfl
@[simp] theorem pickC_direct (t r ps evs) : pickC t (.direct r ps :: evs) = .found r ps false := rfl
@[simp] theorem pickC_bad (t evs) : pickC t (.bad :: evs) = .bad := rfl
@[simp] theorem pickC_tsr (t r ps evs) : pickC t (.tsr r ps :: evs) = pickC (orTsr t (r, ps)) evs := rfl

/-- with a candidate already recorded, later candidates are ignored -/
theorem pickC_some (x : Route × Binds) (A : List Ev) :
    pickC (some x) A = (match pickC none A with
      | .none => fin (some x)
      | .found _ _ true => fin (some x)
      | res => res) := by
  induction A generalizing x with
  | nil => rfl
  | cons e A ih =>
    cases e with
    | direct r ps => rfl
    | bad => rfl
    | tsr r ps =>
      simp only [pickC_tsr, orTsr_some, orTsr_none]
      rw [ih x, ih (r, ps)]
      cases h : pickC none A with
      | none => rfl
      | bad => rfl
      | found r' ps' tsr' => cases tsr' <;> rfl

/-- a block of events can be replaced by its own answer -/
theorem pickC_append (t : Cand) (A B : List Ev) :
    pickC t (A ++ B) = (match pickC none A with
      | .none => pickC t B
      | .found r ps true => pickC (orTsr t (r, ps)) B
      | res => res) := by
  induction A generalizing t with
  | nil => rfl
  | cons e A ih =>
    cases e with
    | direct r ps => rfl
    | bad => rfl
    | tsr r ps =>
      simp only [List.cons_append, pickC_tsr, orTsr_none]
      rw [ih, pickC_some]
      cases h : pickC none A with
      | none => rfl
      | bad => rfl
      | found r' ps' tsr' => cases tsr' <;> simp [fin]

theorem pickC_append_nil_left (t : Cand) {A : List Ev} (B : List Ev) (h : A = []) : pickC t (A ++ B) = pickC t B := by
  subst h; rfl

/-- exploring the same alternative twice changes nothing -/
theorem pickC_dup (t : Cand) (A B : List Ev) : pickC t (A ++ (A ++ B)) = pickC t (A ++ B) := by
  rw [pickC_append t A (A ++ B)]
  cases h : pickC none A with
  | none => rfl
  | bad => rw [pickC_append t A B, h]
  | found r ps tsr =>
    cases tsr with
    | false => rw [pickC_append t A B, h]
    | true =>
      simp only []
      rw [pickC_append _ A B, pickC_append t A B, h]
      simp

theorem pickC_eq_find (t : Cand) (evs : List Ev) :
    pickC t evs = (match evs.find? nonTsr with
      | some (.direct r ps) => Result.found r ps false
      | some _ => .bad
      | none => fin (match t with | some x => some x | none => (tsrs evs).head?)) := by
  induction evs generalizing t with
  | nil => cases t <;> rfl
  | cons e evs ih =>
    cases e with
    | direct r ps => simp [List.find?_cons, nonTsr]
    | bad => simp [List.find?_cons, nonTsr]
    | tsr r ps =>
      rw [pickC_tsr, ih]
      simp only [List.find?_cons, nonTsr]
      cases hf : evs.find? nonTsr with
      | some e' => cases e' <;> rfl
      | none => cases t <;> simp

theorem pickC_none_eq_pick (evs : List Ev) : pickC none evs = pick evs := by
  rw [pickC_eq_find]
  unfold pick
  cases hf : evs.find? nonTsr with
  | some e' => cases e' <;> rfl
  | none =>
    simp only []
    rw [firstTsr_eq]
    cases tsrs evs with
    | nil => rfl
    | cons x xs => rfl

theorem walk_nil_cons (n pre pr es b rest ps) :
    walk n pre [] pr es (b :: rest) ps =
      (match n.route with
       | some r => if rest == [] && b == SLASH then [Ev.tsr r ps] else []
       | none => [])
      ++ (if b == STAR then [] else walkKids (.static b) n.children n.route es (b :: rest) ps)
      ++ walkKids .param n.children n.route es (b :: rest) ps
      ++ walkKids .catchAll n.children n.route es (b :: rest) ps := by
  conv => lhs; unfold walk
  rfl

/-- prefix a parameter list to every event -/
def Ev.pre (ps0 : Binds) : Ev → Ev
  | .direct r ps => .direct r (ps0 ++ ps)
  | .tsr r ps => .tsr r (ps0 ++ ps)
  | .bad => .bad

def Result.pre (ps0 : Binds) : Result → Result
  | .found r ps tsr => .found r (ps0 ++ ps) tsr
  | .none => .none
  | .bad => .bad

theorem pickC_map_pre (ps0 : Binds) (t : Cand) (evs : List Ev) :
    pickC (t.map fun x => (x.1, ps0 ++ x.2)) (evs.map (Ev.pre ps0)) = (pickC t evs).pre ps0 := by
  induction evs generalizing t with
  | nil => cases t <;> rfl
  | cons e evs ih =>
    cases e with
    | direct r ps => rfl
    | bad => rfl
    | tsr r ps =>
      simp only [List.map_cons, Ev.pre, pickC_tsr]
      rw [← ih]
      cases t <;> rfl

theorem pick_map_pre (ps0 : Binds) (evs : List Ev) : pickC none (evs.map (Ev.pre ps0)) = (pickC none evs).pre ps0 :=
  pickC_map_pre ps0 none evs

theorem midKeyEnd_pre (ps0 n pre k pr es ps) :
    midKeyEnd n pre k pr es (ps0 ++ ps) = (midKeyEnd n pre k pr es ps).map (Ev.pre ps0) := by
  unfold midKeyEnd
  split
  · split
    · split <;> simp [Ev.pre]
    · simp
  · split
    · split <;> simp [Ev.pre]
    · simp

/-- the walk only appends to the parameters it is started with -/
theorem walk_prefix_all (es : Bool) (ps0 : Binds) :
    (∀ n pre k pr path ps, walk n pre k pr es path (ps0 ++ ps) = (walk n pre k pr es path ps).map (Ev.pre ps0)) ∧
    (∀ inode nm acc rest ps, walkInfix inode nm acc rest es (ps0 ++ ps) = (walkInfix inode nm acc rest es ps).map (Ev.pre ps0)) ∧
    (∀ sel cs pr path ps, walkKids sel cs pr es path (ps0 ++ ps) = (walkKids sel cs pr es path ps).map (Ev.pre ps0)) := by
  apply walk.mutual_induct es
    (fun n pre k pr path ps => walk n pre k pr es path (ps0 ++ ps) = (walk n pre k pr es path ps).map (Ev.pre ps0))
    (fun inode nm acc rest ps => walkInfix inode nm acc rest es (ps0 ++ ps) = (walkInfix inode nm acc rest es ps).map (Ev.pre ps0))
    (fun sel cs pr path ps => walkKids sel cs pr es path (ps0 ++ ps) = (walkKids sel cs pr es path ps).map (Ev.pre ps0))
  · intro n pre pr ps p hr; unfold walk; simp [hr, Ev.pre]
  · intro n pre ps hr hes p hpre; unfold walk; simp [hr, hes, hpre, Ev.pre]
  · intro n pre ps hr hes p hpre; unfold walk; simp [hr, hes, hpre]
  · intro n pre ps hr hes; unfold walk; simp [hr, hes]
  · intro n pre pr ps hr hes c hc p hcr hlen; unfold walk; simp [hr, hes, hc, hcr, hlen, Ev.pre]
  · intro n pre pr ps hr hes c hc p hcr hlen; unfold walk; simp [hr, hes, hc, hcr, hlen]
  · intro n pre pr ps hr hes c hc hcr; unfold walk; simp [hr, hes, hc, hcr]
  · intro n pre pr ps hr hes hc; unfold walk; simp [hr, hes, hc]
  · intro n pre pr ps b rest ih1 ih2 ih3
    rw [walk_nil_cons, walk_nil_cons, ih1, ih2, ih3]
    simp only [List.map_append]
    congr 1; congr 1; congr 1
    · cases n.route with
      | none => rfl
      | some r => simp only []; split <;> simp [Ev.pre]
    · split <;> simp
  · intro n pre pr ps c k'; unfold walk; exact midKeyEnd_pre _ _ _ _ _ _ _
  · intro n pre pr ps k' b rest ih; rw [walk_lit_eq, walk_lit_eq]; exact ih
  · intro n pre pr ps c k' b rest hcb; rw [walk_lit_ne _ _ _ _ _ _ _ _ _ hcb, walk_lit_ne _ _ _ _ _ _ _ _ _ hcb]; rfl
  · intro n pre pr ps nm k'; unfold walk; exact midKeyEnd_pre _ _ _ _ _ _ _
  · intro n pre pr ps nm k' b rest h0; rw [walk_param_zero _ _ _ _ _ _ _ _ _ h0, walk_param_zero _ _ _ _ _ _ _ _ _ h0]; rfl
  · intro n pre pr ps nm k' b rest h0 ih
    rw [walk_param_step _ _ _ _ _ _ _ _ _ h0, walk_param_step _ _ _ _ _ _ _ _ _ h0, List.append_assoc]; exact ih
  · intro n pre pr ps nm k'; unfold walk; exact midKeyEnd_pre _ _ _ _ _ _ _
  · intro n pre pr ps nm b rest hcs p hr
    rw [walk_catch_leaf_some hcs hr, walk_catch_leaf_some hcs hr]; simp [Ev.pre]
  · intro n pre pr ps nm b rest hcs hr
    rw [walk_catch_leaf_none hcs hr, walk_catch_leaf_none hcs hr]; rfl
  · intro n pre pr ps nm b rest c tail hcs ih
    cases hr : n.route with
    | some r =>
      rw [walk_catch_child_some hcs hr, walk_catch_child_some hcs hr]
      split <;> simp [Ev.pre, ih]
    | none =>
      rw [walk_catch_child_none hcs hr, walk_catch_child_none hcs hr]
      split <;> simp [Ev.pre, ih]
  · intro n pre pr ps nm b rest t k'' ih
    conv => lhs; unfold walk
    conv => rhs; unfold walk
    simp only [List.map_append]
    congr 1
    · split
      · rfl
      · exact ih
    · split
      · rfl
      · cases n.route with
        | none => rfl
        | some r => simp only []; split <;> simp [Ev.pre]
  · intro inode nm acc ps; rw [walkInfix_nil, walkInfix_nil]; rfl
  · intro inode nm acc ps rest h; rw [walkInfix_slash_stop _ _ _ _ _ _ h, walkInfix_slash_stop _ _ _ _ _ _ h]; rfl
  · intro inode nm acc ps rest h ih1 ih2
    rw [walkInfix_slash_go _ _ _ _ _ _ h, walkInfix_slash_go _ _ _ _ _ _ h, List.append_assoc, ih1, ih2]; simp
  · intro inode nm acc ps b rest hb ih
    rw [walkInfix_other _ _ _ _ _ _ _ hb, walkInfix_other _ _ _ _ _ _ _ hb]; exact ih
  · intro sel pr path ps; rw [walkKids_nil, walkKids_nil]; rfl
  · intro sel pr path ps c cs' ih1 ih2
    rw [walkKids_cons, walkKids_cons, ih2]
    split
    · rw [ih1]; simp
    · simp

theorem walk_prefix (es : Bool) (ps0 : Binds) (n pre k pr path) :
    walk n pre k pr es path ps0 = (walk n pre k pr es path []).map (Ev.pre ps0) := by
  have := (walk_prefix_all es ps0).1 n pre k pr path []
  simpa using this

end Fox.Model
